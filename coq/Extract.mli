open Datatypes

val keep_nat : nat -> nat
