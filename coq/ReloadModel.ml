open BinNat
open BinNums
open Datatypes
open List

type variant =
| Legacy
| Fixed
| Ideal

(** val is_legacy : variant -> bool **)

let is_legacy = function
| Legacy -> true
| _ -> false

(** val track_panics : variant -> bool **)

let track_panics = function
| Ideal -> false
| _ -> true

type name = coq_N * coq_N option

(** val optN_eqb : coq_N option -> coq_N option -> bool **)

let optN_eqb a b =
  match a with
  | Some x -> (match b with
               | Some y -> N.eqb x y
               | None -> false)
  | None -> (match b with
             | Some _ -> false
             | None -> true)

(** val name_eqb : name -> name -> bool **)

let name_eqb a b =
  (&&) (N.eqb (fst a) (fst b)) (optN_eqb (snd a) (snd b))

(** val name_leb : name -> name -> bool **)

let name_leb a b =
  if N.ltb (fst a) (fst b)
  then true
  else if N.eqb (fst a) (fst b)
       then (match snd a with
             | Some x ->
               (match snd b with
                | Some y -> N.leb x y
                | None -> false)
             | None -> true)
       else false

(** val mem : name -> name list -> bool **)

let mem n l =
  existsb (name_eqb n) l

(** val nodupb : name list -> bool **)

let rec nodupb = function
| [] -> true
| x :: r -> (&&) (negb (mem x r)) (nodupb r)

(** val alookup : name -> (name * 'a1) list -> 'a1 option **)

let rec alookup n = function
| [] -> None
| p :: r -> let (k, x) = p in if name_eqb k n then Some x else alookup n r

(** val names : (name * 'a1) list -> name list **)

let names l =
  map fst l

type kind =
| KUnit
| KTarget

type srcs =
| SNone
| SOne of name
| SMany of name option list
| SBad

type comp = { c_ty : coq_N; c_src : srcs; c_ok : bool; c_vribs : coq_N;
              c_cfg : coq_N; c_up : name option }

type doc = { d_syntax : bool; d_top : bool; d_units : (name * comp) list;
             d_targets : (name * comp) list }

(** val expands : comp -> bool **)

let expands c =
  (&&) (N.eqb c.c_ty (Npos (Coq_xI Coq_xH)))
    (N.leb (Npos (Coq_xO Coq_xH)) c.c_vribs)

(** val vrib_chain :
    coq_N -> comp -> name -> coq_N -> nat -> (name * comp) list **)

let rec vrib_chain k c prev i = function
| O -> []
| S count' ->
  let nm = (k, (Some i)) in
  (nm, { c_ty = (Npos (Coq_xI Coq_xH)); c_src = (SMany ((Some prev) :: []));
  c_ok = c.c_ok; c_vribs = N0; c_cfg = c.c_cfg; c_up = (Some (k,
  None)) }) :: (vrib_chain k c nm (N.add i (Npos Coq_xH)) count')

(** val extra_of : (name * comp) -> (name * comp) list **)

let extra_of = function
| (n, c) ->
  if expands c
  then vrib_chain (fst n) c n N0 (N.to_nat (N.sub c.c_vribs (Npos Coq_xH)))
  else []

(** val remap_of : (name * comp) -> (name * name) list **)

let remap_of = function
| (n, c) ->
  if expands c
  then (n, ((fst n), (Some (N.sub c.c_vribs (Npos (Coq_xO Coq_xH)))))) :: []
  else []

(** val remap_name : (name * name) list -> name -> name **)

let remap_name rm s =
  match alookup s rm with
  | Some t -> t
  | None -> s

(** val remap_srcs : (name * name) list -> srcs -> srcs **)

let remap_srcs rm s = match s with
| SOne n -> SOne (remap_name rm n)
| SMany l -> SMany (map (option_map (remap_name rm)) l)
| _ -> s

(** val remap_comp : (name * name) list -> (name * comp) -> name * comp **)

let remap_comp rm = function
| (n, c) ->
  (n, { c_ty = c.c_ty; c_src = (remap_srcs rm c.c_src); c_ok = c.c_ok;
    c_vribs = c.c_vribs; c_cfg = c.c_cfg; c_up = c.c_up })

(** val bad_src : srcs -> bool **)

let bad_src = function
| SMany l -> existsb (fun o -> match o with
                               | Some _ -> false
                               | None -> true) l
| SBad -> true
| _ -> false

(** val expand : doc -> doc **)

let expand d =
  let rm = flat_map remap_of d.d_units in
  { d_syntax = d.d_syntax; d_top = d.d_top; d_units =
  (app (map (remap_comp rm) d.d_units) (flat_map extra_of d.d_units));
  d_targets = (map (remap_comp rm) d.d_targets) }

type cfres =
| CfErr
| CfPanic
| CfOk of doc

(** val cf_new : variant -> doc -> cfres **)

let cf_new v d =
  if (||) ((||) (negb d.d_syntax) (negb (nodupb (names d.d_units))))
       (negb (nodupb (names d.d_targets)))
  then CfErr
  else if (&&) (is_legacy v)
            (existsb (fun p -> bad_src (snd p).c_src)
              (app d.d_units d.d_targets))
       then CfPanic
       else CfOk (expand d)

type gates = (name * coq_N) list

(** val all_some : name option list -> name list option **)

let all_some l =
  fold_right (fun o acc ->
    match o with
    | Some x -> (match acc with
                 | Some r -> Some (x :: r)
                 | None -> None)
    | None -> None) (Some []) l

(** val src_accept : kind -> coq_N -> srcs -> name list option **)

let src_accept k ty s =
  match k with
  | KUnit ->
    if (||) (N.eqb ty (Npos (Coq_xO Coq_xH)))
         (N.eqb ty (Npos (Coq_xI Coq_xH)))
    then (match s with
          | SMany l -> (match l with
                        | [] -> None
                        | x :: r -> all_some (x :: r))
          | _ -> None)
    else Some []
  | KTarget ->
    if N.eqb ty N0
    then (match s with
          | SOne n -> Some (n :: [])
          | _ -> None)
    else if N.eqb ty (Npos Coq_xH)
         then (match s with
               | SMany l ->
                 (match l with
                  | [] -> None
                  | x :: r -> all_some (x :: r))
               | _ -> None)
         else (match s with
               | SOne n -> Some (n :: [])
               | SMany l -> all_some l
               | _ -> None)

(** val known_type : kind -> coq_N -> bool **)

let known_type k ty =
  match k with
  | KUnit -> N.ltb ty (Npos (Coq_xI (Coq_xO Coq_xH)))
  | KTarget -> N.ltb ty (Npos (Coq_xI Coq_xH))

(** val has_settings : kind -> coq_N -> bool **)

let has_settings k ty =
  match k with
  | KUnit -> true
  | KTarget -> negb (N.eqb ty (Npos (Coq_xO Coq_xH)))

(** val comp_links : kind -> comp -> name list option **)

let comp_links k c =
  if negb (known_type k c.c_ty)
  then None
  else if (&&) (has_settings k c.c_ty) (negb c.c_ok)
       then None
       else (match src_accept k c.c_ty c.c_src with
             | Some l ->
               Some (app l (match c.c_up with
                            | Some u -> u :: []
                            | None -> []))
             | None -> None)

(** val load_link : coq_N -> gates -> name -> (name * coq_N) * gates **)

let load_link gen g n =
  match alookup n g with
  | Some k -> ((n, k), g)
  | None -> ((n, gen), ((n, gen) :: g))

(** val load_links :
    coq_N -> gates -> name list -> (name * coq_N) list * gates **)

let rec load_links gen g = function
| [] -> ([], g)
| n :: r ->
  let (x, g1) = load_link gen g n in
  let (xs, g2) = load_links gen g1 r in ((x :: xs), g2)

type lcomp = { lc_ty : coq_N; lc_cfg : coq_N; lc_links : (name * coq_N) list }

(** val load_comps :
    kind -> coq_N -> gates -> (name * comp) list -> (name * lcomp) list
    option * gates **)

let rec load_comps k gen g = function
| [] -> ((Some []), g)
| p :: r ->
  let (n, c) = p in
  (match comp_links k c with
   | Some ns ->
     let (lk, g1) = load_links gen g ns in
     let (res, g2) = load_comps k gen g1 r in
     ((option_map (fun x -> (n, { lc_ty = c.c_ty; lc_cfg = c.c_cfg;
        lc_links = lk }) :: x) res), g2)
   | None -> (None, g))

(** val insert_sorted :
    (name * 'a1) -> (name * 'a1) list -> (name * 'a1) list **)

let rec insert_sorted p = function
| [] -> p :: []
| q :: r ->
  if name_leb (fst p) (fst q) then p :: (q :: r) else q :: (insert_sorted p r)

(** val sort_by_name : (name * 'a1) list -> (name * 'a1) list **)

let sort_by_name l =
  fold_right insert_sorted [] l

type lconfig = { l_units : (name * lcomp) list;
                 l_targets : (name * lcomp) list }

type rcomp = { r_ty : coq_N; r_gate : coq_N; r_cfg : coq_N;
               r_links : (name * coq_N) list }

type mgr = { m_units : (name * rcomp) list; m_targets : (name * rcomp) list;
             m_pending : gates; m_gates : gates; m_gen : coq_N }

(** val mgr_new : mgr **)

let mgr_new =
  { m_units = []; m_targets = []; m_pending = []; m_gates = []; m_gen = N0 }

(** val mgr_load : variant -> mgr -> doc -> lconfig option * gates **)

let mgr_load v m d =
  let gen = N.add m.m_gen (Npos Coq_xH) in
  let g0 = if is_legacy v then m.m_gates else [] in
  let (ts, g1) = load_comps KTarget gen g0 (sort_by_name d.d_targets) in
  (match ts with
   | Some ts0 ->
     let (us, g2) = load_comps KUnit gen g1 (sort_by_name d.d_units) in
     (match us with
      | Some us0 ->
        if d.d_top
        then ((Some { l_units = us0; l_targets = ts0 }), g2)
        else (None, g2)
      | None -> (None, g2))
   | None -> (None, g1))

(** val prepare_legacy : name list -> gates -> gates -> bool * gates **)

let rec prepare_legacy unit_names g pending =
  match g with
  | [] -> (true, pending)
  | p :: r ->
    let (n, k) = p in
    if mem n unit_names
    then prepare_legacy unit_names r ((n, k) :: pending)
    else (false, pending)

(** val prepare : variant -> mgr -> lconfig -> gates -> bool * mgr **)

let prepare v m lc g =
  let un = names lc.l_units in
  if is_legacy v
  then let (ok, p) = prepare_legacy un (sort_by_name g) m.m_pending in
       (ok, { m_units = m.m_units; m_targets = m.m_targets; m_pending = p;
       m_gates = []; m_gen = m.m_gen })
  else if forallb (fun p -> mem (fst p) un) g
       then (true, { m_units = m.m_units; m_targets = m.m_targets;
              m_pending = g; m_gates = []; m_gen = m.m_gen })
       else (false, { m_units = m.m_units; m_targets = m.m_targets;
              m_pending = m.m_pending; m_gates = []; m_gen = m.m_gen })

type action =
| ASpawn of kind * name
| AReconf of kind * name
| ATerm of kind * name

(** val gate_for : kind -> gates -> name -> coq_N option **)

let gate_for k pending n =
  match k with
  | KUnit -> alookup n pending
  | KTarget -> Some N0

(** val comp_actions :
    kind -> (name * rcomp) list -> gates -> (name * lcomp) -> action list **)

let comp_actions k running pending = function
| (n, lc) ->
  (match gate_for k pending n with
   | Some _ ->
     (match alookup n running with
      | Some r ->
        if N.eqb r.r_ty lc.lc_ty
        then (AReconf (k, n)) :: []
        else (ATerm (k, n)) :: ((ASpawn (k, n)) :: [])
      | None -> (ASpawn (k, n)) :: [])
   | None ->
     (match alookup n running with
      | Some _ -> (ATerm (k, n)) :: []
      | None -> []))

(** val started : kind -> gates -> (name * lcomp) -> (name * rcomp) list **)

let started k pending = function
| (n, lc) ->
  (match gate_for k pending n with
   | Some g ->
     (n, { r_ty = lc.lc_ty; r_gate = g; r_cfg = lc.lc_cfg; r_links =
       lc.lc_links }) :: []
   | None -> [])

(** val gone : kind -> name list -> (name * rcomp) list -> action list **)

let gone k new_names running =
  map (fun p -> ATerm (k, (fst p)))
    (filter (fun p -> negb (mem (fst p) new_names)) running)

(** val spawned : kind -> action list -> name list **)

let spawned k acts =
  flat_map (fun a ->
    match a with
    | ASpawn (k', n) ->
      (match k with
       | KUnit -> (match k' with
                   | KUnit -> n :: []
                   | KTarget -> [])
       | KTarget -> (match k' with
                     | KUnit -> []
                     | KTarget -> n :: []))
    | _ -> []) acts

(** val track_clash : action list -> bool **)

let track_clash acts =
  existsb (fun n -> mem n (spawned KTarget acts)) (spawned KUnit acts)

(** val kind_actions :
    kind -> (name * rcomp) list -> gates -> (name * lcomp) list -> action list **)

let kind_actions k running pending l =
  app (flat_map (comp_actions k running pending) l) (gone k (names l) running)

(** val spawn : mgr -> lconfig -> action list * mgr **)

let spawn m lc =
  let acts =
    app (kind_actions KTarget m.m_targets m.m_pending lc.l_targets)
      (kind_actions KUnit m.m_units m.m_pending lc.l_units)
  in
  (acts, { m_units = (flat_map (started KUnit m.m_pending) lc.l_units);
  m_targets = (flat_map (started KTarget m.m_pending) lc.l_targets);
  m_pending =
  (filter (fun p -> negb (mem (fst p) (names lc.l_units))) m.m_pending);
  m_gates = m.m_gates; m_gen = m.m_gen })

type rres =
| RPanic
| RErr
| ROk of action list

(** val reload : variant -> mgr -> doc -> rres * mgr **)

let reload v m d =
  match cf_new v d with
  | CfErr -> (RErr, m)
  | CfPanic -> (RPanic, m)
  | CfOk xd ->
    let (olc, g) = mgr_load v m xd in
    let m1 = { m_units = m.m_units; m_targets = m.m_targets; m_pending =
      m.m_pending; m_gates = g; m_gen = (N.add m.m_gen (Npos Coq_xH)) }
    in
    (match olc with
     | Some lc ->
       let (ok, m2) = prepare v m1 lc g in
       if ok
       then let (acts, m3) = spawn m2 lc in
            if (&&) (track_panics v) (track_clash acts)
            then (RPanic, m3)
            else ((ROk acts), m3)
       else (RErr, m2)
     | None -> (RErr, m1))

(** val resolve : mgr -> (name * coq_N) -> name option **)

let resolve m l =
  match alookup (fst l) m.m_units with
  | Some u -> if N.eqb u.r_gate (snd l) then Some (fst l) else None
  | None -> None

(** val wiring : mgr -> rcomp -> name option list **)

let wiring m r =
  map (resolve m) r.r_links

(** val all_links : doc -> name list **)

let all_links d =
  app
    (flat_map (fun p ->
      match comp_links KTarget (snd p) with
      | Some l -> l
      | None -> []) d.d_targets)
    (flat_map (fun p ->
      match comp_links KUnit (snd p) with
      | Some l -> l
      | None -> []) d.d_units)

(** val doc_ok : doc -> bool **)

let doc_ok d =
  (&&)
    ((&&)
      ((&&)
        ((&&)
          ((&&) ((&&) d.d_syntax (nodupb (names d.d_units)))
            (nodupb (names d.d_targets))) d.d_top)
        (forallb (fun p ->
          match comp_links KTarget (snd p) with
          | Some _ -> true
          | None -> false) (expand d).d_targets))
      (forallb (fun p ->
        match comp_links KUnit (snd p) with
        | Some _ -> true
        | None -> false) (expand d).d_units))
    (forallb (fun n -> mem n (names (expand d).d_units))
      (all_links (expand d)))
