open Datatypes

type __ = Obj.t

(** val from_option : ('a1 -> 'a2) -> 'a2 -> 'a1 option -> 'a2 **)

let from_option f y = function
| Some x -> f x
| None -> y

(** val option_fmap : (__ -> __) -> __ option -> __ option **)

let option_fmap =
  option_map
