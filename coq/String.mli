open Ascii

type string =
| EmptyString
| String of ascii * string
