open BinNat
open BinNums

type ascii =
| Ascii of bool * bool * bool * bool * bool * bool * bool * bool

(** val coq_N_of_digits : bool list -> coq_N **)

let rec coq_N_of_digits = function
| [] -> N0
| b :: l' ->
  N.add (if b then Npos Coq_xH else N0)
    (N.mul (Npos (Coq_xO Coq_xH)) (coq_N_of_digits l'))

(** val coq_N_of_ascii : ascii -> coq_N **)

let coq_N_of_ascii = function
| Ascii (a0, a1, a2, a3, a4, a5, a6, a7) ->
  coq_N_of_digits
    (a0 :: (a1 :: (a2 :: (a3 :: (a4 :: (a5 :: (a6 :: (a7 :: []))))))))
