open Datatypes

val sub : nat -> nat -> nat
