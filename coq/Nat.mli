open Datatypes

val add : nat -> nat -> nat

val eqb : nat -> nat -> bool

val leb : nat -> nat -> bool

val ltb : nat -> nat -> bool
