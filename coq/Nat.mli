open Datatypes

val add : nat -> nat -> nat
