open Datatypes

val add : nat -> nat -> nat

val eqb : nat -> nat -> bool
