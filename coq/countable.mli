open BinNums
open BinPos
open Base
open Numbers

type 'a coq_Countable = { encode : ('a -> positive);
                          decode : (positive -> 'a option) }

val coq_N_countable : coq_N coq_Countable
