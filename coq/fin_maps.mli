open Base

type ('k, 'a, 'm) coq_FinMapToList = 'm -> ('k * 'a) list

val map_to_list : ('a1, 'a2, 'a3) coq_FinMapToList -> 'a3 -> ('a1 * 'a2) list

val map_insert :
  ('a1, 'a2, 'a3) coq_PartialAlter -> ('a1, 'a2, 'a3) coq_Insert
