open BinNat
open BinNums
open Datatypes
open List
open Nat

(** val byte_ok : coq_N -> bool **)

let byte_ok b =
  N.ltb b (Npos (Coq_xO (Coq_xO (Coq_xO (Coq_xO (Coq_xO (Coq_xO (Coq_xO
    (Coq_xO Coq_xH)))))))))

(** val bytes_ok : coq_N list -> bool **)

let bytes_ok l =
  forallb byte_ok l

(** val lenN : 'a1 list -> coq_N **)

let lenN l =
  N.of_nat (length l)

(** val enc_u16 : coq_N -> coq_N list **)

let enc_u16 n =
  (N.div n (Npos (Coq_xO (Coq_xO (Coq_xO (Coq_xO (Coq_xO (Coq_xO (Coq_xO
    (Coq_xO Coq_xH)))))))))) :: ((N.modulo n (Npos (Coq_xO (Coq_xO (Coq_xO
                                   (Coq_xO (Coq_xO (Coq_xO (Coq_xO (Coq_xO
                                   Coq_xH)))))))))) :: [])

(** val u16 : coq_N -> coq_N -> coq_N **)

let u16 hi lo =
  N.add
    (N.mul hi (Npos (Coq_xO (Coq_xO (Coq_xO (Coq_xO (Coq_xO (Coq_xO (Coq_xO
      (Coq_xO Coq_xH)))))))))) lo

(** val take_n : coq_N -> coq_N list -> (coq_N list * coq_N list) option **)

let take_n n b =
  let k = N.to_nat n in
  if leb k (length b) then Some ((firstn k b), (skipn k b)) else None

type fam =
| F4U
| F4M
| F6U
| F6M

(** val fam_afi : fam -> coq_N **)

let fam_afi = function
| F4U -> Npos Coq_xH
| F4M -> Npos Coq_xH
| _ -> Npos (Coq_xO Coq_xH)

(** val fam_safi : fam -> coq_N **)

let fam_safi = function
| F4U -> Npos Coq_xH
| F6U -> Npos Coq_xH
| _ -> Npos (Coq_xO Coq_xH)

(** val fam_maxlen : fam -> coq_N **)

let fam_maxlen = function
| F4U -> Npos (Coq_xO (Coq_xO (Coq_xO (Coq_xO (Coq_xO Coq_xH)))))
| F4M -> Npos (Coq_xO (Coq_xO (Coq_xO (Coq_xO (Coq_xO Coq_xH)))))
| _ ->
  Npos (Coq_xO (Coq_xO (Coq_xO (Coq_xO (Coq_xO (Coq_xO (Coq_xO Coq_xH)))))))

(** val fam_of : coq_N -> coq_N -> fam option **)

let fam_of afi safi =
  match afi with
  | N0 -> None
  | Npos p ->
    (match p with
     | Coq_xI _ -> None
     | Coq_xO p0 ->
       (match p0 with
        | Coq_xH ->
          (match safi with
           | N0 -> None
           | Npos p1 ->
             (match p1 with
              | Coq_xI _ -> None
              | Coq_xO p2 -> (match p2 with
                              | Coq_xH -> Some F6M
                              | _ -> None)
              | Coq_xH -> Some F6U))
        | _ -> None)
     | Coq_xH ->
       (match safi with
        | N0 -> None
        | Npos p0 ->
          (match p0 with
           | Coq_xI _ -> None
           | Coq_xO p1 -> (match p1 with
                           | Coq_xH -> Some F4M
                           | _ -> None)
           | Coq_xH -> Some F4U)))

type pfx = { p_len : coq_N; p_bytes : coq_N list }

(** val nbytes : coq_N -> coq_N **)

let nbytes len =
  N.div (N.add len (Npos (Coq_xI (Coq_xI Coq_xH)))) (Npos (Coq_xO (Coq_xO
    (Coq_xO Coq_xH))))

(** val tail_mod : coq_N -> coq_N **)

let tail_mod len =
  N.pow (Npos (Coq_xO Coq_xH))
    (N.modulo
      (N.sub (Npos (Coq_xO (Coq_xO (Coq_xO Coq_xH))))
        (N.modulo len (Npos (Coq_xO (Coq_xO (Coq_xO Coq_xH)))))) (Npos
      (Coq_xO (Coq_xO (Coq_xO Coq_xH)))))

(** val mask_byte : coq_N -> coq_N -> coq_N **)

let mask_byte len b =
  N.sub b (N.modulo b (tail_mod len))

(** val mask_last : coq_N -> coq_N list -> coq_N list **)

let rec mask_last len = function
| [] -> []
| b :: r ->
  (match r with
   | [] -> (mask_byte len b) :: []
   | _ :: _ -> b :: (mask_last len r))

(** val trailing_ok : coq_N -> coq_N list -> bool **)

let trailing_ok len bs =
  N.eqb (N.modulo (last bs N0) (tail_mod len)) N0

(** val pfx_wf : coq_N -> pfx -> bool **)

let pfx_wf maxlen p =
  (&&)
    ((&&)
      ((&&) (N.leb p.p_len maxlen) (N.eqb (lenN p.p_bytes) (nbytes p.p_len)))
      (bytes_ok p.p_bytes)) (trailing_ok p.p_len p.p_bytes)

(** val enc_pfx : pfx -> coq_N list **)

let enc_pfx p =
  p.p_len :: p.p_bytes

(** val enc_pfxs : pfx list -> coq_N list **)

let enc_pfxs ps =
  flat_map enc_pfx ps

type mode =
| Rfc
| Code

(** val strict : mode -> bool **)

let strict = function
| Rfc -> false
| Code -> true

(** val dec_pfxs : mode -> coq_N -> nat -> coq_N list -> pfx list option **)

let rec dec_pfxs m maxlen fuel = function
| [] -> Some []
| len :: rest ->
  (match fuel with
   | O -> None
   | S fuel' ->
     if N.leb len maxlen
     then (match take_n (nbytes len) rest with
           | Some p ->
             let (bs, rest') = p in
             if (&&) (strict m) (negb (trailing_ok len bs))
             then None
             else (match dec_pfxs m maxlen fuel' rest' with
                   | Some ps ->
                     Some ({ p_len = len; p_bytes =
                       (mask_last len bs) } :: ps)
                   | None -> None)
           | None -> None)
     else None)

type mpnlri =
| MpPfx of fam * pfx list
| MpOther of coq_N * coq_N * coq_N list

type attr =
| AGen of coq_N * coq_N * coq_N list
| AReach of coq_N * coq_N list * coq_N * mpnlri
| AUnreach of coq_N * mpnlri

(** val a_flags : attr -> coq_N **)

let a_flags = function
| AGen (fl, _, _) -> fl
| AReach (fl, _, _, _) -> fl
| AUnreach (fl, _) -> fl

(** val a_type : attr -> coq_N **)

let a_type = function
| AGen (_, ty, _) -> ty
| AReach (_, _, _, _) -> Npos (Coq_xO (Coq_xI (Coq_xI Coq_xH)))
| AUnreach (_, _) -> Npos (Coq_xI (Coq_xI (Coq_xI Coq_xH)))

(** val mp_afi : mpnlri -> coq_N **)

let mp_afi = function
| MpPfx (f, _) -> fam_afi f
| MpOther (a, _, _) -> a

(** val mp_safi : mpnlri -> coq_N **)

let mp_safi = function
| MpPfx (f, _) -> fam_safi f
| MpOther (_, s, _) -> s

(** val enc_mpnlri : mpnlri -> coq_N list **)

let enc_mpnlri = function
| MpPfx (_, ps) -> enc_pfxs ps
| MpOther (_, _, raw) -> raw

(** val enc_afisafi : mpnlri -> coq_N list **)

let enc_afisafi n =
  app (enc_u16 (mp_afi n)) ((mp_safi n) :: [])

(** val a_value : attr -> coq_N list **)

let a_value = function
| AGen (_, _, v) -> v
| AReach (_, nh, rsv, n) ->
  app (enc_afisafi n) ((lenN nh) :: (app nh (rsv :: (enc_mpnlri n))))
| AUnreach (_, n) -> app (enc_afisafi n) (enc_mpnlri n)

(** val ext_len : coq_N -> bool **)

let ext_len fl =
  N.testbit fl (Npos (Coq_xO (Coq_xO Coq_xH)))

(** val enc_attr : attr -> coq_N list **)

let enc_attr a =
  let v = a_value a in
  (a_flags a) :: ((a_type a) :: (app
                                  (if ext_len (a_flags a)
                                   then enc_u16 (lenN v)
                                   else (lenN v) :: []) v))

(** val enc_attrs : attr list -> coq_N list **)

let enc_attrs l =
  flat_map enc_attr l

(** val dec_mpnlri : mode -> coq_N -> coq_N -> coq_N list -> mpnlri option **)

let dec_mpnlri m afi safi body =
  match fam_of afi safi with
  | Some f ->
    (match dec_pfxs m (fam_maxlen f) (length body) body with
     | Some ps -> Some (MpPfx (f, ps))
     | None -> None)
  | None -> Some (MpOther (afi, safi, body))

(** val dec_attr_val :
    mode -> bool -> bool -> coq_N -> coq_N -> coq_N list -> attr option **)

let dec_attr_val m s14 s15 fl ty v =
  if (&&) (N.eqb ty (Npos (Coq_xO (Coq_xI (Coq_xI Coq_xH))))) (negb s14)
  then (match v with
        | [] -> None
        | ah :: l ->
          (match l with
           | [] -> None
           | al :: l0 ->
             (match l0 with
              | [] -> None
              | sf :: l1 ->
                (match l1 with
                 | [] -> None
                 | nhl :: r ->
                   (match take_n nhl r with
                    | Some p ->
                      let (nh, l2) = p in
                      (match l2 with
                       | [] -> None
                       | rsv :: body ->
                         (match dec_mpnlri m (u16 ah al) sf body with
                          | Some n -> Some (AReach (fl, nh, rsv, n))
                          | None -> None))
                    | None -> None)))))
  else if (&&) (N.eqb ty (Npos (Coq_xI (Coq_xI (Coq_xI Coq_xH))))) (negb s15)
       then (match v with
             | [] -> None
             | ah :: l ->
               (match l with
                | [] -> None
                | al :: l0 ->
                  (match l0 with
                   | [] -> None
                   | sf :: body ->
                     (match dec_mpnlri m (u16 ah al) sf body with
                      | Some n -> Some (AUnreach (fl, n))
                      | None -> None))))
       else if (&&)
                 ((||) (N.eqb ty (Npos (Coq_xO (Coq_xI (Coq_xI Coq_xH)))))
                   (N.eqb ty (Npos (Coq_xI (Coq_xI (Coq_xI Coq_xH))))))
                 (ltb (length v) (S (S (S O))))
            then None
            else Some (AGen (fl, ty, v))

(** val seen : mode -> bool -> coq_N -> coq_N -> bool **)

let seen m s ty k =
  (||) s ((&&) (strict m) (N.eqb ty k))

(** val dec_attrs :
    mode -> bool -> bool -> nat -> coq_N list -> attr list option **)

let rec dec_attrs m s14 s15 fuel = function
| [] -> Some []
| fl :: l ->
  (match l with
   | [] -> None
   | ty :: rest ->
     (match fuel with
      | O -> None
      | S fuel' ->
        let hdr =
          if ext_len fl
          then (match rest with
                | [] -> None
                | hi :: l0 ->
                  (match l0 with
                   | [] -> None
                   | lo :: r -> Some ((u16 hi lo), r)))
          else (match rest with
                | [] -> None
                | l0 :: r -> Some (l0, r))
        in
        (match hdr with
         | Some p ->
           let (n, r) = p in
           (match take_n n r with
            | Some p0 ->
              let (v, rest') = p0 in
              (match dec_attr_val m s14 s15 fl ty v with
               | Some a ->
                 (match dec_attrs m
                          (seen m s14 ty (Npos (Coq_xO (Coq_xI (Coq_xI
                            Coq_xH)))))
                          (seen m s15 ty (Npos (Coq_xI (Coq_xI (Coq_xI
                            Coq_xH))))) fuel' rest' with
                  | Some l0 -> Some (a :: l0)
                  | None -> None)
               | None -> None)
            | None -> None)
         | None -> None)))

type update = { u_wd : pfx list; u_attrs : attr list; u_nlri : pfx list }

(** val marker : coq_N list **)

let marker =
  repeat (Npos (Coq_xI (Coq_xI (Coq_xI (Coq_xI (Coq_xI (Coq_xI (Coq_xI
    Coq_xH)))))))) (S (S (S (S (S (S (S (S (S (S (S (S (S (S (S (S
    O))))))))))))))))

(** val enc_body : update -> coq_N list **)

let enc_body u =
  let w = enc_pfxs u.u_wd in
  let a = enc_attrs u.u_attrs in
  app (enc_u16 (lenN w))
    (app w (app (enc_u16 (lenN a)) (app a (enc_pfxs u.u_nlri))))

(** val encode : update -> coq_N list **)

let encode u =
  let body = enc_body u in
  app marker
    (app
      (enc_u16
        (N.add (Npos (Coq_xI (Coq_xI (Coq_xO (Coq_xO Coq_xH))))) (lenN body)))
      ((Npos (Coq_xO Coq_xH)) :: body))

(** val is_reach : attr -> bool **)

let is_reach a =
  N.eqb (a_type a) (Npos (Coq_xO (Coq_xI (Coq_xI Coq_xH))))

(** val is_unreach : attr -> bool **)

let is_unreach a =
  N.eqb (a_type a) (Npos (Coq_xI (Coq_xI (Coq_xI Coq_xH))))

(** val count_if : ('a1 -> bool) -> 'a1 list -> nat **)

let count_if f l =
  length (filter f l)

(** val mp_unique : attr list -> bool **)

let mp_unique l =
  (&&) (leb (count_if is_reach l) (S O)) (leb (count_if is_unreach l) (S O))

(** val list_eqb : coq_N list -> coq_N list -> bool **)

let list_eqb x y =
  (&&) (eqb (length x) (length y))
    (forallb (fun p -> N.eqb (fst p) (snd p)) (combine x y))

(** val dec_body : mode -> coq_N list -> update option **)

let dec_body m = function
| [] -> None
| wh :: l ->
  (match l with
   | [] -> None
   | wl :: r1 ->
     (match take_n (u16 wh wl) r1 with
      | Some p ->
        let (w, l0) = p in
        (match l0 with
         | [] -> None
         | ah :: l1 ->
           (match l1 with
            | [] -> None
            | al :: r3 ->
              (match take_n (u16 ah al) r3 with
               | Some p0 ->
                 let (a, n) = p0 in
                 (match dec_pfxs m (Npos (Coq_xO (Coq_xO (Coq_xO (Coq_xO
                          (Coq_xO Coq_xH)))))) (length w) w with
                  | Some wd ->
                    (match dec_attrs m false false (length a) a with
                     | Some attrs ->
                       (match dec_pfxs m (Npos (Coq_xO (Coq_xO (Coq_xO
                                (Coq_xO (Coq_xO Coq_xH)))))) (length n) n with
                        | Some nlri ->
                          if (||) (strict m) (mp_unique attrs)
                          then Some { u_wd = wd; u_attrs = attrs; u_nlri =
                                 nlri }
                          else None
                        | None -> None)
                     | None -> None)
                  | None -> None)
               | None -> None)))
      | None -> None))

(** val decode : mode -> coq_N list -> update option **)

let decode m b =
  match take_n (Npos (Coq_xO (Coq_xO (Coq_xO (Coq_xO Coq_xH))))) b with
  | Some p ->
    let (mk, l) = p in
    (match l with
     | [] -> None
     | lh :: l0 ->
       (match l0 with
        | [] -> None
        | ll :: l1 ->
          (match l1 with
           | [] -> None
           | ty :: body ->
             if (&&)
                  ((&&)
                    ((&&) (list_eqb mk marker)
                      (N.eqb ty (Npos (Coq_xO Coq_xH))))
                    (N.eqb (u16 lh ll)
                      (N.add (Npos (Coq_xI (Coq_xI (Coq_xO (Coq_xO
                        Coq_xH))))) (lenN body)))) (bytes_ok b)
             then dec_body m body
             else None)))
  | None -> None

type ev =
| EvA of fam * pfx * attr list
| EvW of fam * pfx

(** val mp_routes : mpnlri -> (fam * pfx) list **)

let mp_routes = function
| MpPfx (f, ps) -> map (fun x -> (f, x)) ps
| MpOther (_, _, _) -> []

(** val first_reach : attr list -> mpnlri option **)

let rec first_reach = function
| [] -> None
| a :: r -> (match a with
             | AReach (_, _, _, n) -> Some n
             | _ -> first_reach r)

(** val first_unreach : attr list -> mpnlri option **)

let rec first_unreach = function
| [] -> None
| a :: r -> (match a with
             | AUnreach (_, n) -> Some n
             | _ -> first_unreach r)

(** val opt_routes : mpnlri option -> (fam * pfx) list **)

let opt_routes = function
| Some n -> mp_routes n
| None -> []

(** val events : update -> ev list **)

let events u =
  app
    (map (fun fp -> EvA ((fst fp), (snd fp), u.u_attrs))
      (app (opt_routes (first_reach u.u_attrs))
        (map (fun x -> (F4U, x)) u.u_nlri)))
    (map (fun fp -> EvW ((fst fp), (snd fp)))
      (app (opt_routes (first_unreach u.u_attrs))
        (map (fun x -> (F4U, x)) u.u_wd)))

(** val events_of_bytes : mode -> coq_N list -> ev list option **)

let events_of_bytes m b =
  match decode m b with
  | Some u -> Some (events u)
  | None -> None

(** val mpnlri_wf : mpnlri -> bool **)

let mpnlri_wf = function
| MpPfx (f, ps) -> forallb (pfx_wf (fam_maxlen f)) ps
| MpOther (afi, safi, raw) ->
  (&&)
    ((&&)
      ((&&)
        (N.ltb afi (Npos (Coq_xO (Coq_xO (Coq_xO (Coq_xO (Coq_xO (Coq_xO
          (Coq_xO (Coq_xO (Coq_xO (Coq_xO (Coq_xO (Coq_xO (Coq_xO (Coq_xO
          (Coq_xO (Coq_xO Coq_xH))))))))))))))))))
        (N.ltb safi (Npos (Coq_xO (Coq_xO (Coq_xO (Coq_xO (Coq_xO (Coq_xO
          (Coq_xO (Coq_xO Coq_xH))))))))))) (bytes_ok raw))
    (match fam_of afi safi with
     | Some _ -> false
     | None -> true)

(** val attr_wf : attr -> bool **)

let attr_wf a =
  (&&)
    ((&&)
      ((&&) ((&&) (byte_ok (a_flags a)) (byte_ok (a_type a)))
        (bytes_ok (a_value a)))
      (N.ltb (lenN (a_value a))
        (if ext_len (a_flags a)
         then Npos (Coq_xO (Coq_xO (Coq_xO (Coq_xO (Coq_xO (Coq_xO (Coq_xO
                (Coq_xO (Coq_xO (Coq_xO (Coq_xO (Coq_xO (Coq_xO (Coq_xO
                (Coq_xO (Coq_xO Coq_xH))))))))))))))))
         else Npos (Coq_xO (Coq_xO (Coq_xO (Coq_xO (Coq_xO (Coq_xO (Coq_xO
                (Coq_xO Coq_xH)))))))))))
    (match a with
     | AGen (_, ty, _) ->
       (&&) (negb (N.eqb ty (Npos (Coq_xO (Coq_xI (Coq_xI Coq_xH))))))
         (negb (N.eqb ty (Npos (Coq_xI (Coq_xI (Coq_xI Coq_xH))))))
     | AReach (_, nh, _, n) ->
       (&&)
         (N.ltb (lenN nh) (Npos (Coq_xO (Coq_xO (Coq_xO (Coq_xO (Coq_xO
           (Coq_xO (Coq_xO (Coq_xO Coq_xH)))))))))) (mpnlri_wf n)
     | AUnreach (_, n) -> mpnlri_wf n)

(** val wf : update -> bool **)

let wf u =
  (&&)
    ((&&)
      ((&&)
        ((&&)
          ((&&)
            ((&&)
              (forallb
                (pfx_wf (Npos (Coq_xO (Coq_xO (Coq_xO (Coq_xO (Coq_xO
                  Coq_xH))))))) u.u_wd) (forallb attr_wf u.u_attrs))
            (forallb
              (pfx_wf (Npos (Coq_xO (Coq_xO (Coq_xO (Coq_xO (Coq_xO
                Coq_xH))))))) u.u_nlri)) (mp_unique u.u_attrs))
        (N.ltb (lenN (enc_pfxs u.u_wd)) (Npos (Coq_xO (Coq_xO (Coq_xO (Coq_xO
          (Coq_xO (Coq_xO (Coq_xO (Coq_xO (Coq_xO (Coq_xO (Coq_xO (Coq_xO
          (Coq_xO (Coq_xO (Coq_xO (Coq_xO Coq_xH)))))))))))))))))))
      (N.ltb (lenN (enc_attrs u.u_attrs)) (Npos (Coq_xO (Coq_xO (Coq_xO
        (Coq_xO (Coq_xO (Coq_xO (Coq_xO (Coq_xO (Coq_xO (Coq_xO (Coq_xO
        (Coq_xO (Coq_xO (Coq_xO (Coq_xO (Coq_xO Coq_xH)))))))))))))))))))
    (N.ltb
      (N.add (Npos (Coq_xI (Coq_xI (Coq_xO (Coq_xO Coq_xH)))))
        (lenN (enc_body u))) (Npos (Coq_xO (Coq_xO (Coq_xO (Coq_xO (Coq_xO
      (Coq_xO (Coq_xO (Coq_xO (Coq_xO (Coq_xO (Coq_xO (Coq_xO (Coq_xO (Coq_xO
      (Coq_xO (Coq_xO Coq_xH))))))))))))))))))

(** val is_eor : update -> bool **)

let is_eor u =
  let { u_wd = u_wd0; u_attrs = u_attrs0; u_nlri = u_nlri0 } = u in
  (match u_wd0 with
   | [] ->
     (match u_attrs0 with
      | [] -> (match u_nlri0 with
               | [] -> true
               | _ :: _ -> false)
      | a :: l ->
        (match a with
         | AUnreach (_, n) ->
           (match n with
            | MpPfx (_, ps) ->
              (match ps with
               | [] ->
                 (match l with
                  | [] -> (match u_nlri0 with
                           | [] -> true
                           | _ :: _ -> false)
                  | _ :: _ -> false)
               | _ :: _ -> false)
            | MpOther (_, _, raw) ->
              (match raw with
               | [] ->
                 (match l with
                  | [] -> (match u_nlri0 with
                           | [] -> true
                           | _ :: _ -> false)
                  | _ :: _ -> false)
               | _ :: _ -> false))
         | _ -> false))
   | _ :: _ -> false)
