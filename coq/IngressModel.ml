open BinNat
open BinNums
open Datatypes
open List
open Base
open Countable
open Decidable
open Fin_maps
open Gmap
open List0
open Numbers

(** val two32 : coq_N **)

let two32 =
  Npos (Coq_xO (Coq_xO (Coq_xO (Coq_xO (Coq_xO (Coq_xO (Coq_xO (Coq_xO
    (Coq_xO (Coq_xO (Coq_xO (Coq_xO (Coq_xO (Coq_xO (Coq_xO (Coq_xO (Coq_xO
    (Coq_xO (Coq_xO (Coq_xO (Coq_xO (Coq_xO (Coq_xO (Coq_xO (Coq_xO (Coq_xO
    (Coq_xO (Coq_xO (Coq_xO (Coq_xO (Coq_xO (Coq_xO
    Coq_xH))))))))))))))))))))))))))))))))

type info = { i_unit : coq_N option; i_parent : coq_N option;
              i_addr : coq_N option; i_asn : coq_N option;
              i_rib : coq_N option; i_file : coq_N option;
              i_name : coq_N option; i_desc : coq_N option }

type reg = { serial : coq_N; infos : (coq_N, info) gmap }

(** val reg_new : reg **)

let reg_new =
  { serial = (Npos Coq_xH); infos =
    (empty (gmap_empty coq_N_eq_dec coq_N_countable)) }

(** val reg_register : reg -> coq_N * reg **)

let reg_register r =
  (r.serial, { serial = (N.modulo (N.add r.serial (Npos Coq_xH)) two32);
    infos = r.infos })

(** val upd_field : 'a1 option -> 'a1 option -> 'a1 option **)

let upd_field old new0 = match new0 with
| Some _ -> new0
| None -> old

(** val info_merge : info -> info -> info **)

let info_merge old new0 =
  { i_unit = (upd_field old.i_unit new0.i_unit); i_parent =
    (upd_field old.i_parent new0.i_parent); i_addr =
    (upd_field old.i_addr new0.i_addr); i_asn =
    (upd_field old.i_asn new0.i_asn); i_rib =
    (upd_field old.i_rib new0.i_rib); i_file =
    (upd_field old.i_file new0.i_file); i_name =
    (upd_field old.i_name new0.i_name); i_desc =
    (upd_field old.i_desc new0.i_desc) }

(** val reg_update_info : reg -> coq_N -> info -> reg **)

let reg_update_info r id new0 =
  { serial = r.serial; infos =
    (insert (map_insert (gmap_partial_alter coq_N_eq_dec coq_N_countable)) id
      (match lookup (gmap_lookup coq_N_eq_dec coq_N_countable) id r.infos with
       | Some old -> info_merge old new0
       | None -> new0) r.infos) }

(** val reg_get : reg -> coq_N -> info option **)

let reg_get r id =
  lookup (gmap_lookup coq_N_eq_dec coq_N_countable) id r.infos

(** val optN_eqb : coq_N option -> coq_N option -> bool **)

let optN_eqb a b =
  match a with
  | Some x -> (match b with
               | Some y -> N.eqb x y
               | None -> false)
  | None -> (match b with
             | Some _ -> false
             | None -> true)

(** val is_some : 'a1 option -> bool **)

let is_some = function
| Some _ -> true
| None -> false

(** val child_of : coq_N -> info -> bool **)

let child_of p i =
  optN_eqb i.i_parent (Some p)

(** val reg_ids_for_parent : reg -> coq_N -> coq_N list **)

let reg_ids_for_parent r p =
  map fst
    (filter (fun _ -> list_filter) (fun x ->
      decide_rel bool_eq_dec (child_of p (snd x)) true)
      (map_to_list (gmap_to_list coq_N_eq_dec coq_N_countable) r.infos))

(** val peer_match : info -> info -> bool **)

let peer_match q i =
  (&&)
    ((&&)
      ((&&)
        ((&&)
          ((&&) ((&&) (is_some i.i_parent) (is_some i.i_addr))
            (is_some i.i_asn)) (optN_eqb i.i_parent q.i_parent))
        (optN_eqb i.i_asn q.i_asn)) (optN_eqb i.i_addr q.i_addr))
    (optN_eqb i.i_rib q.i_rib)

(** val router_match : info -> info -> bool **)

let router_match q i =
  (&&)
    ((&&) ((&&) (is_some i.i_parent) (is_some i.i_addr))
      (optN_eqb i.i_parent q.i_parent)) (optN_eqb i.i_addr q.i_addr)

(** val reg_find_all : (info -> info -> bool) -> reg -> info -> coq_N list **)

let reg_find_all m r q =
  map fst
    (filter (fun _ -> list_filter) (fun x ->
      decide_rel bool_eq_dec (m q (snd x)) true)
      (map_to_list (gmap_to_list coq_N_eq_dec coq_N_countable) r.infos))

(** val reg_find_peers : reg -> info -> coq_N list **)

let reg_find_peers =
  reg_find_all peer_match

(** val reg_find_routers : reg -> info -> coq_N list **)

let reg_find_routers =
  reg_find_all router_match

(** val find_or_register :
    (info -> info -> bool) -> reg -> info -> coq_N * reg **)

let find_or_register m r q =
  match reg_find_all m r q with
  | [] -> let (id, r') = reg_register r in (id, (reg_update_info r' id q))
  | id :: _ -> (id, r)

type op =
| ORegister
| OUpdate of coq_N * info
| OGet of coq_N
| OChildren of coq_N
| OFindPeer of info
| OFindRouter of info
| OForPeer of info
| OForRouter of info

type out =
| RId of coq_N
| RUnit
| RInfo of info option
| RIds of coq_N list

(** val step : reg -> op -> reg * out **)

let step r = function
| ORegister -> let (id, r') = reg_register r in (r', (RId id))
| OUpdate (id, i) -> ((reg_update_info r id i), RUnit)
| OGet id -> (r, (RInfo (reg_get r id)))
| OChildren p -> (r, (RIds (reg_ids_for_parent r p)))
| OFindPeer q -> (r, (RIds (reg_find_peers r q)))
| OFindRouter q -> (r, (RIds (reg_find_routers r q)))
| OForPeer q ->
  let (id, r') = find_or_register peer_match r q in (r', (RId id))
| OForRouter q ->
  let (id, r') = find_or_register router_match r q in (r', (RId id))

(** val fresh : reg -> op -> coq_N option **)

let fresh r = function
| ORegister -> Some r.serial
| OForPeer q ->
  (match reg_find_peers r q with
   | [] -> Some r.serial
   | _ :: _ -> None)
| OForRouter q ->
  (match reg_find_routers r q with
   | [] -> Some r.serial
   | _ :: _ -> None)
| _ -> None
