open BinNat
open BinNums
open Datatypes
open Decimal
open List
open Nat

type str = coq_N list

(** val str_eqb : str -> str -> bool **)

let rec str_eqb a b =
  match a with
  | [] -> (match b with
           | [] -> true
           | _ :: _ -> false)
  | x :: a' ->
    (match b with
     | [] -> false
     | y :: b' -> (&&) (N.eqb x y) (str_eqb a' b'))

(** val join : str -> str list -> str **)

let rec join sep = function
| [] -> []
| x :: l' -> (match l' with
              | [] -> x
              | _ :: _ -> app x (app sep (join sep l')))

(** val c_dq : coq_N **)

let c_dq =
  Npos (Coq_xO (Coq_xI (Coq_xO (Coq_xO (Coq_xO Coq_xH)))))

(** val c_hash : coq_N **)

let c_hash =
  Npos (Coq_xI (Coq_xI (Coq_xO (Coq_xO (Coq_xO Coq_xH)))))

(** val c_amp : coq_N **)

let c_amp =
  Npos (Coq_xO (Coq_xI (Coq_xI (Coq_xO (Coq_xO Coq_xH)))))

(** val c_sq : coq_N **)

let c_sq =
  Npos (Coq_xI (Coq_xI (Coq_xI (Coq_xO (Coq_xO Coq_xH)))))

(** val c_sl : coq_N **)

let c_sl =
  Npos (Coq_xI (Coq_xI (Coq_xI (Coq_xI (Coq_xO Coq_xH)))))

(** val c_semi : coq_N **)

let c_semi =
  Npos (Coq_xI (Coq_xI (Coq_xO (Coq_xI (Coq_xI Coq_xH)))))

(** val c_lt : coq_N **)

let c_lt =
  Npos (Coq_xO (Coq_xO (Coq_xI (Coq_xI (Coq_xI Coq_xH)))))

(** val c_eq : coq_N **)

let c_eq =
  Npos (Coq_xI (Coq_xO (Coq_xI (Coq_xI (Coq_xI Coq_xH)))))

(** val c_gt : coq_N **)

let c_gt =
  Npos (Coq_xO (Coq_xI (Coq_xI (Coq_xI (Coq_xI Coq_xH)))))

(** val c_nl : coq_N **)

let c_nl =
  Npos (Coq_xO (Coq_xI (Coq_xO Coq_xH)))

(** val is_ws : coq_N -> bool **)

let is_ws c =
  (||)
    ((||)
      ((||)
        ((||)
          (N.eqb c (Npos (Coq_xO (Coq_xO (Coq_xO (Coq_xO (Coq_xO Coq_xH)))))))
          (N.eqb c (Npos (Coq_xI (Coq_xO (Coq_xO Coq_xH))))))
        (N.eqb c (Npos (Coq_xO (Coq_xI (Coq_xO Coq_xH))))))
      (N.eqb c (Npos (Coq_xO (Coq_xO (Coq_xI Coq_xH))))))
    (N.eqb c (Npos (Coq_xI (Coq_xO (Coq_xI Coq_xH)))))

(** val esc_safe_char : coq_N -> str **)

let esc_safe_char c =
  if N.eqb c c_amp
  then (Npos (Coq_xO (Coq_xI (Coq_xI (Coq_xO (Coq_xO Coq_xH)))))) :: ((Npos
         (Coq_xI (Coq_xO (Coq_xO (Coq_xO (Coq_xO (Coq_xI
         Coq_xH))))))) :: ((Npos (Coq_xI (Coq_xO (Coq_xI (Coq_xI (Coq_xO
         (Coq_xI Coq_xH))))))) :: ((Npos (Coq_xO (Coq_xO (Coq_xO (Coq_xO
         (Coq_xI (Coq_xI Coq_xH))))))) :: ((Npos (Coq_xI (Coq_xI (Coq_xO
         (Coq_xI (Coq_xI Coq_xH)))))) :: []))))
  else if N.eqb c c_lt
       then (Npos (Coq_xO (Coq_xI (Coq_xI (Coq_xO (Coq_xO
              Coq_xH)))))) :: ((Npos (Coq_xO (Coq_xO (Coq_xI (Coq_xI (Coq_xO
              (Coq_xI Coq_xH))))))) :: ((Npos (Coq_xO (Coq_xO (Coq_xI (Coq_xO
              (Coq_xI (Coq_xI Coq_xH))))))) :: ((Npos (Coq_xI (Coq_xI (Coq_xO
              (Coq_xI (Coq_xI Coq_xH)))))) :: [])))
       else if N.eqb c c_gt
            then (Npos (Coq_xO (Coq_xI (Coq_xI (Coq_xO (Coq_xO
                   Coq_xH)))))) :: ((Npos (Coq_xI (Coq_xI (Coq_xI (Coq_xO
                   (Coq_xO (Coq_xI Coq_xH))))))) :: ((Npos (Coq_xO (Coq_xO
                   (Coq_xI (Coq_xO (Coq_xI (Coq_xI Coq_xH))))))) :: ((Npos
                   (Coq_xI (Coq_xI (Coq_xO (Coq_xI (Coq_xI
                   Coq_xH)))))) :: [])))
            else if N.eqb c c_dq
                 then (Npos (Coq_xO (Coq_xI (Coq_xI (Coq_xO (Coq_xO
                        Coq_xH)))))) :: ((Npos (Coq_xI (Coq_xO (Coq_xO
                        (Coq_xO (Coq_xI (Coq_xI Coq_xH))))))) :: ((Npos
                        (Coq_xI (Coq_xO (Coq_xI (Coq_xO (Coq_xI (Coq_xI
                        Coq_xH))))))) :: ((Npos (Coq_xI (Coq_xI (Coq_xI
                        (Coq_xI (Coq_xO (Coq_xI Coq_xH))))))) :: ((Npos
                        (Coq_xO (Coq_xO (Coq_xI (Coq_xO (Coq_xI (Coq_xI
                        Coq_xH))))))) :: ((Npos (Coq_xI (Coq_xI (Coq_xO
                        (Coq_xI (Coq_xI Coq_xH)))))) :: [])))))
                 else if N.eqb c c_sq
                      then (Npos (Coq_xO (Coq_xI (Coq_xI (Coq_xO (Coq_xO
                             Coq_xH)))))) :: ((Npos (Coq_xI (Coq_xI (Coq_xO
                             (Coq_xO (Coq_xO Coq_xH)))))) :: ((Npos (Coq_xO
                             (Coq_xO (Coq_xO (Coq_xI (Coq_xI (Coq_xI
                             Coq_xH))))))) :: ((Npos (Coq_xO (Coq_xI (Coq_xO
                             (Coq_xO (Coq_xI Coq_xH)))))) :: ((Npos (Coq_xI
                             (Coq_xI (Coq_xI (Coq_xO (Coq_xI
                             Coq_xH)))))) :: ((Npos (Coq_xI (Coq_xI (Coq_xO
                             (Coq_xI (Coq_xI Coq_xH)))))) :: [])))))
                      else if N.eqb c c_sl
                           then (Npos (Coq_xO (Coq_xI (Coq_xI (Coq_xO (Coq_xO
                                  Coq_xH)))))) :: ((Npos (Coq_xI (Coq_xI
                                  (Coq_xO (Coq_xO (Coq_xO
                                  Coq_xH)))))) :: ((Npos (Coq_xO (Coq_xO
                                  (Coq_xO (Coq_xI (Coq_xI (Coq_xI
                                  Coq_xH))))))) :: ((Npos (Coq_xO (Coq_xI
                                  (Coq_xO (Coq_xO (Coq_xI
                                  Coq_xH)))))) :: ((Npos (Coq_xO (Coq_xI
                                  (Coq_xI (Coq_xO (Coq_xO (Coq_xO
                                  Coq_xH))))))) :: ((Npos (Coq_xI (Coq_xI
                                  (Coq_xO (Coq_xI (Coq_xI
                                  Coq_xH)))))) :: [])))))
                           else c :: []

(** val esc_dq_char : coq_N -> str **)

let esc_dq_char c =
  if N.eqb c c_amp
  then (Npos (Coq_xO (Coq_xI (Coq_xI (Coq_xO (Coq_xO Coq_xH)))))) :: ((Npos
         (Coq_xI (Coq_xO (Coq_xO (Coq_xO (Coq_xO (Coq_xI
         Coq_xH))))))) :: ((Npos (Coq_xI (Coq_xO (Coq_xI (Coq_xI (Coq_xO
         (Coq_xI Coq_xH))))))) :: ((Npos (Coq_xO (Coq_xO (Coq_xO (Coq_xO
         (Coq_xI (Coq_xI Coq_xH))))))) :: ((Npos (Coq_xI (Coq_xI (Coq_xO
         (Coq_xI (Coq_xI Coq_xH)))))) :: []))))
  else if N.eqb c c_lt
       then (Npos (Coq_xO (Coq_xI (Coq_xI (Coq_xO (Coq_xO
              Coq_xH)))))) :: ((Npos (Coq_xO (Coq_xO (Coq_xI (Coq_xI (Coq_xO
              (Coq_xI Coq_xH))))))) :: ((Npos (Coq_xO (Coq_xO (Coq_xI (Coq_xO
              (Coq_xI (Coq_xI Coq_xH))))))) :: ((Npos (Coq_xI (Coq_xI (Coq_xO
              (Coq_xI (Coq_xI Coq_xH)))))) :: [])))
       else if N.eqb c c_gt
            then (Npos (Coq_xO (Coq_xI (Coq_xI (Coq_xO (Coq_xO
                   Coq_xH)))))) :: ((Npos (Coq_xI (Coq_xI (Coq_xI (Coq_xO
                   (Coq_xO (Coq_xI Coq_xH))))))) :: ((Npos (Coq_xO (Coq_xO
                   (Coq_xI (Coq_xO (Coq_xI (Coq_xI Coq_xH))))))) :: ((Npos
                   (Coq_xI (Coq_xI (Coq_xO (Coq_xI (Coq_xI
                   Coq_xH)))))) :: [])))
            else if N.eqb c c_dq
                 then (Npos (Coq_xO (Coq_xI (Coq_xI (Coq_xO (Coq_xO
                        Coq_xH)))))) :: ((Npos (Coq_xI (Coq_xO (Coq_xO
                        (Coq_xO (Coq_xI (Coq_xI Coq_xH))))))) :: ((Npos
                        (Coq_xI (Coq_xO (Coq_xI (Coq_xO (Coq_xI (Coq_xI
                        Coq_xH))))))) :: ((Npos (Coq_xI (Coq_xI (Coq_xI
                        (Coq_xI (Coq_xO (Coq_xI Coq_xH))))))) :: ((Npos
                        (Coq_xO (Coq_xO (Coq_xI (Coq_xO (Coq_xI (Coq_xI
                        Coq_xH))))))) :: ((Npos (Coq_xI (Coq_xI (Coq_xO
                        (Coq_xI (Coq_xI Coq_xH)))))) :: [])))))
                 else c :: []

(** val encode_safe : str -> str **)

let encode_safe s =
  flat_map esc_safe_char s

(** val encode_dq_attr : str -> str **)

let encode_dq_attr s =
  flat_map esc_dq_char s

(** val starts_with : str -> str -> bool **)

let rec starts_with p s =
  match p with
  | [] -> true
  | x :: p' ->
    (match s with
     | [] -> false
     | y :: s' -> (&&) (N.eqb x y) (starts_with p' s'))

(** val is_digit : coq_N -> bool **)

let is_digit c =
  (&&) (N.leb (Npos (Coq_xO (Coq_xO (Coq_xO (Coq_xO (Coq_xI Coq_xH)))))) c)
    (N.leb c (Npos (Coq_xI (Coq_xO (Coq_xO (Coq_xI (Coq_xI Coq_xH)))))))

(** val hex_val : coq_N -> coq_N option **)

let hex_val c =
  if (&&)
       (N.leb (Npos (Coq_xO (Coq_xO (Coq_xO (Coq_xO (Coq_xI Coq_xH)))))) c)
       (N.leb c (Npos (Coq_xI (Coq_xO (Coq_xO (Coq_xI (Coq_xI Coq_xH)))))))
  then Some
         (N.sub c (Npos (Coq_xO (Coq_xO (Coq_xO (Coq_xO (Coq_xI Coq_xH)))))))
  else if (&&)
            (N.leb (Npos (Coq_xI (Coq_xO (Coq_xO (Coq_xO (Coq_xO (Coq_xO
              Coq_xH))))))) c)
            (N.leb c (Npos (Coq_xO (Coq_xI (Coq_xI (Coq_xO (Coq_xO (Coq_xO
              Coq_xH))))))))
       then Some
              (N.sub c (Npos (Coq_xI (Coq_xI (Coq_xI (Coq_xO (Coq_xI
                Coq_xH)))))))
       else if (&&)
                 (N.leb (Npos (Coq_xI (Coq_xO (Coq_xO (Coq_xO (Coq_xO (Coq_xI
                   Coq_xH))))))) c)
                 (N.leb c (Npos (Coq_xO (Coq_xI (Coq_xI (Coq_xO (Coq_xO
                   (Coq_xI Coq_xH))))))))
            then Some
                   (N.sub c (Npos (Coq_xI (Coq_xI (Coq_xI (Coq_xO (Coq_xI
                     (Coq_xO Coq_xH))))))))
            else None

(** val is_alnum : coq_N -> bool **)

let is_alnum c =
  (||)
    ((||) (is_digit c)
      ((&&)
        (N.leb (Npos (Coq_xI (Coq_xO (Coq_xO (Coq_xO (Coq_xO (Coq_xO
          Coq_xH))))))) c)
        (N.leb c (Npos (Coq_xO (Coq_xI (Coq_xO (Coq_xI (Coq_xI (Coq_xO
          Coq_xH))))))))))
    ((&&)
      (N.leb (Npos (Coq_xI (Coq_xO (Coq_xO (Coq_xO (Coq_xO (Coq_xI
        Coq_xH))))))) c)
      (N.leb c (Npos (Coq_xO (Coq_xI (Coq_xO (Coq_xI (Coq_xI (Coq_xI
        Coq_xH)))))))))

(** val parse_num : coq_N -> coq_N -> str -> coq_N option **)

let rec parse_num base acc = function
| [] -> Some acc
| c :: s' ->
  (match hex_val c with
   | Some d ->
     if N.ltb d base
     then parse_num base (N.add (N.mul acc base) d) s'
     else None
   | None -> None)

(** val ent_value : str -> coq_N option **)

let ent_value buf =
  if str_eqb buf ((Npos (Coq_xI (Coq_xO (Coq_xO (Coq_xO (Coq_xO (Coq_xI
       Coq_xH))))))) :: ((Npos (Coq_xI (Coq_xO (Coq_xI (Coq_xI (Coq_xO
       (Coq_xI Coq_xH))))))) :: ((Npos (Coq_xO (Coq_xO (Coq_xO (Coq_xO
       (Coq_xI (Coq_xI Coq_xH))))))) :: [])))
  then Some c_amp
  else if str_eqb buf ((Npos (Coq_xO (Coq_xO (Coq_xI (Coq_xI (Coq_xO (Coq_xI
            Coq_xH))))))) :: ((Npos (Coq_xO (Coq_xO (Coq_xI (Coq_xO (Coq_xI
            (Coq_xI Coq_xH))))))) :: []))
       then Some c_lt
       else if str_eqb buf ((Npos (Coq_xI (Coq_xI (Coq_xI (Coq_xO (Coq_xO
                 (Coq_xI Coq_xH))))))) :: ((Npos (Coq_xO (Coq_xO (Coq_xI
                 (Coq_xO (Coq_xI (Coq_xI Coq_xH))))))) :: []))
            then Some c_gt
            else if str_eqb buf ((Npos (Coq_xI (Coq_xO (Coq_xO (Coq_xO
                      (Coq_xI (Coq_xI Coq_xH))))))) :: ((Npos (Coq_xI (Coq_xO
                      (Coq_xI (Coq_xO (Coq_xI (Coq_xI Coq_xH))))))) :: ((Npos
                      (Coq_xI (Coq_xI (Coq_xI (Coq_xI (Coq_xO (Coq_xI
                      Coq_xH))))))) :: ((Npos (Coq_xO (Coq_xO (Coq_xI (Coq_xO
                      (Coq_xI (Coq_xI Coq_xH))))))) :: []))))
                 then Some c_dq
                 else if str_eqb buf ((Npos (Coq_xI (Coq_xO (Coq_xO (Coq_xO
                           (Coq_xO (Coq_xI Coq_xH))))))) :: ((Npos (Coq_xO
                           (Coq_xO (Coq_xO (Coq_xO (Coq_xI (Coq_xI
                           Coq_xH))))))) :: ((Npos (Coq_xI (Coq_xI (Coq_xI
                           (Coq_xI (Coq_xO (Coq_xI Coq_xH))))))) :: ((Npos
                           (Coq_xI (Coq_xI (Coq_xO (Coq_xO (Coq_xI (Coq_xI
                           Coq_xH))))))) :: []))))
                      then Some c_sq
                      else (match buf with
                            | [] -> None
                            | n :: d ->
                              (match n with
                               | N0 -> None
                               | Npos p ->
                                 (match p with
                                  | Coq_xI p0 ->
                                    (match p0 with
                                     | Coq_xI p1 ->
                                       (match p1 with
                                        | Coq_xO p2 ->
                                          (match p2 with
                                           | Coq_xO p3 ->
                                             (match p3 with
                                              | Coq_xO p4 ->
                                                (match p4 with
                                                 | Coq_xH ->
                                                   (match d with
                                                    | [] -> None
                                                    | n0 :: h ->
                                                      (match n0 with
                                                       | N0 ->
                                                         parse_num (Npos
                                                           (Coq_xO (Coq_xI
                                                           (Coq_xO Coq_xH))))
                                                           N0 d
                                                       | Npos p5 ->
                                                         (match p5 with
                                                          | Coq_xO p6 ->
                                                            (match p6 with
                                                             | Coq_xO p7 ->
                                                               (match p7 with
                                                                | Coq_xO p8 ->
                                                                  (match p8 with
                                                                   | Coq_xI p9 ->
                                                                    (match p9 with
                                                                    | Coq_xI p10 ->
                                                                    (match p10 with
                                                                    | Coq_xI p11 ->
                                                                    (match p11 with
                                                                    | Coq_xH ->
                                                                    (match h with
                                                                    | [] ->
                                                                    parse_num
                                                                    (Npos
                                                                    (Coq_xO
                                                                    (Coq_xI
                                                                    (Coq_xO
                                                                    Coq_xH))))
                                                                    N0 d
                                                                    | _ :: _ ->
                                                                    parse_num
                                                                    (Npos
                                                                    (Coq_xO
                                                                    (Coq_xO
                                                                    (Coq_xO
                                                                    (Coq_xO
                                                                    Coq_xH)))))
                                                                    N0 h)
                                                                    | _ ->
                                                                    parse_num
                                                                    (Npos
                                                                    (Coq_xO
                                                                    (Coq_xI
                                                                    (Coq_xO
                                                                    Coq_xH))))
                                                                    N0 d)
                                                                    | Coq_xO p11 ->
                                                                    (match p11 with
                                                                    | Coq_xH ->
                                                                    (match h with
                                                                    | [] ->
                                                                    parse_num
                                                                    (Npos
                                                                    (Coq_xO
                                                                    (Coq_xI
                                                                    (Coq_xO
                                                                    Coq_xH))))
                                                                    N0 d
                                                                    | _ :: _ ->
                                                                    parse_num
                                                                    (Npos
                                                                    (Coq_xO
                                                                    (Coq_xO
                                                                    (Coq_xO
                                                                    (Coq_xO
                                                                    Coq_xH)))))
                                                                    N0 h)
                                                                    | _ ->
                                                                    parse_num
                                                                    (Npos
                                                                    (Coq_xO
                                                                    (Coq_xI
                                                                    (Coq_xO
                                                                    Coq_xH))))
                                                                    N0 d)
                                                                    | Coq_xH ->
                                                                    parse_num
                                                                    (Npos
                                                                    (Coq_xO
                                                                    (Coq_xI
                                                                    (Coq_xO
                                                                    Coq_xH))))
                                                                    N0 d)
                                                                    | _ ->
                                                                    parse_num
                                                                    (Npos
                                                                    (Coq_xO
                                                                    (Coq_xI
                                                                    (Coq_xO
                                                                    Coq_xH))))
                                                                    N0 d)
                                                                   | _ ->
                                                                    parse_num
                                                                    (Npos
                                                                    (Coq_xO
                                                                    (Coq_xI
                                                                    (Coq_xO
                                                                    Coq_xH))))
                                                                    N0 d)
                                                                | _ ->
                                                                  parse_num
                                                                    (Npos
                                                                    (Coq_xO
                                                                    (Coq_xI
                                                                    (Coq_xO
                                                                    Coq_xH))))
                                                                    N0 d)
                                                             | _ ->
                                                               parse_num
                                                                 (Npos
                                                                 (Coq_xO
                                                                 (Coq_xI
                                                                 (Coq_xO
                                                                 Coq_xH))))
                                                                 N0 d)
                                                          | _ ->
                                                            parse_num (Npos
                                                              (Coq_xO (Coq_xI
                                                              (Coq_xO
                                                              Coq_xH)))) N0 d)))
                                                 | _ -> None)
                                              | _ -> None)
                                           | _ -> None)
                                        | _ -> None)
                                     | _ -> None)
                                  | _ -> None)))

(** val unesc_step : str option -> coq_N -> str option * str **)

let unesc_step p c =
  match p with
  | Some buf ->
    if N.eqb c c_semi
    then (match ent_value buf with
          | Some v -> (None, (v :: []))
          | None -> (None, (c_amp :: (app buf (c :: [])))))
    else if N.eqb c c_amp
         then ((Some []), (c_amp :: buf))
         else if (||) (is_alnum c) (N.eqb c c_hash)
              then ((Some (app buf (c :: []))), [])
              else (None, (c_amp :: (app buf (c :: []))))
  | None -> if N.eqb c c_amp then ((Some []), []) else (None, (c :: []))

(** val unesc_run : str option -> str -> str **)

let rec unesc_run p = function
| [] -> (match p with
         | Some buf -> c_amp :: buf
         | None -> [])
| c :: s' -> let (p', out) = unesc_step p c in app out (unesc_run p' s')

(** val unescape : str -> str **)

let unescape s =
  unesc_run None s

(** val uint_chars : uint -> str **)

let rec uint_chars = function
| Nil -> []
| D0 u0 ->
  (Npos (Coq_xO (Coq_xO (Coq_xO (Coq_xO (Coq_xI
    Coq_xH)))))) :: (uint_chars u0)
| D1 u0 ->
  (Npos (Coq_xI (Coq_xO (Coq_xO (Coq_xO (Coq_xI
    Coq_xH)))))) :: (uint_chars u0)
| D2 u0 ->
  (Npos (Coq_xO (Coq_xI (Coq_xO (Coq_xO (Coq_xI
    Coq_xH)))))) :: (uint_chars u0)
| D3 u0 ->
  (Npos (Coq_xI (Coq_xI (Coq_xO (Coq_xO (Coq_xI
    Coq_xH)))))) :: (uint_chars u0)
| D4 u0 ->
  (Npos (Coq_xO (Coq_xO (Coq_xI (Coq_xO (Coq_xI
    Coq_xH)))))) :: (uint_chars u0)
| D5 u0 ->
  (Npos (Coq_xI (Coq_xO (Coq_xI (Coq_xO (Coq_xI
    Coq_xH)))))) :: (uint_chars u0)
| D6 u0 ->
  (Npos (Coq_xO (Coq_xI (Coq_xI (Coq_xO (Coq_xI
    Coq_xH)))))) :: (uint_chars u0)
| D7 u0 ->
  (Npos (Coq_xI (Coq_xI (Coq_xI (Coq_xO (Coq_xI
    Coq_xH)))))) :: (uint_chars u0)
| D8 u0 ->
  (Npos (Coq_xO (Coq_xO (Coq_xO (Coq_xI (Coq_xI
    Coq_xH)))))) :: (uint_chars u0)
| D9 u0 ->
  (Npos (Coq_xI (Coq_xO (Coq_xO (Coq_xI (Coq_xI
    Coq_xH)))))) :: (uint_chars u0)

(** val dec : coq_N -> str **)

let dec n =
  uint_chars (N.to_uint n)

type kind =
| KRaw
| KSafe
| KDq

type seg =
| Lit of str
| Num of coq_N
| Fld of kind * str

type template = seg list

(** val apply_kind : kind -> str -> str **)

let apply_kind k v =
  match k with
  | KRaw -> v
  | KSafe -> encode_safe v
  | KDq -> encode_dq_attr v

(** val render_seg : seg -> str **)

let render_seg = function
| Lit s0 -> s0
| Num n -> dec n
| Fld (k, v) -> apply_kind k v

(** val render : template -> str **)

let render t =
  flat_map render_seg t

type mode =
| MData
| MTagName
| MBeforeAttr
| MAttrName
| MBeforeVal
| MAttrDQ
| MAttrSQ
| MAttrUQ

type tst = { t_mode : mode; t_nm : str; t_attrs : (str * str) list;
             t_an : str; t_av : str }

type ev =
| EText of coq_N
| ETag of str * (str * str) list

(** val t0 : tst **)

let t0 =
  { t_mode = MData; t_nm = []; t_attrs = []; t_an = []; t_av = [] }

(** val tok_step : tst -> coq_N -> tst * ev list **)

let tok_step st c =
  let nm = st.t_nm in
  let attrs = st.t_attrs in
  let an = st.t_an in
  let av = st.t_av in
  (match st.t_mode with
   | MData ->
     if N.eqb c c_lt
     then ({ t_mode = MTagName; t_nm = []; t_attrs = []; t_an = []; t_av =
            [] }, [])
     else (st, ((EText c) :: []))
   | MTagName ->
     if N.eqb c c_gt
     then (t0, ((ETag (nm, [])) :: []))
     else if is_ws c
          then ({ t_mode = MBeforeAttr; t_nm = nm; t_attrs = []; t_an = [];
                 t_av = [] }, [])
          else ({ t_mode = MTagName; t_nm = (app nm (c :: [])); t_attrs = [];
                 t_an = []; t_av = [] }, [])
   | MBeforeAttr ->
     if N.eqb c c_gt
     then (t0, ((ETag (nm, attrs)) :: []))
     else if is_ws c
          then (st, [])
          else ({ t_mode = MAttrName; t_nm = nm; t_attrs = attrs; t_an =
                 (c :: []); t_av = [] }, [])
   | MAttrName ->
     if N.eqb c c_eq
     then ({ t_mode = MBeforeVal; t_nm = nm; t_attrs = attrs; t_an = an;
            t_av = [] }, [])
     else if N.eqb c c_gt
          then (t0, ((ETag (nm, (app attrs ((an, []) :: [])))) :: []))
          else if is_ws c
               then ({ t_mode = MBeforeAttr; t_nm = nm; t_attrs =
                      (app attrs ((an, []) :: [])); t_an = []; t_av = [] },
                      [])
               else ({ t_mode = MAttrName; t_nm = nm; t_attrs = attrs; t_an =
                      (app an (c :: [])); t_av = [] }, [])
   | MBeforeVal ->
     if N.eqb c c_dq
     then ({ t_mode = MAttrDQ; t_nm = nm; t_attrs = attrs; t_an = an; t_av =
            [] }, [])
     else if N.eqb c c_sq
          then ({ t_mode = MAttrSQ; t_nm = nm; t_attrs = attrs; t_an = an;
                 t_av = [] }, [])
          else if N.eqb c c_gt
               then (t0, ((ETag (nm, (app attrs ((an, []) :: [])))) :: []))
               else if is_ws c
                    then (st, [])
                    else ({ t_mode = MAttrUQ; t_nm = nm; t_attrs = attrs;
                           t_an = an; t_av = (c :: []) }, [])
   | MAttrDQ ->
     if N.eqb c c_dq
     then ({ t_mode = MBeforeAttr; t_nm = nm; t_attrs =
            (app attrs ((an, av) :: [])); t_an = []; t_av = [] }, [])
     else ({ t_mode = MAttrDQ; t_nm = nm; t_attrs = attrs; t_an = an; t_av =
            (app av (c :: [])) }, [])
   | MAttrSQ ->
     if N.eqb c c_sq
     then ({ t_mode = MBeforeAttr; t_nm = nm; t_attrs =
            (app attrs ((an, av) :: [])); t_an = []; t_av = [] }, [])
     else ({ t_mode = MAttrSQ; t_nm = nm; t_attrs = attrs; t_an = an; t_av =
            (app av (c :: [])) }, [])
   | MAttrUQ ->
     if N.eqb c c_gt
     then (t0, ((ETag (nm, (app attrs ((an, av) :: [])))) :: []))
     else if is_ws c
          then ({ t_mode = MBeforeAttr; t_nm = nm; t_attrs =
                 (app attrs ((an, av) :: [])); t_an = []; t_av = [] }, [])
          else ({ t_mode = MAttrUQ; t_nm = nm; t_attrs = attrs; t_an = an;
                 t_av = (app av (c :: [])) }, []))

(** val tok_run : tst -> str -> tst * ev list **)

let rec tok_run st = function
| [] -> (st, [])
| c :: s' ->
  let (st1, e1) = tok_step st c in
  let (st2, e2) = tok_run st1 s' in (st2, (app e1 e2))

(** val tokenise : str -> ev list **)

let tokenise s =
  snd (tok_run t0 s)

type router = { r_id : coq_N;
                r_addr : (((coq_N * coq_N) * coq_N) * coq_N) option;
                r_tlvs : ((str list * str list) * str list) option;
                r_errs : (bool * str) list;
                r_peers : ((((coq_N * coq_N) * coq_N) * coq_N) * coq_N) list }

(** val bar : str **)

let bar =
  (Npos (Coq_xO (Coq_xO (Coq_xI (Coq_xI (Coq_xI (Coq_xI Coq_xH))))))) :: []

(** val sys_name : router -> str **)

let sys_name r =
  match r.r_tlvs with
  | Some p -> let (p0, _) = p in let (n, _) = p0 in join bar n
  | None -> []

(** val sys_desc : router -> str **)

let sys_desc r =
  match r.r_tlvs with
  | Some p -> let (p0, _) = p in let (_, d) = p0 in join bar d
  | None -> []

(** val sys_extra : router -> str **)

let sys_extra r =
  match r.r_tlvs with
  | Some p -> let (_, e) = p in join bar e
  | None -> []

(** val addr_segs : (((coq_N * coq_N) * coq_N) * coq_N) option -> template **)

let addr_segs = function
| Some p ->
  let (p0, d) = p in
  let (p1, c) = p0 in
  let (a0, b) = p1 in
  (Num a0) :: ((Lit ((Npos (Coq_xO (Coq_xI (Coq_xI (Coq_xI (Coq_xO
  Coq_xH)))))) :: [])) :: ((Num b) :: ((Lit ((Npos (Coq_xO (Coq_xI (Coq_xI
  (Coq_xI (Coq_xO Coq_xH)))))) :: [])) :: ((Num c) :: ((Lit ((Npos (Coq_xO
  (Coq_xI (Coq_xI (Coq_xI (Coq_xO Coq_xH)))))) :: [])) :: ((Num d) :: []))))))
| None ->
  (Lit ((Npos (Coq_xO (Coq_xO (Coq_xO (Coq_xO (Coq_xI Coq_xH)))))) :: ((Npos
    (Coq_xO (Coq_xI (Coq_xI (Coq_xI (Coq_xO Coq_xH)))))) :: ((Npos (Coq_xO
    (Coq_xO (Coq_xO (Coq_xO (Coq_xI Coq_xH)))))) :: ((Npos (Coq_xO (Coq_xI
    (Coq_xI (Coq_xI (Coq_xO Coq_xH)))))) :: ((Npos (Coq_xO (Coq_xO (Coq_xO
    (Coq_xO (Coq_xI Coq_xH)))))) :: ((Npos (Coq_xO (Coq_xI (Coq_xI (Coq_xI
    (Coq_xO Coq_xH)))))) :: ((Npos (Coq_xO (Coq_xO (Coq_xO (Coq_xO (Coq_xI
    Coq_xH)))))) :: [])))))))) :: []

(** val page_head : str **)

let page_head =
  (Npos (Coq_xO (Coq_xO (Coq_xI (Coq_xI (Coq_xI Coq_xH)))))) :: ((Npos
    (Coq_xI (Coq_xO (Coq_xO (Coq_xO (Coq_xO Coq_xH)))))) :: ((Npos (Coq_xO
    (Coq_xO (Coq_xI (Coq_xO (Coq_xO (Coq_xO Coq_xH))))))) :: ((Npos (Coq_xI
    (Coq_xI (Coq_xI (Coq_xI (Coq_xO (Coq_xO Coq_xH))))))) :: ((Npos (Coq_xI
    (Coq_xI (Coq_xO (Coq_xO (Coq_xO (Coq_xO Coq_xH))))))) :: ((Npos (Coq_xO
    (Coq_xO (Coq_xI (Coq_xO (Coq_xI (Coq_xO Coq_xH))))))) :: ((Npos (Coq_xI
    (Coq_xO (Coq_xO (Coq_xI (Coq_xI (Coq_xO Coq_xH))))))) :: ((Npos (Coq_xO
    (Coq_xO (Coq_xO (Coq_xO (Coq_xI (Coq_xO Coq_xH))))))) :: ((Npos (Coq_xI
    (Coq_xO (Coq_xI (Coq_xO (Coq_xO (Coq_xO Coq_xH))))))) :: ((Npos (Coq_xO
    (Coq_xO (Coq_xO (Coq_xO (Coq_xO Coq_xH)))))) :: ((Npos (Coq_xO (Coq_xO
    (Coq_xO (Coq_xI (Coq_xO (Coq_xI Coq_xH))))))) :: ((Npos (Coq_xO (Coq_xO
    (Coq_xI (Coq_xO (Coq_xI (Coq_xI Coq_xH))))))) :: ((Npos (Coq_xI (Coq_xO
    (Coq_xI (Coq_xI (Coq_xO (Coq_xI Coq_xH))))))) :: ((Npos (Coq_xO (Coq_xO
    (Coq_xI (Coq_xI (Coq_xO (Coq_xI Coq_xH))))))) :: ((Npos (Coq_xO (Coq_xI
    (Coq_xI (Coq_xI (Coq_xI Coq_xH)))))) :: ((Npos (Coq_xO (Coq_xI (Coq_xO
    Coq_xH)))) :: ((Npos (Coq_xO (Coq_xO (Coq_xI (Coq_xI (Coq_xI
    Coq_xH)))))) :: ((Npos (Coq_xO (Coq_xO (Coq_xO (Coq_xI (Coq_xO (Coq_xI
    Coq_xH))))))) :: ((Npos (Coq_xO (Coq_xO (Coq_xI (Coq_xO (Coq_xI (Coq_xI
    Coq_xH))))))) :: ((Npos (Coq_xI (Coq_xO (Coq_xI (Coq_xI (Coq_xO (Coq_xI
    Coq_xH))))))) :: ((Npos (Coq_xO (Coq_xO (Coq_xI (Coq_xI (Coq_xO (Coq_xI
    Coq_xH))))))) :: ((Npos (Coq_xO (Coq_xO (Coq_xO (Coq_xO (Coq_xO
    Coq_xH)))))) :: ((Npos (Coq_xO (Coq_xO (Coq_xI (Coq_xI (Coq_xO (Coq_xI
    Coq_xH))))))) :: ((Npos (Coq_xI (Coq_xO (Coq_xO (Coq_xO (Coq_xO (Coq_xI
    Coq_xH))))))) :: ((Npos (Coq_xO (Coq_xI (Coq_xI (Coq_xI (Coq_xO (Coq_xI
    Coq_xH))))))) :: ((Npos (Coq_xI (Coq_xI (Coq_xI (Coq_xO (Coq_xO (Coq_xI
    Coq_xH))))))) :: ((Npos (Coq_xI (Coq_xO (Coq_xI (Coq_xI (Coq_xI
    Coq_xH)))))) :: ((Npos (Coq_xO (Coq_xI (Coq_xO (Coq_xO (Coq_xO
    Coq_xH)))))) :: ((Npos (Coq_xI (Coq_xO (Coq_xI (Coq_xO (Coq_xO (Coq_xI
    Coq_xH))))))) :: ((Npos (Coq_xO (Coq_xI (Coq_xI (Coq_xI (Coq_xO (Coq_xI
    Coq_xH))))))) :: ((Npos (Coq_xO (Coq_xI (Coq_xO (Coq_xO (Coq_xO
    Coq_xH)))))) :: ((Npos (Coq_xO (Coq_xI (Coq_xI (Coq_xI (Coq_xI
    Coq_xH)))))) :: ((Npos (Coq_xO (Coq_xI (Coq_xO Coq_xH)))) :: ((Npos
    (Coq_xO (Coq_xO (Coq_xO (Coq_xO (Coq_xO Coq_xH)))))) :: ((Npos (Coq_xO
    (Coq_xO (Coq_xO (Coq_xO (Coq_xO Coq_xH)))))) :: ((Npos (Coq_xO (Coq_xO
    (Coq_xO (Coq_xO (Coq_xO Coq_xH)))))) :: ((Npos (Coq_xO (Coq_xO (Coq_xO
    (Coq_xO (Coq_xO Coq_xH)))))) :: ((Npos (Coq_xO (Coq_xO (Coq_xI (Coq_xI
    (Coq_xI Coq_xH)))))) :: ((Npos (Coq_xO (Coq_xO (Coq_xO (Coq_xI (Coq_xO
    (Coq_xI Coq_xH))))))) :: ((Npos (Coq_xI (Coq_xO (Coq_xI (Coq_xO (Coq_xO
    (Coq_xI Coq_xH))))))) :: ((Npos (Coq_xI (Coq_xO (Coq_xO (Coq_xO (Coq_xO
    (Coq_xI Coq_xH))))))) :: ((Npos (Coq_xO (Coq_xO (Coq_xI (Coq_xO (Coq_xO
    (Coq_xI Coq_xH))))))) :: ((Npos (Coq_xO (Coq_xI (Coq_xI (Coq_xI (Coq_xI
    Coq_xH)))))) :: ((Npos (Coq_xO (Coq_xI (Coq_xO Coq_xH)))) :: ((Npos
    (Coq_xO (Coq_xO (Coq_xO (Coq_xO (Coq_xO Coq_xH)))))) :: ((Npos (Coq_xO
    (Coq_xO (Coq_xO (Coq_xO (Coq_xO Coq_xH)))))) :: ((Npos (Coq_xO (Coq_xO
    (Coq_xO (Coq_xO (Coq_xO Coq_xH)))))) :: ((Npos (Coq_xO (Coq_xO (Coq_xO
    (Coq_xO (Coq_xO Coq_xH)))))) :: ((Npos (Coq_xO (Coq_xO (Coq_xI (Coq_xI
    (Coq_xI Coq_xH)))))) :: ((Npos (Coq_xI (Coq_xO (Coq_xI (Coq_xI (Coq_xO
    (Coq_xI Coq_xH))))))) :: ((Npos (Coq_xI (Coq_xO (Coq_xI (Coq_xO (Coq_xO
    (Coq_xI Coq_xH))))))) :: ((Npos (Coq_xO (Coq_xO (Coq_xI (Coq_xO (Coq_xI
    (Coq_xI Coq_xH))))))) :: ((Npos (Coq_xI (Coq_xO (Coq_xO (Coq_xO (Coq_xO
    (Coq_xI Coq_xH))))))) :: ((Npos (Coq_xO (Coq_xO (Coq_xO (Coq_xO (Coq_xO
    Coq_xH)))))) :: ((Npos (Coq_xI (Coq_xI (Coq_xO (Coq_xO (Coq_xO (Coq_xI
    Coq_xH))))))) :: ((Npos (Coq_xO (Coq_xO (Coq_xO (Coq_xI (Coq_xO (Coq_xI
    Coq_xH))))))) :: ((Npos (Coq_xI (Coq_xO (Coq_xO (Coq_xO (Coq_xO (Coq_xI
    Coq_xH))))))) :: ((Npos (Coq_xO (Coq_xI (Coq_xO (Coq_xO (Coq_xI (Coq_xI
    Coq_xH))))))) :: ((Npos (Coq_xI (Coq_xI (Coq_xO (Coq_xO (Coq_xI (Coq_xI
    Coq_xH))))))) :: ((Npos (Coq_xI (Coq_xO (Coq_xI (Coq_xO (Coq_xO (Coq_xI
    Coq_xH))))))) :: ((Npos (Coq_xO (Coq_xO (Coq_xI (Coq_xO (Coq_xI (Coq_xI
    Coq_xH))))))) :: ((Npos (Coq_xI (Coq_xO (Coq_xI (Coq_xI (Coq_xI
    Coq_xH)))))) :: ((Npos (Coq_xO (Coq_xI (Coq_xO (Coq_xO (Coq_xO
    Coq_xH)))))) :: ((Npos (Coq_xI (Coq_xO (Coq_xI (Coq_xO (Coq_xI (Coq_xO
    Coq_xH))))))) :: ((Npos (Coq_xO (Coq_xO (Coq_xI (Coq_xO (Coq_xI (Coq_xO
    Coq_xH))))))) :: ((Npos (Coq_xO (Coq_xI (Coq_xI (Coq_xO (Coq_xO (Coq_xO
    Coq_xH))))))) :: ((Npos (Coq_xI (Coq_xO (Coq_xI (Coq_xI (Coq_xO
    Coq_xH)))))) :: ((Npos (Coq_xO (Coq_xO (Coq_xO (Coq_xI (Coq_xI
    Coq_xH)))))) :: ((Npos (Coq_xO (Coq_xI (Coq_xO (Coq_xO (Coq_xO
    Coq_xH)))))) :: ((Npos (Coq_xO (Coq_xI (Coq_xI (Coq_xI (Coq_xI
    Coq_xH)))))) :: ((Npos (Coq_xO (Coq_xI (Coq_xO Coq_xH)))) :: ((Npos
    (Coq_xO (Coq_xO (Coq_xO (Coq_xO (Coq_xO Coq_xH)))))) :: ((Npos (Coq_xO
    (Coq_xO (Coq_xO (Coq_xO (Coq_xO Coq_xH)))))) :: ((Npos (Coq_xO (Coq_xO
    (Coq_xO (Coq_xO (Coq_xO Coq_xH)))))) :: ((Npos (Coq_xO (Coq_xO (Coq_xO
    (Coq_xO (Coq_xO Coq_xH)))))) :: ((Npos (Coq_xO (Coq_xO (Coq_xI (Coq_xI
    (Coq_xI Coq_xH)))))) :: ((Npos (Coq_xI (Coq_xI (Coq_xO (Coq_xO (Coq_xI
    (Coq_xI Coq_xH))))))) :: ((Npos (Coq_xO (Coq_xO (Coq_xI (Coq_xO (Coq_xI
    (Coq_xI Coq_xH))))))) :: ((Npos (Coq_xI (Coq_xO (Coq_xO (Coq_xI (Coq_xI
    (Coq_xI Coq_xH))))))) :: ((Npos (Coq_xO (Coq_xO (Coq_xI (Coq_xI (Coq_xO
    (Coq_xI Coq_xH))))))) :: ((Npos (Coq_xI (Coq_xO (Coq_xI (Coq_xO (Coq_xO
    (Coq_xI Coq_xH))))))) :: ((Npos (Coq_xO (Coq_xI (Coq_xI (Coq_xI (Coq_xI
    Coq_xH)))))) :: ((Npos (Coq_xO (Coq_xI (Coq_xO Coq_xH)))) :: ((Npos
    (Coq_xO (Coq_xO (Coq_xO (Coq_xO (Coq_xO Coq_xH)))))) :: ((Npos (Coq_xO
    (Coq_xO (Coq_xO (Coq_xO (Coq_xO Coq_xH)))))) :: ((Npos (Coq_xO (Coq_xO
    (Coq_xO (Coq_xO (Coq_xO Coq_xH)))))) :: ((Npos (Coq_xO (Coq_xO (Coq_xO
    (Coq_xO (Coq_xO Coq_xH)))))) :: ((Npos (Coq_xO (Coq_xO (Coq_xO (Coq_xO
    (Coq_xO Coq_xH)))))) :: ((Npos (Coq_xO (Coq_xO (Coq_xO (Coq_xO (Coq_xO
    Coq_xH)))))) :: ((Npos (Coq_xO (Coq_xO (Coq_xO (Coq_xO (Coq_xO
    Coq_xH)))))) :: ((Npos (Coq_xO (Coq_xO (Coq_xO (Coq_xO (Coq_xO
    Coq_xH)))))) :: ((Npos (Coq_xO (Coq_xO (Coq_xI (Coq_xO (Coq_xI (Coq_xI
    Coq_xH))))))) :: ((Npos (Coq_xI (Coq_xO (Coq_xO (Coq_xO (Coq_xO (Coq_xI
    Coq_xH))))))) :: ((Npos (Coq_xO (Coq_xI (Coq_xO (Coq_xO (Coq_xO (Coq_xI
    Coq_xH))))))) :: ((Npos (Coq_xO (Coq_xO (Coq_xI (Coq_xI (Coq_xO (Coq_xI
    Coq_xH))))))) :: ((Npos (Coq_xI (Coq_xO (Coq_xI (Coq_xO (Coq_xO (Coq_xI
    Coq_xH))))))) :: ((Npos (Coq_xO (Coq_xO (Coq_xO (Coq_xO (Coq_xO
    Coq_xH)))))) :: ((Npos (Coq_xI (Coq_xI (Coq_xO (Coq_xI (Coq_xI (Coq_xI
    Coq_xH))))))) :: ((Npos (Coq_xO (Coq_xI (Coq_xO Coq_xH)))) :: ((Npos
    (Coq_xO (Coq_xO (Coq_xO (Coq_xO (Coq_xO Coq_xH)))))) :: ((Npos (Coq_xO
    (Coq_xO (Coq_xO (Coq_xO (Coq_xO Coq_xH)))))) :: ((Npos (Coq_xO (Coq_xO
    (Coq_xO (Coq_xO (Coq_xO Coq_xH)))))) :: ((Npos (Coq_xO (Coq_xO (Coq_xO
    (Coq_xO (Coq_xO Coq_xH)))))) :: ((Npos (Coq_xO (Coq_xO (Coq_xO (Coq_xO
    (Coq_xO Coq_xH)))))) :: ((Npos (Coq_xO (Coq_xO (Coq_xO (Coq_xO (Coq_xO
    Coq_xH)))))) :: ((Npos (Coq_xO (Coq_xO (Coq_xO (Coq_xO (Coq_xO
    Coq_xH)))))) :: ((Npos (Coq_xO (Coq_xO (Coq_xO (Coq_xO (Coq_xO
    Coq_xH)))))) :: ((Npos (Coq_xO (Coq_xI (Coq_xO (Coq_xO (Coq_xO (Coq_xI
    Coq_xH))))))) :: ((Npos (Coq_xI (Coq_xI (Coq_xI (Coq_xI (Coq_xO (Coq_xI
    Coq_xH))))))) :: ((Npos (Coq_xO (Coq_xI (Coq_xO (Coq_xO (Coq_xI (Coq_xI
    Coq_xH))))))) :: ((Npos (Coq_xO (Coq_xO (Coq_xI (Coq_xO (Coq_xO (Coq_xI
    Coq_xH))))))) :: ((Npos (Coq_xI (Coq_xO (Coq_xI (Coq_xO (Coq_xO (Coq_xI
    Coq_xH))))))) :: ((Npos (Coq_xO (Coq_xI (Coq_xO (Coq_xO (Coq_xI (Coq_xI
    Coq_xH))))))) :: ((Npos (Coq_xI (Coq_xO (Coq_xI (Coq_xI (Coq_xO
    Coq_xH)))))) :: ((Npos (Coq_xI (Coq_xI (Coq_xO (Coq_xO (Coq_xO (Coq_xI
    Coq_xH))))))) :: ((Npos (Coq_xI (Coq_xI (Coq_xI (Coq_xI (Coq_xO (Coq_xI
    Coq_xH))))))) :: ((Npos (Coq_xO (Coq_xO (Coq_xI (Coq_xI (Coq_xO (Coq_xI
    Coq_xH))))))) :: ((Npos (Coq_xO (Coq_xO (Coq_xI (Coq_xI (Coq_xO (Coq_xI
    Coq_xH))))))) :: ((Npos (Coq_xI (Coq_xO (Coq_xO (Coq_xO (Coq_xO (Coq_xI
    Coq_xH))))))) :: ((Npos (Coq_xO (Coq_xO (Coq_xO (Coq_xO (Coq_xI (Coq_xI
    Coq_xH))))))) :: ((Npos (Coq_xI (Coq_xI (Coq_xO (Coq_xO (Coq_xI (Coq_xI
    Coq_xH))))))) :: ((Npos (Coq_xI (Coq_xO (Coq_xI (Coq_xO (Coq_xO (Coq_xI
    Coq_xH))))))) :: ((Npos (Coq_xO (Coq_xI (Coq_xO (Coq_xI (Coq_xI
    Coq_xH)))))) :: ((Npos (Coq_xO (Coq_xO (Coq_xO (Coq_xO (Coq_xO
    Coq_xH)))))) :: ((Npos (Coq_xI (Coq_xI (Coq_xO (Coq_xO (Coq_xO (Coq_xI
    Coq_xH))))))) :: ((Npos (Coq_xI (Coq_xI (Coq_xI (Coq_xI (Coq_xO (Coq_xI
    Coq_xH))))))) :: ((Npos (Coq_xO (Coq_xO (Coq_xI (Coq_xI (Coq_xO (Coq_xI
    Coq_xH))))))) :: ((Npos (Coq_xO (Coq_xO (Coq_xI (Coq_xI (Coq_xO (Coq_xI
    Coq_xH))))))) :: ((Npos (Coq_xI (Coq_xO (Coq_xO (Coq_xO (Coq_xO (Coq_xI
    Coq_xH))))))) :: ((Npos (Coq_xO (Coq_xO (Coq_xO (Coq_xO (Coq_xI (Coq_xI
    Coq_xH))))))) :: ((Npos (Coq_xI (Coq_xI (Coq_xO (Coq_xO (Coq_xI (Coq_xI
    Coq_xH))))))) :: ((Npos (Coq_xI (Coq_xO (Coq_xI (Coq_xO (Coq_xO (Coq_xI
    Coq_xH))))))) :: ((Npos (Coq_xI (Coq_xI (Coq_xO (Coq_xI (Coq_xI
    Coq_xH)))))) :: ((Npos (Coq_xO (Coq_xI (Coq_xO Coq_xH)))) :: ((Npos
    (Coq_xO (Coq_xO (Coq_xO (Coq_xO (Coq_xO Coq_xH)))))) :: ((Npos (Coq_xO
    (Coq_xO (Coq_xO (Coq_xO (Coq_xO Coq_xH)))))) :: ((Npos (Coq_xO (Coq_xO
    (Coq_xO (Coq_xO (Coq_xO Coq_xH)))))) :: ((Npos (Coq_xO (Coq_xO (Coq_xO
    (Coq_xO (Coq_xO Coq_xH)))))) :: ((Npos (Coq_xO (Coq_xO (Coq_xO (Coq_xO
    (Coq_xO Coq_xH)))))) :: ((Npos (Coq_xO (Coq_xO (Coq_xO (Coq_xO (Coq_xO
    Coq_xH)))))) :: ((Npos (Coq_xO (Coq_xO (Coq_xO (Coq_xO (Coq_xO
    Coq_xH)))))) :: ((Npos (Coq_xO (Coq_xO (Coq_xO (Coq_xO (Coq_xO
    Coq_xH)))))) :: ((Npos (Coq_xI (Coq_xO (Coq_xI (Coq_xI (Coq_xI (Coq_xI
    Coq_xH))))))) :: ((Npos (Coq_xO (Coq_xI (Coq_xO Coq_xH)))) :: ((Npos
    (Coq_xO (Coq_xO (Coq_xO (Coq_xO (Coq_xO Coq_xH)))))) :: ((Npos (Coq_xO
    (Coq_xO (Coq_xO (Coq_xO (Coq_xO Coq_xH)))))) :: ((Npos (Coq_xO (Coq_xO
    (Coq_xO (Coq_xO (Coq_xO Coq_xH)))))) :: ((Npos (Coq_xO (Coq_xO (Coq_xO
    (Coq_xO (Coq_xO Coq_xH)))))) :: ((Npos (Coq_xO (Coq_xO (Coq_xO (Coq_xO
    (Coq_xO Coq_xH)))))) :: ((Npos (Coq_xO (Coq_xO (Coq_xO (Coq_xO (Coq_xO
    Coq_xH)))))) :: ((Npos (Coq_xO (Coq_xO (Coq_xO (Coq_xO (Coq_xO
    Coq_xH)))))) :: ((Npos (Coq_xO (Coq_xO (Coq_xO (Coq_xO (Coq_xO
    Coq_xH)))))) :: ((Npos (Coq_xO (Coq_xO (Coq_xI (Coq_xO (Coq_xI (Coq_xI
    Coq_xH))))))) :: ((Npos (Coq_xO (Coq_xO (Coq_xO (Coq_xI (Coq_xO (Coq_xI
    Coq_xH))))))) :: ((Npos (Coq_xO (Coq_xO (Coq_xI (Coq_xI (Coq_xO
    Coq_xH)))))) :: ((Npos (Coq_xO (Coq_xO (Coq_xO (Coq_xO (Coq_xO
    Coq_xH)))))) :: ((Npos (Coq_xO (Coq_xO (Coq_xI (Coq_xO (Coq_xI (Coq_xI
    Coq_xH))))))) :: ((Npos (Coq_xO (Coq_xO (Coq_xI (Coq_xO (Coq_xO (Coq_xI
    Coq_xH))))))) :: ((Npos (Coq_xO (Coq_xO (Coq_xO (Coq_xO (Coq_xO
    Coq_xH)))))) :: ((Npos (Coq_xI (Coq_xI (Coq_xO (Coq_xI (Coq_xI (Coq_xI
    Coq_xH))))))) :: ((Npos (Coq_xO (Coq_xI (Coq_xO Coq_xH)))) :: ((Npos
    (Coq_xO (Coq_xO (Coq_xO (Coq_xO (Coq_xO Coq_xH)))))) :: ((Npos (Coq_xO
    (Coq_xO (Coq_xO (Coq_xO (Coq_xO Coq_xH)))))) :: ((Npos (Coq_xO (Coq_xO
    (Coq_xO (Coq_xO (Coq_xO Coq_xH)))))) :: ((Npos (Coq_xO (Coq_xO (Coq_xO
    (Coq_xO (Coq_xO Coq_xH)))))) :: ((Npos (Coq_xO (Coq_xO (Coq_xO (Coq_xO
    (Coq_xO Coq_xH)))))) :: ((Npos (Coq_xO (Coq_xO (Coq_xO (Coq_xO (Coq_xO
    Coq_xH)))))) :: ((Npos (Coq_xO (Coq_xO (Coq_xO (Coq_xO (Coq_xO
    Coq_xH)))))) :: ((Npos (Coq_xO (Coq_xO (Coq_xO (Coq_xO (Coq_xO
    Coq_xH)))))) :: ((Npos (Coq_xO (Coq_xI (Coq_xO (Coq_xO (Coq_xO (Coq_xI
    Coq_xH))))))) :: ((Npos (Coq_xI (Coq_xI (Coq_xI (Coq_xI (Coq_xO (Coq_xI
    Coq_xH))))))) :: ((Npos (Coq_xO (Coq_xI (Coq_xO (Coq_xO (Coq_xI (Coq_xI
    Coq_xH))))))) :: ((Npos (Coq_xO (Coq_xO (Coq_xI (Coq_xO (Coq_xO (Coq_xI
    Coq_xH))))))) :: ((Npos (Coq_xI (Coq_xO (Coq_xI (Coq_xO (Coq_xO (Coq_xI
    Coq_xH))))))) :: ((Npos (Coq_xO (Coq_xI (Coq_xO (Coq_xO (Coq_xI (Coq_xI
    Coq_xH))))))) :: ((Npos (Coq_xO (Coq_xI (Coq_xO (Coq_xI (Coq_xI
    Coq_xH)))))) :: ((Npos (Coq_xO (Coq_xO (Coq_xO (Coq_xO (Coq_xO
    Coq_xH)))))) :: ((Npos (Coq_xI (Coq_xO (Coq_xO (Coq_xO (Coq_xI
    Coq_xH)))))) :: ((Npos (Coq_xO (Coq_xO (Coq_xO (Coq_xO (Coq_xI (Coq_xI
    Coq_xH))))))) :: ((Npos (Coq_xO (Coq_xO (Coq_xO (Coq_xI (Coq_xI (Coq_xI
    Coq_xH))))))) :: ((Npos (Coq_xO (Coq_xO (Coq_xO (Coq_xO (Coq_xO
    Coq_xH)))))) :: ((Npos (Coq_xI (Coq_xI (Coq_xO (Coq_xO (Coq_xI (Coq_xI
    Coq_xH))))))) :: ((Npos (Coq_xI (Coq_xI (Coq_xI (Coq_xI (Coq_xO (Coq_xI
    Coq_xH))))))) :: ((Npos (Coq_xO (Coq_xO (Coq_xI (Coq_xI (Coq_xO (Coq_xI
    Coq_xH))))))) :: ((Npos (Coq_xI (Coq_xO (Coq_xO (Coq_xI (Coq_xO (Coq_xI
    Coq_xH))))))) :: ((Npos (Coq_xO (Coq_xO (Coq_xI (Coq_xO (Coq_xO (Coq_xI
    Coq_xH))))))) :: ((Npos (Coq_xO (Coq_xO (Coq_xO (Coq_xO (Coq_xO
    Coq_xH)))))) :: ((Npos (Coq_xO (Coq_xI (Coq_xO (Coq_xO (Coq_xO (Coq_xI
    Coq_xH))))))) :: ((Npos (Coq_xO (Coq_xO (Coq_xI (Coq_xI (Coq_xO (Coq_xI
    Coq_xH))))))) :: ((Npos (Coq_xI (Coq_xO (Coq_xO (Coq_xO (Coq_xO (Coq_xI
    Coq_xH))))))) :: ((Npos (Coq_xI (Coq_xI (Coq_xO (Coq_xO (Coq_xO (Coq_xI
    Coq_xH))))))) :: ((Npos (Coq_xI (Coq_xI (Coq_xO (Coq_xI (Coq_xO (Coq_xI
    Coq_xH))))))) :: ((Npos (Coq_xI (Coq_xI (Coq_xO (Coq_xI (Coq_xI
    Coq_xH)))))) :: ((Npos (Coq_xO (Coq_xI (Coq_xO Coq_xH)))) :: ((Npos
    (Coq_xO (Coq_xO (Coq_xO (Coq_xO (Coq_xO Coq_xH)))))) :: ((Npos (Coq_xO
    (Coq_xO (Coq_xO (Coq_xO (Coq_xO Coq_xH)))))) :: ((Npos (Coq_xO (Coq_xO
    (Coq_xO (Coq_xO (Coq_xO Coq_xH)))))) :: ((Npos (Coq_xO (Coq_xO (Coq_xO
    (Coq_xO (Coq_xO Coq_xH)))))) :: ((Npos (Coq_xO (Coq_xO (Coq_xO (Coq_xO
    (Coq_xO Coq_xH)))))) :: ((Npos (Coq_xO (Coq_xO (Coq_xO (Coq_xO (Coq_xO
    Coq_xH)))))) :: ((Npos (Coq_xO (Coq_xO (Coq_xO (Coq_xO (Coq_xO
    Coq_xH)))))) :: ((Npos (Coq_xO (Coq_xO (Coq_xO (Coq_xO (Coq_xO
    Coq_xH)))))) :: ((Npos (Coq_xO (Coq_xO (Coq_xO (Coq_xO (Coq_xI (Coq_xI
    Coq_xH))))))) :: ((Npos (Coq_xI (Coq_xO (Coq_xO (Coq_xO (Coq_xO (Coq_xI
    Coq_xH))))))) :: ((Npos (Coq_xO (Coq_xO (Coq_xI (Coq_xO (Coq_xO (Coq_xI
    Coq_xH))))))) :: ((Npos (Coq_xO (Coq_xO (Coq_xI (Coq_xO (Coq_xO (Coq_xI
    Coq_xH))))))) :: ((Npos (Coq_xI (Coq_xO (Coq_xO (Coq_xI (Coq_xO (Coq_xI
    Coq_xH))))))) :: ((Npos (Coq_xO (Coq_xI (Coq_xI (Coq_xI (Coq_xO (Coq_xI
    Coq_xH))))))) :: ((Npos (Coq_xI (Coq_xI (Coq_xI (Coq_xO (Coq_xO (Coq_xI
    Coq_xH))))))) :: ((Npos (Coq_xO (Coq_xI (Coq_xO (Coq_xI (Coq_xI
    Coq_xH)))))) :: ((Npos (Coq_xO (Coq_xO (Coq_xO (Coq_xO (Coq_xO
    Coq_xH)))))) :: ((Npos (Coq_xO (Coq_xI (Coq_xO (Coq_xO (Coq_xI
    Coq_xH)))))) :: ((Npos (Coq_xO (Coq_xO (Coq_xO (Coq_xO (Coq_xI (Coq_xI
    Coq_xH))))))) :: ((Npos (Coq_xO (Coq_xO (Coq_xO (Coq_xI (Coq_xI (Coq_xI
    Coq_xH))))))) :: ((Npos (Coq_xO (Coq_xO (Coq_xO (Coq_xO (Coq_xO
    Coq_xH)))))) :: ((Npos (Coq_xO (Coq_xI (Coq_xO (Coq_xO (Coq_xI
    Coq_xH)))))) :: ((Npos (Coq_xO (Coq_xO (Coq_xO (Coq_xO (Coq_xI
    Coq_xH)))))) :: ((Npos (Coq_xO (Coq_xO (Coq_xO (Coq_xO (Coq_xI (Coq_xI
    Coq_xH))))))) :: ((Npos (Coq_xO (Coq_xO (Coq_xO (Coq_xI (Coq_xI (Coq_xI
    Coq_xH))))))) :: ((Npos (Coq_xO (Coq_xO (Coq_xO (Coq_xO (Coq_xO
    Coq_xH)))))) :: ((Npos (Coq_xO (Coq_xI (Coq_xO (Coq_xO (Coq_xI
    Coq_xH)))))) :: ((Npos (Coq_xO (Coq_xO (Coq_xO (Coq_xO (Coq_xI (Coq_xI
    Coq_xH))))))) :: ((Npos (Coq_xO (Coq_xO (Coq_xO (Coq_xI (Coq_xI (Coq_xI
    Coq_xH))))))) :: ((Npos (Coq_xO (Coq_xO (Coq_xO (Coq_xO (Coq_xO
    Coq_xH)))))) :: ((Npos (Coq_xO (Coq_xI (Coq_xO (Coq_xO (Coq_xI
    Coq_xH)))))) :: ((Npos (Coq_xO (Coq_xO (Coq_xO (Coq_xO (Coq_xI
    Coq_xH)))))) :: ((Npos (Coq_xO (Coq_xO (Coq_xO (Coq_xO (Coq_xI (Coq_xI
    Coq_xH))))))) :: ((Npos (Coq_xO (Coq_xO (Coq_xO (Coq_xI (Coq_xI (Coq_xI
    Coq_xH))))))) :: ((Npos (Coq_xI (Coq_xI (Coq_xO (Coq_xI (Coq_xI
    Coq_xH)))))) :: ((Npos (Coq_xO (Coq_xI (Coq_xO Coq_xH)))) :: ((Npos
    (Coq_xO (Coq_xO (Coq_xO (Coq_xO (Coq_xO Coq_xH)))))) :: ((Npos (Coq_xO
    (Coq_xO (Coq_xO (Coq_xO (Coq_xO Coq_xH)))))) :: ((Npos (Coq_xO (Coq_xO
    (Coq_xO (Coq_xO (Coq_xO Coq_xH)))))) :: ((Npos (Coq_xO (Coq_xO (Coq_xO
    (Coq_xO (Coq_xO Coq_xH)))))) :: ((Npos (Coq_xO (Coq_xO (Coq_xO (Coq_xO
    (Coq_xO Coq_xH)))))) :: ((Npos (Coq_xO (Coq_xO (Coq_xO (Coq_xO (Coq_xO
    Coq_xH)))))) :: ((Npos (Coq_xO (Coq_xO (Coq_xO (Coq_xO (Coq_xO
    Coq_xH)))))) :: ((Npos (Coq_xO (Coq_xO (Coq_xO (Coq_xO (Coq_xO
    Coq_xH)))))) :: ((Npos (Coq_xI (Coq_xO (Coq_xI (Coq_xI (Coq_xI (Coq_xI
    Coq_xH))))))) :: ((Npos (Coq_xO (Coq_xI (Coq_xO Coq_xH)))) :: ((Npos
    (Coq_xO (Coq_xO (Coq_xO (Coq_xO (Coq_xO Coq_xH)))))) :: ((Npos (Coq_xO
    (Coq_xO (Coq_xO (Coq_xO (Coq_xO Coq_xH)))))) :: ((Npos (Coq_xO (Coq_xO
    (Coq_xO (Coq_xO (Coq_xO Coq_xH)))))) :: ((Npos (Coq_xO (Coq_xO (Coq_xO
    (Coq_xO (Coq_xO Coq_xH)))))) :: ((Npos (Coq_xO (Coq_xO (Coq_xI (Coq_xI
    (Coq_xI Coq_xH)))))) :: ((Npos (Coq_xI (Coq_xI (Coq_xI (Coq_xI (Coq_xO
    Coq_xH)))))) :: ((Npos (Coq_xI (Coq_xI (Coq_xO (Coq_xO (Coq_xI (Coq_xI
    Coq_xH))))))) :: ((Npos (Coq_xO (Coq_xO (Coq_xI (Coq_xO (Coq_xI (Coq_xI
    Coq_xH))))))) :: ((Npos (Coq_xI (Coq_xO (Coq_xO (Coq_xI (Coq_xI (Coq_xI
    Coq_xH))))))) :: ((Npos (Coq_xO (Coq_xO (Coq_xI (Coq_xI (Coq_xO (Coq_xI
    Coq_xH))))))) :: ((Npos (Coq_xI (Coq_xO (Coq_xI (Coq_xO (Coq_xO (Coq_xI
    Coq_xH))))))) :: ((Npos (Coq_xO (Coq_xI (Coq_xI (Coq_xI (Coq_xI
    Coq_xH)))))) :: ((Npos (Coq_xO (Coq_xI (Coq_xO Coq_xH)))) :: ((Npos
    (Coq_xO (Coq_xO (Coq_xO (Coq_xO (Coq_xO Coq_xH)))))) :: ((Npos (Coq_xO
    (Coq_xO (Coq_xO (Coq_xO (Coq_xO Coq_xH)))))) :: ((Npos (Coq_xO (Coq_xO
    (Coq_xO (Coq_xO (Coq_xO Coq_xH)))))) :: ((Npos (Coq_xO (Coq_xO (Coq_xO
    (Coq_xO (Coq_xO Coq_xH)))))) :: ((Npos (Coq_xO (Coq_xO (Coq_xI (Coq_xI
    (Coq_xI Coq_xH)))))) :: ((Npos (Coq_xI (Coq_xI (Coq_xI (Coq_xI (Coq_xO
    Coq_xH)))))) :: ((Npos (Coq_xO (Coq_xO (Coq_xO (Coq_xI (Coq_xO (Coq_xI
    Coq_xH))))))) :: ((Npos (Coq_xI (Coq_xO (Coq_xI (Coq_xO (Coq_xO (Coq_xI
    Coq_xH))))))) :: ((Npos (Coq_xI (Coq_xO (Coq_xO (Coq_xO (Coq_xO (Coq_xI
    Coq_xH))))))) :: ((Npos (Coq_xO (Coq_xO (Coq_xI (Coq_xO (Coq_xO (Coq_xI
    Coq_xH))))))) :: ((Npos (Coq_xO (Coq_xI (Coq_xI (Coq_xI (Coq_xI
    Coq_xH)))))) :: ((Npos (Coq_xO (Coq_xI (Coq_xO Coq_xH)))) :: ((Npos
    (Coq_xO (Coq_xO (Coq_xO (Coq_xO (Coq_xO Coq_xH)))))) :: ((Npos (Coq_xO
    (Coq_xO (Coq_xO (Coq_xO (Coq_xO Coq_xH)))))) :: ((Npos (Coq_xO (Coq_xO
    (Coq_xO (Coq_xO (Coq_xO Coq_xH)))))) :: ((Npos (Coq_xO (Coq_xO (Coq_xO
    (Coq_xO (Coq_xO Coq_xH)))))) :: ((Npos (Coq_xO (Coq_xO (Coq_xI (Coq_xI
    (Coq_xI Coq_xH)))))) :: ((Npos (Coq_xO (Coq_xI (Coq_xO (Coq_xO (Coq_xO
    (Coq_xI Coq_xH))))))) :: ((Npos (Coq_xI (Coq_xI (Coq_xI (Coq_xI (Coq_xO
    (Coq_xI Coq_xH))))))) :: ((Npos (Coq_xO (Coq_xO (Coq_xI (Coq_xO (Coq_xO
    (Coq_xI Coq_xH))))))) :: ((Npos (Coq_xI (Coq_xO (Coq_xO (Coq_xI (Coq_xI
    (Coq_xI Coq_xH))))))) :: ((Npos (Coq_xO (Coq_xI (Coq_xI (Coq_xI (Coq_xI
    Coq_xH)))))) :: ((Npos (Coq_xO (Coq_xI (Coq_xO
    Coq_xH)))) :: [])))))))))))))))))))))))))))))))))))))))))))))))))))))))))))))))))))))))))))))))))))))))))))))))))))))))))))))))))))))))))))))))))))))))))))))))))))))))))))))))))))))))))))))))))))))))))))))))))))))))))))))))))))))))))))))))))))))))))))))))))))))))))))))))))))))))))))))))))))

(** val max_info_tlv_len : nat **)

let max_info_tlv_len =
  S (S (S (S (S (S (S (S (S (S (S (S (S (S (S (S (S (S (S (S (S (S (S (S (S
    (S (S (S (S (S (S (S (S (S (S (S (S (S (S (S (S (S (S (S (S (S (S (S (S
    (S (S (S (S (S (S (S (S (S (S (S
    O)))))))))))))))))))))))))))))))))))))))))))))))))))))))))))

(** val truncate_tlv : str -> str **)

let truncate_tlv s =
  firstn max_info_tlv_len s

(** val list_header : coq_N -> template **)

let list_header n =
  (Lit page_head) :: ((Lit ((Npos (Coq_xO (Coq_xO (Coq_xO (Coq_xO (Coq_xO
    Coq_xH)))))) :: ((Npos (Coq_xO (Coq_xO (Coq_xO (Coq_xO (Coq_xO
    Coq_xH)))))) :: ((Npos (Coq_xO (Coq_xO (Coq_xO (Coq_xO (Coq_xO
    Coq_xH)))))) :: ((Npos (Coq_xO (Coq_xO (Coq_xO (Coq_xO (Coq_xO
    Coq_xH)))))) :: ((Npos (Coq_xO (Coq_xO (Coq_xI (Coq_xI (Coq_xI
    Coq_xH)))))) :: ((Npos (Coq_xO (Coq_xO (Coq_xO (Coq_xO (Coq_xI (Coq_xI
    Coq_xH))))))) :: ((Npos (Coq_xO (Coq_xI (Coq_xO (Coq_xO (Coq_xI (Coq_xI
    Coq_xH))))))) :: ((Npos (Coq_xI (Coq_xO (Coq_xI (Coq_xO (Coq_xO (Coq_xI
    Coq_xH))))))) :: ((Npos (Coq_xO (Coq_xI (Coq_xI (Coq_xI (Coq_xI
    Coq_xH)))))) :: ((Npos (Coq_xI (Coq_xI (Coq_xO (Coq_xO (Coq_xI (Coq_xO
    Coq_xH))))))) :: ((Npos (Coq_xO (Coq_xO (Coq_xO (Coq_xI (Coq_xO (Coq_xI
    Coq_xH))))))) :: ((Npos (Coq_xI (Coq_xI (Coq_xI (Coq_xI (Coq_xO (Coq_xI
    Coq_xH))))))) :: ((Npos (Coq_xI (Coq_xI (Coq_xI (Coq_xO (Coq_xI (Coq_xI
    Coq_xH))))))) :: ((Npos (Coq_xI (Coq_xO (Coq_xO (Coq_xI (Coq_xO (Coq_xI
    Coq_xH))))))) :: ((Npos (Coq_xO (Coq_xI (Coq_xI (Coq_xI (Coq_xO (Coq_xI
    Coq_xH))))))) :: ((Npos (Coq_xI (Coq_xI (Coq_xI (Coq_xO (Coq_xO (Coq_xI
    Coq_xH))))))) :: ((Npos (Coq_xO (Coq_xO (Coq_xO (Coq_xO (Coq_xO
    Coq_xH)))))) :: [])))))))))))))))))) :: ((Num n) :: ((Lit ((Npos (Coq_xO
    (Coq_xO (Coq_xO (Coq_xO (Coq_xO Coq_xH)))))) :: ((Npos (Coq_xI (Coq_xO
    (Coq_xI (Coq_xI (Coq_xO (Coq_xI Coq_xH))))))) :: ((Npos (Coq_xI (Coq_xI
    (Coq_xI (Coq_xI (Coq_xO (Coq_xI Coq_xH))))))) :: ((Npos (Coq_xO (Coq_xI
    (Coq_xI (Coq_xI (Coq_xO (Coq_xI Coq_xH))))))) :: ((Npos (Coq_xI (Coq_xO
    (Coq_xO (Coq_xI (Coq_xO (Coq_xI Coq_xH))))))) :: ((Npos (Coq_xO (Coq_xO
    (Coq_xI (Coq_xO (Coq_xI (Coq_xI Coq_xH))))))) :: ((Npos (Coq_xI (Coq_xI
    (Coq_xI (Coq_xI (Coq_xO (Coq_xI Coq_xH))))))) :: ((Npos (Coq_xO (Coq_xI
    (Coq_xO (Coq_xO (Coq_xI (Coq_xI Coq_xH))))))) :: ((Npos (Coq_xI (Coq_xO
    (Coq_xI (Coq_xO (Coq_xO (Coq_xI Coq_xH))))))) :: ((Npos (Coq_xO (Coq_xO
    (Coq_xI (Coq_xO (Coq_xO (Coq_xI Coq_xH))))))) :: ((Npos (Coq_xO (Coq_xO
    (Coq_xO (Coq_xO (Coq_xO Coq_xH)))))) :: ((Npos (Coq_xO (Coq_xI (Coq_xO
    (Coq_xO (Coq_xI (Coq_xI Coq_xH))))))) :: ((Npos (Coq_xI (Coq_xI (Coq_xI
    (Coq_xI (Coq_xO (Coq_xI Coq_xH))))))) :: ((Npos (Coq_xI (Coq_xO (Coq_xI
    (Coq_xO (Coq_xI (Coq_xI Coq_xH))))))) :: ((Npos (Coq_xO (Coq_xO (Coq_xI
    (Coq_xO (Coq_xI (Coq_xI Coq_xH))))))) :: ((Npos (Coq_xI (Coq_xO (Coq_xI
    (Coq_xO (Coq_xO (Coq_xI Coq_xH))))))) :: ((Npos (Coq_xO (Coq_xI (Coq_xO
    (Coq_xO (Coq_xI (Coq_xI Coq_xH))))))) :: ((Npos (Coq_xI (Coq_xI (Coq_xO
    (Coq_xO (Coq_xI (Coq_xI Coq_xH))))))) :: ((Npos (Coq_xO (Coq_xI (Coq_xO
    (Coq_xI (Coq_xI Coq_xH)))))) :: ((Npos (Coq_xO (Coq_xI (Coq_xO
    Coq_xH)))) :: ((Npos (Coq_xO (Coq_xO (Coq_xO (Coq_xO (Coq_xO
    Coq_xH)))))) :: ((Npos (Coq_xO (Coq_xO (Coq_xO (Coq_xO (Coq_xO
    Coq_xH)))))) :: ((Npos (Coq_xO (Coq_xO (Coq_xO (Coq_xO (Coq_xO
    Coq_xH)))))) :: ((Npos (Coq_xO (Coq_xO (Coq_xO (Coq_xO (Coq_xO
    Coq_xH)))))) :: ((Npos (Coq_xO (Coq_xO (Coq_xI (Coq_xI (Coq_xI
    Coq_xH)))))) :: ((Npos (Coq_xO (Coq_xO (Coq_xI (Coq_xO (Coq_xI (Coq_xI
    Coq_xH))))))) :: ((Npos (Coq_xI (Coq_xO (Coq_xO (Coq_xO (Coq_xO (Coq_xI
    Coq_xH))))))) :: ((Npos (Coq_xO (Coq_xI (Coq_xO (Coq_xO (Coq_xO (Coq_xI
    Coq_xH))))))) :: ((Npos (Coq_xO (Coq_xO (Coq_xI (Coq_xI (Coq_xO (Coq_xI
    Coq_xH))))))) :: ((Npos (Coq_xI (Coq_xO (Coq_xI (Coq_xO (Coq_xO (Coq_xI
    Coq_xH))))))) :: ((Npos (Coq_xO (Coq_xI (Coq_xI (Coq_xI (Coq_xI
    Coq_xH)))))) :: ((Npos (Coq_xO (Coq_xI (Coq_xO Coq_xH)))) :: ((Npos
    (Coq_xO (Coq_xO (Coq_xO (Coq_xO (Coq_xO Coq_xH)))))) :: ((Npos (Coq_xO
    (Coq_xO (Coq_xO (Coq_xO (Coq_xO Coq_xH)))))) :: ((Npos (Coq_xO (Coq_xO
    (Coq_xO (Coq_xO (Coq_xO Coq_xH)))))) :: ((Npos (Coq_xO (Coq_xO (Coq_xO
    (Coq_xO (Coq_xO Coq_xH)))))) :: ((Npos (Coq_xO (Coq_xO (Coq_xO (Coq_xO
    (Coq_xO Coq_xH)))))) :: ((Npos (Coq_xO (Coq_xO (Coq_xO (Coq_xO (Coq_xO
    Coq_xH)))))) :: ((Npos (Coq_xO (Coq_xO (Coq_xO (Coq_xO (Coq_xO
    Coq_xH)))))) :: ((Npos (Coq_xO (Coq_xO (Coq_xO (Coq_xO (Coq_xO
    Coq_xH)))))) :: ((Npos (Coq_xO (Coq_xO (Coq_xI (Coq_xI (Coq_xI
    Coq_xH)))))) :: ((Npos (Coq_xO (Coq_xO (Coq_xI (Coq_xO (Coq_xI (Coq_xI
    Coq_xH))))))) :: ((Npos (Coq_xO (Coq_xI (Coq_xO (Coq_xO (Coq_xI (Coq_xI
    Coq_xH))))))) :: ((Npos (Coq_xO (Coq_xI (Coq_xI (Coq_xI (Coq_xI
    Coq_xH)))))) :: ((Npos (Coq_xO (Coq_xI (Coq_xO Coq_xH)))) :: ((Npos
    (Coq_xO (Coq_xO (Coq_xO (Coq_xO (Coq_xO Coq_xH)))))) :: ((Npos (Coq_xO
    (Coq_xO (Coq_xO (Coq_xO (Coq_xO Coq_xH)))))) :: ((Npos (Coq_xO (Coq_xO
    (Coq_xO (Coq_xO (Coq_xO Coq_xH)))))) :: ((Npos (Coq_xO (Coq_xO (Coq_xO
    (Coq_xO (Coq_xO Coq_xH)))))) :: ((Npos (Coq_xO (Coq_xO (Coq_xO (Coq_xO
    (Coq_xO Coq_xH)))))) :: ((Npos (Coq_xO (Coq_xO (Coq_xO (Coq_xO (Coq_xO
    Coq_xH)))))) :: ((Npos (Coq_xO (Coq_xO (Coq_xO (Coq_xO (Coq_xO
    Coq_xH)))))) :: ((Npos (Coq_xO (Coq_xO (Coq_xO (Coq_xO (Coq_xO
    Coq_xH)))))) :: ((Npos (Coq_xO (Coq_xO (Coq_xO (Coq_xO (Coq_xO
    Coq_xH)))))) :: ((Npos (Coq_xO (Coq_xO (Coq_xO (Coq_xO (Coq_xO
    Coq_xH)))))) :: ((Npos (Coq_xO (Coq_xO (Coq_xO (Coq_xO (Coq_xO
    Coq_xH)))))) :: ((Npos (Coq_xO (Coq_xO (Coq_xO (Coq_xO (Coq_xO
    Coq_xH)))))) :: ((Npos (Coq_xO (Coq_xO (Coq_xI (Coq_xI (Coq_xI
    Coq_xH)))))) :: ((Npos (Coq_xO (Coq_xO (Coq_xI (Coq_xO (Coq_xI (Coq_xI
    Coq_xH))))))) :: ((Npos (Coq_xO (Coq_xO (Coq_xO (Coq_xI (Coq_xO (Coq_xI
    Coq_xH))))))) :: ((Npos (Coq_xO (Coq_xI (Coq_xI (Coq_xI (Coq_xI
    Coq_xH)))))) :: ((Npos (Coq_xI (Coq_xO (Coq_xO (Coq_xI (Coq_xO (Coq_xO
    Coq_xH))))))) :: ((Npos (Coq_xO (Coq_xI (Coq_xI (Coq_xI (Coq_xO (Coq_xI
    Coq_xH))))))) :: ((Npos (Coq_xI (Coq_xI (Coq_xI (Coq_xO (Coq_xO (Coq_xI
    Coq_xH))))))) :: ((Npos (Coq_xO (Coq_xI (Coq_xO (Coq_xO (Coq_xI (Coq_xI
    Coq_xH))))))) :: ((Npos (Coq_xI (Coq_xO (Coq_xI (Coq_xO (Coq_xO (Coq_xI
    Coq_xH))))))) :: ((Npos (Coq_xI (Coq_xI (Coq_xO (Coq_xO (Coq_xI (Coq_xI
    Coq_xH))))))) :: ((Npos (Coq_xI (Coq_xI (Coq_xO (Coq_xO (Coq_xI (Coq_xI
    Coq_xH))))))) :: ((Npos (Coq_xO (Coq_xO (Coq_xO (Coq_xO (Coq_xO
    Coq_xH)))))) :: ((Npos (Coq_xI (Coq_xO (Coq_xO (Coq_xI (Coq_xO (Coq_xO
    Coq_xH))))))) :: ((Npos (Coq_xO (Coq_xO (Coq_xI (Coq_xO (Coq_xO (Coq_xO
    Coq_xH))))))) :: ((Npos (Coq_xO (Coq_xO (Coq_xI (Coq_xI (Coq_xI
    Coq_xH)))))) :: ((Npos (Coq_xI (Coq_xI (Coq_xI (Coq_xI (Coq_xO
    Coq_xH)))))) :: ((Npos (Coq_xO (Coq_xO (Coq_xI (Coq_xO (Coq_xI (Coq_xI
    Coq_xH))))))) :: ((Npos (Coq_xO (Coq_xO (Coq_xO (Coq_xI (Coq_xO (Coq_xI
    Coq_xH))))))) :: ((Npos (Coq_xO (Coq_xI (Coq_xI (Coq_xI (Coq_xI
    Coq_xH)))))) :: ((Npos (Coq_xO (Coq_xI (Coq_xO Coq_xH)))) :: ((Npos
    (Coq_xO (Coq_xO (Coq_xO (Coq_xO (Coq_xO Coq_xH)))))) :: ((Npos (Coq_xO
    (Coq_xO (Coq_xO (Coq_xO (Coq_xO Coq_xH)))))) :: ((Npos (Coq_xO (Coq_xO
    (Coq_xO (Coq_xO (Coq_xO Coq_xH)))))) :: ((Npos (Coq_xO (Coq_xO (Coq_xO
    (Coq_xO (Coq_xO Coq_xH)))))) :: ((Npos (Coq_xO (Coq_xO (Coq_xO (Coq_xO
    (Coq_xO Coq_xH)))))) :: ((Npos (Coq_xO (Coq_xO (Coq_xO (Coq_xO (Coq_xO
    Coq_xH)))))) :: ((Npos (Coq_xO (Coq_xO (Coq_xO (Coq_xO (Coq_xO
    Coq_xH)))))) :: ((Npos (Coq_xO (Coq_xO (Coq_xO (Coq_xO (Coq_xO
    Coq_xH)))))) :: ((Npos (Coq_xO (Coq_xO (Coq_xO (Coq_xO (Coq_xO
    Coq_xH)))))) :: ((Npos (Coq_xO (Coq_xO (Coq_xO (Coq_xO (Coq_xO
    Coq_xH)))))) :: ((Npos (Coq_xO (Coq_xO (Coq_xO (Coq_xO (Coq_xO
    Coq_xH)))))) :: ((Npos (Coq_xO (Coq_xO (Coq_xO (Coq_xO (Coq_xO
    Coq_xH)))))) :: ((Npos (Coq_xO (Coq_xO (Coq_xI (Coq_xI (Coq_xI
    Coq_xH)))))) :: ((Npos (Coq_xO (Coq_xO (Coq_xI (Coq_xO (Coq_xI (Coq_xI
    Coq_xH))))))) :: ((Npos (Coq_xO (Coq_xO (Coq_xO (Coq_xI (Coq_xO (Coq_xI
    Coq_xH))))))) :: ((Npos (Coq_xO (Coq_xI (Coq_xI (Coq_xI (Coq_xI
    Coq_xH)))))) :: ((Npos (Coq_xO (Coq_xI (Coq_xO (Coq_xO (Coq_xI (Coq_xO
    Coq_xH))))))) :: ((Npos (Coq_xI (Coq_xI (Coq_xI (Coq_xI (Coq_xO (Coq_xI
    Coq_xH))))))) :: ((Npos (Coq_xI (Coq_xO (Coq_xI (Coq_xO (Coq_xI (Coq_xI
    Coq_xH))))))) :: ((Npos (Coq_xO (Coq_xO (Coq_xI (Coq_xO (Coq_xI (Coq_xI
    Coq_xH))))))) :: ((Npos (Coq_xI (Coq_xO (Coq_xI (Coq_xO (Coq_xO (Coq_xI
    Coq_xH))))))) :: ((Npos (Coq_xO (Coq_xI (Coq_xO (Coq_xO (Coq_xI (Coq_xI
    Coq_xH))))))) :: ((Npos (Coq_xO (Coq_xO (Coq_xO (Coq_xO (Coq_xO
    Coq_xH)))))) :: ((Npos (Coq_xI (Coq_xO (Coq_xO (Coq_xO (Coq_xO (Coq_xO
    Coq_xH))))))) :: ((Npos (Coq_xO (Coq_xO (Coq_xI (Coq_xO (Coq_xO (Coq_xI
    Coq_xH))))))) :: ((Npos (Coq_xO (Coq_xO (Coq_xI (Coq_xO (Coq_xO (Coq_xI
    Coq_xH))))))) :: ((Npos (Coq_xO (Coq_xI (Coq_xO (Coq_xO (Coq_xI (Coq_xI
    Coq_xH))))))) :: ((Npos (Coq_xI (Coq_xO (Coq_xI (Coq_xO (Coq_xO (Coq_xI
    Coq_xH))))))) :: ((Npos (Coq_xI (Coq_xI (Coq_xO (Coq_xO (Coq_xI (Coq_xI
    Coq_xH))))))) :: ((Npos (Coq_xI (Coq_xI (Coq_xO (Coq_xO (Coq_xI (Coq_xI
    Coq_xH))))))) :: ((Npos (Coq_xO (Coq_xO (Coq_xI (Coq_xI (Coq_xI
    Coq_xH)))))) :: ((Npos (Coq_xI (Coq_xI (Coq_xI (Coq_xI (Coq_xO
    Coq_xH)))))) :: ((Npos (Coq_xO (Coq_xO (Coq_xI (Coq_xO (Coq_xI (Coq_xI
    Coq_xH))))))) :: ((Npos (Coq_xO (Coq_xO (Coq_xO (Coq_xI (Coq_xO (Coq_xI
    Coq_xH))))))) :: ((Npos (Coq_xO (Coq_xI (Coq_xI (Coq_xI (Coq_xI
    Coq_xH)))))) :: ((Npos (Coq_xO (Coq_xI (Coq_xO Coq_xH)))) :: ((Npos
    (Coq_xO (Coq_xO (Coq_xO (Coq_xO (Coq_xO Coq_xH)))))) :: ((Npos (Coq_xO
    (Coq_xO (Coq_xO (Coq_xO (Coq_xO Coq_xH)))))) :: ((Npos (Coq_xO (Coq_xO
    (Coq_xO (Coq_xO (Coq_xO Coq_xH)))))) :: ((Npos (Coq_xO (Coq_xO (Coq_xO
    (Coq_xO (Coq_xO Coq_xH)))))) :: ((Npos (Coq_xO (Coq_xO (Coq_xO (Coq_xO
    (Coq_xO Coq_xH)))))) :: ((Npos (Coq_xO (Coq_xO (Coq_xO (Coq_xO (Coq_xO
    Coq_xH)))))) :: ((Npos (Coq_xO (Coq_xO (Coq_xO (Coq_xO (Coq_xO
    Coq_xH)))))) :: ((Npos (Coq_xO (Coq_xO (Coq_xO (Coq_xO (Coq_xO
    Coq_xH)))))) :: ((Npos (Coq_xO (Coq_xO (Coq_xO (Coq_xO (Coq_xO
    Coq_xH)))))) :: ((Npos (Coq_xO (Coq_xO (Coq_xO (Coq_xO (Coq_xO
    Coq_xH)))))) :: ((Npos (Coq_xO (Coq_xO (Coq_xO (Coq_xO (Coq_xO
    Coq_xH)))))) :: ((Npos (Coq_xO (Coq_xO (Coq_xO (Coq_xO (Coq_xO
    Coq_xH)))))) :: ((Npos (Coq_xO (Coq_xO (Coq_xI (Coq_xI (Coq_xI
    Coq_xH)))))) :: ((Npos (Coq_xO (Coq_xO (Coq_xI (Coq_xO (Coq_xI (Coq_xI
    Coq_xH))))))) :: ((Npos (Coq_xO (Coq_xO (Coq_xO (Coq_xI (Coq_xO (Coq_xI
    Coq_xH))))))) :: ((Npos (Coq_xO (Coq_xI (Coq_xI (Coq_xI (Coq_xI
    Coq_xH)))))) :: ((Npos (Coq_xI (Coq_xI (Coq_xO (Coq_xO (Coq_xI (Coq_xI
    Coq_xH))))))) :: ((Npos (Coq_xI (Coq_xO (Coq_xO (Coq_xI (Coq_xI (Coq_xI
    Coq_xH))))))) :: ((Npos (Coq_xI (Coq_xI (Coq_xO (Coq_xO (Coq_xI (Coq_xI
    Coq_xH))))))) :: ((Npos (Coq_xO (Coq_xI (Coq_xI (Coq_xI (Coq_xO (Coq_xO
    Coq_xH))))))) :: ((Npos (Coq_xI (Coq_xO (Coq_xO (Coq_xO (Coq_xO (Coq_xI
    Coq_xH))))))) :: ((Npos (Coq_xI (Coq_xO (Coq_xI (Coq_xI (Coq_xO (Coq_xI
    Coq_xH))))))) :: ((Npos (Coq_xI (Coq_xO (Coq_xI (Coq_xO (Coq_xO (Coq_xI
    Coq_xH))))))) :: ((Npos (Coq_xO (Coq_xO (Coq_xI (Coq_xI (Coq_xI
    Coq_xH)))))) :: ((Npos (Coq_xI (Coq_xI (Coq_xI (Coq_xI (Coq_xO
    Coq_xH)))))) :: ((Npos (Coq_xO (Coq_xO (Coq_xI (Coq_xO (Coq_xI (Coq_xI
    Coq_xH))))))) :: ((Npos (Coq_xO (Coq_xO (Coq_xO (Coq_xI (Coq_xO (Coq_xI
    Coq_xH))))))) :: ((Npos (Coq_xO (Coq_xI (Coq_xI (Coq_xI (Coq_xI
    Coq_xH)))))) :: ((Npos (Coq_xO (Coq_xI (Coq_xO Coq_xH)))) :: ((Npos
    (Coq_xO (Coq_xO (Coq_xO (Coq_xO (Coq_xO Coq_xH)))))) :: ((Npos (Coq_xO
    (Coq_xO (Coq_xO (Coq_xO (Coq_xO Coq_xH)))))) :: ((Npos (Coq_xO (Coq_xO
    (Coq_xO (Coq_xO (Coq_xO Coq_xH)))))) :: ((Npos (Coq_xO (Coq_xO (Coq_xO
    (Coq_xO (Coq_xO Coq_xH)))))) :: ((Npos (Coq_xO (Coq_xO (Coq_xO (Coq_xO
    (Coq_xO Coq_xH)))))) :: ((Npos (Coq_xO (Coq_xO (Coq_xO (Coq_xO (Coq_xO
    Coq_xH)))))) :: ((Npos (Coq_xO (Coq_xO (Coq_xO (Coq_xO (Coq_xO
    Coq_xH)))))) :: ((Npos (Coq_xO (Coq_xO (Coq_xO (Coq_xO (Coq_xO
    Coq_xH)))))) :: ((Npos (Coq_xO (Coq_xO (Coq_xO (Coq_xO (Coq_xO
    Coq_xH)))))) :: ((Npos (Coq_xO (Coq_xO (Coq_xO (Coq_xO (Coq_xO
    Coq_xH)))))) :: ((Npos (Coq_xO (Coq_xO (Coq_xO (Coq_xO (Coq_xO
    Coq_xH)))))) :: ((Npos (Coq_xO (Coq_xO (Coq_xO (Coq_xO (Coq_xO
    Coq_xH)))))) :: ((Npos (Coq_xO (Coq_xO (Coq_xI (Coq_xI (Coq_xI
    Coq_xH)))))) :: ((Npos (Coq_xO (Coq_xO (Coq_xI (Coq_xO (Coq_xI (Coq_xI
    Coq_xH))))))) :: ((Npos (Coq_xO (Coq_xO (Coq_xO (Coq_xI (Coq_xO (Coq_xI
    Coq_xH))))))) :: ((Npos (Coq_xO (Coq_xI (Coq_xI (Coq_xI (Coq_xI
    Coq_xH)))))) :: ((Npos (Coq_xI (Coq_xI (Coq_xO (Coq_xO (Coq_xI (Coq_xI
    Coq_xH))))))) :: ((Npos (Coq_xI (Coq_xO (Coq_xO (Coq_xI (Coq_xI (Coq_xI
    Coq_xH))))))) :: ((Npos (Coq_xI (Coq_xI (Coq_xO (Coq_xO (Coq_xI (Coq_xI
    Coq_xH))))))) :: ((Npos (Coq_xO (Coq_xO (Coq_xI (Coq_xO (Coq_xO (Coq_xO
    Coq_xH))))))) :: ((Npos (Coq_xI (Coq_xO (Coq_xI (Coq_xO (Coq_xO (Coq_xI
    Coq_xH))))))) :: ((Npos (Coq_xI (Coq_xI (Coq_xO (Coq_xO (Coq_xI (Coq_xI
    Coq_xH))))))) :: ((Npos (Coq_xI (Coq_xI (Coq_xO (Coq_xO (Coq_xO (Coq_xI
    Coq_xH))))))) :: ((Npos (Coq_xO (Coq_xO (Coq_xI (Coq_xI (Coq_xI
    Coq_xH)))))) :: ((Npos (Coq_xI (Coq_xI (Coq_xI (Coq_xI (Coq_xO
    Coq_xH)))))) :: ((Npos (Coq_xO (Coq_xO (Coq_xI (Coq_xO (Coq_xI (Coq_xI
    Coq_xH))))))) :: ((Npos (Coq_xO (Coq_xO (Coq_xO (Coq_xI (Coq_xO (Coq_xI
    Coq_xH))))))) :: ((Npos (Coq_xO (Coq_xI (Coq_xI (Coq_xI (Coq_xI
    Coq_xH)))))) :: ((Npos (Coq_xO (Coq_xI (Coq_xO Coq_xH)))) :: ((Npos
    (Coq_xO (Coq_xO (Coq_xO (Coq_xO (Coq_xO Coq_xH)))))) :: ((Npos (Coq_xO
    (Coq_xO (Coq_xO (Coq_xO (Coq_xO Coq_xH)))))) :: ((Npos (Coq_xO (Coq_xO
    (Coq_xO (Coq_xO (Coq_xO Coq_xH)))))) :: ((Npos (Coq_xO (Coq_xO (Coq_xO
    (Coq_xO (Coq_xO Coq_xH)))))) :: ((Npos (Coq_xO (Coq_xO (Coq_xO (Coq_xO
    (Coq_xO Coq_xH)))))) :: ((Npos (Coq_xO (Coq_xO (Coq_xO (Coq_xO (Coq_xO
    Coq_xH)))))) :: ((Npos (Coq_xO (Coq_xO (Coq_xO (Coq_xO (Coq_xO
    Coq_xH)))))) :: ((Npos (Coq_xO (Coq_xO (Coq_xO (Coq_xO (Coq_xO
    Coq_xH)))))) :: ((Npos (Coq_xO (Coq_xO (Coq_xO (Coq_xO (Coq_xO
    Coq_xH)))))) :: ((Npos (Coq_xO (Coq_xO (Coq_xO (Coq_xO (Coq_xO
    Coq_xH)))))) :: ((Npos (Coq_xO (Coq_xO (Coq_xO (Coq_xO (Coq_xO
    Coq_xH)))))) :: ((Npos (Coq_xO (Coq_xO (Coq_xO (Coq_xO (Coq_xO
    Coq_xH)))))) :: ((Npos (Coq_xO (Coq_xO (Coq_xI (Coq_xI (Coq_xI
    Coq_xH)))))) :: ((Npos (Coq_xO (Coq_xO (Coq_xI (Coq_xO (Coq_xI (Coq_xI
    Coq_xH))))))) :: ((Npos (Coq_xO (Coq_xO (Coq_xO (Coq_xI (Coq_xO (Coq_xI
    Coq_xH))))))) :: ((Npos (Coq_xO (Coq_xI (Coq_xI (Coq_xI (Coq_xI
    Coq_xH)))))) :: ((Npos (Coq_xI (Coq_xI (Coq_xO (Coq_xO (Coq_xI (Coq_xO
    Coq_xH))))))) :: ((Npos (Coq_xO (Coq_xO (Coq_xI (Coq_xO (Coq_xI (Coq_xI
    Coq_xH))))))) :: ((Npos (Coq_xI (Coq_xO (Coq_xO (Coq_xO (Coq_xO (Coq_xI
    Coq_xH))))))) :: ((Npos (Coq_xO (Coq_xO (Coq_xI (Coq_xO (Coq_xI (Coq_xI
    Coq_xH))))))) :: ((Npos (Coq_xI (Coq_xO (Coq_xI (Coq_xO (Coq_xO (Coq_xI
    Coq_xH))))))) :: ((Npos (Coq_xO (Coq_xO (Coq_xI (Coq_xI (Coq_xI
    Coq_xH)))))) :: ((Npos (Coq_xI (Coq_xI (Coq_xI (Coq_xI (Coq_xO
    Coq_xH)))))) :: ((Npos (Coq_xO (Coq_xO (Coq_xI (Coq_xO (Coq_xI (Coq_xI
    Coq_xH))))))) :: ((Npos (Coq_xO (Coq_xO (Coq_xO (Coq_xI (Coq_xO (Coq_xI
    Coq_xH))))))) :: ((Npos (Coq_xO (Coq_xI (Coq_xI (Coq_xI (Coq_xI
    Coq_xH)))))) :: ((Npos (Coq_xO (Coq_xI (Coq_xO Coq_xH)))) :: ((Npos
    (Coq_xO (Coq_xO (Coq_xO (Coq_xO (Coq_xO Coq_xH)))))) :: ((Npos (Coq_xO
    (Coq_xO (Coq_xO (Coq_xO (Coq_xO Coq_xH)))))) :: ((Npos (Coq_xO (Coq_xO
    (Coq_xO (Coq_xO (Coq_xO Coq_xH)))))) :: ((Npos (Coq_xO (Coq_xO (Coq_xO
    (Coq_xO (Coq_xO Coq_xH)))))) :: ((Npos (Coq_xO (Coq_xO (Coq_xO (Coq_xO
    (Coq_xO Coq_xH)))))) :: ((Npos (Coq_xO (Coq_xO (Coq_xO (Coq_xO (Coq_xO
    Coq_xH)))))) :: ((Npos (Coq_xO (Coq_xO (Coq_xO (Coq_xO (Coq_xO
    Coq_xH)))))) :: ((Npos (Coq_xO (Coq_xO (Coq_xO (Coq_xO (Coq_xO
    Coq_xH)))))) :: ((Npos (Coq_xO (Coq_xO (Coq_xO (Coq_xO (Coq_xO
    Coq_xH)))))) :: ((Npos (Coq_xO (Coq_xO (Coq_xO (Coq_xO (Coq_xO
    Coq_xH)))))) :: ((Npos (Coq_xO (Coq_xO (Coq_xO (Coq_xO (Coq_xO
    Coq_xH)))))) :: ((Npos (Coq_xO (Coq_xO (Coq_xO (Coq_xO (Coq_xO
    Coq_xH)))))) :: ((Npos (Coq_xO (Coq_xO (Coq_xI (Coq_xI (Coq_xI
    Coq_xH)))))) :: ((Npos (Coq_xO (Coq_xO (Coq_xI (Coq_xO (Coq_xI (Coq_xI
    Coq_xH))))))) :: ((Npos (Coq_xO (Coq_xO (Coq_xO (Coq_xI (Coq_xO (Coq_xI
    Coq_xH))))))) :: ((Npos (Coq_xO (Coq_xI (Coq_xI (Coq_xI (Coq_xI
    Coq_xH)))))) :: ((Npos (Coq_xI (Coq_xI (Coq_xO (Coq_xO (Coq_xO
    Coq_xH)))))) :: ((Npos (Coq_xO (Coq_xO (Coq_xO (Coq_xO (Coq_xO
    Coq_xH)))))) :: ((Npos (Coq_xO (Coq_xO (Coq_xO (Coq_xO (Coq_xI (Coq_xO
    Coq_xH))))))) :: ((Npos (Coq_xI (Coq_xO (Coq_xI (Coq_xO (Coq_xO (Coq_xI
    Coq_xH))))))) :: ((Npos (Coq_xI (Coq_xO (Coq_xI (Coq_xO (Coq_xO (Coq_xI
    Coq_xH))))))) :: ((Npos (Coq_xO (Coq_xI (Coq_xO (Coq_xO (Coq_xI (Coq_xI
    Coq_xH))))))) :: ((Npos (Coq_xI (Coq_xI (Coq_xO (Coq_xO (Coq_xI (Coq_xI
    Coq_xH))))))) :: ((Npos (Coq_xO (Coq_xO (Coq_xO (Coq_xO (Coq_xO
    Coq_xH)))))) :: ((Npos (Coq_xI (Coq_xO (Coq_xI (Coq_xO (Coq_xI (Coq_xO
    Coq_xH))))))) :: ((Npos (Coq_xO (Coq_xO (Coq_xO (Coq_xO (Coq_xI (Coq_xI
    Coq_xH))))))) :: ((Npos (Coq_xI (Coq_xI (Coq_xI (Coq_xI (Coq_xO
    Coq_xH)))))) :: ((Npos (Coq_xI (Coq_xO (Coq_xI (Coq_xO (Coq_xO (Coq_xO
    Coq_xH))))))) :: ((Npos (Coq_xI (Coq_xI (Coq_xI (Coq_xI (Coq_xO (Coq_xI
    Coq_xH))))))) :: ((Npos (Coq_xO (Coq_xI (Coq_xO (Coq_xO (Coq_xI (Coq_xO
    Coq_xH))))))) :: ((Npos (Coq_xO (Coq_xO (Coq_xO (Coq_xO (Coq_xO
    Coq_xH)))))) :: ((Npos (Coq_xI (Coq_xI (Coq_xO (Coq_xO (Coq_xO (Coq_xO
    Coq_xH))))))) :: ((Npos (Coq_xI (Coq_xO (Coq_xO (Coq_xO (Coq_xO (Coq_xI
    Coq_xH))))))) :: ((Npos (Coq_xO (Coq_xO (Coq_xO (Coq_xO (Coq_xI (Coq_xI
    Coq_xH))))))) :: ((Npos (Coq_xI (Coq_xO (Coq_xO (Coq_xO (Coq_xO (Coq_xI
    Coq_xH))))))) :: ((Npos (Coq_xO (Coq_xI (Coq_xO (Coq_xO (Coq_xO (Coq_xI
    Coq_xH))))))) :: ((Npos (Coq_xO (Coq_xO (Coq_xI (Coq_xI (Coq_xO (Coq_xI
    Coq_xH))))))) :: ((Npos (Coq_xI (Coq_xO (Coq_xI (Coq_xO (Coq_xO (Coq_xI
    Coq_xH))))))) :: ((Npos (Coq_xI (Coq_xI (Coq_xI (Coq_xI (Coq_xO
    Coq_xH)))))) :: ((Npos (Coq_xO (Coq_xO (Coq_xI (Coq_xO (Coq_xO (Coq_xO
    Coq_xH))))))) :: ((Npos (Coq_xI (Coq_xO (Coq_xI (Coq_xO (Coq_xI (Coq_xI
    Coq_xH))))))) :: ((Npos (Coq_xI (Coq_xO (Coq_xI (Coq_xI (Coq_xO (Coq_xI
    Coq_xH))))))) :: ((Npos (Coq_xO (Coq_xO (Coq_xO (Coq_xO (Coq_xI (Coq_xI
    Coq_xH))))))) :: ((Npos (Coq_xI (Coq_xO (Coq_xO (Coq_xI (Coq_xO (Coq_xI
    Coq_xH))))))) :: ((Npos (Coq_xO (Coq_xI (Coq_xI (Coq_xI (Coq_xO (Coq_xI
    Coq_xH))))))) :: ((Npos (Coq_xI (Coq_xI (Coq_xI (Coq_xO (Coq_xO (Coq_xI
    Coq_xH))))))) :: ((Npos (Coq_xO (Coq_xO (Coq_xI (Coq_xI (Coq_xI
    Coq_xH)))))) :: ((Npos (Coq_xI (Coq_xI (Coq_xI (Coq_xI (Coq_xO
    Coq_xH)))))) :: ((Npos (Coq_xO (Coq_xO (Coq_xI (Coq_xO (Coq_xI (Coq_xI
    Coq_xH))))))) :: ((Npos (Coq_xO (Coq_xO (Coq_xO (Coq_xI (Coq_xO (Coq_xI
    Coq_xH))))))) :: ((Npos (Coq_xO (Coq_xI (Coq_xI (Coq_xI (Coq_xI
    Coq_xH)))))) :: ((Npos (Coq_xO (Coq_xI (Coq_xO Coq_xH)))) :: ((Npos
    (Coq_xO (Coq_xO (Coq_xO (Coq_xO (Coq_xO Coq_xH)))))) :: ((Npos (Coq_xO
    (Coq_xO (Coq_xO (Coq_xO (Coq_xO Coq_xH)))))) :: ((Npos (Coq_xO (Coq_xO
    (Coq_xO (Coq_xO (Coq_xO Coq_xH)))))) :: ((Npos (Coq_xO (Coq_xO (Coq_xO
    (Coq_xO (Coq_xO Coq_xH)))))) :: ((Npos (Coq_xO (Coq_xO (Coq_xO (Coq_xO
    (Coq_xO Coq_xH)))))) :: ((Npos (Coq_xO (Coq_xO (Coq_xO (Coq_xO (Coq_xO
    Coq_xH)))))) :: ((Npos (Coq_xO (Coq_xO (Coq_xO (Coq_xO (Coq_xO
    Coq_xH)))))) :: ((Npos (Coq_xO (Coq_xO (Coq_xO (Coq_xO (Coq_xO
    Coq_xH)))))) :: ((Npos (Coq_xO (Coq_xO (Coq_xO (Coq_xO (Coq_xO
    Coq_xH)))))) :: ((Npos (Coq_xO (Coq_xO (Coq_xO (Coq_xO (Coq_xO
    Coq_xH)))))) :: ((Npos (Coq_xO (Coq_xO (Coq_xO (Coq_xO (Coq_xO
    Coq_xH)))))) :: ((Npos (Coq_xO (Coq_xO (Coq_xO (Coq_xO (Coq_xO
    Coq_xH)))))) :: ((Npos (Coq_xO (Coq_xO (Coq_xI (Coq_xI (Coq_xI
    Coq_xH)))))) :: ((Npos (Coq_xO (Coq_xO (Coq_xI (Coq_xO (Coq_xI (Coq_xI
    Coq_xH))))))) :: ((Npos (Coq_xO (Coq_xO (Coq_xO (Coq_xI (Coq_xO (Coq_xI
    Coq_xH))))))) :: ((Npos (Coq_xO (Coq_xI (Coq_xI (Coq_xI (Coq_xI
    Coq_xH)))))) :: ((Npos (Coq_xI (Coq_xI (Coq_xO (Coq_xO (Coq_xO
    Coq_xH)))))) :: ((Npos (Coq_xO (Coq_xO (Coq_xO (Coq_xO (Coq_xO
    Coq_xH)))))) :: ((Npos (Coq_xI (Coq_xO (Coq_xO (Coq_xI (Coq_xO (Coq_xO
    Coq_xH))))))) :: ((Npos (Coq_xO (Coq_xI (Coq_xI (Coq_xI (Coq_xO (Coq_xI
    Coq_xH))))))) :: ((Npos (Coq_xO (Coq_xI (Coq_xI (Coq_xO (Coq_xI (Coq_xI
    Coq_xH))))))) :: ((Npos (Coq_xI (Coq_xO (Coq_xO (Coq_xO (Coq_xO (Coq_xI
    Coq_xH))))))) :: ((Npos (Coq_xO (Coq_xO (Coq_xI (Coq_xI (Coq_xO (Coq_xI
    Coq_xH))))))) :: ((Npos (Coq_xI (Coq_xO (Coq_xO (Coq_xI (Coq_xO (Coq_xI
    Coq_xH))))))) :: ((Npos (Coq_xO (Coq_xO (Coq_xI (Coq_xO (Coq_xO (Coq_xI
    Coq_xH))))))) :: ((Npos (Coq_xO (Coq_xO (Coq_xO (Coq_xO (Coq_xO
    Coq_xH)))))) :: ((Npos (Coq_xI (Coq_xO (Coq_xI (Coq_xI (Coq_xO (Coq_xO
    Coq_xH))))))) :: ((Npos (Coq_xI (Coq_xO (Coq_xI (Coq_xO (Coq_xO (Coq_xI
    Coq_xH))))))) :: ((Npos (Coq_xI (Coq_xI (Coq_xO (Coq_xO (Coq_xI (Coq_xI
    Coq_xH))))))) :: ((Npos (Coq_xI (Coq_xI (Coq_xO (Coq_xO (Coq_xI (Coq_xI
    Coq_xH))))))) :: ((Npos (Coq_xI (Coq_xO (Coq_xO (Coq_xO (Coq_xO (Coq_xI
    Coq_xH))))))) :: ((Npos (Coq_xI (Coq_xI (Coq_xI (Coq_xO (Coq_xO (Coq_xI
    Coq_xH))))))) :: ((Npos (Coq_xI (Coq_xO (Coq_xI (Coq_xO (Coq_xO (Coq_xI
    Coq_xH))))))) :: ((Npos (Coq_xI (Coq_xI (Coq_xO (Coq_xO (Coq_xI (Coq_xI
    Coq_xH))))))) :: ((Npos (Coq_xO (Coq_xO (Coq_xO (Coq_xO (Coq_xO
    Coq_xH)))))) :: ((Npos (Coq_xO (Coq_xO (Coq_xO (Coq_xI (Coq_xO
    Coq_xH)))))) :: ((Npos (Coq_xI (Coq_xI (Coq_xO (Coq_xO (Coq_xI (Coq_xO
    Coq_xH))))))) :: ((Npos (Coq_xI (Coq_xI (Coq_xI (Coq_xI (Coq_xO (Coq_xI
    Coq_xH))))))) :: ((Npos (Coq_xO (Coq_xI (Coq_xI (Coq_xO (Coq_xO (Coq_xI
    Coq_xH))))))) :: ((Npos (Coq_xO (Coq_xO (Coq_xI (Coq_xO (Coq_xI (Coq_xI
    Coq_xH))))))) :: ((Npos (Coq_xI (Coq_xI (Coq_xI (Coq_xI (Coq_xO
    Coq_xH)))))) :: ((Npos (Coq_xO (Coq_xO (Coq_xO (Coq_xI (Coq_xO (Coq_xO
    Coq_xH))))))) :: ((Npos (Coq_xI (Coq_xO (Coq_xO (Coq_xO (Coq_xO (Coq_xI
    Coq_xH))))))) :: ((Npos (Coq_xO (Coq_xI (Coq_xO (Coq_xO (Coq_xI (Coq_xI
    Coq_xH))))))) :: ((Npos (Coq_xO (Coq_xO (Coq_xI (Coq_xO (Coq_xO (Coq_xI
    Coq_xH))))))) :: ((Npos (Coq_xO (Coq_xO (Coq_xO (Coq_xO (Coq_xO
    Coq_xH)))))) :: ((Npos (Coq_xO (Coq_xO (Coq_xO (Coq_xO (Coq_xI (Coq_xO
    Coq_xH))))))) :: ((Npos (Coq_xI (Coq_xO (Coq_xO (Coq_xO (Coq_xO (Coq_xI
    Coq_xH))))))) :: ((Npos (Coq_xO (Coq_xI (Coq_xO (Coq_xO (Coq_xI (Coq_xI
    Coq_xH))))))) :: ((Npos (Coq_xI (Coq_xI (Coq_xO (Coq_xO (Coq_xI (Coq_xI
    Coq_xH))))))) :: ((Npos (Coq_xI (Coq_xO (Coq_xI (Coq_xO (Coq_xO (Coq_xI
    Coq_xH))))))) :: ((Npos (Coq_xO (Coq_xO (Coq_xO (Coq_xO (Coq_xO
    Coq_xH)))))) :: ((Npos (Coq_xI (Coq_xO (Coq_xI (Coq_xO (Coq_xO (Coq_xO
    Coq_xH))))))) :: ((Npos (Coq_xO (Coq_xI (Coq_xO (Coq_xO (Coq_xI (Coq_xI
    Coq_xH))))))) :: ((Npos (Coq_xO (Coq_xI (Coq_xO (Coq_xO (Coq_xI (Coq_xI
    Coq_xH))))))) :: ((Npos (Coq_xI (Coq_xI (Coq_xI (Coq_xI (Coq_xO (Coq_xI
    Coq_xH))))))) :: ((Npos (Coq_xO (Coq_xI (Coq_xO (Coq_xO (Coq_xI (Coq_xI
    Coq_xH))))))) :: ((Npos (Coq_xI (Coq_xI (Coq_xO (Coq_xO (Coq_xI (Coq_xI
    Coq_xH))))))) :: ((Npos (Coq_xI (Coq_xO (Coq_xO (Coq_xI (Coq_xO
    Coq_xH)))))) :: ((Npos (Coq_xO (Coq_xO (Coq_xI (Coq_xI (Coq_xI
    Coq_xH)))))) :: ((Npos (Coq_xI (Coq_xI (Coq_xI (Coq_xI (Coq_xO
    Coq_xH)))))) :: ((Npos (Coq_xO (Coq_xO (Coq_xI (Coq_xO (Coq_xI (Coq_xI
    Coq_xH))))))) :: ((Npos (Coq_xO (Coq_xO (Coq_xO (Coq_xI (Coq_xO (Coq_xI
    Coq_xH))))))) :: ((Npos (Coq_xO (Coq_xI (Coq_xI (Coq_xI (Coq_xI
    Coq_xH)))))) :: ((Npos (Coq_xO (Coq_xI (Coq_xO Coq_xH)))) :: ((Npos
    (Coq_xO (Coq_xO (Coq_xO (Coq_xO (Coq_xO Coq_xH)))))) :: ((Npos (Coq_xO
    (Coq_xO (Coq_xO (Coq_xO (Coq_xO Coq_xH)))))) :: ((Npos (Coq_xO (Coq_xO
    (Coq_xO (Coq_xO (Coq_xO Coq_xH)))))) :: ((Npos (Coq_xO (Coq_xO (Coq_xO
    (Coq_xO (Coq_xO Coq_xH)))))) :: ((Npos (Coq_xO (Coq_xO (Coq_xO (Coq_xO
    (Coq_xO Coq_xH)))))) :: ((Npos (Coq_xO (Coq_xO (Coq_xO (Coq_xO (Coq_xO
    Coq_xH)))))) :: ((Npos (Coq_xO (Coq_xO (Coq_xO (Coq_xO (Coq_xO
    Coq_xH)))))) :: ((Npos (Coq_xO (Coq_xO (Coq_xO (Coq_xO (Coq_xO
    Coq_xH)))))) :: ((Npos (Coq_xO (Coq_xO (Coq_xI (Coq_xI (Coq_xI
    Coq_xH)))))) :: ((Npos (Coq_xI (Coq_xI (Coq_xI (Coq_xI (Coq_xO
    Coq_xH)))))) :: ((Npos (Coq_xO (Coq_xO (Coq_xI (Coq_xO (Coq_xI (Coq_xI
    Coq_xH))))))) :: ((Npos (Coq_xO (Coq_xI (Coq_xO (Coq_xO (Coq_xI (Coq_xI
    Coq_xH))))))) :: ((Npos (Coq_xO (Coq_xI (Coq_xI (Coq_xI (Coq_xI
    Coq_xH)))))) :: ((Npos (Coq_xO (Coq_xI (Coq_xO
    Coq_xH)))) :: [])))))))))))))))))))))))))))))))))))))))))))))))))))))))))))))))))))))))))))))))))))))))))))))))))))))))))))))))))))))))))))))))))))))))))))))))))))))))))))))))))))))))))))))))))))))))))))))))))))))))))))))))))))))))))))))))))))))))))))))))))))))))))))))))))))))))))))))))))))))))))))))))))))))))))))))))))))))))))))))))))))))))))) :: [])))

(** val list_footer : template **)

let list_footer =
  (Lit ((Npos (Coq_xO (Coq_xO (Coq_xO (Coq_xO (Coq_xO Coq_xH)))))) :: ((Npos
    (Coq_xO (Coq_xO (Coq_xO (Coq_xO (Coq_xO Coq_xH)))))) :: ((Npos (Coq_xO
    (Coq_xO (Coq_xO (Coq_xO (Coq_xO Coq_xH)))))) :: ((Npos (Coq_xO (Coq_xO
    (Coq_xO (Coq_xO (Coq_xO Coq_xH)))))) :: ((Npos (Coq_xO (Coq_xO (Coq_xO
    (Coq_xO (Coq_xO Coq_xH)))))) :: ((Npos (Coq_xO (Coq_xO (Coq_xO (Coq_xO
    (Coq_xO Coq_xH)))))) :: ((Npos (Coq_xO (Coq_xO (Coq_xI (Coq_xI (Coq_xI
    Coq_xH)))))) :: ((Npos (Coq_xI (Coq_xI (Coq_xI (Coq_xI (Coq_xO
    Coq_xH)))))) :: ((Npos (Coq_xO (Coq_xO (Coq_xI (Coq_xO (Coq_xI (Coq_xI
    Coq_xH))))))) :: ((Npos (Coq_xI (Coq_xO (Coq_xO (Coq_xO (Coq_xO (Coq_xI
    Coq_xH))))))) :: ((Npos (Coq_xO (Coq_xI (Coq_xO (Coq_xO (Coq_xO (Coq_xI
    Coq_xH))))))) :: ((Npos (Coq_xO (Coq_xO (Coq_xI (Coq_xI (Coq_xO (Coq_xI
    Coq_xH))))))) :: ((Npos (Coq_xI (Coq_xO (Coq_xI (Coq_xO (Coq_xO (Coq_xI
    Coq_xH))))))) :: ((Npos (Coq_xO (Coq_xI (Coq_xI (Coq_xI (Coq_xI
    Coq_xH)))))) :: ((Npos (Coq_xO (Coq_xI (Coq_xO Coq_xH)))) :: ((Npos
    (Coq_xO (Coq_xO (Coq_xO (Coq_xO (Coq_xO Coq_xH)))))) :: ((Npos (Coq_xO
    (Coq_xO (Coq_xO (Coq_xO (Coq_xO Coq_xH)))))) :: ((Npos (Coq_xO (Coq_xO
    (Coq_xO (Coq_xO (Coq_xO Coq_xH)))))) :: ((Npos (Coq_xO (Coq_xO (Coq_xO
    (Coq_xO (Coq_xO Coq_xH)))))) :: ((Npos (Coq_xO (Coq_xO (Coq_xI (Coq_xI
    (Coq_xI Coq_xH)))))) :: ((Npos (Coq_xI (Coq_xI (Coq_xI (Coq_xI (Coq_xO
    Coq_xH)))))) :: ((Npos (Coq_xO (Coq_xO (Coq_xO (Coq_xO (Coq_xI (Coq_xI
    Coq_xH))))))) :: ((Npos (Coq_xO (Coq_xI (Coq_xO (Coq_xO (Coq_xI (Coq_xI
    Coq_xH))))))) :: ((Npos (Coq_xI (Coq_xO (Coq_xI (Coq_xO (Coq_xO (Coq_xI
    Coq_xH))))))) :: ((Npos (Coq_xO (Coq_xI (Coq_xI (Coq_xI (Coq_xI
    Coq_xH)))))) :: ((Npos (Coq_xO (Coq_xI (Coq_xO Coq_xH)))) :: ((Npos
    (Coq_xO (Coq_xO (Coq_xO (Coq_xO (Coq_xO Coq_xH)))))) :: ((Npos (Coq_xO
    (Coq_xO (Coq_xO (Coq_xO (Coq_xO Coq_xH)))))) :: ((Npos (Coq_xO (Coq_xO
    (Coq_xI (Coq_xI (Coq_xI Coq_xH)))))) :: ((Npos (Coq_xI (Coq_xI (Coq_xI
    (Coq_xI (Coq_xO Coq_xH)))))) :: ((Npos (Coq_xO (Coq_xI (Coq_xO (Coq_xO
    (Coq_xO (Coq_xI Coq_xH))))))) :: ((Npos (Coq_xI (Coq_xI (Coq_xI (Coq_xI
    (Coq_xO (Coq_xI Coq_xH))))))) :: ((Npos (Coq_xO (Coq_xO (Coq_xI (Coq_xO
    (Coq_xO (Coq_xI Coq_xH))))))) :: ((Npos (Coq_xI (Coq_xO (Coq_xO (Coq_xI
    (Coq_xI (Coq_xI Coq_xH))))))) :: ((Npos (Coq_xO (Coq_xI (Coq_xI (Coq_xI
    (Coq_xI Coq_xH)))))) :: ((Npos (Coq_xO (Coq_xI (Coq_xO
    Coq_xH)))) :: ((Npos (Coq_xO (Coq_xO (Coq_xI (Coq_xI (Coq_xI
    Coq_xH)))))) :: ((Npos (Coq_xI (Coq_xI (Coq_xI (Coq_xI (Coq_xO
    Coq_xH)))))) :: ((Npos (Coq_xO (Coq_xO (Coq_xO (Coq_xI (Coq_xO (Coq_xI
    Coq_xH))))))) :: ((Npos (Coq_xO (Coq_xO (Coq_xI (Coq_xO (Coq_xI (Coq_xI
    Coq_xH))))))) :: ((Npos (Coq_xI (Coq_xO (Coq_xI (Coq_xI (Coq_xO (Coq_xI
    Coq_xH))))))) :: ((Npos (Coq_xO (Coq_xO (Coq_xI (Coq_xI (Coq_xO (Coq_xI
    Coq_xH))))))) :: ((Npos (Coq_xO (Coq_xI (Coq_xI (Coq_xI (Coq_xI
    Coq_xH)))))) :: ((Npos (Coq_xO (Coq_xI (Coq_xO
    Coq_xH)))) :: []))))))))))))))))))))))))))))))))))))))))))))) :: []

(** val a_open : str **)

let a_open =
  (Npos (Coq_xO (Coq_xO (Coq_xI (Coq_xI (Coq_xI Coq_xH)))))) :: ((Npos
    (Coq_xO (Coq_xO (Coq_xI (Coq_xO (Coq_xI (Coq_xI Coq_xH))))))) :: ((Npos
    (Coq_xO (Coq_xO (Coq_xI (Coq_xO (Coq_xO (Coq_xI Coq_xH))))))) :: ((Npos
    (Coq_xO (Coq_xI (Coq_xI (Coq_xI (Coq_xI Coq_xH)))))) :: ((Npos (Coq_xO
    (Coq_xO (Coq_xI (Coq_xI (Coq_xI Coq_xH)))))) :: ((Npos (Coq_xI (Coq_xO
    (Coq_xO (Coq_xO (Coq_xO (Coq_xI Coq_xH))))))) :: ((Npos (Coq_xO (Coq_xO
    (Coq_xO (Coq_xO (Coq_xO Coq_xH)))))) :: ((Npos (Coq_xO (Coq_xO (Coq_xO
    (Coq_xI (Coq_xO (Coq_xI Coq_xH))))))) :: ((Npos (Coq_xO (Coq_xI (Coq_xO
    (Coq_xO (Coq_xI (Coq_xI Coq_xH))))))) :: ((Npos (Coq_xI (Coq_xO (Coq_xI
    (Coq_xO (Coq_xO (Coq_xI Coq_xH))))))) :: ((Npos (Coq_xO (Coq_xI (Coq_xI
    (Coq_xO (Coq_xO (Coq_xI Coq_xH))))))) :: ((Npos (Coq_xI (Coq_xO (Coq_xI
    (Coq_xI (Coq_xI Coq_xH)))))) :: ((Npos (Coq_xO (Coq_xI (Coq_xO (Coq_xO
    (Coq_xO Coq_xH)))))) :: []))))))))))))

(** val a_mid : str **)

let a_mid =
  (Npos (Coq_xO (Coq_xI (Coq_xO (Coq_xO (Coq_xO Coq_xH)))))) :: ((Npos
    (Coq_xO (Coq_xI (Coq_xI (Coq_xI (Coq_xI Coq_xH)))))) :: [])

(** val a_close : str **)

let a_close =
  (Npos (Coq_xO (Coq_xO (Coq_xI (Coq_xI (Coq_xI Coq_xH)))))) :: ((Npos
    (Coq_xI (Coq_xI (Coq_xI (Coq_xI (Coq_xO Coq_xH)))))) :: ((Npos (Coq_xI
    (Coq_xO (Coq_xO (Coq_xO (Coq_xO (Coq_xI Coq_xH))))))) :: ((Npos (Coq_xO
    (Coq_xI (Coq_xI (Coq_xI (Coq_xI Coq_xH)))))) :: ((Npos (Coq_xO (Coq_xO
    (Coq_xI (Coq_xI (Coq_xI Coq_xH)))))) :: ((Npos (Coq_xI (Coq_xI (Coq_xI
    (Coq_xI (Coq_xO Coq_xH)))))) :: ((Npos (Coq_xO (Coq_xO (Coq_xI (Coq_xO
    (Coq_xI (Coq_xI Coq_xH))))))) :: ((Npos (Coq_xO (Coq_xO (Coq_xI (Coq_xO
    (Coq_xO (Coq_xI Coq_xH))))))) :: ((Npos (Coq_xO (Coq_xI (Coq_xI (Coq_xI
    (Coq_xI Coq_xH)))))) :: ((Npos (Coq_xO (Coq_xI (Coq_xO
    Coq_xH)))) :: [])))))))))

(** val count_soft : router -> coq_N **)

let count_soft r =
  N.of_nat (length (filter fst r.r_errs))

(** val count_hard : router -> coq_N **)

let count_hard r =
  N.of_nat (length (filter (fun e -> negb (fst e)) r.r_errs))

(** val count_peers : router -> coq_N **)

let count_peers r =
  N.of_nat (length r.r_peers)

(** val list_row_gen :
    kind -> kind -> (str -> str) -> str -> router -> template **)

let list_row_gen kname kdesc trunc path r =
  match r.r_tlvs with
  | Some _ ->
    app ((Lit ((Npos (Coq_xO (Coq_xO (Coq_xI (Coq_xI (Coq_xI
      Coq_xH)))))) :: ((Npos (Coq_xO (Coq_xO (Coq_xI (Coq_xO (Coq_xI (Coq_xI
      Coq_xH))))))) :: ((Npos (Coq_xO (Coq_xI (Coq_xO (Coq_xO (Coq_xI (Coq_xI
      Coq_xH))))))) :: ((Npos (Coq_xO (Coq_xI (Coq_xI (Coq_xI (Coq_xI
      Coq_xH)))))) :: ((Npos (Coq_xO (Coq_xI (Coq_xO
      Coq_xH)))) :: [])))))) :: ((Lit a_open) :: ((Fld (KDq, path)) :: ((Num
      r.r_id) :: ((Lit a_mid) :: ((Num r.r_id) :: ((Lit a_close) :: ((Lit
      a_open) :: ((Fld (KDq, path)) :: [])))))))))
      (app (addr_segs r.r_addr)
        (app ((Lit a_mid) :: [])
          (app (addr_segs r.r_addr) ((Lit a_close) :: ((Lit a_open) :: ((Fld
            (KDq, path)) :: ((Fld (kname, (trunc (sys_name r)))) :: ((Lit
            a_mid) :: ((Fld (kname, (trunc (sys_name r)))) :: ((Lit
            a_close) :: ((Lit ((Npos (Coq_xO (Coq_xO (Coq_xI (Coq_xI (Coq_xI
            Coq_xH)))))) :: ((Npos (Coq_xO (Coq_xO (Coq_xI (Coq_xO (Coq_xI
            (Coq_xI Coq_xH))))))) :: ((Npos (Coq_xO (Coq_xO (Coq_xI (Coq_xO
            (Coq_xO (Coq_xI Coq_xH))))))) :: ((Npos (Coq_xO (Coq_xI (Coq_xI
            (Coq_xI (Coq_xI Coq_xH)))))) :: []))))) :: ((Fld (kdesc,
            (trunc (sys_desc r)))) :: ((Lit ((Npos (Coq_xO (Coq_xO (Coq_xI
            (Coq_xI (Coq_xI Coq_xH)))))) :: ((Npos (Coq_xI (Coq_xI (Coq_xI
            (Coq_xI (Coq_xO Coq_xH)))))) :: ((Npos (Coq_xO (Coq_xO (Coq_xI
            (Coq_xO (Coq_xI (Coq_xI Coq_xH))))))) :: ((Npos (Coq_xO (Coq_xO
            (Coq_xI (Coq_xO (Coq_xO (Coq_xI Coq_xH))))))) :: ((Npos (Coq_xO
            (Coq_xI (Coq_xI (Coq_xI (Coq_xI Coq_xH)))))) :: ((Npos (Coq_xO
            (Coq_xI (Coq_xO Coq_xH)))) :: ((Npos (Coq_xO (Coq_xO (Coq_xI
            (Coq_xI (Coq_xI Coq_xH)))))) :: ((Npos (Coq_xO (Coq_xO (Coq_xI
            (Coq_xO (Coq_xI (Coq_xI Coq_xH))))))) :: ((Npos (Coq_xO (Coq_xO
            (Coq_xI (Coq_xO (Coq_xO (Coq_xI Coq_xH))))))) :: ((Npos (Coq_xO
            (Coq_xI (Coq_xI (Coq_xI (Coq_xI Coq_xH)))))) :: ((Npos (Coq_xO
            (Coq_xO (Coq_xI (Coq_xO (Coq_xO (Coq_xO Coq_xH))))))) :: ((Npos
            (Coq_xI (Coq_xO (Coq_xI (Coq_xO (Coq_xI (Coq_xI
            Coq_xH))))))) :: ((Npos (Coq_xI (Coq_xO (Coq_xI (Coq_xI (Coq_xO
            (Coq_xI Coq_xH))))))) :: ((Npos (Coq_xO (Coq_xO (Coq_xO (Coq_xO
            (Coq_xI (Coq_xI Coq_xH))))))) :: ((Npos (Coq_xI (Coq_xO (Coq_xO
            (Coq_xI (Coq_xO (Coq_xI Coq_xH))))))) :: ((Npos (Coq_xO (Coq_xI
            (Coq_xI (Coq_xI (Coq_xO (Coq_xI Coq_xH))))))) :: ((Npos (Coq_xI
            (Coq_xI (Coq_xI (Coq_xO (Coq_xO (Coq_xI Coq_xH))))))) :: ((Npos
            (Coq_xO (Coq_xO (Coq_xI (Coq_xI (Coq_xI Coq_xH)))))) :: ((Npos
            (Coq_xI (Coq_xI (Coq_xI (Coq_xI (Coq_xO Coq_xH)))))) :: ((Npos
            (Coq_xO (Coq_xO (Coq_xI (Coq_xO (Coq_xI (Coq_xI
            Coq_xH))))))) :: ((Npos (Coq_xO (Coq_xO (Coq_xI (Coq_xO (Coq_xO
            (Coq_xI Coq_xH))))))) :: ((Npos (Coq_xO (Coq_xI (Coq_xI (Coq_xI
            (Coq_xI Coq_xH)))))) :: ((Npos (Coq_xO (Coq_xI (Coq_xO
            Coq_xH)))) :: ((Npos (Coq_xO (Coq_xO (Coq_xI (Coq_xI (Coq_xI
            Coq_xH)))))) :: ((Npos (Coq_xO (Coq_xO (Coq_xI (Coq_xO (Coq_xI
            (Coq_xI Coq_xH))))))) :: ((Npos (Coq_xO (Coq_xO (Coq_xI (Coq_xO
            (Coq_xO (Coq_xI Coq_xH))))))) :: ((Npos (Coq_xO (Coq_xI (Coq_xI
            (Coq_xI (Coq_xI
            Coq_xH)))))) :: [])))))))))))))))))))))))))))) :: ((Num
            (count_peers r)) :: ((Lit ((Npos (Coq_xI (Coq_xI (Coq_xI (Coq_xI
            (Coq_xO Coq_xH)))))) :: ((Npos (Coq_xO (Coq_xO (Coq_xO (Coq_xO
            (Coq_xI Coq_xH)))))) :: ((Npos (Coq_xO (Coq_xO (Coq_xO (Coq_xO
            (Coq_xO Coq_xH)))))) :: ((Npos (Coq_xO (Coq_xO (Coq_xO (Coq_xI
            (Coq_xO Coq_xH)))))) :: ((Npos (Coq_xO (Coq_xO (Coq_xO (Coq_xO
            (Coq_xI Coq_xH)))))) :: ((Npos (Coq_xI (Coq_xO (Coq_xI (Coq_xO
            (Coq_xO Coq_xH)))))) :: ((Npos (Coq_xI (Coq_xO (Coq_xO (Coq_xI
            (Coq_xO Coq_xH)))))) :: ((Npos (Coq_xI (Coq_xI (Coq_xI (Coq_xI
            (Coq_xO Coq_xH)))))) :: ((Npos (Coq_xO (Coq_xO (Coq_xO (Coq_xO
            (Coq_xI Coq_xH)))))) :: ((Npos (Coq_xO (Coq_xO (Coq_xO (Coq_xO
            (Coq_xO Coq_xH)))))) :: ((Npos (Coq_xO (Coq_xO (Coq_xO (Coq_xI
            (Coq_xO Coq_xH)))))) :: ((Npos (Coq_xO (Coq_xO (Coq_xO (Coq_xO
            (Coq_xI Coq_xH)))))) :: ((Npos (Coq_xI (Coq_xO (Coq_xI (Coq_xO
            (Coq_xO Coq_xH)))))) :: ((Npos (Coq_xI (Coq_xO (Coq_xO (Coq_xI
            (Coq_xO Coq_xH)))))) :: ((Npos (Coq_xO (Coq_xO (Coq_xI (Coq_xI
            (Coq_xI Coq_xH)))))) :: ((Npos (Coq_xI (Coq_xI (Coq_xI (Coq_xI
            (Coq_xO Coq_xH)))))) :: ((Npos (Coq_xO (Coq_xO (Coq_xI (Coq_xO
            (Coq_xI (Coq_xI Coq_xH))))))) :: ((Npos (Coq_xO (Coq_xO (Coq_xI
            (Coq_xO (Coq_xO (Coq_xI Coq_xH))))))) :: ((Npos (Coq_xO (Coq_xI
            (Coq_xI (Coq_xI (Coq_xI Coq_xH)))))) :: ((Npos (Coq_xO (Coq_xI
            (Coq_xO Coq_xH)))) :: ((Npos (Coq_xO (Coq_xO (Coq_xI (Coq_xI
            (Coq_xI Coq_xH)))))) :: ((Npos (Coq_xO (Coq_xO (Coq_xI (Coq_xO
            (Coq_xI (Coq_xI Coq_xH))))))) :: ((Npos (Coq_xO (Coq_xO (Coq_xI
            (Coq_xO (Coq_xO (Coq_xI Coq_xH))))))) :: ((Npos (Coq_xO (Coq_xI
            (Coq_xI (Coq_xI (Coq_xI Coq_xH)))))) :: ((Npos (Coq_xO (Coq_xO
            (Coq_xO (Coq_xO (Coq_xI Coq_xH)))))) :: ((Npos (Coq_xO (Coq_xO
            (Coq_xO (Coq_xO (Coq_xO Coq_xH)))))) :: ((Npos (Coq_xO (Coq_xO
            (Coq_xO (Coq_xI (Coq_xO
            Coq_xH)))))) :: [])))))))))))))))))))))))))))) :: ((Num
            (count_soft r)) :: ((Lit ((Npos (Coq_xI (Coq_xI (Coq_xI (Coq_xI
            (Coq_xO Coq_xH)))))) :: [])) :: ((Num (count_hard r)) :: ((Lit
            ((Npos (Coq_xI (Coq_xO (Coq_xO (Coq_xI (Coq_xO
            Coq_xH)))))) :: ((Npos (Coq_xO (Coq_xO (Coq_xI (Coq_xI (Coq_xI
            Coq_xH)))))) :: ((Npos (Coq_xI (Coq_xI (Coq_xI (Coq_xI (Coq_xO
            Coq_xH)))))) :: ((Npos (Coq_xO (Coq_xO (Coq_xI (Coq_xO (Coq_xI
            (Coq_xI Coq_xH))))))) :: ((Npos (Coq_xO (Coq_xO (Coq_xI (Coq_xO
            (Coq_xO (Coq_xI Coq_xH))))))) :: ((Npos (Coq_xO (Coq_xI (Coq_xI
            (Coq_xI (Coq_xI Coq_xH)))))) :: ((Npos (Coq_xO (Coq_xI (Coq_xO
            Coq_xH)))) :: ((Npos (Coq_xO (Coq_xO (Coq_xI (Coq_xI (Coq_xI
            Coq_xH)))))) :: ((Npos (Coq_xI (Coq_xI (Coq_xI (Coq_xI (Coq_xO
            Coq_xH)))))) :: ((Npos (Coq_xO (Coq_xO (Coq_xI (Coq_xO (Coq_xI
            (Coq_xI Coq_xH))))))) :: ((Npos (Coq_xO (Coq_xI (Coq_xO (Coq_xO
            (Coq_xI (Coq_xI Coq_xH))))))) :: ((Npos (Coq_xO (Coq_xI (Coq_xI
            (Coq_xI (Coq_xI Coq_xH)))))) :: ((Npos (Coq_xO (Coq_xI (Coq_xO
            Coq_xH)))) :: [])))))))))))))) :: [])))))))))))))))))))
  | None ->
    (Lit ((Npos (Coq_xO (Coq_xO (Coq_xI (Coq_xI (Coq_xI
      Coq_xH)))))) :: ((Npos (Coq_xO (Coq_xO (Coq_xI (Coq_xO (Coq_xI (Coq_xI
      Coq_xH))))))) :: ((Npos (Coq_xO (Coq_xI (Coq_xO (Coq_xO (Coq_xI (Coq_xI
      Coq_xH))))))) :: ((Npos (Coq_xO (Coq_xI (Coq_xI (Coq_xI (Coq_xI
      Coq_xH)))))) :: ((Npos (Coq_xO (Coq_xI (Coq_xO
      Coq_xH)))) :: [])))))) :: ((Lit a_open) :: ((Fld (KDq, path)) :: ((Num
      r.r_id) :: ((Lit a_mid) :: ((Num r.r_id) :: ((Lit a_close) :: ((Lit
      ((Npos (Coq_xO (Coq_xO (Coq_xI (Coq_xI (Coq_xI Coq_xH)))))) :: ((Npos
      (Coq_xO (Coq_xO (Coq_xI (Coq_xO (Coq_xI (Coq_xI Coq_xH))))))) :: ((Npos
      (Coq_xO (Coq_xO (Coq_xI (Coq_xO (Coq_xO (Coq_xI Coq_xH))))))) :: ((Npos
      (Coq_xO (Coq_xI (Coq_xI (Coq_xI (Coq_xI Coq_xH)))))) :: ((Npos (Coq_xI
      (Coq_xO (Coq_xI (Coq_xI (Coq_xO Coq_xH)))))) :: ((Npos (Coq_xO (Coq_xO
      (Coq_xI (Coq_xI (Coq_xI Coq_xH)))))) :: ((Npos (Coq_xI (Coq_xI (Coq_xI
      (Coq_xI (Coq_xO Coq_xH)))))) :: ((Npos (Coq_xO (Coq_xO (Coq_xI (Coq_xO
      (Coq_xI (Coq_xI Coq_xH))))))) :: ((Npos (Coq_xO (Coq_xO (Coq_xI (Coq_xO
      (Coq_xO (Coq_xI Coq_xH))))))) :: ((Npos (Coq_xO (Coq_xI (Coq_xI (Coq_xI
      (Coq_xI Coq_xH)))))) :: ((Npos (Coq_xO (Coq_xI (Coq_xO
      Coq_xH)))) :: ((Npos (Coq_xO (Coq_xO (Coq_xI (Coq_xI (Coq_xI
      Coq_xH)))))) :: ((Npos (Coq_xO (Coq_xO (Coq_xI (Coq_xO (Coq_xI (Coq_xI
      Coq_xH))))))) :: ((Npos (Coq_xO (Coq_xO (Coq_xI (Coq_xO (Coq_xO (Coq_xI
      Coq_xH))))))) :: ((Npos (Coq_xO (Coq_xI (Coq_xI (Coq_xI (Coq_xI
      Coq_xH)))))) :: ((Npos (Coq_xI (Coq_xO (Coq_xI (Coq_xI (Coq_xO
      Coq_xH)))))) :: ((Npos (Coq_xO (Coq_xO (Coq_xI (Coq_xI (Coq_xI
      Coq_xH)))))) :: ((Npos (Coq_xI (Coq_xI (Coq_xI (Coq_xI (Coq_xO
      Coq_xH)))))) :: ((Npos (Coq_xO (Coq_xO (Coq_xI (Coq_xO (Coq_xI (Coq_xI
      Coq_xH))))))) :: ((Npos (Coq_xO (Coq_xO (Coq_xI (Coq_xO (Coq_xO (Coq_xI
      Coq_xH))))))) :: ((Npos (Coq_xO (Coq_xI (Coq_xI (Coq_xI (Coq_xI
      Coq_xH)))))) :: ((Npos (Coq_xO (Coq_xI (Coq_xO Coq_xH)))) :: ((Npos
      (Coq_xO (Coq_xO (Coq_xI (Coq_xI (Coq_xI Coq_xH)))))) :: ((Npos (Coq_xO
      (Coq_xO (Coq_xI (Coq_xO (Coq_xI (Coq_xI Coq_xH))))))) :: ((Npos (Coq_xO
      (Coq_xO (Coq_xI (Coq_xO (Coq_xO (Coq_xI Coq_xH))))))) :: ((Npos (Coq_xO
      (Coq_xI (Coq_xI (Coq_xI (Coq_xI Coq_xH)))))) :: ((Npos (Coq_xI (Coq_xO
      (Coq_xI (Coq_xI (Coq_xO Coq_xH)))))) :: ((Npos (Coq_xO (Coq_xO (Coq_xI
      (Coq_xI (Coq_xI Coq_xH)))))) :: ((Npos (Coq_xI (Coq_xI (Coq_xI (Coq_xI
      (Coq_xO Coq_xH)))))) :: ((Npos (Coq_xO (Coq_xO (Coq_xI (Coq_xO (Coq_xI
      (Coq_xI Coq_xH))))))) :: ((Npos (Coq_xO (Coq_xO (Coq_xI (Coq_xO (Coq_xO
      (Coq_xI Coq_xH))))))) :: ((Npos (Coq_xO (Coq_xI (Coq_xI (Coq_xI (Coq_xI
      Coq_xH)))))) :: ((Npos (Coq_xO (Coq_xI (Coq_xO Coq_xH)))) :: ((Npos
      (Coq_xO (Coq_xO (Coq_xI (Coq_xI (Coq_xI Coq_xH)))))) :: ((Npos (Coq_xO
      (Coq_xO (Coq_xI (Coq_xO (Coq_xI (Coq_xI Coq_xH))))))) :: ((Npos (Coq_xO
      (Coq_xO (Coq_xI (Coq_xO (Coq_xO (Coq_xI Coq_xH))))))) :: ((Npos (Coq_xO
      (Coq_xI (Coq_xI (Coq_xI (Coq_xI Coq_xH)))))) :: ((Npos (Coq_xI (Coq_xO
      (Coq_xI (Coq_xI (Coq_xO Coq_xH)))))) :: ((Npos (Coq_xO (Coq_xO (Coq_xI
      (Coq_xI (Coq_xI Coq_xH)))))) :: ((Npos (Coq_xI (Coq_xI (Coq_xI (Coq_xI
      (Coq_xO Coq_xH)))))) :: ((Npos (Coq_xO (Coq_xO (Coq_xI (Coq_xO (Coq_xI
      (Coq_xI Coq_xH))))))) :: ((Npos (Coq_xO (Coq_xO (Coq_xI (Coq_xO (Coq_xO
      (Coq_xI Coq_xH))))))) :: ((Npos (Coq_xO (Coq_xI (Coq_xI (Coq_xI (Coq_xI
      Coq_xH)))))) :: ((Npos (Coq_xO (Coq_xI (Coq_xO Coq_xH)))) :: ((Npos
      (Coq_xO (Coq_xO (Coq_xI (Coq_xI (Coq_xI Coq_xH)))))) :: ((Npos (Coq_xO
      (Coq_xO (Coq_xI (Coq_xO (Coq_xI (Coq_xI Coq_xH))))))) :: ((Npos (Coq_xO
      (Coq_xO (Coq_xI (Coq_xO (Coq_xO (Coq_xI Coq_xH))))))) :: ((Npos (Coq_xO
      (Coq_xI (Coq_xI (Coq_xI (Coq_xI Coq_xH)))))) :: ((Npos (Coq_xI (Coq_xO
      (Coq_xI (Coq_xI (Coq_xO Coq_xH)))))) :: ((Npos (Coq_xO (Coq_xO (Coq_xI
      (Coq_xI (Coq_xI Coq_xH)))))) :: ((Npos (Coq_xI (Coq_xI (Coq_xI (Coq_xI
      (Coq_xO Coq_xH)))))) :: ((Npos (Coq_xO (Coq_xO (Coq_xI (Coq_xO (Coq_xI
      (Coq_xI Coq_xH))))))) :: ((Npos (Coq_xO (Coq_xO (Coq_xI (Coq_xO (Coq_xO
      (Coq_xI Coq_xH))))))) :: ((Npos (Coq_xO (Coq_xI (Coq_xI (Coq_xI (Coq_xI
      Coq_xH)))))) :: ((Npos (Coq_xO (Coq_xI (Coq_xO Coq_xH)))) :: ((Npos
      (Coq_xO (Coq_xO (Coq_xI (Coq_xI (Coq_xI Coq_xH)))))) :: ((Npos (Coq_xO
      (Coq_xO (Coq_xI (Coq_xO (Coq_xI (Coq_xI Coq_xH))))))) :: ((Npos (Coq_xO
      (Coq_xO (Coq_xI (Coq_xO (Coq_xO (Coq_xI Coq_xH))))))) :: ((Npos (Coq_xO
      (Coq_xI (Coq_xI (Coq_xI (Coq_xI Coq_xH)))))) :: ((Npos (Coq_xI (Coq_xO
      (Coq_xI (Coq_xI (Coq_xO Coq_xH)))))) :: ((Npos (Coq_xO (Coq_xO (Coq_xI
      (Coq_xI (Coq_xI Coq_xH)))))) :: ((Npos (Coq_xI (Coq_xI (Coq_xI (Coq_xI
      (Coq_xO Coq_xH)))))) :: ((Npos (Coq_xO (Coq_xO (Coq_xI (Coq_xO (Coq_xI
      (Coq_xI Coq_xH))))))) :: ((Npos (Coq_xO (Coq_xO (Coq_xI (Coq_xO (Coq_xO
      (Coq_xI Coq_xH))))))) :: ((Npos (Coq_xO (Coq_xI (Coq_xI (Coq_xI (Coq_xI
      Coq_xH)))))) :: ((Npos (Coq_xO (Coq_xI (Coq_xO Coq_xH)))) :: ((Npos
      (Coq_xO (Coq_xO (Coq_xI (Coq_xI (Coq_xI Coq_xH)))))) :: ((Npos (Coq_xI
      (Coq_xI (Coq_xI (Coq_xI (Coq_xO Coq_xH)))))) :: ((Npos (Coq_xO (Coq_xO
      (Coq_xI (Coq_xO (Coq_xI (Coq_xI Coq_xH))))))) :: ((Npos (Coq_xO (Coq_xI
      (Coq_xO (Coq_xO (Coq_xI (Coq_xI Coq_xH))))))) :: ((Npos (Coq_xO (Coq_xI
      (Coq_xI (Coq_xI (Coq_xI Coq_xH)))))) :: ((Npos (Coq_xO (Coq_xI (Coq_xO
      Coq_xH)))) :: []))))))))))))))))))))))))))))))))))))))))))))))))))))))))))))))))))))))))) :: [])))))))

(** val list_row : str -> router -> template **)

let list_row =
  list_row_gen KSafe KSafe truncate_tlv

(** val list_page : str -> router list -> template **)

let list_page path rs =
  app (list_header (N.of_nat (length rs)))
    (app (flat_map (list_row path) rs) list_footer)

(** val info_head : template **)

let info_head =
  (Lit page_head) :: ((Lit ((Npos (Coq_xO (Coq_xO (Coq_xO (Coq_xO (Coq_xO
    Coq_xH)))))) :: ((Npos (Coq_xO (Coq_xO (Coq_xO (Coq_xO (Coq_xO
    Coq_xH)))))) :: ((Npos (Coq_xO (Coq_xO (Coq_xO (Coq_xO (Coq_xO
    Coq_xH)))))) :: ((Npos (Coq_xO (Coq_xO (Coq_xO (Coq_xO (Coq_xO
    Coq_xH)))))) :: ((Npos (Coq_xO (Coq_xO (Coq_xI (Coq_xI (Coq_xI
    Coq_xH)))))) :: ((Npos (Coq_xO (Coq_xO (Coq_xO (Coq_xO (Coq_xI (Coq_xI
    Coq_xH))))))) :: ((Npos (Coq_xO (Coq_xI (Coq_xO (Coq_xO (Coq_xI (Coq_xI
    Coq_xH))))))) :: ((Npos (Coq_xI (Coq_xO (Coq_xI (Coq_xO (Coq_xO (Coq_xI
    Coq_xH))))))) :: ((Npos (Coq_xO (Coq_xI (Coq_xI (Coq_xI (Coq_xI
    Coq_xH)))))) :: ((Npos (Coq_xO (Coq_xI (Coq_xO
    Coq_xH)))) :: []))))))))))) :: [])

(** val info_footer : template **)

let info_footer =
  (Lit ((Npos (Coq_xO (Coq_xO (Coq_xO (Coq_xO (Coq_xO Coq_xH)))))) :: ((Npos
    (Coq_xO (Coq_xO (Coq_xO (Coq_xO (Coq_xO Coq_xH)))))) :: ((Npos (Coq_xO
    (Coq_xO (Coq_xO (Coq_xO (Coq_xO Coq_xH)))))) :: ((Npos (Coq_xO (Coq_xO
    (Coq_xO (Coq_xO (Coq_xO Coq_xH)))))) :: ((Npos (Coq_xO (Coq_xO (Coq_xI
    (Coq_xI (Coq_xI Coq_xH)))))) :: ((Npos (Coq_xI (Coq_xI (Coq_xI (Coq_xI
    (Coq_xO Coq_xH)))))) :: ((Npos (Coq_xO (Coq_xO (Coq_xO (Coq_xO (Coq_xI
    (Coq_xI Coq_xH))))))) :: ((Npos (Coq_xO (Coq_xI (Coq_xO (Coq_xO (Coq_xI
    (Coq_xI Coq_xH))))))) :: ((Npos (Coq_xI (Coq_xO (Coq_xI (Coq_xO (Coq_xO
    (Coq_xI Coq_xH))))))) :: ((Npos (Coq_xO (Coq_xI (Coq_xI (Coq_xI (Coq_xI
    Coq_xH)))))) :: ((Npos (Coq_xO (Coq_xI (Coq_xO Coq_xH)))) :: ((Npos
    (Coq_xO (Coq_xO (Coq_xO (Coq_xO (Coq_xO Coq_xH)))))) :: ((Npos (Coq_xO
    (Coq_xO (Coq_xO (Coq_xO (Coq_xO Coq_xH)))))) :: ((Npos (Coq_xO (Coq_xO
    (Coq_xI (Coq_xI (Coq_xI Coq_xH)))))) :: ((Npos (Coq_xI (Coq_xI (Coq_xI
    (Coq_xI (Coq_xO Coq_xH)))))) :: ((Npos (Coq_xO (Coq_xI (Coq_xO (Coq_xO
    (Coq_xO (Coq_xI Coq_xH))))))) :: ((Npos (Coq_xI (Coq_xI (Coq_xI (Coq_xI
    (Coq_xO (Coq_xI Coq_xH))))))) :: ((Npos (Coq_xO (Coq_xO (Coq_xI (Coq_xO
    (Coq_xO (Coq_xI Coq_xH))))))) :: ((Npos (Coq_xI (Coq_xO (Coq_xO (Coq_xI
    (Coq_xI (Coq_xI Coq_xH))))))) :: ((Npos (Coq_xO (Coq_xI (Coq_xI (Coq_xI
    (Coq_xI Coq_xH)))))) :: ((Npos (Coq_xO (Coq_xI (Coq_xO
    Coq_xH)))) :: ((Npos (Coq_xO (Coq_xO (Coq_xI (Coq_xI (Coq_xI
    Coq_xH)))))) :: ((Npos (Coq_xI (Coq_xI (Coq_xI (Coq_xI (Coq_xO
    Coq_xH)))))) :: ((Npos (Coq_xO (Coq_xO (Coq_xO (Coq_xI (Coq_xO (Coq_xI
    Coq_xH))))))) :: ((Npos (Coq_xO (Coq_xO (Coq_xI (Coq_xO (Coq_xI (Coq_xI
    Coq_xH))))))) :: ((Npos (Coq_xI (Coq_xO (Coq_xI (Coq_xI (Coq_xO (Coq_xI
    Coq_xH))))))) :: ((Npos (Coq_xO (Coq_xO (Coq_xI (Coq_xI (Coq_xO (Coq_xI
    Coq_xH))))))) :: ((Npos (Coq_xO (Coq_xI (Coq_xI (Coq_xI (Coq_xI
    Coq_xH)))))) :: ((Npos (Coq_xO (Coq_xI (Coq_xO
    Coq_xH)))) :: [])))))))))))))))))))))))))))))) :: []

(** val max_recent_parse_errors : nat **)

let max_recent_parse_errors =
  S (S (S (S (S (S (S (S (S (S O)))))))))

(** val recent_errs : router -> (bool * str) list **)

let recent_errs r =
  skipn (sub (length r.r_errs) max_recent_parse_errors) r.r_errs

(** val err_seg : kind -> (bool * str) -> template **)

let err_seg kmsg e =
  (Lit ((Npos (Coq_xO (Coq_xO (Coq_xO (Coq_xO (Coq_xO Coq_xH)))))) :: ((Npos
    (Coq_xO (Coq_xO (Coq_xO (Coq_xO (Coq_xO Coq_xH)))))) :: ((Npos (Coq_xI
    (Coq_xI (Coq_xI (Coq_xO (Coq_xI (Coq_xO Coq_xH))))))) :: ((Npos (Coq_xO
    (Coq_xO (Coq_xO (Coq_xI (Coq_xO (Coq_xI Coq_xH))))))) :: ((Npos (Coq_xI
    (Coq_xO (Coq_xI (Coq_xO (Coq_xO (Coq_xI Coq_xH))))))) :: ((Npos (Coq_xO
    (Coq_xI (Coq_xI (Coq_xI (Coq_xO (Coq_xI Coq_xH))))))) :: ((Npos (Coq_xO
    (Coq_xI (Coq_xO (Coq_xI (Coq_xI Coq_xH)))))) :: ((Npos (Coq_xO (Coq_xO
    (Coq_xO (Coq_xO (Coq_xO Coq_xH)))))) :: ((Npos (Coq_xO (Coq_xO (Coq_xI
    (Coq_xO (Coq_xI (Coq_xO Coq_xH))))))) :: ((Npos (Coq_xO (Coq_xI (Coq_xO
    Coq_xH)))) :: ((Npos (Coq_xO (Coq_xO (Coq_xO (Coq_xO (Coq_xO
    Coq_xH)))))) :: ((Npos (Coq_xO (Coq_xO (Coq_xO (Coq_xO (Coq_xO
    Coq_xH)))))) :: ((Npos (Coq_xI (Coq_xI (Coq_xI (Coq_xO (Coq_xI (Coq_xO
    Coq_xH))))))) :: ((Npos (Coq_xO (Coq_xO (Coq_xO (Coq_xI (Coq_xO (Coq_xI
    Coq_xH))))))) :: ((Npos (Coq_xI (Coq_xO (Coq_xO (Coq_xO (Coq_xO (Coq_xI
    Coq_xH))))))) :: ((Npos (Coq_xO (Coq_xO (Coq_xI (Coq_xO (Coq_xI (Coq_xI
    Coq_xH))))))) :: ((Npos (Coq_xO (Coq_xI (Coq_xO (Coq_xI (Coq_xI
    Coq_xH)))))) :: ((Npos (Coq_xO (Coq_xO (Coq_xO (Coq_xO (Coq_xO
    Coq_xH)))))) :: []))))))))))))))))))) :: ((Fld (kmsg, (snd e))) :: ((Lit
    ((Npos (Coq_xO (Coq_xI (Coq_xO Coq_xH)))) :: ((Npos (Coq_xO (Coq_xO
    (Coq_xO (Coq_xO (Coq_xO Coq_xH)))))) :: ((Npos (Coq_xO (Coq_xO (Coq_xO
    (Coq_xO (Coq_xO Coq_xH)))))) :: ((Npos (Coq_xI (Coq_xI (Coq_xO (Coq_xO
    (Coq_xI (Coq_xO Coq_xH))))))) :: ((Npos (Coq_xI (Coq_xI (Coq_xI (Coq_xI
    (Coq_xO (Coq_xI Coq_xH))))))) :: ((Npos (Coq_xO (Coq_xI (Coq_xI (Coq_xO
    (Coq_xO (Coq_xI Coq_xH))))))) :: ((Npos (Coq_xO (Coq_xO (Coq_xI (Coq_xO
    (Coq_xI (Coq_xI Coq_xH))))))) :: ((Npos (Coq_xO (Coq_xI (Coq_xO (Coq_xI
    (Coq_xI Coq_xH)))))) :: ((Npos (Coq_xO (Coq_xO (Coq_xO (Coq_xO (Coq_xO
    Coq_xH)))))) :: [])))))))))) :: ((Lit
    (if fst e
     then (Npos (Coq_xO (Coq_xO (Coq_xI (Coq_xO (Coq_xI (Coq_xI
            Coq_xH))))))) :: ((Npos (Coq_xO (Coq_xI (Coq_xO (Coq_xO (Coq_xI
            (Coq_xI Coq_xH))))))) :: ((Npos (Coq_xI (Coq_xO (Coq_xI (Coq_xO
            (Coq_xI (Coq_xI Coq_xH))))))) :: ((Npos (Coq_xI (Coq_xO (Coq_xI
            (Coq_xO (Coq_xO (Coq_xI Coq_xH))))))) :: [])))
     else (Npos (Coq_xO (Coq_xI (Coq_xI (Coq_xO (Coq_xO (Coq_xI
            Coq_xH))))))) :: ((Npos (Coq_xI (Coq_xO (Coq_xO (Coq_xO (Coq_xO
            (Coq_xI Coq_xH))))))) :: ((Npos (Coq_xO (Coq_xO (Coq_xI (Coq_xI
            (Coq_xO (Coq_xI Coq_xH))))))) :: ((Npos (Coq_xI (Coq_xI (Coq_xO
            (Coq_xO (Coq_xI (Coq_xI Coq_xH))))))) :: ((Npos (Coq_xI (Coq_xO
            (Coq_xI (Coq_xO (Coq_xO (Coq_xI Coq_xH))))))) :: [])))))) :: ((Lit
    ((Npos (Coq_xO (Coq_xI (Coq_xO Coq_xH)))) :: ((Npos (Coq_xO (Coq_xO
    (Coq_xO (Coq_xO (Coq_xO Coq_xH)))))) :: ((Npos (Coq_xO (Coq_xO (Coq_xO
    (Coq_xO (Coq_xO Coq_xH)))))) :: ((Npos (Coq_xO (Coq_xO (Coq_xO (Coq_xO
    (Coq_xI (Coq_xO Coq_xH))))))) :: ((Npos (Coq_xI (Coq_xI (Coq_xO (Coq_xO
    (Coq_xO (Coq_xO Coq_xH))))))) :: ((Npos (Coq_xI (Coq_xO (Coq_xO (Coq_xO
    (Coq_xO (Coq_xO Coq_xH))))))) :: ((Npos (Coq_xO (Coq_xO (Coq_xO (Coq_xO
    (Coq_xI (Coq_xO Coq_xH))))))) :: ((Npos (Coq_xO (Coq_xI (Coq_xO (Coq_xI
    (Coq_xI Coq_xH)))))) :: ((Npos (Coq_xO (Coq_xO (Coq_xO (Coq_xO (Coq_xO
    Coq_xH)))))) :: ((Npos (Coq_xO (Coq_xI (Coq_xI (Coq_xI (Coq_xO (Coq_xO
    Coq_xH))))))) :: ((Npos (Coq_xI (Coq_xI (Coq_xI (Coq_xI (Coq_xO (Coq_xI
    Coq_xH))))))) :: ((Npos (Coq_xO (Coq_xI (Coq_xI (Coq_xI (Coq_xO (Coq_xI
    Coq_xH))))))) :: ((Npos (Coq_xI (Coq_xO (Coq_xI (Coq_xO (Coq_xO (Coq_xI
    Coq_xH))))))) :: ((Npos (Coq_xO (Coq_xI (Coq_xO Coq_xH)))) :: ((Npos
    (Coq_xO (Coq_xI (Coq_xO Coq_xH)))) :: [])))))))))))))))) :: []))))

(** val peer_key :
    ((((coq_N * coq_N) * coq_N) * coq_N) * coq_N) -> template **)

let peer_key = function
| (p0, asn) ->
  let (p1, d) = p0 in
  let (p2, c) = p1 in
  let (a, b) = p2 in
  (Num a) :: ((Lit ((Npos (Coq_xO (Coq_xI (Coq_xI (Coq_xI (Coq_xO
  Coq_xH)))))) :: [])) :: ((Num b) :: ((Lit ((Npos (Coq_xO (Coq_xI (Coq_xI
  (Coq_xI (Coq_xO Coq_xH)))))) :: [])) :: ((Num c) :: ((Lit ((Npos (Coq_xO
  (Coq_xI (Coq_xI (Coq_xI (Coq_xO Coq_xH)))))) :: [])) :: ((Num d) :: ((Lit
  ((Npos (Coq_xI (Coq_xI (Coq_xI (Coq_xI (Coq_xO Coq_xH)))))) :: ((Npos
  (Coq_xI (Coq_xO (Coq_xO (Coq_xO (Coq_xO (Coq_xO Coq_xH))))))) :: ((Npos
  (Coq_xI (Coq_xI (Coq_xO (Coq_xO (Coq_xI (Coq_xO
  Coq_xH))))))) :: [])))) :: ((Num asn) :: ((Lit ((Npos (Coq_xI (Coq_xI
  (Coq_xI (Coq_xI (Coq_xO Coq_xH)))))) :: ((Npos (Coq_xI (Coq_xI (Coq_xO
  (Coq_xI (Coq_xI (Coq_xO Coq_xH))))))) :: ((Npos (Coq_xO (Coq_xO (Coq_xO
  (Coq_xO (Coq_xI Coq_xH)))))) :: ((Npos (Coq_xI (Coq_xO (Coq_xO (Coq_xO
  (Coq_xI Coq_xH)))))) :: ((Npos (Coq_xO (Coq_xO (Coq_xI (Coq_xI (Coq_xO
  Coq_xH)))))) :: ((Npos (Coq_xO (Coq_xO (Coq_xO (Coq_xO (Coq_xO
  Coq_xH)))))) :: ((Npos (Coq_xO (Coq_xO (Coq_xO (Coq_xO (Coq_xI
  Coq_xH)))))) :: ((Npos (Coq_xO (Coq_xI (Coq_xO (Coq_xO (Coq_xI
  Coq_xH)))))) :: ((Npos (Coq_xO (Coq_xO (Coq_xI (Coq_xI (Coq_xO
  Coq_xH)))))) :: ((Npos (Coq_xO (Coq_xO (Coq_xO (Coq_xO (Coq_xO
  Coq_xH)))))) :: ((Npos (Coq_xO (Coq_xO (Coq_xO (Coq_xO (Coq_xI
  Coq_xH)))))) :: ((Npos (Coq_xI (Coq_xI (Coq_xO (Coq_xO (Coq_xI
  Coq_xH)))))) :: ((Npos (Coq_xO (Coq_xO (Coq_xI (Coq_xI (Coq_xO
  Coq_xH)))))) :: ((Npos (Coq_xO (Coq_xO (Coq_xO (Coq_xO (Coq_xO
  Coq_xH)))))) :: ((Npos (Coq_xO (Coq_xO (Coq_xO (Coq_xO (Coq_xI
  Coq_xH)))))) :: ((Npos (Coq_xO (Coq_xO (Coq_xI (Coq_xO (Coq_xI
  Coq_xH)))))) :: ((Npos (Coq_xI (Coq_xO (Coq_xI (Coq_xI (Coq_xI (Coq_xO
  Coq_xH))))))) :: [])))))))))))))))))) :: [])))))))))

(** val peer_row :
    kind -> str -> str option ->
    ((((coq_N * coq_N) * coq_N) * coq_N) * coq_N) -> template **)

let peer_row kbase base focus p =
  app ((Lit ((Npos (Coq_xO (Coq_xO (Coq_xI (Coq_xI (Coq_xI
    Coq_xH)))))) :: ((Npos (Coq_xO (Coq_xO (Coq_xI (Coq_xO (Coq_xI (Coq_xI
    Coq_xH))))))) :: ((Npos (Coq_xO (Coq_xI (Coq_xO (Coq_xO (Coq_xI (Coq_xI
    Coq_xH))))))) :: ((Npos (Coq_xO (Coq_xI (Coq_xI (Coq_xI (Coq_xI
    Coq_xH)))))) :: ((Npos (Coq_xO (Coq_xO (Coq_xI (Coq_xI (Coq_xI
    Coq_xH)))))) :: ((Npos (Coq_xO (Coq_xO (Coq_xI (Coq_xO (Coq_xI (Coq_xI
    Coq_xH))))))) :: ((Npos (Coq_xO (Coq_xO (Coq_xI (Coq_xO (Coq_xO (Coq_xI
    Coq_xH))))))) :: ((Npos (Coq_xO (Coq_xI (Coq_xI (Coq_xI (Coq_xI
    Coq_xH)))))) :: ((Npos (Coq_xO (Coq_xO (Coq_xI (Coq_xO (Coq_xI (Coq_xO
    Coq_xH))))))) :: ((Npos (Coq_xO (Coq_xO (Coq_xI (Coq_xI (Coq_xI
    Coq_xH)))))) :: ((Npos (Coq_xI (Coq_xI (Coq_xI (Coq_xI (Coq_xO
    Coq_xH)))))) :: ((Npos (Coq_xO (Coq_xO (Coq_xI (Coq_xO (Coq_xI (Coq_xI
    Coq_xH))))))) :: ((Npos (Coq_xO (Coq_xO (Coq_xI (Coq_xO (Coq_xO (Coq_xI
    Coq_xH))))))) :: ((Npos (Coq_xO (Coq_xI (Coq_xI (Coq_xI (Coq_xI
    Coq_xH)))))) :: ((Npos (Coq_xO (Coq_xO (Coq_xI (Coq_xI (Coq_xI
    Coq_xH)))))) :: ((Npos (Coq_xO (Coq_xO (Coq_xI (Coq_xO (Coq_xI (Coq_xI
    Coq_xH))))))) :: ((Npos (Coq_xO (Coq_xO (Coq_xI (Coq_xO (Coq_xO (Coq_xI
    Coq_xH))))))) :: ((Npos (Coq_xO (Coq_xI (Coq_xI (Coq_xI (Coq_xI
    Coq_xH)))))) :: ((Npos (Coq_xI (Coq_xO (Coq_xO (Coq_xO (Coq_xO (Coq_xO
    Coq_xH))))))) :: ((Npos (Coq_xO (Coq_xO (Coq_xI (Coq_xI (Coq_xI
    Coq_xH)))))) :: ((Npos (Coq_xI (Coq_xI (Coq_xI (Coq_xI (Coq_xO
    Coq_xH)))))) :: ((Npos (Coq_xO (Coq_xO (Coq_xI (Coq_xO (Coq_xI (Coq_xI
    Coq_xH))))))) :: ((Npos (Coq_xO (Coq_xO (Coq_xI (Coq_xO (Coq_xO (Coq_xI
    Coq_xH))))))) :: ((Npos (Coq_xO (Coq_xI (Coq_xI (Coq_xI (Coq_xI
    Coq_xH)))))) :: ((Npos (Coq_xO (Coq_xO (Coq_xI (Coq_xI (Coq_xI
    Coq_xH)))))) :: ((Npos (Coq_xO (Coq_xO (Coq_xI (Coq_xO (Coq_xI (Coq_xI
    Coq_xH))))))) :: ((Npos (Coq_xO (Coq_xO (Coq_xI (Coq_xO (Coq_xO (Coq_xI
    Coq_xH))))))) :: ((Npos (Coq_xO (Coq_xI (Coq_xI (Coq_xI (Coq_xI
    Coq_xH)))))) :: ((Npos (Coq_xI (Coq_xO (Coq_xO (Coq_xO (Coq_xO (Coq_xO
    Coq_xH))))))) :: ((Npos (Coq_xI (Coq_xI (Coq_xO (Coq_xO (Coq_xI (Coq_xO
    Coq_xH))))))) :: ((Npos (Coq_xO (Coq_xO (Coq_xI (Coq_xI (Coq_xI
    Coq_xH)))))) :: ((Npos (Coq_xI (Coq_xI (Coq_xI (Coq_xI (Coq_xO
    Coq_xH)))))) :: ((Npos (Coq_xO (Coq_xO (Coq_xI (Coq_xO (Coq_xI (Coq_xI
    Coq_xH))))))) :: ((Npos (Coq_xO (Coq_xO (Coq_xI (Coq_xO (Coq_xO (Coq_xI
    Coq_xH))))))) :: ((Npos (Coq_xO (Coq_xI (Coq_xI (Coq_xI (Coq_xI
    Coq_xH)))))) :: ((Npos (Coq_xO (Coq_xO (Coq_xI (Coq_xI (Coq_xI
    Coq_xH)))))) :: ((Npos (Coq_xO (Coq_xO (Coq_xI (Coq_xO (Coq_xI (Coq_xI
    Coq_xH))))))) :: ((Npos (Coq_xO (Coq_xO (Coq_xI (Coq_xO (Coq_xO (Coq_xI
    Coq_xH))))))) :: ((Npos (Coq_xO (Coq_xI (Coq_xI (Coq_xI (Coq_xI
    Coq_xH)))))) :: ((Npos (Coq_xO (Coq_xO (Coq_xI (Coq_xI (Coq_xI
    Coq_xH)))))) :: ((Npos (Coq_xI (Coq_xI (Coq_xI (Coq_xI (Coq_xO
    Coq_xH)))))) :: ((Npos (Coq_xO (Coq_xO (Coq_xI (Coq_xO (Coq_xI (Coq_xI
    Coq_xH))))))) :: ((Npos (Coq_xO (Coq_xO (Coq_xI (Coq_xO (Coq_xO (Coq_xI
    Coq_xH))))))) :: ((Npos (Coq_xO (Coq_xI (Coq_xI (Coq_xI (Coq_xI
    Coq_xH)))))) :: ((Npos (Coq_xO (Coq_xO (Coq_xI (Coq_xI (Coq_xI
    Coq_xH)))))) :: ((Npos (Coq_xO (Coq_xO (Coq_xI (Coq_xO (Coq_xI (Coq_xI
    Coq_xH))))))) :: ((Npos (Coq_xO (Coq_xO (Coq_xI (Coq_xO (Coq_xO (Coq_xI
    Coq_xH))))))) :: ((Npos (Coq_xO (Coq_xI (Coq_xI (Coq_xI (Coq_xI
    Coq_xH)))))) :: ((Npos (Coq_xO (Coq_xO (Coq_xO (Coq_xO (Coq_xI
    Coq_xH)))))) :: ((Npos (Coq_xO (Coq_xO (Coq_xO (Coq_xO (Coq_xI
    Coq_xH)))))) :: ((Npos (Coq_xO (Coq_xO (Coq_xO (Coq_xO (Coq_xI
    Coq_xH)))))) :: ((Npos (Coq_xO (Coq_xO (Coq_xO (Coq_xO (Coq_xI
    Coq_xH)))))) :: ((Npos (Coq_xO (Coq_xO (Coq_xO (Coq_xO (Coq_xI
    Coq_xH)))))) :: ((Npos (Coq_xO (Coq_xO (Coq_xO (Coq_xO (Coq_xI
    Coq_xH)))))) :: ((Npos (Coq_xO (Coq_xO (Coq_xO (Coq_xO (Coq_xI
    Coq_xH)))))) :: ((Npos (Coq_xO (Coq_xO (Coq_xO (Coq_xO (Coq_xI
    Coq_xH)))))) :: ((Npos (Coq_xO (Coq_xO (Coq_xO (Coq_xO (Coq_xO
    Coq_xH)))))) :: ((Npos (Coq_xI (Coq_xI (Coq_xO (Coq_xI (Coq_xI (Coq_xO
    Coq_xH))))))) :: ((Npos (Coq_xO (Coq_xO (Coq_xI (Coq_xI (Coq_xI
    Coq_xH)))))) :: ((Npos (Coq_xI (Coq_xO (Coq_xO (Coq_xO (Coq_xO (Coq_xI
    Coq_xH))))))) :: ((Npos (Coq_xO (Coq_xO (Coq_xO (Coq_xO (Coq_xO
    Coq_xH)))))) :: ((Npos (Coq_xO (Coq_xO (Coq_xO (Coq_xI (Coq_xO (Coq_xI
    Coq_xH))))))) :: ((Npos (Coq_xO (Coq_xI (Coq_xO (Coq_xO (Coq_xI (Coq_xI
    Coq_xH))))))) :: ((Npos (Coq_xI (Coq_xO (Coq_xI (Coq_xO (Coq_xO (Coq_xI
    Coq_xH))))))) :: ((Npos (Coq_xO (Coq_xI (Coq_xI (Coq_xO (Coq_xO (Coq_xI
    Coq_xH))))))) :: ((Npos (Coq_xI (Coq_xO (Coq_xI (Coq_xI (Coq_xI
    Coq_xH)))))) :: ((Npos (Coq_xO (Coq_xI (Coq_xO (Coq_xO (Coq_xO
    Coq_xH)))))) :: [])))))))))))))))))))))))))))))))))))))))))))))))))))))))))))))))))))) :: ((Fld
    (kbase, base)) :: ((Lit ((Npos (Coq_xI (Coq_xI (Coq_xI (Coq_xI (Coq_xO
    Coq_xH)))))) :: ((Npos (Coq_xO (Coq_xI (Coq_xI (Coq_xO (Coq_xO (Coq_xI
    Coq_xH))))))) :: ((Npos (Coq_xO (Coq_xO (Coq_xI (Coq_xI (Coq_xO (Coq_xI
    Coq_xH))))))) :: ((Npos (Coq_xI (Coq_xO (Coq_xO (Coq_xO (Coq_xO (Coq_xI
    Coq_xH))))))) :: ((Npos (Coq_xI (Coq_xI (Coq_xI (Coq_xO (Coq_xO (Coq_xI
    Coq_xH))))))) :: ((Npos (Coq_xI (Coq_xI (Coq_xO (Coq_xO (Coq_xI (Coq_xI
    Coq_xH))))))) :: ((Npos (Coq_xI (Coq_xI (Coq_xI (Coq_xI (Coq_xO
    Coq_xH)))))) :: [])))))))) :: [])))
    (app (peer_key p)
      (app ((Lit ((Npos (Coq_xO (Coq_xI (Coq_xO (Coq_xO (Coq_xO
        Coq_xH)))))) :: ((Npos (Coq_xO (Coq_xI (Coq_xI (Coq_xI (Coq_xI
        Coq_xH)))))) :: ((Npos (Coq_xI (Coq_xO (Coq_xI (Coq_xI (Coq_xO
        (Coq_xI Coq_xH))))))) :: ((Npos (Coq_xI (Coq_xI (Coq_xI (Coq_xI
        (Coq_xO (Coq_xI Coq_xH))))))) :: ((Npos (Coq_xO (Coq_xI (Coq_xO
        (Coq_xO (Coq_xI (Coq_xI Coq_xH))))))) :: ((Npos (Coq_xI (Coq_xO
        (Coq_xI (Coq_xO (Coq_xO (Coq_xI Coq_xH))))))) :: ((Npos (Coq_xO
        (Coq_xO (Coq_xI (Coq_xI (Coq_xI Coq_xH)))))) :: ((Npos (Coq_xI
        (Coq_xI (Coq_xI (Coq_xI (Coq_xO Coq_xH)))))) :: ((Npos (Coq_xI
        (Coq_xO (Coq_xO (Coq_xO (Coq_xO (Coq_xI Coq_xH))))))) :: ((Npos
        (Coq_xO (Coq_xI (Coq_xI (Coq_xI (Coq_xI Coq_xH)))))) :: ((Npos
        (Coq_xI (Coq_xO (Coq_xI (Coq_xI (Coq_xI (Coq_xO
        Coq_xH))))))) :: ((Npos (Coq_xO (Coq_xO (Coq_xI (Coq_xI (Coq_xI
        Coq_xH)))))) :: ((Npos (Coq_xI (Coq_xI (Coq_xI (Coq_xI (Coq_xO
        Coq_xH)))))) :: ((Npos (Coq_xO (Coq_xO (Coq_xI (Coq_xO (Coq_xI
        (Coq_xI Coq_xH))))))) :: ((Npos (Coq_xO (Coq_xO (Coq_xI (Coq_xO
        (Coq_xO (Coq_xI Coq_xH))))))) :: ((Npos (Coq_xO (Coq_xI (Coq_xI
        (Coq_xI (Coq_xI Coq_xH)))))) :: ((Npos (Coq_xO (Coq_xO (Coq_xI
        (Coq_xI (Coq_xI Coq_xH)))))) :: ((Npos (Coq_xI (Coq_xI (Coq_xI
        (Coq_xI (Coq_xO Coq_xH)))))) :: ((Npos (Coq_xO (Coq_xO (Coq_xI
        (Coq_xO (Coq_xI (Coq_xI Coq_xH))))))) :: ((Npos (Coq_xO (Coq_xI
        (Coq_xO (Coq_xO (Coq_xI (Coq_xI Coq_xH))))))) :: ((Npos (Coq_xO
        (Coq_xI (Coq_xI (Coq_xI (Coq_xI Coq_xH)))))) :: ((Npos (Coq_xO
        (Coq_xI (Coq_xO Coq_xH)))) :: []))))))))))))))))))))))) :: [])
        (match focus with
         | Some k ->
           if str_eqb k (render (peer_key p))
           then (Lit ((Npos (Coq_xO (Coq_xO (Coq_xI (Coq_xI (Coq_xI
                  Coq_xH)))))) :: ((Npos (Coq_xO (Coq_xO (Coq_xI (Coq_xO
                  (Coq_xI (Coq_xI Coq_xH))))))) :: ((Npos (Coq_xO (Coq_xI
                  (Coq_xO (Coq_xO (Coq_xI (Coq_xI Coq_xH))))))) :: ((Npos
                  (Coq_xO (Coq_xI (Coq_xI (Coq_xI (Coq_xI
                  Coq_xH)))))) :: ((Npos (Coq_xO (Coq_xO (Coq_xI (Coq_xI
                  (Coq_xI Coq_xH)))))) :: ((Npos (Coq_xO (Coq_xO (Coq_xI
                  (Coq_xO (Coq_xI (Coq_xI Coq_xH))))))) :: ((Npos (Coq_xO
                  (Coq_xO (Coq_xI (Coq_xO (Coq_xO (Coq_xI
                  Coq_xH))))))) :: ((Npos (Coq_xO (Coq_xO (Coq_xO (Coq_xO
                  (Coq_xO Coq_xH)))))) :: ((Npos (Coq_xI (Coq_xI (Coq_xO
                  (Coq_xO (Coq_xO (Coq_xI Coq_xH))))))) :: ((Npos (Coq_xI
                  (Coq_xI (Coq_xI (Coq_xI (Coq_xO (Coq_xI
                  Coq_xH))))))) :: ((Npos (Coq_xO (Coq_xO (Coq_xI (Coq_xI
                  (Coq_xO (Coq_xI Coq_xH))))))) :: ((Npos (Coq_xI (Coq_xI
                  (Coq_xO (Coq_xO (Coq_xI (Coq_xI Coq_xH))))))) :: ((Npos
                  (Coq_xO (Coq_xO (Coq_xO (Coq_xO (Coq_xI (Coq_xI
                  Coq_xH))))))) :: ((Npos (Coq_xI (Coq_xO (Coq_xO (Coq_xO
                  (Coq_xO (Coq_xI Coq_xH))))))) :: ((Npos (Coq_xO (Coq_xI
                  (Coq_xI (Coq_xI (Coq_xO (Coq_xI Coq_xH))))))) :: ((Npos
                  (Coq_xI (Coq_xO (Coq_xI (Coq_xI (Coq_xI
                  Coq_xH)))))) :: ((Npos (Coq_xO (Coq_xI (Coq_xI (Coq_xO
                  (Coq_xI Coq_xH)))))) :: ((Npos (Coq_xO (Coq_xI (Coq_xI
                  (Coq_xI (Coq_xI Coq_xH)))))) :: ((Npos (Coq_xO (Coq_xO
                  (Coq_xI (Coq_xI (Coq_xI Coq_xH)))))) :: ((Npos (Coq_xO
                  (Coq_xO (Coq_xO (Coq_xO (Coq_xI (Coq_xI
                  Coq_xH))))))) :: ((Npos (Coq_xO (Coq_xI (Coq_xO (Coq_xO
                  (Coq_xI (Coq_xI Coq_xH))))))) :: ((Npos (Coq_xI (Coq_xO
                  (Coq_xI (Coq_xO (Coq_xO (Coq_xI Coq_xH))))))) :: ((Npos
                  (Coq_xO (Coq_xI (Coq_xI (Coq_xI (Coq_xI
                  Coq_xH)))))) :: ((Npos (Coq_xO (Coq_xI (Coq_xO
                  Coq_xH)))) :: ((Npos (Coq_xO (Coq_xO (Coq_xO (Coq_xO
                  (Coq_xO Coq_xH)))))) :: ((Npos (Coq_xO (Coq_xO (Coq_xO
                  (Coq_xO (Coq_xO Coq_xH)))))) :: ((Npos (Coq_xO (Coq_xO
                  (Coq_xO (Coq_xO (Coq_xO Coq_xH)))))) :: ((Npos (Coq_xO
                  (Coq_xO (Coq_xO (Coq_xO (Coq_xO Coq_xH)))))) :: ((Npos
                  (Coq_xO (Coq_xO (Coq_xO (Coq_xO (Coq_xI (Coq_xO
                  Coq_xH))))))) :: ((Npos (Coq_xI (Coq_xO (Coq_xI (Coq_xO
                  (Coq_xO (Coq_xI Coq_xH))))))) :: ((Npos (Coq_xI (Coq_xO
                  (Coq_xI (Coq_xO (Coq_xO (Coq_xI Coq_xH))))))) :: ((Npos
                  (Coq_xO (Coq_xI (Coq_xO (Coq_xO (Coq_xI (Coq_xI
                  Coq_xH))))))) :: ((Npos (Coq_xO (Coq_xO (Coq_xO (Coq_xO
                  (Coq_xO Coq_xH)))))) :: ((Npos (Coq_xO (Coq_xO (Coq_xI
                  (Coq_xO (Coq_xO (Coq_xO Coq_xH))))))) :: ((Npos (Coq_xI
                  (Coq_xO (Coq_xI (Coq_xO (Coq_xO (Coq_xI
                  Coq_xH))))))) :: ((Npos (Coq_xO (Coq_xO (Coq_xI (Coq_xO
                  (Coq_xI (Coq_xI Coq_xH))))))) :: ((Npos (Coq_xI (Coq_xO
                  (Coq_xO (Coq_xO (Coq_xO (Coq_xI Coq_xH))))))) :: ((Npos
                  (Coq_xI (Coq_xO (Coq_xO (Coq_xI (Coq_xO (Coq_xI
                  Coq_xH))))))) :: ((Npos (Coq_xO (Coq_xO (Coq_xI (Coq_xI
                  (Coq_xO (Coq_xI Coq_xH))))))) :: ((Npos (Coq_xI (Coq_xI
                  (Coq_xO (Coq_xO (Coq_xI (Coq_xI Coq_xH))))))) :: ((Npos
                  (Coq_xO (Coq_xI (Coq_xO (Coq_xI (Coq_xI
                  Coq_xH)))))) :: ((Npos (Coq_xO (Coq_xO (Coq_xO (Coq_xO
                  (Coq_xO Coq_xH)))))) :: ((Npos (Coq_xI (Coq_xI (Coq_xO
                  (Coq_xI (Coq_xI (Coq_xO Coq_xH))))))) :: ((Npos (Coq_xO
                  (Coq_xO (Coq_xI (Coq_xI (Coq_xI Coq_xH)))))) :: ((Npos
                  (Coq_xI (Coq_xO (Coq_xO (Coq_xO (Coq_xO (Coq_xI
                  Coq_xH))))))) :: ((Npos (Coq_xO (Coq_xO (Coq_xO (Coq_xO
                  (Coq_xO Coq_xH)))))) :: ((Npos (Coq_xO (Coq_xO (Coq_xO
                  (Coq_xI (Coq_xO (Coq_xI Coq_xH))))))) :: ((Npos (Coq_xO
                  (Coq_xI (Coq_xO (Coq_xO (Coq_xI (Coq_xI
                  Coq_xH))))))) :: ((Npos (Coq_xI (Coq_xO (Coq_xI (Coq_xO
                  (Coq_xO (Coq_xI Coq_xH))))))) :: ((Npos (Coq_xO (Coq_xI
                  (Coq_xI (Coq_xO (Coq_xO (Coq_xI Coq_xH))))))) :: ((Npos
                  (Coq_xI (Coq_xO (Coq_xI (Coq_xI (Coq_xI
                  Coq_xH)))))) :: ((Npos (Coq_xO (Coq_xI (Coq_xO (Coq_xO
                  (Coq_xO
                  Coq_xH)))))) :: []))))))))))))))))))))))))))))))))))))))))))))))))))))) :: ((Fld
                  (kbase, base)) :: ((Lit ((Npos (Coq_xO (Coq_xI (Coq_xO
                  (Coq_xO (Coq_xO Coq_xH)))))) :: ((Npos (Coq_xO (Coq_xI
                  (Coq_xI (Coq_xI (Coq_xI Coq_xH)))))) :: ((Npos (Coq_xI
                  (Coq_xI (Coq_xO (Coq_xO (Coq_xO (Coq_xI
                  Coq_xH))))))) :: ((Npos (Coq_xO (Coq_xO (Coq_xI (Coq_xI
                  (Coq_xO (Coq_xI Coq_xH))))))) :: ((Npos (Coq_xI (Coq_xI
                  (Coq_xI (Coq_xI (Coq_xO (Coq_xI Coq_xH))))))) :: ((Npos
                  (Coq_xI (Coq_xI (Coq_xO (Coq_xO (Coq_xI (Coq_xI
                  Coq_xH))))))) :: ((Npos (Coq_xI (Coq_xO (Coq_xI (Coq_xO
                  (Coq_xO (Coq_xI Coq_xH))))))) :: ((Npos (Coq_xO (Coq_xO
                  (Coq_xI (Coq_xI (Coq_xI Coq_xH)))))) :: ((Npos (Coq_xI
                  (Coq_xI (Coq_xI (Coq_xI (Coq_xO Coq_xH)))))) :: ((Npos
                  (Coq_xI (Coq_xO (Coq_xO (Coq_xO (Coq_xO (Coq_xI
                  Coq_xH))))))) :: ((Npos (Coq_xO (Coq_xI (Coq_xI (Coq_xI
                  (Coq_xI Coq_xH)))))) :: ((Npos (Coq_xI (Coq_xO (Coq_xI
                  (Coq_xI (Coq_xI (Coq_xO Coq_xH))))))) :: ((Npos (Coq_xO
                  (Coq_xI (Coq_xO Coq_xH)))) :: ((Npos (Coq_xO (Coq_xO
                  (Coq_xO (Coq_xO (Coq_xO Coq_xH)))))) :: ((Npos (Coq_xO
                  (Coq_xO (Coq_xO (Coq_xO (Coq_xO Coq_xH)))))) :: ((Npos
                  (Coq_xO (Coq_xO (Coq_xO (Coq_xO (Coq_xO
                  Coq_xH)))))) :: ((Npos (Coq_xO (Coq_xO (Coq_xO (Coq_xO
                  (Coq_xO Coq_xH)))))) :: ((Npos (Coq_xO (Coq_xO (Coq_xO
                  (Coq_xO (Coq_xO Coq_xH)))))) :: ((Npos (Coq_xO (Coq_xO
                  (Coq_xO (Coq_xO (Coq_xO Coq_xH)))))) :: ((Npos (Coq_xO
                  (Coq_xO (Coq_xO (Coq_xO (Coq_xO Coq_xH)))))) :: ((Npos
                  (Coq_xO (Coq_xO (Coq_xO (Coq_xO (Coq_xO
                  Coq_xH)))))) :: ((Npos (Coq_xO (Coq_xO (Coq_xI (Coq_xO
                  (Coq_xO (Coq_xI Coq_xH))))))) :: ((Npos (Coq_xI (Coq_xO
                  (Coq_xI (Coq_xO (Coq_xO (Coq_xI Coq_xH))))))) :: ((Npos
                  (Coq_xO (Coq_xO (Coq_xI (Coq_xO (Coq_xI (Coq_xI
                  Coq_xH))))))) :: ((Npos (Coq_xI (Coq_xO (Coq_xO (Coq_xO
                  (Coq_xO (Coq_xI Coq_xH))))))) :: ((Npos (Coq_xI (Coq_xO
                  (Coq_xO (Coq_xI (Coq_xO (Coq_xI Coq_xH))))))) :: ((Npos
                  (Coq_xO (Coq_xO (Coq_xI (Coq_xI (Coq_xO (Coq_xI
                  Coq_xH))))))) :: ((Npos (Coq_xI (Coq_xI (Coq_xO (Coq_xO
                  (Coq_xI (Coq_xI Coq_xH))))))) :: ((Npos (Coq_xO (Coq_xI
                  (Coq_xO Coq_xH)))) :: ((Npos (Coq_xO (Coq_xO (Coq_xI
                  (Coq_xI (Coq_xI Coq_xH)))))) :: ((Npos (Coq_xI (Coq_xI
                  (Coq_xI (Coq_xI (Coq_xO Coq_xH)))))) :: ((Npos (Coq_xO
                  (Coq_xO (Coq_xO (Coq_xO (Coq_xI (Coq_xI
                  Coq_xH))))))) :: ((Npos (Coq_xO (Coq_xI (Coq_xO (Coq_xO
                  (Coq_xI (Coq_xI Coq_xH))))))) :: ((Npos (Coq_xI (Coq_xO
                  (Coq_xI (Coq_xO (Coq_xO (Coq_xI Coq_xH))))))) :: ((Npos
                  (Coq_xO (Coq_xI (Coq_xI (Coq_xI (Coq_xI
                  Coq_xH)))))) :: ((Npos (Coq_xO (Coq_xO (Coq_xI (Coq_xI
                  (Coq_xI Coq_xH)))))) :: ((Npos (Coq_xI (Coq_xI (Coq_xI
                  (Coq_xI (Coq_xO Coq_xH)))))) :: ((Npos (Coq_xO (Coq_xO
                  (Coq_xI (Coq_xO (Coq_xI (Coq_xI Coq_xH))))))) :: ((Npos
                  (Coq_xO (Coq_xO (Coq_xI (Coq_xO (Coq_xO (Coq_xI
                  Coq_xH))))))) :: ((Npos (Coq_xO (Coq_xI (Coq_xI (Coq_xI
                  (Coq_xI Coq_xH)))))) :: ((Npos (Coq_xO (Coq_xO (Coq_xI
                  (Coq_xI (Coq_xI Coq_xH)))))) :: ((Npos (Coq_xI (Coq_xI
                  (Coq_xI (Coq_xI (Coq_xO Coq_xH)))))) :: ((Npos (Coq_xO
                  (Coq_xO (Coq_xI (Coq_xO (Coq_xI (Coq_xI
                  Coq_xH))))))) :: ((Npos (Coq_xO (Coq_xI (Coq_xO (Coq_xO
                  (Coq_xI (Coq_xI Coq_xH))))))) :: ((Npos (Coq_xO (Coq_xI
                  (Coq_xI (Coq_xI (Coq_xI Coq_xH)))))) :: ((Npos (Coq_xO
                  (Coq_xI (Coq_xO
                  Coq_xH)))) :: []))))))))))))))))))))))))))))))))))))))))))))))) :: []))
           else []
         | None -> [])))

(** val peers_table : kind -> str -> str option -> router -> template **)

let peers_table kbase base focus r =
  match r.r_tlvs with
  | Some _ ->
    app ((Lit ((Npos (Coq_xO (Coq_xO (Coq_xI (Coq_xI (Coq_xI
      Coq_xH)))))) :: ((Npos (Coq_xO (Coq_xO (Coq_xI (Coq_xO (Coq_xI (Coq_xI
      Coq_xH))))))) :: ((Npos (Coq_xI (Coq_xO (Coq_xO (Coq_xO (Coq_xO (Coq_xI
      Coq_xH))))))) :: ((Npos (Coq_xO (Coq_xI (Coq_xO (Coq_xO (Coq_xO (Coq_xI
      Coq_xH))))))) :: ((Npos (Coq_xO (Coq_xO (Coq_xI (Coq_xI (Coq_xO (Coq_xI
      Coq_xH))))))) :: ((Npos (Coq_xI (Coq_xO (Coq_xI (Coq_xO (Coq_xO (Coq_xI
      Coq_xH))))))) :: ((Npos (Coq_xO (Coq_xI (Coq_xI (Coq_xI (Coq_xI
      Coq_xH)))))) :: ((Npos (Coq_xO (Coq_xI (Coq_xO Coq_xH)))) :: ((Npos
      (Coq_xO (Coq_xO (Coq_xI (Coq_xI (Coq_xI Coq_xH)))))) :: ((Npos (Coq_xO
      (Coq_xO (Coq_xI (Coq_xO (Coq_xI (Coq_xI Coq_xH))))))) :: ((Npos (Coq_xO
      (Coq_xI (Coq_xO (Coq_xO (Coq_xI (Coq_xI Coq_xH))))))) :: ((Npos (Coq_xO
      (Coq_xI (Coq_xI (Coq_xI (Coq_xI Coq_xH)))))) :: ((Npos (Coq_xO (Coq_xI
      (Coq_xO Coq_xH)))) :: ((Npos (Coq_xO (Coq_xO (Coq_xO (Coq_xO (Coq_xO
      Coq_xH)))))) :: ((Npos (Coq_xO (Coq_xO (Coq_xO (Coq_xO (Coq_xO
      Coq_xH)))))) :: ((Npos (Coq_xO (Coq_xO (Coq_xO (Coq_xO (Coq_xO
      Coq_xH)))))) :: ((Npos (Coq_xO (Coq_xO (Coq_xO (Coq_xO (Coq_xO
      Coq_xH)))))) :: ((Npos (Coq_xO (Coq_xO (Coq_xI (Coq_xI (Coq_xI
      Coq_xH)))))) :: ((Npos (Coq_xO (Coq_xO (Coq_xI (Coq_xO (Coq_xI (Coq_xI
      Coq_xH))))))) :: ((Npos (Coq_xO (Coq_xO (Coq_xO (Coq_xI (Coq_xO (Coq_xI
      Coq_xH))))))) :: ((Npos (Coq_xO (Coq_xI (Coq_xI (Coq_xI (Coq_xI
      Coq_xH)))))) :: ((Npos (Coq_xO (Coq_xO (Coq_xI (Coq_xO (Coq_xI (Coq_xO
      Coq_xH))))))) :: ((Npos (Coq_xI (Coq_xO (Coq_xO (Coq_xI (Coq_xO (Coq_xI
      Coq_xH))))))) :: ((Npos (Coq_xI (Coq_xO (Coq_xI (Coq_xI (Coq_xO (Coq_xI
      Coq_xH))))))) :: ((Npos (Coq_xI (Coq_xO (Coq_xI (Coq_xO (Coq_xO (Coq_xI
      Coq_xH))))))) :: ((Npos (Coq_xI (Coq_xI (Coq_xO (Coq_xO (Coq_xI (Coq_xI
      Coq_xH))))))) :: ((Npos (Coq_xO (Coq_xO (Coq_xI (Coq_xO (Coq_xI (Coq_xI
      Coq_xH))))))) :: ((Npos (Coq_xI (Coq_xO (Coq_xO (Coq_xO (Coq_xO (Coq_xI
      Coq_xH))))))) :: ((Npos (Coq_xI (Coq_xO (Coq_xI (Coq_xI (Coq_xO (Coq_xI
      Coq_xH))))))) :: ((Npos (Coq_xO (Coq_xO (Coq_xO (Coq_xO (Coq_xI (Coq_xI
      Coq_xH))))))) :: ((Npos (Coq_xO (Coq_xO (Coq_xI (Coq_xI (Coq_xI
      Coq_xH)))))) :: ((Npos (Coq_xI (Coq_xI (Coq_xI (Coq_xI (Coq_xO
      Coq_xH)))))) :: ((Npos (Coq_xO (Coq_xO (Coq_xI (Coq_xO (Coq_xI (Coq_xI
      Coq_xH))))))) :: ((Npos (Coq_xO (Coq_xO (Coq_xO (Coq_xI (Coq_xO (Coq_xI
      Coq_xH))))))) :: ((Npos (Coq_xO (Coq_xI (Coq_xI (Coq_xI (Coq_xI
      Coq_xH)))))) :: ((Npos (Coq_xO (Coq_xI (Coq_xO Coq_xH)))) :: ((Npos
      (Coq_xO (Coq_xO (Coq_xO (Coq_xO (Coq_xO Coq_xH)))))) :: ((Npos (Coq_xO
      (Coq_xO (Coq_xO (Coq_xO (Coq_xO Coq_xH)))))) :: ((Npos (Coq_xO (Coq_xO
      (Coq_xO (Coq_xO (Coq_xO Coq_xH)))))) :: ((Npos (Coq_xO (Coq_xO (Coq_xO
      (Coq_xO (Coq_xO Coq_xH)))))) :: ((Npos (Coq_xO (Coq_xO (Coq_xI (Coq_xI
      (Coq_xI Coq_xH)))))) :: ((Npos (Coq_xO (Coq_xO (Coq_xI (Coq_xO (Coq_xI
      (Coq_xI Coq_xH))))))) :: ((Npos (Coq_xO (Coq_xO (Coq_xO (Coq_xI (Coq_xO
      (Coq_xI Coq_xH))))))) :: ((Npos (Coq_xO (Coq_xI (Coq_xI (Coq_xI (Coq_xI
      Coq_xH)))))) :: ((Npos (Coq_xI (Coq_xO (Coq_xO (Coq_xI (Coq_xO (Coq_xO
      Coq_xH))))))) :: ((Npos (Coq_xO (Coq_xO (Coq_xO (Coq_xO (Coq_xI (Coq_xO
      Coq_xH))))))) :: ((Npos (Coq_xO (Coq_xO (Coq_xO (Coq_xO (Coq_xO
      Coq_xH)))))) :: ((Npos (Coq_xI (Coq_xO (Coq_xO (Coq_xO (Coq_xO (Coq_xO
      Coq_xH))))))) :: ((Npos (Coq_xO (Coq_xO (Coq_xI (Coq_xO (Coq_xO (Coq_xI
      Coq_xH))))))) :: ((Npos (Coq_xO (Coq_xO (Coq_xI (Coq_xO (Coq_xO (Coq_xI
      Coq_xH))))))) :: ((Npos (Coq_xO (Coq_xI (Coq_xO (Coq_xO (Coq_xI (Coq_xI
      Coq_xH))))))) :: ((Npos (Coq_xI (Coq_xO (Coq_xI (Coq_xO (Coq_xO (Coq_xI
      Coq_xH))))))) :: ((Npos (Coq_xI (Coq_xI (Coq_xO (Coq_xO (Coq_xI (Coq_xI
      Coq_xH))))))) :: ((Npos (Coq_xI (Coq_xI (Coq_xO (Coq_xO (Coq_xI (Coq_xI
      Coq_xH))))))) :: ((Npos (Coq_xO (Coq_xO (Coq_xI (Coq_xI (Coq_xI
      Coq_xH)))))) :: ((Npos (Coq_xI (Coq_xI (Coq_xI (Coq_xI (Coq_xO
      Coq_xH)))))) :: ((Npos (Coq_xO (Coq_xO (Coq_xI (Coq_xO (Coq_xI (Coq_xI
      Coq_xH))))))) :: ((Npos (Coq_xO (Coq_xO (Coq_xO (Coq_xI (Coq_xO (Coq_xI
      Coq_xH))))))) :: ((Npos (Coq_xO (Coq_xI (Coq_xI (Coq_xI (Coq_xI
      Coq_xH)))))) :: ((Npos (Coq_xO (Coq_xI (Coq_xO Coq_xH)))) :: ((Npos
      (Coq_xO (Coq_xO (Coq_xO (Coq_xO (Coq_xO Coq_xH)))))) :: ((Npos (Coq_xO
      (Coq_xO (Coq_xO (Coq_xO (Coq_xO Coq_xH)))))) :: ((Npos (Coq_xO (Coq_xO
      (Coq_xO (Coq_xO (Coq_xO Coq_xH)))))) :: ((Npos (Coq_xO (Coq_xO (Coq_xO
      (Coq_xO (Coq_xO Coq_xH)))))) :: ((Npos (Coq_xO (Coq_xO (Coq_xI (Coq_xI
      (Coq_xI Coq_xH)))))) :: ((Npos (Coq_xO (Coq_xO (Coq_xI (Coq_xO (Coq_xI
      (Coq_xI Coq_xH))))))) :: ((Npos (Coq_xO (Coq_xO (Coq_xO (Coq_xI (Coq_xO
      (Coq_xI Coq_xH))))))) :: ((Npos (Coq_xO (Coq_xI (Coq_xI (Coq_xI (Coq_xI
      Coq_xH)))))) :: ((Npos (Coq_xI (Coq_xO (Coq_xO (Coq_xO (Coq_xO (Coq_xO
      Coq_xH))))))) :: ((Npos (Coq_xI (Coq_xI (Coq_xO (Coq_xO (Coq_xI (Coq_xO
      Coq_xH))))))) :: ((Npos (Coq_xO (Coq_xI (Coq_xI (Coq_xI (Coq_xO (Coq_xO
      Coq_xH))))))) :: ((Npos (Coq_xO (Coq_xO (Coq_xI (Coq_xI (Coq_xI
      Coq_xH)))))) :: ((Npos (Coq_xI (Coq_xI (Coq_xI (Coq_xI (Coq_xO
      Coq_xH)))))) :: ((Npos (Coq_xO (Coq_xO (Coq_xI (Coq_xO (Coq_xI (Coq_xI
      Coq_xH))))))) :: ((Npos (Coq_xO (Coq_xO (Coq_xO (Coq_xI (Coq_xO (Coq_xI
      Coq_xH))))))) :: ((Npos (Coq_xO (Coq_xI (Coq_xI (Coq_xI (Coq_xI
      Coq_xH)))))) :: ((Npos (Coq_xO (Coq_xI (Coq_xO Coq_xH)))) :: ((Npos
      (Coq_xO (Coq_xO (Coq_xO (Coq_xO (Coq_xO Coq_xH)))))) :: ((Npos (Coq_xO
      (Coq_xO (Coq_xO (Coq_xO (Coq_xO Coq_xH)))))) :: ((Npos (Coq_xO (Coq_xO
      (Coq_xO (Coq_xO (Coq_xO Coq_xH)))))) :: ((Npos (Coq_xO (Coq_xO (Coq_xO
      (Coq_xO (Coq_xO Coq_xH)))))) :: ((Npos (Coq_xO (Coq_xO (Coq_xI (Coq_xI
      (Coq_xI Coq_xH)))))) :: ((Npos (Coq_xO (Coq_xO (Coq_xI (Coq_xO (Coq_xI
      (Coq_xI Coq_xH))))))) :: ((Npos (Coq_xO (Coq_xO (Coq_xO (Coq_xI (Coq_xO
      (Coq_xI Coq_xH))))))) :: ((Npos (Coq_xO (Coq_xI (Coq_xI (Coq_xI (Coq_xI
      Coq_xH)))))) :: ((Npos (Coq_xO (Coq_xO (Coq_xO (Coq_xO (Coq_xI (Coq_xO
      Coq_xH))))))) :: ((Npos (Coq_xO (Coq_xI (Coq_xO (Coq_xO (Coq_xI (Coq_xI
      Coq_xH))))))) :: ((Npos (Coq_xI (Coq_xO (Coq_xI (Coq_xO (Coq_xO (Coq_xI
      Coq_xH))))))) :: ((Npos (Coq_xO (Coq_xI (Coq_xI (Coq_xO (Coq_xO (Coq_xI
      Coq_xH))))))) :: ((Npos (Coq_xI (Coq_xO (Coq_xO (Coq_xI (Coq_xO (Coq_xI
      Coq_xH))))))) :: ((Npos (Coq_xO (Coq_xO (Coq_xO (Coq_xI (Coq_xI (Coq_xI
      Coq_xH))))))) :: ((Npos (Coq_xI (Coq_xO (Coq_xI (Coq_xO (Coq_xO (Coq_xI
      Coq_xH))))))) :: ((Npos (Coq_xI (Coq_xI (Coq_xO (Coq_xO (Coq_xI (Coq_xI
      Coq_xH))))))) :: ((Npos (Coq_xO (Coq_xO (Coq_xI (Coq_xI (Coq_xI
      Coq_xH)))))) :: ((Npos (Coq_xI (Coq_xI (Coq_xI (Coq_xI (Coq_xO
      Coq_xH)))))) :: ((Npos (Coq_xO (Coq_xO (Coq_xI (Coq_xO (Coq_xI (Coq_xI
      Coq_xH))))))) :: ((Npos (Coq_xO (Coq_xO (Coq_xO (Coq_xI (Coq_xO (Coq_xI
      Coq_xH))))))) :: ((Npos (Coq_xO (Coq_xI (Coq_xI (Coq_xI (Coq_xI
      Coq_xH)))))) :: ((Npos (Coq_xO (Coq_xI (Coq_xO Coq_xH)))) :: ((Npos
      (Coq_xO (Coq_xO (Coq_xO (Coq_xO (Coq_xO Coq_xH)))))) :: ((Npos (Coq_xO
      (Coq_xO (Coq_xO (Coq_xO (Coq_xO Coq_xH)))))) :: ((Npos (Coq_xO (Coq_xO
      (Coq_xO (Coq_xO (Coq_xO Coq_xH)))))) :: ((Npos (Coq_xO (Coq_xO (Coq_xO
      (Coq_xO (Coq_xO Coq_xH)))))) :: ((Npos (Coq_xO (Coq_xO (Coq_xI (Coq_xI
      (Coq_xI Coq_xH)))))) :: ((Npos (Coq_xO (Coq_xO (Coq_xI (Coq_xO (Coq_xI
      (Coq_xI Coq_xH))))))) :: ((Npos (Coq_xO (Coq_xO (Coq_xO (Coq_xI (Coq_xO
      (Coq_xI Coq_xH))))))) :: ((Npos (Coq_xO (Coq_xI (Coq_xI (Coq_xI (Coq_xI
      Coq_xH)))))) :: ((Npos (Coq_xO (Coq_xI (Coq_xI (Coq_xO (Coq_xO (Coq_xO
      Coq_xH))))))) :: ((Npos (Coq_xO (Coq_xO (Coq_xI (Coq_xI (Coq_xO (Coq_xI
      Coq_xH))))))) :: ((Npos (Coq_xI (Coq_xO (Coq_xO (Coq_xO (Coq_xO (Coq_xI
      Coq_xH))))))) :: ((Npos (Coq_xI (Coq_xI (Coq_xI (Coq_xO (Coq_xO (Coq_xI
      Coq_xH))))))) :: ((Npos (Coq_xI (Coq_xI (Coq_xO (Coq_xO (Coq_xI (Coq_xI
      Coq_xH))))))) :: ((Npos (Coq_xO (Coq_xO (Coq_xI (Coq_xI (Coq_xI
      Coq_xH)))))) :: ((Npos (Coq_xI (Coq_xI (Coq_xI (Coq_xI (Coq_xO
      Coq_xH)))))) :: ((Npos (Coq_xO (Coq_xO (Coq_xI (Coq_xO (Coq_xI (Coq_xI
      Coq_xH))))))) :: ((Npos (Coq_xO (Coq_xO (Coq_xO (Coq_xI (Coq_xO (Coq_xI
      Coq_xH))))))) :: ((Npos (Coq_xO (Coq_xI (Coq_xI (Coq_xI (Coq_xI
      Coq_xH)))))) :: ((Npos (Coq_xO (Coq_xI (Coq_xO Coq_xH)))) :: ((Npos
      (Coq_xO (Coq_xO (Coq_xI (Coq_xI (Coq_xI Coq_xH)))))) :: ((Npos (Coq_xI
      (Coq_xI (Coq_xI (Coq_xI (Coq_xO Coq_xH)))))) :: ((Npos (Coq_xO (Coq_xO
      (Coq_xI (Coq_xO (Coq_xI (Coq_xI Coq_xH))))))) :: ((Npos (Coq_xO (Coq_xI
      (Coq_xO (Coq_xO (Coq_xI (Coq_xI Coq_xH))))))) :: ((Npos (Coq_xO (Coq_xI
      (Coq_xI (Coq_xI (Coq_xI Coq_xH)))))) :: ((Npos (Coq_xO (Coq_xI (Coq_xO
      Coq_xH)))) :: []))))))))))))))))))))))))))))))))))))))))))))))))))))))))))))))))))))))))))))))))))))))))))))))))))))))))))))))))))))))))))))) :: [])
      (app (flat_map (peer_row kbase base focus) r.r_peers) ((Lit ((Npos
        (Coq_xO (Coq_xO (Coq_xI (Coq_xI (Coq_xI Coq_xH)))))) :: ((Npos
        (Coq_xI (Coq_xI (Coq_xI (Coq_xI (Coq_xO Coq_xH)))))) :: ((Npos
        (Coq_xO (Coq_xO (Coq_xI (Coq_xO (Coq_xI (Coq_xI
        Coq_xH))))))) :: ((Npos (Coq_xI (Coq_xO (Coq_xO (Coq_xO (Coq_xO
        (Coq_xI Coq_xH))))))) :: ((Npos (Coq_xO (Coq_xI (Coq_xO (Coq_xO
        (Coq_xO (Coq_xI Coq_xH))))))) :: ((Npos (Coq_xO (Coq_xO (Coq_xI
        (Coq_xI (Coq_xO (Coq_xI Coq_xH))))))) :: ((Npos (Coq_xI (Coq_xO
        (Coq_xI (Coq_xO (Coq_xO (Coq_xI Coq_xH))))))) :: ((Npos (Coq_xO
        (Coq_xI (Coq_xI (Coq_xI (Coq_xI Coq_xH)))))) :: ((Npos (Coq_xO
        (Coq_xI (Coq_xO Coq_xH)))) :: [])))))))))) :: []))
  | None -> []

(** val info_page_gen :
    kind -> kind -> str -> str option -> router -> template **)

let info_page_gen kf kbase base focus r =
  app info_head
    (app ((Lit ((Npos (Coq_xO (Coq_xI (Coq_xO (Coq_xO (Coq_xI (Coq_xO
      Coq_xH))))))) :: ((Npos (Coq_xI (Coq_xI (Coq_xI (Coq_xI (Coq_xO (Coq_xI
      Coq_xH))))))) :: ((Npos (Coq_xI (Coq_xO (Coq_xI (Coq_xO (Coq_xI (Coq_xI
      Coq_xH))))))) :: ((Npos (Coq_xO (Coq_xO (Coq_xI (Coq_xO (Coq_xI (Coq_xI
      Coq_xH))))))) :: ((Npos (Coq_xI (Coq_xO (Coq_xI (Coq_xO (Coq_xO (Coq_xI
      Coq_xH))))))) :: ((Npos (Coq_xO (Coq_xI (Coq_xO (Coq_xO (Coq_xI (Coq_xI
      Coq_xH))))))) :: ((Npos (Coq_xO (Coq_xI (Coq_xO (Coq_xI (Coq_xI
      Coq_xH)))))) :: ((Npos (Coq_xO (Coq_xI (Coq_xO Coq_xH)))) :: ((Npos
      (Coq_xO (Coq_xO (Coq_xO (Coq_xO (Coq_xO Coq_xH)))))) :: ((Npos (Coq_xO
      (Coq_xO (Coq_xO (Coq_xO (Coq_xO Coq_xH)))))) :: ((Npos (Coq_xO (Coq_xO
      (Coq_xO (Coq_xO (Coq_xO Coq_xH)))))) :: ((Npos (Coq_xO (Coq_xO (Coq_xO
      (Coq_xO (Coq_xO Coq_xH)))))) :: ((Npos (Coq_xI (Coq_xO (Coq_xO (Coq_xI
      (Coq_xO (Coq_xO Coq_xH))))))) :: ((Npos (Coq_xO (Coq_xI (Coq_xI (Coq_xI
      (Coq_xO (Coq_xI Coq_xH))))))) :: ((Npos (Coq_xI (Coq_xI (Coq_xI (Coq_xO
      (Coq_xO (Coq_xI Coq_xH))))))) :: ((Npos (Coq_xO (Coq_xI (Coq_xO (Coq_xO
      (Coq_xI (Coq_xI Coq_xH))))))) :: ((Npos (Coq_xI (Coq_xO (Coq_xI (Coq_xO
      (Coq_xO (Coq_xI Coq_xH))))))) :: ((Npos (Coq_xI (Coq_xI (Coq_xO (Coq_xO
      (Coq_xI (Coq_xI Coq_xH))))))) :: ((Npos (Coq_xI (Coq_xI (Coq_xO (Coq_xO
      (Coq_xI (Coq_xI Coq_xH))))))) :: ((Npos (Coq_xO (Coq_xO (Coq_xO (Coq_xO
      (Coq_xO Coq_xH)))))) :: ((Npos (Coq_xO (Coq_xO (Coq_xO (Coq_xO (Coq_xO
      Coq_xH)))))) :: ((Npos (Coq_xO (Coq_xO (Coq_xO (Coq_xO (Coq_xO
      Coq_xH)))))) :: ((Npos (Coq_xO (Coq_xO (Coq_xO (Coq_xO (Coq_xO
      Coq_xH)))))) :: ((Npos (Coq_xO (Coq_xO (Coq_xO (Coq_xO (Coq_xO
      Coq_xH)))))) :: ((Npos (Coq_xO (Coq_xO (Coq_xO (Coq_xO (Coq_xO
      Coq_xH)))))) :: ((Npos (Coq_xO (Coq_xI (Coq_xO (Coq_xI (Coq_xI
      Coq_xH)))))) :: ((Npos (Coq_xO (Coq_xO (Coq_xO (Coq_xO (Coq_xO
      Coq_xH)))))) :: [])))))))))))))))))))))))))))) :: ((Num
      r.r_id) :: ((Lit ((Npos (Coq_xO (Coq_xI (Coq_xO Coq_xH)))) :: ((Npos
      (Coq_xO (Coq_xO (Coq_xO (Coq_xO (Coq_xO Coq_xH)))))) :: ((Npos (Coq_xO
      (Coq_xO (Coq_xO (Coq_xO (Coq_xO Coq_xH)))))) :: ((Npos (Coq_xO (Coq_xO
      (Coq_xO (Coq_xO (Coq_xO Coq_xH)))))) :: ((Npos (Coq_xO (Coq_xO (Coq_xO
      (Coq_xO (Coq_xO Coq_xH)))))) :: ((Npos (Coq_xI (Coq_xI (Coq_xO (Coq_xO
      (Coq_xI (Coq_xO Coq_xH))))))) :: ((Npos (Coq_xO (Coq_xO (Coq_xI (Coq_xO
      (Coq_xI (Coq_xI Coq_xH))))))) :: ((Npos (Coq_xI (Coq_xO (Coq_xO (Coq_xO
      (Coq_xO (Coq_xI Coq_xH))))))) :: ((Npos (Coq_xO (Coq_xO (Coq_xI (Coq_xO
      (Coq_xI (Coq_xI Coq_xH))))))) :: ((Npos (Coq_xI (Coq_xO (Coq_xI (Coq_xO
      (Coq_xO (Coq_xI Coq_xH))))))) :: ((Npos (Coq_xO (Coq_xI (Coq_xO (Coq_xI
      (Coq_xI Coq_xH)))))) :: ((Npos (Coq_xO (Coq_xO (Coq_xO (Coq_xO (Coq_xO
      Coq_xH)))))) :: ((Npos (Coq_xO (Coq_xO (Coq_xO (Coq_xO (Coq_xO
      Coq_xH)))))) :: ((Npos (Coq_xO (Coq_xO (Coq_xO (Coq_xO (Coq_xO
      Coq_xH)))))) :: ((Npos (Coq_xO (Coq_xO (Coq_xO (Coq_xO (Coq_xO
      Coq_xH)))))) :: ((Npos (Coq_xO (Coq_xO (Coq_xO (Coq_xO (Coq_xO
      Coq_xH)))))) :: ((Npos (Coq_xO (Coq_xO (Coq_xO (Coq_xO (Coq_xO
      Coq_xH)))))) :: ((Npos (Coq_xO (Coq_xO (Coq_xO (Coq_xO (Coq_xO
      Coq_xH)))))) :: ((Npos (Coq_xO (Coq_xI (Coq_xO (Coq_xI (Coq_xI
      Coq_xH)))))) :: ((Npos (Coq_xO (Coq_xO (Coq_xO (Coq_xO (Coq_xO
      Coq_xH)))))) :: ((Npos (Coq_xI (Coq_xI (Coq_xO (Coq_xO (Coq_xI (Coq_xO
      Coq_xH))))))) :: ((Npos (Coq_xO (Coq_xO (Coq_xO (Coq_xO (Coq_xO
      Coq_xH)))))) :: ((Npos (Coq_xI (Coq_xI (Coq_xO (Coq_xI (Coq_xI (Coq_xO
      Coq_xH))))))) :: ((Npos (Coq_xI (Coq_xO (Coq_xO (Coq_xI (Coq_xO (Coq_xO
      Coq_xH))))))) :: ((Npos (Coq_xO (Coq_xI (Coq_xI (Coq_xI (Coq_xO (Coq_xI
      Coq_xH))))))) :: ((Npos (Coq_xI (Coq_xO (Coq_xO (Coq_xI (Coq_xO (Coq_xI
      Coq_xH))))))) :: ((Npos (Coq_xO (Coq_xO (Coq_xI (Coq_xO (Coq_xI (Coq_xI
      Coq_xH))))))) :: ((Npos (Coq_xI (Coq_xO (Coq_xO (Coq_xI (Coq_xO (Coq_xI
      Coq_xH))))))) :: ((Npos (Coq_xI (Coq_xO (Coq_xO (Coq_xO (Coq_xO (Coq_xI
      Coq_xH))))))) :: ((Npos (Coq_xO (Coq_xO (Coq_xI (Coq_xO (Coq_xI (Coq_xI
      Coq_xH))))))) :: ((Npos (Coq_xI (Coq_xO (Coq_xO (Coq_xI (Coq_xO (Coq_xI
      Coq_xH))))))) :: ((Npos (Coq_xO (Coq_xI (Coq_xI (Coq_xI (Coq_xO (Coq_xI
      Coq_xH))))))) :: ((Npos (Coq_xI (Coq_xI (Coq_xI (Coq_xO (Coq_xO (Coq_xI
      Coq_xH))))))) :: ((Npos (Coq_xO (Coq_xO (Coq_xO (Coq_xO (Coq_xO
      Coq_xH)))))) :: ((Npos (Coq_xI (Coq_xO (Coq_xI (Coq_xI (Coq_xO
      Coq_xH)))))) :: ((Npos (Coq_xO (Coq_xI (Coq_xI (Coq_xI (Coq_xI
      Coq_xH)))))) :: ((Npos (Coq_xO (Coq_xO (Coq_xO (Coq_xO (Coq_xO
      Coq_xH)))))) :: ((Npos (Coq_xO (Coq_xO (Coq_xI (Coq_xO (Coq_xO (Coq_xO
      Coq_xH))))))) :: ((Npos (Coq_xI (Coq_xO (Coq_xI (Coq_xO (Coq_xI (Coq_xI
      Coq_xH))))))) :: ((Npos (Coq_xI (Coq_xO (Coq_xI (Coq_xI (Coq_xO (Coq_xI
      Coq_xH))))))) :: ((Npos (Coq_xO (Coq_xO (Coq_xO (Coq_xO (Coq_xI (Coq_xI
      Coq_xH))))))) :: ((Npos (Coq_xI (Coq_xO (Coq_xO (Coq_xI (Coq_xO (Coq_xI
      Coq_xH))))))) :: ((Npos (Coq_xO (Coq_xI (Coq_xI (Coq_xI (Coq_xO (Coq_xI
      Coq_xH))))))) :: ((Npos (Coq_xI (Coq_xI (Coq_xI (Coq_xO (Coq_xO (Coq_xI
      Coq_xH))))))) :: ((Npos (Coq_xO (Coq_xO (Coq_xO (Coq_xO (Coq_xO
      Coq_xH)))))) :: ((Npos (Coq_xI (Coq_xO (Coq_xI (Coq_xI (Coq_xO
      Coq_xH)))))) :: ((Npos (Coq_xO (Coq_xI (Coq_xI (Coq_xI (Coq_xI
      Coq_xH)))))) :: ((Npos (Coq_xO (Coq_xO (Coq_xO (Coq_xO (Coq_xO
      Coq_xH)))))) :: ((Npos (Coq_xI (Coq_xO (Coq_xI (Coq_xO (Coq_xI (Coq_xO
      Coq_xH))))))) :: ((Npos (Coq_xO (Coq_xO (Coq_xO (Coq_xO (Coq_xI (Coq_xI
      Coq_xH))))))) :: ((Npos (Coq_xO (Coq_xO (Coq_xI (Coq_xO (Coq_xO (Coq_xI
      Coq_xH))))))) :: ((Npos (Coq_xI (Coq_xO (Coq_xO (Coq_xO (Coq_xO (Coq_xI
      Coq_xH))))))) :: ((Npos (Coq_xO (Coq_xO (Coq_xI (Coq_xO (Coq_xI (Coq_xI
      Coq_xH))))))) :: ((Npos (Coq_xI (Coq_xO (Coq_xO (Coq_xI (Coq_xO (Coq_xI
      Coq_xH))))))) :: ((Npos (Coq_xO (Coq_xI (Coq_xI (Coq_xI (Coq_xO (Coq_xI
      Coq_xH))))))) :: ((Npos (Coq_xI (Coq_xI (Coq_xI (Coq_xO (Coq_xO (Coq_xI
      Coq_xH))))))) :: ((Npos (Coq_xO (Coq_xO (Coq_xO (Coq_xO (Coq_xO
      Coq_xH)))))) :: ((Npos (Coq_xI (Coq_xO (Coq_xI (Coq_xI (Coq_xO
      Coq_xH)))))) :: ((Npos (Coq_xO (Coq_xI (Coq_xI (Coq_xI (Coq_xI
      Coq_xH)))))) :: ((Npos (Coq_xO (Coq_xO (Coq_xO (Coq_xO (Coq_xO
      Coq_xH)))))) :: ((Npos (Coq_xO (Coq_xO (Coq_xI (Coq_xO (Coq_xI (Coq_xO
      Coq_xH))))))) :: ((Npos (Coq_xI (Coq_xO (Coq_xI (Coq_xO (Coq_xO (Coq_xI
      Coq_xH))))))) :: ((Npos (Coq_xO (Coq_xI (Coq_xO (Coq_xO (Coq_xI (Coq_xI
      Coq_xH))))))) :: ((Npos (Coq_xI (Coq_xO (Coq_xI (Coq_xI (Coq_xO (Coq_xI
      Coq_xH))))))) :: ((Npos (Coq_xI (Coq_xO (Coq_xO (Coq_xI (Coq_xO (Coq_xI
      Coq_xH))))))) :: ((Npos (Coq_xO (Coq_xI (Coq_xI (Coq_xI (Coq_xO (Coq_xI
      Coq_xH))))))) :: ((Npos (Coq_xI (Coq_xO (Coq_xO (Coq_xO (Coq_xO (Coq_xI
      Coq_xH))))))) :: ((Npos (Coq_xO (Coq_xO (Coq_xI (Coq_xO (Coq_xI (Coq_xI
      Coq_xH))))))) :: ((Npos (Coq_xI (Coq_xO (Coq_xI (Coq_xO (Coq_xO (Coq_xI
      Coq_xH))))))) :: ((Npos (Coq_xO (Coq_xO (Coq_xI (Coq_xO (Coq_xO (Coq_xI
      Coq_xH))))))) :: ((Npos (Coq_xO (Coq_xO (Coq_xI (Coq_xI (Coq_xO
      Coq_xH)))))) :: ((Npos (Coq_xO (Coq_xO (Coq_xO (Coq_xO (Coq_xO
      Coq_xH)))))) :: ((Npos (Coq_xI (Coq_xI (Coq_xI (Coq_xI (Coq_xO (Coq_xI
      Coq_xH))))))) :: ((Npos (Coq_xO (Coq_xI (Coq_xO (Coq_xO (Coq_xI (Coq_xI
      Coq_xH))))))) :: ((Npos (Coq_xO (Coq_xO (Coq_xO (Coq_xO (Coq_xO
      Coq_xH)))))) :: ((Npos (Coq_xI (Coq_xO (Coq_xO (Coq_xO (Coq_xO (Coq_xO
      Coq_xH))))))) :: ((Npos (Coq_xO (Coq_xI (Coq_xO (Coq_xO (Coq_xO (Coq_xI
      Coq_xH))))))) :: ((Npos (Coq_xI (Coq_xI (Coq_xI (Coq_xI (Coq_xO (Coq_xI
      Coq_xH))))))) :: ((Npos (Coq_xO (Coq_xI (Coq_xO (Coq_xO (Coq_xI (Coq_xI
      Coq_xH))))))) :: ((Npos (Coq_xO (Coq_xO (Coq_xI (Coq_xO (Coq_xI (Coq_xI
      Coq_xH))))))) :: ((Npos (Coq_xI (Coq_xO (Coq_xI (Coq_xO (Coq_xO (Coq_xI
      Coq_xH))))))) :: ((Npos (Coq_xO (Coq_xO (Coq_xI (Coq_xO (Coq_xO (Coq_xI
      Coq_xH))))))) :: ((Npos (Coq_xI (Coq_xO (Coq_xI (Coq_xI (Coq_xI (Coq_xO
      Coq_xH))))))) :: ((Npos (Coq_xO (Coq_xI (Coq_xO Coq_xH)))) :: ((Npos
      (Coq_xO (Coq_xO (Coq_xO (Coq_xO (Coq_xO Coq_xH)))))) :: ((Npos (Coq_xO
      (Coq_xO (Coq_xO (Coq_xO (Coq_xO Coq_xH)))))) :: ((Npos (Coq_xO (Coq_xO
      (Coq_xO (Coq_xO (Coq_xO Coq_xH)))))) :: ((Npos (Coq_xO (Coq_xO (Coq_xO
      (Coq_xO (Coq_xO Coq_xH)))))) :: ((Npos (Coq_xI (Coq_xI (Coq_xO (Coq_xO
      (Coq_xI (Coq_xO Coq_xH))))))) :: ((Npos (Coq_xI (Coq_xO (Coq_xO (Coq_xI
      (Coq_xI (Coq_xI Coq_xH))))))) :: ((Npos (Coq_xI (Coq_xI (Coq_xO (Coq_xO
      (Coq_xI (Coq_xI Coq_xH))))))) :: ((Npos (Coq_xO (Coq_xI (Coq_xI (Coq_xI
      (Coq_xO (Coq_xO Coq_xH))))))) :: ((Npos (Coq_xI (Coq_xO (Coq_xO (Coq_xO
      (Coq_xO (Coq_xI Coq_xH))))))) :: ((Npos (Coq_xI (Coq_xO (Coq_xI (Coq_xI
      (Coq_xO (Coq_xI Coq_xH))))))) :: ((Npos (Coq_xI (Coq_xO (Coq_xI (Coq_xO
      (Coq_xO (Coq_xI Coq_xH))))))) :: ((Npos (Coq_xO (Coq_xO (Coq_xO (Coq_xO
      (Coq_xO Coq_xH)))))) :: ((Npos (Coq_xO (Coq_xO (Coq_xO (Coq_xO (Coq_xO
      Coq_xH)))))) :: ((Npos (Coq_xO (Coq_xO (Coq_xO (Coq_xO (Coq_xO
      Coq_xH)))))) :: ((Npos (Coq_xO (Coq_xO (Coq_xO (Coq_xO (Coq_xO
      Coq_xH)))))) :: ((Npos (Coq_xO (Coq_xO (Coq_xO (Coq_xO (Coq_xO
      Coq_xH)))))) :: ((Npos (Coq_xO (Coq_xO (Coq_xO (Coq_xO (Coq_xO
      Coq_xH)))))) :: ((Npos (Coq_xO (Coq_xI (Coq_xO (Coq_xI (Coq_xI
      Coq_xH)))))) :: ((Npos (Coq_xO (Coq_xO (Coq_xO (Coq_xO (Coq_xO
      Coq_xH)))))) :: [])))))))))))))))))))))))))))))))))))))))))))))))))))))))))))))))))))))))))))))))))))))))))))))))))))))))) :: ((Fld
      (kf, (sys_name r))) :: ((Lit ((Npos (Coq_xO (Coq_xI (Coq_xO
      Coq_xH)))) :: ((Npos (Coq_xO (Coq_xO (Coq_xO (Coq_xO (Coq_xO
      Coq_xH)))))) :: ((Npos (Coq_xO (Coq_xO (Coq_xO (Coq_xO (Coq_xO
      Coq_xH)))))) :: ((Npos (Coq_xO (Coq_xO (Coq_xO (Coq_xO (Coq_xO
      Coq_xH)))))) :: ((Npos (Coq_xO (Coq_xO (Coq_xO (Coq_xO (Coq_xO
      Coq_xH)))))) :: ((Npos (Coq_xI (Coq_xI (Coq_xO (Coq_xO (Coq_xI (Coq_xO
      Coq_xH))))))) :: ((Npos (Coq_xI (Coq_xO (Coq_xO (Coq_xI (Coq_xI (Coq_xI
      Coq_xH))))))) :: ((Npos (Coq_xI (Coq_xI (Coq_xO (Coq_xO (Coq_xI (Coq_xI
      Coq_xH))))))) :: ((Npos (Coq_xO (Coq_xO (Coq_xI (Coq_xO (Coq_xO (Coq_xO
      Coq_xH))))))) :: ((Npos (Coq_xI (Coq_xO (Coq_xI (Coq_xO (Coq_xO (Coq_xI
      Coq_xH))))))) :: ((Npos (Coq_xI (Coq_xI (Coq_xO (Coq_xO (Coq_xI (Coq_xI
      Coq_xH))))))) :: ((Npos (Coq_xI (Coq_xI (Coq_xO (Coq_xO (Coq_xO (Coq_xI
      Coq_xH))))))) :: ((Npos (Coq_xO (Coq_xO (Coq_xO (Coq_xO (Coq_xO
      Coq_xH)))))) :: ((Npos (Coq_xO (Coq_xO (Coq_xO (Coq_xO (Coq_xO
      Coq_xH)))))) :: ((Npos (Coq_xO (Coq_xO (Coq_xO (Coq_xO (Coq_xO
      Coq_xH)))))) :: ((Npos (Coq_xO (Coq_xO (Coq_xO (Coq_xO (Coq_xO
      Coq_xH)))))) :: ((Npos (Coq_xO (Coq_xO (Coq_xO (Coq_xO (Coq_xO
      Coq_xH)))))) :: ((Npos (Coq_xO (Coq_xO (Coq_xO (Coq_xO (Coq_xO
      Coq_xH)))))) :: ((Npos (Coq_xO (Coq_xI (Coq_xO (Coq_xI (Coq_xI
      Coq_xH)))))) :: ((Npos (Coq_xO (Coq_xO (Coq_xO (Coq_xO (Coq_xO
      Coq_xH)))))) :: []))))))))))))))))))))) :: ((Fld (kf,
      (sys_desc r))) :: ((Lit ((Npos (Coq_xO (Coq_xI (Coq_xO
      Coq_xH)))) :: ((Npos (Coq_xO (Coq_xO (Coq_xO (Coq_xO (Coq_xO
      Coq_xH)))))) :: ((Npos (Coq_xO (Coq_xO (Coq_xO (Coq_xO (Coq_xO
      Coq_xH)))))) :: ((Npos (Coq_xO (Coq_xO (Coq_xO (Coq_xO (Coq_xO
      Coq_xH)))))) :: ((Npos (Coq_xO (Coq_xO (Coq_xO (Coq_xO (Coq_xO
      Coq_xH)))))) :: ((Npos (Coq_xI (Coq_xO (Coq_xI (Coq_xO (Coq_xO (Coq_xO
      Coq_xH))))))) :: ((Npos (Coq_xO (Coq_xO (Coq_xO (Coq_xI (Coq_xI (Coq_xI
      Coq_xH))))))) :: ((Npos (Coq_xO (Coq_xO (Coq_xI (Coq_xO (Coq_xI (Coq_xI
      Coq_xH))))))) :: ((Npos (Coq_xO (Coq_xI (Coq_xO (Coq_xO (Coq_xI (Coq_xI
      Coq_xH))))))) :: ((Npos (Coq_xI (Coq_xO (Coq_xO (Coq_xO (Coq_xO (Coq_xI
      Coq_xH))))))) :: ((Npos (Coq_xO (Coq_xO (Coq_xO (Coq_xO (Coq_xO
      Coq_xH)))))) :: ((Npos (Coq_xO (Coq_xO (Coq_xO (Coq_xO (Coq_xO
      Coq_xH)))))) :: ((Npos (Coq_xO (Coq_xO (Coq_xO (Coq_xO (Coq_xO
      Coq_xH)))))) :: ((Npos (Coq_xO (Coq_xO (Coq_xO (Coq_xO (Coq_xO
      Coq_xH)))))) :: ((Npos (Coq_xO (Coq_xO (Coq_xO (Coq_xO (Coq_xO
      Coq_xH)))))) :: ((Npos (Coq_xO (Coq_xO (Coq_xO (Coq_xO (Coq_xO
      Coq_xH)))))) :: ((Npos (Coq_xO (Coq_xO (Coq_xO (Coq_xO (Coq_xO
      Coq_xH)))))) :: ((Npos (Coq_xO (Coq_xO (Coq_xO (Coq_xO (Coq_xO
      Coq_xH)))))) :: ((Npos (Coq_xO (Coq_xI (Coq_xO (Coq_xI (Coq_xI
      Coq_xH)))))) :: ((Npos (Coq_xO (Coq_xO (Coq_xO (Coq_xO (Coq_xO
      Coq_xH)))))) :: []))))))))))))))))))))) :: ((Fld (kf,
      (sys_extra r))) :: ((Lit ((Npos (Coq_xO (Coq_xI (Coq_xO
      Coq_xH)))) :: ((Npos (Coq_xO (Coq_xO (Coq_xI (Coq_xO (Coq_xI (Coq_xO
      Coq_xH))))))) :: ((Npos (Coq_xI (Coq_xO (Coq_xO (Coq_xI (Coq_xO (Coq_xI
      Coq_xH))))))) :: ((Npos (Coq_xI (Coq_xO (Coq_xI (Coq_xI (Coq_xO (Coq_xI
      Coq_xH))))))) :: ((Npos (Coq_xI (Coq_xO (Coq_xI (Coq_xO (Coq_xO (Coq_xI
      Coq_xH))))))) :: ((Npos (Coq_xO (Coq_xI (Coq_xO (Coq_xO (Coq_xI (Coq_xI
      Coq_xH))))))) :: ((Npos (Coq_xI (Coq_xI (Coq_xO (Coq_xO (Coq_xI (Coq_xI
      Coq_xH))))))) :: ((Npos (Coq_xO (Coq_xI (Coq_xO (Coq_xI (Coq_xI
      Coq_xH)))))) :: ((Npos (Coq_xO (Coq_xI (Coq_xO Coq_xH)))) :: ((Npos
      (Coq_xO (Coq_xO (Coq_xO (Coq_xO (Coq_xO Coq_xH)))))) :: ((Npos (Coq_xO
      (Coq_xO (Coq_xO (Coq_xO (Coq_xO Coq_xH)))))) :: ((Npos (Coq_xO (Coq_xO
      (Coq_xO (Coq_xO (Coq_xO Coq_xH)))))) :: ((Npos (Coq_xO (Coq_xO (Coq_xO
      (Coq_xO (Coq_xO Coq_xH)))))) :: ((Npos (Coq_xI (Coq_xI (Coq_xO (Coq_xO
      (Coq_xO (Coq_xO Coq_xH))))))) :: ((Npos (Coq_xI (Coq_xI (Coq_xI (Coq_xI
      (Coq_xO (Coq_xI Coq_xH))))))) :: ((Npos (Coq_xO (Coq_xI (Coq_xI (Coq_xI
      (Coq_xO (Coq_xI Coq_xH))))))) :: ((Npos (Coq_xO (Coq_xI (Coq_xI (Coq_xI
      (Coq_xO (Coq_xI Coq_xH))))))) :: ((Npos (Coq_xI (Coq_xO (Coq_xI (Coq_xO
      (Coq_xO (Coq_xI Coq_xH))))))) :: ((Npos (Coq_xI (Coq_xI (Coq_xO (Coq_xO
      (Coq_xO (Coq_xI Coq_xH))))))) :: ((Npos (Coq_xO (Coq_xO (Coq_xI (Coq_xO
      (Coq_xI (Coq_xI Coq_xH))))))) :: ((Npos (Coq_xI (Coq_xO (Coq_xI (Coq_xO
      (Coq_xO (Coq_xI Coq_xH))))))) :: ((Npos (Coq_xO (Coq_xO (Coq_xI (Coq_xO
      (Coq_xO (Coq_xI Coq_xH))))))) :: ((Npos (Coq_xO (Coq_xO (Coq_xO (Coq_xO
      (Coq_xO Coq_xH)))))) :: ((Npos (Coq_xI (Coq_xO (Coq_xO (Coq_xO (Coq_xO
      (Coq_xI Coq_xH))))))) :: ((Npos (Coq_xO (Coq_xO (Coq_xI (Coq_xO (Coq_xI
      (Coq_xI Coq_xH))))))) :: ((Npos (Coq_xO (Coq_xO (Coq_xO (Coq_xO (Coq_xO
      Coq_xH)))))) :: ((Npos (Coq_xO (Coq_xI (Coq_xO (Coq_xI (Coq_xI
      Coq_xH)))))) :: ((Npos (Coq_xO (Coq_xO (Coq_xO (Coq_xO (Coq_xO
      Coq_xH)))))) :: ((Npos (Coq_xO (Coq_xO (Coq_xI (Coq_xO (Coq_xI (Coq_xO
      Coq_xH))))))) :: ((Npos (Coq_xO (Coq_xI (Coq_xO Coq_xH)))) :: ((Npos
      (Coq_xO (Coq_xO (Coq_xO (Coq_xO (Coq_xO Coq_xH)))))) :: ((Npos (Coq_xO
      (Coq_xO (Coq_xO (Coq_xO (Coq_xO Coq_xH)))))) :: ((Npos (Coq_xO (Coq_xO
      (Coq_xO (Coq_xO (Coq_xO Coq_xH)))))) :: ((Npos (Coq_xO (Coq_xO (Coq_xO
      (Coq_xO (Coq_xO Coq_xH)))))) :: ((Npos (Coq_xO (Coq_xO (Coq_xI (Coq_xI
      (Coq_xO (Coq_xO Coq_xH))))))) :: ((Npos (Coq_xI (Coq_xO (Coq_xO (Coq_xO
      (Coq_xO (Coq_xI Coq_xH))))))) :: ((Npos (Coq_xI (Coq_xI (Coq_xO (Coq_xO
      (Coq_xI (Coq_xI Coq_xH))))))) :: ((Npos (Coq_xO (Coq_xO (Coq_xI (Coq_xO
      (Coq_xI (Coq_xI Coq_xH))))))) :: ((Npos (Coq_xO (Coq_xO (Coq_xO (Coq_xO
      (Coq_xO Coq_xH)))))) :: ((Npos (Coq_xI (Coq_xO (Coq_xI (Coq_xI (Coq_xO
      (Coq_xI Coq_xH))))))) :: ((Npos (Coq_xI (Coq_xO (Coq_xI (Coq_xO (Coq_xO
      (Coq_xI Coq_xH))))))) :: ((Npos (Coq_xI (Coq_xI (Coq_xO (Coq_xO (Coq_xI
      (Coq_xI Coq_xH))))))) :: ((Npos (Coq_xI (Coq_xI (Coq_xO (Coq_xO (Coq_xI
      (Coq_xI Coq_xH))))))) :: ((Npos (Coq_xI (Coq_xO (Coq_xO (Coq_xO (Coq_xO
      (Coq_xI Coq_xH))))))) :: ((Npos (Coq_xI (Coq_xI (Coq_xI (Coq_xO (Coq_xO
      (Coq_xI Coq_xH))))))) :: ((Npos (Coq_xI (Coq_xO (Coq_xI (Coq_xO (Coq_xO
      (Coq_xI Coq_xH))))))) :: ((Npos (Coq_xO (Coq_xO (Coq_xO (Coq_xO (Coq_xO
      Coq_xH)))))) :: ((Npos (Coq_xO (Coq_xI (Coq_xO (Coq_xI (Coq_xI
      Coq_xH)))))) :: ((Npos (Coq_xO (Coq_xO (Coq_xO (Coq_xO (Coq_xO
      Coq_xH)))))) :: ((Npos (Coq_xO (Coq_xO (Coq_xI (Coq_xO (Coq_xI (Coq_xO
      Coq_xH))))))) :: ((Npos (Coq_xO (Coq_xI (Coq_xO Coq_xH)))) :: ((Npos
      (Coq_xI (Coq_xI (Coq_xO (Coq_xO (Coq_xO (Coq_xO Coq_xH))))))) :: ((Npos
      (Coq_xI (Coq_xI (Coq_xI (Coq_xI (Coq_xO (Coq_xI Coq_xH))))))) :: ((Npos
      (Coq_xI (Coq_xO (Coq_xI (Coq_xO (Coq_xI (Coq_xI Coq_xH))))))) :: ((Npos
      (Coq_xO (Coq_xI (Coq_xI (Coq_xI (Coq_xO (Coq_xI Coq_xH))))))) :: ((Npos
      (Coq_xO (Coq_xO (Coq_xI (Coq_xO (Coq_xI (Coq_xI Coq_xH))))))) :: ((Npos
      (Coq_xI (Coq_xO (Coq_xI (Coq_xO (Coq_xO (Coq_xI Coq_xH))))))) :: ((Npos
      (Coq_xO (Coq_xI (Coq_xO (Coq_xO (Coq_xI (Coq_xI Coq_xH))))))) :: ((Npos
      (Coq_xI (Coq_xI (Coq_xO (Coq_xO (Coq_xI (Coq_xI Coq_xH))))))) :: ((Npos
      (Coq_xO (Coq_xI (Coq_xO (Coq_xI (Coq_xI Coq_xH)))))) :: ((Npos (Coq_xO
      (Coq_xI (Coq_xO Coq_xH)))) :: ((Npos (Coq_xO (Coq_xO (Coq_xO (Coq_xO
      (Coq_xO Coq_xH)))))) :: ((Npos (Coq_xO (Coq_xO (Coq_xO (Coq_xO (Coq_xO
      Coq_xH)))))) :: ((Npos (Coq_xO (Coq_xO (Coq_xO (Coq_xO (Coq_xO
      Coq_xH)))))) :: ((Npos (Coq_xO (Coq_xO (Coq_xO (Coq_xO (Coq_xO
      Coq_xH)))))) :: ((Npos (Coq_xO (Coq_xO (Coq_xO (Coq_xO (Coq_xI (Coq_xO
      Coq_xH))))))) :: ((Npos (Coq_xO (Coq_xI (Coq_xO (Coq_xO (Coq_xI (Coq_xI
      Coq_xH))))))) :: ((Npos (Coq_xI (Coq_xI (Coq_xI (Coq_xI (Coq_xO (Coq_xI
      Coq_xH))))))) :: ((Npos (Coq_xO (Coq_xI (Coq_xO (Coq_xO (Coq_xO (Coq_xI
      Coq_xH))))))) :: ((Npos (Coq_xO (Coq_xO (Coq_xI (Coq_xI (Coq_xO (Coq_xI
      Coq_xH))))))) :: ((Npos (Coq_xI (Coq_xO (Coq_xI (Coq_xO (Coq_xO (Coq_xI
      Coq_xH))))))) :: ((Npos (Coq_xI (Coq_xO (Coq_xI (Coq_xI (Coq_xO (Coq_xI
      Coq_xH))))))) :: ((Npos (Coq_xO (Coq_xO (Coq_xO (Coq_xO (Coq_xO
      Coq_xH)))))) :: ((Npos (Coq_xI (Coq_xO (Coq_xI (Coq_xI (Coq_xO (Coq_xO
      Coq_xH))))))) :: ((Npos (Coq_xI (Coq_xI (Coq_xO (Coq_xO (Coq_xI (Coq_xI
      Coq_xH))))))) :: ((Npos (Coq_xI (Coq_xI (Coq_xI (Coq_xO (Coq_xO (Coq_xI
      Coq_xH))))))) :: ((Npos (Coq_xI (Coq_xI (Coq_xO (Coq_xO (Coq_xI (Coq_xI
      Coq_xH))))))) :: ((Npos (Coq_xO (Coq_xO (Coq_xO (Coq_xO (Coq_xO
      Coq_xH)))))) :: ((Npos (Coq_xO (Coq_xI (Coq_xO (Coq_xI (Coq_xI
      Coq_xH)))))) :: ((Npos (Coq_xO (Coq_xO (Coq_xO (Coq_xO (Coq_xO
      Coq_xH)))))) :: ((Npos (Coq_xO (Coq_xO (Coq_xO (Coq_xO (Coq_xI
      Coq_xH)))))) :: ((Npos (Coq_xO (Coq_xO (Coq_xO (Coq_xO (Coq_xO
      Coq_xH)))))) :: ((Npos (Coq_xI (Coq_xO (Coq_xO (Coq_xI (Coq_xO (Coq_xI
      Coq_xH))))))) :: ((Npos (Coq_xI (Coq_xI (Coq_xO (Coq_xO (Coq_xI (Coq_xI
      Coq_xH))))))) :: ((Npos (Coq_xI (Coq_xI (Coq_xO (Coq_xO (Coq_xI (Coq_xI
      Coq_xH))))))) :: ((Npos (Coq_xI (Coq_xO (Coq_xI (Coq_xO (Coq_xI (Coq_xI
      Coq_xH))))))) :: ((Npos (Coq_xI (Coq_xO (Coq_xI (Coq_xO (Coq_xO (Coq_xI
      Coq_xH))))))) :: ((Npos (Coq_xI (Coq_xI (Coq_xO (Coq_xO (Coq_xI (Coq_xI
      Coq_xH))))))) :: ((Npos (Coq_xO (Coq_xO (Coq_xO (Coq_xO (Coq_xO
      Coq_xH)))))) :: ((Npos (Coq_xO (Coq_xO (Coq_xO (Coq_xI (Coq_xO
      Coq_xH)))))) :: ((Npos (Coq_xI (Coq_xO (Coq_xI (Coq_xO (Coq_xO (Coq_xI
      Coq_xH))))))) :: ((Npos (Coq_xO (Coq_xI (Coq_xI (Coq_xI (Coq_xO
      Coq_xH)))))) :: ((Npos (Coq_xI (Coq_xI (Coq_xI (Coq_xO (Coq_xO (Coq_xI
      Coq_xH))))))) :: ((Npos (Coq_xO (Coq_xI (Coq_xI (Coq_xI (Coq_xO
      Coq_xH)))))) :: ((Npos (Coq_xO (Coq_xO (Coq_xO (Coq_xO (Coq_xO
      Coq_xH)))))) :: ((Npos (Coq_xO (Coq_xI (Coq_xO (Coq_xO (Coq_xI (Coq_xO
      Coq_xH))))))) :: ((Npos (Coq_xO (Coq_xI (Coq_xI (Coq_xO (Coq_xO (Coq_xO
      Coq_xH))))))) :: ((Npos (Coq_xI (Coq_xI (Coq_xO (Coq_xO (Coq_xO (Coq_xO
      Coq_xH))))))) :: ((Npos (Coq_xO (Coq_xO (Coq_xO (Coq_xO (Coq_xO
      Coq_xH)))))) :: ((Npos (Coq_xO (Coq_xI (Coq_xI (Coq_xO (Coq_xI (Coq_xI
      Coq_xH))))))) :: ((Npos (Coq_xI (Coq_xO (Coq_xO (Coq_xI (Coq_xO (Coq_xI
      Coq_xH))))))) :: ((Npos (Coq_xI (Coq_xI (Coq_xI (Coq_xI (Coq_xO (Coq_xI
      Coq_xH))))))) :: ((Npos (Coq_xO (Coq_xO (Coq_xI (Coq_xI (Coq_xO (Coq_xI
      Coq_xH))))))) :: ((Npos (Coq_xI (Coq_xO (Coq_xO (Coq_xO (Coq_xO (Coq_xI
      Coq_xH))))))) :: ((Npos (Coq_xO (Coq_xO (Coq_xI (Coq_xO (Coq_xI (Coq_xI
      Coq_xH))))))) :: ((Npos (Coq_xI (Coq_xO (Coq_xO (Coq_xI (Coq_xO (Coq_xI
      Coq_xH))))))) :: ((Npos (Coq_xI (Coq_xI (Coq_xI (Coq_xI (Coq_xO (Coq_xI
      Coq_xH))))))) :: ((Npos (Coq_xO (Coq_xI (Coq_xI (Coq_xI (Coq_xO (Coq_xI
      Coq_xH))))))) :: ((Npos (Coq_xO (Coq_xO (Coq_xI (Coq_xI (Coq_xO
      Coq_xH)))))) :: ((Npos (Coq_xO (Coq_xO (Coq_xO (Coq_xO (Coq_xO
      Coq_xH)))))) :: ((Npos (Coq_xO (Coq_xO (Coq_xO (Coq_xO (Coq_xI (Coq_xI
      Coq_xH))))))) :: ((Npos (Coq_xI (Coq_xO (Coq_xO (Coq_xO (Coq_xO (Coq_xI
      Coq_xH))))))) :: ((Npos (Coq_xO (Coq_xI (Coq_xO (Coq_xO (Coq_xI (Coq_xI
      Coq_xH))))))) :: ((Npos (Coq_xI (Coq_xI (Coq_xO (Coq_xO (Coq_xI (Coq_xI
      Coq_xH))))))) :: ((Npos (Coq_xI (Coq_xO (Coq_xO (Coq_xI (Coq_xO (Coq_xI
      Coq_xH))))))) :: ((Npos (Coq_xO (Coq_xI (Coq_xI (Coq_xI (Coq_xO (Coq_xI
      Coq_xH))))))) :: ((Npos (Coq_xI (Coq_xI (Coq_xI (Coq_xO (Coq_xO (Coq_xI
      Coq_xH))))))) :: ((Npos (Coq_xO (Coq_xO (Coq_xO (Coq_xO (Coq_xO
      Coq_xH)))))) :: ((Npos (Coq_xO (Coq_xI (Coq_xO (Coq_xO (Coq_xI (Coq_xI
      Coq_xH))))))) :: ((Npos (Coq_xI (Coq_xO (Coq_xI (Coq_xO (Coq_xO (Coq_xI
      Coq_xH))))))) :: ((Npos (Coq_xO (Coq_xO (Coq_xI (Coq_xO (Coq_xI (Coq_xI
      Coq_xH))))))) :: ((Npos (Coq_xO (Coq_xI (Coq_xO (Coq_xO (Coq_xI (Coq_xI
      Coq_xH))))))) :: ((Npos (Coq_xI (Coq_xO (Coq_xO (Coq_xI (Coq_xO (Coq_xI
      Coq_xH))))))) :: ((Npos (Coq_xI (Coq_xO (Coq_xI (Coq_xO (Coq_xO (Coq_xI
      Coq_xH))))))) :: ((Npos (Coq_xO (Coq_xO (Coq_xI (Coq_xO (Coq_xO (Coq_xI
      Coq_xH))))))) :: ((Npos (Coq_xI (Coq_xI (Coq_xI (Coq_xI (Coq_xO
      Coq_xH)))))) :: ((Npos (Coq_xO (Coq_xI (Coq_xI (Coq_xO (Coq_xO (Coq_xI
      Coq_xH))))))) :: ((Npos (Coq_xI (Coq_xO (Coq_xO (Coq_xO (Coq_xO (Coq_xI
      Coq_xH))))))) :: ((Npos (Coq_xI (Coq_xO (Coq_xO (Coq_xI (Coq_xO (Coq_xI
      Coq_xH))))))) :: ((Npos (Coq_xO (Coq_xO (Coq_xI (Coq_xI (Coq_xO (Coq_xI
      Coq_xH))))))) :: ((Npos (Coq_xI (Coq_xO (Coq_xI (Coq_xO (Coq_xO (Coq_xI
      Coq_xH))))))) :: ((Npos (Coq_xO (Coq_xO (Coq_xI (Coq_xO (Coq_xO (Coq_xI
      Coq_xH))))))) :: ((Npos (Coq_xO (Coq_xO (Coq_xI (Coq_xI (Coq_xO
      Coq_xH)))))) :: ((Npos (Coq_xO (Coq_xO (Coq_xO (Coq_xO (Coq_xO
      Coq_xH)))))) :: ((Npos (Coq_xI (Coq_xO (Coq_xI (Coq_xO (Coq_xO (Coq_xI
      Coq_xH))))))) :: ((Npos (Coq_xO (Coq_xO (Coq_xI (Coq_xO (Coq_xI (Coq_xI
      Coq_xH))))))) :: ((Npos (Coq_xI (Coq_xI (Coq_xO (Coq_xO (Coq_xO (Coq_xI
      Coq_xH))))))) :: ((Npos (Coq_xI (Coq_xO (Coq_xO (Coq_xI (Coq_xO
      Coq_xH)))))) :: ((Npos (Coq_xO (Coq_xI (Coq_xO Coq_xH)))) :: ((Npos
      (Coq_xO (Coq_xO (Coq_xO (Coq_xO (Coq_xO Coq_xH)))))) :: ((Npos (Coq_xO
      (Coq_xO (Coq_xO (Coq_xO (Coq_xO Coq_xH)))))) :: ((Npos (Coq_xO (Coq_xO
      (Coq_xO (Coq_xO (Coq_xO Coq_xH)))))) :: ((Npos (Coq_xO (Coq_xO (Coq_xO
      (Coq_xO (Coq_xO Coq_xH)))))) :: ((Npos (Coq_xO (Coq_xI (Coq_xO (Coq_xO
      (Coq_xO (Coq_xO Coq_xH))))))) :: ((Npos (Coq_xI (Coq_xI (Coq_xI (Coq_xO
      (Coq_xO (Coq_xO Coq_xH))))))) :: ((Npos (Coq_xO (Coq_xO (Coq_xO (Coq_xO
      (Coq_xI (Coq_xO Coq_xH))))))) :: ((Npos (Coq_xO (Coq_xO (Coq_xO (Coq_xO
      (Coq_xO Coq_xH)))))) :: ((Npos (Coq_xI (Coq_xO (Coq_xI (Coq_xO (Coq_xI
      (Coq_xO Coq_xH))))))) :: ((Npos (Coq_xO (Coq_xO (Coq_xO (Coq_xO (Coq_xI
      (Coq_xO Coq_xH))))))) :: ((Npos (Coq_xO (Coq_xO (Coq_xI (Coq_xO (Coq_xO
      (Coq_xO Coq_xH))))))) :: ((Npos (Coq_xI (Coq_xO (Coq_xO (Coq_xO (Coq_xO
      (Coq_xO Coq_xH))))))) :: ((Npos (Coq_xO (Coq_xO (Coq_xI (Coq_xO (Coq_xI
      (Coq_xO Coq_xH))))))) :: ((Npos (Coq_xI (Coq_xO (Coq_xI (Coq_xO (Coq_xO
      (Coq_xO Coq_xH))))))) :: ((Npos (Coq_xI (Coq_xI (Coq_xO (Coq_xO (Coq_xI
      (Coq_xI Coq_xH))))))) :: ((Npos (Coq_xO (Coq_xI (Coq_xO (Coq_xI (Coq_xI
      Coq_xH)))))) :: ((Npos (Coq_xO (Coq_xI (Coq_xO Coq_xH)))) :: ((Npos
      (Coq_xO (Coq_xO (Coq_xO (Coq_xO (Coq_xO Coq_xH)))))) :: ((Npos (Coq_xO
      (Coq_xO (Coq_xO (Coq_xO (Coq_xO Coq_xH)))))) :: ((Npos (Coq_xO (Coq_xO
      (Coq_xO (Coq_xO (Coq_xO Coq_xH)))))) :: ((Npos (Coq_xO (Coq_xO (Coq_xO
      (Coq_xO (Coq_xO Coq_xH)))))) :: ((Npos (Coq_xO (Coq_xO (Coq_xO (Coq_xO
      (Coq_xO Coq_xH)))))) :: ((Npos (Coq_xO (Coq_xO (Coq_xO (Coq_xO (Coq_xO
      Coq_xH)))))) :: ((Npos (Coq_xO (Coq_xO (Coq_xO (Coq_xO (Coq_xO
      Coq_xH)))))) :: ((Npos (Coq_xO (Coq_xO (Coq_xO (Coq_xO (Coq_xO
      Coq_xH)))))) :: ((Npos (Coq_xI (Coq_xI (Coq_xO (Coq_xO (Coq_xI (Coq_xO
      Coq_xH))))))) :: ((Npos (Coq_xI (Coq_xI (Coq_xI (Coq_xI (Coq_xO (Coq_xI
      Coq_xH))))))) :: ((Npos (Coq_xO (Coq_xI (Coq_xI (Coq_xO (Coq_xO (Coq_xI
      Coq_xH))))))) :: ((Npos (Coq_xO (Coq_xO (Coq_xI (Coq_xO (Coq_xI (Coq_xI
      Coq_xH))))))) :: ((Npos (Coq_xO (Coq_xO (Coq_xO (Coq_xO (Coq_xO
      Coq_xH)))))) :: ((Npos (Coq_xO (Coq_xI (Coq_xI (Coq_xO (Coq_xO (Coq_xO
      Coq_xH))))))) :: ((Npos (Coq_xI (Coq_xO (Coq_xO (Coq_xO (Coq_xO (Coq_xI
      Coq_xH))))))) :: ((Npos (Coq_xI (Coq_xO (Coq_xO (Coq_xI (Coq_xO (Coq_xI
      Coq_xH))))))) :: ((Npos (Coq_xO (Coq_xO (Coq_xI (Coq_xI (Coq_xO (Coq_xI
      Coq_xH))))))) :: ((Npos (Coq_xO (Coq_xI (Coq_xO (Coq_xI (Coq_xI
      Coq_xH)))))) :: ((Npos (Coq_xO (Coq_xO (Coq_xO (Coq_xO (Coq_xO
      Coq_xH)))))) :: [])))))))))))))))))))))))))))))))))))))))))))))))))))))))))))))))))))))))))))))))))))))))))))))))))))))))))))))))))))))))))))))))))))))))))))))))))))))))))))))))))))))))))))))))) :: ((Num
      (count_soft r)) :: ((Lit ((Npos (Coq_xO (Coq_xI (Coq_xO
      Coq_xH)))) :: ((Npos (Coq_xO (Coq_xO (Coq_xO (Coq_xO (Coq_xO
      Coq_xH)))))) :: ((Npos (Coq_xO (Coq_xO (Coq_xO (Coq_xO (Coq_xO
      Coq_xH)))))) :: ((Npos (Coq_xO (Coq_xO (Coq_xO (Coq_xO (Coq_xO
      Coq_xH)))))) :: ((Npos (Coq_xO (Coq_xO (Coq_xO (Coq_xO (Coq_xO
      Coq_xH)))))) :: ((Npos (Coq_xO (Coq_xO (Coq_xO (Coq_xO (Coq_xO
      Coq_xH)))))) :: ((Npos (Coq_xO (Coq_xO (Coq_xO (Coq_xO (Coq_xO
      Coq_xH)))))) :: ((Npos (Coq_xO (Coq_xO (Coq_xO (Coq_xO (Coq_xO
      Coq_xH)))))) :: ((Npos (Coq_xO (Coq_xO (Coq_xO (Coq_xO (Coq_xO
      Coq_xH)))))) :: ((Npos (Coq_xO (Coq_xO (Coq_xO (Coq_xI (Coq_xO (Coq_xO
      Coq_xH))))))) :: ((Npos (Coq_xI (Coq_xO (Coq_xO (Coq_xO (Coq_xO (Coq_xI
      Coq_xH))))))) :: ((Npos (Coq_xO (Coq_xI (Coq_xO (Coq_xO (Coq_xI (Coq_xI
      Coq_xH))))))) :: ((Npos (Coq_xO (Coq_xO (Coq_xI (Coq_xO (Coq_xO (Coq_xI
      Coq_xH))))))) :: ((Npos (Coq_xO (Coq_xO (Coq_xO (Coq_xO (Coq_xO
      Coq_xH)))))) :: ((Npos (Coq_xO (Coq_xI (Coq_xI (Coq_xO (Coq_xO (Coq_xO
      Coq_xH))))))) :: ((Npos (Coq_xI (Coq_xO (Coq_xO (Coq_xO (Coq_xO (Coq_xI
      Coq_xH))))))) :: ((Npos (Coq_xI (Coq_xO (Coq_xO (Coq_xI (Coq_xO (Coq_xI
      Coq_xH))))))) :: ((Npos (Coq_xO (Coq_xO (Coq_xI (Coq_xI (Coq_xO (Coq_xI
      Coq_xH))))))) :: ((Npos (Coq_xO (Coq_xI (Coq_xO (Coq_xI (Coq_xI
      Coq_xH)))))) :: ((Npos (Coq_xO (Coq_xO (Coq_xO (Coq_xO (Coq_xO
      Coq_xH)))))) :: []))))))))))))))))))))) :: ((Num
      (count_hard r)) :: ((Lit ((Npos (Coq_xO (Coq_xI (Coq_xO
      Coq_xH)))) :: ((Npos (Coq_xO (Coq_xO (Coq_xO (Coq_xO (Coq_xO
      Coq_xH)))))) :: ((Npos (Coq_xO (Coq_xO (Coq_xO (Coq_xO (Coq_xO
      Coq_xH)))))) :: ((Npos (Coq_xO (Coq_xO (Coq_xO (Coq_xO (Coq_xO
      Coq_xH)))))) :: ((Npos (Coq_xO (Coq_xO (Coq_xO (Coq_xO (Coq_xO
      Coq_xH)))))) :: ((Npos (Coq_xI (Coq_xO (Coq_xO (Coq_xO (Coq_xO (Coq_xO
      Coq_xH))))))) :: ((Npos (Coq_xO (Coq_xI (Coq_xI (Coq_xI (Coq_xO (Coq_xI
      Coq_xH))))))) :: ((Npos (Coq_xO (Coq_xI (Coq_xI (Coq_xI (Coq_xO (Coq_xI
      Coq_xH))))))) :: ((Npos (Coq_xI (Coq_xI (Coq_xI (Coq_xI (Coq_xO (Coq_xI
      Coq_xH))))))) :: ((Npos (Coq_xI (Coq_xO (Coq_xI (Coq_xO (Coq_xI (Coq_xI
      Coq_xH))))))) :: ((Npos (Coq_xO (Coq_xI (Coq_xI (Coq_xI (Coq_xO (Coq_xI
      Coq_xH))))))) :: ((Npos (Coq_xI (Coq_xI (Coq_xO (Coq_xO (Coq_xO (Coq_xI
      Coq_xH))))))) :: ((Npos (Coq_xI (Coq_xO (Coq_xI (Coq_xO (Coq_xO (Coq_xI
      Coq_xH))))))) :: ((Npos (Coq_xO (Coq_xO (Coq_xO (Coq_xO (Coq_xO
      Coq_xH)))))) :: ((Npos (Coq_xO (Coq_xO (Coq_xO (Coq_xO (Coq_xO
      Coq_xH)))))) :: ((Npos (Coq_xO (Coq_xO (Coq_xO (Coq_xO (Coq_xO
      Coq_xH)))))) :: ((Npos (Coq_xO (Coq_xO (Coq_xO (Coq_xO (Coq_xO
      Coq_xH)))))) :: ((Npos (Coq_xO (Coq_xO (Coq_xO (Coq_xO (Coq_xO
      Coq_xH)))))) :: ((Npos (Coq_xO (Coq_xI (Coq_xO (Coq_xI (Coq_xI
      Coq_xH)))))) :: ((Npos (Coq_xO (Coq_xO (Coq_xO (Coq_xO (Coq_xO
      Coq_xH)))))) :: ((Npos (Coq_xO (Coq_xO (Coq_xO (Coq_xO (Coq_xI
      Coq_xH)))))) :: ((Npos (Coq_xO (Coq_xI (Coq_xO Coq_xH)))) :: ((Npos
      (Coq_xO (Coq_xO (Coq_xO (Coq_xO (Coq_xO Coq_xH)))))) :: ((Npos (Coq_xO
      (Coq_xO (Coq_xO (Coq_xO (Coq_xO Coq_xH)))))) :: ((Npos (Coq_xO (Coq_xO
      (Coq_xO (Coq_xO (Coq_xO Coq_xH)))))) :: ((Npos (Coq_xO (Coq_xO (Coq_xO
      (Coq_xO (Coq_xO Coq_xH)))))) :: ((Npos (Coq_xI (Coq_xI (Coq_xI (Coq_xO
      (Coq_xI (Coq_xO Coq_xH))))))) :: ((Npos (Coq_xI (Coq_xO (Coq_xO (Coq_xI
      (Coq_xO (Coq_xI Coq_xH))))))) :: ((Npos (Coq_xO (Coq_xO (Coq_xI (Coq_xO
      (Coq_xI (Coq_xI Coq_xH))))))) :: ((Npos (Coq_xO (Coq_xO (Coq_xO (Coq_xI
      (Coq_xO (Coq_xI Coq_xH))))))) :: ((Npos (Coq_xO (Coq_xO (Coq_xI (Coq_xO
      (Coq_xO (Coq_xI Coq_xH))))))) :: ((Npos (Coq_xO (Coq_xI (Coq_xO (Coq_xO
      (Coq_xI (Coq_xI Coq_xH))))))) :: ((Npos (Coq_xI (Coq_xO (Coq_xO (Coq_xO
      (Coq_xO (Coq_xI Coq_xH))))))) :: ((Npos (Coq_xI (Coq_xI (Coq_xI (Coq_xO
      (Coq_xI (Coq_xI Coq_xH))))))) :: ((Npos (Coq_xO (Coq_xO (Coq_xO (Coq_xO
      (Coq_xO Coq_xH)))))) :: ((Npos (Coq_xO (Coq_xO (Coq_xO (Coq_xO (Coq_xO
      Coq_xH)))))) :: ((Npos (Coq_xO (Coq_xO (Coq_xO (Coq_xO (Coq_xO
      Coq_xH)))))) :: ((Npos (Coq_xO (Coq_xO (Coq_xO (Coq_xO (Coq_xO
      Coq_xH)))))) :: ((Npos (Coq_xO (Coq_xO (Coq_xO (Coq_xO (Coq_xO
      Coq_xH)))))) :: ((Npos (Coq_xO (Coq_xI (Coq_xO (Coq_xI (Coq_xI
      Coq_xH)))))) :: ((Npos (Coq_xO (Coq_xO (Coq_xO (Coq_xO (Coq_xO
      Coq_xH)))))) :: ((Npos (Coq_xO (Coq_xO (Coq_xO (Coq_xO (Coq_xI
      Coq_xH)))))) :: ((Npos (Coq_xO (Coq_xI (Coq_xO Coq_xH)))) :: ((Npos
      (Coq_xO (Coq_xO (Coq_xO (Coq_xO (Coq_xO Coq_xH)))))) :: ((Npos (Coq_xO
      (Coq_xO (Coq_xO (Coq_xO (Coq_xO Coq_xH)))))) :: ((Npos (Coq_xO (Coq_xO
      (Coq_xO (Coq_xO (Coq_xO Coq_xH)))))) :: ((Npos (Coq_xO (Coq_xO (Coq_xO
      (Coq_xO (Coq_xO Coq_xH)))))) :: ((Npos (Coq_xO (Coq_xO (Coq_xO (Coq_xO
      (Coq_xI (Coq_xO Coq_xH))))))) :: ((Npos (Coq_xI (Coq_xO (Coq_xI (Coq_xO
      (Coq_xO (Coq_xI Coq_xH))))))) :: ((Npos (Coq_xI (Coq_xO (Coq_xI (Coq_xO
      (Coq_xO (Coq_xI Coq_xH))))))) :: ((Npos (Coq_xO (Coq_xI (Coq_xO (Coq_xO
      (Coq_xI (Coq_xI Coq_xH))))))) :: ((Npos (Coq_xI (Coq_xI (Coq_xO (Coq_xO
      (Coq_xI (Coq_xI Coq_xH))))))) :: ((Npos (Coq_xO (Coq_xO (Coq_xO (Coq_xO
      (Coq_xO Coq_xH)))))) :: ((Npos (Coq_xI (Coq_xO (Coq_xI (Coq_xO (Coq_xI
      (Coq_xO Coq_xH))))))) :: ((Npos (Coq_xO (Coq_xO (Coq_xO (Coq_xO (Coq_xI
      (Coq_xI Coq_xH))))))) :: ((Npos (Coq_xO (Coq_xO (Coq_xO (Coq_xO (Coq_xO
      Coq_xH)))))) :: ((Npos (Coq_xO (Coq_xO (Coq_xO (Coq_xO (Coq_xO
      Coq_xH)))))) :: ((Npos (Coq_xO (Coq_xO (Coq_xO (Coq_xO (Coq_xO
      Coq_xH)))))) :: ((Npos (Coq_xO (Coq_xO (Coq_xO (Coq_xO (Coq_xO
      Coq_xH)))))) :: ((Npos (Coq_xO (Coq_xO (Coq_xO (Coq_xO (Coq_xO
      Coq_xH)))))) :: ((Npos (Coq_xO (Coq_xI (Coq_xO (Coq_xI (Coq_xI
      Coq_xH)))))) :: ((Npos (Coq_xO (Coq_xO (Coq_xO (Coq_xO (Coq_xO
      Coq_xH)))))) :: []))))))))))))))))))))))))))))))))))))))))))))))))))))))))))))))) :: ((Num
      (count_peers r)) :: ((Lit ((Npos (Coq_xO (Coq_xI (Coq_xO
      Coq_xH)))) :: ((Npos (Coq_xO (Coq_xO (Coq_xO (Coq_xO (Coq_xO
      Coq_xH)))))) :: ((Npos (Coq_xO (Coq_xO (Coq_xO (Coq_xO (Coq_xO
      Coq_xH)))))) :: ((Npos (Coq_xO (Coq_xO (Coq_xO (Coq_xO (Coq_xO
      Coq_xH)))))) :: ((Npos (Coq_xO (Coq_xO (Coq_xO (Coq_xO (Coq_xO
      Coq_xH)))))) :: ((Npos (Coq_xI (Coq_xO (Coq_xI (Coq_xO (Coq_xO (Coq_xO
      Coq_xH))))))) :: ((Npos (Coq_xI (Coq_xI (Coq_xI (Coq_xI (Coq_xO (Coq_xI
      Coq_xH))))))) :: ((Npos (Coq_xO (Coq_xI (Coq_xO (Coq_xO (Coq_xI (Coq_xO
      Coq_xH))))))) :: ((Npos (Coq_xO (Coq_xO (Coq_xO (Coq_xO (Coq_xO
      Coq_xH)))))) :: ((Npos (Coq_xI (Coq_xI (Coq_xO (Coq_xO (Coq_xO (Coq_xO
      Coq_xH))))))) :: ((Npos (Coq_xI (Coq_xO (Coq_xO (Coq_xO (Coq_xO (Coq_xI
      Coq_xH))))))) :: ((Npos (Coq_xO (Coq_xO (Coq_xO (Coq_xO (Coq_xI (Coq_xI
      Coq_xH))))))) :: ((Npos (Coq_xI (Coq_xO (Coq_xO (Coq_xO (Coq_xO (Coq_xI
      Coq_xH))))))) :: ((Npos (Coq_xO (Coq_xI (Coq_xO (Coq_xO (Coq_xO (Coq_xI
      Coq_xH))))))) :: ((Npos (Coq_xO (Coq_xO (Coq_xI (Coq_xI (Coq_xO (Coq_xI
      Coq_xH))))))) :: ((Npos (Coq_xI (Coq_xO (Coq_xI (Coq_xO (Coq_xO (Coq_xI
      Coq_xH))))))) :: ((Npos (Coq_xO (Coq_xO (Coq_xO (Coq_xO (Coq_xO
      Coq_xH)))))) :: ((Npos (Coq_xO (Coq_xO (Coq_xO (Coq_xO (Coq_xO
      Coq_xH)))))) :: ((Npos (Coq_xO (Coq_xI (Coq_xO (Coq_xI (Coq_xI
      Coq_xH)))))) :: ((Npos (Coq_xO (Coq_xO (Coq_xO (Coq_xO (Coq_xO
      Coq_xH)))))) :: ((Npos (Coq_xO (Coq_xO (Coq_xO (Coq_xO (Coq_xI
      Coq_xH)))))) :: ((Npos (Coq_xO (Coq_xI (Coq_xO Coq_xH)))) :: ((Npos
      (Coq_xO (Coq_xO (Coq_xO (Coq_xO (Coq_xO Coq_xH)))))) :: ((Npos (Coq_xO
      (Coq_xO (Coq_xO (Coq_xO (Coq_xO Coq_xH)))))) :: ((Npos (Coq_xO (Coq_xO
      (Coq_xO (Coq_xO (Coq_xO Coq_xH)))))) :: ((Npos (Coq_xO (Coq_xO (Coq_xO
      (Coq_xO (Coq_xO Coq_xH)))))) :: ((Npos (Coq_xO (Coq_xO (Coq_xI (Coq_xO
      (Coq_xO (Coq_xO Coq_xH))))))) :: ((Npos (Coq_xI (Coq_xO (Coq_xI (Coq_xO
      (Coq_xI (Coq_xI Coq_xH))))))) :: ((Npos (Coq_xI (Coq_xO (Coq_xI (Coq_xI
      (Coq_xO (Coq_xI Coq_xH))))))) :: ((Npos (Coq_xO (Coq_xO (Coq_xO (Coq_xO
      (Coq_xI (Coq_xI Coq_xH))))))) :: ((Npos (Coq_xI (Coq_xO (Coq_xO (Coq_xI
      (Coq_xO (Coq_xI Coq_xH))))))) :: ((Npos (Coq_xO (Coq_xI (Coq_xI (Coq_xI
      (Coq_xO (Coq_xI Coq_xH))))))) :: ((Npos (Coq_xI (Coq_xI (Coq_xI (Coq_xO
      (Coq_xO (Coq_xI Coq_xH))))))) :: ((Npos (Coq_xO (Coq_xO (Coq_xO (Coq_xO
      (Coq_xO Coq_xH)))))) :: ((Npos (Coq_xO (Coq_xO (Coq_xO (Coq_xO (Coq_xO
      Coq_xH)))))) :: ((Npos (Coq_xO (Coq_xO (Coq_xO (Coq_xO (Coq_xO
      Coq_xH)))))) :: ((Npos (Coq_xO (Coq_xO (Coq_xO (Coq_xO (Coq_xO
      Coq_xH)))))) :: ((Npos (Coq_xO (Coq_xO (Coq_xO (Coq_xO (Coq_xO
      Coq_xH)))))) :: ((Npos (Coq_xO (Coq_xO (Coq_xO (Coq_xO (Coq_xO
      Coq_xH)))))) :: ((Npos (Coq_xO (Coq_xI (Coq_xO (Coq_xI (Coq_xI
      Coq_xH)))))) :: ((Npos (Coq_xO (Coq_xO (Coq_xO (Coq_xO (Coq_xO
      Coq_xH)))))) :: ((Npos (Coq_xO (Coq_xO (Coq_xO (Coq_xO (Coq_xI
      Coq_xH)))))) :: ((Npos (Coq_xO (Coq_xI (Coq_xO Coq_xH)))) :: ((Npos
      (Coq_xO (Coq_xI (Coq_xO Coq_xH)))) :: ((Npos (Coq_xO (Coq_xO (Coq_xO
      (Coq_xO (Coq_xI (Coq_xO Coq_xH))))))) :: ((Npos (Coq_xI (Coq_xO (Coq_xO
      (Coq_xO (Coq_xO (Coq_xI Coq_xH))))))) :: ((Npos (Coq_xO (Coq_xI (Coq_xO
      (Coq_xO (Coq_xI (Coq_xI Coq_xH))))))) :: ((Npos (Coq_xI (Coq_xI (Coq_xO
      (Coq_xO (Coq_xI (Coq_xI Coq_xH))))))) :: ((Npos (Coq_xI (Coq_xO (Coq_xI
      (Coq_xO (Coq_xO (Coq_xI Coq_xH))))))) :: ((Npos (Coq_xO (Coq_xO (Coq_xO
      (Coq_xO (Coq_xO Coq_xH)))))) :: ((Npos (Coq_xI (Coq_xO (Coq_xI (Coq_xO
      (Coq_xO (Coq_xO Coq_xH))))))) :: ((Npos (Coq_xO (Coq_xI (Coq_xO (Coq_xO
      (Coq_xI (Coq_xI Coq_xH))))))) :: ((Npos (Coq_xO (Coq_xI (Coq_xO (Coq_xO
      (Coq_xI (Coq_xI Coq_xH))))))) :: ((Npos (Coq_xI (Coq_xI (Coq_xI (Coq_xI
      (Coq_xO (Coq_xI Coq_xH))))))) :: ((Npos (Coq_xO (Coq_xI (Coq_xO (Coq_xO
      (Coq_xI (Coq_xI Coq_xH))))))) :: ((Npos (Coq_xI (Coq_xI (Coq_xO (Coq_xO
      (Coq_xI (Coq_xI Coq_xH))))))) :: ((Npos (Coq_xO (Coq_xI (Coq_xO (Coq_xI
      (Coq_xI Coq_xH)))))) :: ((Npos (Coq_xO (Coq_xO (Coq_xO (Coq_xO (Coq_xO
      Coq_xH)))))) :: ((Npos (Coq_xO (Coq_xO (Coq_xO (Coq_xI (Coq_xO
      Coq_xH)))))) :: ((Npos (Coq_xI (Coq_xO (Coq_xI (Coq_xI (Coq_xO (Coq_xI
      Coq_xH))))))) :: ((Npos (Coq_xI (Coq_xI (Coq_xI (Coq_xI (Coq_xO (Coq_xI
      Coq_xH))))))) :: ((Npos (Coq_xI (Coq_xI (Coq_xO (Coq_xO (Coq_xI (Coq_xI
      Coq_xH))))))) :: ((Npos (Coq_xO (Coq_xO (Coq_xI (Coq_xO (Coq_xI (Coq_xI
      Coq_xH))))))) :: ((Npos (Coq_xO (Coq_xO (Coq_xO (Coq_xO (Coq_xO
      Coq_xH)))))) :: ((Npos (Coq_xO (Coq_xI (Coq_xO (Coq_xO (Coq_xI (Coq_xI
      Coq_xH))))))) :: ((Npos (Coq_xI (Coq_xO (Coq_xI (Coq_xO (Coq_xO (Coq_xI
      Coq_xH))))))) :: ((Npos (Coq_xI (Coq_xI (Coq_xO (Coq_xO (Coq_xO (Coq_xI
      Coq_xH))))))) :: ((Npos (Coq_xI (Coq_xO (Coq_xI (Coq_xO (Coq_xO (Coq_xI
      Coq_xH))))))) :: ((Npos (Coq_xO (Coq_xI (Coq_xI (Coq_xI (Coq_xO (Coq_xI
      Coq_xH))))))) :: ((Npos (Coq_xO (Coq_xO (Coq_xI (Coq_xO (Coq_xI (Coq_xI
      Coq_xH))))))) :: ((Npos (Coq_xO (Coq_xO (Coq_xO (Coq_xO (Coq_xO
      Coq_xH)))))) :: ((Npos (Coq_xI (Coq_xI (Coq_xI (Coq_xI (Coq_xO (Coq_xI
      Coq_xH))))))) :: ((Npos (Coq_xO (Coq_xI (Coq_xI (Coq_xI (Coq_xO (Coq_xI
      Coq_xH))))))) :: ((Npos (Coq_xO (Coq_xO (Coq_xI (Coq_xI (Coq_xO (Coq_xI
      Coq_xH))))))) :: ((Npos (Coq_xI (Coq_xO (Coq_xO (Coq_xI (Coq_xI (Coq_xI
      Coq_xH))))))) :: ((Npos (Coq_xI (Coq_xO (Coq_xO (Coq_xI (Coq_xO
      Coq_xH)))))) :: ((Npos (Coq_xO (Coq_xI (Coq_xO
      Coq_xH)))) :: [])))))))))))))))))))))))))))))))))))))))))))))))))))))))))))))))))))))))))))))) :: [])))))))))))))))
      (app (flat_map (err_seg kf) (recent_errs r))
        (app ((Lit ((Npos (Coq_xO (Coq_xI (Coq_xO Coq_xH)))) :: ((Npos
          (Coq_xO (Coq_xI (Coq_xO Coq_xH)))) :: ((Npos (Coq_xO (Coq_xO
          (Coq_xO (Coq_xO (Coq_xI (Coq_xO Coq_xH))))))) :: ((Npos (Coq_xI
          (Coq_xO (Coq_xI (Coq_xO (Coq_xO (Coq_xI Coq_xH))))))) :: ((Npos
          (Coq_xI (Coq_xO (Coq_xI (Coq_xO (Coq_xO (Coq_xI
          Coq_xH))))))) :: ((Npos (Coq_xO (Coq_xI (Coq_xO (Coq_xO (Coq_xI
          (Coq_xI Coq_xH))))))) :: ((Npos (Coq_xI (Coq_xI (Coq_xO (Coq_xO
          (Coq_xI (Coq_xI Coq_xH))))))) :: ((Npos (Coq_xO (Coq_xI (Coq_xO
          (Coq_xI (Coq_xI Coq_xH)))))) :: ((Npos (Coq_xO (Coq_xI (Coq_xO
          Coq_xH)))) :: [])))))))))) :: [])
          (app (peers_table kbase base focus r)
            (app ((Lit ((Npos (Coq_xO (Coq_xI (Coq_xO
              Coq_xH)))) :: [])) :: []) info_footer)))))

(** val find_sub_go : str -> str -> str -> (str * str) option **)

let rec find_sub_go pat s acc =
  match s with
  | [] -> if starts_with pat [] then Some ((rev acc), []) else None
  | c :: s' ->
    if starts_with pat s
    then Some ((rev acc), (skipn (length pat) s))
    else find_sub_go pat s' (c :: acc)

(** val split_once : str -> str -> (str * str) option **)

let split_once pat s =
  find_sub_go pat s []

(** val replace_go : str -> str -> nat -> str -> str **)

let rec replace_go pat rep skip s = match s with
| [] -> []
| c :: s' ->
  (match skip with
   | O ->
     if starts_with pat s
     then app rep (replace_go pat rep (sub (length pat) (S O)) s')
     else c :: (replace_go pat rep O s')
   | S k -> replace_go pat rep k s')

(** val replace_all : str -> str -> str -> str **)

let replace_all pat rep s =
  replace_go pat rep O s

(** val format_source_id : str -> str -> coq_N -> str **)

let format_source_id tpl _ id =
  replace_all ((Npos (Coq_xI (Coq_xI (Coq_xO (Coq_xI (Coq_xI (Coq_xI
    Coq_xH))))))) :: ((Npos (Coq_xO (Coq_xI (Coq_xO (Coq_xO (Coq_xI (Coq_xI
    Coq_xH))))))) :: ((Npos (Coq_xI (Coq_xI (Coq_xI (Coq_xI (Coq_xO (Coq_xI
    Coq_xH))))))) :: ((Npos (Coq_xI (Coq_xO (Coq_xI (Coq_xO (Coq_xI (Coq_xI
    Coq_xH))))))) :: ((Npos (Coq_xO (Coq_xO (Coq_xI (Coq_xO (Coq_xI (Coq_xI
    Coq_xH))))))) :: ((Npos (Coq_xI (Coq_xO (Coq_xI (Coq_xO (Coq_xO (Coq_xI
    Coq_xH))))))) :: ((Npos (Coq_xO (Coq_xI (Coq_xO (Coq_xO (Coq_xI (Coq_xI
    Coq_xH))))))) :: ((Npos (Coq_xI (Coq_xI (Coq_xI (Coq_xI (Coq_xI (Coq_xO
    Coq_xH))))))) :: ((Npos (Coq_xO (Coq_xO (Coq_xO (Coq_xO (Coq_xI (Coq_xI
    Coq_xH))))))) :: ((Npos (Coq_xI (Coq_xI (Coq_xI (Coq_xI (Coq_xO (Coq_xI
    Coq_xH))))))) :: ((Npos (Coq_xO (Coq_xI (Coq_xO (Coq_xO (Coq_xI (Coq_xI
    Coq_xH))))))) :: ((Npos (Coq_xO (Coq_xO (Coq_xI (Coq_xO (Coq_xI (Coq_xI
    Coq_xH))))))) :: ((Npos (Coq_xI (Coq_xO (Coq_xI (Coq_xI (Coq_xI (Coq_xI
    Coq_xH))))))) :: []))))))))))))) ((Npos (Coq_xO (Coq_xO (Coq_xO (Coq_xO
    (Coq_xI (Coq_xO Coq_xH))))))) :: ((Npos (Coq_xI (Coq_xI (Coq_xI (Coq_xI
    (Coq_xO (Coq_xO Coq_xH))))))) :: ((Npos (Coq_xO (Coq_xI (Coq_xO (Coq_xO
    (Coq_xI (Coq_xO Coq_xH))))))) :: ((Npos (Coq_xO (Coq_xO (Coq_xI (Coq_xO
    (Coq_xI (Coq_xO Coq_xH))))))) :: []))))
    (replace_all ((Npos (Coq_xI (Coq_xI (Coq_xO (Coq_xI (Coq_xI (Coq_xI
      Coq_xH))))))) :: ((Npos (Coq_xO (Coq_xI (Coq_xO (Coq_xO (Coq_xI (Coq_xI
      Coq_xH))))))) :: ((Npos (Coq_xI (Coq_xI (Coq_xI (Coq_xI (Coq_xO (Coq_xI
      Coq_xH))))))) :: ((Npos (Coq_xI (Coq_xO (Coq_xI (Coq_xO (Coq_xI (Coq_xI
      Coq_xH))))))) :: ((Npos (Coq_xO (Coq_xO (Coq_xI (Coq_xO (Coq_xI (Coq_xI
      Coq_xH))))))) :: ((Npos (Coq_xI (Coq_xO (Coq_xI (Coq_xO (Coq_xO (Coq_xI
      Coq_xH))))))) :: ((Npos (Coq_xO (Coq_xI (Coq_xO (Coq_xO (Coq_xI (Coq_xI
      Coq_xH))))))) :: ((Npos (Coq_xI (Coq_xI (Coq_xI (Coq_xI (Coq_xI (Coq_xO
      Coq_xH))))))) :: ((Npos (Coq_xI (Coq_xO (Coq_xO (Coq_xI (Coq_xO (Coq_xI
      Coq_xH))))))) :: ((Npos (Coq_xO (Coq_xO (Coq_xO (Coq_xO (Coq_xI (Coq_xI
      Coq_xH))))))) :: ((Npos (Coq_xI (Coq_xO (Coq_xI (Coq_xI (Coq_xI (Coq_xI
      Coq_xH))))))) :: []))))))))))) ((Npos (Coq_xI (Coq_xO (Coq_xO (Coq_xI
      (Coq_xO (Coq_xO Coq_xH))))))) :: ((Npos (Coq_xO (Coq_xO (Coq_xO (Coq_xO
      (Coq_xI (Coq_xO Coq_xH))))))) :: []))
      (replace_all ((Npos (Coq_xI (Coq_xI (Coq_xO (Coq_xI (Coq_xI (Coq_xI
        Coq_xH))))))) :: ((Npos (Coq_xI (Coq_xI (Coq_xO (Coq_xO (Coq_xI
        (Coq_xI Coq_xH))))))) :: ((Npos (Coq_xI (Coq_xO (Coq_xO (Coq_xI
        (Coq_xI (Coq_xI Coq_xH))))))) :: ((Npos (Coq_xI (Coq_xI (Coq_xO
        (Coq_xO (Coq_xI (Coq_xI Coq_xH))))))) :: ((Npos (Coq_xI (Coq_xI
        (Coq_xI (Coq_xI (Coq_xI (Coq_xO Coq_xH))))))) :: ((Npos (Coq_xO
        (Coq_xI (Coq_xI (Coq_xI (Coq_xO (Coq_xI Coq_xH))))))) :: ((Npos
        (Coq_xI (Coq_xO (Coq_xO (Coq_xO (Coq_xO (Coq_xI
        Coq_xH))))))) :: ((Npos (Coq_xI (Coq_xO (Coq_xI (Coq_xI (Coq_xO
        (Coq_xI Coq_xH))))))) :: ((Npos (Coq_xI (Coq_xO (Coq_xI (Coq_xO
        (Coq_xO (Coq_xI Coq_xH))))))) :: ((Npos (Coq_xI (Coq_xO (Coq_xI
        (Coq_xI (Coq_xI (Coq_xI Coq_xH))))))) :: [])))))))))) (dec id) tpl))

(** val addr_str : router -> str **)

let addr_str r =
  match r.r_addr with
  | Some _ -> render (addr_segs r.r_addr)
  | None -> []

(** val info_route :
    str -> str -> str -> router -> (str * str option) option **)

let info_route api tpl req r =
  if starts_with api req
  then let rest = skipn (length api) req in
       (match rest with
        | [] -> None
        | _ :: _ ->
          (match split_once ((Npos (Coq_xI (Coq_xI (Coq_xI (Coq_xI (Coq_xO
                   Coq_xH)))))) :: ((Npos (Coq_xO (Coq_xO (Coq_xO (Coq_xO
                   (Coq_xI (Coq_xI Coq_xH))))))) :: ((Npos (Coq_xO (Coq_xI
                   (Coq_xO (Coq_xO (Coq_xI (Coq_xI Coq_xH))))))) :: ((Npos
                   (Coq_xI (Coq_xO (Coq_xI (Coq_xO (Coq_xO (Coq_xI
                   Coq_xH))))))) :: ((Npos (Coq_xO (Coq_xI (Coq_xI (Coq_xO
                   (Coq_xO (Coq_xI Coq_xH))))))) :: ((Npos (Coq_xI (Coq_xO
                   (Coq_xO (Coq_xI (Coq_xO (Coq_xI Coq_xH))))))) :: ((Npos
                   (Coq_xO (Coq_xO (Coq_xO (Coq_xI (Coq_xI (Coq_xI
                   Coq_xH))))))) :: ((Npos (Coq_xI (Coq_xO (Coq_xI (Coq_xO
                   (Coq_xO (Coq_xI Coq_xH))))))) :: ((Npos (Coq_xI (Coq_xI
                   (Coq_xO (Coq_xO (Coq_xI (Coq_xI Coq_xH))))))) :: ((Npos
                   (Coq_xI (Coq_xI (Coq_xI (Coq_xI (Coq_xO
                   Coq_xH)))))) :: [])))))))))) rest with
           | Some p ->
             let (a, b) = p in
             let focus = Some b in
             if (||)
                  ((||)
                    ((||) (str_eqb a (dec r.r_id))
                      (str_eqb a (format_source_id tpl (sys_name r) r.r_id)))
                    (str_eqb a (sys_name r))) (str_eqb a (addr_str r))
             then Some ((app api a), focus)
             else None
           | None ->
             (match split_once ((Npos (Coq_xI (Coq_xI (Coq_xI (Coq_xI (Coq_xO
                      Coq_xH)))))) :: ((Npos (Coq_xO (Coq_xI (Coq_xI (Coq_xO
                      (Coq_xO (Coq_xI Coq_xH))))))) :: ((Npos (Coq_xO (Coq_xO
                      (Coq_xI (Coq_xI (Coq_xO (Coq_xI Coq_xH))))))) :: ((Npos
                      (Coq_xI (Coq_xO (Coq_xO (Coq_xO (Coq_xO (Coq_xI
                      Coq_xH))))))) :: ((Npos (Coq_xI (Coq_xI (Coq_xI (Coq_xO
                      (Coq_xO (Coq_xI Coq_xH))))))) :: ((Npos (Coq_xI (Coq_xI
                      (Coq_xO (Coq_xO (Coq_xI (Coq_xI Coq_xH))))))) :: ((Npos
                      (Coq_xI (Coq_xI (Coq_xI (Coq_xI (Coq_xO
                      Coq_xH)))))) :: []))))))) rest with
              | Some p ->
                let (a, b) = p in
                let focus = Some b in
                if (||)
                     ((||)
                       ((||) (str_eqb a (dec r.r_id))
                         (str_eqb a
                           (format_source_id tpl (sys_name r) r.r_id)))
                       (str_eqb a (sys_name r))) (str_eqb a (addr_str r))
                then Some ((app api a), focus)
                else None
              | None ->
                let focus = None in
                if (||)
                     ((||)
                       ((||) (str_eqb rest (dec r.r_id))
                         (str_eqb rest
                           (format_source_id tpl (sys_name r) r.r_id)))
                       (str_eqb rest (sys_name r)))
                     (str_eqb rest (addr_str r))
                then Some ((app api rest), focus)
                else None)))
  else None

(** val info_request_gen :
    kind -> kind -> str -> str -> str -> router -> template option **)

let info_request_gen kf kbase api tpl req r =
  match info_route api tpl req r with
  | Some p ->
    let (base, focus) = p in Some (info_page_gen kf kbase base focus r)
  | None -> None

(** val info_request : str -> str -> str -> router -> template option **)

let info_request =
  info_request_gen KSafe KDq

(** val info_request_legacy :
    str -> str -> str -> router -> template option **)

let info_request_legacy =
  info_request_gen KRaw KRaw

(** val utf8_len : coq_N -> coq_N **)

let utf8_len c =
  if N.ltb c (Npos (Coq_xO (Coq_xO (Coq_xO (Coq_xO (Coq_xO (Coq_xO (Coq_xO
       Coq_xH))))))))
  then Npos Coq_xH
  else if N.ltb c (Npos (Coq_xO (Coq_xO (Coq_xO (Coq_xO (Coq_xO (Coq_xO
            (Coq_xO (Coq_xO (Coq_xO (Coq_xO (Coq_xO Coq_xH))))))))))))
       then Npos (Coq_xO Coq_xH)
       else if N.ltb c (Npos (Coq_xO (Coq_xO (Coq_xO (Coq_xO (Coq_xO (Coq_xO
                 (Coq_xO (Coq_xO (Coq_xO (Coq_xO (Coq_xO (Coq_xO (Coq_xO
                 (Coq_xO (Coq_xO (Coq_xO Coq_xH)))))))))))))))))
            then Npos (Coq_xI Coq_xH)
            else Npos (Coq_xO (Coq_xO Coq_xH))

(** val byte_len : str -> coq_N **)

let byte_len s =
  fold_right (fun c a -> N.add (utf8_len c) a) N0 s

(** val take_bytes : coq_N -> str -> str option **)

let rec take_bytes n = function
| [] -> Some []
| c :: s' ->
  if N.eqb n N0
  then Some []
  else if N.ltb n (utf8_len c)
       then None
       else (match take_bytes (N.sub n (utf8_len c)) s' with
             | Some r -> Some (c :: r)
             | None -> None)

(** val legacy_trunc : str -> str option **)

let legacy_trunc s =
  let e = encode_safe s in
  if N.ltb (Npos (Coq_xO (Coq_xO (Coq_xI (Coq_xI (Coq_xI Coq_xH))))))
       (byte_len e)
  then take_bytes (Npos (Coq_xI (Coq_xO (Coq_xI (Coq_xI (Coq_xI Coq_xH)))))) e
  else Some e

(** val list_row_legacy : str -> router -> template option **)

let list_row_legacy path r =
  match r.r_tlvs with
  | Some _ ->
    (match legacy_trunc (sys_name r) with
     | Some n ->
       (match legacy_trunc (sys_desc r) with
        | Some d ->
          Some
            (list_row_gen KRaw KRaw (fun s -> s) path { r_id = r.r_id;
              r_addr = r.r_addr; r_tlvs = (Some (((n :: []), (d :: [])),
              [])); r_errs = r.r_errs; r_peers = r.r_peers })
        | None -> None)
     | None -> None)
  | None -> Some (list_row path r)

(** val list_rows_legacy : str -> router list -> template option **)

let rec list_rows_legacy path = function
| [] -> Some []
| r :: rs' ->
  (match list_row_legacy path r with
   | Some a ->
     (match list_rows_legacy path rs' with
      | Some b -> Some (app a b)
      | None -> None)
   | None -> None)

(** val list_page_legacy : str -> router list -> template option **)

let list_page_legacy path rs =
  match list_rows_legacy path rs with
  | Some rows ->
    Some (app (list_header (N.of_nat (length rs))) (app rows list_footer))
  | None -> None

(** val text_of : ev list -> str **)

let rec text_of = function
| [] -> []
| e :: r ->
  (match e with
   | EText c -> c :: (text_of r)
   | ETag (_, _) -> text_of r)

(** val contains : str -> str -> bool **)

let rec contains pat s = match s with
| [] -> starts_with pat []
| _ :: s' -> (||) (starts_with pat s) (contains pat s')

(** val prom_label : (str * str) -> str **)

let prom_label nv =
  app (fst nv)
    (app ((Npos (Coq_xI (Coq_xO (Coq_xI (Coq_xI (Coq_xI
      Coq_xH)))))) :: ((Npos (Coq_xO (Coq_xI (Coq_xO (Coq_xO (Coq_xO
      Coq_xH)))))) :: []))
      (app (snd nv) ((Npos (Coq_xO (Coq_xI (Coq_xO (Coq_xO (Coq_xO
        Coq_xH)))))) :: [])))

(** val prom_labels : (str * str) list -> str **)

let prom_labels ls =
  app ((Npos (Coq_xI (Coq_xI (Coq_xO (Coq_xI (Coq_xI (Coq_xI
    Coq_xH))))))) :: [])
    (app
      (join ((Npos (Coq_xO (Coq_xO (Coq_xI (Coq_xI (Coq_xO
        Coq_xH)))))) :: []) (map prom_label ls)) ((Npos (Coq_xI (Coq_xO
      (Coq_xI (Coq_xI (Coq_xI (Coq_xI Coq_xH))))))) :: []))

(** val prom_sample : str -> (str * str) list -> str -> str **)

let prom_sample name ls value =
  app name
    (app (prom_labels ls)
      (app ((Npos (Coq_xO (Coq_xO (Coq_xO (Coq_xO (Coq_xO Coq_xH)))))) :: [])
        (app value (c_nl :: []))))
