open Base

val bool_eq_dec : (bool, bool) coq_RelDecision
