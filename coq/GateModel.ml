open BinNat
open BinNums
open Bool
open Datatypes
open List
open Nat

type entry = coq_N * coq_N

type cmd =
| CSub of coq_N
| CUnsub of coq_N
| CSusp of coq_N * bool
| CAttach of coq_N
| CDetach of coq_N
| CTerm

type ccmd =
| FSub of entry
| FUnsub of coq_N
| FTerm

type pstate =
| PIdle of coq_N
| PSending of coq_N * entry list * entry list * bool

type lstate =
| LIdle
| LPending
| LConn of coq_N * bool

type clone = { c_alive : bool; c_att : bool; c_term : bool; c_q : ccmd list }

type chan = { ch_q : (coq_N * coq_N) list; ch_rx : bool }

type cfg = { cf_cap : coq_N; cf_follow : bool }

type st = { upd : entry list; sus : entry list; nslot : coq_N;
            rootq : cmd list; root_term : bool; root_dropped : bool;
            nclone : coq_N; clones : (coq_N -> clone);
            pubs : (coq_N -> pstate); links : (coq_N -> lstate);
            chans : (coq_N -> chan);
            delivered : (((coq_N * coq_N) * coq_N) * coq_N) list;
            received : ((coq_N * coq_N) * coq_N) list;
            completed : (((coq_N * coq_N) * entry list) * bool) list }

(** val set_upd : entry list -> st -> st **)

let set_upd v s =
  { upd = v; sus = s.sus; nslot = s.nslot; rootq = s.rootq; root_term =
    s.root_term; root_dropped = s.root_dropped; nclone = s.nclone; clones =
    s.clones; pubs = s.pubs; links = s.links; chans = s.chans; delivered =
    s.delivered; received = s.received; completed = s.completed }

(** val set_sus : entry list -> st -> st **)

let set_sus v s =
  { upd = s.upd; sus = v; nslot = s.nslot; rootq = s.rootq; root_term =
    s.root_term; root_dropped = s.root_dropped; nclone = s.nclone; clones =
    s.clones; pubs = s.pubs; links = s.links; chans = s.chans; delivered =
    s.delivered; received = s.received; completed = s.completed }

(** val set_nslot : coq_N -> st -> st **)

let set_nslot v s =
  { upd = s.upd; sus = s.sus; nslot = v; rootq = s.rootq; root_term =
    s.root_term; root_dropped = s.root_dropped; nclone = s.nclone; clones =
    s.clones; pubs = s.pubs; links = s.links; chans = s.chans; delivered =
    s.delivered; received = s.received; completed = s.completed }

(** val set_rootq : cmd list -> st -> st **)

let set_rootq v s =
  { upd = s.upd; sus = s.sus; nslot = s.nslot; rootq = v; root_term =
    s.root_term; root_dropped = s.root_dropped; nclone = s.nclone; clones =
    s.clones; pubs = s.pubs; links = s.links; chans = s.chans; delivered =
    s.delivered; received = s.received; completed = s.completed }

(** val set_root_term : bool -> st -> st **)

let set_root_term v s =
  { upd = s.upd; sus = s.sus; nslot = s.nslot; rootq = s.rootq; root_term =
    v; root_dropped = s.root_dropped; nclone = s.nclone; clones = s.clones;
    pubs = s.pubs; links = s.links; chans = s.chans; delivered = s.delivered;
    received = s.received; completed = s.completed }

(** val set_root_dropped : bool -> st -> st **)

let set_root_dropped v s =
  { upd = s.upd; sus = s.sus; nslot = s.nslot; rootq = s.rootq; root_term =
    s.root_term; root_dropped = v; nclone = s.nclone; clones = s.clones;
    pubs = s.pubs; links = s.links; chans = s.chans; delivered = s.delivered;
    received = s.received; completed = s.completed }

(** val set_nclone : coq_N -> st -> st **)

let set_nclone v s =
  { upd = s.upd; sus = s.sus; nslot = s.nslot; rootq = s.rootq; root_term =
    s.root_term; root_dropped = s.root_dropped; nclone = v; clones =
    s.clones; pubs = s.pubs; links = s.links; chans = s.chans; delivered =
    s.delivered; received = s.received; completed = s.completed }

(** val set_clones : (coq_N -> clone) -> st -> st **)

let set_clones v s =
  { upd = s.upd; sus = s.sus; nslot = s.nslot; rootq = s.rootq; root_term =
    s.root_term; root_dropped = s.root_dropped; nclone = s.nclone; clones =
    v; pubs = s.pubs; links = s.links; chans = s.chans; delivered =
    s.delivered; received = s.received; completed = s.completed }

(** val set_pubs : (coq_N -> pstate) -> st -> st **)

let set_pubs v s =
  { upd = s.upd; sus = s.sus; nslot = s.nslot; rootq = s.rootq; root_term =
    s.root_term; root_dropped = s.root_dropped; nclone = s.nclone; clones =
    s.clones; pubs = v; links = s.links; chans = s.chans; delivered =
    s.delivered; received = s.received; completed = s.completed }

(** val set_links : (coq_N -> lstate) -> st -> st **)

let set_links v s =
  { upd = s.upd; sus = s.sus; nslot = s.nslot; rootq = s.rootq; root_term =
    s.root_term; root_dropped = s.root_dropped; nclone = s.nclone; clones =
    s.clones; pubs = s.pubs; links = v; chans = s.chans; delivered =
    s.delivered; received = s.received; completed = s.completed }

(** val set_chans : (coq_N -> chan) -> st -> st **)

let set_chans v s =
  { upd = s.upd; sus = s.sus; nslot = s.nslot; rootq = s.rootq; root_term =
    s.root_term; root_dropped = s.root_dropped; nclone = s.nclone; clones =
    s.clones; pubs = s.pubs; links = s.links; chans = v; delivered =
    s.delivered; received = s.received; completed = s.completed }

(** val set_delivered :
    (((coq_N * coq_N) * coq_N) * coq_N) list -> st -> st **)

let set_delivered v s =
  { upd = s.upd; sus = s.sus; nslot = s.nslot; rootq = s.rootq; root_term =
    s.root_term; root_dropped = s.root_dropped; nclone = s.nclone; clones =
    s.clones; pubs = s.pubs; links = s.links; chans = s.chans; delivered = v;
    received = s.received; completed = s.completed }

(** val set_received : ((coq_N * coq_N) * coq_N) list -> st -> st **)

let set_received v s =
  { upd = s.upd; sus = s.sus; nslot = s.nslot; rootq = s.rootq; root_term =
    s.root_term; root_dropped = s.root_dropped; nclone = s.nclone; clones =
    s.clones; pubs = s.pubs; links = s.links; chans = s.chans; delivered =
    s.delivered; received = v; completed = s.completed }

(** val set_completed :
    (((coq_N * coq_N) * entry list) * bool) list -> st -> st **)

let set_completed v s =
  { upd = s.upd; sus = s.sus; nslot = s.nslot; rootq = s.rootq; root_term =
    s.root_term; root_dropped = s.root_dropped; nclone = s.nclone; clones =
    s.clones; pubs = s.pubs; links = s.links; chans = s.chans; delivered =
    s.delivered; received = s.received; completed = v }

(** val fupd : (coq_N -> 'a1) -> coq_N -> 'a1 -> coq_N -> 'a1 **)

let fupd f k v x =
  if N.eqb x k then v else f x

(** val is_direct : coq_N -> bool **)

let is_direct =
  N.odd

(** val key_neq : coq_N -> entry -> bool **)

let key_neq s e =
  negb (N.eqb (fst e) s)

(** val m_del : coq_N -> entry list -> entry list **)

let m_del s m =
  filter (key_neq s) m

(** val m_ins : entry -> entry list -> entry list **)

let m_ins e m =
  app (m_del (fst e) m) (e :: [])

(** val m_find : coq_N -> entry list -> entry option **)

let m_find s m =
  find (fun e -> N.eqb (fst e) s) m

(** val notify : ccmd -> (coq_N -> clone) -> coq_N -> clone **)

let notify x cl c =
  let k = cl c in
  if (&&) k.c_alive k.c_att
  then { c_alive = k.c_alive; c_att = k.c_att; c_term = k.c_term; c_q =
         (app k.c_q (x :: [])) }
  else k

(** val set_att : bool -> clone -> clone **)

let set_att b k =
  { c_alive = k.c_alive; c_att = b; c_term = k.c_term; c_q = k.c_q }

(** val set_cterm : clone -> clone **)

let set_cterm k =
  { c_alive = k.c_alive; c_att = k.c_att; c_term = true; c_q = k.c_q }

(** val set_cq : ccmd list -> clone -> clone **)

let set_cq q k =
  { c_alive = k.c_alive; c_att = k.c_att; c_term = k.c_term; c_q = q }

(** val pub_alive : st -> coq_N -> bool **)

let pub_alive s p =
  if N.eqb p N0 then negb s.root_dropped else (s.clones p).c_alive

(** val pub_idle : st -> coq_N -> bool **)

let pub_idle s p =
  match s.pubs p with
  | PIdle _ -> true
  | PSending (_, _, _, _) -> false

(** val gate_dormant : st -> bool **)

let gate_dormant s =
  eqb (length s.sus) (length s.upd)

(** val clone_dead : st -> coq_N -> bool **)

let clone_dead s c =
  negb (s.clones c).c_alive

type action =
| ASendSub of coq_N
| ASendUnsub of coq_N
| ASendSusp of coq_N * bool
| ARecv of coq_N
| ASendTerm
| ARoot
| ARootDrop
| AClone
| ACloneStep of coq_N
| ACloneDrop of coq_N
| ABegin of coq_N
| ADeliver of coq_N
| AEnd of coq_N

(** val root_handle : st -> cmd -> st **)

let root_handle s = function
| CSub l ->
  let e = (s.nslot, l) in
  set_clones (notify (FSub e) s.clones)
    (set_links (fupd s.links l (LConn (s.nslot, false)))
      (set_nslot (N.add s.nslot (Npos Coq_xH)) (set_upd (m_ins e s.upd) s)))
| CUnsub x ->
  set_clones (notify (FUnsub x) s.clones)
    (set_upd (m_del x s.upd) (set_sus (m_del x s.sus) s))
| CSusp (x, b) ->
  if b
  then (match m_find x s.upd with
        | Some e -> set_sus (m_ins e s.sus) (set_upd (m_del x s.upd) s)
        | None -> s)
  else (match m_find x s.sus with
        | Some e -> set_upd (m_ins e s.upd) (set_sus (m_del x s.sus) s)
        | None -> s)
| CAttach c0 -> set_clones (fupd s.clones c0 (set_att true (s.clones c0))) s
| CDetach c0 -> set_clones (fupd s.clones c0 (set_att false (s.clones c0))) s
| CTerm -> set_root_term true (set_clones (notify FTerm s.clones) s)

(** val clone_handle : cfg -> st -> coq_N -> ccmd -> st **)

let clone_handle cf s c = function
| FSub e -> if cf.cf_follow then set_upd (m_ins e s.upd) s else s
| FUnsub x0 -> if cf.cf_follow then set_upd (m_del x0 s.upd) s else s
| FTerm -> set_clones (fupd s.clones c (set_cterm (s.clones c))) s

(** val step : cfg -> st -> action -> st **)

let step cf s = function
| ASendSub l ->
  (match s.links l with
   | LIdle ->
     if s.root_dropped
     then s
     else set_rootq (app s.rootq ((CSub l) :: []))
            (set_links (fupd s.links l LPending) s)
   | _ -> s)
| ASendUnsub l ->
  (match s.links l with
   | LConn (x, _) ->
     let s1 =
       set_rootq (app s.rootq ((CUnsub x) :: []))
         (set_links (fupd s.links l LIdle) s)
     in
     if is_direct l
     then s1
     else set_chans (fupd s.chans x { ch_q = []; ch_rx = false }) s1
   | _ -> s)
| ASendSusp (l, b) ->
  (match s.links l with
   | LConn (x, b0) ->
     if Bool.eqb b b0
     then s
     else set_rootq (app s.rootq ((CSusp (x, b)) :: []))
            (set_links (fupd s.links l (LConn (x, b))) s)
   | _ -> s)
| ARecv l ->
  (match s.links l with
   | LConn (x, _) ->
     if is_direct l
     then s
     else (match (s.chans x).ch_q with
           | [] -> s
           | p0 :: q ->
             let (p, n) = p0 in
             set_received (((l, p), n) :: s.received)
               (set_chans
                 (fupd s.chans x { ch_q = q; ch_rx = (s.chans x).ch_rx }) s))
   | _ -> s)
| ASendTerm -> set_rootq (app s.rootq (CTerm :: [])) s
| ARoot ->
  if (||) s.root_term s.root_dropped
  then s
  else (match s.rootq with
        | [] -> s
        | c :: q -> root_handle (set_rootq q s) c)
| ARootDrop -> if pub_idle s N0 then set_root_dropped true s else s
| AClone ->
  let c = s.nclone in
  set_rootq (app s.rootq ((CAttach c) :: []))
    (set_nclone (N.add c (Npos Coq_xH))
      (set_clones
        (fupd s.clones c { c_alive = true; c_att = false; c_term = false;
          c_q = [] }) s))
| ACloneStep c ->
  let k = s.clones c in
  if (&&) k.c_alive (negb k.c_term)
  then (match k.c_q with
        | [] ->
          if s.root_dropped
          then set_clones (fupd s.clones c (set_cterm k)) s
          else s
        | x :: q ->
          clone_handle cf (set_clones (fupd s.clones c (set_cq q k)) s) c x)
  else s
| ACloneDrop c ->
  let k = s.clones c in
  if (&&) ((&&) k.c_alive (pub_idle s c)) (negb (N.eqb c N0))
  then set_rootq (app s.rootq ((CDetach c) :: []))
         (set_clones
           (fupd s.clones c { c_alive = false; c_att = k.c_att; c_term =
             k.c_term; c_q = [] }) s)
  else s
| ABegin p ->
  (match s.pubs p with
   | PIdle n ->
     if pub_alive s p
     then set_pubs (fupd s.pubs p (PSending (n, s.upd, s.upd, false))) s
     else s
   | PSending (_, _, _, _) -> s)
| ADeliver p ->
  (match s.pubs p with
   | PIdle _ -> s
   | PSending (n, snap, rest0, sent) ->
     (match rest0 with
      | [] -> s
      | e :: rest ->
        let (x, l) = e in
        if is_direct l
        then set_received (((l, p), n) :: s.received)
               (set_delivered ((((x, l), p), n) :: s.delivered)
                 (set_pubs (fupd s.pubs p (PSending (n, snap, rest, true))) s))
        else let ch = s.chans x in
             if negb ch.ch_rx
             then set_pubs (fupd s.pubs p (PSending (n, snap, rest, sent))) s
             else if N.ltb (N.of_nat (length ch.ch_q)) cf.cf_cap
                  then set_chans
                         (fupd s.chans x { ch_q =
                           (app ch.ch_q ((p, n) :: [])); ch_rx = true })
                         (set_delivered ((((x, l), p), n) :: s.delivered)
                           (set_pubs
                             (fupd s.pubs p (PSending (n, snap, rest, true)))
                             s))
                  else s))
| AEnd p ->
  (match s.pubs p with
   | PIdle _ -> s
   | PSending (n, snap, rest, sent) ->
     (match rest with
      | [] ->
        set_completed ((((p, n), snap), sent) :: s.completed)
          (set_pubs (fupd s.pubs p (PIdle (N.add n (Npos Coq_xH)))) s)
      | _ :: _ -> s))

(** val init : st **)

let init =
  { upd = []; sus = []; nslot = N0; rootq = []; root_term = false;
    root_dropped = false; nclone = (Npos Coq_xH); clones = (fun _ ->
    { c_alive = false; c_att = false; c_term = false; c_q = [] }); pubs =
    (fun _ -> PIdle N0); links = (fun _ -> LIdle); chans = (fun _ -> { ch_q =
    []; ch_rx = true }); delivered = []; received = []; completed = [] }

(** val all_gone : st -> bool **)

let all_gone s =
  (&&) s.root_dropped
    (forallb (fun c -> clone_dead s (N.of_nat c))
      (seq (S O) (N.to_nat s.nclone)))

(** val clone_drain : cfg -> nat -> st -> coq_N -> st **)

let rec clone_drain cf fuel s c =
  match fuel with
  | O -> s
  | S f -> clone_drain cf f (step cf s (ACloneStep c)) c
