open Datatypes

(** val add : nat -> nat -> nat **)

let rec add n m =
  match n with
  | O -> m
  | S p -> S (add p m)

(** val eqb : nat -> nat -> bool **)

let rec eqb n m =
  match n with
  | O -> (match m with
          | O -> true
          | S _ -> false)
  | S n' -> (match m with
             | O -> false
             | S m' -> eqb n' m')
