open Datatypes

(** val add : nat -> nat -> nat **)

let rec add n m =
  match n with
  | O -> m
  | S p -> S (add p m)

(** val eqb : nat -> nat -> bool **)

let rec eqb n m =
  match n with
  | O -> (match m with
          | O -> true
          | S _ -> false)
  | S n' -> (match m with
             | O -> false
             | S m' -> eqb n' m')

(** val leb : nat -> nat -> bool **)

let rec leb n m =
  match n with
  | O -> true
  | S n' -> (match m with
             | O -> false
             | S m' -> leb n' m')

(** val ltb : nat -> nat -> bool **)

let ltb n m =
  leb (S n) m
