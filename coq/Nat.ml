open Datatypes

(** val add : nat -> nat -> nat **)

let rec add n m =
  match n with
  | O -> m
  | S p -> S (add p m)
