open Datatypes

(** val sub : nat -> nat -> nat **)

let rec sub n m =
  match n with
  | O -> n
  | S k -> (match m with
            | O -> n
            | S l -> sub k l)
