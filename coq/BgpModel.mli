open BinNat
open BinNums
open Datatypes
open List
open Nat

val byte_ok : coq_N -> bool

val bytes_ok : coq_N list -> bool

val lenN : 'a1 list -> coq_N

val enc_u16 : coq_N -> coq_N list

val u16 : coq_N -> coq_N -> coq_N

val take_n : coq_N -> coq_N list -> (coq_N list * coq_N list) option

type fam =
| F4U
| F4M
| F6U
| F6M

val fam_afi : fam -> coq_N

val fam_safi : fam -> coq_N

val fam_maxlen : fam -> coq_N

val fam_of : coq_N -> coq_N -> fam option

type pfx = { p_len : coq_N; p_bytes : coq_N list }

val nbytes : coq_N -> coq_N

val tail_mod : coq_N -> coq_N

val mask_byte : coq_N -> coq_N -> coq_N

val mask_last : coq_N -> coq_N list -> coq_N list

val trailing_ok : coq_N -> coq_N list -> bool

val pfx_wf : coq_N -> pfx -> bool

val enc_pfx : pfx -> coq_N list

val enc_pfxs : pfx list -> coq_N list

type mode =
| Rfc
| Code

val strict : mode -> bool

val dec_pfxs : mode -> coq_N -> nat -> coq_N list -> pfx list option

type mpnlri =
| MpPfx of fam * pfx list
| MpOther of coq_N * coq_N * coq_N list

type attr =
| AGen of coq_N * coq_N * coq_N list
| AReach of coq_N * coq_N list * coq_N * mpnlri
| AUnreach of coq_N * mpnlri

val a_flags : attr -> coq_N

val a_type : attr -> coq_N

val mp_afi : mpnlri -> coq_N

val mp_safi : mpnlri -> coq_N

val enc_mpnlri : mpnlri -> coq_N list

val enc_afisafi : mpnlri -> coq_N list

val a_value : attr -> coq_N list

val ext_len : coq_N -> bool

val enc_attr : attr -> coq_N list

val enc_attrs : attr list -> coq_N list

val dec_mpnlri : mode -> coq_N -> coq_N -> coq_N list -> mpnlri option

val dec_attr_val :
  mode -> bool -> bool -> coq_N -> coq_N -> coq_N list -> attr option

val seen : mode -> bool -> coq_N -> coq_N -> bool

val dec_attrs : mode -> bool -> bool -> nat -> coq_N list -> attr list option

type update = { u_wd : pfx list; u_attrs : attr list; u_nlri : pfx list }

val marker : coq_N list

val enc_body : update -> coq_N list

val encode : update -> coq_N list

val is_reach : attr -> bool

val is_unreach : attr -> bool

val count_if : ('a1 -> bool) -> 'a1 list -> nat

val mp_unique : attr list -> bool

val list_eqb : coq_N list -> coq_N list -> bool

val dec_body : mode -> coq_N list -> update option

val decode : mode -> coq_N list -> update option

type ev =
| EvA of fam * pfx * attr list
| EvW of fam * pfx

val mp_routes : mpnlri -> (fam * pfx) list

val first_reach : attr list -> mpnlri option

val first_unreach : attr list -> mpnlri option

val opt_routes : mpnlri option -> (fam * pfx) list

val events : update -> ev list

val events_of_bytes : mode -> coq_N list -> ev list option

val mpnlri_wf : mpnlri -> bool

val attr_wf : attr -> bool

val wf : update -> bool

val is_eor : update -> bool
