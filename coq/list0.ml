open Base

type __ = Obj.t

(** val list_filter : ('a1 -> coq_Decision) -> 'a1 list -> 'a1 list **)

let rec list_filter x = function
| [] -> []
| x0 :: l0 ->
  if decide (x x0)
  then x0 :: (filter (fun _ -> list_filter) x l0)
  else filter (fun _ -> list_filter) x l0

(** val list_omap : (__ -> __ option) -> __ list -> __ list **)

let rec list_omap f = function
| [] -> []
| x :: l0 ->
  (match f x with
   | Some y -> y :: (list_omap f l0)
   | None -> list_omap f l0)
