(* Model of the RIB as rotonda uses rotonda-store (src/units/rib_unit/rib.rs,
   unit.rs process_update/insert_payload): per (family, prefix, ingress id) one
   record (status, attributes); a session-wide "withdrawn" marker per (family,
   ingress id) that overrides the record status in every query and that nothing
   ever clears. Definitions only. *)
From stdpp Require Import gmap.
From Coq Require Import NArith.

(* family: 0 = IPv4 unicast, 1 = IPv6 unicast, 2 = IPv4 multicast, 3 = IPv6 multicast.
   Unicast/multicast are two stores, each with a v4 and a v6 tree. *)
Definition rkey := (N * N * N)%type.          (* family, prefix, ingress id *)
Definition k_fam (k : rkey) : N := k.1.1.
Definition k_pfx (k : rkey) : N := k.1.2.
Definition k_mui (k : rkey) : N := k.2.

Record rrec := MkRec { r_active : bool; r_attrs : N }.
Record rib := MkRib { recs : gmap rkey rrec; wdm : gset (N * N) (* family, ingress id *) }.
Definition rib_empty : rib := MkRib ∅ ∅.

(* one exploded route of an UPDATE as it reaches the RIB unit *)
Record payload := MkPay { p_key : rkey; p_active : bool; p_attrs : N }.

Inductive update :=
| UBulk (ps : list payload)                 (* Update::Bulk / Update::Single *)
| UWithdraw (mui : N) (fam : option N)      (* Update::Withdraw(id, afisafi?) *)
| UWithdrawBulk (muis : list N)             (* Update::WithdrawBulk(ids) *)
| UPass.                                    (* OutputStream / EndOfStream / QueryResult: RIB untouched *)

(* Rib::insert_prefix *)
Definition rib_insert_payload (r : rib) (p : payload) : rib :=
  if p_active p then MkRib (<[ p_key p := MkRec true (p_attrs p) ]> (recs r)) (wdm r)
  else match recs r !! p_key p with
       | Some old => MkRib (<[ p_key p := MkRec false (r_attrs old) ]> (recs r)) (wdm r)
       | None => r     (* PrefixNotFound, or prefix present but not from this id: no change *)
       end.

Definition all_fams : list N := [0; 1; 2; 3]%N.

(* Rib::withdraw_for_ingress *)
Definition rib_withdraw_mui (r : rib) (mui : N) (fam : option N) : rib :=
  match fam with
  | Some f => MkRib (recs r) ({[ (f, mui) ]} ∪ wdm r)
  | None => MkRib (recs r) (list_to_set (map (fun f => (f, mui)) all_fams) ∪ wdm r)
  end.

Definition rib_apply (r : rib) (u : update) : rib :=
  match u with
  | UBulk ps => fold_left rib_insert_payload ps r
  | UWithdraw m f => rib_withdraw_mui r m f
  | UWithdrawBulk ms => fold_left (fun r m => rib_withdraw_mui r m None) ms r
  | UPass => r
  end.

Definition rib_run (us : list update) : rib := fold_left rib_apply us rib_empty.

(* what a query (include_withdrawn = true) shows for one (family, prefix, id) *)
Definition rib_lookup (r : rib) (k : rkey) : option (bool * N) :=
  match recs r !! k with
  | Some rc => Some (r_active rc && negb (bool_decide ((k_fam k, k_mui k) ∈ wdm r)), r_attrs rc)
  | None => None
  end.

(* all entries of one (family, prefix): (id, active?, attrs) *)
Definition rib_entries (r : rib) (fam pfx : N) : list (N * bool * N) :=
  omap (fun kv : rkey * rrec =>
          let k := kv.1 in
          if bool_decide (k_fam k = fam /\ k_pfx k = pfx)
          then match rib_lookup r k with Some (s, a) => Some (k_mui k, s, a) | None => None end
          else None)
       (map_to_list (recs r)).

(* Rib::match_prefix on the exact prefix: the multicast store is consulted only
   when the unicast store has nothing for the prefix. af: 0 = v4, 1 = v6. *)
Definition rib_query (r : rib) (af pfx : N) : list (N * bool * N) :=
  match rib_entries r af pfx with
  | [] => rib_entries r (af + 2)%N pfx
  | l => l
  end.

(* ---- the event history a reader would write down, per ingress id ---- *)
Inductive ev :=
| EAnn (k : rkey) (a : N)
| EWdr (k : rkey)
| EDown (mui : N) (fam : option N).

Definition ev_of_payload (p : payload) : ev :=
  if p_active p then EAnn (p_key p) (p_attrs p) else EWdr (p_key p).

Definition evs_of_update (u : update) : list ev :=
  match u with
  | UBulk ps => map ev_of_payload ps
  | UWithdraw m f => [EDown m f]
  | UWithdrawBulk ms => map (fun m => EDown m None) ms
  | UPass => []
  end.

Definition evs_of (us : list update) : list ev := concat (map evs_of_update us).

Definition down_hits (m : N) (f : option N) (k : rkey) : bool :=
  bool_decide (k_mui k = m) &&
  match f with Some f' => bool_decide (k_fam k = f') | None => bool_decide (k_fam k < 4)%N end.

(* THE PROPERTY's reading: the last event for (family, prefix, id) decides;
   a session loss withdraws what is there; a later announcement is active. *)
Definition spec_step (k : rkey) (acc : option (bool * N)) (e : ev) : option (bool * N) :=
  match e with
  | EAnn k' a => if bool_decide (k' = k) then Some (true, a) else acc
  | EWdr k' => if bool_decide (k' = k) then (match acc with Some (_, a) => Some (false, a) | None => None end) else acc
  | EDown m f => if down_hits m f k then (match acc with Some (_, a) => Some (false, a) | None => None end) else acc
  end.
Definition spec_lookup (h : list ev) (k : rkey) : option (bool * N) := fold_left (spec_step k) h None.

(* was a session-wide withdrawal ever applied to this (family, id)? *)
Definition downed (h : list ev) (k : rkey) : bool :=
  existsb (fun e => match e with EDown m f => down_hits m f k | _ => false end) h.

(* known finding C03-1: an announcement made after a session-wide withdrawal of
   the same ingress id is reported withdrawn *)
Definition known_c03 (h : list ev) (k : rkey) : bool :=
  downed h k && match spec_lookup h k with Some (true, _) => true | _ => false end.
