(* Model of the RIB as rotonda uses rotonda-store (src/units/rib_unit/rib.rs,
   unit.rs process_update/insert_payload): per (family, prefix, ingress id) one
   record (status, attributes); a session-wide "withdrawn" marker per (family,
   ingress id) that overrides the record status in every query and that nothing
   ever clears. Definitions only. *)
From stdpp Require Import gmap.
From Coq Require Import NArith.

(* family: 0 = IPv4 unicast, 1 = IPv6 unicast, 2 = IPv4 multicast, 3 = IPv6 multicast.
   Unicast/multicast are two stores, each with a v4 and a v6 tree. *)
Definition rkey := (N * N * N)%type.          (* family, prefix, ingress id *)
Definition k_fam (k : rkey) : N := k.1.1.
Definition k_pfx (k : rkey) : N := k.1.2.
Definition k_mui (k : rkey) : N := k.2.

Record rrec := MkRec { r_active : bool; r_attrs : N }.
Record rib := MkRib { recs : gmap rkey rrec; wdm : gset (N * N) (* family, ingress id *) }.
Definition rib_empty : rib := MkRib ∅ ∅.

(* one exploded route of an UPDATE as it reaches the RIB unit *)
Record payload := MkPay { p_key : rkey; p_active : bool; p_attrs : N }.

Inductive update :=
| UBulk (ps : list payload)                 (* Update::Bulk / Update::Single *)
| UWithdraw (mui : N) (fam : option N)      (* Update::Withdraw(id, afisafi?) *)
| UWithdrawBulk (muis : list N)             (* Update::WithdrawBulk(ids) *)
| UPass.                                    (* OutputStream / EndOfStream / QueryResult: RIB untouched *)

(* Rib::insert_prefix *)
Definition rib_insert_payload (r : rib) (p : payload) : rib :=
  if p_active p then MkRib (<[ p_key p := MkRec true (p_attrs p) ]> (recs r)) (wdm r)
  else match recs r !! p_key p with
       | Some old => MkRib (<[ p_key p := MkRec false (r_attrs old) ]> (recs r)) (wdm r)
       | None => r     (* PrefixNotFound, or prefix present but not from this id: no change *)
       end.

Definition all_fams : list N := [0; 1; 2; 3]%N.

(* Rib::withdraw_for_ingress *)
Definition rib_withdraw_mui (r : rib) (mui : N) (fam : option N) : rib :=
  match fam with
  | Some f => MkRib (recs r) ({[ (f, mui) ]} ∪ wdm r)
  | None => MkRib (recs r) (list_to_set (map (fun f => (f, mui)) all_fams) ∪ wdm r)
  end.

Definition rib_apply (r : rib) (u : update) : rib :=
  match u with
  | UBulk ps => fold_left rib_insert_payload ps r
  | UWithdraw m f => rib_withdraw_mui r m f
  | UWithdrawBulk ms => fold_left (fun r m => rib_withdraw_mui r m None) ms r
  | UPass => r
  end.

Definition rib_run (us : list update) : rib := fold_left rib_apply us rib_empty.

(* what a query (include_withdrawn = true) shows for one (family, prefix, id) *)
Definition rib_lookup (r : rib) (k : rkey) : option (bool * N) :=
  match recs r !! k with
  | Some rc => Some (r_active rc && negb (bool_decide ((k_fam k, k_mui k) ∈ wdm r)), r_attrs rc)
  | None => None
  end.

(* all entries of one (family, prefix): (id, active?, attrs) *)
Definition rib_entries (r : rib) (fam pfx : N) : list (N * bool * N) :=
  omap (fun kv : rkey * rrec =>
          let k := kv.1 in
          if bool_decide (k_fam k = fam /\ k_pfx k = pfx)
          then match rib_lookup r k with Some (s, a) => Some (k_mui k, s, a) | None => None end
          else None)
       (map_to_list (recs r)).

(* Rib::match_prefix on the exact prefix: the multicast store is consulted only
   when the unicast store has nothing for the prefix. af: 0 = v4, 1 = v6. *)
Definition rib_query (r : rib) (af pfx : N) : list (N * bool * N) :=
  match rib_entries r af pfx with
  | [] => rib_entries r (af + 2)%N pfx
  | l => l
  end.

(* ---- the event history a reader would write down, per ingress id ---- *)
Inductive ev :=
| EAnn (k : rkey) (a : N)
| EWdr (k : rkey)
| EDown (mui : N) (fam : option N).

Definition ev_of_payload (p : payload) : ev :=
  if p_active p then EAnn (p_key p) (p_attrs p) else EWdr (p_key p).

Definition evs_of_update (u : update) : list ev :=
  match u with
  | UBulk ps => map ev_of_payload ps
  | UWithdraw m f => [EDown m f]
  | UWithdrawBulk ms => map (fun m => EDown m None) ms
  | UPass => []
  end.

Definition evs_of (us : list update) : list ev := concat (map evs_of_update us).

Definition down_hits (m : N) (f : option N) (k : rkey) : bool :=
  bool_decide (k_mui k = m) &&
  match f with Some f' => bool_decide (k_fam k = f') | None => bool_decide (k_fam k < 4)%N end.

(* THE PROPERTY's reading: the last event for (family, prefix, id) decides;
   a session loss withdraws what is there; a later announcement is active. *)
Definition spec_step (k : rkey) (acc : option (bool * N)) (e : ev) : option (bool * N) :=
  match e with
  | EAnn k' a => if bool_decide (k' = k) then Some (true, a) else acc
  | EWdr k' => if bool_decide (k' = k) then (match acc with Some (_, a) => Some (false, a) | None => None end) else acc
  | EDown m f => if down_hits m f k then (match acc with Some (_, a) => Some (false, a) | None => None end) else acc
  end.
Definition spec_lookup (h : list ev) (k : rkey) : option (bool * N) := fold_left (spec_step k) h None.

(* was a session-wide withdrawal ever applied to this (family, id)? *)
Definition downed (h : list ev) (k : rkey) : bool :=
  existsb (fun e => match e with EDown m f => down_hits m f k | _ => false end) h.

(* known finding C03-1: an announcement made after a session-wide withdrawal of
   the same ingress id is reported withdrawn *)
Definition known_c03 (h : list ev) (k : rkey) : bool :=
  downed h k && match spec_lookup h k with Some (true, _) => true | _ => false end.

(* ================= the RIB unit's own counters (C15) =================
   src/units/rib_unit/metrics.rs RibUnitMetrics, written by status_reporter.rs
   (insert_ok -> insert_or_update, insert_failed) from unit.rs insert_payload, one
   exploded route at a time. Session-wide withdrawals (Rib::withdraw_for_ingress)
   touch no counter. Added NEXT TO rib_apply: nothing above is changed. *)
From Coq Require Import ZArith.

(* how insert_payload sees one route, given the store before it:
   RNew    announcement, store.insert reports prefix_new      -> StoreInsertionEffect::RouteAdded
   RMod    announcement, the (family, prefix) is already held  -> RouteUpdated
   RWHeld  withdrawal, the (family, prefix) is held by SOME id -> Ok(report{prefix_new: false}): RouteUpdated, then RoutesWithdrawn(1)
   RWMiss  withdrawal, nothing held for the (family, prefix)   -> Err(PrefixNotFound): insert_failed *)
Inductive rclass := RNew | RMod | RWHeld | RWMiss.

(* the (family, prefix) pairs the store holds at least one record for *)
Definition rib_pfxs (r : rib) : gset (N * N) := set_map (fun k : rkey => k.1) (dom (recs r)).
Definition rib_holds (r : rib) (fp : N * N) : bool := bool_decide (fp ∈ rib_pfxs r).

Definition rclassify (r : rib) (p : payload) : rclass :=
  if p_active p then (if rib_holds r (p_key p).1 then RMod else RNew)
  else (if rib_holds r (p_key p).1 then RWHeld else RWMiss).

(* rm_announced: the usize the code keeps, read as a two's-complement number (fetch_sub wraps: the
   exposition shows 2^64 - n where this field says -n); the other fields only ever grow.
   num_insert_retries follows rotonda-store's cas_count (contention) and is not modelled. *)
Record rmet := MkRmet {
  rm_unique : N;       (* rib_unit_num_unique_prefixes *)
  rm_items : N;        (* rib_unit_num_items *)
  rm_hard : N;         (* rib_unit_num_insert_hard_failures *)
  rm_announced : Z;    (* rib_unit_num_routes_announced *)
  rm_modified : N;     (* rib_unit_num_modified_route_announcements *)
  rm_withdrawn : N;    (* rib_unit_num_routes_withdrawn *)
  rm_wd_noann : N      (* rib_unit_num_route_withdrawals_without_announcements: no call site passes RoutesWithdrawn(0) *)
}.
Definition rmet_zero : rmet := MkRmet 0 0 0 0 0 0 0.

Definition rmet_bump (m : rmet) (c : rclass) : rmet :=
  match c with
  | RNew => MkRmet (rm_unique m + 1) (rm_items m + 1) (rm_hard m) (rm_announced m + 1) (rm_modified m) (rm_withdrawn m) (rm_wd_noann m)
  | RMod => MkRmet (rm_unique m) (rm_items m) (rm_hard m) (rm_announced m) (rm_modified m + 1) (rm_withdrawn m) (rm_wd_noann m)
  | RWHeld => MkRmet (rm_unique m) (rm_items m) (rm_hard m) (rm_announced m - 1) (rm_modified m + 1) (rm_withdrawn m + 1) (rm_wd_noann m)
  | RWMiss => MkRmet (rm_unique m) (rm_items m) (rm_hard m + 1) (rm_announced m) (rm_modified m) (rm_withdrawn m) (rm_wd_noann m)
  end.
Definition rmet_payload (r : rib) (m : rmet) (p : payload) : rmet := rmet_bump m (rclassify r p).

(* the RIB with something carried along that sees every route and the store before it *)
Definition ribx_payload {A} (f : rib -> A -> payload -> A) (s : rib * A) (p : payload) : rib * A :=
  (rib_insert_payload s.1 p, f s.1 s.2 p).
Definition ribx_apply {A} (f : rib -> A -> payload -> A) (s : rib * A) (u : update) : rib * A :=
  match u with
  | UBulk ps => fold_left (ribx_payload f) ps s
  | _ => (rib_apply s.1 u, s.2)
  end.
Definition ribx_run {A} (f : rib -> A -> payload -> A) (a0 : A) (us : list update) : rib * A :=
  fold_left (ribx_apply f) us (rib_empty, a0).

(* the store and its counters *)
Definition ribm_apply : rib * rmet -> update -> rib * rmet := ribx_apply rmet_payload.
Definition ribm_run (us : list update) : rib * rmet := ribx_run rmet_payload rmet_zero us.

(* the history as a reader would classify it: one class per route, in order; whether the very (family, prefix, id) had a record *)
Definition rtrace_payload (r : rib) (t : list (rclass * bool)) (p : payload) : list (rclass * bool) :=
  t ++ [(rclassify r p, bool_decide (is_Some (recs r !! p_key p)))].
Definition rtrace (us : list update) : list (rclass * bool) := (ribx_run rtrace_payload [] us).2.
Definition rclass_eqb (a b : rclass) : bool :=
  match a, b with RNew, RNew | RMod, RMod | RWHeld, RWHeld | RWMiss, RWMiss => true | _, _ => false end.
Fixpoint rcount (c : rclass) (t : list (rclass * bool)) : N :=
  match t with [] => 0 | x :: t' => (if rclass_eqb x.1 c then 1 else 0) + rcount c t' end.
(* withdrawals of a route that has no record (never announced by this id) *)
Fixpoint rcount_wd_norec (t : list (rclass * bool)) : N :=
  match t with
  | [] => 0
  | (c, had) :: t' => (if (rclass_eqb c RWHeld || rclass_eqb c RWMiss) && negb had then 1 else 0) + rcount_wd_norec t'
  end.

(* THE PROPERTY's reading of the metric descriptions, on the modelled store / history:
   items = "items (e.g. routes) stored (withdrawn or not)" = records; announced = records a query shows active;
   hard failures = insertions given up after retries = none in a store that never fails;
   withdrawals without announcement = withdrawals of routes without a record. The three other counters are
   taken as the code counts them (their texts leave the unit of counting open). *)
Definition rib_n_active (r : rib) : N :=
  N.of_nat (length (List.filter (fun kv : rkey * rrec => match rib_lookup r kv.1 with Some (true, _) => true | _ => false end)
                                (map_to_list (recs r)))).
Definition rmet_spec (us : list update) : rmet :=
  let s := ribm_run us in
  MkRmet (rm_unique s.2) (N.of_nat (size (recs s.1))) 0 (Z.of_N (rib_n_active s.1))
         (rm_modified s.2) (rm_withdrawn s.2) (rcount_wd_norec (rtrace us)).
