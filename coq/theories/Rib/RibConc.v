(* Concurrent writers on one RIB (C09). Definitions only.

   What is modelled (src/units/rib_unit/unit.rs process_update, rib.rs
   insert_prefix / withdraw_for_ingress, rotonda-store 0.4.1
   custom_alloc.rs mark_mui_as_withdrawn):

   * every ingress task calls RibUnitRunner::process_update on its own thread
     (DirectUpdate::direct_update), so T writers run interleaved on one Rib;
   * an Update is NOT atomic: Update::Bulk is one store call per payload,
     Update::WithdrawBulk one Rib::withdraw_for_ingress call per id, and each
     such call marks the id in up to four bitmaps (unicast v4/v6, multicast
     v4/v6), one after the other;
   * one store call on one (prefix, id) is atomic (the store takes the
     per-prefix record-map mutex): [AIns];
   * marking an id in one bitmap is the store's loop, at the granularity of
     its shared-memory accesses:
         current = load();  new = clone(current) + id;
         loop { match CAS(current -> new) {
                  Ok  => return,
                  Err(updated) => new = clone(updated)    // id NOT re-inserted,
                } }                                       // `current` NOT refreshed
     The cell of a bitmap is (stamp, content); the stamp stands for the
     identity of the heap object the CAS compares (the old object is never
     freed while a guard is pinned, so there is no ABA);
   * [ser = true] is the tree with the repair: Rib::withdraw_for_ingress
     holds a mutex of the Rib for the whole call; [ser = false] is the code
     as it was. The store's loop is the same in both. *)
From stdpp Require Import gmap.
From Coq Require Import NArith.
From RV Require Import Rib.RibModel.

(* one store-level action of a writer *)
Inductive act :=
| AIns (p : payload)               (* Rib::insert_prefix: store.insert / mark_mui_as_withdrawn_for_prefix *)
| AMark (fs : list N) (m : N).     (* Rib::withdraw_for_ingress(m, ..): mark m in the bitmaps of families fs, in this order *)

Definition fams_of (fo : option N) : list N :=
  match fo with Some f => [f] | None => all_fams end.

Definition acts_of_update (u : update) : list act :=
  match u with
  | UBulk ps => map AIns ps
  | UWithdraw m fo => [AMark (fams_of fo) m]
  | UWithdrawBulk ms => map (AMark all_fams) ms
  | UPass => []
  end.
Definition acts_of_prog (p : list update) : list act := flat_map acts_of_update p.

(* where a thread is inside the call it is executing *)
Inductive lst :=
| LIdle                                                    (* between two store-level actions *)
| LMark (fs : list N) (m : N)                              (* inside withdraw_for_ingress; bitmaps fs still to do *)
| LCas (fs : list N) (m : N) (f : N) (st : N) (new : gset (N * N)).
    (* inside the store's loop for bitmap f: `current` has stamp st, `new` is the value the next CAS tries to install *)

Record thr := MkThr { t_todo : list act; t_loc : lst }.

Record cst := MkC {
  c_rib : rib;                 (* records + the four bitmaps, as RibModel sees them: wdm = { (family, id) } *)
  c_stamps : gmap N N;         (* per bitmap: identity of the current heap object *)
  c_lock : option nat;         (* the repair's mutex: who is inside withdraw_for_ingress *)
  c_thr : list thr;
  c_fail : N }.                (* failed compare-and-swap attempts so far *)

Definition stamp (c : cst) (f : N) : N := default 0%N (c_stamps c !! f).

(* the content of bitmap f / of the other bitmaps *)
Definition fam_part (f : N) (s : gset (N * N)) : gset (N * N) := filter (fun x => x.1 = f) s.
Definition fam_rest (f : N) (s : gset (N * N)) : gset (N * N) := filter (fun x => x.1 <> f) s.

(* one shared-memory access (or one atomic store call) of thread t *)
Definition step (ser : bool) (c : cst) (t : nat) : cst :=
  match c_thr c !! t with
  | None => c
  | Some th =>
    match t_loc th with
    | LIdle =>
      match t_todo th with
      | [] => c
      | AIns p :: rest =>
          MkC (rib_insert_payload (c_rib c) p) (c_stamps c) (c_lock c)
              (<[t := MkThr rest LIdle]> (c_thr c)) (c_fail c)
      | AMark fs m :: rest =>
          if ser then
            match c_lock c with
            | Some _ => c                                   (* blocked on the mutex *)
            | None => MkC (c_rib c) (c_stamps c) (Some t)
                          (<[t := MkThr rest (LMark fs m)]> (c_thr c)) (c_fail c)
            end
          else MkC (c_rib c) (c_stamps c) (c_lock c)
                   (<[t := MkThr rest (LMark fs m)]> (c_thr c)) (c_fail c)
      end
    | LMark [] m =>                                         (* withdraw_for_ingress returns (the guard is dropped) *)
        MkC (c_rib c) (c_stamps c) (if ser then None else c_lock c)
            (<[t := MkThr (t_todo th) LIdle]> (c_thr c)) (c_fail c)
    | LMark (f :: fs) m =>                                  (* current = load(); new = clone + id *)
        MkC (c_rib c) (c_stamps c) (c_lock c)
            (<[t := MkThr (t_todo th) (LCas fs m f (stamp c f) ({[ (f, m) ]} ∪ wdm (c_rib c)))]> (c_thr c))
            (c_fail c)
    | LCas fs m f st new =>
        if bool_decide (stamp c f = st) then                (* CAS succeeds: bitmap f := new *)
          MkC (MkRib (recs (c_rib c)) (fam_part f new ∪ fam_rest f (wdm (c_rib c))))
              (<[f := (st + 1)%N]> (c_stamps c)) (c_lock c)
              (<[t := MkThr (t_todo th) (LMark fs m)]> (c_thr c)) (c_fail c)
        else                                                (* CAS fails: new = clone(updated); current stays *)
          MkC (c_rib c) (c_stamps c) (c_lock c)
              (<[t := MkThr (t_todo th) (LCas fs m f st (wdm (c_rib c)))]> (c_thr c))
              (c_fail c + 1)%N
    end
  end.

Definition run (ser : bool) (c : cst) (s : list nat) : cst := fold_left (step ser) s c.

Definition init (progs : list (list update)) : cst :=
  MkC rib_empty ∅ None (map (fun p => MkThr (acts_of_prog p) LIdle) progs) 0%N.

Definition thr_done (th : thr) : bool :=
  match t_todo th, t_loc th with [], LIdle => true | _, _ => false end.
Definition all_done (c : cst) : bool := forallb thr_done (c_thr c).
Definition done_at (c : cst) (t : nat) : bool :=
  match c_thr c !! t with Some th => thr_done th | None => true end.

(* can thread t make a step that changes something? *)
Definition enabled (c : cst) (t : nat) : bool :=
  match c_thr c !! t with
  | None => false
  | Some th =>
    match t_loc th, t_todo th with
    | LIdle, [] => false
    | LIdle, AMark _ _ :: _ => match c_lock c with None => true | Some _ => false end
    | _, _ => true
    end
  end.

Fixpoint nsum (l : list nat) : nat := match l with [] => 0 | x :: l' => x + nsum l' end.

(* number of steps an action / a thread / the system still needs (serialised code) *)
Definition act_cost (a : act) : nat :=
  match a with AIns _ => 1 | AMark fs _ => 2 + 2 * length fs end.
Definition loc_cost (l : lst) : nat :=
  match l with LIdle => 0 | LMark fs _ => 1 + 2 * length fs | LCas fs _ _ _ _ => 2 + 2 * length fs end.
Definition thr_work (th : thr) : nat := loc_cost (t_loc th) + nsum (map act_cost (t_todo th)).
Definition work (c : cst) : nat := nsum (map thr_work (c_thr c)).
Definition upd_cost (u : update) : nat := nsum (map act_cost (acts_of_update u)).

(* n consecutive steps of one thread (how the correspondence engine executes
   one whole Update on behalf of a thread) *)
Definition steps (ser : bool) (n : nat) (c : cst) (t : nat) : cst := run ser c (repeat t n).

(* a schedule made of blocks in each of which every thread gets at least one turn *)
Definition covers (n : nat) (b : list nat) : Prop := forall t, t < n -> In t b.

(* ---- which ingress ids a program touches (ownership discipline) ---- *)
Definition upd_muis (u : update) : list N :=
  match u with
  | UBulk ps => map (fun p => k_mui (p_key p)) ps
  | UWithdraw m _ => [m]
  | UWithdrawBulk ms => ms
  | UPass => []
  end.
Definition prog_muis (p : list update) : list N := flat_map upd_muis p.

(* writers own disjoint sets of ingress ids *)
Definition disjoint_ids (progs : list (list update)) : Prop :=
  forall i j pi pj m, progs !! i = Some pi -> progs !! j = Some pj ->
    In m (prog_muis pi) -> In m (prog_muis pj) -> i = j.

(* a session-wide withdrawal of id m (families fo) is part of program p *)
Definition withdraws (p : list update) (m : N) (fo : option N) : Prop :=
  In (UWithdraw m fo) p \/ (fo = None /\ exists ms, In (UWithdrawBulk ms) p /\ In m ms).

(* ---- the smallest contended scenario: two sessions lost at the same time ---- *)
Definition livelock_progs : list (list update) := [[UWithdraw 1%N None]; [UWithdraw 2%N None]].
(* t0 calls, loads; t1 calls, loads the same object; t0's CAS succeeds; t1's CAS fails *)
Definition livelock_prefix : list nat := [0; 0; 1; 1; 0; 1]%nat.

(* ---- a concrete non-trivial scenario (Props_C09.C09_example) ---- *)
Definition ex_key (f p m : N) : rkey := (f, p, m).
Definition example_progs : list (list update) :=
  [ [UBulk [MkPay (ex_key 0 7 1) true 5; MkPay (ex_key 0 8 1) true 5]; UBulk [MkPay (ex_key 0 7 1) true 6];
     UBulk [MkPay (ex_key 0 8 1) false 0]]
  ; [UBulk [MkPay (ex_key 0 7 2) true 3; MkPay (ex_key 1 7 2) true 3]; UWithdraw 2 (Some 0)]
  ; [UBulk [MkPay (ex_key 0 7 3) true 4]; UWithdrawBulk [3; 4]; UBulk [MkPay (ex_key 2 7 4) true 9]] ]%N.
Definition example_sched : list nat := concat (repeat [2; 0; 1; 1; 2; 0] 30).
(* decidable form of disjoint_ids *)
Definition disjoint_idsb (progs : list (list update)) : bool :=
  forallb (fun i => forallb (fun j => Nat.eqb i j ||
      forallb (fun m => negb (existsb (N.eqb m) (prog_muis (default [] (progs !! j)))))
              (prog_muis (default [] (progs !! i))))
    (seq 0 (length progs))) (seq 0 (length progs)).
