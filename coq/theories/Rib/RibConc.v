(* Concurrent writers on one RIB (C09). Definitions only.

   What is modelled (src/units/rib_unit/unit.rs process_update, rib.rs
   insert_prefix / withdraw_for_ingress, rotonda-store 0.4.1
   custom_alloc.rs mark_mui_as_withdrawn):

   * every ingress task calls RibUnitRunner::process_update on its own thread
     (DirectUpdate::direct_update), so T writers run interleaved on one Rib;
   * an Update is NOT atomic: Update::Bulk is one store call per payload,
     Update::WithdrawBulk one Rib::withdraw_for_ingress call per id, and each
     such call marks the id in up to four bitmaps (unicast v4/v6, multicast
     v4/v6), one after the other;
   * one store call on one (prefix, id) is atomic (the store takes the
     per-prefix record-map mutex): [AIns];
   * marking an id in one bitmap is the store's loop, at the granularity of
     its shared-memory accesses:
         current = load();  new = clone(current) + id;
         loop { match CAS(current -> new) {
                  Ok  => return,
                  Err(updated) => new = clone(updated)    // id NOT re-inserted,
                } }                                       // `current` NOT refreshed
     The cell of a bitmap is (stamp, content); the stamp stands for the
     identity of the heap object the CAS compares (the old object is never
     freed while a guard is pinned, so there is no ABA);
   * [ser = true] is the tree with the repair: Rib::withdraw_for_ingress
     holds a mutex of the Rib for the whole call; [ser = false] is the code
     as it was. The store's loop is the same in both;
   * Rib::withdraw_for_ingress(id, Some(family)) has an arm for four address
     families (IPv4/IPv6 unicast/multicast); for any other AfiSafiType it
     reaches `afisafi => panic!("no support to withdraw {:?} yet", afisafi)` -
     AFTER it has taken the mutex. Nothing is marked; the guard is dropped
     while the thread unwinds, so the mutex is released and POISONED; the
     panic is the outcome of that one call (process_update does not catch it:
     in rotonda the publisher's task ends there, i.e. the rest of that
     thread's program is not run - a shorter program; the correspondence
     engine catches it per Update and goes on). [AUnsup], [LPanic], [c_poison],
     [c_panics];
   * the mutex is taken with
       .lock().unwrap_or_else(|poisoned| poisoned.into_inner())
     i.e. a poisoned mutex is acquired like a healthy one (the () it guards
     has no invariant to protect): [step] never reads [c_poison]. What
     `.lock().unwrap()` would do instead is [step_strict] (a counterfactual,
     for the refutation Props_C09.C09_unwrap_on_poison_refuted only). *)
From stdpp Require Import gmap.
From Coq Require Import NArith.
From RV Require Import Rib.RibModel.

(* one store-level action of a writer *)
Inductive act :=
| AIns (p : payload)               (* Rib::insert_prefix: store.insert / mark_mui_as_withdrawn_for_prefix *)
| AMark (fs : list N) (m : N)      (* Rib::withdraw_for_ingress(m, ..): mark m in the bitmaps of families fs, in this order *)
| AUnsup (m : N) (f : N).          (* Rib::withdraw_for_ingress(m, Some f), f none of the four families: lock, then panic! *)

Definition fams_of (fo : option N) : list N :=
  match fo with Some f => [f] | None => all_fams end.

(* the families withdraw_for_ingress has an arm for: 0..3 (RibModel) *)
Definition fam_supported (f : N) : bool := (f <? 4)%N.
(* the family of a request that ends in the panic! arm *)
Definition unsupported (fo : option N) : option N :=
  match fo with Some f => if fam_supported f then None else Some f | None => None end.

Definition acts_of_update (u : update) : list act :=
  match u with
  | UBulk ps => map AIns ps
  | UWithdraw m fo => match unsupported fo with Some f => [AUnsup m f] | None => [AMark (fams_of fo) m] end
  | UWithdrawBulk ms => map (AMark all_fams) ms
  | UPass => []
  end.
Definition acts_of_prog (p : list update) : list act := flat_map acts_of_update p.

(* where a thread is inside the call it is executing *)
Inductive lst :=
| LIdle                                                    (* between two store-level actions *)
| LMark (fs : list N) (m : N)                              (* inside withdraw_for_ingress; bitmaps fs still to do *)
| LCas (fs : list N) (m : N) (f : N) (st : N) (new : gset (N * N))
    (* inside the store's loop for bitmap f: `current` has stamp st, `new` is the value the next CAS tries to install *)
| LPanic (m : N) (f : N).                                  (* inside withdraw_for_ingress (guard held), at the panic! arm *)

(* a call that ended in a panic instead of returning *)
Inductive pan :=
| PUnsup (m : N) (f : N)      (* panic!("no support to withdraw {:?} yet") of withdraw_for_ingress(m, Some f) *)
| PPoison (m : N).            (* PoisonError unwrapped by withdraw_for_ingress(m, ..): ONLY in [step_strict], never in [step] *)

Record thr := MkThr { t_todo : list act; t_loc : lst }.

Record cst := MkC {
  c_rib : rib;                 (* records + the four bitmaps, as RibModel sees them: wdm = { (family, id) } *)
  c_stamps : gmap N N;         (* per bitmap: identity of the current heap object *)
  c_lock : option nat;         (* the repair's mutex: who is inside withdraw_for_ingress *)
  c_thr : list thr;
  c_fail : N;                  (* failed compare-and-swap attempts so far *)
  c_poison : bool;             (* the poison flag of the mutex (std::sync::Mutex: set when a guard is dropped during a panic, never cleared) *)
  c_panics : list (nat * pan) }. (* calls that panicked so far, oldest first: (thread, what) *)

Definition stamp (c : cst) (f : N) : N := default 0%N (c_stamps c !! f).

(* the content of bitmap f / of the other bitmaps *)
Definition fam_part (f : N) (s : gset (N * N)) : gset (N * N) := filter (fun x => x.1 = f) s.
Definition fam_rest (f : N) (s : gset (N * N)) : gset (N * N) := filter (fun x => x.1 <> f) s.

(* one shared-memory access (or one atomic store call) of thread t *)
Definition step (ser : bool) (c : cst) (t : nat) : cst :=
  match c_thr c !! t with
  | None => c
  | Some th =>
    match t_loc th with
    | LIdle =>
      match t_todo th with
      | [] => c
      | AIns p :: rest =>
          MkC (rib_insert_payload (c_rib c) p) (c_stamps c) (c_lock c)
              (<[t := MkThr rest LIdle]> (c_thr c)) (c_fail c) (c_poison c) (c_panics c)
      | AMark fs m :: rest =>
          if ser then
            match c_lock c with
            | Some _ => c                                   (* blocked on the mutex *)
            | None => MkC (c_rib c) (c_stamps c) (Some t)   (* poisoned or not: unwrap_or_else(into_inner) *)
                          (<[t := MkThr rest (LMark fs m)]> (c_thr c)) (c_fail c) (c_poison c) (c_panics c)
            end
          else MkC (c_rib c) (c_stamps c) (c_lock c)
                   (<[t := MkThr rest (LMark fs m)]> (c_thr c)) (c_fail c) (c_poison c) (c_panics c)
      | AUnsup m f :: rest =>                               (* the same entry: the mutex comes before the match *)
          if ser then
            match c_lock c with
            | Some _ => c
            | None => MkC (c_rib c) (c_stamps c) (Some t)
                          (<[t := MkThr rest (LPanic m f)]> (c_thr c)) (c_fail c) (c_poison c) (c_panics c)
            end
          else MkC (c_rib c) (c_stamps c) (c_lock c)
                   (<[t := MkThr rest (LPanic m f)]> (c_thr c)) (c_fail c) (c_poison c) (c_panics c)
      end
    | LMark [] m =>                                         (* withdraw_for_ingress returns (the guard is dropped) *)
        MkC (c_rib c) (c_stamps c) (if ser then None else c_lock c)
            (<[t := MkThr (t_todo th) LIdle]> (c_thr c)) (c_fail c) (c_poison c) (c_panics c)
    | LMark (f :: fs) m =>                                  (* current = load(); new = clone + id *)
        MkC (c_rib c) (c_stamps c) (c_lock c)
            (<[t := MkThr (t_todo th) (LCas fs m f (stamp c f) ({[ (f, m) ]} ∪ wdm (c_rib c)))]> (c_thr c))
            (c_fail c) (c_poison c) (c_panics c)
    | LCas fs m f st new =>
        if bool_decide (stamp c f = st) then                (* CAS succeeds: bitmap f := new *)
          MkC (MkRib (recs (c_rib c)) (fam_part f new ∪ fam_rest f (wdm (c_rib c))))
              (<[f := (st + 1)%N]> (c_stamps c)) (c_lock c)
              (<[t := MkThr (t_todo th) (LMark fs m)]> (c_thr c)) (c_fail c) (c_poison c) (c_panics c)
        else                                                (* CAS fails: new = clone(updated); current stays *)
          MkC (c_rib c) (c_stamps c) (c_lock c)
              (<[t := MkThr (t_todo th) (LCas fs m f st (wdm (c_rib c)))]> (c_thr c))
              (c_fail c + 1)%N (c_poison c) (c_panics c)
    | LPanic m f =>                                         (* panic!: nothing marked; unwinding drops the guard: *)
        MkC (c_rib c) (c_stamps c) (if ser then None else c_lock c)      (* the mutex is released ... *)
            (<[t := MkThr (t_todo th) LIdle]> (c_thr c)) (c_fail c)
            (if ser then true else c_poison c)                           (* ... and poisoned; *)
            (c_panics c ++ [(t, PUnsup m f)])                            (* the call is over, its outcome is the panic *)
    end
  end.

Definition run (ser : bool) (c : cst) (s : list nat) : cst := fold_left (step ser) s c.

Definition init (progs : list (list update)) : cst :=
  MkC rib_empty ∅ None (map (fun p => MkThr (acts_of_prog p) LIdle) progs) 0%N false [].

Definition thr_done (th : thr) : bool :=
  match t_todo th, t_loc th with [], LIdle => true | _, _ => false end.
Definition all_done (c : cst) : bool := forallb thr_done (c_thr c).
Definition done_at (c : cst) (t : nat) : bool :=
  match c_thr c !! t with Some th => thr_done th | None => true end.

(* can thread t make a step that changes something? *)
Definition enabled (c : cst) (t : nat) : bool :=
  match c_thr c !! t with
  | None => false
  | Some th =>
    match t_loc th, t_todo th with
    | LIdle, [] => false
    | LIdle, AMark _ _ :: _ => match c_lock c with None => true | Some _ => false end
    | LIdle, AUnsup _ _ :: _ => match c_lock c with None => true | Some _ => false end
    | _, _ => true
    end
  end.

Fixpoint nsum (l : list nat) : nat := match l with [] => 0 | x :: l' => x + nsum l' end.

(* number of steps an action / a thread / the system still needs (serialised code) *)
Definition act_cost (a : act) : nat :=
  match a with AIns _ => 1 | AMark fs _ => 2 + 2 * length fs | AUnsup _ _ => 2 end.
Definition loc_cost (l : lst) : nat :=
  match l with LIdle => 0 | LMark fs _ => 1 + 2 * length fs | LCas fs _ _ _ _ => 2 + 2 * length fs | LPanic _ _ => 1 end.
Definition thr_work (th : thr) : nat := loc_cost (t_loc th) + nsum (map act_cost (t_todo th)).
Definition work (c : cst) : nat := nsum (map thr_work (c_thr c)).
Definition upd_cost (u : update) : nat := nsum (map act_cost (acts_of_update u)).

(* n consecutive steps of one thread (how the correspondence engine executes
   one whole Update on behalf of a thread) *)
Definition steps (ser : bool) (n : nat) (c : cst) (t : nat) : cst := run ser c (repeat t n).

(* a schedule made of blocks in each of which every thread gets at least one turn *)
Definition covers (n : nat) (b : list nat) : Prop := forall t, t < n -> In t b.

(* ---- which ingress ids a program touches (ownership discipline) ---- *)
Definition upd_muis (u : update) : list N :=
  match u with
  | UBulk ps => map (fun p => k_mui (p_key p)) ps
  | UWithdraw m _ => [m]
  | UWithdrawBulk ms => ms
  | UPass => []
  end.
Definition prog_muis (p : list update) : list N := flat_map upd_muis p.

(* writers own disjoint sets of ingress ids *)
Definition disjoint_ids (progs : list (list update)) : Prop :=
  forall i j pi pj m, progs !! i = Some pi -> progs !! j = Some pj ->
    In m (prog_muis pi) -> In m (prog_muis pj) -> i = j.

(* a session-wide withdrawal of id m (families fo: all, or one of the four) is part of program p *)
Definition withdraws (p : list update) (m : N) (fo : option N) : Prop :=
  (In (UWithdraw m fo) p /\ unsupported fo = None) \/ (fo = None /\ exists ms, In (UWithdrawBulk ms) p /\ In m ms).

(* ---- what an Update does to the RIB / which of its calls panic ---- *)
(* a withdrawal for a family the RIB has no arm for changes nothing *)
Definition eff_update (u : update) : update :=
  match u with
  | UWithdraw m fo => match unsupported fo with Some _ => UPass | None => u end
  | _ => u
  end.
Definition effective (p : list update) : list update := map eff_update p.
Definition upd_pans (u : update) : list pan :=
  match u with
  | UWithdraw m fo => match unsupported fo with Some f => [PUnsup m f] | None => [] end
  | _ => []
  end.
(* the panics of thread t in a log *)
Fixpoint pans_of (t : nat) (l : list (nat * pan)) : list pan :=
  match l with
  | [] => []
  | (t', x) :: l' => if Nat.eqb t' t then x :: pans_of t l' else pans_of t l'
  end.

(* ---- the smallest contended scenario: two sessions lost at the same time ---- *)
Definition livelock_progs : list (list update) := [[UWithdraw 1%N None]; [UWithdraw 2%N None]].
(* t0 calls, loads; t1 calls, loads the same object; t0's CAS succeeds; t1's CAS fails *)
Definition livelock_prefix : list nat := [0; 0; 1; 1; 0; 1]%nat.

(* ---- a concrete non-trivial scenario (Props_C09.C09_example) ---- *)
Definition ex_key (f p m : N) : rkey := (f, p, m).
Definition example_progs : list (list update) :=
  [ [UBulk [MkPay (ex_key 0 7 1) true 5; MkPay (ex_key 0 8 1) true 5]; UBulk [MkPay (ex_key 0 7 1) true 6];
     UBulk [MkPay (ex_key 0 8 1) false 0]]
  ; [UBulk [MkPay (ex_key 0 7 2) true 3; MkPay (ex_key 1 7 2) true 3]; UWithdraw 2 (Some 0)]
  ; [UBulk [MkPay (ex_key 0 7 3) true 4]; UWithdrawBulk [3; 4]; UBulk [MkPay (ex_key 2 7 4) true 9]] ]%N.
Definition example_sched : list nat := concat (repeat [2; 0; 1; 1; 2; 0] 30).
(* decidable form of disjoint_ids *)
Definition disjoint_idsb (progs : list (list update)) : bool :=
  forallb (fun i => forallb (fun j => Nat.eqb i j ||
      forallb (fun m => negb (existsb (N.eqb m) (prog_muis (default [] (progs !! j)))))
              (prog_muis (default [] (progs !! i))))
    (seq 0 (length progs))) (seq 0 (length progs)).

(* ---- COUNTERFACTUAL, not the code: the mutex taken with the usual idiom
   `.lock().unwrap()`. On a poisoned mutex lock() waits for the mutex like any
   other caller and then returns Err(PoisonError); unwrap panics before anything
   is marked (the guard inside the error is dropped: released, still poisoned);
   the call is over. Everything else is [step true]. ---- *)
Definition step_strict (c : cst) (t : nat) : cst :=
  match c_thr c !! t with
  | None => c
  | Some th =>
    match t_loc th, t_todo th, c_lock c, c_poison c with
    | LIdle, AMark _ m :: rest, None, true
    | LIdle, AUnsup m _ :: rest, None, true =>
        MkC (c_rib c) (c_stamps c) None (<[t := MkThr rest LIdle]> (c_thr c)) (c_fail c) true
            (c_panics c ++ [(t, PPoison m)])
    | _, _, _, _ => step true c t
    end
  end.
Definition run_strict (c : cst) (s : list nat) : cst := fold_left step_strict s c.

(* ---- one session asks for a family the RIB cannot withdraw (9: IPv4 FlowSpec in
   the engines' numbering), later two other sessions go down ---- *)
Definition poison_progs : list (list update) :=
  [ [UBulk [MkPay (ex_key 0 7 1) true 5]; UWithdraw 1 (Some 9)]
  ; [UBulk [MkPay (ex_key 0 7 2) true 3]; UWithdraw 2 None]
  ; [UBulk [MkPay (ex_key 1 7 3) true 4; MkPay (ex_key 2 8 3) true 4]; UWithdrawBulk [3]] ]%N.
(* session 1 first (its route, the lock, the panic), then the other two, interleaved *)
Definition poison_sched : list nat := [0; 0; 0] ++ concat (repeat [1; 2] 24).
