From stdpp Require Import gmap.
From Coq Require Import NArith Lia.
From RV Require Import Rib.RibModel.

(* ---- the RIB as a fold over single events ---- *)
Definition rib_ev (r : rib) (e : ev) : rib :=
  match e with
  | EAnn k a => rib_insert_payload r (MkPay k true a)
  | EWdr k => rib_insert_payload r (MkPay k false 0%N)
  | EDown m f => rib_withdraw_mui r m f
  end.

Lemma rib_insert_payload_ev r p : rib_insert_payload r p = rib_ev r (ev_of_payload p).
Proof. destruct p as [k [] a]; reflexivity. Qed.

Lemma rib_apply_evs u : forall r, rib_apply r u = fold_left rib_ev (evs_of_update u) r.
Proof.
  destruct u as [ps|m f|ms|]; intros r; cbn [rib_apply evs_of_update fold_left]; try reflexivity.
  - revert r. induction ps as [|p ps IH]; intros r; cbn [fold_left map]; [reflexivity|].
    rewrite IH, rib_insert_payload_ev. reflexivity.
  - revert r. induction ms as [|m ms IH]; intros r; cbn [fold_left map]; [reflexivity|]. apply IH.
Qed.

Lemma rib_run_evs us : forall r, fold_left rib_apply us r = fold_left rib_ev (evs_of us) r.
Proof.
  induction us as [|u us IH]; intros r; [reflexivity|].
  unfold evs_of. cbn [fold_left map concat]. rewrite fold_left_app, <- rib_apply_evs. apply IH.
Qed.

Lemma bool_ext_iff (a b : bool) : (a = true <-> b = true) -> a = b.
Proof. destruct a, b; intros [H1 H2]; try reflexivity; [symmetry; apply H1|apply H2]; reflexivity. Qed.

(* ---- raw record and marker ---- *)
Definition raw (r : rib) (k : rkey) : option (bool * N) :=
  match recs r !! k with Some rc => Some (r_active rc, r_attrs rc) | None => None end.
Definition marked (r : rib) (k : rkey) : bool := bool_decide ((k_fam k, k_mui k) ∈ wdm r).

Lemma rib_lookup_raw r k :
  rib_lookup r k = match raw r k with Some (s, a) => Some (s && negb (marked r k), a) | None => None end.
Proof. unfold rib_lookup, raw, marked. destruct (recs r !! k); reflexivity. Qed.

Definition raw_step (k : rkey) (acc : option (bool * N)) (e : ev) : option (bool * N) :=
  match e with
  | EAnn k' a => if bool_decide (k' = k) then Some (true, a) else acc
  | EWdr k' => if bool_decide (k' = k) then (match acc with Some (_, a) => Some (false, a) | None => None end) else acc
  | EDown _ _ => acc
  end.

Lemma raw_rib_ev r e k : raw (rib_ev r e) k = raw_step k (raw r k) e.
Proof.
  destruct e as [k' a|k'|m f]; cbn [rib_ev raw_step].
  - unfold rib_insert_payload, raw. cbn [p_active p_key p_attrs recs].
    destruct (decide (k' = k)) as [->|Hne].
    + rewrite bool_decide_true by reflexivity. rewrite lookup_insert. reflexivity.
    + rewrite bool_decide_false by exact Hne. rewrite lookup_insert_ne by exact Hne. reflexivity.
  - unfold rib_insert_payload, raw. cbn [p_active p_key p_attrs].
    destruct (decide (k' = k)) as [->|Hne].
    + rewrite bool_decide_true by reflexivity.
      destruct (recs r !! k) as [old|] eqn:E; cbn [recs]; [rewrite lookup_insert|rewrite E]; reflexivity.
    + rewrite bool_decide_false by exact Hne.
      destruct (recs r !! k') as [old|] eqn:E; cbn [recs]; [rewrite lookup_insert_ne by exact Hne|]; reflexivity.
  - unfold rib_withdraw_mui, raw. destruct f; reflexivity.
Qed.

Lemma elem_all_fams m k :
  (k_fam k, k_mui k) ∈ (list_to_set (map (fun f => (f, m)) all_fams) : gset (N * N)) <->
  k_mui k = m /\ (k_fam k < 4)%N.
Proof.
  rewrite elem_of_list_to_set, elem_of_list_fmap. unfold all_fams. split.
  - intros (f' & [= Hf Hm] & Hin). split; [congruence|].
    rewrite Hf. repeat (apply elem_of_cons in Hin as [->|Hin]; [lia|]). inversion Hin.
  - intros [Hm Hf]. exists (k_fam k). split; [congruence|].
    assert (k_fam k = 0 \/ k_fam k = 1 \/ k_fam k = 2 \/ k_fam k = 3)%N as [-> | [-> | [-> | ->]]] by lia;
      repeat constructor.
Qed.

Lemma marked_rib_ev r e k :
  marked (rib_ev r e) k =
  marked r k || match e with EDown m f => down_hits m f k | _ => false end.
Proof.
  destruct e as [k' a|k'|m f]; cbn [rib_ev].
  - unfold rib_insert_payload, marked. cbn. rewrite orb_false_r. reflexivity.
  - unfold rib_insert_payload, marked. cbn [p_active p_key]. rewrite orb_false_r.
    destruct (recs r !! k'); reflexivity.
  - unfold rib_withdraw_mui, marked, down_hits. destruct f as [f|]; cbn [wdm].
    + apply bool_ext_iff. rewrite orb_true_iff, andb_true_iff, !bool_decide_eq_true.
      rewrite elem_of_union, elem_of_singleton. split.
      * intros [[= Hf Hm]|H]; [right; split; congruence|left; exact H].
      * intros [H|[Hm Hf]]; [right; exact H|left; f_equal; congruence].
    + apply bool_ext_iff. rewrite orb_true_iff, andb_true_iff, !bool_decide_eq_true.
      rewrite elem_of_union, elem_all_fams. tauto.
Qed.

Lemma raw_fold h : forall r k, raw (fold_left rib_ev h r) k = fold_left (raw_step k) h (raw r k).
Proof. induction h as [|e h IH]; intros r k; cbn [fold_left]; [reflexivity|]. rewrite IH, raw_rib_ev. reflexivity. Qed.

Lemma marked_fold h : forall r k, marked (fold_left rib_ev h r) k = marked r k || downed h k.
Proof.
  induction h as [|e h IH]; intros r k; cbn [fold_left downed existsb]; [rewrite orb_false_r; reflexivity|].
  rewrite IH, marked_rib_ev, <- orb_assoc. reflexivity.
Qed.

(* spec and raw agree on presence and attributes; and entirely when no session-wide withdrawal hit k *)
Definition same_attrs (x y : option (bool * N)) : Prop :=
  match x, y with Some (_, a), Some (_, b) => a = b | None, None => True | _, _ => False end.

Lemma spec_raw_attrs h k : forall x y, same_attrs x y ->
  same_attrs (fold_left (spec_step k) h x) (fold_left (raw_step k) h y).
Proof.
  induction h as [|e h IH]; intros x y Hxy; cbn [fold_left]; [exact Hxy|]. apply IH.
  destruct e as [k' a|k'|m f]; cbn [spec_step raw_step].
  - destruct (bool_decide (k' = k)); [reflexivity|exact Hxy].
  - destruct (bool_decide (k' = k)); [|exact Hxy].
    destruct x as [[? ?]|], y as [[? ?]|]; cbn in *; auto.
  - destruct (down_hits m f k); [|exact Hxy].
    destruct x as [[? ?]|], y as [[? ?]|]; cbn in *; auto.
Qed.

Lemma spec_raw_nodown h k : forall x, downed h k = false ->
  fold_left (spec_step k) h x = fold_left (raw_step k) h x.
Proof.
  induction h as [|e h IH]; intros x Hd; cbn [fold_left]; [reflexivity|].
  cbn [downed existsb] in Hd. apply orb_false_iff in Hd as [He Hd].
  rewrite <- IH by exact Hd. f_equal.
  destruct e as [k' a|k'|m f]; cbn [spec_step raw_step]; try reflexivity. rewrite He. reflexivity.
Qed.

(* MAIN: what the RIB shows = the property's reading, except that a session-wide
   withdrawal is sticky (known finding C03-1). *)
Theorem rib_lookup_spec us k :
  rib_lookup (rib_run us) k =
  match spec_lookup (evs_of us) k with
  | Some (s, a) => Some (s && negb (downed (evs_of us) k), a)
  | None => None
  end.
Proof.
  unfold rib_run. rewrite rib_run_evs, rib_lookup_raw, raw_fold, marked_fold.
  set (h := evs_of us). unfold spec_lookup.
  replace (raw rib_empty k) with (@None (bool * N)) by (unfold raw; cbn; rewrite lookup_empty; reflexivity).
  replace (marked rib_empty k) with false by (unfold marked; cbn; symmetry; apply bool_decide_false; set_solver).
  cbn [orb].
  destruct (downed h k) eqn:Hd.
  - pose proof (spec_raw_attrs h k None None I) as Ha.
    destruct (fold_left (spec_step k) h None) as [[s a]|], (fold_left (raw_step k) h None) as [[s' a']|];
      cbn in Ha; try contradiction; [|reflexivity].
    subst. cbn. rewrite !andb_false_r. reflexivity.
  - rewrite (spec_raw_nodown h k None Hd). reflexivity.
Qed.

Corollary rib_lookup_spec_exact us k :
  known_c03 (evs_of us) k = false -> rib_lookup (rib_run us) k = spec_lookup (evs_of us) k.
Proof.
  intros Hk. rewrite rib_lookup_spec. unfold known_c03 in Hk.
  destruct (spec_lookup (evs_of us) k) as [[s a]|]; [|reflexivity].
  destruct (downed (evs_of us) k); cbn in *; [|rewrite andb_true_r; reflexivity].
  destruct s; [discriminate|reflexivity].
Qed.

Corollary rib_lookup_known us k :
  known_c03 (evs_of us) k = true ->
  exists a, spec_lookup (evs_of us) k = Some (true, a) /\ rib_lookup (rib_run us) k = Some (false, a).
Proof.
  intros Hk. rewrite rib_lookup_spec. unfold known_c03 in Hk. apply andb_true_iff in Hk as [Hd Hs].
  destruct (spec_lookup (evs_of us) k) as [[[] a]|]; try discriminate.
  exists a. rewrite Hd. split; reflexivity.
Qed.

(* withdrawn stays withdrawn until re-announced; attributes kept *)
Corollary not_reannounced_stays_withdrawn us k a :
  spec_lookup (evs_of us) k = Some (false, a) -> rib_lookup (rib_run us) k = Some (false, a).
Proof. intros H. rewrite rib_lookup_spec, H. reflexivity. Qed.

(* ---- frame: a session-wide withdrawal touches exactly its own (family, id) ---- *)
Lemma withdraw_mui_frame r m f k :
  rib_lookup (rib_withdraw_mui r m f) k =
  if down_hits m f k then match rib_lookup r k with Some (_, a) => Some (false, a) | None => None end
  else rib_lookup r k.
Proof.
  rewrite !rib_lookup_raw.
  change (rib_withdraw_mui r m f) with (rib_ev r (EDown m f)).
  rewrite raw_rib_ev, marked_rib_ev. cbn [raw_step].
  destruct (raw r k) as [[s a]|]; [|destruct (down_hits m f k); reflexivity].
  destruct (down_hits m f k); [rewrite orb_true_r, andb_false_r; reflexivity|rewrite orb_false_r; reflexivity].
Qed.

Lemma withdraw_bulk_frame ms : forall r k,
  rib_lookup (fold_left (fun r m => rib_withdraw_mui r m None) ms r) k =
  if existsb (fun m => down_hits m None k) ms
  then match rib_lookup r k with Some (_, a) => Some (false, a) | None => None end
  else rib_lookup r k.
Proof.
  induction ms as [|m ms IH]; intros r k; cbn [fold_left existsb]; [reflexivity|].
  rewrite IH, withdraw_mui_frame.
  destruct (down_hits m None k); cbn [orb].
  - destruct (existsb _ ms); destruct (rib_lookup r k) as [[? ?]|]; reflexivity.
  - reflexivity.
Qed.

(* an announcement or withdrawal of one key changes no other key *)
Lemma insert_payload_frame r p k :
  k <> p_key p -> rib_lookup (rib_insert_payload r p) k = rib_lookup r k.
Proof.
  intros Hne. rewrite !rib_lookup_raw, rib_insert_payload_ev, raw_rib_ev, marked_rib_ev.
  unfold ev_of_payload. destruct (p_active p); cbn [raw_step];
    rewrite bool_decide_false by congruence; rewrite orb_false_r; reflexivity.
Qed.

(* ---- the per-prefix listing ---- *)
Lemma rib_lookup_some r k x : rib_lookup r k = Some x -> exists rc, recs r !! k = Some rc.
Proof. unfold rib_lookup. destruct (recs r !! k) as [rc|]; [eauto|discriminate]. Qed.

Lemma elem_of_rib_entries r fam pfx m s a :
  (m, s, a) ∈ rib_entries r fam pfx <-> rib_lookup r (fam, pfx, m) = Some (s, a).
Proof.
  unfold rib_entries. rewrite elem_of_list_omap. split.
  - intros ([k rc] & Hin & Hx). cbv zeta in Hx. cbn [fst] in Hx.
    destruct (bool_decide (k_fam k = fam /\ k_pfx k = pfx)) eqn:Hb; [|discriminate].
    apply bool_decide_eq_true in Hb as [Hf Hp].
    destruct (rib_lookup r k) as [[s' a']|] eqn:El; [|discriminate].
    injection Hx as Hm Hs Ha. destruct k as [[f p] m']. unfold k_fam, k_pfx, k_mui in *. cbn in Hf, Hp, Hm.
    rewrite <- Hf, <- Hp, <- Hm, <- Hs, <- Ha. exact El.
  - intros Hl. destruct (rib_lookup_some _ _ _ Hl) as [rc E].
    exists ((fam, pfx, m), rc). split; [apply elem_of_map_to_list, E|].
    cbn [fst]. rewrite bool_decide_true by (split; reflexivity).
    rewrite Hl. reflexivity.
Qed.

Lemma rib_entries_nodup r fam pfx : NoDup ((fun x : N * bool * N => x.1.1) <$> rib_entries r fam pfx).
Proof.
  unfold rib_entries.
  pose proof (NoDup_fst_map_to_list (recs r)) as Hfst.
  induction (map_to_list (recs r)) as [|[k rc] l IH]; cbn; [constructor|].
  cbn in Hfst. apply NoDup_cons in Hfst as [Hk Hfl].
  destruct (bool_decide (k_fam k = fam /\ k_pfx k = pfx)) eqn:Hb; cbn; [|apply IH; assumption].
  destruct (rib_lookup r k) as [[s a]|]; cbn; [|apply IH; assumption].
  apply NoDup_cons. split; [|apply IH; assumption].
  intros Hin. apply elem_of_list_fmap in Hin as ([[m' s'] a'] & Hm & Hin).
  cbn in Hm. apply elem_of_list_omap in Hin as ([k' rc'] & Hin' & Hx). cbv zeta in Hx. cbn [fst] in Hx.
  destruct (bool_decide (k_fam k' = fam /\ k_pfx k' = pfx)) eqn:Hb'; [|discriminate].
  destruct (rib_lookup r k') as [[? ?]|]; [|discriminate]. injection Hx as Hm' _ _.
  apply bool_decide_eq_true in Hb as [Hf Hp]. apply bool_decide_eq_true in Hb' as [Hf' Hp'].
  assert (k' = k) as ->.
  { destruct k as [[? ?] ?], k' as [[? ?] ?]. unfold k_fam, k_pfx, k_mui in *. cbn in *. congruence. }
  apply Hk. apply elem_of_list_fmap. exists (k, rc'). split; [reflexivity|exact Hin'].
Qed.
