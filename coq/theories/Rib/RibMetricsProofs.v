(* The RIB unit's own counters (RibModel.v, second part): each counter is the number of matching
   routes of the history, the two "size" metrics are the number of held prefixes, counters only grow;
   where the metric descriptions ask for something else the departure is shown on a witness. *)
From stdpp Require Import gmap.
From Coq Require Import NArith ZArith Lia.
From RV Require Import Rib.RibModel.

(* ---- the carried fold ---- *)
Lemma ribx_payloads_fst {A} (f : rib -> A -> payload -> A) ps : forall s,
  (fold_left (ribx_payload f) ps s).1 = fold_left rib_insert_payload ps s.1.
Proof. induction ps as [|p ps IH]; intros s; cbn [fold_left]; [reflexivity|]. rewrite IH. reflexivity. Qed.

Lemma ribx_apply_fst {A} (f : rib -> A -> payload -> A) s u : (ribx_apply f s u).1 = rib_apply s.1 u.
Proof. destruct u; cbn [ribx_apply rib_apply fst]; try reflexivity. apply ribx_payloads_fst. Qed.

Lemma ribx_fold_fst {A} (f : rib -> A -> payload -> A) us : forall s,
  (fold_left (ribx_apply f) us s).1 = fold_left rib_apply us s.1.
Proof. induction us as [|u us IH]; intros s; cbn [fold_left]; [reflexivity|]. rewrite IH, ribx_apply_fst. reflexivity. Qed.

Lemma ribx_run_fst {A} (f : rib -> A -> payload -> A) a0 us : (ribx_run f a0 us).1 = rib_run us.
Proof. unfold ribx_run, rib_run. rewrite ribx_fold_fst. reflexivity. Qed.

Lemma ribm_run_rib us : (ribm_run us).1 = rib_run us.
Proof. apply ribx_run_fst. Qed.

(* session-wide withdrawals leave the records alone *)
Lemma recs_withdraw_mui r m f : recs (rib_withdraw_mui r m f) = recs r.
Proof. destruct f; reflexivity. Qed.
Lemma recs_apply_nonbulk r u : match u with UBulk _ => False | _ => True end -> recs (rib_apply r u) = recs r.
Proof.
  destruct u as [ps|m f|ms|]; intros Hu; [destruct Hu| | |]; cbn [rib_apply].
  - apply recs_withdraw_mui.
  - revert r. induction ms as [|m ms IH]; intros r; cbn [fold_left]; [reflexivity|]. rewrite IH. apply recs_withdraw_mui.
  - reflexivity.
Qed.

(* an invariant of store and carried value *)
Lemma ribx_inv {A} (f : rib -> A -> payload -> A) (P : rib -> A -> Prop) :
  (forall r a p, P r a -> P (rib_insert_payload r p) (f r a p)) ->
  (forall r r' a, recs r' = recs r -> P r a -> P r' a) ->
  forall us s, P s.1 s.2 -> P (fold_left (ribx_apply f) us s).1 (fold_left (ribx_apply f) us s).2.
Proof.
  intros Hp Hn. induction us as [|u us IH]; intros s Hs; cbn [fold_left]; [exact Hs|]. apply IH.
  destruct u as [ps|m fm|ms|]; cbn [ribx_apply].
  - clear IH. revert s Hs. induction ps as [|p ps IHp]; intros s Hs; cbn [fold_left]; [exact Hs|].
    apply IHp. cbn [ribx_payload fst snd]. apply Hp, Hs.
  - cbn [fst snd]. eapply Hn; [|exact Hs]. apply (recs_apply_nonbulk _ (UWithdraw m fm)). exact I.
  - cbn [fst snd]. eapply Hn; [|exact Hs]. apply (recs_apply_nonbulk _ (UWithdrawBulk ms)). exact I.
  - cbn [fst snd]. eapply Hn; [|exact Hs]. reflexivity.
Qed.

(* two carried values over the same history *)
Lemma ribx_rel {A B} (f : rib -> A -> payload -> A) (g : rib -> B -> payload -> B) (R : A -> B -> Prop) :
  (forall r a b p, R a b -> R (f r a p) (g r b p)) ->
  forall us s t, s.1 = t.1 -> R s.2 t.2 ->
    R (fold_left (ribx_apply f) us s).2 (fold_left (ribx_apply g) us t).2.
Proof.
  intros Hp. induction us as [|u us IH]; intros s t He Hr; cbn [fold_left]; [exact Hr|].
  apply IH; [rewrite !ribx_apply_fst, He; reflexivity|].
  destruct u as [ps|m fm|ms|]; cbn [ribx_apply snd]; try exact Hr.
  clear IH. revert s t He Hr. induction ps as [|p ps IHp]; intros s t He Hr; cbn [fold_left]; [exact Hr|].
  apply IHp; cbn [ribx_payload fst snd]; [rewrite He; reflexivity|]. rewrite He. apply Hp, Hr.
Qed.

(* ---- held prefixes ---- *)
Lemma rib_pfxs_insert r p :
  rib_pfxs (rib_insert_payload r p) = if p_active p then {[ (p_key p).1 ]} ∪ rib_pfxs r else rib_pfxs r.
Proof.
  unfold rib_pfxs, rib_insert_payload. destruct (p_active p); cbn [recs].
  - rewrite dom_insert_L, set_map_union_L, set_map_singleton_L. reflexivity.
  - destruct (recs r !! p_key p) as [old|] eqn:E; cbn [recs]; [|reflexivity].
    rewrite dom_insert_lookup_L; [reflexivity|]. rewrite E. eexists; reflexivity.
Qed.

Lemma size_pfxs_insert r p :
  N.of_nat (size (rib_pfxs (rib_insert_payload r p))) =
  (N.of_nat (size (rib_pfxs r)) + match rclassify r p with RNew => 1 | _ => 0 end)%N.
Proof.
  rewrite rib_pfxs_insert. unfold rclassify, rib_holds. destruct (p_active p); [|case_bool_decide; lia].
  case_bool_decide as Hin.
  - replace ({[(p_key p).1]} ∪ rib_pfxs r) with (rib_pfxs r) by set_solver. lia.
  - rewrite size_union by set_solver. rewrite size_singleton. lia.
Qed.

Definition sizes_ok (r : rib) (m : rmet) : Prop :=
  rm_unique m = N.of_nat (size (rib_pfxs r)) /\ rm_items m = N.of_nat (size (rib_pfxs r)).

Lemma rib_gauges_are_sizes us :
  let s := ribm_run us in
  rm_unique s.2 = N.of_nat (size (rib_pfxs s.1)) /\ rm_items s.2 = N.of_nat (size (rib_pfxs s.1)).
Proof.
  cbn zeta. unfold ribm_run, ribx_run. apply (ribx_inv rmet_payload sizes_ok).
  - intros r a p [H1 H2]. unfold sizes_ok. rewrite size_pfxs_insert, <- H1. unfold rmet_payload.
    destruct (rclassify r p); cbn [rmet_bump rm_unique rm_items]; rewrite ?H2, ?H1; split; lia.
  - intros r r' a Hr [H1 H2]. unfold sizes_ok, rib_pfxs. rewrite Hr. split; assumption.
  - split; reflexivity.
Qed.

(* ---- counters count ---- *)
Lemma rcount_snoc c t x : rcount c (t ++ [x]) = (rcount c t + if rclass_eqb x.1 c then 1 else 0)%N.
Proof. induction t as [|y t IH]; cbn [app rcount]; [lia|]. rewrite IH. lia. Qed.

Definition counts_ok (m : rmet) (t : list (rclass * bool)) : Prop :=
  rm_unique m = rcount RNew t /\ rm_items m = rcount RNew t /\ rm_hard m = rcount RWMiss t /\
  rm_announced m = (Z.of_N (rcount RNew t) - Z.of_N (rcount RWHeld t))%Z /\
  rm_modified m = (rcount RMod t + rcount RWHeld t)%N /\ rm_withdrawn m = rcount RWHeld t /\ rm_wd_noann m = 0%N.

Lemma rib_counters_count us : counts_ok (ribm_run us).2 (rtrace us).
Proof.
  unfold ribm_run, rtrace, ribx_run. apply (ribx_rel rmet_payload rtrace_payload counts_ok); [|reflexivity|].
  - intros r a b p (H1 & H2 & H3 & H4 & H5 & H6 & H7). unfold counts_ok, rmet_payload, rtrace_payload.
    rewrite !rcount_snoc. cbn [fst].
    destruct (rclassify r p); cbn [rmet_bump rm_unique rm_items rm_hard rm_announced rm_modified rm_withdrawn rm_wd_noann rclass_eqb];
      rewrite ?H1, ?H2, ?H3, ?H4, ?H5, ?H6, ?H7; repeat split; lia.
  - cbn. repeat split.
Qed.

(* ---- counters only grow ---- *)
Definition rmet_le (m m' : rmet) : Prop :=
  (rm_unique m <= rm_unique m' /\ rm_items m <= rm_items m' /\ rm_hard m <= rm_hard m' /\
   rm_modified m <= rm_modified m' /\ rm_withdrawn m <= rm_withdrawn m' /\ rm_wd_noann m <= rm_wd_noann m')%N.

Lemma rmet_le_refl m : rmet_le m m.
Proof. unfold rmet_le. repeat split; lia. Qed.
Lemma rmet_le_trans a b c : rmet_le a b -> rmet_le b c -> rmet_le a c.
Proof. unfold rmet_le. intros (?&?&?&?&?&?) (?&?&?&?&?&?). repeat split; lia. Qed.
Lemma rmet_bump_le m c : rmet_le m (rmet_bump m c).
Proof. unfold rmet_le. destruct c; cbn; repeat split; lia. Qed.

Lemma ribm_apply_monotone s u : rmet_le s.2 (ribm_apply s u).2.
Proof.
  unfold ribm_apply. destruct u as [ps|m f|ms|]; cbn [ribx_apply snd]; try apply rmet_le_refl.
  revert s. induction ps as [|p ps IH]; intros s; cbn [fold_left]; [apply rmet_le_refl|].
  eapply rmet_le_trans; [|apply IH]. cbn [ribx_payload snd]. apply rmet_bump_le.
Qed.

Lemma ribm_run_monotone us u : rmet_le (ribm_run us).2 (ribm_run (us ++ [u])).2.
Proof. unfold ribm_run, ribx_run. rewrite fold_left_app. cbn [fold_left]. apply ribm_apply_monotone. Qed.

(* ---- where the descriptions of the metrics ask for something else ---- *)
Definition pay (f p i : N) (act : bool) (a : N) : payload := MkPay (f, p, i) act a.

(* two ids announce the same prefix: two routes stored, num_items says 1 *)
Definition items_witness : list update := [UBulk [pay 0 1 7 true 1]; UBulk [pay 0 1 8 true 2]]%N.
Lemma rib_items_not_routes_witness :
  rm_items (ribm_run items_witness).2 = 1%N /\ size (recs (ribm_run items_witness).1) = 2%nat.
Proof. vm_compute. split; reflexivity. Qed.

(* one route announced and withdrawn twice: no route is announced, the counter says -1 (rendered 18446744073709551615) *)
Definition announced_witness : list update := [UBulk [pay 0 1 7 true 1]; UBulk [pay 0 1 7 false 0]; UBulk [pay 0 1 7 false 0]]%N.
Lemma rib_announced_wraps_witness :
  rm_announced (ribm_run announced_witness).2 = (-1)%Z /\ rib_n_active (ribm_run announced_witness).1 = 0%N.
Proof. vm_compute. split; reflexivity. Qed.

(* a session-wide withdrawal leaves the counter of announced routes alone *)
Definition down_witness : list update := [UBulk [pay 0 1 7 true 1]; UWithdraw 7 None]%N.
Lemma rib_announced_ignores_session_down_witness :
  rm_announced (ribm_run down_witness).2 = 1%Z /\ rib_n_active (ribm_run down_witness).1 = 0%N.
Proof. vm_compute. split; reflexivity. Qed.

(* a withdrawal of a never announced route: counted as a hard insert failure, never as a withdrawal without announcement *)
Definition wd_witness : list update := [UBulk [pay 0 1 7 false 0]]%N.
Lemma rib_wd_without_announcement_witness :
  rm_wd_noann (ribm_run wd_witness).2 = 0%N /\ rm_hard (ribm_run wd_witness).2 = 1%N /\ rcount_wd_norec (rtrace wd_witness) = 1%N.
Proof. vm_compute. repeat split; reflexivity. Qed.


Lemma rib_counters_example :
  (ribm_run [UBulk [MkPay (0, 1, 7) true 1; MkPay (0, 2, 7) true 1]; UBulk [MkPay (0, 1, 8) true 2]; UBulk [MkPay (0, 2, 7) false 0];
             UBulk [MkPay (0, 3, 7) false 0]; UWithdraw 8 None])%N.2 = MkRmet 2 2 1 1%Z 2 1 0.
Proof. vm_compute. reflexivity. Qed.

(* ---- the strongest agreement that does hold for num_items: it is the number of records as long as no prefix is held for two ids ---- *)
Lemma size_set_map_fst_inj (X : gset rkey) :
  (forall k k', k ∈ X -> k' ∈ X -> k.1 = k'.1 -> k = k') ->
  size (set_map (D:=gset (N * N)) (fun k : rkey => k.1) X) = size X.
Proof.
  induction X as [|x X Hx IH] using set_ind_L; intros Hinj.
  - rewrite set_map_empty. rewrite !size_empty. reflexivity.
  - rewrite set_map_union_L, set_map_singleton_L.
    rewrite (size_union {[x]} X) by set_solver.
    rewrite size_union.
    + rewrite !size_singleton, IH; [reflexivity|]. intros k k' Hk Hk'. apply Hinj; set_solver.
    + intros y Hy1 Hy2. apply elem_of_singleton in Hy1. apply elem_of_map in Hy2 as [z [Hz1 Hz2]]. subst y.
      assert (z = x) as -> by (apply Hinj; [set_solver|set_solver|symmetry; exact Hz1]). contradiction.
Qed.

Lemma rib_items_partial us :
  let s := ribm_run us in
  (forall k k', is_Some (recs s.1 !! k) -> is_Some (recs s.1 !! k') -> k.1 = k'.1 -> k = k') ->
  rm_items s.2 = N.of_nat (size (recs s.1)).
Proof.
  cbn zeta. intros Hinj. destruct (rib_gauges_are_sizes us) as [_ H]. rewrite H. f_equal.
  unfold rib_pfxs. rewrite size_set_map_fst_inj; [apply size_dom|].
  intros k k' Hk Hk'. apply Hinj; apply elem_of_dom; assumption.
Qed.

(* the hypothesis holds on a history with two prefixes of one id *)
Lemma rib_items_partial_example :
  let s := ribm_run [UBulk [MkPay (0, 1, 7) true 1; MkPay (0, 2, 7) true 1]; UBulk [MkPay (0, 2, 7) false 0]]%N in
  rm_items s.2 = 2%N /\ size (recs s.1) = 2%nat.
Proof. vm_compute. split; reflexivity. Qed.
