(* Proofs about the concurrent-writers model RibConc.v (C09). *)
From stdpp Require Import gmap.
From Coq Require Import NArith Lia.
From RV Require Import Rib.RibModel Rib.RibProofs Rib.RibConc.

(* ------------------------------------------------------------------ *)
(* 1. every step is a stutter or one RibModel event                    *)
(* ------------------------------------------------------------------ *)

(* the event a step of thread t applies to the RIB, if any *)
Definition step_ev (c : cst) (t : nat) : option ev :=
  match c_thr c !! t with
  | None => None
  | Some th =>
    match t_loc th with
    | LIdle => match t_todo th with AIns p :: _ => Some (ev_of_payload p) | _ => None end
    | LCas fs m f st new => if bool_decide (stamp c f = st) then Some (EDown m (Some f)) else None
    | LMark _ _ => None
    | LPanic _ _ => None
    end
  end.

Definition ev_list (o : option ev) : list ev := match o with Some e => [e] | None => [] end.

(* what a thread parked in the store's loop knows about the bitmap: its
   `current` is not newer than the cell, and as long as the cell still is that
   object, `new` is the cell's content plus the thread's id *)
Definition snap_ok (c : cst) : Prop :=
  forall t th fs m f st new, c_thr c !! t = Some th -> t_loc th = LCas fs m f st new ->
    (st <= stamp c f)%N /\
    ((st = stamp c f) -> forall x : N * N, x.1 = f -> (x ∈ new <-> x = (f, m) \/ x ∈ wdm (c_rib c))).

Lemma stamp_insert c f v f' ri lk th fl po pa :
  stamp (MkC ri (<[f := v]> (c_stamps c)) lk th fl po pa) f' = if decide (f = f') then v else stamp c f'.
Proof.
  unfold stamp. cbn [c_stamps]. destruct (decide (f = f')) as [->|Hne].
  - rewrite lookup_insert. reflexivity.
  - rewrite lookup_insert_ne by exact Hne. reflexivity.
Qed.

Lemma stamp_keep c ri lk th fl po pa f : stamp (MkC ri (c_stamps c) lk th fl po pa) f = stamp c f.
Proof. reflexivity. Qed.

Lemma wdm_insert_payload r p : wdm (rib_insert_payload r p) = wdm r.
Proof. unfold rib_insert_payload. destruct (p_active p); [reflexivity|]. destruct (recs r !! p_key p); reflexivity. Qed.

Lemma elem_cas_write (f : N) (new w : gset (N * N)) (x : N * N) :
  x ∈ fam_part f new ∪ fam_rest f w <-> (x.1 = f /\ x ∈ new) \/ (x.1 <> f /\ x ∈ w).
Proof. unfold fam_part, fam_rest. rewrite elem_of_union, !elem_of_filter. tauto. Qed.

Lemma snap_ok_init progs : snap_ok (init progs).
Proof.
  intros t th fs m f st new Hth Hloc. unfold init in Hth. cbn [c_thr] in Hth.
  apply list_lookup_fmap_Some in Hth as (p & _ & ->). discriminate.
Qed.

(* thread lookup after a thread update *)
Lemma thr_lookup_insert (l : list thr) t t' th th' :
  <[t := th']> l !! t' = Some th -> (t = t' /\ th = th' /\ t < length l) \/ (t <> t' /\ l !! t' = Some th).
Proof.
  intros H. destruct (decide (t = t')) as [->|Hne].
  - left. assert (t' < length l) as Hlt.
    { apply lookup_lt_Some in H. rewrite insert_length in H. exact H. }
    rewrite list_lookup_insert in H by exact Hlt. split; [reflexivity|]. split; [congruence|exact Hlt].
  - right. rewrite list_lookup_insert_ne in H by exact Hne. auto.
Qed.

Lemma step_length ser c t : length (c_thr (step ser c t)) = length (c_thr c).
Proof.
  unfold step. destruct (c_thr c !! t) as [th0|]; [|reflexivity].
  destruct (t_loc th0) as [|fs m|fs m f st new|m f].
  - destruct (t_todo th0) as [|[p|fs m|m f] rest]; [reflexivity|cbn; apply insert_length| |];
      (destruct ser; [destruct (c_lock c)|]; [reflexivity|cbn; apply insert_length|cbn; apply insert_length]).
  - destruct fs; cbn; apply insert_length.
  - destruct (bool_decide _); cbn; apply insert_length.
  - cbn. apply insert_length.
Qed.

Lemma snap_ok_step ser c t : snap_ok c -> snap_ok (step ser c t).
Proof.
  intros Hok. unfold step.
  destruct (c_thr c !! t) as [th|] eqn:Eth; [|exact Hok].
  destruct (t_loc th) as [|fs m|fs m f st new|m f] eqn:Eloc.
  - destruct (t_todo th) as [|[p|fs m|m f] rest] eqn:Etodo; [exact Hok| | |].
    + intros t' th' fs' m' f' st' new' Hth' Hloc'. cbn [c_thr] in Hth'.
      apply thr_lookup_insert in Hth' as [(-> & -> & _)|(Hne & Hth')]; [discriminate|].
      rewrite !stamp_keep. cbn [c_rib]. rewrite wdm_insert_payload.
      exact (Hok _ _ _ _ _ _ _ Hth' Hloc').
    + assert (snap_ok (MkC (c_rib c) (c_stamps c) (Some t) (<[t:=MkThr rest (LMark fs m)]> (c_thr c)) (c_fail c) (c_poison c) (c_panics c)) /\
              snap_ok (MkC (c_rib c) (c_stamps c) (c_lock c) (<[t:=MkThr rest (LMark fs m)]> (c_thr c)) (c_fail c) (c_poison c) (c_panics c))) as [H1 H2].
      { split; intros t' th' fs' m' f' st' new' Hth' Hloc'; cbn [c_thr] in Hth';
          (apply thr_lookup_insert in Hth' as [(-> & -> & _)|(Hne & Hth')]; [discriminate|]);
          exact (Hok _ _ _ _ _ _ _ Hth' Hloc'). }
      destruct ser; [destruct (c_lock c); [exact Hok|exact H1]|exact H2].
    + assert (snap_ok (MkC (c_rib c) (c_stamps c) (Some t) (<[t:=MkThr rest (LPanic m f)]> (c_thr c)) (c_fail c) (c_poison c) (c_panics c)) /\
              snap_ok (MkC (c_rib c) (c_stamps c) (c_lock c) (<[t:=MkThr rest (LPanic m f)]> (c_thr c)) (c_fail c) (c_poison c) (c_panics c))) as [H1 H2].
      { split; intros t' th' fs' m' f' st' new' Hth' Hloc'; cbn [c_thr] in Hth';
          (apply thr_lookup_insert in Hth' as [(-> & -> & _)|(Hne & Hth')]; [discriminate|]);
          exact (Hok _ _ _ _ _ _ _ Hth' Hloc'). }
      destruct ser; [destruct (c_lock c); [exact Hok|exact H1]|exact H2].
  - destruct fs as [|f fs].
    + intros t' th' fs' m' f' st' new' Hth' Hloc'. cbn [c_thr] in Hth'.
      apply thr_lookup_insert in Hth' as [(-> & -> & _)|(Hne & Hth')]; [discriminate|].
      exact (Hok _ _ _ _ _ _ _ Hth' Hloc').
    + intros t' th' fs' m' f' st' new' Hth' Hloc'. cbn [c_thr] in Hth'.
      apply thr_lookup_insert in Hth' as [(-> & -> & _)|(Hne & Hth')].
      * cbn [t_loc] in Hloc'. injection Hloc' as <- <- <- <- <-.
        rewrite !stamp_keep. cbn [c_rib]. split; [lia|].
        intros _ x Hx. rewrite elem_of_union, elem_of_singleton. tauto.
      * exact (Hok _ _ _ _ _ _ _ Hth' Hloc').
  - destruct (Hok _ _ _ _ _ _ _ Eth Eloc) as [Hle Hsnap].
    destruct (bool_decide (stamp c f = st)) eqn:Hb.
    + apply bool_decide_eq_true in Hb.
      intros t' th' fs' m' f' st' new' Hth' Hloc'. cbn [c_thr] in Hth'.
      apply thr_lookup_insert in Hth' as [(-> & -> & _)|(Hne & Hth')]; [discriminate|].
      destruct (Hok _ _ _ _ _ _ _ Hth' Hloc') as [Hle' Hsnap'].
      rewrite stamp_insert. cbn [c_rib wdm].
      destruct (decide (f = f')) as [<-|Hff].
      * split; [lia|]. intros Heq. lia.
      * split; [exact Hle'|]. intros Heq x Hx. rewrite (Hsnap' Heq x Hx).
        rewrite elem_cas_write. split.
        -- intros [H|H]; [left; exact H|right; right; split; [congruence|exact H]].
        -- intros [H|[[Hxf _]|[_ H]]]; [left; exact H|congruence|right; exact H].
    + apply bool_decide_eq_false in Hb.
      intros t' th' fs' m' f' st' new' Hth' Hloc'. cbn [c_thr] in Hth'.
      apply thr_lookup_insert in Hth' as [(-> & -> & _)|(Hne & Hth')].
      * cbn [t_loc] in Hloc'. injection Hloc' as <- <- <- <- <-.
        rewrite !stamp_keep. split; [exact Hle|]. intros Heq. congruence.
      * exact (Hok _ _ _ _ _ _ _ Hth' Hloc').
  - intros t' th' fs' m' f' st' new' Hth' Hloc'. cbn [c_thr] in Hth'.
    apply thr_lookup_insert in Hth' as [(-> & -> & _)|(Hne & Hth')]; [discriminate|].
    exact (Hok _ _ _ _ _ _ _ Hth' Hloc').
Qed.

Lemma snap_ok_run ser s : forall c, snap_ok c -> snap_ok (run ser c s).
Proof. induction s as [|t s IH]; intros c Hc; [exact Hc|]. cbn. apply IH, snap_ok_step, Hc. Qed.

Lemma rib_eq (r1 r2 : rib) : recs r1 = recs r2 -> wdm r1 = wdm r2 -> r1 = r2.
Proof. destruct r1, r2. cbn. intros -> ->. reflexivity. Qed.

Lemma step_rib ser c t : snap_ok c ->
  c_rib (step ser c t) = match step_ev c t with Some e => rib_ev (c_rib c) e | None => c_rib c end.
Proof.
  intros Hok. unfold step, step_ev.
  destruct (c_thr c !! t) as [th|] eqn:Eth; [|reflexivity].
  destruct (t_loc th) as [|fs m|fs m f st new|m f] eqn:Eloc; [| | |reflexivity].
  - destruct (t_todo th) as [|[p|fs m|m f] rest]; [reflexivity| | |].
    + cbn [c_rib]. apply rib_insert_payload_ev.
    + destruct ser; [destruct (c_lock c)|]; reflexivity.
    + destruct ser; [destruct (c_lock c)|]; reflexivity.
  - destruct fs; reflexivity.
  - destruct (bool_decide (stamp c f = st)) eqn:Hb; [|reflexivity].
    apply bool_decide_eq_true in Hb. cbn [c_rib rib_ev]. unfold rib_withdraw_mui.
    destruct (Hok _ _ _ _ _ _ _ Eth Eloc) as [_ Hsnap]. specialize (Hsnap (eq_sym Hb)).
    apply rib_eq; [reflexivity|]. cbn [wdm]. apply set_eq. intros x.
    rewrite elem_cas_write, elem_of_union, elem_of_singleton.
    destruct (decide (x.1 = f)) as [Hx|Hx].
    + rewrite (Hsnap x Hx). split; [intros [[_ H]|[H _]]; [exact H|contradiction]|intros H; left; split; [exact Hx|exact H]].
    + split; [intros [[H _]|[_ H]]; [contradiction|right; exact H]|].
      intros [->|H]; [cbn in Hx; contradiction|right; split; [exact Hx|exact H]].
Qed.

(* the events of a run, with the thread that made them, in execution order *)
Fixpoint trace (ser : bool) (c : cst) (s : list nat) : list (nat * ev) :=
  match s with
  | [] => []
  | t :: s' => match step_ev c t with Some e => [(t, e)] | None => [] end ++ trace ser (step ser c t) s'
  end.

Lemma run_rib ser s : forall c, snap_ok c ->
  c_rib (run ser c s) = fold_left rib_ev (map snd (trace ser c s)) (c_rib c).
Proof.
  induction s as [|t s IH]; intros c Hc; [reflexivity|].
  cbn [run fold_left trace]. fold (run ser (step ser c t) s).
  rewrite IH by (apply snap_ok_step, Hc). rewrite map_app, fold_left_app, (step_rib ser c t Hc).
  destruct (step_ev c t); reflexivity.
Qed.

(* ------------------------------------------------------------------ *)
(* 2. per thread: events made so far ++ events still to make = program *)
(* ------------------------------------------------------------------ *)

Definition marks (m : N) (fs : list N) : list ev := map (fun f => EDown m (Some f)) fs.
Definition act_evs (a : act) : list ev :=
  match a with AIns p => [ev_of_payload p] | AMark fs m => marks m fs | AUnsup _ _ => [] end.
Definition loc_evs (l : lst) : list ev :=
  match l with LIdle => [] | LMark fs m => marks m fs | LCas fs m f _ _ => EDown m (Some f) :: marks m fs | LPanic _ _ => [] end.
Definition pend (th : thr) : list ev := loc_evs (t_loc th) ++ flat_map act_evs (t_todo th).
(* the store-level events of a program, one bitmap at a time *)
Definition micro_evs (p : list update) : list ev := flat_map act_evs (acts_of_prog p).

Fixpoint proj (t : nat) (l : list (nat * ev)) : list ev :=
  match l with
  | [] => []
  | (t', e) :: l' => if Nat.eqb t' t then e :: proj t l' else proj t l'
  end.

Lemma proj_app t l1 l2 : proj t (l1 ++ l2) = proj t l1 ++ proj t l2.
Proof.
  induction l1 as [|[t' e] l1 IH]; [reflexivity|]. cbn. destruct (Nat.eqb t' t); cbn; rewrite IH; reflexivity.
Qed.

Lemma in_proj t e l : In (t, e) l -> In e (proj t l).
Proof.
  induction l as [|[t' e'] l IH]; [intros []|]. intros [[= -> ->]|H]; cbn.
  - rewrite Nat.eqb_refl. left. reflexivity.
  - destruct (Nat.eqb t' t); [right|]; apply IH, H.
Qed.

Lemma in_proj_inv t e l : In e (proj t l) -> In (t, e) l.
Proof.
  induction l as [|[t' e'] l IH]; [intros []|]. cbn.
  destruct (Nat.eqb t' t) eqn:E.
  - apply Nat.eqb_eq in E as ->. intros [->|H]; [left; reflexivity|right; apply IH, H].
  - intros H. right. apply IH, H.
Qed.

(* a step of t' leaves the other threads alone and moves one pending event of t' into the trace *)
Lemma step_thr ser c t' t th :
  c_thr c !! t = Some th ->
  exists th', c_thr (step ser c t') !! t = Some th' /\
    (if Nat.eqb t' t then ev_list (step_ev c t') ++ pend th' = pend th else th' = th).
Proof.
  intros Hth. unfold step, step_ev.
  destruct (Nat.eqb t' t) eqn:Et.
  - apply Nat.eqb_eq in Et as ->. rewrite Hth.
    assert (t < length (c_thr c)) as Hlt by (eapply lookup_lt_Some, Hth).
    destruct (t_loc th) as [|fs m|fs m f st new|m f] eqn:Eloc.
    + destruct (t_todo th) as [|[p|fs m|m f] rest] eqn:Etodo.
      * exists th. split; [exact Hth|]. reflexivity.
      * eexists. cbn [c_thr]. rewrite list_lookup_insert by exact Hlt. split; [reflexivity|].
        unfold pend. rewrite Eloc, Etodo. reflexivity.
      * assert (forall lk, exists th', c_thr (MkC (c_rib c) (c_stamps c) lk (<[t:=MkThr rest (LMark fs m)]> (c_thr c)) (c_fail c) (c_poison c) (c_panics c)) !! t = Some th' /\
                  ev_list None ++ pend th' = pend th) as H.
        { intros lk. eexists. cbn [c_thr]. rewrite list_lookup_insert by exact Hlt. split; [reflexivity|].
          unfold pend. rewrite Eloc, Etodo. cbn. reflexivity. }
        destruct ser; [destruct (c_lock c)|]; [exists th; split; [exact Hth|reflexivity]|apply H|apply H].
      * assert (forall lk, exists th', c_thr (MkC (c_rib c) (c_stamps c) lk (<[t:=MkThr rest (LPanic m f)]> (c_thr c)) (c_fail c) (c_poison c) (c_panics c)) !! t = Some th' /\
                  ev_list None ++ pend th' = pend th) as H.
        { intros lk. eexists. cbn [c_thr]. rewrite list_lookup_insert by exact Hlt. split; [reflexivity|].
          unfold pend. rewrite Eloc, Etodo. cbn. reflexivity. }
        destruct ser; [destruct (c_lock c)|]; [exists th; split; [exact Hth|reflexivity]|apply H|apply H].
    + destruct fs as [|f fs]; eexists; cbn [c_thr]; rewrite list_lookup_insert by exact Hlt; (split; [reflexivity|]);
        unfold pend; rewrite Eloc; reflexivity.
    + destruct (bool_decide (stamp c f = st)); eexists; cbn [c_thr]; rewrite list_lookup_insert by exact Hlt;
        (split; [reflexivity|]); unfold pend; rewrite Eloc; reflexivity.
    + eexists. cbn [c_thr]. rewrite list_lookup_insert by exact Hlt. split; [reflexivity|].
      unfold pend. rewrite Eloc. reflexivity.
  - apply Nat.eqb_neq in Et.
    destruct (c_thr c !! t') as [th0|] eqn:Eth0; [|exists th; split; [exact Hth|reflexivity]].
    assert (forall x, <[t':=x]> (c_thr c) !! t = Some th) as Hins by (intros x; rewrite list_lookup_insert_ne by exact Et; exact Hth).
    destruct (t_loc th0) as [|fs m|fs m f st new|m f].
    + destruct (t_todo th0) as [|[p|fs m|m f] rest]; [exists th; split; [exact Hth|reflexivity]| | |].
      * exists th. split; [apply Hins|reflexivity].
      * destruct ser; [destruct (c_lock c)|]; exists th; (split; [first [exact Hth|apply Hins]|reflexivity]).
      * destruct ser; [destruct (c_lock c)|]; exists th; (split; [first [exact Hth|apply Hins]|reflexivity]).
    + destruct fs; exists th; (split; [apply Hins|reflexivity]).
    + destruct (bool_decide (stamp c f = st)); exists th; (split; [apply Hins|reflexivity]).
    + exists th. split; [apply Hins|reflexivity].
Qed.

Lemma step_ev_thr c t e : step_ev c t = Some e -> exists th, c_thr c !! t = Some th.
Proof. unfold step_ev. destruct (c_thr c !! t) as [th|]; [eauto|discriminate]. Qed.

Lemma proj_step_head t' t (o : option ev) :
  proj t (match o with Some e => [(t', e)] | None => [] end) = if Nat.eqb t' t then ev_list o else [].
Proof. destruct o; cbn; destruct (Nat.eqb t' t); reflexivity. Qed.

Lemma conserve ser s : forall c t th, c_thr c !! t = Some th ->
  exists th', c_thr (run ser c s) !! t = Some th' /\ proj t (trace ser c s) ++ pend th' = pend th.
Proof.
  induction s as [|t' s IH]; intros c t th Hth.
  - exists th. split; [exact Hth|reflexivity].
  - cbn [run fold_left trace]. fold (run ser (step ser c t') s).
    destruct (step_thr ser c t' t th Hth) as (th1 & Hth1 & Hrel).
    destruct (IH _ _ _ Hth1) as (th2 & Hth2 & Hcons).
    exists th2. split; [exact Hth2|].
    rewrite proj_app, proj_step_head, <- app_assoc, Hcons.
    destruct (Nat.eqb t' t); [exact Hrel|cbn; congruence].
Qed.

Lemma init_thr progs t p : progs !! t = Some p ->
  c_thr (init progs) !! t = Some (MkThr (acts_of_prog p) LIdle).
Proof. intros H. unfold init. cbn [c_thr]. rewrite list_lookup_fmap, H. reflexivity. Qed.

Lemma init_thr_inv progs t th : c_thr (init progs) !! t = Some th ->
  exists p, progs !! t = Some p /\ th = MkThr (acts_of_prog p) LIdle.
Proof.
  unfold init. cbn [c_thr]. intros H. apply list_lookup_fmap_Some in H as (p & Hp & ->). exists p. split; [exact Hp|reflexivity].
Qed.

Lemma thr_done_pend th : thr_done th = true -> pend th = [].
Proof. unfold thr_done, pend. destruct (t_todo th), (t_loc th); try discriminate. reflexivity. Qed.

Lemma all_done_at c t th : all_done c = true -> c_thr c !! t = Some th -> thr_done th = true.
Proof.
  unfold all_done. rewrite forallb_forall. intros H Hth. apply H.
  apply elem_of_list_In. eapply elem_of_list_lookup_2, Hth.
Qed.

(* a thread's trace is a prefix of its program's events, and all of it when the thread is done *)
Lemma proj_trace_prefix ser progs s t p : progs !! t = Some p ->
  exists rest, proj t (trace ser (init progs) s) ++ rest = micro_evs p /\
    (done_at (run ser (init progs) s) t = true -> rest = []).
Proof.
  intros Hp. destruct (conserve ser s _ _ _ (init_thr _ _ _ Hp)) as (th' & Hth' & Hc).
  exists (pend th'). split; [exact Hc|].
  unfold done_at. rewrite Hth'. apply thr_done_pend.
Qed.

Lemma trace_in_prog ser progs s t e : In (t, e) (trace ser (init progs) s) ->
  exists p, progs !! t = Some p /\ In e (micro_evs p).
Proof.
  intros Hin. destruct (progs !! t) as [p|] eqn:Hp.
  - exists p. split; [reflexivity|].
    destruct (proj_trace_prefix ser progs s t p Hp) as (rest & Heq & _).
    rewrite <- Heq. apply in_or_app. left. apply in_proj, Hin.
  - exfalso. (* a thread that does not exist makes no event *)
    assert (forall s c, c_thr c !! t = None -> ~ In (t, e) (trace ser c s)) as Hno.
    { clear. induction s as [|t' s IH]; intros c Hn; [intros []|]. cbn [trace]. intros Hin.
      apply in_app_or in Hin as [Hin|Hin].
      - destruct (step_ev c t') as [e'|] eqn:Ee; [|destruct Hin].
        destruct Hin as [[= -> ->]|[]]. apply step_ev_thr in Ee as (th & Hth). congruence.
      - eapply IH; [|exact Hin].
        destruct (c_thr (step ser c t') !! t) as [th|] eqn:E; [|reflexivity]. exfalso.
        pose proof (step_length ser c t') as Hl.
        apply lookup_lt_Some in E. apply lookup_ge_None in Hn. lia. }
    eapply Hno; [|exact Hin]. unfold init. cbn [c_thr]. rewrite list_lookup_fmap, Hp. reflexivity.
Qed.

(* ---- replaying a program's store-level events = applying its Updates ---- *)
Lemma fold_marks_all r m :
  fold_left rib_ev (marks m all_fams) r = rib_withdraw_mui r m None.
Proof.
  unfold marks, all_fams. cbn [map fold_left rib_ev]. unfold rib_withdraw_mui. cbn [recs wdm map].
  apply rib_eq; [reflexivity|]. cbn [wdm]. apply set_eq. intros x.
  unfold all_fams. cbn [map list_to_set]. set_solver.
Qed.

Lemma fold_act_evs u : forall r,
  fold_left rib_ev (flat_map act_evs (acts_of_update u)) r = rib_apply r (eff_update u).
Proof.
  destruct u as [ps|m fo|ms|]; intros r; cbn [acts_of_update eff_update rib_apply flat_map]; try reflexivity.
  - revert r. induction ps as [|p ps IH]; intros r; [reflexivity|].
    cbn [map flat_map act_evs app fold_left]. rewrite IH, rib_insert_payload_ev. reflexivity.
  - destruct (unsupported fo) as [f'|]; [reflexivity|]. cbn [flat_map rib_apply].
    rewrite app_nil_r. cbn [act_evs]. destruct fo as [f|]; [reflexivity|]. apply fold_marks_all.
  - revert r. induction ms as [|m ms IH]; intros r; [reflexivity|].
    cbn [map flat_map act_evs fold_left]. rewrite fold_left_app, fold_marks_all. apply IH.
Qed.

Lemma micro_evs_cons u p : micro_evs (u :: p) = flat_map act_evs (acts_of_update u) ++ micro_evs p.
Proof. unfold micro_evs, acts_of_prog. cbn [flat_map]. rewrite flat_map_app. reflexivity. Qed.

Lemma micro_evs_app p q : micro_evs (p ++ q) = micro_evs p ++ micro_evs q.
Proof. unfold micro_evs, acts_of_prog. rewrite !flat_map_app. reflexivity. Qed.

Lemma replay_micro p : forall r, fold_left rib_ev (micro_evs p) r = fold_left rib_apply (effective p) r.
Proof.
  induction p as [|u p IH]; intros r; [reflexivity|].
  rewrite micro_evs_cons, fold_left_app, fold_act_evs. cbn [effective map fold_left]. apply IH.
Qed.

Lemma effective_concat progs : effective (concat progs) = concat (map effective progs).
Proof. unfold effective. apply concat_map. Qed.

(* a program without unsupported requests is its own effect *)
Lemma effective_id p : (forall m fo, In (UWithdraw m fo) p -> unsupported fo = None) -> effective p = p.
Proof.
  induction p as [|u p IH]; intros H; [reflexivity|]. cbn [effective map]. fold (effective p).
  rewrite IH by (intros m fo Hin; apply (H m fo); right; exact Hin). f_equal.
  destruct u as [ps|m fo|ms|]; try reflexivity. cbn [eff_update]. rewrite (H m fo) by (left; reflexivity). reflexivity.
Qed.

Lemma micro_evs_concat progs : micro_evs (concat progs) = concat (map micro_evs progs).
Proof. induction progs as [|p progs IH]; [reflexivity|]. cbn [concat map]. rewrite micro_evs_app, IH. reflexivity. Qed.

(* ------------------------------------------------------------------ *)
(* 3. what is stored for a key depends only on the events of its id    *)
(* ------------------------------------------------------------------ *)

Definition ev_mui (e : ev) : N :=
  match e with EAnn k _ => k_mui k | EWdr k => k_mui k | EDown m _ => m end.
Definition hits (k : rkey) (e : ev) : bool := bool_decide (ev_mui e = k_mui k).

Lemma raw_step_miss k x e : hits k e = false -> raw_step k x e = x.
Proof.
  unfold hits. intros H. apply bool_decide_eq_false in H.
  destruct e as [k' a|k'|m f]; cbn [raw_step ev_mui] in *; try reflexivity;
    rewrite bool_decide_false by (intros ->; apply H; reflexivity); reflexivity.
Qed.

Lemma down_miss k e : hits k e = false ->
  match e with EDown m f => down_hits m f k | _ => false end = false.
Proof.
  unfold hits. intros H. apply bool_decide_eq_false in H.
  destruct e as [k' a|k'|m f]; try reflexivity. cbn [ev_mui] in H. unfold down_hits.
  rewrite bool_decide_false by congruence. reflexivity.
Qed.

Lemma raw_fold_filter k h : forall x,
  fold_left (raw_step k) h x = fold_left (raw_step k) (List.filter (hits k) h) x.
Proof.
  induction h as [|e h IH]; intros x; [reflexivity|]. cbn [fold_left List.filter].
  destruct (hits k e) eqn:E; cbn [fold_left]; [apply IH|]. rewrite raw_step_miss by exact E. apply IH.
Qed.

Lemma downed_filter k h : downed h k = downed (List.filter (hits k) h) k.
Proof.
  induction h as [|e h IH]; [reflexivity|]. cbn [downed existsb List.filter].
  destruct (hits k e) eqn:E; cbn [downed existsb]; fold (downed h k); fold (downed (List.filter (hits k) h) k).
  - rewrite IH. reflexivity.
  - rewrite (down_miss k e E). exact IH.
Qed.

Lemma lookup_hits h r k :
  rib_lookup (fold_left rib_ev h r) k = rib_lookup (fold_left rib_ev (List.filter (hits k) h) r) k.
Proof.
  rewrite !rib_lookup_raw, !raw_fold, !marked_fold, <- raw_fold_filter, <- downed_filter. reflexivity.
Qed.

(* in a list of per-thread events only thread t0's can hit k *)
Lemma filter_only_thread (P : ev -> bool) t0 (L : list (nat * ev)) :
  (forall t e, In (t, e) L -> P e = true -> t = t0) ->
  List.filter P (map snd L) = List.filter P (proj t0 L).
Proof.
  induction L as [|[t e] L IH]; intros H; [reflexivity|]. cbn [map snd List.filter proj].
  assert (forall t e, In (t, e) L -> P e = true -> t = t0) as H' by (intros ? ? Hin; apply H; right; exact Hin).
  destruct (P e) eqn:Pe.
  - rewrite (H t e (or_introl eq_refl) Pe), Nat.eqb_refl. cbn [List.filter]. rewrite Pe, IH by exact H'. reflexivity.
  - destruct (Nat.eqb t t0); cbn [List.filter]; [rewrite Pe|]; apply IH, H'.
Qed.

Lemma filter_nil_all {A} (P : A -> bool) l : (forall x, In x l -> P x = false) -> List.filter P l = [].
Proof.
  induction l as [|x l IH]; intros H; [reflexivity|]. cbn. rewrite (H x (or_introl eq_refl)).
  apply IH. intros y Hy. apply H. right. exact Hy.
Qed.

Lemma filter_concat_only {A} (P : A -> bool) (LL : list (list A)) : forall t0,
  (forall i l x, LL !! i = Some l -> In x l -> P x = true -> i = t0) ->
  List.filter P (concat LL) = List.filter P (default [] (LL !! t0)).
Proof.
  induction LL as [|l LL IH]; intros t0 H; [destruct t0; reflexivity|].
  cbn [concat]. rewrite List.filter_app. destruct t0 as [|t0]; cbn [lookup list_lookup default].
  - rewrite (filter_nil_all P (concat LL)); [apply app_nil_r|].
    intros x Hx. apply in_concat in Hx as (l' & Hl' & Hx).
    apply elem_of_list_In, elem_of_list_lookup_1 in Hl' as (i & Hi).
    destruct (P x) eqn:Px; [|reflexivity]. specialize (H (S i) l' x Hi Hx Px). discriminate.
  - rewrite (filter_nil_all P l).
    + cbn [app]. apply IH. intros i l' x Hi Hx Px. specialize (H (S i) l' x Hi Hx Px). lia.
    + intros x Hx. destruct (P x) eqn:Px; [|reflexivity]. specialize (H 0 l x eq_refl Hx Px). discriminate.
Qed.

(* ---- ids of events and of programs ---- *)
Lemma act_evs_muis u e : In e (flat_map act_evs (acts_of_update u)) -> In (ev_mui e) (upd_muis u).
Proof.
  destruct u as [ps|m fo|ms|]; cbn [acts_of_update upd_muis flat_map]; [| | |intros []].
  - induction ps as [|p ps IH]; [intros []|]. cbn [map flat_map act_evs app].
    intros [<-|H]; [left|right; apply IH, H].
    unfold ev_of_payload. destruct (p_active p); reflexivity.
  - destruct (unsupported fo) as [f'|]; [intros []|]. cbn [flat_map].
    rewrite app_nil_r. cbn [act_evs]. unfold marks. intros H. apply in_map_iff in H as (f & <- & _). left. reflexivity.
  - induction ms as [|m ms IH]; [intros []|]. cbn [map flat_map act_evs]. intros H.
    apply in_app_or in H as [H|H]; [|right; apply IH, H].
    unfold marks in H. apply in_map_iff in H as (f & <- & _). left. reflexivity.
Qed.

Lemma micro_evs_muis p e : In e (micro_evs p) -> In (ev_mui e) (prog_muis p).
Proof.
  induction p as [|u p IH]; [intros []|]. rewrite micro_evs_cons. unfold prog_muis. cbn [flat_map].
  intros H. apply in_or_app. apply in_app_or in H as [H|H]; [left; apply act_evs_muis, H|right; apply IH, H].
Qed.

(* at most one thread's events hit k *)
Lemma one_owner progs k : disjoint_ids progs ->
  exists t0, forall i p e, progs !! i = Some p -> In e (micro_evs p) -> hits k e = true -> i = t0.
Proof.
  intros Hdis.
  destruct (List.filter (hits k) (concat (map micro_evs progs))) as [|e0 l0] eqn:E.
  - exists 0. intros i p e Hp He Hh. exfalso.
    assert (In e (List.filter (hits k) (concat (map micro_evs progs)))) as Hin.
    { apply filter_In. split; [|exact Hh]. apply in_concat. exists (micro_evs p). split; [|exact He].
      apply in_map. apply elem_of_list_In. eapply elem_of_list_lookup_2, Hp. }
    rewrite E in Hin. destruct Hin.
  - assert (In e0 (List.filter (hits k) (concat (map micro_evs progs)))) as Hin by (rewrite E; left; reflexivity).
    apply filter_In in Hin as [Hin Hh0]. apply in_concat in Hin as (l & Hl & He0).
    apply in_map_iff in Hl as (p0 & <- & Hp0).
    apply elem_of_list_In, elem_of_list_lookup_1 in Hp0 as (t0 & Ht0).
    exists t0. intros i p e Hp He Hh.
    unfold hits in Hh, Hh0. apply bool_decide_eq_true in Hh. apply bool_decide_eq_true in Hh0.
    apply (Hdis i t0 p p0 (k_mui k) Hp Ht0).
    + rewrite <- Hh. apply micro_evs_muis, He.
    + rewrite <- Hh0. apply micro_evs_muis, He0.
Qed.

Lemma c_rib_init progs : c_rib (init progs) = rib_empty.
Proof. reflexivity. Qed.

(* MAIN 1: after ANY interleaving that lets every writer finish, every key
   holds what running the writers one after the other would have left *)
Theorem final_lookup_sequential ser progs s k :
  disjoint_ids progs -> all_done (run ser (init progs) s) = true ->
  rib_lookup (c_rib (run ser (init progs) s)) k = rib_lookup (rib_run (effective (concat progs))) k.
Proof.
  intros Hdis Hdone.
  rewrite run_rib by apply snap_ok_init. rewrite c_rib_init.
  unfold rib_run. rewrite <- replay_micro, micro_evs_concat.
  rewrite lookup_hits, (lookup_hits (concat _)). f_equal. f_equal.
  destruct (one_owner progs k Hdis) as (t0 & Hown).
  rewrite (filter_only_thread (hits k) t0).
  2:{ intros t e Hin Hh. destruct (trace_in_prog _ _ _ _ _ Hin) as (p & Hp & He). exact (Hown t p e Hp He Hh). }
  rewrite (filter_concat_only (hits k) (map micro_evs progs) t0).
  2:{ intros i l x Hl Hx Hh. rewrite list_lookup_fmap in Hl. destruct (progs !! i) as [p|] eqn:Hp; [|discriminate].
      injection Hl as <-. exact (Hown i p x Hp Hx Hh). }
  rewrite list_lookup_fmap. destruct (progs !! t0) as [p|] eqn:Hp; cbn [fmap option_fmap option_map default].
  - destruct (proj_trace_prefix ser progs s t0 p Hp) as (rest & Heq & Hrest).
    rewrite <- Heq, Hrest, app_nil_r; [reflexivity|].
    unfold done_at. destruct (c_thr (run ser (init progs) s) !! t0) as [th|] eqn:Eth; [|reflexivity].
    eapply all_done_at; [exact Hdone|exact Eth].
  - (* no such thread: it has no events in the trace either *)
    apply filter_nil_all. intros e He. exfalso.
    apply in_proj_inv in He. destruct (trace_in_prog _ _ _ _ _ He) as (p & Hp' & _). congruence.
Qed.

(* ... in particular what its owner alone would have left: last write wins *)
Lemma lookup_owner_alone progs t p k :
  disjoint_ids progs -> progs !! t = Some p -> In (k_mui k) (prog_muis p) ->
  rib_lookup (rib_run (effective (concat progs))) k = rib_lookup (rib_run (effective p)) k.
Proof.
  intros Hdis Hp Hk. unfold rib_run. rewrite <- !replay_micro, micro_evs_concat.
  rewrite lookup_hits, (lookup_hits (micro_evs p)). f_equal. f_equal.
  rewrite (filter_concat_only (hits k) (map micro_evs progs) t).
  - rewrite list_lookup_fmap, Hp. reflexivity.
  - intros i l x Hl Hx Hh. rewrite list_lookup_fmap in Hl. destruct (progs !! i) as [q|] eqn:Hq; [|discriminate].
    injection Hl as <-. apply (Hdis i t q p (k_mui k) Hq Hp); [|exact Hk].
    unfold hits in Hh. apply bool_decide_eq_true in Hh. rewrite <- Hh. apply micro_evs_muis, Hx.
Qed.

Theorem last_write_wins ser progs s t p k :
  disjoint_ids progs -> progs !! t = Some p -> In (k_mui k) (prog_muis p) ->
  all_done (run ser (init progs) s) = true ->
  rib_lookup (c_rib (run ser (init progs) s)) k = rib_lookup (rib_run (effective p)) k.
Proof.
  intros Hdis Hp Hk Hdone. rewrite (final_lookup_sequential ser progs s k Hdis Hdone).
  apply (lookup_owner_alone progs t p k Hdis Hp Hk).
Qed.

(* keys of ids nobody writes stay absent *)
Theorem unowned_absent ser progs s k :
  (forall t p, progs !! t = Some p -> ~ In (k_mui k) (prog_muis p)) ->
  rib_lookup (c_rib (run ser (init progs) s)) k = None.
Proof.
  intros Hno. rewrite run_rib by apply snap_ok_init. rewrite c_rib_init, lookup_hits.
  rewrite filter_nil_all; [unfold rib_lookup; cbn; rewrite lookup_empty; reflexivity|].
  intros e He. apply in_map_iff in He as ([t e'] & <- & Hin). cbn [snd].
  destruct (trace_in_prog _ _ _ _ _ Hin) as (p & Hp & He').
  unfold hits. apply bool_decide_eq_false. intros Heq. apply (Hno t p Hp). rewrite <- Heq. apply micro_evs_muis, He'.
Qed.

(* MAIN 2 (readers): at ANY moment of ANY interleaving, a key shows a value
   its owner has written: the state after some prefix of the owner's own
   store-level actions - never a mixture with another writer's *)
Theorem reader_sees_owner_prefix ser progs s t p k :
  disjoint_ids progs -> progs !! t = Some p -> In (k_mui k) (prog_muis p) ->
  exists pre rest, pre ++ rest = micro_evs p /\
    (done_at (run ser (init progs) s) t = true -> rest = []) /\
    rib_lookup (c_rib (run ser (init progs) s)) k = rib_lookup (fold_left rib_ev pre rib_empty) k.
Proof.
  intros Hdis Hp Hk.
  destruct (proj_trace_prefix ser progs s t p Hp) as (rest & Heq & Hrest).
  exists (proj t (trace ser (init progs) s)), rest. split; [exact Heq|]. split; [exact Hrest|].
  rewrite run_rib by apply snap_ok_init. rewrite c_rib_init.
  rewrite lookup_hits, (lookup_hits (proj _ _)). f_equal. f_equal.
  apply filter_only_thread. intros t' e Hin Hh.
  destruct (trace_in_prog _ _ _ _ _ Hin) as (q & Hq & He).
  apply (Hdis t' t q p (k_mui k) Hq Hp); [|exact Hk].
  unfold hits in Hh. apply bool_decide_eq_true in Hh. rewrite <- Hh. apply micro_evs_muis, He.
Qed.

(* MAIN 3: every session-wide withdrawal of a finished run has taken effect *)
Lemma withdraws_micro p m fo f : withdraws p m fo -> In f (fams_of fo) -> In (EDown m (Some f)) (micro_evs p).
Proof.
  intros Hw Hf. induction p as [|u p IH].
  - destruct Hw as [[[] _]|(_ & ms & [] & _)].
  - rewrite micro_evs_cons. apply in_or_app.
    destruct Hw as [[[->|Hin] Hsup]|(-> & ms & [->|Hin] & Hm)].
    + left. cbn [acts_of_update]. rewrite Hsup. cbn [flat_map act_evs]. rewrite app_nil_r. unfold marks. apply (in_map (fun f => EDown m (Some f))). exact Hf.
    + right. apply IH. left. split; [exact Hin|exact Hsup].
    + left. cbn [acts_of_update]. clear IH. induction ms as [|m' ms IHms]; [destruct Hm|].
      cbn [map flat_map act_evs]. apply in_or_app. destruct Hm as [->|Hm]; [left|right; apply IHms, Hm].
      unfold marks. apply (in_map (fun f => EDown m (Some f))). exact Hf.
    + right. apply IH. right. split; [reflexivity|]. exists ms. split; assumption.
Qed.

Lemma down_hits_fam m fo k : down_hits m fo k = true -> k_mui k = m /\ In (k_fam k) (fams_of fo).
Proof.
  unfold down_hits. intros H. apply andb_true_iff in H as [Hm Hf]. apply bool_decide_eq_true in Hm.
  split; [exact Hm|]. destruct fo as [f|]; apply bool_decide_eq_true in Hf; cbn [fams_of].
  - left. symmetry. exact Hf.
  - unfold all_fams.
    assert (k_fam k = 0 \/ k_fam k = 1 \/ k_fam k = 2 \/ k_fam k = 3)%N as [-> | [-> | [-> | ->]]] by lia; cbn; tauto.
Qed.

Theorem withdraw_all_effective ser progs s t p m fo k :
  progs !! t = Some p -> withdraws p m fo ->
  done_at (run ser (init progs) s) t = true ->
  down_hits m fo k = true ->
  match rib_lookup (c_rib (run ser (init progs) s)) k with Some (st, _) => st = false | None => True end.
Proof.
  intros Hp Hw Hdone Hhit.
  destruct (down_hits_fam _ _ _ Hhit) as [Hm Hf].
  pose proof (withdraws_micro p m fo (k_fam k) Hw Hf) as Hin.
  destruct (proj_trace_prefix ser progs s t p Hp) as (rest & Heq & Hrest).
  rewrite (Hrest Hdone), app_nil_r in Heq. rewrite <- Heq in Hin. apply in_proj_inv in Hin.
  rewrite run_rib by apply snap_ok_init. rewrite c_rib_init, rib_lookup_raw, marked_fold.
  assert (downed (map snd (trace ser (init progs) s)) k = true) as Hd.
  { unfold downed. apply existsb_exists. exists (EDown m (Some (k_fam k))). split.
    - apply in_map_iff. exists (t, EDown m (Some (k_fam k))). split; [reflexivity|exact Hin].
    - unfold down_hits. rewrite !bool_decide_true by congruence. reflexivity. }
  rewrite Hd, orb_true_r. destruct (raw _ k) as [[st a]|]; [|exact I]. cbn. apply andb_false_r.
Qed.

(* ------------------------------------------------------------------ *)
(* 4. the repaired code (ser = true): no failed CAS, no deadlock,       *)
(*    every fair schedule finishes within a bound                      *)
(* ------------------------------------------------------------------ *)

Definition lock_ok (c : cst) : Prop :=
  c_fail c = 0%N /\
  (forall h, c_lock c = Some h -> exists th, c_thr c !! h = Some th) /\
  (forall t th, c_thr c !! t = Some th ->
     (c_lock c = Some t <-> t_loc th <> LIdle) /\
     (forall fs m f st new, t_loc th = LCas fs m f st new -> st = stamp c f)).

Lemma lock_ok_init progs : lock_ok (init progs).
Proof.
  split; [reflexivity|]. split; [intros h [=]|].
  intros t th Hth. apply init_thr_inv in Hth as (p & _ & ->). cbn. split; [split; [intros [=]|intros H; contradiction]|].
  intros ? ? ? ? ? [=].
Qed.

Lemma run_length ser s : forall c, length (c_thr (run ser c s)) = length (c_thr c).
Proof.
  induction s as [|t s IH]; intros c; [reflexivity|].
  change (run ser c (t :: s)) with (run ser (step ser c t) s). rewrite IH. apply step_length.
Qed.

Lemma lock_ok_step c t : lock_ok c -> lock_ok (step true c t).
Proof.
  intros (Hfail & Hlk & Hthr). pose proof (conj Hfail (conj Hlk Hthr) : lock_ok c) as Hall. unfold step.
  destruct (c_thr c !! t) as [th|] eqn:Eth; [|exact Hall].
  assert (t < length (c_thr c)) as Hlt by (eapply lookup_lt_Some, Eth).
  destruct (Hthr t th Eth) as [Hown Hcas].
  assert (c_lock c = Some t -> forall t' th', t <> t' -> c_thr c !! t' = Some th' -> t_loc th' = LIdle) as Hidle0.
  { intros Hmine t' th' Hne Hth'. destruct (Hthr t' th' Hth') as [Hown' _].
    destruct (t_loc th') eqn:E; [reflexivity| | |]; exfalso;
      (assert (c_lock c = Some t') as H by (apply Hown'; discriminate)); congruence. }
  (* taking the mutex: the same for a supported and an unsupported request *)
  assert (forall rest l, l <> LIdle -> (forall fs m f st new, l <> LCas fs m f st new) -> c_lock c = None ->
            lock_ok (MkC (c_rib c) (c_stamps c) (Some t) (<[t:=MkThr rest l]> (c_thr c)) (c_fail c) (c_poison c) (c_panics c))) as Htake.
  { intros rest l Hl Hnc Elock. split; [exact Hfail|]. cbn [c_lock c_thr]. split.
    - intros h [= <-]. eexists. apply list_lookup_insert, Hlt.
    - intros t' th' Hth'. apply thr_lookup_insert in Hth' as [(-> & -> & _)|(Hne & Hth')].
      + cbn [t_loc]. split; [split; [intros _; exact Hl|reflexivity]|]. intros ? ? ? ? ? E. exfalso. exact (Hnc _ _ _ _ _ E).
      + destruct (Hthr t' th' Hth') as [Hown' Hcas']. split; [|exact Hcas'].
        split; [intros [= ->]; contradiction|]. intros H. apply Hown' in H. rewrite Elock in H. discriminate. }
  (* dropping the guard: by returning or by unwinding *)
  assert (forall po pa, c_lock c = Some t ->
            lock_ok (MkC (c_rib c) (c_stamps c) None (<[t:=MkThr (t_todo th) LIdle]> (c_thr c)) (c_fail c) po pa)) as Hdrop.
  { intros po pa Hmine. split; [exact Hfail|]. cbn [c_lock c_thr]. split; [intros h [=]|].
    intros t' th' Hth'. apply thr_lookup_insert in Hth' as [(-> & -> & _)|(Hne & Hth')].
    - cbn [t_loc]. split; [split; [intros [=]|intros H; contradiction]|intros ? ? ? ? ? [=]].
    - rewrite (Hidle0 Hmine t' th' Hne Hth'). split; [split; [intros [=]|intros H; contradiction]|intros ? ? ? ? ? [=]]. }
  destruct (t_loc th) as [|fs m|fs m f st new|m f] eqn:Eloc.
  - assert (c_lock c <> Some t) as Hnot by (intros H; apply Hown in H; contradiction).
    destruct (t_todo th) as [|[p|fs m|m f] rest] eqn:Etodo; [exact Hall| | |].
    + split; [exact Hfail|]. cbn [c_lock c_thr]. split.
      * intros h Hh. destruct (Hlk h Hh) as (th' & Hth'). destruct (decide (t = h)) as [->|Hne]; [congruence|].
        exists th'. rewrite list_lookup_insert_ne by exact Hne. exact Hth'.
      * intros t' th' Hth'. apply thr_lookup_insert in Hth' as [(-> & -> & _)|(Hne & Hth')].
        -- cbn [t_loc]. split; [split; [intros H; contradiction|intros H; contradiction]|intros ? ? ? ? ? [=]].
        -- exact (Hthr t' th' Hth').
    + destruct (c_lock c) as [h|] eqn:Elock; [exact Hall|]. apply Htake; [discriminate|discriminate|reflexivity].
    + destruct (c_lock c) as [h|] eqn:Elock; [exact Hall|]. apply Htake; [discriminate|discriminate|reflexivity].
  - assert (c_lock c = Some t) as Hmine by (apply Hown; discriminate).
    pose proof (Hidle0 Hmine) as Hidle.
    destruct fs as [|f fs]; [apply Hdrop, Hmine|].
    split; [exact Hfail|]. cbn [c_lock c_thr]. split.
    + intros h Hh. rewrite Hmine in Hh. injection Hh as <-. eexists. apply list_lookup_insert, Hlt.
    + intros t' th' Hth'. apply thr_lookup_insert in Hth' as [(-> & -> & _)|(Hne & Hth')].
      * cbn [t_loc]. split; [split; [intros _ [=]|intros _; exact Hmine]|].
        intros ? ? ? ? ? [= <- <- <- <- <-]. rewrite stamp_keep. reflexivity.
      * rewrite (Hidle t' th' Hne Hth'). split; [split; [rewrite Hmine; intros [= ->]; contradiction|intros H; contradiction]|intros ? ? ? ? ? [=]].
  - assert (c_lock c = Some t) as Hmine by (apply Hown; discriminate).
    pose proof (Hidle0 Hmine) as Hidle.
    rewrite (Hcas _ _ _ _ _ eq_refl), bool_decide_true by reflexivity.
    split; [exact Hfail|]. cbn [c_lock c_thr]. split.
    + intros h Hh. rewrite Hmine in Hh. injection Hh as <-. eexists. apply list_lookup_insert, Hlt.
    + intros t' th' Hth'. apply thr_lookup_insert in Hth' as [(-> & -> & _)|(Hne & Hth')].
      * cbn [t_loc]. split; [split; [intros _ [=]|intros _; exact Hmine]|intros ? ? ? ? ? [=]].
      * rewrite (Hidle t' th' Hne Hth'). split; [split; [rewrite Hmine; intros [= ->]; contradiction|intros H; contradiction]|intros ? ? ? ? ? [=]].
  - apply Hdrop. apply Hown. discriminate.
Qed.

Lemma lock_ok_run s : forall c, lock_ok c -> lock_ok (run true c s).
Proof. induction s as [|t s IH]; intros c Hc; [exact Hc|]. cbn. apply IH, lock_ok_step, Hc. Qed.

(* the store's retry branch is dead code under the mutex *)
Theorem serialised_cas_never_fails progs s : c_fail (run true (init progs) s) = 0%N.
Proof. apply (lock_ok_run s (init progs) (lock_ok_init progs)). Qed.

Lemma nsum_insert (f : thr -> nat) (l : list thr) : forall t old new, l !! t = Some old ->
  nsum (map f (<[t := new]> l)) + f old = nsum (map f l) + f new.
Proof.
  induction l as [|x l IH]; intros t old new H; [destruct t; discriminate|].
  destruct t as [|t].
  - cbn in H. injection H as ->. cbn. lia.
  - cbn in H. specialize (IH t old new H). change (<[S t:=new]> (x :: l)) with (x :: <[t:=new]> l). cbn [map nsum]. lia.
Qed.

Lemma work_insert c ri st lk fl po pa t old new : c_thr c !! t = Some old ->
  work (MkC ri st lk (<[t := new]> (c_thr c)) fl po pa) + thr_work old = work c + thr_work new.
Proof. intros H. unfold work. cbn [c_thr]. apply nsum_insert, H. Qed.

(* a step of the repaired code either changes nothing (the thread is finished
   or waits for the mutex) or brings the system one step closer to the end *)
Lemma step_work c t : lock_ok c ->
  (step true c t = c /\ enabled c t = false) \/ (enabled c t = true /\ work (step true c t) + 1 = work c).
Proof.
  intros (Hfail & Hlk & Hthr). unfold step, enabled.
  destruct (c_thr c !! t) as [th|] eqn:Eth; [|left; split; reflexivity].
  destruct (Hthr t th Eth) as [Hown Hcas].
  destruct (t_loc th) as [|fs m|fs m f st new|m f] eqn:Eloc.
  - destruct (t_todo th) as [|[p|fs m|m f] rest] eqn:Etodo; [left; split; reflexivity| | |].
    + right. split; [reflexivity|].
      pose proof (work_insert c (rib_insert_payload (c_rib c) p) (c_stamps c) (c_lock c) (c_fail c) (c_poison c) (c_panics c) t th (MkThr rest LIdle) Eth) as H.
      unfold thr_work in H. rewrite Eloc, Etodo in H. cbn [t_loc t_todo loc_cost map nsum act_cost length] in H. lia.
    + destruct (c_lock c); [left; split; reflexivity|]. right. split; [reflexivity|].
      pose proof (work_insert c (c_rib c) (c_stamps c) (Some t) (c_fail c) (c_poison c) (c_panics c) t th (MkThr rest (LMark fs m)) Eth) as H.
      unfold thr_work in H. rewrite Eloc, Etodo in H. cbn [t_loc t_todo loc_cost map nsum act_cost length] in H. lia.
    + destruct (c_lock c); [left; split; reflexivity|]. right. split; [reflexivity|].
      pose proof (work_insert c (c_rib c) (c_stamps c) (Some t) (c_fail c) (c_poison c) (c_panics c) t th (MkThr rest (LPanic m f)) Eth) as H.
      unfold thr_work in H. rewrite Eloc, Etodo in H. cbn [t_loc t_todo loc_cost map nsum act_cost length] in H. lia.
  - right. split; [destruct (t_todo th); reflexivity|]. destruct fs as [|f fs].
    + pose proof (work_insert c (c_rib c) (c_stamps c) None (c_fail c) (c_poison c) (c_panics c) t th (MkThr (t_todo th) LIdle) Eth) as H.
      unfold thr_work in H. rewrite Eloc in H. cbn [t_loc t_todo loc_cost map nsum act_cost length] in H. lia.
    + pose proof (work_insert c (c_rib c) (c_stamps c) (c_lock c) (c_fail c) (c_poison c) (c_panics c) t th
                    (MkThr (t_todo th) (LCas fs m f (stamp c f) ({[(f, m)]} ∪ wdm (c_rib c)))) Eth) as H.
      unfold thr_work in H. rewrite Eloc in H. cbn [t_loc t_todo loc_cost map nsum act_cost length] in H. lia.
  - right. split; [destruct (t_todo th); reflexivity|].
    rewrite (Hcas _ _ _ _ _ eq_refl), bool_decide_true by reflexivity.
    pose proof (work_insert c (MkRib (recs (c_rib c)) (fam_part f new ∪ fam_rest f (wdm (c_rib c))))
                  (<[f:=(stamp c f + 1)%N]> (c_stamps c)) (c_lock c) (c_fail c) (c_poison c) (c_panics c) t th (MkThr (t_todo th) (LMark fs m)) Eth) as H.
    unfold thr_work in H. rewrite Eloc in H. cbn [t_loc t_todo loc_cost map nsum act_cost length] in H. lia.
  - right. split; [destruct (t_todo th); reflexivity|].
    pose proof (work_insert c (c_rib c) (c_stamps c) None (c_fail c) true (c_panics c ++ [(t, PUnsup m f)]) t th (MkThr (t_todo th) LIdle) Eth) as H.
    unfold thr_work in H. rewrite Eloc in H. cbn [t_loc t_todo loc_cost map nsum act_cost length] in H. lia.
Qed.

Lemma not_all_ex {A} (f : A -> bool) (l : list A) : forallb f l = false -> exists i x, l !! i = Some x /\ f x = false.
Proof.
  induction l as [|x l IH]; [discriminate|]. cbn. destruct (f x) eqn:E.
  - intros H. destruct (IH H) as (i & y & Hi & Hy). exists (S i), y. split; assumption.
  - intros _. exists 0, x. split; [reflexivity|exact E].
Qed.

(* deadlock freedom: as long as somebody has work left, somebody can move *)
Lemma exists_enabled c : lock_ok c -> all_done c = false ->
  exists t, t < length (c_thr c) /\ enabled c t = true.
Proof.
  intros (Hfail & Hlk & Hthr) Hnd. destruct (c_lock c) as [h|] eqn:Elock.
  - destruct (Hlk h eq_refl) as (th & Hth). exists h. split; [eapply lookup_lt_Some, Hth|].
    unfold enabled. rewrite Hth. destruct (Hthr h th Hth) as [Hown _].
    destruct (t_loc th) eqn:E; [exfalso; apply Hown; reflexivity| | |]; destruct (t_todo th); reflexivity.
  - apply not_all_ex in Hnd as (t & th & Hth & Hd). exists t. split; [eapply lookup_lt_Some, Hth|].
    unfold enabled. rewrite Hth, Elock. destruct (Hthr t th Hth) as [Hown _].
    unfold thr_done in Hd.
    destruct (t_loc th) eqn:E.
    + destruct (t_todo th) as [|[| |]]; [discriminate|reflexivity|reflexivity|reflexivity].
    + destruct (t_todo th); reflexivity.
    + destruct (t_todo th); reflexivity.
    + destruct (t_todo th); reflexivity.
Qed.

Lemma work_mono s : forall c, lock_ok c -> work (run true c s) <= work c.
Proof.
  induction s as [|t s IH]; intros c Hc; [reflexivity|]. cbn [run fold_left]. fold (run true (step true c t) s).
  specialize (IH _ (lock_ok_step c t Hc)).
  destruct (step_work c t Hc) as [[Heq _]|[_ Hw]]; [rewrite Heq in *; exact IH|lia].
Qed.

Lemma block_progress b : forall c, lock_ok c -> (exists t, In t b /\ enabled c t = true) ->
  work (run true c b) < work c.
Proof.
  induction b as [|t' b IH]; intros c Hc (t & Hin & Hen); [destruct Hin|].
  cbn [run fold_left]. fold (run true (step true c t') b).
  destruct (step_work c t' Hc) as [[Heq Hdis]|[_ Hw]].
  - rewrite Heq. apply IH; [exact Hc|]. exists t. split; [|exact Hen].
    destruct Hin as [->|Hin]; [congruence|exact Hin].
  - pose proof (work_mono b _ (lock_ok_step c t' Hc)). lia.
Qed.

Lemma done_stays c t : all_done c = true -> step true c t = c.
Proof.
  intros Hd. unfold step. destruct (c_thr c !! t) as [th|] eqn:Eth; [|reflexivity].
  pose proof (all_done_at c t th Hd Eth) as H. unfold thr_done in H.
  destruct (t_todo th), (t_loc th); try discriminate. reflexivity.
Qed.

Lemma done_stays_run s : forall c, all_done c = true -> run true c s = c.
Proof. induction s as [|t s IH]; intros c Hd; [reflexivity|]. cbn. rewrite done_stays by exact Hd. apply IH, Hd. Qed.

Lemma fair_terminates_from blocks : forall c, lock_ok c ->
  Forall (covers (length (c_thr c))) blocks -> work c <= length blocks ->
  all_done (run true c (concat blocks)) = true.
Proof.
  induction blocks as [|b bs IH]; intros c Hc Hcov Hw.
  - cbn. destruct (all_done c) eqn:Hd; [reflexivity|]. exfalso.
    destruct (exists_enabled c Hc Hd) as (t & _ & Hen).
    destruct (step_work c t Hc) as [[_ H]|[_ H]]; [congruence|]. cbn in Hw. lia.
  - cbn [concat]. unfold run. rewrite fold_left_app. fold (run true c b). fold (run true (run true c b) (concat bs)).
    destruct (all_done c) eqn:Hd.
    + rewrite (done_stays_run b c Hd), (done_stays_run (concat bs) c Hd). exact Hd.
    + apply Forall_cons in Hcov as [Hb Hbs].
      destruct (exists_enabled c Hc Hd) as (t & Hlt & Hen).
      pose proof (block_progress b c Hc (ex_intro _ t (conj (Hb t Hlt) Hen))) as Hprog.
      apply IH; [apply lock_ok_run, Hc|rewrite run_length; exact Hbs|]. cbn [length] in Hw. lia.
Qed.

(* MAIN 4: bounded completion. Under any schedule that gives every writer a
   turn in each block, work(init) blocks are enough for every writer to finish
   everything, whatever the interleaving inside the blocks *)
Theorem fair_terminates progs blocks :
  Forall (covers (length progs)) blocks -> work (init progs) <= length blocks ->
  all_done (run true (init progs) (concat blocks)) = true.
Proof.
  intros Hcov Hw. apply fair_terminates_from; [apply lock_ok_init| |exact Hw].
  unfold init. cbn [c_thr]. rewrite map_length. exact Hcov.
Qed.

Theorem no_deadlock progs s :
  all_done (run true (init progs) s) = false ->
  exists t, t < length progs /\ enabled (run true (init progs) s) t = true /\
            work (step true (run true (init progs) s) t) + 1 = work (run true (init progs) s).
Proof.
  intros Hd. pose proof (lock_ok_run s _ (lock_ok_init progs)) as Hc.
  destruct (exists_enabled _ Hc Hd) as (t & Hlt & Hen).
  exists t. rewrite run_length in Hlt. unfold init in Hlt. cbn [c_thr] in Hlt. rewrite map_length in Hlt.
  split; [exact Hlt|]. split; [exact Hen|].
  destruct (step_work _ t Hc) as [[_ H]|[_ H]]; [congruence|exact H].
Qed.

(* the bound, in terms of the Updates *)
Lemma work_init progs : work (init progs) = nsum (map (fun p => nsum (map upd_cost p)) progs).
Proof.
  unfold work, init. cbn [c_thr]. rewrite map_map. f_equal. apply map_ext. intros p.
  unfold thr_work. cbn [t_loc t_todo loc_cost]. cbn [Nat.add].
  induction p as [|u p IH]; [reflexivity|]. unfold acts_of_prog in *. cbn [flat_map map nsum].
  rewrite map_app. unfold upd_cost.
  assert (forall l1 l2, nsum (l1 ++ l2) = nsum l1 + nsum l2) as Happ.
  { clear. induction l1 as [|x l1 IH]; intros l2; cbn; [reflexivity|]. rewrite IH. lia. }
  rewrite Happ, IH. reflexivity.
Qed.

(* ------------------------------------------------------------------ *)
(* 5. the code as it was (ser = false): a failed CAS never recovers    *)
(* ------------------------------------------------------------------ *)

Lemma stamp_mono ser c t f : (stamp c f <= stamp (step ser c t) f)%N.
Proof.
  unfold step. destruct (c_thr c !! t) as [th|]; [|lia].
  destruct (t_loc th) as [|fs m|fs m f' st new|m f'].
  - destruct (t_todo th) as [|[p|fs m|m f'] rest]; [lia|rewrite stamp_keep; lia| |];
      (destruct ser; [destruct (c_lock c)|]; rewrite ?stamp_keep; lia).
  - destruct fs; rewrite stamp_keep; lia.
  - destruct (bool_decide (stamp c f' = st)) eqn:Hb; [|rewrite stamp_keep; lia].
    apply bool_decide_eq_true in Hb. rewrite stamp_insert. destruct (decide (f' = f)) as [->|]; lia.
  - rewrite stamp_keep. lia.
Qed.

Lemma step_other ser c t t' : t <> t' -> c_thr (step ser c t) !! t' = c_thr c !! t'.
Proof.
  intros Hne. destruct (c_thr c !! t') as [th|] eqn:E.
  - destruct (step_thr ser c t t' th E) as (th' & Hth' & Hrel).
    apply Nat.eqb_neq in Hne. rewrite Hne in Hrel. congruence.
  - apply lookup_ge_None in E. apply lookup_ge_None. rewrite step_length. exact E.
Qed.

(* thread t sits in the store's loop with a `current` that is no longer the cell *)
Definition stuck_at (t : nat) (c : cst) : Prop :=
  exists todo fs m f st new, c_thr c !! t = Some (MkThr todo (LCas fs m f st new)) /\ (st < stamp c f)%N.
Definition stuck (c : cst) : Prop := stuck_at 1 c.

Lemma stuck_at_step t0 c t : stuck_at t0 c -> stuck_at t0 (step false c t).
Proof.
  intros (todo & fs & m & f & st & new & Hth & Hst).
  destruct (decide (t = t0)) as [->|Hne].
  - unfold step. rewrite Hth. cbn [t_loc t_todo].
    rewrite bool_decide_false by lia.
    exists todo, fs, m, f, st, (wdm (c_rib c)). cbn [c_thr]. rewrite stamp_keep. split; [|exact Hst].
    apply list_lookup_insert. eapply lookup_lt_Some, Hth.
  - exists todo, fs, m, f, st, new. rewrite step_other by exact Hne. split; [exact Hth|].
    pose proof (stamp_mono false c t f). lia.
Qed.

Lemma stuck_at_run t0 s : forall c, stuck_at t0 c -> stuck_at t0 (run false c s).
Proof. induction s as [|t s IH]; intros c Hc; [exact Hc|]. cbn. apply IH, stuck_at_step, Hc. Qed.

Lemma stuck_step c t : stuck c -> stuck (step false c t).
Proof. apply stuck_at_step. Qed.

Lemma stuck_run s : forall c, stuck c -> stuck (run false c s).
Proof. apply stuck_at_run. Qed.

Lemma stuck_at_not_done t c : stuck_at t c -> done_at c t = false /\ all_done c = false.
Proof.
  intros (todo & fs & m & f & st & new & Hth & _). split.
  - unfold done_at. rewrite Hth. unfold thr_done. cbn. destruct todo; reflexivity.
  - destruct (all_done c) eqn:Hd; [|reflexivity]. exfalso.
    pose proof (all_done_at _ _ _ Hd Hth) as H. unfold thr_done in H. cbn in H. destruct todo; discriminate.
Qed.

Lemma stuck_not_done c : stuck c -> done_at c 1 = false.
Proof. intros H. apply (stuck_at_not_done 1 c H). Qed.

(* a failed compare-and-swap leaves its thread stuck *)
Lemma fail_makes_stuck ser c t : snap_ok c -> c_fail (step ser c t) <> c_fail c -> stuck_at t (step ser c t).
Proof.
  intros Hok Hf. unfold step in *.
  destruct (c_thr c !! t) as [th|] eqn:Eth; [|contradiction].
  destruct (t_loc th) as [|fs m|fs m f st new|m f] eqn:Eloc; [| | |cbn in Hf; contradiction].
  - destruct (t_todo th) as [|[p|fs m|m f] rest]; [contradiction|cbn in Hf; contradiction| |];
      (destruct ser; [destruct (c_lock c)|]; cbn in Hf; contradiction).
  - destruct fs; cbn in Hf; contradiction.
  - destruct (Hok _ _ _ _ _ _ _ Eth Eloc) as [Hle _].
    destruct (bool_decide (stamp c f = st)) eqn:Hb; [cbn in Hf; contradiction|].
    apply bool_decide_eq_false in Hb.
    exists (t_todo th), fs, m, f, st, (wdm (c_rib c)). cbn [c_thr]. rewrite stamp_keep. split; [|lia].
    apply list_lookup_insert. eapply lookup_lt_Some, Eth.
Qed.

Lemma fail_stuck_run s : forall c, snap_ok c -> (c_fail c <> 0%N -> exists t, stuck_at t c) ->
  c_fail (run false c s) <> 0%N -> exists t, stuck_at t (run false c s).
Proof.
  induction s as [|t s IH]; intros c Hok Hinv Hf; [exact (Hinv Hf)|].
  change (run false c (t :: s)) with (run false (step false c t) s) in *.
  apply IH; [apply snap_ok_step, Hok| |exact Hf].
  intros Hf'. destruct (N.eq_dec (c_fail (step false c t)) (c_fail c)) as [Heq|Hne].
  - rewrite Heq in Hf'. destruct (Hinv Hf') as (t0 & Hst). exists t0. apply stuck_at_step, Hst.
  - exists t. apply fail_makes_stuck; assumption.
Qed.

(* MAIN 5a (the code as it was, in general): whatever the writers and the
   schedule, ONE failed compare-and-swap is fatal - from then on some writer
   never finishes, under every continuation *)
Theorem cas_failure_is_fatal progs s s' :
  c_fail (run false (init progs) s) <> 0%N ->
  all_done (run false (init progs) (s ++ s')) = false.
Proof.
  intros Hf. unfold run. rewrite fold_left_app. fold (run false (init progs) s).
  fold (run false (run false (init progs) s) s').
  destruct (fail_stuck_run s (init progs) (snap_ok_init progs)) as (t & Hst); [intros H; exfalso; apply H; reflexivity|exact Hf|].
  apply (stuck_at_not_done t). apply stuck_at_run, Hst.
Qed.

Lemma livelock_prefix_stuck : stuck (run false (init livelock_progs) livelock_prefix).
Proof.
  unfold stuck. eexists _, _, _, _, _, _. split; [vm_compute; reflexivity|]. vm_compute. reflexivity.
Qed.

(* MAIN 5 (refutation for the code as it was): two sessions lost at the same
   moment; after six shared-memory accesses the second writer can never finish
   its Update::Withdraw, under ANY continuation of the schedule, however fair
   and however long - and its id is never marked *)
Theorem cas_livelock s :
  done_at (run false (init livelock_progs) (livelock_prefix ++ s)) 1 = false /\
  all_done (run false (init livelock_progs) (livelock_prefix ++ s)) = false.
Proof.
  unfold run. rewrite fold_left_app. fold (run false (init livelock_progs) livelock_prefix).
  set (c0 := run false (init livelock_progs) livelock_prefix).
  fold (run false c0 s).
  pose proof (stuck_run s c0 livelock_prefix_stuck) as Hs.
  pose proof (stuck_not_done _ Hs) as Hnd. split; [exact Hnd|].
  destruct (all_done (run false c0 s)) eqn:Hd; [|reflexivity]. exfalso.
  destruct Hs as (todo & fs & m & f & st & new & Hth & _).
  pose proof (all_done_at _ _ _ Hd Hth) as H. unfold thr_done in H. cbn in H. destruct todo; discriminate.
Qed.

(* the same scenario on the repaired code finishes, in exactly work(init) = 20 steps of a round-robin *)
Lemma livelock_scenario_repaired :
  work (init livelock_progs) = 20 /\
  all_done (run true (init livelock_progs) (concat (repeat [0; 1] 20))) = true /\
  c_fail (run true (init livelock_progs) (concat (repeat [0; 1] 20))) = 0%N.
Proof. vm_compute. repeat split; reflexivity. Qed.

(* ------------------------------------------------------------------ *)
(* 6. down to the property's own reading (RibModel.spec_lookup)        *)
(* ------------------------------------------------------------------ *)

(* what its owner wrote last: the last announce / withdraw / session loss of
   that id for that (family, prefix); exact outside the recorded class C03-1
   (announcement after a session-wide withdrawal of a reused id), which is a
   property of the sequential RIB, not of concurrency *)
Theorem last_write_is_last_event ser progs s t p k :
  disjoint_ids progs -> progs !! t = Some p -> In (k_mui k) (prog_muis p) ->
  all_done (run ser (init progs) s) = true ->
  known_c03 (evs_of (effective p)) k = false ->
  rib_lookup (c_rib (run ser (init progs) s)) k = spec_lookup (evs_of (effective p)) k.
Proof.
  intros Hdis Hp Hk Hdone Hkn. rewrite (last_write_wins ser progs s t p k Hdis Hp Hk Hdone).
  apply rib_lookup_spec_exact, Hkn.
Qed.

(* ------------------------------------------------------------------ *)
(* 7. requests the RIB has no arm for: the panic is the outcome of that *)
(*    one call and of no other; the mutex it poisons is taken all the   *)
(*    same (sections 3 and 4 hold for programs with such requests: the  *)
(*    RIB is the one of [effective], every fair schedule finishes)      *)
(* ------------------------------------------------------------------ *)

Definition act_pans (a : act) : list pan := match a with AUnsup m f => [PUnsup m f] | _ => [] end.
Definition loc_pans (l : lst) : list pan := match l with LPanic m f => [PUnsup m f] | _ => [] end.
(* the panics a thread still has in front of it *)
Definition pend_pans (th : thr) : list pan := loc_pans (t_loc th) ++ flat_map act_pans (t_todo th).
(* the panic a step of thread t raises, if any *)
Definition step_pan (c : cst) (t : nat) : list pan :=
  match c_thr c !! t with Some th => loc_pans (t_loc th) | None => [] end.

Lemma pans_of_app t l1 l2 : pans_of t (l1 ++ l2) = pans_of t l1 ++ pans_of t l2.
Proof.
  induction l1 as [|[t' x] l1 IH]; [reflexivity|]. cbn. destruct (Nat.eqb t' t); cbn; rewrite IH; reflexivity.
Qed.

Lemma pans_of_pair t' t l : pans_of t (map (pair t') l) = if Nat.eqb t' t then l else [].
Proof.
  induction l as [|x l IH]; [destruct (Nat.eqb t' t); reflexivity|]. cbn [map pans_of].
  destruct (Nat.eqb t' t); [rewrite IH; reflexivity|exact IH].
Qed.

Lemma in_pans_of t x l : In (t, x) l <-> In x (pans_of t l).
Proof.
  induction l as [|[t' x'] l IH]; [reflexivity|]. cbn [In pans_of]. destruct (Nat.eqb t' t) eqn:E.
  - apply Nat.eqb_eq in E as ->. cbn [In]. rewrite <- IH. split; (intros [H|H]; [left; congruence|right; exact H]).
  - apply Nat.eqb_neq in E. rewrite <- IH. split; [intros [H|H]; [congruence|exact H]|intros H; right; exact H].
Qed.

(* the log grows by what the step raises, and only at its end *)
Lemma step_panics ser c t : c_panics (step ser c t) = c_panics c ++ map (pair t) (step_pan c t).
Proof.
  unfold step, step_pan. destruct (c_thr c !! t) as [th|]; [|symmetry; apply app_nil_r].
  destruct (t_loc th) as [|fs m|fs m f st new|m f]; cbn [loc_pans map].
  - destruct (t_todo th) as [|[p|fs m|m f] rest]; [| |destruct ser; [destruct (c_lock c)|]|destruct ser; [destruct (c_lock c)|]];
      cbn [c_panics]; symmetry; apply app_nil_r.
  - destruct fs; cbn [c_panics]; symmetry; apply app_nil_r.
  - destruct (bool_decide _); cbn [c_panics]; symmetry; apply app_nil_r.
  - reflexivity.
Qed.

(* a step of t' leaves the other threads' accounts alone and moves at most
   one pending panic of t' into the log *)
Lemma step_pans ser c t' t th :
  c_thr c !! t = Some th ->
  exists th', c_thr (step ser c t') !! t = Some th' /\
    pans_of t (c_panics (step ser c t')) ++ pend_pans th' = pans_of t (c_panics c) ++ pend_pans th.
Proof.
  intros Hth.
  destruct (Nat.eqb t' t) eqn:Et.
  - apply Nat.eqb_eq in Et as ->.
    enough (exists th', c_thr (step ser c t) !! t = Some th' /\ step_pan c t ++ pend_pans th' = pend_pans th) as (th' & H1 & H2)
      by (exists th'; split; [exact H1|rewrite step_panics, pans_of_app, pans_of_pair, Nat.eqb_refl, <- app_assoc, H2; reflexivity]).
    unfold step, step_pan. rewrite Hth.
    assert (t < length (c_thr c)) as Hlt by (eapply lookup_lt_Some, Hth).
    destruct (t_loc th) as [|fs m|fs m f st new|m f] eqn:Eloc; cbn [loc_pans app].
    + destruct (t_todo th) as [|[p|fs m|m f] rest] eqn:Etodo.
      * exists th. split; [exact Hth|reflexivity].
      * eexists. cbn [c_thr]. rewrite list_lookup_insert by exact Hlt. split; [reflexivity|].
        unfold pend_pans. rewrite Eloc, Etodo. reflexivity.
      * destruct ser; [destruct (c_lock c)|]; [exists th; split; [exact Hth|reflexivity]| |];
          (eexists; cbn [c_thr]; rewrite list_lookup_insert by exact Hlt; split; [reflexivity|];
           unfold pend_pans; rewrite Eloc, Etodo; reflexivity).
      * destruct ser; [destruct (c_lock c)|]; [exists th; split; [exact Hth|reflexivity]| |];
          (eexists; cbn [c_thr]; rewrite list_lookup_insert by exact Hlt; split; [reflexivity|];
           unfold pend_pans; rewrite Eloc, Etodo; reflexivity).
    + destruct fs as [|f fs]; eexists; cbn [c_thr]; rewrite list_lookup_insert by exact Hlt; (split; [reflexivity|]);
        unfold pend_pans; rewrite Eloc; reflexivity.
    + destruct (bool_decide (stamp c f = st)); eexists; cbn [c_thr]; rewrite list_lookup_insert by exact Hlt;
        (split; [reflexivity|]); unfold pend_pans; rewrite Eloc; reflexivity.
    + eexists. cbn [c_thr]. rewrite list_lookup_insert by exact Hlt. split; [reflexivity|].
      unfold pend_pans. rewrite Eloc. reflexivity.
  - exists th. rewrite step_panics, pans_of_app, pans_of_pair, Et, app_nil_r.
    apply Nat.eqb_neq in Et. rewrite step_other by exact Et. split; [exact Hth|reflexivity].
Qed.

Lemma conserve_pans ser s : forall c t th, c_thr c !! t = Some th ->
  exists th', c_thr (run ser c s) !! t = Some th' /\
    pans_of t (c_panics (run ser c s)) ++ pend_pans th' = pans_of t (c_panics c) ++ pend_pans th.
Proof.
  induction s as [|t' s IH]; intros c t th Hth.
  - exists th. split; [exact Hth|reflexivity].
  - cbn [run fold_left]. fold (run ser (step ser c t') s).
    destruct (step_pans ser c t' t th Hth) as (th1 & Hth1 & Hrel).
    destruct (IH _ _ _ Hth1) as (th2 & Hth2 & Hcons).
    exists th2. split; [exact Hth2|]. rewrite Hcons. exact Hrel.
Qed.

Lemma acts_pans u : flat_map act_pans (acts_of_update u) = upd_pans u.
Proof.
  destruct u as [ps|m fo|ms|]; cbn [acts_of_update upd_pans]; [| | |reflexivity].
  - induction ps as [|p ps IH]; [reflexivity|exact IH].
  - destruct (unsupported fo); reflexivity.
  - induction ms as [|m ms IH]; [reflexivity|exact IH].
Qed.

Lemma prog_pans p : flat_map act_pans (acts_of_prog p) = flat_map upd_pans p.
Proof.
  induction p as [|u p IH]; [reflexivity|]. unfold acts_of_prog in *. cbn [flat_map].
  rewrite flat_map_app, IH, acts_pans. reflexivity.
Qed.

Lemma thr_done_pend_pans th : thr_done th = true -> pend_pans th = [].
Proof. unfold thr_done, pend_pans. destruct (t_todo th), (t_loc th); try discriminate. reflexivity. Qed.

(* MAIN 6: the calls of writer t that ended in a panic are, in program order,
   its requests for a family the RIB has no arm for - a prefix of them at any
   moment of any interleaving, all of them once the writer is done. No other
   call of t, and (for every t) no call of another writer, panics. *)
Theorem panics_exact ser progs s t p : progs !! t = Some p ->
  exists rest, pans_of t (c_panics (run ser (init progs) s)) ++ rest = flat_map upd_pans p /\
    (done_at (run ser (init progs) s) t = true -> rest = []).
Proof.
  intros Hp. destruct (conserve_pans ser s _ _ _ (init_thr _ _ _ Hp)) as (th' & Hth' & Hc).
  exists (pend_pans th'). split.
  - rewrite Hc. unfold pend_pans. cbn [init c_panics pans_of t_loc t_todo loc_pans app]. apply prog_pans.
  - unfold done_at. rewrite Hth'. apply thr_done_pend_pans.
Qed.

Lemma no_thread_no_panic ser t x s : forall c, c_thr c !! t = None -> ~ In (t, x) (c_panics c) ->
  ~ In (t, x) (c_panics (run ser c s)).
Proof.
  induction s as [|t' s IH]; intros c Hn Hno; [exact Hno|].
  change (run ser c (t' :: s)) with (run ser (step ser c t') s). apply IH.
  - apply lookup_ge_None. rewrite step_length. apply lookup_ge_None, Hn.
  - rewrite step_panics. intros Hin. apply in_app_or in Hin as [Hin|Hin]; [exact (Hno Hin)|].
    apply in_map_iff in Hin as (y & [= -> ->] & Hy). unfold step_pan in Hy. rewrite Hn in Hy. destruct Hy.
Qed.

Lemma upd_pans_in p x : In x (flat_map upd_pans p) ->
  exists m f, x = PUnsup m f /\ In (UWithdraw m (Some f)) p /\ fam_supported f = false.
Proof.
  induction p as [|u p IH]; [intros []|]. cbn [flat_map]. intros H. apply in_app_or in H as [H|H].
  - destruct u as [ps|m fo|ms|]; try destruct H. cbn [upd_pans] in H.
    destruct fo as [f|]; cbn [unsupported] in H; [|destruct H].
    destruct (fam_supported f) eqn:Ef; [destruct H|]. destruct H as [<-|[]].
    exists m, f. split; [reflexivity|]. split; [left; reflexivity|exact Ef].
  - destruct (IH H) as (m & f & -> & Hin & Hf). exists m, f. split; [reflexivity|]. split; [right; exact Hin|exact Hf].
Qed.

(* every entry of the log, whoever made it *)
Theorem only_unsupported_requests_panic ser progs s t x :
  In (t, x) (c_panics (run ser (init progs) s)) ->
  exists p m f, progs !! t = Some p /\ x = PUnsup m f /\ In (UWithdraw m (Some f)) p /\ fam_supported f = false.
Proof.
  intros Hin. destruct (progs !! t) as [p|] eqn:Hp.
  - destruct (panics_exact ser progs s t p Hp) as (rest & Heq & _).
    apply in_pans_of in Hin.
    assert (In x (flat_map upd_pans p)) as Hx by (rewrite <- Heq; apply in_or_app; left; exact Hin).
    destruct (upd_pans_in p x Hx) as (m & f & -> & Hu & Hf). exists p, m, f. auto.
  - exfalso. eapply (no_thread_no_panic ser t x s (init progs)); [| |exact Hin].
    + unfold init. cbn [c_thr]. rewrite list_lookup_fmap, Hp. reflexivity.
    + intros [].
Qed.

(* ---- the mutex IS poisoned by such a panic (and stays so) ---- *)
Definition poison_ok (c : cst) : Prop :=
  c_poison c = match c_panics c with [] => false | _ => true end.

Lemma poison_ok_step c t : poison_ok c -> poison_ok (step true c t).
Proof.
  unfold poison_ok. intros H. unfold step. destruct (c_thr c !! t) as [th|]; [|exact H].
  destruct (t_loc th) as [|fs m|fs m f st new|m f].
  - destruct (t_todo th) as [|[p|fs m|m f] rest]; [exact H|exact H| |]; (destruct (c_lock c); exact H).
  - destruct fs; exact H.
  - destruct (bool_decide _); exact H.
  - cbn [c_poison c_panics]. destruct (c_panics c); reflexivity.
Qed.

Lemma poison_ok_run s : forall c, poison_ok c -> poison_ok (run true c s).
Proof. induction s as [|t s IH]; intros c Hc; [exact Hc|]. cbn. apply IH, poison_ok_step, Hc. Qed.

Theorem poisoned_iff_panicked progs s :
  c_poison (run true (init progs) s) = true <-> c_panics (run true (init progs) s) <> [].
Proof.
  pose proof (poison_ok_run s (init progs) eq_refl) as H. unfold poison_ok in H. rewrite H.
  destruct (c_panics (run true (init progs) s)); [split; [discriminate|intros Hn; contradiction]|split; [discriminate|reflexivity]].
Qed.

(* the scenario: one request for FlowSpec, then two sessions go down; on the
   code as it is everything finishes, the lock is poisoned, the two sessions
   are withdrawn, the panic is the FlowSpec request's alone *)
Lemma poison_scenario :
  let c := run true (init poison_progs) poison_sched in
  all_done c = true /\ c_poison c = true /\ c_panics c = [(0, PUnsup 1%N 9%N)] /\
  rib_lookup (c_rib c) (ex_key 0 7 1) = Some (true, 5%N) /\
  rib_lookup (c_rib c) (ex_key 0 7 2) = Some (false, 3%N) /\
  rib_lookup (c_rib c) (ex_key 1 7 3) = Some (false, 4%N) /\
  rib_lookup (c_rib c) (ex_key 2 8 3) = Some (false, 4%N).
Proof. vm_compute. repeat split; reflexivity. Qed.

(* ---- COUNTERFACTUAL: `.lock().unwrap()` ---- *)
Lemma strict_done_stays c t : all_done c = true -> step_strict c t = c.
Proof.
  intros Hd. unfold step_strict. destruct (c_thr c !! t) as [th|] eqn:Eth; [|reflexivity].
  pose proof (all_done_at c t th Hd Eth) as H. unfold thr_done in H.
  pose proof (done_stays c t Hd) as Hs.
  destruct (t_todo th), (t_loc th); try discriminate. exact Hs.
Qed.

Lemma strict_done_stays_run s : forall c, all_done c = true -> run_strict c s = c.
Proof. induction s as [|t s IH]; intros c Hd; [reflexivity|]. cbn. rewrite strict_done_stays by exact Hd. apply IH, Hd. Qed.

(* REFUTATION for the counterfactual: after the one panic under the guard,
   every later session-wide withdrawal of every other session panics before it
   has marked anything - the writers finish, and the routes of sessions 2 and 3
   stay active for ever, under every continuation of the schedule *)
Theorem unwrap_on_poison_loses_withdrawals s :
  let c := run_strict (init poison_progs) (poison_sched ++ s) in
  all_done c = true /\
  c_panics c = [(0, PUnsup 1%N 9%N); (1, PPoison 2%N); (2, PPoison 3%N)] /\
  rib_lookup (c_rib c) (ex_key 0 7 2) = Some (true, 3%N) /\
  rib_lookup (c_rib c) (ex_key 1 7 3) = Some (true, 4%N) /\
  rib_lookup (c_rib c) (ex_key 2 8 3) = Some (true, 4%N).
Proof.
  cbv zeta. unfold run_strict. rewrite fold_left_app. fold (run_strict (init poison_progs) poison_sched).
  set (c0 := run_strict (init poison_progs) poison_sched). fold (run_strict c0 s).
  assert (all_done c0 = true) as Hd by (vm_compute; reflexivity).
  rewrite (strict_done_stays_run s c0 Hd). vm_compute. repeat split; reflexivity.
Qed.
