(* Model of src/comms.rs: Gate (root + clones), GateAgent, Link, DirectLink.
   Definitions only; proofs are in GateProofs.v.

   An interleaving small-step semantics. [step] is total: an action that is
   not enabled leaves the state unchanged, so EVERY list of actions is a
   schedule and "for all schedules" is "for all action lists".

   What is one atomic step (and why):
   * every FrimMap operation (insert / remove / guard()) is one atomic step of
     the copy-on-write map (property C18);
   * Gate::process() handles ONE command per [ARoot] / [ACloneStep]. The only
     thing a handler awaits is notify_clones (555-604): one
     `sender.send(cmd).await` per attached clone, in clone_senders order, into
     that clone's BOUNDED command queue (COMMAND_QUEUE_LEN = 16). That loop is
     modelled send by send ([rnote], the sends still to do; one [ARoot] each):
     a send to a clone whose queue is full is NOT ENABLED - the root's
     process() waits there (back-pressure), handles no other command, and goes
     on once that clone has taken a command off its queue or has been dropped;
     `Err(Terminated)` is returned ([root_term]) only after the last send of
     notify_clones(Terminate) ([NFinTerm]);
   * Gate::update_data() is [ABegin] (self.updates.guard(): the snapshot),
     one [ADeliver] per slot of the snapshot (sender.send(..).await /
     direct_update(..).await; a full bounded queue BLOCKS: the step is not
     enabled; a dropped queue receiver / a dropped direct-update target
     (Weak::upgrade fails) is skipped without setting sent_at_least_once) and
     [AEnd] (metrics.update: num_updates += 1, num_dropped_updates += 1 unless
     sent_at_least_once: GateMetrics::update 1030-1045);
   * the link side: connect() = [ASendSub] (Subscribe queued), the answer put
     into the oneshot inside [ARoot] ([LAnsw]), [APick] (the connect() future
     is polled again and returns: [LConn]); [AAbandon]: the future returned by
     connect() / query() is DROPPED half-way ("can be dropped safely at any
     time", doc of Link::query) - before the gate got to the Subscribe (the
     queued command now carries a oneshot sender whose receiver is gone:
     [CSubDead]; the gate will insert the slot, fail to answer and REMOVE the
     slot again, Gate::subscribe), or after the gate answered but before the
     answer was picked up ([LAnsw]: the SubscribeResponse dies with the
     oneshot; PendingSubscription::drop takes it out and gives the slot back
     with Unsubscribe - [cf_guard]);
     disconnect() = [ASendUnsub] (the receiver is dropped at once),
     suspend()/resume = [ASendSusp], query() = [ARecv]; [ARxDrop x]: the
     receiving end of slot x goes away while the slot is still registered (the
     component drops its direct-update target, or closes its queue receiver).

   comms.rs anchors (tree with the two `fix:` commits): update_data 668-766,
   GateMetrics::update 1030-1045, suspension 778-786, subscribe 792-836,
   unsubscribe 838-843, process 377-556, notify_clones 558-604,
   COMMAND_QUEUE_LEN 109, Clone for Gate 854-927, Link 1300-1530. *)
From Coq Require Import List NArith Bool.
Import ListNotations.
Local Open Scope N_scope.

(* an entry of the `updates` / `suspended` maps: slot -> UpdateSender; the
   sender is identified by the link whose queue / direct target it feeds *)
Definition entry := (N * N)%type.

(* commands on the root gate's queue / on a clone's queue *)
Inductive cmd :=
| CSub (l : N) | CUnsub (s : N) | CSusp (s : N) (b : bool)
| CAttach (c : N) | CDetach (c : N) | CTerm
| CSubDead (l : N).   (* a Subscribe whose requester has gone away: nobody holds the oneshot receiver *)
Inductive ccmd := FSub (e : entry) | FUnsub (s : N) | FTerm.

(* notify_clones in progress: the sends still to do, in order; [NFinTerm] =
   `return Err(Terminated)` after notify_clones(Terminate) *)
Inductive nstep := NSend (c : N) (x : ccmd) | NFinTerm.

(* COMMAND_QUEUE_LEN: capacity of every gate command channel (comms.rs 109) *)
Definition cmd_queue_len : N := 16.

(* a publisher (0 = the root gate, c >= 1 = clone c): idle with its next
   sequence number, or inside update_data holding the snapshot it took *)
Inductive pstate :=
| PIdle (next : N)
| PSending (seq : N) (snap rest : list entry) (sent : bool).

(* LPending: Subscribe queued, connect() waits for the answer; LAnsw s: the gate has answered
   (slot s; the answer sits in the oneshot), connect() has not been polled since; LConn: connect()
   has returned *)
Inductive lstate := LIdle | LPending | LConn (s : N) (susp : bool) | LAnsw (s : N).

Record clone := MkClone { c_alive : bool; c_att : bool; c_term : bool; c_q : list ccmd }.
Record chan := MkChan { ch_q : list (N * N); ch_rx : bool }.

(* cf_cap: Gate::new(queue_size). cf_follow = true is the code as it was at the
   pinned commit: a clone handling FollowSubscribe / FollowUnsubscribe mutates
   `updates`, which it SHARES (Arc) with the root; false = after the repair.
   cf_guard = false is Link::connect as it was: an answer that is in the oneshot
   when the connect() future is dropped is lost, and the slot it names stays in
   the gate with nobody knowing its id; true = after the repair
   (PendingSubscription: the slot is handed back with Unsubscribe). *)
Record cfg := MkCfg { cf_cap : N; cf_follow : bool; cf_guard : bool }.

Record st := MkSt {
  upd : list entry;            (* Gate.updates, in FrimMap (vector) order *)
  sus : list entry;            (* Gate.suspended *)
  nslot : N;                   (* slots are fresh (Uuid::new_v4) *)
  rootq : list cmd;            (* root command channel, FIFO *)
  root_term : bool;            (* root's process() returned Err(Terminated) *)
  root_dropped : bool;
  nclone : N;
  clones : N -> clone;
  pubs : N -> pstate;
  links : N -> lstate;
  chans : N -> chan;           (* per slot: the bounded mpsc of a queue link *)
  delivered : list (N * N * N * N);   (* (slot, link, publisher, seq) handed over, newest first *)
  received : list (N * N * N);        (* (link, publisher, seq) seen by the component, newest first *)
  completed : list (N * N * list entry * bool); (* finished updates: publisher, seq, snapshot, sent_at_least_once *)
  rnote : list nstep;          (* the root is inside notify_clones: sends still to do *)
  m_upd : N;                   (* GateMetrics.num_updates (shared by root and clones) *)
  m_drop : N                   (* GateMetrics.num_dropped_updates *)
}.

Definition set_upd (v : list entry) (s : st) : st :=
  MkSt v (sus s) (nslot s) (rootq s) (root_term s) (root_dropped s) (nclone s) (clones s) (pubs s) (links s) (chans s) (delivered s) (received s) (completed s) (rnote s) (m_upd s) (m_drop s).
Definition set_sus (v : list entry) (s : st) : st :=
  MkSt (upd s) v (nslot s) (rootq s) (root_term s) (root_dropped s) (nclone s) (clones s) (pubs s) (links s) (chans s) (delivered s) (received s) (completed s) (rnote s) (m_upd s) (m_drop s).
Definition set_nslot (v : N) (s : st) : st :=
  MkSt (upd s) (sus s) v (rootq s) (root_term s) (root_dropped s) (nclone s) (clones s) (pubs s) (links s) (chans s) (delivered s) (received s) (completed s) (rnote s) (m_upd s) (m_drop s).
Definition set_rootq (v : list cmd) (s : st) : st :=
  MkSt (upd s) (sus s) (nslot s) v (root_term s) (root_dropped s) (nclone s) (clones s) (pubs s) (links s) (chans s) (delivered s) (received s) (completed s) (rnote s) (m_upd s) (m_drop s).
Definition set_root_term (v : bool) (s : st) : st :=
  MkSt (upd s) (sus s) (nslot s) (rootq s) v (root_dropped s) (nclone s) (clones s) (pubs s) (links s) (chans s) (delivered s) (received s) (completed s) (rnote s) (m_upd s) (m_drop s).
Definition set_root_dropped (v : bool) (s : st) : st :=
  MkSt (upd s) (sus s) (nslot s) (rootq s) (root_term s) v (nclone s) (clones s) (pubs s) (links s) (chans s) (delivered s) (received s) (completed s) (rnote s) (m_upd s) (m_drop s).
Definition set_nclone (v : N) (s : st) : st :=
  MkSt (upd s) (sus s) (nslot s) (rootq s) (root_term s) (root_dropped s) v (clones s) (pubs s) (links s) (chans s) (delivered s) (received s) (completed s) (rnote s) (m_upd s) (m_drop s).
Definition set_clones (v : N -> clone) (s : st) : st :=
  MkSt (upd s) (sus s) (nslot s) (rootq s) (root_term s) (root_dropped s) (nclone s) v (pubs s) (links s) (chans s) (delivered s) (received s) (completed s) (rnote s) (m_upd s) (m_drop s).
Definition set_pubs (v : N -> pstate) (s : st) : st :=
  MkSt (upd s) (sus s) (nslot s) (rootq s) (root_term s) (root_dropped s) (nclone s) (clones s) v (links s) (chans s) (delivered s) (received s) (completed s) (rnote s) (m_upd s) (m_drop s).
Definition set_links (v : N -> lstate) (s : st) : st :=
  MkSt (upd s) (sus s) (nslot s) (rootq s) (root_term s) (root_dropped s) (nclone s) (clones s) (pubs s) v (chans s) (delivered s) (received s) (completed s) (rnote s) (m_upd s) (m_drop s).
Definition set_chans (v : N -> chan) (s : st) : st :=
  MkSt (upd s) (sus s) (nslot s) (rootq s) (root_term s) (root_dropped s) (nclone s) (clones s) (pubs s) (links s) v (delivered s) (received s) (completed s) (rnote s) (m_upd s) (m_drop s).
Definition set_delivered (v : list (N * N * N * N)) (s : st) : st :=
  MkSt (upd s) (sus s) (nslot s) (rootq s) (root_term s) (root_dropped s) (nclone s) (clones s) (pubs s) (links s) (chans s) v (received s) (completed s) (rnote s) (m_upd s) (m_drop s).
Definition set_received (v : list (N * N * N)) (s : st) : st :=
  MkSt (upd s) (sus s) (nslot s) (rootq s) (root_term s) (root_dropped s) (nclone s) (clones s) (pubs s) (links s) (chans s) (delivered s) v (completed s) (rnote s) (m_upd s) (m_drop s).
Definition set_completed (v : list (N * N * list entry * bool)) (s : st) : st :=
  MkSt (upd s) (sus s) (nslot s) (rootq s) (root_term s) (root_dropped s) (nclone s) (clones s) (pubs s) (links s) (chans s) (delivered s) (received s) v (rnote s) (m_upd s) (m_drop s).
Definition set_rnote (v : list nstep) (s : st) : st :=
  MkSt (upd s) (sus s) (nslot s) (rootq s) (root_term s) (root_dropped s) (nclone s) (clones s) (pubs s) (links s) (chans s) (delivered s) (received s) (completed s) v (m_upd s) (m_drop s).
Definition set_m_upd (v : N) (s : st) : st :=
  MkSt (upd s) (sus s) (nslot s) (rootq s) (root_term s) (root_dropped s) (nclone s) (clones s) (pubs s) (links s) (chans s) (delivered s) (received s) (completed s) (rnote s) v (m_drop s).
Definition set_m_drop (v : N) (s : st) : st :=
  MkSt (upd s) (sus s) (nslot s) (rootq s) (root_term s) (root_dropped s) (nclone s) (clones s) (pubs s) (links s) (chans s) (delivered s) (received s) (completed s) (rnote s) (m_upd s) v.

Definition fupd {A} (f : N -> A) (k : N) (v : A) : N -> A :=
  fun x => if N.eqb x k then v else f x.

Definition is_direct (l : N) : bool := N.odd l.

(* FrimMap::remove / insert (insert replaces an existing key and appends) *)
Definition key_neq (s : N) (e : entry) : bool := negb (N.eqb (fst e) s).
Definition m_del (s : N) (m : list entry) : list entry := filter (key_neq s) m.
Definition m_ins (e : entry) (m : list entry) : list entry := m_del (fst e) m ++ [e].
Definition m_find (s : N) (m : list entry) : option entry := find (fun e => N.eqb (fst e) s) m.

(* notify_clones: `clone_senders.guard().iter()` - the attached clones, in
   the order in which they were attached (= clone id order); whether the
   receiver still exists is looked at when the send is attempted *)
Definition is_fterm (x : ccmd) : bool := match x with FTerm => true | _ => false end.
Definition clone_ids (n : N) : list N := map N.of_nat (seq 1 (N.to_nat n)).
Definition targets (s : st) : list N := filter (fun c => c_att (clones s c)) (clone_ids (nclone s)).
Definition note_list (x : ccmd) (s : st) : list nstep :=
  map (fun c => NSend c x) (targets s) ++ (if is_fterm x then [NFinTerm] else []).
Definition start_note (x : ccmd) (s : st) : st := set_rnote (note_list x s) s.

Definition push_cmd (x : ccmd) (k : clone) : clone := MkClone (c_alive k) (c_att k) (c_term k) (c_q k ++ [x]).

(* one step of the root inside notify_clones *)
Definition note_step (s : st) : st :=
  match rnote s with
  | NSend c x :: rest =>
      let k := clones s c in
      if negb (c_alive k) then set_rnote rest s     (* closed sender (is_closed() / send fails): skipped *)
      else if N.ltb (N.of_nat (length (c_q k))) cmd_queue_len
           then set_rnote rest (set_clones (fupd (clones s) c (push_cmd x k)) s)
           else s                                   (* the clone's queue is full: send().await waits *)
  | NFinTerm :: rest => set_root_term true (set_rnote rest s)
  | [] => s
  end.

Definition set_att (b : bool) (k : clone) : clone := MkClone (c_alive k) b (c_term k) (c_q k).
Definition set_cterm (k : clone) : clone := MkClone (c_alive k) (c_att k) true (c_q k).
Definition set_cq (q : list ccmd) (k : clone) : clone := MkClone (c_alive k) (c_att k) (c_term k) q.

Definition pub_alive (s : st) (p : N) : bool :=
  if N.eqb p 0 then negb (root_dropped s) else c_alive (clones s p).

Definition pub_idle (s : st) (p : N) : bool :=
  match pubs s p with PIdle _ => true | _ => false end.

(* get_gate_status: Dormant iff suspended.len() == updates.len() *)
Definition gate_dormant (s : st) : bool := Nat.eqb (length (sus s)) (length (upd s)).

(* every sender of every update channel is gone: root and all clones dropped *)
Definition clone_dead (s : st) (c : N) : bool := negb (c_alive (clones s c)).

Inductive action :=
| ASendSub (l : N) | ASendUnsub (l : N) | ASendSusp (l : N) (b : bool) | ARecv (l : N)
| ASendTerm | ARoot | ARootDrop
| AClone | ACloneStep (c : N) | ACloneDrop (c : N)
| ABegin (p : N) | ADeliver (p : N) | AEnd (p : N)
| ARxDrop (x : N)
| APick (l : N) | AAbandon (l : N).

(* the connect() future of link l is dropped while its Subscribe is still queued: the oneshot
   receiver inside the queued command is gone *)
Definition kill_sub (l : N) (c : cmd) : cmd :=
  match c with CSub l' => if N.eqb l' l then CSubDead l' else c | _ => c end.

Definition root_handle (s : st) (c : cmd) : st :=
  match c with
  | CSub l =>
      (* subscribe(): insert the slot, THEN answer (response.send() is Ok: the requester still
         holds the oneshot receiver), then FollowSubscribe to the clones *)
      let e := (nslot s, l) in
      start_note (FSub e)
        (set_links (fupd (links s) l (LAnsw (nslot s)))
           (set_nslot (nslot s + 1) (set_upd (m_ins e (upd s)) s)))
  | CSubDead l =>
      (* subscribe() for a requester that went away: insert the slot, response.send() is Err,
         `self.updates.remove(&subscription.slot)`; the clones are not told *)
      let e := (nslot s, l) in
      set_nslot (nslot s + 1) (set_upd (m_del (nslot s) (m_ins e (upd s))) s)
  | CUnsub x =>
      start_note (FUnsub x)
        (set_upd (m_del x (upd s)) (set_sus (m_del x (sus s)) s))
  | CSusp x true =>
      match m_find x (upd s) with
      | Some e => set_sus (m_ins e (sus s)) (set_upd (m_del x (upd s)) s)
      | None => s
      end
  | CSusp x false =>
      match m_find x (sus s) with
      | Some e => set_upd (m_ins e (upd s)) (set_sus (m_del x (sus s)) s)
      | None => s
      end
  | CAttach c => set_clones (fupd (clones s) c (set_att true (clones s c))) s
  | CDetach c => set_clones (fupd (clones s) c (set_att false (clones s c))) s
  | CTerm => start_note FTerm s   (* Err(Terminated) once notify_clones is through: NFinTerm *)
  end.

Definition clone_handle (cf : cfg) (s : st) (c : N) (x : ccmd) : st :=
  match x with
  | FSub e => if cf_follow cf then set_upd (m_ins e (upd s)) s else s
  | FUnsub x => if cf_follow cf then set_upd (m_del x (upd s)) s else s
  | FTerm => set_clones (fupd (clones s) c (set_cterm (clones s c))) s
  end.

Definition step (cf : cfg) (s : st) (a : action) : st :=
  match a with
  | ASendSub l =>
      match links s l with
      | LIdle => if root_dropped s then s
                 else set_rootq (rootq s ++ [CSub l]) (set_links (fupd (links s) l LPending) s)
      | _ => s
      end
  | ASendUnsub l =>
      match links s l with
      | LConn x _ =>
          let s1 := set_rootq (rootq s ++ [CUnsub x]) (set_links (fupd (links s) l LIdle) s) in
          (* a queue link drops its receiver (and whatever is still queued) *)
          if is_direct l then s1 else set_chans (fupd (chans s) x (MkChan [] false)) s1
      | _ => s
      end
  | ASendSusp l b =>
      match links s l with
      | LConn x b0 =>
          if Bool.eqb b b0 then s
          else set_rootq (rootq s ++ [CSusp x b]) (set_links (fupd (links s) l (LConn x b)) s)
      | _ => s
      end
  | ARecv l =>
      match links s l with
      | LConn x _ =>
          if is_direct l then s else
          match ch_q (chans s x) with
          | (p, n) :: q => set_received ((l, p, n) :: received s)
                             (set_chans (fupd (chans s) x (MkChan q (ch_rx (chans s x)))) s)
          | [] => s
          end
      | _ => s
      end
  | ASendTerm => set_rootq (rootq s ++ [CTerm]) s
  | ARoot =>
      if root_term s || root_dropped s then s else
      match rnote s with
      | _ :: _ => note_step s
      | [] =>
          match rootq s with
          | [] => s
          | c :: q => root_handle (set_rootq q s) c
          end
      end
  | ARootDrop => if pub_idle s 0 then set_root_dropped true s else s
  | AClone =>
      let c := nclone s in
      set_rootq (rootq s ++ [CAttach c])
        (set_nclone (c + 1) (set_clones (fupd (clones s) c (MkClone true false false [])) s))
  | ACloneStep c =>
      let k := clones s c in
      if c_alive k && negb (c_term k) then
        match c_q k with
        | [] => (* recv() on an empty queue: None once every sender is gone *)
            if root_dropped s then set_clones (fupd (clones s) c (set_cterm k)) s else s
        | x :: q => clone_handle cf (set_clones (fupd (clones s) c (set_cq q k)) s) c x
        end
      else s
  | ACloneDrop c =>
      let k := clones s c in
      if c_alive k && pub_idle s c && negb (N.eqb c 0) then
        set_rootq (rootq s ++ [CDetach c])
          (set_clones (fupd (clones s) c (MkClone false (c_att k) (c_term k) [])) s)
      else s
  | ABegin p =>
      match pubs s p with
      | PIdle n => if pub_alive s p then set_pubs (fupd (pubs s) p (PSending n (upd s) (upd s) false)) s else s
      | _ => s
      end
  | ADeliver p =>
      match pubs s p with
      | PSending n snap ((x, l) :: rest) sent =>
          let ch := chans s x in
          if negb (ch_rx ch) then
            (* queue: send() fails, receiver dropped; direct: Weak::upgrade() fails, target dropped *)
            set_pubs (fupd (pubs s) p (PSending n snap rest sent)) s
          else if is_direct l then
            (* direct.upgrade() succeeds while the component lives: direct_update is called *)
            set_received ((l, p, n) :: received s)
              (set_delivered ((x, l, p, n) :: delivered s)
                 (set_pubs (fupd (pubs s) p (PSending n snap rest true)) s))
          else if N.ltb (N.of_nat (length (ch_q ch))) (cf_cap cf) then
            set_chans (fupd (chans s) x (MkChan (ch_q ch ++ [(p, n)]) true))
              (set_delivered ((x, l, p, n) :: delivered s)
                 (set_pubs (fupd (pubs s) p (PSending n snap rest true)) s))
          else s  (* the bounded queue is full: back-pressure, not loss *)
      | _ => s
      end
  | AEnd p =>
      match pubs s p with
      | PSending n snap [] sent =>
          (* metrics.update(.., sent_at_least_once) *)
          set_m_upd (m_upd s + 1) (set_m_drop (if sent then m_drop s else m_drop s + 1)
            (set_completed ((p, n, snap, sent) :: completed s) (set_pubs (fupd (pubs s) p (PIdle (n + 1))) s)))
      | _ => s
      end
  | ARxDrop x => set_chans (fupd (chans s) x (MkChan [] false)) s
  | APick l =>
      (* the connect() future is polled again: rx.await yields the SubscribeResponse *)
      match links s l with
      | LAnsw x => set_links (fupd (links s) l (LConn x false)) s
      | _ => s
      end
  | AAbandon l =>
      (* the connect() / query() future is dropped *)
      match links s l with
      | LPending =>
          (* before the gate got to the command (if the gate is gone the command is never looked at) *)
          set_rootq (map (kill_sub l) (rootq s)) (set_links (fupd (links s) l LIdle) s)
      | LAnsw x =>
          (* after the gate answered: the SubscribeResponse (slot id; a queue link's receiver) goes
             with the oneshot. PendingSubscription::drop: close(), try_recv() finds the answer,
             Unsubscribe { slot } is sent (try_send: queued at once) *)
          let s1 := set_links (fupd (links s) l LIdle) s in
          let s2 := if cf_guard cf then set_rootq (rootq s ++ [CUnsub x]) s1 else s1 in
          if is_direct l then s2 else set_chans (fupd (chans s) x (MkChan [] false)) s2
      | _ => s
      end
  end.

Definition init : st :=
  MkSt [] [] 0 [] false false 1 (fun _ => MkClone false false false [])
       (fun _ => PIdle 0) (fun _ => LIdle) (fun _ => MkChan [] true) [] [] [] [] 0 0.

Definition run_from (cf : cfg) (s : st) (tr : list action) : st := fold_left (step cf) tr s.
Definition run (cf : cfg) (tr : list action) : st := run_from cf init tr.

(* ---- observations used by the theorems and by the oracle driver *)

(* sequence numbers handed to slot x / to link l by publisher p, newest first *)
Definition seqs_of (x p : N) (d : list (N * N * N * N)) : list N :=
  map (fun e => snd e)
      (filter (fun e => N.eqb (fst (fst (fst e))) x && N.eqb (snd (fst e)) p) d).
Definition lseqs_of (l p : N) (d : list (N * N * N * N)) : list N :=
  map (fun e => snd e)
      (filter (fun e => N.eqb (snd (fst (fst e))) l && N.eqb (snd (fst e)) p) d).

Fixpoint strictly_desc (l : list N) : Prop :=
  match l with
  | [] => True
  | a :: l' => match l' with [] => True | b :: _ => b < a end /\ strictly_desc l'
  end.

(* Link::query() on a drained queue answers Gone when every gate that could
   still send (root and all clones) has been dropped *)
Definition all_gone (s : st) : bool :=
  root_dropped s && forallb (fun c => clone_dead s (N.of_nat c)) (seq 1 (N.to_nat (nclone s))).

(* the link's own view: connected through slot x and not suspended, with no
   suspension request of its own still on its way to the gate *)
Definition susp_pending (x : N) (q : list cmd) : bool :=
  existsb (fun c => match c with CSusp y _ => N.eqb x y | _ => false end) q.
(* the slot a link holds: connect() has returned, or the answer naming it waits in the oneshot *)
Definition holds_slot (ls : lstate) (x : N) : Prop :=
  (exists b, ls = LConn x b) \/ ls = LAnsw x.

Definition link_active (s : st) (l x : N) : Prop :=
  links s l = LConn x false /\ susp_pending x (rootq s) = false.

(* process() of a clone until its queue is empty *)
Fixpoint clone_drain (cf : cfg) (fuel : nat) (s : st) (c : N) : st :=
  match fuel with
  | O => s
  | S f => clone_drain cf f (step cf s (ACloneStep c)) c
  end.

(* ---- Terminate under back-pressure. [term_started]: the root has taken Terminate off its
   queue (it is inside notify_clones(Terminate), possibly waiting for room in a clone's
   queue, or it has returned Err(Terminated)). *)
Definition is_fin (x : nstep) : bool := match x with NFinTerm => true | _ => false end.
Definition term_started (s : st) : bool := root_term s || existsb is_fin (rnote s).

(* the clone the root is waiting for runs its process() for one command *)
Definition unblock (cf : cfg) (s : st) : st :=
  match rnote s with
  | NSend c _ :: _ => step cf s (ACloneStep c)
  | _ => s
  end.
(* ... and the root goes on; n times *)
Fixpoint push_through (cf : cfg) (n : nat) (s : st) : st :=
  match n with
  | O => s
  | S n' => push_through cf n' (step cf (unblock cf s) ARoot)
  end.
(* the root gets through its notify_clones, then clone c drains its queue *)
Definition term_settle (cf : cfg) (s : st) (c : N) : st :=
  let s' := push_through cf (length (rnote s)) s in
  clone_drain cf (S (length (c_q (clones s' c)))) s' c.

(* ---- GateMetrics against the events of the run *)
(* update n of publisher p was handed to somebody *)
Definition taken (d : list (N * N * N * N)) (p n : N) : bool :=
  existsb (fun e => N.eqb (snd (fst e)) p && N.eqb (snd e) n) d.
Definition cp_dropped (d : list (N * N * N * N)) (e : N * N * list entry * bool) : bool :=
  negb (taken d (fst (fst (fst e))) (snd (fst (fst e)))).
(* update_data calls that have returned / those of them that nobody took *)
Definition n_published (s : st) : N := N.of_nat (length (completed s)).
Definition n_dropped (s : st) : N := N.of_nat (length (filter (cp_dropped (delivered s)) (completed s))).
(* the same, read off the schedule: [AEnd p] steps that are enabled *)
Definition ends_now (s : st) (a : action) : bool :=
  match a with
  | AEnd p => match pubs s p with PSending _ _ [] _ => true | _ => false end
  | _ => false
  end.
Fixpoint finished_in (cf : cfg) (s : st) (tr : list action) : nat :=
  match tr with
  | [] => O
  | a :: tr' => ((if ends_now s a then 1 else 0) + finished_in cf (step cf s a) tr')%nat
  end.

(* ---- the ROOT gate's BOUNDED command channel (mpsc::channel(COMMAND_QUEUE_LEN), comms.rs 109 / Gate::new)
   and `impl Drop for Link`.
   Every sender of a gate command uses `send(..).await`: when the 16 places are taken the sender WAITS, and
   tokio hands a place that comes free to the waiting senders first-come first-served. So the commands inside
   the channel followed by the commands of the waiting senders form ONE FIFO - that FIFO is [rootq] of the gate
   model above. The bounded gate adds the marker [b_in]: how many commands at the head of [rootq] are inside the
   channel (<= 16); the others belong to senders that wait for room. The root's recv() only sees the channel.
     [BAct a]         an action of the gate model; if it sends a command, the command enters the channel when no
                      sender waits and a place is free, otherwise its sender waits (Link::connect / disconnect /
                      suspend, GateAgent::terminate, Clone / Drop for Gate all await their send)
     [BLand]          the first waiting sender gets a place that came free
     [BDropLink l]    `impl Drop for Link`: the connected link l is dropped (a queue link's receiver with it; the
                      component KEEPS its direct-update target and may link again at once); the Unsubscribe is
                      sent by a spawned task ("drop-link") that awaits `send` - it waits for room like any sender
     [BDropLinkTry l] the variant that hands the Unsubscribe over with `try_send`: lost when there is no room
   A send that is CANCELLED while it waits for room (the connect() future dropped then) is modelled as the
   command taking its turn with a dead requester ([kill_sub] / [CSubDead]: by C08_dead_subscribe_is_noop it only
   uses up a fresh slot id, which the code draws at random). *)
Record bst := MkB { b_st : st; b_in : nat }.

Inductive baction :=
| BAct (a : action)
| BLand
| BDropLink (l : N)
| BDropLinkTry (l : N).

Definition qcap : nat := N.to_nat cmd_queue_len.

(* no sender waits and the channel has a free place: a send (or try_send) succeeds at once *)
Definition b_room (b : bst) : bool :=
  Nat.eqb (b_in b) (length (rootq (b_st b))) && Nat.ltb (b_in b) qcap.

(* s' = the gate after an action that may have put one more command on the FIFO *)
Definition b_after_send (b : bst) (s' : st) : bst :=
  if Nat.ltb (length (rootq (b_st b))) (length (rootq s')) && b_room b
  then MkB s' (S (b_in b)) else MkB s' (b_in b).

Definition bstep (cf : cfg) (b : bst) (a : baction) : bst :=
  match a with
  | BAct ARoot =>
      let s := b_st b in
      if root_term s || root_dropped s then b else
      match rnote s with
      | _ :: _ => MkB (step cf s ARoot) (b_in b)    (* inside notify_clones: no command is taken *)
      | [] =>
          match b_in b with
          | O => b                                   (* recv() on an empty channel; what waiting senders hold is not in it *)
          | S k => MkB (step cf s ARoot) k
          end
      end
  | BAct a' => b_after_send b (step cf (b_st b) a')
  | BLand =>
      if Nat.ltb (b_in b) (length (rootq (b_st b))) && Nat.ltb (b_in b) qcap
      then MkB (b_st b) (S (b_in b)) else b
  | BDropLink l => b_after_send b (step cf (b_st b) (ASendUnsub l))
  | BDropLinkTry l =>
      let s' := step cf (b_st b) (ASendUnsub l) in
      if b_room b then b_after_send b s'
      else MkB (set_rootq (rootq (b_st b)) s') (b_in b)     (* Err(Full) is ignored: the command is gone *)
  end.

Definition binit : bst := MkB init O.
Definition brun_from (cf : cfg) (b : bst) (tr : list baction) : bst := fold_left (bstep cf) tr b.
Definition brun (cf : cfg) (tr : list baction) : bst := brun_from cf binit tr.

Definition is_try (a : baction) : bool := match a with BDropLinkTry _ => true | _ => false end.
(* a schedule of the code as it is: every Unsubscribe of a dropped link waits *)
Definition waits_only (tr : list baction) : bool := forallb (fun a => negb (is_try a)) tr.

(* the action of the unbounded gate a bounded action stands for *)
Definition b_abs (a : baction) : list action :=
  match a with
  | BAct a' => [a']
  | BLand => []
  | BDropLink l => [ASendUnsub l]
  | BDropLinkTry l => [ASendUnsub l]
  end.

(* commands of senders that still wait for room *)
Definition b_waiting (b : bst) : list cmd := skipn (b_in b) (rootq (b_st b)).
Definition b_channel (b : bst) : list cmd := firstn (b_in b) (rootq (b_st b)).

(* the root works off everything: (a waiting sender lands, the root handles one command) n times *)
Fixpoint b_drain (cf : cfg) (n : nat) (b : bst) : bst :=
  match n with
  | O => b
  | S n' => b_drain cf n' (bstep cf (bstep cf b BLand) (BAct ARoot))
  end.

(* the witness schedules: direct link 1 connects and gets update 0; while the unit is busy elsewhere 16 other
   requesters ask for a connection and give up (16 commands in the channel); link 1 is dropped, its component
   links again with the same target; the unit gets back to its gate; update 1 *)
Definition b_fill : list baction :=
  concat (repeat [BAct (ASendSub 3); BAct (AAbandon 3)] 16).
Definition b_relink_schedule (drop : baction) : list baction :=
  [BAct (ASendSub 1); BAct ARoot; BAct (APick 1); BAct (ABegin 0); BAct (ADeliver 0); BAct (AEnd 0)]
  ++ b_fill ++ [drop; BAct (ASendSub 1)]
  ++ concat (repeat [BLand; BAct ARoot] 20)
  ++ [BAct (APick 1); BAct (ABegin 0); BAct (ADeliver 0); BAct (ADeliver 0); BAct (AEnd 0)].
