(* Model of src/comms.rs: Gate (root + clones), GateAgent, Link, DirectLink.
   Definitions only; proofs are in GateProofs.v.

   An interleaving small-step semantics. [step] is total: an action that is
   not enabled leaves the state unchanged, so EVERY list of actions is a
   schedule and "for all schedules" is "for all action lists".

   What is one atomic step (and why):
   * every FrimMap operation (insert / remove / guard()) is one atomic step of
     the copy-on-write map (property C18);
   * Gate::process() handles ONE command per [ARoot] / [ACloneStep];
     handling a command never awaits anything but clone command queues
     (assumed not full) so it is one step;
   * Gate::update_data() is [ABegin] (self.updates.guard(): the snapshot),
     one [ADeliver] per slot of the snapshot (sender.send(..).await /
     direct_update(..).await; a full bounded queue BLOCKS: the step is not
     enabled) and [AEnd] (metrics.update);
   * the link side: connect() = [ASendSub] (+ the answer inside [ARoot]),
     disconnect() = [ASendUnsub] (the receiver is dropped at once),
     suspend()/resume = [ASendSusp], query() = [ARecv].

   comms.rs anchors: update_data 661-759, suspension 771-779, subscribe
   785-829, unsubscribe 831-836, process 377-553, notify_clones 555-597,
   Clone for Gate 847-920, Link 1298-1522. *)
From Coq Require Import List NArith Bool.
Import ListNotations.
Local Open Scope N_scope.

(* an entry of the `updates` / `suspended` maps: slot -> UpdateSender; the
   sender is identified by the link whose queue / direct target it feeds *)
Definition entry := (N * N)%type.

(* commands on the root gate's queue / on a clone's queue *)
Inductive cmd :=
| CSub (l : N) | CUnsub (s : N) | CSusp (s : N) (b : bool)
| CAttach (c : N) | CDetach (c : N) | CTerm.
Inductive ccmd := FSub (e : entry) | FUnsub (s : N) | FTerm.

(* a publisher (0 = the root gate, c >= 1 = clone c): idle with its next
   sequence number, or inside update_data holding the snapshot it took *)
Inductive pstate :=
| PIdle (next : N)
| PSending (seq : N) (snap rest : list entry) (sent : bool).

Inductive lstate := LIdle | LPending | LConn (s : N) (susp : bool).

Record clone := MkClone { c_alive : bool; c_att : bool; c_term : bool; c_q : list ccmd }.
Record chan := MkChan { ch_q : list (N * N); ch_rx : bool }.

(* cf_cap: Gate::new(queue_size). cf_follow = true is the code as it was at the
   pinned commit: a clone handling FollowSubscribe / FollowUnsubscribe mutates
   `updates`, which it SHARES (Arc) with the root; false = after the repair. *)
Record cfg := MkCfg { cf_cap : N; cf_follow : bool }.

Record st := MkSt {
  upd : list entry;            (* Gate.updates, in FrimMap (vector) order *)
  sus : list entry;            (* Gate.suspended *)
  nslot : N;                   (* slots are fresh (Uuid::new_v4) *)
  rootq : list cmd;            (* root command channel, FIFO *)
  root_term : bool;            (* root's process() returned Err(Terminated) *)
  root_dropped : bool;
  nclone : N;
  clones : N -> clone;
  pubs : N -> pstate;
  links : N -> lstate;
  chans : N -> chan;           (* per slot: the bounded mpsc of a queue link *)
  delivered : list (N * N * N * N);   (* (slot, link, publisher, seq) handed over, newest first *)
  received : list (N * N * N);        (* (link, publisher, seq) seen by the component, newest first *)
  completed : list (N * N * list entry * bool)  (* finished updates: publisher, seq, snapshot, sent_at_least_once *)
}.

Definition set_upd (v : list entry) (s : st) : st :=
  MkSt v (sus s) (nslot s) (rootq s) (root_term s) (root_dropped s) (nclone s) (clones s) (pubs s) (links s) (chans s) (delivered s) (received s) (completed s).
Definition set_sus (v : list entry) (s : st) : st :=
  MkSt (upd s) v (nslot s) (rootq s) (root_term s) (root_dropped s) (nclone s) (clones s) (pubs s) (links s) (chans s) (delivered s) (received s) (completed s).
Definition set_nslot (v : N) (s : st) : st :=
  MkSt (upd s) (sus s) v (rootq s) (root_term s) (root_dropped s) (nclone s) (clones s) (pubs s) (links s) (chans s) (delivered s) (received s) (completed s).
Definition set_rootq (v : list cmd) (s : st) : st :=
  MkSt (upd s) (sus s) (nslot s) v (root_term s) (root_dropped s) (nclone s) (clones s) (pubs s) (links s) (chans s) (delivered s) (received s) (completed s).
Definition set_root_term (v : bool) (s : st) : st :=
  MkSt (upd s) (sus s) (nslot s) (rootq s) v (root_dropped s) (nclone s) (clones s) (pubs s) (links s) (chans s) (delivered s) (received s) (completed s).
Definition set_root_dropped (v : bool) (s : st) : st :=
  MkSt (upd s) (sus s) (nslot s) (rootq s) (root_term s) v (nclone s) (clones s) (pubs s) (links s) (chans s) (delivered s) (received s) (completed s).
Definition set_nclone (v : N) (s : st) : st :=
  MkSt (upd s) (sus s) (nslot s) (rootq s) (root_term s) (root_dropped s) v (clones s) (pubs s) (links s) (chans s) (delivered s) (received s) (completed s).
Definition set_clones (v : N -> clone) (s : st) : st :=
  MkSt (upd s) (sus s) (nslot s) (rootq s) (root_term s) (root_dropped s) (nclone s) v (pubs s) (links s) (chans s) (delivered s) (received s) (completed s).
Definition set_pubs (v : N -> pstate) (s : st) : st :=
  MkSt (upd s) (sus s) (nslot s) (rootq s) (root_term s) (root_dropped s) (nclone s) (clones s) v (links s) (chans s) (delivered s) (received s) (completed s).
Definition set_links (v : N -> lstate) (s : st) : st :=
  MkSt (upd s) (sus s) (nslot s) (rootq s) (root_term s) (root_dropped s) (nclone s) (clones s) (pubs s) v (chans s) (delivered s) (received s) (completed s).
Definition set_chans (v : N -> chan) (s : st) : st :=
  MkSt (upd s) (sus s) (nslot s) (rootq s) (root_term s) (root_dropped s) (nclone s) (clones s) (pubs s) (links s) v (delivered s) (received s) (completed s).
Definition set_delivered (v : list (N * N * N * N)) (s : st) : st :=
  MkSt (upd s) (sus s) (nslot s) (rootq s) (root_term s) (root_dropped s) (nclone s) (clones s) (pubs s) (links s) (chans s) v (received s) (completed s).
Definition set_received (v : list (N * N * N)) (s : st) : st :=
  MkSt (upd s) (sus s) (nslot s) (rootq s) (root_term s) (root_dropped s) (nclone s) (clones s) (pubs s) (links s) (chans s) (delivered s) v (completed s).
Definition set_completed (v : list (N * N * list entry * bool)) (s : st) : st :=
  MkSt (upd s) (sus s) (nslot s) (rootq s) (root_term s) (root_dropped s) (nclone s) (clones s) (pubs s) (links s) (chans s) (delivered s) (received s) v.

Definition fupd {A} (f : N -> A) (k : N) (v : A) : N -> A :=
  fun x => if N.eqb x k then v else f x.

Definition is_direct (l : N) : bool := N.odd l.

(* FrimMap::remove / insert (insert replaces an existing key and appends) *)
Definition key_neq (s : N) (e : entry) : bool := negb (N.eqb (fst e) s).
Definition m_del (s : N) (m : list entry) : list entry := filter (key_neq s) m.
Definition m_ins (e : entry) (m : list entry) : list entry := m_del (fst e) m ++ [e].
Definition m_find (s : N) (m : list entry) : option entry := find (fun e => N.eqb (fst e) s) m.

(* notify_clones: every attached clone whose receiver still exists *)
Definition notify (x : ccmd) (cl : N -> clone) : N -> clone :=
  fun c => let k := cl c in
           if c_alive k && c_att k then MkClone (c_alive k) (c_att k) (c_term k) (c_q k ++ [x]) else k.

Definition set_att (b : bool) (k : clone) : clone := MkClone (c_alive k) b (c_term k) (c_q k).
Definition set_cterm (k : clone) : clone := MkClone (c_alive k) (c_att k) true (c_q k).
Definition set_cq (q : list ccmd) (k : clone) : clone := MkClone (c_alive k) (c_att k) (c_term k) q.

Definition pub_alive (s : st) (p : N) : bool :=
  if N.eqb p 0 then negb (root_dropped s) else c_alive (clones s p).

Definition pub_idle (s : st) (p : N) : bool :=
  match pubs s p with PIdle _ => true | _ => false end.

(* get_gate_status: Dormant iff suspended.len() == updates.len() *)
Definition gate_dormant (s : st) : bool := Nat.eqb (length (sus s)) (length (upd s)).

(* every sender of every update channel is gone: root and all clones dropped *)
Definition clone_dead (s : st) (c : N) : bool := negb (c_alive (clones s c)).

Inductive action :=
| ASendSub (l : N) | ASendUnsub (l : N) | ASendSusp (l : N) (b : bool) | ARecv (l : N)
| ASendTerm | ARoot | ARootDrop
| AClone | ACloneStep (c : N) | ACloneDrop (c : N)
| ABegin (p : N) | ADeliver (p : N) | AEnd (p : N).

Definition root_handle (s : st) (c : cmd) : st :=
  match c with
  | CSub l =>
      (* subscribe(): insert the slot, THEN answer, then FollowSubscribe to the clones *)
      let e := (nslot s, l) in
      set_clones (notify (FSub e) (clones s))
        (set_links (fupd (links s) l (LConn (nslot s) false))
           (set_nslot (nslot s + 1) (set_upd (m_ins e (upd s)) s)))
  | CUnsub x =>
      set_clones (notify (FUnsub x) (clones s))
        (set_upd (m_del x (upd s)) (set_sus (m_del x (sus s)) s))
  | CSusp x true =>
      match m_find x (upd s) with
      | Some e => set_sus (m_ins e (sus s)) (set_upd (m_del x (upd s)) s)
      | None => s
      end
  | CSusp x false =>
      match m_find x (sus s) with
      | Some e => set_upd (m_ins e (upd s)) (set_sus (m_del x (sus s)) s)
      | None => s
      end
  | CAttach c => set_clones (fupd (clones s) c (set_att true (clones s c))) s
  | CDetach c => set_clones (fupd (clones s) c (set_att false (clones s c))) s
  | CTerm => set_root_term true (set_clones (notify FTerm (clones s)) s)
  end.

Definition clone_handle (cf : cfg) (s : st) (c : N) (x : ccmd) : st :=
  match x with
  | FSub e => if cf_follow cf then set_upd (m_ins e (upd s)) s else s
  | FUnsub x => if cf_follow cf then set_upd (m_del x (upd s)) s else s
  | FTerm => set_clones (fupd (clones s) c (set_cterm (clones s c))) s
  end.

Definition step (cf : cfg) (s : st) (a : action) : st :=
  match a with
  | ASendSub l =>
      match links s l with
      | LIdle => if root_dropped s then s
                 else set_rootq (rootq s ++ [CSub l]) (set_links (fupd (links s) l LPending) s)
      | _ => s
      end
  | ASendUnsub l =>
      match links s l with
      | LConn x _ =>
          let s1 := set_rootq (rootq s ++ [CUnsub x]) (set_links (fupd (links s) l LIdle) s) in
          (* a queue link drops its receiver (and whatever is still queued) *)
          if is_direct l then s1 else set_chans (fupd (chans s) x (MkChan [] false)) s1
      | _ => s
      end
  | ASendSusp l b =>
      match links s l with
      | LConn x b0 =>
          if Bool.eqb b b0 then s
          else set_rootq (rootq s ++ [CSusp x b]) (set_links (fupd (links s) l (LConn x b)) s)
      | _ => s
      end
  | ARecv l =>
      match links s l with
      | LConn x _ =>
          if is_direct l then s else
          match ch_q (chans s x) with
          | (p, n) :: q => set_received ((l, p, n) :: received s)
                             (set_chans (fupd (chans s) x (MkChan q (ch_rx (chans s x)))) s)
          | [] => s
          end
      | _ => s
      end
  | ASendTerm => set_rootq (rootq s ++ [CTerm]) s
  | ARoot =>
      if root_term s || root_dropped s then s else
      match rootq s with
      | [] => s
      | c :: q => root_handle (set_rootq q s) c
      end
  | ARootDrop => if pub_idle s 0 then set_root_dropped true s else s
  | AClone =>
      let c := nclone s in
      set_rootq (rootq s ++ [CAttach c])
        (set_nclone (c + 1) (set_clones (fupd (clones s) c (MkClone true false false [])) s))
  | ACloneStep c =>
      let k := clones s c in
      if c_alive k && negb (c_term k) then
        match c_q k with
        | [] => (* recv() on an empty queue: None once every sender is gone *)
            if root_dropped s then set_clones (fupd (clones s) c (set_cterm k)) s else s
        | x :: q => clone_handle cf (set_clones (fupd (clones s) c (set_cq q k)) s) c x
        end
      else s
  | ACloneDrop c =>
      let k := clones s c in
      if c_alive k && pub_idle s c && negb (N.eqb c 0) then
        set_rootq (rootq s ++ [CDetach c])
          (set_clones (fupd (clones s) c (MkClone false (c_att k) (c_term k) [])) s)
      else s
  | ABegin p =>
      match pubs s p with
      | PIdle n => if pub_alive s p then set_pubs (fupd (pubs s) p (PSending n (upd s) (upd s) false)) s else s
      | _ => s
      end
  | ADeliver p =>
      match pubs s p with
      | PSending n snap ((x, l) :: rest) sent =>
          if is_direct l then
            (* direct.upgrade() succeeds while the component lives: direct_update is called *)
            set_received ((l, p, n) :: received s)
              (set_delivered ((x, l, p, n) :: delivered s)
                 (set_pubs (fupd (pubs s) p (PSending n snap rest true)) s))
          else
            let ch := chans s x in
            if negb (ch_rx ch) then
              (* send() fails: receiver dropped *)
              set_pubs (fupd (pubs s) p (PSending n snap rest sent)) s
            else if N.ltb (N.of_nat (length (ch_q ch))) (cf_cap cf) then
              set_chans (fupd (chans s) x (MkChan (ch_q ch ++ [(p, n)]) true))
                (set_delivered ((x, l, p, n) :: delivered s)
                   (set_pubs (fupd (pubs s) p (PSending n snap rest true)) s))
            else s  (* the bounded queue is full: back-pressure, not loss *)
      | _ => s
      end
  | AEnd p =>
      match pubs s p with
      | PSending n snap [] sent =>
          set_completed ((p, n, snap, sent) :: completed s) (set_pubs (fupd (pubs s) p (PIdle (n + 1))) s)
      | _ => s
      end
  end.

Definition init : st :=
  MkSt [] [] 0 [] false false 1 (fun _ => MkClone false false false [])
       (fun _ => PIdle 0) (fun _ => LIdle) (fun _ => MkChan [] true) [] [] [].

Definition run_from (cf : cfg) (s : st) (tr : list action) : st := fold_left (step cf) tr s.
Definition run (cf : cfg) (tr : list action) : st := run_from cf init tr.

(* ---- observations used by the theorems and by the oracle driver *)

(* sequence numbers handed to slot x / to link l by publisher p, newest first *)
Definition seqs_of (x p : N) (d : list (N * N * N * N)) : list N :=
  map (fun e => snd e)
      (filter (fun e => N.eqb (fst (fst (fst e))) x && N.eqb (snd (fst e)) p) d).
Definition lseqs_of (l p : N) (d : list (N * N * N * N)) : list N :=
  map (fun e => snd e)
      (filter (fun e => N.eqb (snd (fst (fst e))) l && N.eqb (snd (fst e)) p) d).

Fixpoint strictly_desc (l : list N) : Prop :=
  match l with
  | [] => True
  | a :: l' => match l' with [] => True | b :: _ => b < a end /\ strictly_desc l'
  end.

(* Link::query() on a drained queue answers Gone when every gate that could
   still send (root and all clones) has been dropped *)
Definition all_gone (s : st) : bool :=
  root_dropped s && forallb (fun c => clone_dead s (N.of_nat c)) (seq 1 (N.to_nat (nclone s))).

(* the link's own view: connected through slot x and not suspended, with no
   suspension request of its own still on its way to the gate *)
Definition susp_pending (x : N) (q : list cmd) : bool :=
  existsb (fun c => match c with CSusp y _ => N.eqb x y | _ => false end) q.
Definition link_active (s : st) (l x : N) : Prop :=
  links s l = LConn x false /\ susp_pending x (rootq s) = false.

(* process() of a clone until its queue is empty *)
Fixpoint clone_drain (cf : cfg) (fuel : nat) (s : st) (c : N) : st :=
  match fuel with
  | O => s
  | S f => clone_drain cf f (step cf s (ACloneStep c)) c
  end.
