(* Proofs about GateModel: invariants over ALL schedules (action lists). *)
From Coq Require Import List NArith Bool Lia FinFun.
From RV Require Import Gate.GateModel.
Import ListNotations.
Local Open Scope N_scope.

Arguments m_find : simpl never.
Arguments m_ins : simpl never.
Arguments m_del : simpl never.
Arguments note_list : simpl never.
Arguments note_step : simpl never.
Arguments fupd : simpl never.

Ltac des_st s := destruct s as [u su ns rq rt rd nc cl pb lk chn dl rc cp rn mu md].

(* ------------------------------------------------------------------ basics *)

Lemma fupd_eq {A} (f : N -> A) k v : fupd f k v k = v.
Proof. unfold fupd. rewrite N.eqb_refl. reflexivity. Qed.

Lemma fupd_neq {A} (f : N -> A) k v x : x <> k -> fupd f k v x = f x.
Proof. intros H. unfold fupd. destruct (N.eqb_spec x k); [contradiction|reflexivity]. Qed.

Lemma In_m_del e x m : In e (m_del x m) <-> In e m /\ fst e <> x.
Proof.
  unfold m_del. rewrite filter_In. unfold key_neq.
  destruct (N.eqb_spec (fst e) x); cbn; intuition congruence.
Qed.

Lemma In_m_ins e0 e m : In e0 (m_ins e m) <-> (In e0 m /\ fst e0 <> fst e) \/ e0 = e.
Proof.
  unfold m_ins. rewrite in_app_iff, In_m_del. cbn. intuition.
Qed.

Lemma map_filter_NoDup {A B} (f : A -> B) (g : A -> bool) l :
  NoDup (map f l) -> NoDup (map f (filter g l)).
Proof.
  induction l as [|a l IH]; cbn; intros H; [constructor|].
  inversion H as [|? ? Hn Hd]; subst.
  destruct (g a); cbn; [constructor|]; auto.
  intros Hin. apply Hn. rewrite in_map_iff in *. destruct Hin as (y & E & Hy).
  exists y. split; [exact E|]. apply filter_In in Hy. tauto.
Qed.

Lemma NoDup_keys_del x m : NoDup (map fst m) -> NoDup (map fst (m_del x m)).
Proof. apply map_filter_NoDup. Qed.

Lemma NoDup_app_single {A} (l : list A) x : NoDup l -> ~ In x l -> NoDup (l ++ [x]).
Proof.
  induction 1 as [|a l Hn Hd IH]; intros Hx; cbn.
  - constructor; [intros []|constructor].
  - constructor.
    + rewrite in_app_iff. intros [H|[H|[]]]; [exact (Hn H)|subst; apply Hx; left; reflexivity].
    + apply IH. intros H. apply Hx. right. exact H.
Qed.

Lemma NoDup_keys_ins e m : NoDup (map fst m) -> NoDup (map fst (m_ins e m)).
Proof.
  intros H. unfold m_ins. rewrite map_app. cbn.
  apply NoDup_app_single; [apply NoDup_keys_del, H|].
  rewrite in_map_iff. intros (y & E & Hy). apply In_m_del in Hy. tauto.
Qed.

Lemma m_find_some x m e : m_find x m = Some e -> In e m /\ fst e = x.
Proof.
  unfold m_find. intros H. apply find_some in H. destruct H as [H1 H2].
  apply N.eqb_eq in H2. tauto.
Qed.

Lemma m_find_none x m : m_find x m = None -> forall e, In e m -> fst e <> x.
Proof.
  unfold m_find. intros H e He E. pose proof (find_none _ _ H e He) as H1. cbn in H1.
  apply N.eqb_neq in H1. contradiction.
Qed.

Lemma filter_id {A} (f : A -> bool) l : (forall a, In a l -> f a = true) -> filter f l = l.
Proof.
  induction l as [|a l IH]; cbn; intros H; [reflexivity|].
  rewrite (H a (or_introl eq_refl)). f_equal. apply IH. intros b Hb. apply H. right. exact Hb.
Qed.

(* Gate::subscribe for a requester that is gone: insert, then remove - the map is as before *)
Lemma m_del_ins_fresh x l m : (forall e, In e m -> fst e <> x) -> m_del x (m_ins (x, l) m) = m.
Proof.
  intros H. unfold m_ins, m_del. cbn [fst]. rewrite filter_app. cbn [filter].
  replace (key_neq x (x, l)) with false by (unfold key_neq; cbn; rewrite N.eqb_refl; reflexivity).
  rewrite app_nil_r.
  assert (E : filter (key_neq x) m = m).
  { apply filter_id. intros e He. unfold key_neq. apply negb_true_iff, N.eqb_neq, H, He. }
  rewrite E. exact E.
Qed.

Lemma In_m_del_ins e x l m : In e (m_del x (m_ins (x, l) m)) -> In e m.
Proof.
  intros H. apply In_m_del in H. destruct H as [H Hn]. apply In_m_ins in H.
  destruct H as [[H _]|E]; [exact H|]. subst e. cbn in Hn. contradiction.
Qed.

(* an abandoned Subscribe: only the Subscribe of that link changes in the queue *)
Lemma kill_sub_eq l c : kill_sub l c = c \/ (c = CSub l /\ kill_sub l c = CSubDead l).
Proof.
  destruct c; cbn; auto. destruct (N.eqb_spec l0 l) as [->|Hn]; auto.
Qed.

Lemma in_map_kill l c rq : In c (map (kill_sub l) rq) -> c = CSubDead l \/ (In c rq /\ c <> CSub l).
Proof.
  rewrite in_map_iff. intros (c0 & E & Hin). destruct (kill_sub_eq l c0) as [E1|[E1 E2]].
  - right. rewrite E1 in E. subst c0. split; [exact Hin|]. intros ->. cbn in E1. rewrite N.eqb_refl in E1. discriminate E1.
  - left. congruence.
Qed.

Lemma in_map_kill_keep l c rq : In c rq -> (forall l', c <> CSub l') -> In c (map (kill_sub l) rq).
Proof.
  intros Hin Hc. apply in_map_iff. exists c. split; [|exact Hin].
  destruct (kill_sub_eq l c) as [E|[E _]]; [exact E|destruct (Hc _ E)].
Qed.

Lemma in_map_kill_sub l l' rq : l' <> l -> In (CSub l') rq -> In (CSub l') (map (kill_sub l) rq).
Proof.
  intros Hn Hin. apply in_map_iff. exists (CSub l'). split; [|exact Hin].
  cbn. destruct (N.eqb_spec l' l); [contradiction|reflexivity].
Qed.

(* ------------------------------------------------- what each action touches *)

Definition pub_action (a : action) : bool :=
  match a with ABegin _ | ADeliver _ | AEnd _ => true | _ => false end.

Lemma root_handle_frame s c :
  pubs (root_handle s c) = pubs s /\ delivered (root_handle s c) = delivered s /\
  completed (root_handle s c) = completed s /\ chans (root_handle s c) = chans s /\
  received (root_handle s c) = received s.
Proof.
  des_st s. destruct c as [l|x|x [|]|c|c| |ld]; cbn; try (repeat split; reflexivity).
  - destruct (m_find x u); cbn; repeat split; reflexivity.
  - destruct (m_find x su); cbn; repeat split; reflexivity.
Qed.

(* one send of notify_clones touches the queue of one clone, the list of sends still to do
   and (at the end of notify_clones(Terminate)) the root's Terminated flag; nothing else *)
Lemma note_step_shape s : exists cl rt rn,
  note_step s = MkSt (upd s) (sus s) (nslot s) (rootq s) rt (root_dropped s) (nclone s) cl (pubs s) (links s)
                     (chans s) (delivered s) (received s) (completed s) rn (m_upd s) (m_drop s).
Proof.
  unfold note_step. des_st s. cbn [rnote clones upd sus nslot rootq root_term root_dropped nclone pubs links chans delivered received completed m_upd m_drop].
  destruct rn as [|[c x|] rest].
  - exists cl, rt, []. reflexivity.
  - destruct (negb (c_alive (cl c))).
    + exists cl, rt, rest. reflexivity.
    + destruct (N.of_nat (length (c_q (cl c))) <? cmd_queue_len).
      * eexists _, rt, rest. reflexivity.
      * exists cl, rt, (NSend c x :: rest). reflexivity.
  - exists cl, true, rest. reflexivity.
Qed.

Ltac note_shape s := let cl := fresh "cl'" in let rt := fresh "rt'" in let rn := fresh "rn'" in
  destruct (note_step_shape s) as (cl & rt & rn & ->).

Lemma step_frame cf s a : pub_action a = false ->
  pubs (step cf s a) = pubs s /\ delivered (step cf s a) = delivered s /\
  completed (step cf s a) = completed s.
Proof.
  intros Ha. destruct a; try discriminate Ha; cbn [step].
  - destruct (links s l); [destruct (root_dropped s)|..]; des_st s; cbn; repeat split; reflexivity.
  - destruct (links s l); [| |destruct (is_direct l)|]; des_st s; cbn; repeat split; reflexivity.
  - destruct (links s l) as [| |x b0|xa]; [| |destruct (Bool.eqb b b0)|]; des_st s; cbn; repeat split; reflexivity.
  - destruct (links s l) as [| |x b0|xa]; [| |destruct (is_direct l); [|destruct (ch_q (chans s x)) as [|[p n] q]]|];
      des_st s; cbn; repeat split; reflexivity.
  - des_st s; cbn; repeat split; reflexivity.
  - destruct (root_term s || root_dropped s); [repeat split; reflexivity|].
    destruct (rnote s) as [|nh nt] eqn:En; [|note_shape s; repeat split; reflexivity].
    destruct (rootq s) as [|c q] eqn:E; [repeat split; reflexivity|].
    destruct (root_handle_frame (set_rootq q s) c) as (H1 & H2 & H3 & _).
    rewrite H1, H2, H3. des_st s; cbn; repeat split; reflexivity.
  - destruct (pub_idle s 0); des_st s; cbn; repeat split; reflexivity.
  - des_st s; cbn; repeat split; reflexivity.
  - destruct (c_alive (clones s c) && negb (c_term (clones s c))); [|repeat split; reflexivity].
    destruct (c_q (clones s c)) as [|x q].
    + destruct (root_dropped s); des_st s; cbn; repeat split; reflexivity.
    + destruct x as [e|y|]; cbn [clone_handle]; [destruct (cf_follow cf)|destruct (cf_follow cf)|];
        des_st s; cbn; repeat split; reflexivity.
  - destruct (c_alive (clones s c) && pub_idle s c && negb (c =? 0)); des_st s; cbn; repeat split; reflexivity.
  - des_st s; cbn; repeat split; reflexivity.
  - destruct (links s l) as [| |x b0|xa]; des_st s; cbn; repeat split; reflexivity.
  - destruct (links s l) as [| |x b0|xa]; [| | |destruct (cf_guard cf); destruct (is_direct l)]; des_st s; cbn; repeat split; reflexivity.
Qed.

(* the receiver of a slot's channel, once dropped, stays dropped *)
Lemma rx_mono cf s a x : ch_rx (chans s x) = false -> ch_rx (chans (step cf s a) x) = false.
Proof.
  intros H. destruct a; cbn [step].
  - destruct (links s l); [destruct (root_dropped s)|..]; des_st s; cbn in *; exact H.
  - destruct (links s l) as [| |y b0|ya]; [| |destruct (is_direct l)|]; des_st s; cbn in *; try exact H.
    unfold fupd. destruct (x =? y); [reflexivity|exact H].
  - destruct (links s l) as [| |y b0|ya]; [| |destruct (Bool.eqb b b0)|]; des_st s; cbn in *; exact H.
  - destruct (links s l) as [| |y b0|ya]; [| |destruct (is_direct l); [|destruct (ch_q (chans s y)) as [|[p n] q] eqn:E]|];
      des_st s; cbn in *; try exact H.
    unfold fupd. destruct (N.eqb_spec x y); [subst; cbn; exact H|exact H].
  - des_st s; cbn in *; exact H.
  - destruct (root_term s || root_dropped s); [exact H|].
    destruct (rnote s) as [|nh nt] eqn:En; [|note_shape s; exact H].
    destruct (rootq s) as [|c q] eqn:E; [exact H|].
    destruct (root_handle_frame (set_rootq q s) c) as (_ & _ & _ & H4 & _).
    rewrite H4. des_st s; cbn in *; exact H.
  - destruct (pub_idle s 0); des_st s; cbn in *; exact H.
  - des_st s; cbn in *; exact H.
  - destruct (c_alive (clones s c) && negb (c_term (clones s c))); [|exact H].
    destruct (c_q (clones s c)) as [|y q].
    + destruct (root_dropped s); des_st s; cbn in *; exact H.
    + destruct y as [e|y|]; cbn [clone_handle]; [destruct (cf_follow cf)|destruct (cf_follow cf)|];
        des_st s; cbn in *; exact H.
  - destruct (c_alive (clones s c) && pub_idle s c && negb (c =? 0)); des_st s; cbn in *; exact H.
  - destruct (pubs s p) as [n|n snap rest sent]; [destruct (pub_alive s p)|]; des_st s; cbn in *; exact H.
  - destruct (pubs s p) as [n|n snap [|[y l] rest] sent]; try exact H.
    destruct (negb (ch_rx (chans s y))) eqn:E1; [des_st s; cbn in *; exact H|].
    destruct (is_direct l); [des_st s; cbn in *; exact H|].
    destruct (N.of_nat (length (ch_q (chans s y))) <? cf_cap cf); [|exact H].
    des_st s; cbn in *. unfold fupd. destruct (N.eqb_spec x y); [|exact H].
    subst. rewrite H in E1. discriminate.
  - destruct (pubs s p) as [n|n snap [|e rest] sent]; des_st s; cbn in *; exact H.
  - des_st s; cbn in *. unfold fupd. destruct (x =? x0); [reflexivity|exact H].
  - destruct (links s l) as [| |y b0|ya]; des_st s; cbn in *; exact H.
  - destruct (links s l) as [| |y b0|ya]; [| | |destruct (cf_guard cf); destruct (is_direct l)]; des_st s; cbn in *; try exact H;
      unfold fupd; (destruct (x =? ya); [reflexivity|exact H]).
Qed.

(* ------------------------------------------------- sequences of deliveries *)

Definition dentry := (N * N * N * N)%type.
Definition d_slot (e : dentry) : N := fst (fst (fst e)).
Definition d_link (e : dentry) : N := snd (fst (fst e)).
Definition d_pub (e : dentry) : N := snd (fst e).
Definition d_seq (e : dentry) : N := snd e.

Definition gseqs (key : dentry -> N) (x p : N) (d : list dentry) : list N :=
  map (fun e => snd e) (filter (fun e => N.eqb (key e) x && N.eqb (snd (fst e)) p) d).

Lemma seqs_of_g x p d : seqs_of x p d = gseqs d_slot x p d.
Proof. reflexivity. Qed.
Lemma lseqs_of_g l p d : lseqs_of l p d = gseqs d_link l p d.
Proof. reflexivity. Qed.

Lemma gseqs_cons_same key x p e d : key e = x -> d_pub e = p ->
  gseqs key x p (e :: d) = d_seq e :: gseqs key x p d.
Proof.
  intros H1 H2. unfold gseqs, d_pub in *. cbn. rewrite H1, H2, !N.eqb_refl. reflexivity.
Qed.

Lemma gseqs_cons_other key x p e d : ~ (key e = x /\ d_pub e = p) ->
  gseqs key x p (e :: d) = gseqs key x p d.
Proof.
  intros H. unfold gseqs, d_pub in *. cbn.
  destruct (N.eqb_spec (key e) x); destruct (N.eqb_spec (snd (fst e)) p); cbn; try reflexivity.
  exfalso. apply H. split; assumption.
Qed.

Lemma gseqs_head key x p d n :
  (forall e, In e d -> key e = x -> d_pub e = p -> d_seq e < n) ->
  match gseqs key x p d with [] => True | b :: _ => b < n end.
Proof.
  intros H. induction d as [|e d IH]; [exact I|].
  destruct (N.eq_dec (key e) x) as [E1|E1]; [destruct (N.eq_dec (d_pub e) p) as [E2|E2]|].
  - rewrite gseqs_cons_same by assumption. apply H; [left; reflexivity|assumption..].
  - rewrite gseqs_cons_other by tauto. apply IH. intros e' He'. apply H. right. exact He'.
  - rewrite gseqs_cons_other by tauto. apply IH. intros e' He'. apply H. right. exact He'.
Qed.

Lemma strictly_desc_cons n l :
  match l with [] => True | b :: _ => b < n end -> strictly_desc l -> strictly_desc (n :: l).
Proof. intros H1 H2. cbn. split; assumption. Qed.

(* ----------------------------------- invariant D: per slot, and completion *)

Definition boundP (ps : pstate) (p : N) (d : list dentry)
           (cp : list (N * N * list entry * bool)) (rx : N -> bool) : Prop :=
  match ps with
  | PIdle n =>
      (forall x l m, In (x, l, p, m) d -> m < n) /\
      (forall m sn b, In (p, m, sn, b) cp -> m < n)
  | PSending n snap rest _ =>
      NoDup (map fst rest) /\
      (forall x l m, In (x, l, p, m) d -> m <= n) /\
      (forall e, In e rest -> forall l, ~ In (fst e, l, p, n) d) /\
      (forall e, In e snap -> In e rest \/ In (fst e, snd e, p, n) d \/ rx (fst e) = false) /\
      (forall m sn b, In (p, m, sn, b) cp -> m < n)
  end.

Definition rx_of (s : st) : N -> bool := fun x => ch_rx (chans s x).

Definition InvD (s : st) : Prop :=
  NoDup (map fst (upd s)) /\
  (forall p, boundP (pubs s p) p (delivered s) (completed s) (rx_of s)) /\
  (forall x p, strictly_desc (seqs_of x p (delivered s))) /\
  (forall p n sn b, In (p, n, sn, b) (completed s) ->
     forall e, In e sn -> In (fst e, snd e, p, n) (delivered s) \/ rx_of s (fst e) = false).

Lemma boundP_rx_mono ps p d cp (rx rx' : N -> bool) :
  (forall x, rx x = false -> rx' x = false) -> boundP ps p d cp rx -> boundP ps p d cp rx'.
Proof.
  intros Hm. destruct ps as [n|n snap rest sent]; cbn; [tauto|].
  intros (H1 & H2 & H3 & H4 & H5). repeat split; try assumption.
  intros e He. destruct (H4 e He) as [?|[?|?]]; auto.
Qed.

Lemma boundP_other ps p q x l n d cp rx : p <> q ->
  boundP ps q d cp rx -> boundP ps q ((x, l, p, n) :: d) cp rx.
Proof.
  intros Hpq. destruct ps as [m|m snap rest sent]; cbn [boundP].
  - intros [H1 H2]. split; [|exact H2].
    intros y l' k [E|Hin]; [inversion E; subst; contradiction|exact (H1 y l' k Hin)].
  - intros (H1 & H2 & H3 & H4 & H5). repeat split; try assumption.
    + intros y l' k [E|Hin]; [inversion E; subst; contradiction|exact (H2 y l' k Hin)].
    + intros e He l' [E|Hin]; [inversion E; subst; contradiction|exact (H3 e He l' Hin)].
    + intros e He. destruct (H4 e He) as [?|[?|?]]; [left; assumption|right; left; right; assumption|right; right; assumption].
Qed.

Lemma boundP_cp_other ps p q n sn b d cp rx : p <> q ->
  boundP ps q d cp rx -> boundP ps q d ((p, n, sn, b) :: cp) rx.
Proof.
  intros Hpq. destruct ps as [m|m snap rest sent]; cbn [boundP].
  - intros [H1 H2]. split; [exact H1|].
    intros k sn' b' [E|Hin]; [inversion E; subst; contradiction|exact (H2 k sn' b' Hin)].
  - intros (H1 & H2 & H3 & H4 & H5). repeat split; try assumption.
    intros k sn' b' [E|Hin]; [inversion E; subst; contradiction|exact (H5 k sn' b' Hin)].
Qed.

(* the `updates` map keeps unique keys under every action *)
Lemma root_handle_upd_nodup s c :
  NoDup (map fst (upd s)) -> NoDup (map fst (upd (root_handle s c))).
Proof.
  intros H. des_st s. destruct c as [l|x|x [|]|c|c| |ld]; cbn in *; try exact H.
  - apply NoDup_keys_ins, H.
  - apply NoDup_keys_del, H.
  - destruct (m_find x u); cbn; [apply NoDup_keys_del, H|exact H].
  - destruct (m_find x su); cbn; [apply NoDup_keys_ins, H|exact H].
  - apply NoDup_keys_del, NoDup_keys_ins, H.
Qed.

Lemma step_upd_nodup cf s a :
  NoDup (map fst (upd s)) -> NoDup (map fst (upd (step cf s a))).
Proof.
  intros H. destruct a; cbn [step].
  - destruct (links s l); [destruct (root_dropped s)|..]; des_st s; cbn in *; exact H.
  - destruct (links s l) as [| |y b0|ya]; [| |destruct (is_direct l)|]; des_st s; cbn in *; exact H.
  - destruct (links s l) as [| |y b0|ya]; [| |destruct (Bool.eqb b b0)|]; des_st s; cbn in *; exact H.
  - destruct (links s l) as [| |y b0|ya]; [| |destruct (is_direct l); [|destruct (ch_q (chans s y)) as [|[p n] q] eqn:E]|];
      des_st s; cbn in *; exact H.
  - des_st s; cbn in *; exact H.
  - destruct (root_term s || root_dropped s); [exact H|].
    destruct (rnote s) as [|nh nt] eqn:En; [|note_shape s; exact H].
    destruct (rootq s) as [|c q] eqn:E; [exact H|].
    apply root_handle_upd_nodup. des_st s; cbn in *; exact H.
  - destruct (pub_idle s 0); des_st s; cbn in *; exact H.
  - des_st s; cbn in *; exact H.
  - destruct (c_alive (clones s c) && negb (c_term (clones s c))); [|exact H].
    destruct (c_q (clones s c)) as [|y q].
    + destruct (root_dropped s); des_st s; cbn in *; exact H.
    + destruct y as [e|y|]; cbn [clone_handle]; [destruct (cf_follow cf)|destruct (cf_follow cf)|];
        des_st s; cbn in *; try exact H.
      * apply NoDup_keys_ins, H.
      * apply NoDup_keys_del, H.
  - destruct (c_alive (clones s c) && pub_idle s c && negb (c =? 0)); des_st s; cbn in *; exact H.
  - destruct (pubs s p) as [n|n snap rest sent]; [destruct (pub_alive s p)|]; des_st s; cbn in *; exact H.
  - destruct (pubs s p) as [n|n snap [|[y l] rest] sent]; try exact H.
    destruct (negb (ch_rx (chans s y))); [des_st s; cbn in *; exact H|].
    destruct (is_direct l); [des_st s; cbn in *; exact H|].
    destruct (N.of_nat (length (ch_q (chans s y))) <? cf_cap cf); [|exact H].
    des_st s; cbn in *; exact H.
  - destruct (pubs s p) as [n|n snap [|e rest] sent]; des_st s; cbn in *; exact H.
  - des_st s; cbn in *; exact H.
  - destruct (links s l) as [| |y b0|ya]; des_st s; cbn in *; exact H.
  - destruct (links s l) as [| |y b0|ya]; [| | |destruct (cf_guard cf); destruct (is_direct l)]; des_st s; cbn in *; exact H.
Qed.

(* ------------------------------------ what the three publisher actions do *)

Lemma step_begin_spec cf s p :
  let s' := step cf s (ABegin p) in
  s' = s \/
  exists n, pubs s p = PIdle n /\ pub_alive s p = true /\
    pubs s' = fupd (pubs s) p (PSending n (upd s) (upd s) false) /\
    delivered s' = delivered s /\ completed s' = completed s.
Proof.
  cbn [step]. destruct (pubs s p) as [n|n snap rest sent] eqn:Ep; [|left; reflexivity].
  destruct (pub_alive s p) eqn:Ea; [|left; reflexivity].
  right. exists n. des_st s; cbn in *. repeat split; try reflexivity.
Qed.

Lemma step_deliver_spec cf s p :
  let s' := step cf s (ADeliver p) in
  s' = s \/
  exists n snap y l rest sent, pubs s p = PSending n snap ((y, l) :: rest) sent /\
    completed s' = completed s /\
    ((pubs s' = fupd (pubs s) p (PSending n snap rest true) /\
      delivered s' = (y, l, p, n) :: delivered s) \/
     (pubs s' = fupd (pubs s) p (PSending n snap rest sent) /\
      delivered s' = delivered s /\ rx_of s y = false)).
Proof.
  cbn [step]. destruct (pubs s p) as [n|n snap [|[y l] rest] sent] eqn:Ep; try (left; reflexivity).
  destruct (negb (ch_rx (chans s y))) eqn:E1.
  { right. exists n, snap, y, l, rest, sent. apply negb_true_iff in E1.
    des_st s; cbn in *. repeat split. right. repeat split. exact E1. }
  destruct (is_direct l).
  { right. exists n, snap, y, l, rest, sent. des_st s; cbn in *. repeat split. left. split; reflexivity. }
  destruct (N.of_nat (length (ch_q (chans s y))) <? cf_cap cf); [|left; reflexivity].
  right. exists n, snap, y, l, rest, sent. des_st s; cbn in *. repeat split. left. split; reflexivity.
Qed.

Lemma step_end_spec cf s p :
  let s' := step cf s (AEnd p) in
  s' = s \/
  exists n snap sent, pubs s p = PSending n snap [] sent /\
    pubs s' = fupd (pubs s) p (PIdle (n + 1)) /\
    delivered s' = delivered s /\ completed s' = (p, n, snap, sent) :: completed s.
Proof.
  cbn [step]. destruct (pubs s p) as [n|n snap [|e rest] sent] eqn:Ep; try (left; reflexivity).
  right. exists n, snap, sent. des_st s; cbn in *. repeat split; reflexivity.
Qed.

Lemma invD_step cf s a : InvD s -> InvD (step cf s a).
Proof.
  intros (H1 & H2 & H3 & H4).
  assert (Hrx : forall x, rx_of s x = false -> rx_of (step cf s a) x = false)
    by (intros x Hx; apply rx_mono; exact Hx).
  assert (Hnd : NoDup (map fst (upd (step cf s a)))) by (apply step_upd_nodup, H1).
  destruct (pub_action a) eqn:Ha.
  2:{ destruct (step_frame cf s a Ha) as (Ep & Ed & Ec).
      split; [exact Hnd|]. rewrite Ep, Ed, Ec. repeat split.
      - intros p. eapply boundP_rx_mono; [exact Hrx|apply H2].
      - exact H3.
      - intros p n sn b Hin e He. destruct (H4 p n sn b Hin e He) as [?|?]; [left; assumption|right; apply Hrx; assumption]. }
  destruct a as [| | | | | | | | | |p|p|p|xd|la|la]; try discriminate Ha; clear Ha.
  - (* begin *)
    destruct (step_begin_spec cf s p) as [E|(n & Ep & _ & Ep' & Ed & Ec)].
    { rewrite E. repeat split; assumption. }
    split; [exact Hnd|]. rewrite Ep', Ed, Ec. repeat split.
    + intros q. destruct (N.eq_dec q p) as [->|Hq].
      * rewrite fupd_eq. specialize (H2 p). rewrite Ep in H2. destruct H2 as [Ha Hb].
        cbn [boundP]. repeat split.
        -- exact H1.
        -- intros x l m Hin. specialize (Ha x l m Hin). lia.
        -- intros e _ l Hin. specialize (Ha _ _ _ Hin). lia.
        -- intros e He. left. exact He.
        -- exact Hb.
      * rewrite fupd_neq by exact Hq. eapply boundP_rx_mono; [exact Hrx|apply H2].
    + exact H3.
    + intros q n' sn b Hin e He. destruct (H4 q n' sn b Hin e He) as [?|?]; [left; assumption|right; apply Hrx; assumption].
  - (* deliver *)
    destruct (step_deliver_spec cf s p) as [E|(n & snap & y & l & rest & sent & Ep & Ec & Hcase)].
    { rewrite E. repeat split; assumption. }
    pose proof (H2 p) as Hb. rewrite Ep in Hb. destruct Hb as (Hb1 & Hb2 & Hb3 & Hb4 & Hb5).
    cbn [map fst] in Hb1. inversion Hb1 as [|? ? Hny Hnr]; subst.
    split; [exact Hnd|]. rewrite Ec.
    destruct Hcase as [(Ep' & Ed)|(Ep' & Ed & Hrxy)]; rewrite Ep', Ed; repeat split.
    + intros q. destruct (N.eq_dec q p) as [->|Hq].
      * rewrite fupd_eq. cbn [boundP]. repeat split.
        -- exact Hnr.
        -- intros x l' m [E|Hin]; [inversion E; subst; lia|exact (Hb2 x l' m Hin)].
        -- intros e He l' [E|Hin].
           ++ inversion E; subst. apply Hny. apply in_map_iff. exists e. split; [congruence|exact He].
           ++ apply (Hb3 e (or_intror He) l' Hin).
        -- intros e He. destruct (Hb4 e He) as [[<-|Hr]|[Hd|Hx]].
           ++ right. left. left. reflexivity.
           ++ left. exact Hr.
           ++ right. left. right. exact Hd.
           ++ right. right. apply Hrx. exact Hx.
        -- exact Hb5.
      * rewrite fupd_neq by exact Hq. apply boundP_other; [congruence|].
        eapply boundP_rx_mono; [exact Hrx|apply H2].
    + intros x q. rewrite seqs_of_g.
      destruct (N.eq_dec x y) as [->|Hxy]; [destruct (N.eq_dec q p) as [->|Hqp]|].
      * rewrite gseqs_cons_same by reflexivity. apply strictly_desc_cons; [|rewrite <- seqs_of_g; apply H3].
        apply gseqs_head. intros [[[x' l'] p'] m] Hin Hk Hp. unfold d_slot, d_pub, d_seq in *. cbn in *. subst.
        assert (m <= n) by exact (Hb2 _ _ _ Hin).
        assert (m <> n) by (intros ->; exact (Hb3 (y, l) (or_introl eq_refl) l' Hin)). lia.
      * rewrite gseqs_cons_other by (unfold d_pub; cbn; intros [_ ?]; congruence).
        rewrite <- seqs_of_g. apply H3.
      * rewrite gseqs_cons_other by (unfold d_slot; cbn; intros [? _]; congruence).
        rewrite <- seqs_of_g. apply H3.
    + intros q n' sn b Hin e He. destruct (H4 q n' sn b Hin e He) as [?|?]; [left; right; assumption|right; apply Hrx; assumption].
    + intros q. destruct (N.eq_dec q p) as [->|Hq].
      * rewrite fupd_eq. cbn [boundP]. repeat split.
        -- exact Hnr.
        -- exact Hb2.
        -- intros e He. apply Hb3. right. exact He.
        -- intros e He. destruct (Hb4 e He) as [[<-|Hr]|[Hd|Hx]].
           ++ right. right. apply Hrx. exact Hrxy.
           ++ left. exact Hr.
           ++ right. left. exact Hd.
           ++ right. right. apply Hrx. exact Hx.
        -- exact Hb5.
      * rewrite fupd_neq by exact Hq. eapply boundP_rx_mono; [exact Hrx|apply H2].
    + exact H3.
    + intros q n' sn b Hin e He. destruct (H4 q n' sn b Hin e He) as [?|?]; [left; assumption|right; apply Hrx; assumption].
  - (* end *)
    destruct (step_end_spec cf s p) as [E|(n & snap & sent & Ep & Ep' & Ed & Ec)].
    { rewrite E. repeat split; assumption. }
    pose proof (H2 p) as Hb. rewrite Ep in Hb. destruct Hb as (Hb1 & Hb2 & Hb3 & Hb4 & Hb5).
    split; [exact Hnd|]. rewrite Ep', Ed, Ec. repeat split.
    + intros q. destruct (N.eq_dec q p) as [->|Hq].
      * rewrite fupd_eq. cbn [boundP]. split.
        -- intros x l m Hin. specialize (Hb2 x l m Hin). lia.
        -- intros m sn b [E|Hin]; [inversion E; subst; lia|specialize (Hb5 m sn b Hin); lia].
      * rewrite fupd_neq by exact Hq. apply boundP_cp_other; [congruence|].
        eapply boundP_rx_mono; [exact Hrx|apply H2].
    + exact H3.
    + intros q n' sn b [E|Hin] e He.
      * inversion E; subst. destruct (Hb4 e He) as [[]|[Hd|Hx]]; [left; exact Hd|right; apply Hrx; exact Hx].
      * destruct (H4 q n' sn b Hin e He) as [?|?]; [left; assumption|right; apply Hrx; assumption].
Qed.

Lemma invD_init : InvD init.
Proof.
  repeat split; cbn; try constructor; try (intros; contradiction).
Qed.

Lemma run_from_inv (P : st -> Prop) cf :
  (forall s a, P s -> P (step cf s a)) -> forall tr s, P s -> P (run_from cf s tr).
Proof.
  intros Hstep tr. unfold run_from. induction tr as [|a tr IH]; intros s Hs; cbn [fold_left]; [exact Hs|].
  apply IH, Hstep, Hs.
Qed.

Lemma invD_run cf tr : InvD (run cf tr).
Proof. unfold run. apply run_from_inv; [intros s a; apply invD_step|exact invD_init]. Qed.

(* ------------- invariant L (cf_follow = false): one live slot per link *)

Definition InvLP (u su : list entry) (ns : N) (rq : list cmd) (lk : N -> lstate) : Prop :=
  (forall e1 e2, In e1 (u ++ su) -> In e2 (u ++ su) -> fst e1 = fst e2 -> e1 = e2) /\
  (forall e, In e (u ++ su) -> fst e < ns) /\
  (forall e1 e2, In e1 (u ++ su) -> In e2 (u ++ su) -> snd e1 = snd e2 -> e1 = e2) /\
  (forall x l, In (x, l) (u ++ su) -> (exists b, lk l = LConn x b) \/ In (CUnsub x) rq) /\
  (forall l x b, lk l = LConn x b -> x < ns) /\
  (forall l, In (CSub l) rq -> lk l = LPending) /\
  (forall pre post l, rq = pre ++ CSub l :: post -> ~ In (CSub l) post) /\
  (forall pre post l, rq = pre ++ CSub l :: post -> forall x, In (x, l) (u ++ su) -> In (CUnsub x) pre).

(* The gate's view of a link: while the answer naming slot x waits in the oneshot ([LAnsw x]) the
   link owns slot x exactly as if connect() had already returned. The invariants are stated on this
   view, so [APick] does not change them and an abandoned answered connect ([AAbandon] from
   [LAnsw x], after the repair) is, for the gate, a disconnect. *)
Definition lview (x : lstate) : lstate := match x with LAnsw s => LConn s false | _ => x end.
Arguments lview : simpl nomatch.
Definition vlinks (s : st) : N -> lstate := fun l => lview (links s l).

Definition InvL (s : st) : Prop := InvLP (upd s) (sus s) (nslot s) (rootq s) (vlinks s).

Lemma lview_fupd lk l v k : lview (fupd lk l v k) = fupd (fun j => lview (lk j)) l (lview v) k.
Proof. unfold fupd. destruct (k =? l); reflexivity. Qed.

Lemma invL_ext u su ns rq lk lk' : (forall l, lk' l = lk l) ->
  InvLP u su ns rq lk -> InvLP u su ns rq lk'.
Proof.
  intros E (K1 & K2 & K3 & L2 & L3 & Q1 & Q2 & Q3). repeat split; try assumption.
  - intros x l Hin. rewrite E. exact (L2 x l Hin).
  - intros l x b. rewrite E. apply L3.
  - intros l Hin. rewrite E. exact (Q1 l Hin).
Qed.

Lemma invL_view_set u su ns rq lk l v :
  InvLP u su ns rq (fupd (fun j => lview (lk j)) l (lview v)) ->
  InvLP u su ns rq (fun k => lview (fupd lk l v k)).
Proof. apply invL_ext. intros k. apply lview_fupd. Qed.

Lemma invL_ns_mono u su ns ns' rq lk : ns <= ns' -> InvLP u su ns rq lk -> InvLP u su ns' rq lk.
Proof.
  intros Hle (K1 & K2 & K3 & L2 & L3 & Q1 & Q2 & Q3). repeat split; try assumption.
  - intros e He. specialize (K2 e He). lia.
  - intros l x b E. specialize (L3 l x b E). lia.
Qed.

Lemma app_single_split {A} (rq : list A) c pre x post :
  rq ++ [c] = pre ++ x :: post ->
  (exists post', post = post' ++ [c] /\ rq = pre ++ x :: post') \/ (post = [] /\ pre = rq /\ x = c).
Proof.
  destruct post as [|y post0] using rev_ind.
  - intros H. right. apply app_inj_tail in H. destruct H as [-> ->]. auto.
  - clear IHpost0. intros H. left. exists post0.
    replace (pre ++ x :: post0 ++ [y]) with ((pre ++ x :: post0) ++ [y]) in H
      by (rewrite <- app_assoc; reflexivity).
    apply app_inj_tail in H. destruct H as [-> ->]. auto.
Qed.

Definition misc_cmd (c : cmd) : bool :=
  match c with CSub _ | CUnsub _ => false | _ => true end.

Lemma invL_push_misc u su ns rq lk c : misc_cmd c = true ->
  InvLP u su ns rq lk -> InvLP u su ns (rq ++ [c]) lk.
Proof.
  intros Hc (K1 & K2 & K3 & L2 & L3 & Q1 & Q2 & Q3). repeat split; try assumption.
  - intros x l Hin. destruct (L2 x l Hin) as [?|?]; [left; assumption|right; apply in_or_app; left; assumption].
  - intros l Hin. apply in_app_or in Hin. destruct Hin as [Hin|[E0|[]]]; [apply Q1, Hin|subst c; discriminate Hc].
  - intros pre post l E. destruct (app_single_split _ _ _ _ _ E) as [(post' & -> & E')|(_ & _ & <-)]; [|discriminate Hc].
    intros Hin. apply in_app_or in Hin. destruct Hin as [Hin|[E0|[]]]; [exact (Q2 _ _ _ E' Hin)|subst c; discriminate Hc].
  - intros pre post l E. destruct (app_single_split _ _ _ _ _ E) as [(post' & -> & E')|(_ & _ & <-)]; [|discriminate Hc].
    exact (Q3 _ _ _ E').
Qed.

Lemma invL_relabel u su ns rq lk l x b0 b : lk l = LConn x b0 ->
  InvLP u su ns rq lk -> InvLP u su ns rq (fupd lk l (LConn x b)).
Proof.
  intros Hl (K1 & K2 & K3 & L2 & L3 & Q1 & Q2 & Q3). repeat split; try assumption.
  - intros x' l' Hin. destruct (L2 x' l' Hin) as [[b' Hb]|?]; [left|right; assumption].
    destruct (N.eq_dec l' l) as [->|Hn]; [|rewrite fupd_neq by exact Hn; eauto].
    rewrite fupd_eq. rewrite Hl in Hb. inversion Hb; subst. eauto.
  - intros l' x' b'. destruct (N.eq_dec l' l) as [->|Hn].
    + rewrite fupd_eq. intros E. inversion E; subst. eapply L3, Hl.
    + rewrite fupd_neq by exact Hn. apply L3.
  - intros l' Hin. destruct (N.eq_dec l' l) as [->|Hn]; [|rewrite fupd_neq by exact Hn; apply Q1, Hin].
    rewrite (Q1 l Hin) in Hl. discriminate.
Qed.

Lemma invL_send_sub u su ns rq lk l : lk l = LIdle ->
  InvLP u su ns rq lk -> InvLP u su ns (rq ++ [CSub l]) (fupd lk l LPending).
Proof.
  intros Hl (K1 & K2 & K3 & L2 & L3 & Q1 & Q2 & Q3).
  assert (Hnot : ~ In (CSub l) rq) by (intros Hin; rewrite (Q1 l Hin) in Hl; discriminate).
  repeat split; try assumption.
  - intros x l' Hin. destruct (L2 x l' Hin) as [[b Hb]|?]; [left|right; apply in_or_app; left; assumption].
    exists b. rewrite fupd_neq; [exact Hb|]. intros ->. rewrite Hl in Hb. discriminate.
  - intros l' x b. destruct (N.eq_dec l' l) as [->|Hn]; [rewrite fupd_eq; discriminate|].
    rewrite fupd_neq by exact Hn. apply L3.
  - intros l' Hin. apply in_app_or in Hin. destruct Hin as [Hin|[E|[]]].
    + rewrite fupd_neq; [apply Q1, Hin|]. intros ->. contradiction.
    + inversion E; subst. apply fupd_eq.
  - intros pre post l' E. destruct (app_single_split _ _ _ _ _ E) as [(post' & -> & E')|(-> & _ & _)]; [|intros []].
    intros Hin. apply in_app_or in Hin. destruct Hin as [Hin|[E2|[]]]; [exact (Q2 _ _ _ E' Hin)|].
    inversion E2; subst. apply Hnot. apply in_or_app. right. left. reflexivity.
  - intros pre post l' E. destruct (app_single_split _ _ _ _ _ E) as [(post' & -> & E')|(-> & -> & E2)].
    + exact (Q3 _ _ _ E').
    + inversion E2; subst. intros x Hin. destruct (L2 x l Hin) as [[b Hb]|?]; [|assumption].
      rewrite Hl in Hb. discriminate.
Qed.

Lemma invL_send_unsub u su ns rq lk l x b : lk l = LConn x b ->
  InvLP u su ns rq lk -> InvLP u su ns (rq ++ [CUnsub x]) (fupd lk l LIdle).
Proof.
  intros Hl (K1 & K2 & K3 & L2 & L3 & Q1 & Q2 & Q3). repeat split; try assumption.
  - intros x' l' Hin. destruct (L2 x' l' Hin) as [[b' Hb]|?]; [|right; apply in_or_app; left; assumption].
    destruct (N.eq_dec l' l) as [->|Hn].
    + right. rewrite Hl in Hb. inversion Hb; subst. apply in_or_app. right. left. reflexivity.
    + left. exists b'. rewrite fupd_neq by exact Hn. exact Hb.
  - intros l' x' b'. destruct (N.eq_dec l' l) as [->|Hn]; [rewrite fupd_eq; discriminate|].
    rewrite fupd_neq by exact Hn. apply L3.
  - intros l' Hin. apply in_app_or in Hin. destruct Hin as [Hin|[E|[]]]; [|discriminate E].
    rewrite fupd_neq; [apply Q1, Hin|]. intros ->. rewrite (Q1 l Hin) in Hl. discriminate.
  - intros pre post l' E. destruct (app_single_split _ _ _ _ _ E) as [(post' & -> & E')|(_ & _ & E2)]; [|discriminate E2].
    intros Hin. apply in_app_or in Hin. destruct Hin as [Hin|[E2|[]]]; [exact (Q2 _ _ _ E' Hin)|discriminate E2].
  - intros pre post l' E. destruct (app_single_split _ _ _ _ _ E) as [(post' & -> & E')|(_ & _ & E2)]; [|discriminate E2].
    exact (Q3 _ _ _ E').
Qed.

(* the connect() future of link l is dropped while Subscribe is still queued: the queued command
   becomes a Subscribe nobody waits for *)
Lemma map_kill_split l rq pre post c : (forall l', c <> CSubDead l') -> map (kill_sub l) rq = pre ++ c :: post ->
  exists pre0 post0, rq = pre0 ++ c :: post0 /\ pre = map (kill_sub l) pre0 /\ post = map (kill_sub l) post0.
Proof.
  intros Hc E. apply map_eq_app in E. destruct E as (pre0 & r & -> & E1 & E2).
  apply map_eq_cons in E2. destruct E2 as (c0 & post0 & -> & E2 & E3).
  exists pre0, post0. split; [|split; symmetry; assumption].
  destruct (kill_sub_eq l c0) as [E|[_ E]]; [congruence|rewrite E in E2; exfalso; exact (Hc _ (eq_sym E2))].
Qed.

Lemma invL_kill u su ns rq lk l : lk l = LPending ->
  InvLP u su ns rq lk -> InvLP u su ns (map (kill_sub l) rq) (fupd lk l LIdle).
Proof.
  intros Hl (K1 & K2 & K3 & L2 & L3 & Q1 & Q2 & Q3). repeat split; try assumption.
  - intros x l' Hin. destruct (L2 x l' Hin) as [[b Hb]|Hu].
    + left. exists b. rewrite fupd_neq; [exact Hb|]. intros ->. rewrite Hl in Hb. discriminate Hb.
    + right. apply in_map_kill_keep; [exact Hu|discriminate].
  - intros l' x b. destruct (N.eq_dec l' l) as [->|Hn]; [rewrite fupd_eq; discriminate|].
    rewrite fupd_neq by exact Hn. apply L3.
  - intros l' Hin. apply in_map_kill in Hin. destruct Hin as [D|[Hin Hn]]; [discriminate D|].
    rewrite fupd_neq; [apply Q1, Hin|]. intros ->. apply Hn. reflexivity.
  - intros pre post l' E. destruct (map_kill_split l rq pre post (CSub l') ltac:(discriminate) E) as (pre0 & post0 & E0 & -> & ->).
    intros Hin. apply in_map_kill in Hin. destruct Hin as [D|[Hin _]]; [discriminate D|exact (Q2 _ _ _ E0 Hin)].
  - intros pre post l' E x Hin. destruct (map_kill_split l rq pre post (CSub l') ltac:(discriminate) E) as (pre0 & post0 & E0 & -> & ->).
    apply in_map_kill_keep; [exact (Q3 _ _ _ E0 x Hin)|discriminate].
Qed.

(* members of the maps after the root handled a command come from before *)
Lemma invL_pop_subset u su ns c q lk u' su' :
  (forall e, In e (u' ++ su') -> In e (u ++ su)) ->
  (forall x, c = CUnsub x -> forall e, In e (u' ++ su') -> fst e <> x) ->
  (forall l, c <> CSub l) ->
  InvLP u su ns (c :: q) lk -> InvLP u' su' ns q lk.
Proof.
  intros Hsub Hun Hns (K1 & K2 & K3 & L2 & L3 & Q1 & Q2 & Q3). repeat split.
  - intros e1 e2 H1 H2. apply K1; auto.
  - intros e He. apply K2; auto.
  - intros e1 e2 H1 H2. apply K3; auto.
  - intros x l Hin. destruct (L2 x l (Hsub _ Hin)) as [?|[E|?]]; [left; assumption| |right; assumption].
    exfalso. exact (Hun x E _ Hin eq_refl).
  - exact L3.
  - intros l Hin. apply Q1. right. exact Hin.
  - intros pre post l E. apply (Q2 (c :: pre) post l). rewrite E. reflexivity.
  - intros pre post l E x Hin.
    assert (H : In (CUnsub x) (c :: pre)) by (apply (Q3 (c :: pre) post l); [rewrite E; reflexivity|apply Hsub, Hin]).
    destruct H as [E2|H]; [|exact H]. exfalso. exact (Hun x E2 _ Hin eq_refl).
Qed.

Lemma invL_pop_sub u su ns l q lk :
  InvLP u su ns (CSub l :: q) lk ->
  InvLP (m_ins (ns, l) u) su (ns + 1) q (fupd lk l (LConn ns false)).
Proof.
  intros (K1 & K2 & K3 & L2 & L3 & Q1 & Q2 & Q3).
  assert (Hfree : forall x, ~ In (x, l) (u ++ su)).
  { intros x Hin. exact (Q3 [] q l eq_refl x Hin). }
  assert (Hnq : ~ In (CSub l) q) by exact (Q2 [] q l eq_refl).
  assert (Hmem : forall e, In e (m_ins (ns, l) u ++ su) -> (In e (u ++ su) /\ fst e <> ns) \/ e = (ns, l)).
  { intros e He. apply in_app_or in He. destruct He as [He|He].
    - apply In_m_ins in He. destruct He as [[He Hk]|He]; [left; split; [apply in_or_app; left; exact He|exact Hk]|right; exact He].
    - left. split; [apply in_or_app; right; exact He|]. intros E.
      assert (fst e < ns) by (apply K2, in_or_app; right; exact He). lia. }
  repeat split.
  - intros e1 e2 H1 H2 E. destruct (Hmem _ H1) as [[H1' N1]| ->]; destruct (Hmem _ H2) as [[H2' N2]| ->]; cbn in *; auto; congruence.
  - intros e He. destruct (Hmem _ He) as [[He' _]| ->]; [specialize (K2 _ He'); lia|cbn; lia].
  - intros e1 e2 H1 H2 E. destruct (Hmem _ H1) as [[H1' N1]| ->]; destruct (Hmem _ H2) as [[H2' N2]| ->]; cbn in *; auto.
    + destruct e1 as [x1 l1]. cbn in E. subst. exfalso. exact (Hfree _ H1').
    + destruct e2 as [x2 l2]. cbn in E. subst. exfalso. exact (Hfree _ H2').
  - intros x l' Hin. destruct (Hmem _ Hin) as [[Hin' _]|E].
    + assert (l' <> l) by (intros ->; exact (Hfree _ Hin')).
      destruct (L2 x l' Hin') as [[b Hb]|[E|?]]; [left; exists b; rewrite fupd_neq by assumption; exact Hb|discriminate E|right; assumption].
    + inversion E; subst. left. exists false. apply fupd_eq.
  - intros l' x b. destruct (N.eq_dec l' l) as [->|Hn].
    + rewrite fupd_eq. intros E. inversion E; subst. lia.
    + rewrite fupd_neq by exact Hn. intros E. specialize (L3 _ _ _ E). lia.
  - intros l' Hin. rewrite fupd_neq; [apply Q1; right; exact Hin|]. intros ->. contradiction.
  - intros pre post l' E. apply (Q2 (CSub l :: pre) post l'). rewrite E. reflexivity.
  - intros pre post l' E x Hin.
    assert (l' <> l) by (intros ->; apply Hnq; rewrite E; apply in_or_app; right; left; reflexivity).
    destruct (Hmem _ Hin) as [[Hin' _]|E2]; [|inversion E2; subst; contradiction].
    assert (H1 : In (CUnsub x) (CSub l :: pre)) by (apply (Q3 (CSub l :: pre) post l'); [rewrite E; reflexivity|exact Hin']).
    destruct H1 as [E2|H1]; [discriminate E2|exact H1].
Qed.

Lemma invL_root_handle s c q : rootq s = c :: q -> InvL s -> InvL (root_handle (set_rootq q s) c).
Proof.
  unfold InvL, vlinks. intros E H. des_st s. cbn in *. subst rq.
  destruct c as [l|x|x [|]|c|c| |ld]; cbn.
  - apply (invL_view_set _ _ _ _ _ _ (LAnsw ns)). apply invL_pop_sub, H.
  - eapply invL_pop_subset; [| | |exact H].
    + intros e He. apply in_app_or in He. apply in_or_app.
      destruct He as [He|He]; apply In_m_del in He; tauto.
    + intros y E e He. inversion E; subst. apply in_app_or in He.
      destruct He as [He|He]; apply In_m_del in He; tauto.
    + discriminate.
  - destruct (m_find x u) as [e|] eqn:Ef; cbn.
    + apply m_find_some in Ef. eapply invL_pop_subset; [| | |exact H]; try discriminate.
      intros e' He. apply in_app_or in He. apply in_or_app. destruct He as [He|He].
      * apply In_m_del in He. tauto.
      * apply In_m_ins in He. destruct He as [[? _]| ->]; [right; assumption|left; tauto].
    + eapply invL_pop_subset; [| | |exact H]; try discriminate. auto.
  - destruct (m_find x su) as [e|] eqn:Ef; cbn.
    + apply m_find_some in Ef. eapply invL_pop_subset; [| | |exact H]; try discriminate.
      intros e' He. apply in_app_or in He. apply in_or_app. destruct He as [He|He].
      * apply In_m_ins in He. destruct He as [[? _]| ->]; [left; assumption|right; tauto].
      * apply In_m_del in He. tauto.
    + eapply invL_pop_subset; [| | |exact H]; try discriminate. auto.
  - eapply invL_pop_subset; [| | |exact H]; try discriminate. auto.
  - eapply invL_pop_subset; [| | |exact H]; try discriminate. auto.
  - eapply invL_pop_subset; [| | |exact H]; try discriminate. auto.
  - (* a Subscribe nobody waits for: the slot is inserted and removed again *)
    assert (Hfresh : forall e, In e u -> fst e <> ns).
    { destruct H as (_ & K2 & _). intros e He E. specialize (K2 e (in_or_app _ _ _ (or_introl He))). lia. }
    rewrite (m_del_ins_fresh ns ld u Hfresh). apply (invL_ns_mono _ _ ns); [lia|].
    eapply invL_pop_subset; [| | |exact H]; try discriminate. auto.
Qed.

Lemma invL_step cf s a : cf_follow cf = false -> cf_guard cf = true -> InvL s -> InvL (step cf s a).
Proof.
  intros Hcf Hg H. destruct a; cbn [step].
  - destruct (links s l) eqn:El; try exact H. destruct (root_dropped s); [exact H|].
    unfold InvL, vlinks in *. des_st s; cbn in *. apply (invL_view_set _ _ _ _ _ _ LPending).
    apply invL_send_sub; [rewrite El; reflexivity|exact H].
  - destruct (links s l) as [| |x b0|xa] eqn:El; try exact H.
    assert (H' : InvL (set_rootq (rootq s ++ [CUnsub x]) (set_links (fupd (links s) l LIdle) s))).
    { unfold InvL, vlinks in *. des_st s; cbn in *. apply (invL_view_set _ _ _ _ _ _ LIdle).
      eapply invL_send_unsub; [rewrite El; reflexivity|exact H]. }
    destruct (is_direct l); [exact H'|]. unfold InvL, vlinks in *. des_st s; cbn in *. exact H'.
  - destruct (links s l) as [| |x b0|xa] eqn:El; try exact H. destruct (Bool.eqb b b0); [exact H|].
    unfold InvL, vlinks in *. des_st s; cbn in *. apply invL_push_misc; [reflexivity|].
    apply (invL_view_set _ _ _ _ _ _ (LConn x b)).
    eapply invL_relabel; [rewrite El; reflexivity|exact H].
  - destruct (links s l) as [| |x b0|xa]; try exact H. destruct (is_direct l); [exact H|].
    destruct (ch_q (chans s x)) as [|[p n] q]; [exact H|]. unfold InvL in *. des_st s; cbn in *. exact H.
  - unfold InvL in *. des_st s; cbn in *. apply invL_push_misc; [reflexivity|exact H].
  - destruct (root_term s || root_dropped s); [exact H|].
    destruct (rnote s) as [|nh nt] eqn:En; [|note_shape s; exact H].
    destruct (rootq s) as [|c q] eqn:E; [exact H|]. apply invL_root_handle; assumption.
  - destruct (pub_idle s 0); [|exact H]. unfold InvL in *. des_st s; cbn in *. exact H.
  - unfold InvL in *. des_st s; cbn in *. apply invL_push_misc; [reflexivity|exact H].
  - destruct (c_alive (clones s c) && negb (c_term (clones s c))); [|exact H].
    destruct (c_q (clones s c)) as [|x q].
    + destruct (root_dropped s); [|exact H]. unfold InvL in *. des_st s; cbn in *. exact H.
    + destruct x as [e|y|]; cbn [clone_handle]; rewrite ?Hcf; unfold InvL in *; des_st s; cbn in *; exact H.
  - destruct (c_alive (clones s c) && pub_idle s c && negb (c =? 0)); [|exact H].
    unfold InvL in *. des_st s; cbn in *. apply invL_push_misc; [reflexivity|exact H].
  - destruct (pubs s p) as [n|n snap rest sent]; [destruct (pub_alive s p)|]; try exact H.
  - destruct (pubs s p) as [n|n snap [|[y l] rest] sent]; try exact H.
    destruct (negb (ch_rx (chans s y))); [exact H|].
    destruct (is_direct l); [exact H|].
    destruct (N.of_nat (length (ch_q (chans s y))) <? cf_cap cf); exact H.
  - destruct (pubs s p) as [n|n snap [|e rest] sent]; exact H.
  - exact H.
  - (* APick: the gate's view does not change *)
    destruct (links s l) as [| |x b0|xa] eqn:El; try exact H.
    unfold InvL, vlinks in *. des_st s; cbn in *. apply (invL_view_set _ _ _ _ _ _ (LConn xa false)).
    eapply (invL_relabel _ _ _ _ _ _ xa false false); [rewrite El; reflexivity|exact H].
  - (* AAbandon *)
    destruct (links s l) as [| |x b0|xa] eqn:El; try exact H.
    + unfold InvL, vlinks in *. des_st s; cbn in *. apply (invL_view_set _ _ _ _ _ _ LIdle).
      apply invL_kill; [rewrite El; reflexivity|exact H].
    + rewrite Hg.
      assert (H' : InvL (set_rootq (rootq s ++ [CUnsub xa]) (set_links (fupd (links s) l LIdle) s))).
      { unfold InvL, vlinks in *. des_st s; cbn in *. apply (invL_view_set _ _ _ _ _ _ LIdle).
        eapply invL_send_unsub; [rewrite El; reflexivity|exact H]. }
      destruct (is_direct l); [exact H'|]. unfold InvL, vlinks in *. des_st s; cbn in *. exact H'.
Qed.

Lemma invL_init : InvL init.
Proof.
  unfold InvL, InvLP. cbn. repeat split; intros; try contradiction; try discriminate;
    match goal with E : [] = ?pre ++ _ :: _ |- _ => destruct pre; discriminate E end.
Qed.

(* ----------- invariant LD (cf_follow = false): per LINK, at most once, in order *)

Definition lboundP (ps : pstate) (p : N) (d : list dentry) : Prop :=
  match ps with
  | PIdle _ => True
  | PSending n _ rest _ =>
      NoDup (map snd rest) /\ (forall e, In e rest -> forall x, ~ In (x, snd e, p, n) d)
  end.

Definition InvLD (s : st) : Prop :=
  (forall p, lboundP (pubs s p) p (delivered s)) /\
  (forall l p, strictly_desc (lseqs_of l p (delivered s))).

Lemma lboundP_other ps p q x l n d : p <> q -> lboundP ps q d -> lboundP ps q ((x, l, p, n) :: d).
Proof.
  intros Hpq. destruct ps as [m|m snap rest sent]; cbn [lboundP]; [tauto|].
  intros [H1 H2]. split; [exact H1|].
  intros e He y [E|Hin]; [inversion E; subst; contradiction|exact (H2 e He y Hin)].
Qed.

Lemma NoDup_map_inj_on {A B C} (f : A -> B) (g : A -> C) l :
  NoDup (map f l) -> (forall a b, In a l -> In b l -> g a = g b -> a = b) -> NoDup (map g l).
Proof.
  induction l as [|a l IH]; cbn; intros Hf Hg; [constructor|].
  inversion Hf as [|? ? Hn Hd]; subst. constructor.
  - rewrite in_map_iff. intros (b & E & Hb).
    assert (b = a) by (apply Hg; auto). subst. apply Hn. apply in_map. exact Hb.
  - apply IH; [exact Hd|]. intros x y Hx Hy. apply Hg; right; assumption.
Qed.

Lemma invLD_step cf s a : InvD s -> InvL s -> InvLD s -> InvLD (step cf s a).
Proof.
  intros (D1 & D2 & _ & _) (_ & _ & K3 & _) (H2 & H3).
  destruct (pub_action a) eqn:Ha.
  2:{ destruct (step_frame cf s a Ha) as (Ep & Ed & _). unfold InvLD. rewrite Ep, Ed. split; assumption. }
  destruct a as [| | | | | | | | | |p|p|p|xd|la|la]; try discriminate Ha; clear Ha.
  - destruct (step_begin_spec cf s p) as [E|(n & Ep & _ & Ep' & Ed & _)].
    { rewrite E. split; assumption. }
    unfold InvLD. rewrite Ep', Ed. split; [|exact H3].
    intros q. destruct (N.eq_dec q p) as [->|Hq]; [|rewrite fupd_neq by exact Hq; apply H2].
    rewrite fupd_eq. cbn [lboundP]. split.
    + apply (NoDup_map_inj_on fst snd); [exact D1|].
      intros e1 e2 H1 H2'. apply K3; apply in_or_app; left; assumption.
    + intros e _ x Hin. specialize (D2 p). rewrite Ep in D2. destruct D2 as [Ha _].
      specialize (Ha _ _ _ Hin). lia.
  - destruct (step_deliver_spec cf s p) as [E|(n & snap & y & l & rest & sent & Ep & _ & Hcase)].
    { rewrite E. split; assumption. }
    pose proof (D2 p) as Hb. rewrite Ep in Hb. destruct Hb as (_ & Hb2 & _).
    pose proof (H2 p) as Hl. rewrite Ep in Hl. destruct Hl as [Hl1 Hl2].
    cbn [map snd] in Hl1. inversion Hl1 as [|? ? Hny Hnr]; subst.
    unfold InvLD. destruct Hcase as [(Ep' & Ed)|(Ep' & Ed & _)]; rewrite Ep', Ed; split.
    + intros q. destruct (N.eq_dec q p) as [->|Hq].
      * rewrite fupd_eq. cbn [lboundP]. split; [exact Hnr|].
        intros e He x [E|Hin].
        -- inversion E; subst. apply Hny. apply in_map. exact He.
        -- exact (Hl2 e (or_intror He) x Hin).
      * rewrite fupd_neq by exact Hq. apply lboundP_other; [congruence|apply H2].
    + intros l' q. rewrite lseqs_of_g.
      destruct (N.eq_dec l' l) as [->|Hxy]; [destruct (N.eq_dec q p) as [->|Hqp]|].
      * rewrite gseqs_cons_same by reflexivity. apply strictly_desc_cons; [|rewrite <- lseqs_of_g; apply H3].
        apply gseqs_head. intros [[[x' l'] p'] m] Hin Hk Hp. unfold d_link, d_pub, d_seq in *. cbn in *. subst.
        assert (m <= n) by exact (Hb2 _ _ _ Hin).
        assert (m <> n) by (intros ->; exact (Hl2 (y, l) (or_introl eq_refl) x' Hin)). lia.
      * rewrite gseqs_cons_other by (unfold d_pub; cbn; intros [_ ?]; congruence).
        rewrite <- lseqs_of_g. apply H3.
      * rewrite gseqs_cons_other by (unfold d_link; cbn; intros [? _]; congruence).
        rewrite <- lseqs_of_g. apply H3.
    + intros q. destruct (N.eq_dec q p) as [->|Hq]; [|rewrite fupd_neq by exact Hq; apply H2].
      rewrite fupd_eq. cbn [lboundP]. split; [exact Hnr|].
      intros e He. apply Hl2. right. exact He.
    + exact H3.
  - destruct (step_end_spec cf s p) as [E|(n & snap & sent & Ep & Ep' & Ed & _)].
    { rewrite E. split; assumption. }
    unfold InvLD. rewrite Ep', Ed. split; [|exact H3].
    intros q. destruct (N.eq_dec q p) as [->|Hq]; [rewrite fupd_eq; exact I|rewrite fupd_neq by exact Hq; apply H2].
Qed.

Lemma invLD_init : InvLD init.
Proof. split; intros; exact I. Qed.

Definition InvFixed (s : st) : Prop := InvD s /\ InvL s /\ InvLD s.

Lemma invFixed_run cf tr : cf_follow cf = false -> cf_guard cf = true -> InvFixed (run cf tr).
Proof.
  intros Hcf Hg. unfold run. apply run_from_inv.
  - intros s a (HD & HL & HLD). split; [|split].
    + apply invD_step, HD.
    + apply invL_step; assumption.
    + apply invLD_step; assumption.
  - split; [exact invD_init|split; [exact invL_init|exact invLD_init]].
Qed.

(* ====================================================== the theorems ===== *)

(* per slot: holds for the code before and after the repair *)
Lemma at_most_once_in_order_per_slot cf tr x p :
  strictly_desc (seqs_of x p (delivered (run cf tr))).
Proof. destruct (invD_run cf tr) as (_ & _ & H & _). apply H. Qed.

(* per link (what a component sees): needs the repair *)
Lemma at_most_once_in_order cf tr l p : cf_follow cf = false -> cf_guard cf = true ->
  strictly_desc (lseqs_of l p (delivered (run cf tr))).
Proof. intros Hcf Hg. destruct (invFixed_run cf tr Hcf Hg) as (_ & _ & _ & H). apply H. Qed.

(* ---- abandoned connects leave nothing behind *)

Lemma lview_conn ls x b : lview ls = LConn x b -> holds_slot ls x.
Proof.
  destruct ls as [| |y c|y]; cbn; intros E; try discriminate E.
  - inversion E; subst. left. exists b. reflexivity.
  - inversion E; subst. right. reflexivity.
Qed.

(* No orphan slot, on every schedule - links may give up on connect() before or after the gate
   answered, the gate may lag behind by any number of commands: every slot in `updates` or
   `suspended` belongs to a link that holds it (connect() returned that slot, or the answer naming
   it waits in the oneshot), or the Unsubscribe for it is queued at the gate. *)
Lemma no_orphan_slot cf tr x l : cf_follow cf = false -> cf_guard cf = true ->
  In (x, l) (upd (run cf tr) ++ sus (run cf tr)) ->
  holds_slot (links (run cf tr) l) x \/ In (CUnsub x) (rootq (run cf tr)).
Proof.
  intros Hcf Hg Hin. destruct (invFixed_run cf tr Hcf Hg) as (_ & (_ & _ & _ & L2 & _) & _).
  destruct (L2 x l Hin) as [[b Hb]|Hu]; [left|right; exact Hu].
  unfold vlinks in Hb. eapply lview_conn, Hb.
Qed.

(* ... and never two slots for one link (one direct-update target, one queue): what a publisher
   snapshots holds every link at most once *)
Lemma one_slot_per_link cf tr x1 x2 l : cf_follow cf = false -> cf_guard cf = true ->
  In (x1, l) (upd (run cf tr) ++ sus (run cf tr)) -> In (x2, l) (upd (run cf tr) ++ sus (run cf tr)) -> x1 = x2.
Proof.
  intros Hcf Hg H1 H2. destruct (invFixed_run cf tr Hcf Hg) as (_ & (_ & _ & K3 & _) & _).
  specialize (K3 _ _ H1 H2 eq_refl). congruence.
Qed.

(* a link that has given up (it is idle again) with nothing of its own on its way to the gate has
   no slot in the gate *)
Lemma idle_link_has_no_slot cf tr x l : cf_follow cf = false -> cf_guard cf = true ->
  links (run cf tr) l = LIdle -> ~ In (CUnsub x) (rootq (run cf tr)) ->
  ~ In (x, l) (upd (run cf tr) ++ sus (run cf tr)).
Proof.
  intros Hcf Hg Hl Hq Hin. destruct (no_orphan_slot cf tr x l Hcf Hg Hin) as [[[b Hb]|Hb]|Hu];
    [rewrite Hl in Hb; discriminate Hb|rewrite Hl in Hb; discriminate Hb|exact (Hq Hu)].
Qed.

(* the gate handling a Subscribe whose requester is gone (insert, answer fails, remove) leaves both
   maps as they were *)
Lemma dead_subscribe_is_noop cf tr l q : cf_follow cf = false -> cf_guard cf = true ->
  let s := run cf tr in
  rootq s = CSubDead l :: q -> rnote s = [] -> root_term s || root_dropped s = false ->
  upd (step cf s ARoot) = upd s /\ sus (step cf s ARoot) = sus s /\ links (step cf s ARoot) = links s /\
  rootq (step cf s ARoot) = q /\ rnote (step cf s ARoot) = [].
Proof.
  intros Hcf Hg s Eq En Et. destruct (invFixed_run cf tr Hcf Hg) as (_ & (_ & K2 & _) & _). fold s in K2.
  cbn [step]. rewrite Et, En, Eq.
  assert (Hfresh : forall e, In e (upd s) -> fst e <> nslot s).
  { intros e He E. specialize (K2 e (in_or_app _ _ _ (or_introl He))). lia. }
  des_st s. cbn in *. rewrite (m_del_ins_fresh ns l u Hfresh). repeat split; try reflexivity. exact En.
Qed.

(* Link::connect as it was (cf_guard = false): the future is dropped after the gate answered and
   before the answer was picked up; the slot stays. The component connects again: two slots, one
   target, every update twice. Schedule = the case `b 1;c 1;u 0`. *)
Definition lost_answer_witness : list action :=
  [ASendSub 1; ARoot; AAbandon 1;        (* b 1 *)
   ASendSub 1; ARoot; APick 1;           (* c 1 *)
   ABegin 0; ADeliver 0; ADeliver 0; AEnd 0].

Lemma lost_answer_refuted :
  exists cf tr l p, cf_follow cf = false /\ cf_guard cf = false /\
    ~ strictly_desc (lseqs_of l p (delivered (run cf tr))).
Proof.
  exists (MkCfg 2 false false), lost_answer_witness, 1, 0. split; [reflexivity|]. split; [reflexivity|].
  vm_compute. intros [H _]. discriminate H.
Qed.

(* the pinned code: a clone replaying FollowSubscribe late re-inserts the old slot of a
   direct link that has meanwhile unsubscribed and subscribed again; the link then gets
   the next update twice. Schedule = the case `k;c 1;d 1;F 1;c 1;u 0`. *)
Definition dup_witness : list action :=
  [AClone; ARoot;                       (* k *)
   ASendSub 1; ARoot; ARoot; APick 1;   (* c 1 (Subscribe handled; FollowSubscribe sent to clone 1) *)
   ASendUnsub 1; ARoot; ARoot;          (* d 1 *)
   ACloneStep 1;                        (* F 1: FollowSubscribe replayed, process() returns Active *)
   ASendSub 1; ARoot; ARoot; APick 1;   (* c 1 *)
   ABegin 0; ADeliver 0; ADeliver 0; AEnd 0].

Lemma follow_replay_refuted :
  exists cf tr l p, cf_follow cf = true /\ ~ strictly_desc (lseqs_of l p (delivered (run cf tr))).
Proof.
  exists (MkCfg 2 true true), dup_witness, 1, 0. split; [reflexivity|].
  vm_compute. intros [H _]. discriminate H.
Qed.

(* every finished update reached every slot of the snapshot it took, unless the link behind
   that slot dropped its receiver (disconnected) in the meantime *)
Lemma finished_update_reached_snapshot cf tr p n snap b e :
  In (p, n, snap, b) (completed (run cf tr)) -> In e snap ->
  In (fst e, snd e, p, n) (delivered (run cf tr)) \/ ch_rx (chans (run cf tr) (fst e)) = false.
Proof. destruct (invD_run cf tr) as (_ & _ & _ & H). intros H1 H2. exact (H p n snap b H1 e H2). Qed.

(* ------------------------------------------------------------ termination *)

(* the list of sends notify_clones still has to do: one command, distinct clones, and the
   final "return Err(Terminated)" exactly when the command is Terminate *)
Definition sends_of (x : ccmd) (cs : list N) : list nstep := map (fun c => NSend c x) cs.
Definition fin_of (x : ccmd) : list nstep := if is_fterm x then [NFinTerm] else [].
Definition note_ok (r : list nstep) : Prop :=
  exists cs x, NoDup cs /\ r = sends_of x cs ++ fin_of x.

Lemma note_ok_nil : note_ok [].
Proof. exists [], (FUnsub 0). split; [constructor|reflexivity]. Qed.

Lemma in_fin_of_send c y x : ~ In (NSend c y) (fin_of x).
Proof. unfold fin_of. destruct (is_fterm x); cbn; [intros [D|[]]; discriminate D|intros []]. Qed.

Lemma in_sends_of c y x cs : In (NSend c y) (sends_of x cs) <-> y = x /\ In c cs.
Proof.
  unfold sends_of. rewrite in_map_iff. split.
  - intros (c' & E & Hin). inversion E; subst. auto.
  - intros [-> Hin]. exists c. auto.
Qed.

Lemma fin_in_sends_of x cs : ~ In NFinTerm (sends_of x cs).
Proof. unfold sends_of. rewrite in_map_iff. intros (c & E & _). discriminate E. Qed.

Lemma note_ok_cons_send c x rest : note_ok (NSend c x :: rest) ->
  note_ok rest /\ (forall y, ~ In (NSend c y) rest) /\ (x = FTerm -> In NFinTerm rest) /\
  (In NFinTerm rest -> x = FTerm).
Proof.
  intros (cs & x0 & Hnd & E). destruct cs as [|c0 cs].
  - cbn in E. unfold fin_of in E. destruct (is_fterm x0); discriminate E.
  - cbn in E. inversion E; subst c0 x0. clear E. inversion Hnd as [|? ? Hn Hd]; subst.
    split; [exists cs, x; split; [exact Hd|reflexivity]|]. split; [|split].
    + intros y Hin. apply in_app_or in Hin. destruct Hin as [Hin|Hin].
      * apply in_sends_of in Hin. destruct Hin as [_ Hin]. exact (Hn Hin).
      * exact (in_fin_of_send _ _ _ Hin).
    + intros ->. apply in_or_app. right. left. reflexivity.
    + intros Hin. apply in_app_or in Hin. destruct Hin as [Hin|Hin]; [destruct (fin_in_sends_of _ _ Hin)|].
      unfold fin_of in Hin. destruct x; cbn in Hin; try contradiction. reflexivity.
Qed.

Lemma note_ok_cons_fin rest : note_ok (NFinTerm :: rest) -> rest = [].
Proof.
  intros (cs & x & _ & E). destruct cs as [|c0 cs]; [|discriminate E].
  cbn in E. unfold fin_of in E. destruct (is_fterm x); inversion E; reflexivity.
Qed.

Lemma clone_ids_nodup n : NoDup (clone_ids n).
Proof.
  unfold clone_ids. apply Injective_map_NoDup; [|apply seq_NoDup].
  intros a b E. apply Nat2N.inj. exact E.
Qed.

Lemma in_clone_ids c n : 0 < c <= n -> In c (clone_ids n).
Proof.
  intros H. unfold clone_ids. apply in_map_iff. exists (N.to_nat c). split; [apply N2Nat.id|].
  apply in_seq. lia.
Qed.

Lemma note_list_ok x s : note_ok (note_list x s).
Proof.
  unfold note_list. exists (targets s), x. split; [|reflexivity].
  unfold targets. apply NoDup_filter, clone_ids_nodup.
Qed.

Lemma note_list_fin x s : In NFinTerm (note_list x s) -> x = FTerm.
Proof.
  unfold note_list. intros Hin. apply in_app_or in Hin. destruct Hin as [Hin|Hin].
  - apply in_map_iff in Hin. destruct Hin as (c & E & _). discriminate E.
  - destruct x; cbn in Hin; try contradiction. reflexivity.
Qed.

Lemma note_list_term_reaches s c : c_att (clones s c) = true -> 0 < c <= nclone s ->
  In (NSend c FTerm) (note_list FTerm s).
Proof.
  intros Ha Hc. unfold note_list. apply in_or_app. left. apply in_map_iff. exists c. split; [reflexivity|].
  unfold targets. apply filter_In. split; [apply in_clone_ids; exact Hc|exact Ha].
Qed.

(* ---- invariant A: clone ids are below nclone *)
Definition InvAP (nc : N) (rq : list cmd) (cl : N -> clone) : Prop :=
  0 < nc /\ (forall c, c_att (cl c) = true -> 0 < c < nc) /\ (forall c, In (CAttach c) rq -> 0 < c < nc).
Definition InvA (s : st) : Prop := InvAP (nclone s) (rootq s) (clones s).

Lemma invA_push nc rq cl x : (forall c, x <> CAttach c) -> InvAP nc rq cl -> InvAP nc (rq ++ [x]) cl.
Proof.
  intros Hx (H0 & H1 & H2). split; [exact H0|]. split; [exact H1|].
  intros c H. apply in_app_or in H. destruct H as [H|[E|[]]]; [apply H2; exact H|destruct (Hx _ E)].
Qed.

Lemma invA_kill nc rq cl l : InvAP nc rq cl -> InvAP nc (map (kill_sub l) rq) cl.
Proof.
  intros (H0 & H1 & H2). split; [exact H0|]. split; [exact H1|].
  intros c Hin. apply in_map_kill in Hin. destruct Hin as [D|[Hin _]]; [discriminate D|apply H2, Hin].
Qed.

Lemma invA_pop nc c0 q cl : InvAP nc (c0 :: q) cl -> InvAP nc q cl.
Proof. intros (H0 & H1 & H2). split; [exact H0|]. split; [exact H1|]. intros c H. apply H2. right. exact H. Qed.

Lemma invA_clones nc rq cl cl' : (forall c, c_att (cl' c) = true -> c_att (cl c) = true) ->
  InvAP nc rq cl -> InvAP nc rq cl'.
Proof. intros Hc (H0 & H1 & H2). split; [exact H0|]. split; [|exact H2]. intros c H. apply H1, Hc, H. Qed.

Lemma invA_root_handle s c q : rootq s = c :: q -> InvA s -> InvA (root_handle (set_rootq q s) c).
Proof.
  unfold InvA. intros E H. des_st s. cbn in *. subst rq.
  pose proof (invA_pop _ _ _ _ H) as Hp.
  destruct c as [l|x|x [|]|c|c| |ld]; cbn; try exact Hp.
  - destruct (m_find x u); exact Hp.
  - destruct (m_find x su); exact Hp.
  - destruct H as (H0 & H1 & H2). destruct Hp as (_ & _ & H2'). split; [exact H0|]. split; [|exact H2'].
    intros c0 H. unfold fupd in H. destruct (N.eqb_spec c0 c); [subst; apply H2; left; reflexivity|apply H1; exact H].
  - eapply invA_clones; [|exact Hp]. intros c0. unfold fupd. destruct (c0 =? c); cbn; [discriminate|auto].
Qed.

Lemma invA_step cf s a : InvA s -> InvA (step cf s a).
Proof.
  intros H. destruct a; cbn [step]; try exact H.
  - destruct (links s l); [destruct (root_dropped s)|..]; try exact H.
    unfold InvA in *. des_st s; cbn in *. apply invA_push; [discriminate|exact H].
  - destruct (links s l) as [| |x b0|xa]; try exact H.
    assert (H' : InvA (set_rootq (rootq s ++ [CUnsub x]) (set_links (fupd (links s) l LIdle) s))).
    { unfold InvA in *. des_st s; cbn in *. apply invA_push; [discriminate|exact H]. }
    destruct (is_direct l); exact H'.
  - destruct (links s l) as [| |x b0|xa]; [| |destruct (Bool.eqb b b0)|]; try exact H.
    unfold InvA in *. des_st s; cbn in *. apply invA_push; [discriminate|exact H].
  - destruct (links s l) as [| |x b0|xa]; [| |destruct (is_direct l); [|destruct (ch_q (chans s x)) as [|[p n] q]]|]; exact H.
  - unfold InvA in *. des_st s; cbn in *. apply invA_push; [discriminate|exact H].
  - destruct (root_term s || root_dropped s); [exact H|].
    destruct (rnote s) as [|nh nt] eqn:En.
    + destruct (rootq s) as [|c q] eqn:E; [exact H|]. apply invA_root_handle; assumption.
    + unfold note_step. rewrite En. destruct nh as [c x|].
      * destruct (negb (c_alive (clones s c))); [unfold InvA in *; des_st s; exact H|].
        destruct (N.of_nat (length (c_q (clones s c))) <? cmd_queue_len); [|exact H].
        unfold InvA in *. des_st s; cbn in *. eapply invA_clones; [|exact H].
        intros c0. unfold fupd. destruct (N.eqb_spec c0 c); [subst; cbn; auto|auto].
      * unfold InvA in *. des_st s; exact H.
  - destruct (pub_idle s 0); exact H.
  - unfold InvA in *. des_st s; cbn in *. destruct H as (H0 & H1 & H2). split; [lia|]. split.
    + intros c H. unfold fupd in H. destruct (N.eqb_spec c nc); [discriminate H|apply H1 in H; lia].
    + intros c H. apply in_app_or in H. destruct H as [H|[E|[]]]; [apply H2 in H; lia|inversion E; subst; lia].
  - destruct (c_alive (clones s c) && negb (c_term (clones s c))); [|exact H].
    destruct (c_q (clones s c)) as [|x q].
    + destruct (root_dropped s); [|exact H]. unfold InvA in *. des_st s; cbn in *.
      eapply invA_clones; [|exact H]. intros c0. unfold fupd. destruct (N.eqb_spec c0 c); [subst; cbn; auto|auto].
    + assert (Hmid : InvA (set_clones (fupd (clones s) c (set_cq q (clones s c))) s)).
      { unfold InvA in *. des_st s; cbn in *. eapply invA_clones; [|exact H].
        intros c0. unfold fupd. destruct (N.eqb_spec c0 c); [subst; cbn; auto|auto]. }
      destruct x as [e|y|]; cbn [clone_handle]; [destruct (cf_follow cf); exact Hmid|destruct (cf_follow cf); exact Hmid|].
      unfold InvA in *. des_st s; cbn in *. eapply invA_clones; [|exact H].
      intros c0 Hatt. destruct (N.eq_dec c0 c) as [->|Hn];
        [rewrite !fupd_eq in Hatt; cbn in Hatt; exact Hatt|rewrite !fupd_neq in Hatt by exact Hn; exact Hatt].
  - destruct (c_alive (clones s c) && pub_idle s c && negb (c =? 0)); [|exact H].
    unfold InvA in *. des_st s; cbn in *. apply invA_push; [discriminate|].
    eapply invA_clones; [|exact H]. intros c0. unfold fupd. destruct (N.eqb_spec c0 c); [subst; cbn; auto|auto].
  - destruct (pubs s p) as [n|n snap rest sent]; [destruct (pub_alive s p)|]; exact H.
  - destruct (pubs s p) as [n|n snap [|[y l] rest] sent]; try exact H.
    destruct (negb (ch_rx (chans s y))); [exact H|]. destruct (is_direct l); [exact H|].
    destruct (N.of_nat (length (ch_q (chans s y))) <? cf_cap cf); exact H.
  - destruct (pubs s p) as [n|n snap [|e rest] sent]; exact H.
  - destruct (links s l) as [| |x b0|xa]; exact H.
  - destruct (links s l) as [| |x b0|xa]; try exact H.
    + unfold InvA in *. des_st s; cbn in *. apply invA_kill, H.
    + assert (H' : InvA (if cf_guard cf then set_rootq (rootq s ++ [CUnsub xa]) (set_links (fupd (links s) l LIdle) s)
                         else set_links (fupd (links s) l LIdle) s)).
      { destruct (cf_guard cf); unfold InvA in *; des_st s; cbn in *; [apply invA_push; [discriminate|exact H]|exact H]. }
      destruct (is_direct l); [exact H'|]. destruct (cf_guard cf); unfold InvA in *; des_st s; cbn in *; exact H'.
Qed.

Lemma invA_init : InvA init.
Proof. unfold InvA, InvAP. cbn. split; [lia|]. split; [intros c D; discriminate D|intros c []]. Qed.

(* ---- invariant T: Terminate is never lost. Once the root has taken Terminate off its queue,
   every live attached clone has seen it, or has it in its command queue, or is still on the
   list of sends notify_clones has to do (the root may be waiting for room in a clone's
   queue). Queues never exceed COMMAND_QUEUE_LEN. *)
Definition seen_term (k : clone) : Prop := c_term k = true \/ In FTerm (c_q k).

Definition InvTP (rt rd : bool) (cl : N -> clone) (rn : list nstep) : Prop :=
  note_ok rn /\
  (forall c, N.of_nat (length (c_q (cl c))) <= cmd_queue_len) /\
  (rt = true -> forall c, c_alive (cl c) = true -> c_att (cl c) = true -> seen_term (cl c)) /\
  (In NFinTerm rn -> forall c, c_alive (cl c) = true -> c_att (cl c) = true ->
     seen_term (cl c) \/ In (NSend c FTerm) rn) /\
  (rd = false -> forall c, c_alive (cl c) = true -> seen_term (cl c) ->
     (rt = true \/ In NFinTerm rn) /\ forall x, ~ In (NSend c x) rn).
Definition InvT (s : st) : Prop := InvTP (root_term s) (root_dropped s) (clones s) (rnote s).

(* clones change at one index *)
Lemma invT_note_send rd cl c x rest :
  InvTP false rd cl (NSend c x :: rest) ->
  (c_alive (cl c) = false -> InvTP false rd cl rest) /\
  (c_alive (cl c) = true -> N.of_nat (length (c_q (cl c))) < cmd_queue_len ->
   InvTP false rd (fupd cl c (push_cmd x (cl c))) rest).
Proof.
  intros (Hok & H8 & H1 & H2 & H5).
  destruct (note_ok_cons_send _ _ _ Hok) as (Hok' & Hnd & Hfin & Hfin').
  split.
  - intros Hdead. split; [exact Hok'|]. split; [exact H8|]. split; [intros D; discriminate D|]. split.
    + intros Hin c0 Ha Hatt. destruct (H2 (or_intror Hin) c0 Ha Hatt) as [?|[E|?]]; [left; assumption| |right; assumption].
      inversion E; subst. rewrite Hdead in Ha. discriminate Ha.
    + intros Hrd c0 Ha Hs. destruct (H5 Hrd c0 Ha Hs) as [[D|[D|Hin]] Hno]; [discriminate D|discriminate D|].
      split; [right; exact Hin|]. intros y Hy. apply (Hno y). right. exact Hy.
  - intros Halive Hroom. split; [exact Hok'|]. split; [|split; [intros D; discriminate D|split]].
    + intros c0. unfold fupd. destruct (N.eqb_spec c0 c); [|apply H8]. subst c0. cbn. rewrite app_length. cbn.
      unfold cmd_queue_len in *. lia.
    + intros Hin c0. unfold fupd. destruct (N.eqb_spec c0 c).
      * subst c0. cbn. intros _ _. left. right. apply in_or_app. right. left. apply Hfin'. exact Hin.
      * intros Ha Hatt. destruct (H2 (or_intror Hin) c0 Ha Hatt) as [?|[E|?]]; [left; assumption| |right; assumption].
        inversion E; subst. contradiction.
    + intros Hrd c0. unfold fupd. destruct (N.eqb_spec c0 c).
      * subst c0. cbn. intros _ Hs.
        assert (Hx : x = FTerm).
        { destruct Hs as [Ht|Hin].
          - exfalso. destruct (H5 Hrd c Halive (or_introl Ht)) as [_ Hno]. apply (Hno x). left. reflexivity.
          - apply in_app_or in Hin. destruct Hin as [Hin|[E|[]]]; [|exact E].
            exfalso. destruct (H5 Hrd c Halive (or_intror Hin)) as [_ Hno]. apply (Hno x). left. reflexivity. }
        split; [right; apply Hfin, Hx|exact Hnd].
      * intros Ha Hs. destruct (H5 Hrd c0 Ha Hs) as [[D|[D|Hin]] Hno]; [discriminate D|discriminate D|].
        split; [right; exact Hin|]. intros y Hy. apply (Hno y). right. exact Hy.
Qed.

Lemma invT_note_fin rd cl rest : InvTP false rd cl (NFinTerm :: rest) -> InvTP true rd cl rest.
Proof.
  intros (Hok & H8 & H1 & H2 & H5). pose proof (note_ok_cons_fin _ Hok) as ->.
  split; [exact note_ok_nil|]. split; [exact H8|]. split; [|split].
  - intros _ c Ha Hatt. destruct (H2 (or_introl eq_refl) c Ha Hatt) as [?|[D|[]]]; [assumption|discriminate D].
  - intros [].
  - intros Hrd c Ha Hs. split; [left; reflexivity|intros x []].
Qed.

(* nobody has seen Terminate while the root is between two commands *)
Lemma invT_quiet rd cl : InvTP false rd cl [] -> rd = false ->
  forall c, c_alive (cl c) = true -> ~ seen_term (cl c).
Proof.
  intros (_ & _ & _ & _ & H5) Hrd c Ha Hs. destruct (H5 Hrd c Ha Hs) as [[D|[]] _]. discriminate D.
Qed.

Lemma invT_same_but_att rt rd cl cl' rn :
  (forall c, c_alive (cl' c) = c_alive (cl c) /\ c_term (cl' c) = c_term (cl c) /\ c_q (cl' c) = c_q (cl c)) ->
  (forall c, c_alive (cl c) = true -> ~ seen_term (cl c)) ->
  rt = false -> ~ In NFinTerm rn -> note_ok rn ->
  InvTP rt rd cl [] -> InvTP rt rd cl' rn.
Proof.
  intros Hsame Hq Hrt Hnf Hok (_ & H8 & _). split; [exact Hok|]. split; [|split; [|split]].
  - intros c. destruct (Hsame c) as (_ & _ & ->). apply H8.
  - intros D. rewrite Hrt in D. discriminate D.
  - intros Hin. destruct (Hnf Hin).
  - intros _ c Ha Hs. exfalso. destruct (Hsame c) as (E1 & E2 & E3). rewrite E1 in Ha.
    apply (Hq c Ha). unfold seen_term in *. rewrite E2, E3 in Hs. exact Hs.
Qed.

Lemma invT_root_handle s c q : rootq s = c :: q -> root_term s = false -> root_dropped s = false -> rnote s = [] ->
  InvA s -> InvT s -> InvT (root_handle (set_rootq q s) c).
Proof.
  unfold InvT, InvA. intros E Hrt Hrd Hrn HA H. des_st s. cbn in *. subst rq rt rd rn.
  pose proof (invT_quiet _ _ H eq_refl) as Hq.
  assert (Hsame0 : forall c0 : N, c_alive (cl c0) = c_alive (cl c0) /\ c_term (cl c0) = c_term (cl c0) /\ c_q (cl c0) = c_q (cl c0))
    by (intros; repeat split).
  destruct c as [l|x|x [|]|c|c| |ld]; cbn.
  - eapply invT_same_but_att; [exact Hsame0|exact Hq|reflexivity| |apply note_list_ok|exact H].
    intros Hin. apply note_list_fin in Hin. discriminate Hin.
  - eapply invT_same_but_att; [exact Hsame0|exact Hq|reflexivity| |apply note_list_ok|exact H].
    intros Hin. apply note_list_fin in Hin. discriminate Hin.
  - destruct (m_find x u); exact H.
  - destruct (m_find x su); exact H.
  - eapply invT_same_but_att; [|exact Hq|reflexivity|intros []|exact note_ok_nil|exact H].
    intros c0. unfold fupd. destruct (c0 =? c) eqn:Ec; [apply N.eqb_eq in Ec; subst; cbn; repeat split|repeat split].
  - eapply invT_same_but_att; [|exact Hq|reflexivity|intros []|exact note_ok_nil|exact H].
    intros c0. unfold fupd. destruct (c0 =? c) eqn:Ec; [apply N.eqb_eq in Ec; subst; cbn; repeat split|repeat split].
  - (* Terminate: every attached clone is on the list *)
    destruct H as (_ & H8 & _). split; [apply note_list_ok|]. split; [exact H8|]. split; [intros D; discriminate D|]. split.
    + intros _ c Ha Hatt. right. apply note_list_term_reaches; [exact Hatt|].
      cbn. destruct HA as (_ & HA1 & _). specialize (HA1 c Hatt). lia.
    + intros _ c Ha Hs. destruct (Hq c Ha Hs).
  - (* a Subscribe nobody waits for: the clones are not told *)
    exact H.
Qed.

Lemma invT_step cf s a : InvA s -> InvT s -> InvT (step cf s a).
Proof.
  intros HA H. destruct a; cbn [step]; try exact H.
  - destruct (links s l); [destruct (root_dropped s)|..]; exact H.
  - destruct (links s l) as [| |x b0|xa]; [| |destruct (is_direct l)|]; exact H.
  - destruct (links s l) as [| |x b0|xa]; [| |destruct (Bool.eqb b b0)|]; exact H.
  - destruct (links s l) as [| |x b0|xa]; [| |destruct (is_direct l); [|destruct (ch_q (chans s x)) as [|[p n] q]]|]; exact H.
  - (* ARoot *)
    destruct (root_term s || root_dropped s) eqn:Et; [exact H|].
    apply orb_false_iff in Et. destruct Et as [Et Ed].
    destruct (rnote s) as [|nh nt] eqn:En.
    + destruct (rootq s) as [|c q] eqn:E; [exact H|]. apply invT_root_handle; assumption.
    + unfold note_step. rewrite En. unfold InvT in H. rewrite Et, En in H. destruct nh as [c x|].
      * destruct (invT_note_send _ _ _ _ _ H) as [Hdead Hpush].
        destruct (c_alive (clones s c)) eqn:Ea; cbn [negb].
        -- destruct (N.ltb_spec (N.of_nat (length (c_q (clones s c)))) cmd_queue_len) as [Hlt|Hge].
           ++ unfold InvT. des_st s. cbn in *. subst rt. apply Hpush; [reflexivity|exact Hlt].
           ++ unfold InvT. rewrite Et, En. exact H.
        -- unfold InvT. des_st s. cbn in *. subst rt. apply Hdead. reflexivity.
      * unfold InvT. des_st s. cbn in *. apply invT_note_fin. exact H.
  - (* ARootDrop *)
    destruct (pub_idle s 0); [|exact H]. unfold InvT in *. des_st s. cbn in *.
    destruct H as (Hok & H8 & H1 & H2 & H5). repeat split; try assumption; try discriminate.
  - (* AClone *)
    unfold InvT in *. des_st s. cbn in *. destruct H as (Hok & H8 & H1 & H2 & H5).
    split; [exact Hok|]. split; [|split; [|split]].
    + intros c. unfold fupd. destruct (c =? nc); [cbn; unfold cmd_queue_len; lia|apply H8].
    + intros Hrt c. unfold fupd. destruct (c =? nc); [cbn; intros _ D; discriminate D|apply H1, Hrt].
    + intros Hin c. unfold fupd. destruct (c =? nc); [cbn; intros _ D; discriminate D|apply H2, Hin].
    + intros Hrd c. unfold fupd. destruct (c =? nc); [cbn; intros _ [D|[]]; discriminate D|apply H5, Hrd].
  - (* ACloneStep *)
    destruct (c_alive (clones s c) && negb (c_term (clones s c))) eqn:Eg; [|exact H].
    apply andb_true_iff in Eg. destruct Eg as [Ea Ent]. apply negb_true_iff in Ent.
    destruct (c_q (clones s c)) as [|x q] eqn:Eq.
    + destruct (root_dropped s) eqn:Ed; [|exact H]. unfold InvT in *. des_st s. cbn in *. subst rd.
      destruct H as (Hok & H8 & H1 & H2 & H5). split; [exact Hok|]. split; [|split; [|split]].
      * intros c0. unfold fupd. destruct (N.eqb_spec c0 c); [subst; cbn; apply H8|apply H8].
      * intros Hrt c0. unfold fupd. destruct (N.eqb_spec c0 c); [subst; cbn; intros _ _; left; reflexivity|apply H1, Hrt].
      * intros Hin c0. unfold fupd. destruct (N.eqb_spec c0 c); [subst; cbn; intros _ _; left; left; reflexivity|apply H2, Hin].
      * intros D. discriminate D.
    + (* one command taken off the queue *)
      assert (Hgen : forall cl', (forall c0, c0 <> c -> cl' c0 = clones s c0) ->
                c_alive (cl' c) = true -> c_att (cl' c) = c_att (clones s c) -> c_q (cl' c) = q ->
                (x <> FTerm -> c_term (cl' c) = false) -> (x = FTerm -> c_term (cl' c) = true) ->
                InvTP (root_term s) (root_dropped s) cl' (rnote s)).
      { intros cl' Hoth Ka Katt Kq Kt1 Kt2. unfold InvT in H. destruct H as (Hok & H8 & H1 & H2 & H5).
        assert (Hseen : seen_term (cl' c) -> seen_term (clones s c)).
        { intros [Ht|Hin]; right; rewrite Eq.
          - destruct x as [e|y|]; [rewrite Kt1 in Ht by discriminate; discriminate Ht..|left; reflexivity].
          - right. rewrite Kq in Hin. exact Hin. }
        assert (Hseen' : seen_term (clones s c) -> seen_term (cl' c)).
        { intros [Ht|Hin]; [rewrite Ent in Ht; discriminate Ht|]. rewrite Eq in Hin. destruct Hin as [Hx|Hin].
          - left. apply Kt2. exact Hx.
          - right. rewrite Kq. exact Hin. }
        split; [exact Hok|]. split; [|split; [|split]].
        - intros c0. destruct (N.eq_dec c0 c) as [->|Hn]; [|rewrite (Hoth _ Hn); apply H8]. rewrite Kq.
          specialize (H8 c). rewrite Eq in H8. cbn [length] in H8. lia.
        - intros Hrt c0. destruct (N.eq_dec c0 c) as [->|Hn]; [|rewrite (Hoth _ Hn); apply H1, Hrt]. intros _ Hatt.
          apply Hseen'. apply (H1 Hrt c Ea). rewrite <- Katt. exact Hatt.
        - intros Hin c0. destruct (N.eq_dec c0 c) as [->|Hn]; [|rewrite (Hoth _ Hn); apply H2, Hin]. intros _ Hatt.
          rewrite Katt in Hatt. destruct (H2 Hin c Ea Hatt) as [?|?]; [left; apply Hseen'; assumption|right; assumption].
        - intros Hrd c0. destruct (N.eq_dec c0 c) as [->|Hn]; [|rewrite (Hoth _ Hn); apply H5, Hrd]. intros _ Hs.
          apply (H5 Hrd c Ea). apply Hseen. exact Hs. }
      assert (Hm : x <> FTerm -> InvT (set_clones (fupd (clones s) c (set_cq q (clones s c))) s)).
      { intros Hx. unfold InvT. des_st s. cbn in *. apply Hgen.
        - intros c0 Hn. apply fupd_neq, Hn.
        - rewrite fupd_eq. exact Ea.
        - rewrite fupd_eq. reflexivity.
        - rewrite fupd_eq. reflexivity.
        - intros _. rewrite fupd_eq. exact Ent.
        - intros D. destruct (Hx D). }
      destruct x as [e|y|]; cbn [clone_handle].
      * specialize (Hm ltac:(discriminate)).
        destruct (cf_follow cf); [|exact Hm]. unfold InvT in *. des_st s. cbn in *. exact Hm.
      * specialize (Hm ltac:(discriminate)).
        destruct (cf_follow cf); [|exact Hm]. unfold InvT in *. des_st s. cbn in *. exact Hm.
      * unfold InvT. des_st s. cbn in *. apply Hgen.
        -- intros c0 Hn. rewrite !fupd_neq by exact Hn. reflexivity.
        -- rewrite !fupd_eq. exact Ea.
        -- rewrite !fupd_eq. reflexivity.
        -- rewrite !fupd_eq. reflexivity.
        -- intros D. destruct (D eq_refl).
        -- intros _. rewrite !fupd_eq. reflexivity.
  - (* ACloneDrop *)
    destruct (c_alive (clones s c) && pub_idle s c && negb (c =? 0)); [|exact H].
    unfold InvT in *. des_st s. cbn in *. destruct H as (Hok & H8 & H1 & H2 & H5).
    split; [exact Hok|]. split; [|split; [|split]].
    + intros c0. unfold fupd. destruct (c0 =? c); [cbn; unfold cmd_queue_len; lia|apply H8].
    + intros Hrt c0. unfold fupd. destruct (c0 =? c); [cbn; intros D; discriminate D|apply H1, Hrt].
    + intros Hin c0. unfold fupd. destruct (c0 =? c); [cbn; intros D; discriminate D|apply H2, Hin].
    + intros Hrd c0. unfold fupd. destruct (c0 =? c); [cbn; intros D; discriminate D|apply H5, Hrd].
  - destruct (pubs s p) as [n|n snap rest sent]; [destruct (pub_alive s p)|]; exact H.
  - destruct (pubs s p) as [n|n snap [|[y l] rest] sent]; try exact H.
    destruct (negb (ch_rx (chans s y))); [exact H|]. destruct (is_direct l); [exact H|].
    destruct (N.of_nat (length (ch_q (chans s y))) <? cf_cap cf); exact H.
  - destruct (pubs s p) as [n|n snap [|e rest] sent]; exact H.
  - destruct (links s l) as [| |x b0|xa]; exact H.
  - destruct (links s l) as [| |x b0|xa]; [| | |destruct (cf_guard cf); destruct (is_direct l)]; exact H.
Qed.
Lemma invT_init : InvT init.
Proof.
  unfold InvT, InvTP. cbn. split; [exact note_ok_nil|]. split; [intros _; unfold cmd_queue_len; lia|].
  split; [intros D; discriminate D|]. split; [intros []|]. intros _ c D. discriminate D.
Qed.

Definition InvTA (s : st) : Prop := InvA s /\ InvT s.

Lemma invTA_step cf s a : InvTA s -> InvTA (step cf s a).
Proof. intros [HA HT]. split; [apply invA_step, HA|apply invT_step; assumption]. Qed.

Lemma invTA_run cf tr : InvTA (run cf tr).
Proof. unfold run. apply run_from_inv; [intros s a; apply invTA_step|]. split; [exact invA_init|exact invT_init]. Qed.

Lemma cterm_stable cf s c :
  c_term (clones s c) = true -> step cf s (ACloneStep c) = s.
Proof. intros H. cbn [step]. rewrite H. rewrite andb_false_r. reflexivity. Qed.

Lemma clone_drain_stable cf fuel s c :
  c_term (clones s c) = true -> c_term (clones (clone_drain cf fuel s c) c) = true.
Proof.
  revert s. induction fuel as [|f IH]; intros s H; cbn [clone_drain]; [exact H|].
  rewrite cterm_stable by exact H. apply IH, H.
Qed.

(* process() until the queue is empty ends in Terminated if Terminate is queued, or if the
   root gate (the only holder of senders to the clone's command channel) has been dropped *)
Lemma clone_drain_term cf fuel : forall s c,
  c_alive (clones s c) = true ->
  root_dropped s = true \/ In FTerm (c_q (clones s c)) \/ c_term (clones s c) = true ->
  (length (c_q (clones s c)) < fuel)%nat ->
  c_term (clones (clone_drain cf fuel s c) c) = true.
Proof.
  induction fuel as [|f IH]; intros s c Ha Hc Hl; [inversion Hl|].
  cbn [clone_drain].
  destruct (c_term (clones s c)) eqn:Et.
  { rewrite cterm_stable by exact Et. apply clone_drain_stable, Et. }
  cbn [step]. rewrite Ha, Et. cbn [negb andb].
  destruct (c_q (clones s c)) as [|x q] eqn:Eq.
  - destruct Hc as [Hd|[[]|Hf]]; [|discriminate Hf]. rewrite Hd.
    apply clone_drain_stable. des_st s. cbn in *. rewrite fupd_eq. reflexivity.
  - destruct x as [e|y|]; cbn [clone_handle].
    + assert (Hq : In FTerm q \/ root_dropped s = true).
      { destruct Hc as [?|[[Hd|?]|Hf]]; [right; assumption|discriminate Hd|left; assumption|discriminate Hf]. }
      destruct (cf_follow cf); (apply IH;
        [des_st s; cbn in *; rewrite fupd_eq; cbn; exact Ha
        |des_st s; cbn in *; rewrite fupd_eq; cbn; tauto
        |des_st s; cbn in *; rewrite fupd_eq; cbn in *; lia]).
    + assert (Hq : In FTerm q \/ root_dropped s = true).
      { destruct Hc as [?|[[Hd|?]|Hf]]; [right; assumption|discriminate Hd|left; assumption|discriminate Hf]. }
      destruct (cf_follow cf); (apply IH;
        [des_st s; cbn in *; rewrite fupd_eq; cbn; exact Ha
        |des_st s; cbn in *; rewrite fupd_eq; cbn; tauto
        |des_st s; cbn in *; rewrite fupd_eq; cbn in *; lia]).
    + apply clone_drain_stable. des_st s. cbn in *. rewrite fupd_eq. reflexivity.
Qed.

(* ---- back-pressure resolves: the clone the root waits for takes a command off its queue,
   the root's send goes through *)
Lemma clone_step_frame cf s c' :
  let s' := step cf s (ACloneStep c') in
  rnote s' = rnote s /\ root_term s' = root_term s /\ root_dropped s' = root_dropped s /\
  (forall c, c_alive (clones s' c) = c_alive (clones s c) /\ c_att (clones s' c) = c_att (clones s c)).
Proof.
  cbn [step].
  destruct (c_alive (clones s c') && negb (c_term (clones s c')));
    [|split; [reflexivity|split; [reflexivity|split; [reflexivity|intros c; split; reflexivity]]]].
  destruct (c_q (clones s c')) as [|x q].
  - destruct (root_dropped s) eqn:Ed;
      [|split; [reflexivity|split; [reflexivity|split; [exact Ed|intros c; split; reflexivity]]]].
    des_st s. cbn in *.
    split; [reflexivity|split; [reflexivity|split; [exact Ed|]]].
    intros c. destruct (N.eq_dec c c') as [->|Hn]; [rewrite fupd_eq; split; reflexivity|rewrite fupd_neq by exact Hn; split; reflexivity].
  - destruct x as [e|y|]; cbn [clone_handle]; [destruct (cf_follow cf)|destruct (cf_follow cf)|]; des_st s; cbn in *;
      (split; [reflexivity|split; [reflexivity|split; [reflexivity|]]]);
      intros c; (destruct (N.eq_dec c c') as [->|Hn]; [rewrite !fupd_eq; split; reflexivity|rewrite !fupd_neq by exact Hn; split; reflexivity]).
Qed.

Lemma clone_step_queue cf s c : c_alive (clones s c) = true -> c_term (clones s c) = false ->
  c_q (clones (step cf s (ACloneStep c)) c) = tl (c_q (clones s c)).
Proof.
  intros Ha Ht. cbn [step]. rewrite Ha, Ht. cbn [negb andb].
  destruct (c_q (clones s c)) as [|x q] eqn:Eq.
  - destruct (root_dropped s); [|rewrite Eq; reflexivity]. des_st s. cbn in *. rewrite fupd_eq. cbn. exact Eq.
  - destruct x as [e|y|]; cbn [clone_handle]; [destruct (cf_follow cf)|destruct (cf_follow cf)|]; des_st s; cbn in *;
      rewrite !fupd_eq; reflexivity.
Qed.

Lemma root_send_progress cf s c x rest :
  root_term s = false -> root_dropped s = false -> rnote s = NSend c x :: rest ->
  (c_alive (clones s c) = true -> N.of_nat (length (c_q (clones s c))) < cmd_queue_len) ->
  let s' := step cf s ARoot in
  rnote s' = rest /\ root_term s' = false /\ root_dropped s' = false /\
  (forall c0, c_alive (clones s' c0) = c_alive (clones s c0) /\ c_att (clones s' c0) = c_att (clones s c0)).
Proof.
  intros Hrt Hrd En Hroom. cbn [step]. rewrite Hrt, Hrd. cbn [orb]. rewrite En. unfold note_step. rewrite En.
  destruct (c_alive (clones s c)) eqn:Ea; cbn [negb].
  - specialize (Hroom eq_refl). apply N.ltb_lt in Hroom. rewrite Hroom. des_st s. cbn in *.
    split; [reflexivity|split; [exact Hrt|split; [exact Hrd|]]].
    intros c0. destruct (N.eq_dec c0 c) as [->|Hn]; [rewrite fupd_eq; cbn; split; reflexivity|rewrite fupd_neq by exact Hn; split; reflexivity].
  - des_st s. cbn in *. split; [reflexivity|split; [exact Hrt|split; [exact Hrd|]]]. intros c0. split; reflexivity.
Qed.

(* the root is inside notify_clones(Terminate): after as many rounds of "the clone it waits for
   takes one command; the root goes on" as there are sends left, process() has returned
   Err(Terminated) *)
Lemma push_through_spec cf : forall n s, InvTA s -> root_dropped s = false -> root_term s = false ->
  In NFinTerm (rnote s) -> length (rnote s) = n ->
  let s' := push_through cf n s in
  root_term s' = true /\ InvTA s' /\
  (forall c, c_alive (clones s' c) = c_alive (clones s c) /\ c_att (clones s' c) = c_att (clones s c)).
Proof.
  induction n as [|n IH]; intros s HI Hrd Hrt Hin Hlen.
  - destruct (rnote s); [destruct Hin|discriminate Hlen].
  - destruct (rnote s) as [|h rest] eqn:En; [destruct Hin|]. cbn [length] in Hlen. injection Hlen as Hlen.
    cbn [push_through]. unfold unblock. rewrite En. destruct HI as [HA HT].
    destruct h as [c' x|].
    + destruct (clone_step_frame cf s c') as (F1 & F2 & F3 & F4).
      set (s1 := step cf s (ACloneStep c')) in *.
      assert (HI1 : InvTA s1) by (apply invTA_step; split; assumption).
      assert (Hroom : c_alive (clones s1 c') = true -> N.of_nat (length (c_q (clones s1 c'))) < cmd_queue_len).
      { intros Ha1. destruct (F4 c') as [Fa _]. rewrite Fa in Ha1.
        unfold InvT in HT. destruct HT as (_ & H8 & _ & _ & H5).
        assert (Ht : c_term (clones s c') = false).
        { destruct (c_term (clones s c')) eqn:Et; [|reflexivity]. exfalso.
          destruct (H5 Hrd c' Ha1 (or_introl Et)) as [_ Hno]. apply (Hno x). rewrite En. left. reflexivity. }
        unfold s1. rewrite (clone_step_queue cf s c' Ha1 Ht). specialize (H8 c').
        destruct (c_q (clones s c')) as [|y q]; cbn [tl length] in *; unfold cmd_queue_len in *; lia. }
      assert (En1 : rnote s1 = NSend c' x :: rest) by (rewrite F1; exact En).
      assert (Hrt1 : root_term s1 = false) by (rewrite F2; exact Hrt).
      assert (Hrd1 : root_dropped s1 = false) by (rewrite F3; exact Hrd).
      destruct (root_send_progress cf s1 c' x rest Hrt1 Hrd1 En1 Hroom) as (G1 & G2 & G3 & G4).
      set (s2 := step cf s1 ARoot) in *.
      assert (HI2 : InvTA s2) by (apply invTA_step; exact HI1).
      assert (Hin2 : In NFinTerm (rnote s2)) by (rewrite G1; destruct Hin as [D|Hin]; [discriminate D|exact Hin]).
      assert (Hlen2 : length (rnote s2) = n) by (rewrite G1; exact Hlen).
      destruct (IH s2 HI2 G3 G2 Hin2 Hlen2) as (R1 & R2 & R3).
      split; [exact R1|]. split; [exact R2|]. intros c.
      destruct (R3 c) as [R3a R3b]. destruct (G4 c) as [G4a G4b]. destruct (F4 c) as [F4a F4b].
      split; congruence.
    + assert (Hr : rest = []).
      { unfold InvT in HT. destruct HT as (Hok & _). rewrite En in Hok. exact (note_ok_cons_fin _ Hok). }
      subst rest. cbn [length] in Hlen. subst n. cbn [push_through].
      assert (HI' : InvTA (step cf s ARoot)) by (apply invTA_step; split; assumption).
      revert HI'. cbn [step]. rewrite Hrt, Hrd. cbn [orb]. rewrite En. unfold note_step. rewrite En.
      intros HI'. split; [des_st s; reflexivity|]. split; [exact HI'|]. intros c. des_st s. split; reflexivity.
Qed.

(* ... and when the root has already returned, or is gone, nothing it could still do matters *)
Lemma push_through_done cf : forall n s, InvTA s -> root_term s || root_dropped s = true ->
  let s' := push_through cf n s in
  root_term s' = root_term s /\ root_dropped s' = root_dropped s /\ InvTA s' /\
  (forall c, c_alive (clones s' c) = c_alive (clones s c) /\ c_att (clones s' c) = c_att (clones s c)).
Proof.
  induction n as [|n IH]; intros s HI Hg.
  - cbn. split; [reflexivity|split; [reflexivity|split; [exact HI|intros c; split; reflexivity]]].
  - cbn [push_through].
    assert (Hu : root_term (unblock cf s) = root_term s /\ root_dropped (unblock cf s) = root_dropped s /\ InvTA (unblock cf s) /\
      (forall c, c_alive (clones (unblock cf s) c) = c_alive (clones s c) /\ c_att (clones (unblock cf s) c) = c_att (clones s c))).
    { unfold unblock. destruct (rnote s) as [|[c' x|] rest];
        try (split; [reflexivity|split; [reflexivity|split; [exact HI|intros c; split; reflexivity]]]).
      destruct (clone_step_frame cf s c') as (_ & F2 & F3 & F4).
      split; [exact F2|split; [exact F3|split; [apply invTA_step, HI|exact F4]]]. }
    destruct Hu as (U1 & U2 & U3 & U4).
    assert (Hroot : step cf (unblock cf s) ARoot = unblock cf s) by (cbn [step]; rewrite U1, U2, Hg; reflexivity).
    rewrite Hroot.
    assert (Hg' : root_term (unblock cf s) || root_dropped (unblock cf s) = true) by (rewrite U1, U2; exact Hg).
    destruct (IH _ U3 Hg') as (R1 & R2 & R3 & R4).
    split; [congruence|split; [congruence|split; [exact R3|]]].
    intros c. destruct (R4 c), (U4 c). split; congruence.
Qed.

Lemma in_fin_of_existsb r : existsb is_fin r = true -> In NFinTerm r.
Proof.
  intros H. apply existsb_exists in H. destruct H as (x & Hin & Hx). destruct x; [discriminate Hx|exact Hin].
Qed.

(* Terminate reaches every clone, late if need be. On every schedule: a live clone that was
   attached when the root took Terminate off its queue - even if the root is still inside
   notify_clones, waiting for room in some clone's full command queue - or any live clone once
   the root gate has been dropped, gets Err(Terminated) from process(): the clones the root waits
   for take commands off their queues, the root's sends go through, the clone drains its queue. *)
Lemma terminate_reaches_clones cf tr c :
  let s := run cf tr in
  c_alive (clones s c) = true ->
  (term_started s = true /\ c_att (clones s c) = true) \/ root_dropped s = true ->
  c_term (clones (term_settle cf s c) c) = true.
Proof.
  intros s Ha Hc. unfold term_settle. pose proof (invTA_run cf tr) as HI. fold s in HI.
  destruct (root_term s || root_dropped s) eqn:Eg.
  - destruct (push_through_done cf (length (rnote s)) s HI Eg) as (E1 & E2 & [_ HT'] & Hfr).
    set (s' := push_through cf (length (rnote s)) s) in *.
    destruct (Hfr c) as [Fa Fatt].
    apply clone_drain_term; [rewrite Fa; exact Ha| |lia].
    destruct (root_dropped s) eqn:Ed; [left; rewrite E2; reflexivity|].
    rewrite orb_false_r in Eg. destruct Hc as [[_ Hatt]|D]; [|discriminate D].
    unfold InvT in HT'. destruct HT' as (_ & _ & H1 & _).
    rewrite E1 in H1. rewrite <- Fa in Ha. rewrite <- Fatt in Hatt.
    destruct (H1 Eg c Ha Hatt) as [?|?]; [right; right; assumption|right; left; assumption].
  - apply orb_false_iff in Eg. destruct Eg as [Et Ed].
    destruct Hc as [[Hts Hatt]|D]; [|rewrite Ed in D; discriminate D].
    unfold term_started in Hts. rewrite Et in Hts. cbn [orb] in Hts. apply in_fin_of_existsb in Hts.
    destruct (push_through_spec cf (length (rnote s)) s HI Ed Et Hts eq_refl) as (R1 & [_ HT'] & Hfr).
    set (s' := push_through cf (length (rnote s)) s) in *.
    destruct (Hfr c) as [Fa Fatt].
    apply clone_drain_term; [rewrite Fa; exact Ha| |lia].
    unfold InvT in HT'. destruct HT' as (_ & _ & H1 & _).
    rewrite <- Fa in Ha. rewrite <- Fatt in Hatt.
    destruct (H1 R1 c Ha Hatt) as [?|?]; [right; right; assumption|right; left; assumption].
Qed.

(* Terminate is never lost (all schedules): once the root has taken it off its queue, a live
   attached clone has seen it, or has it queued, or is still on the root's list of sends to do;
   once the root's process() has returned Err(Terminated) the third case is over *)
Lemma terminate_never_lost cf tr c :
  let s := run cf tr in
  c_alive (clones s c) = true -> c_att (clones s c) = true -> term_started s = true ->
  c_term (clones s c) = true \/ In FTerm (c_q (clones s c)) \/
  (root_term s = false /\ In (NSend c FTerm) (rnote s)).
Proof.
  intros s Ha Hatt Hts. destruct (invTA_run cf tr) as [_ HT]. fold s in HT.
  unfold InvT in HT. destruct HT as (_ & _ & H1 & H2 & _).
  unfold term_started in Hts. destruct (root_term s) eqn:Et.
  - destruct (H1 eq_refl c Ha Hatt) as [?|?]; [left; assumption|right; left; assumption].
  - cbn [orb] in Hts. apply in_fin_of_existsb in Hts.
    destruct (H2 Hts c Ha Hatt) as [[?|?]|?]; [left; assumption|right; left; assumption|right; right; split; [reflexivity|assumption]].
Qed.

(* a clone's command queue never holds more than COMMAND_QUEUE_LEN commands *)
Lemma clone_queue_bounded cf tr c :
  N.of_nat (length (c_q (clones (run cf tr) c))) <= cmd_queue_len.
Proof. destruct (invTA_run cf tr) as [_ (_ & H8 & _)]. apply H8. Qed.

(* the root's process() waits inside notify_clones only for a LIVE clone whose queue is FULL *)
Lemma root_waits_only_for_full_queue cf tr c x rest :
  let s := run cf tr in
  root_term s = false -> root_dropped s = false -> rnote s = NSend c x :: rest ->
  step cf s ARoot = s ->
  c_alive (clones s c) = true /\ N.of_nat (length (c_q (clones s c))) = cmd_queue_len.
Proof.
  intros s Hrt Hrd En Hstuck. pose proof (clone_queue_bounded cf tr c) as Hb. fold s in Hb.
  destruct (c_alive (clones s c)) eqn:Ea.
  - split; [reflexivity|]. destruct (N.ltb_spec (N.of_nat (length (c_q (clones s c)))) cmd_queue_len) as [Hlt|Hge]; [|lia].
    exfalso. destruct (root_send_progress cf s c x rest Hrt Hrd En (fun _ => Hlt)) as (G1 & _).
    rewrite Hstuck, En in G1. apply (f_equal (@length _)) in G1. cbn in G1. lia.
  - exfalso. assert (Hroom : c_alive (clones s c) = true -> N.of_nat (length (c_q (clones s c))) < cmd_queue_len)
      by (intros D; rewrite Ea in D; discriminate D).
    destruct (root_send_progress cf s c x rest Hrt Hrd En Hroom) as (G1 & _).
    rewrite Hstuck, En in G1. apply (f_equal (@length _)) in G1. cbn in G1. lia.
Qed.

(* ---- why [term_settle] lets the clone the root waits for run: head-of-line blocking.
   Clone 1 has 16 commands pending and does not run process(); clone 2 was attached after it.
   The root has taken Terminate off its queue and waits for room in clone 1's queue. Whatever
   the root and clone 2 do from here - clone 2 has drained its queue - clone 2 does not get
   Terminated: not before clone 1 takes a command off its queue or is dropped. *)
Lemma run_from_fix cf s tr : (forall a, In a tr -> step cf s a = s) -> run_from cf s tr = s.
Proof.
  unfold run_from. induction tr as [|a tr IH]; cbn [fold_left]; intros H; [reflexivity|].
  rewrite (H a (or_introl eq_refl)). apply IH. intros b Hb. apply H. right. exact Hb.
Qed.

Definition hol_churn : list action := [ASendSub 1; ARoot; ARoot; ARoot; APick 1; ASendUnsub 1; ARoot; ARoot; ARoot].
Definition hol_witness : list action :=
  [AClone; ARoot; AClone; ARoot] ++ hol_churn ++ hol_churn ++ hol_churn ++ hol_churn ++ hol_churn ++ hol_churn ++ hol_churn ++ hol_churn
  ++ [ASendTerm; ARoot; ARoot; ARoot] ++ repeat (ACloneStep 2) 16.

Lemma terminate_head_of_line :
  exists cf tr, let s := run cf tr in
    term_started s = true /\ c_alive (clones s 2) = true /\ c_att (clones s 2) = true /\ c_q (clones s 2) = [] /\
    length (c_q (clones s 1)) = 16%nat /\
    forall tr2, (forall a, In a tr2 -> a = ARoot \/ a = ACloneStep 2) ->
      c_term (clones (run_from cf s tr2) 2) = false.
Proof.
  exists (MkCfg 2 false true), hol_witness. cbv zeta.
  split; [vm_compute; reflexivity|]. split; [vm_compute; reflexivity|]. split; [vm_compute; reflexivity|].
  split; [vm_compute; reflexivity|]. split; [vm_compute; reflexivity|].
  intros tr2 H2. rewrite run_from_fix; [vm_compute; reflexivity|].
  intros a Ha. destruct (H2 a Ha) as [->| ->]; vm_compute; reflexivity.
Qed.

(* ------- invariant C (cf_follow = false): a connected link is in the maps *)

Definition is_susp_for (x : N) (c : cmd) : bool :=
  match c with CSusp y _ => N.eqb x y | _ => false end.

Lemma sp_app x q c : susp_pending x (q ++ [c]) = susp_pending x q || is_susp_for x c.
Proof. unfold susp_pending. rewrite existsb_app. cbn. rewrite orb_false_r. reflexivity. Qed.

Lemma sp_cons x c q : susp_pending x (c :: q) = is_susp_for x c || susp_pending x q.
Proof. reflexivity. Qed.

Definition InvCP (u su : list entry) (ns : N) (rq : list cmd) (lk : N -> lstate) : Prop :=
  (forall x, In (CUnsub x) rq -> forall l b, lk l <> LConn x b) /\
  (forall x, In (CUnsub x) rq -> x < ns) /\
  (forall x b, In (CSusp x b) rq -> x < ns) /\
  (forall l l' x b b', lk l = LConn x b -> lk l' = LConn x b' -> l = l') /\
  (forall l x b, lk l = LConn x b -> In (x, l) (u ++ su)) /\
  (forall l x b, lk l = LConn x b -> susp_pending x rq = false -> In (x, l) (if b then su else u)) /\
  (forall pre post x b0, rq = pre ++ CSusp x b0 :: post -> susp_pending x post = false ->
     forall l b, lk l = LConn x b -> b = b0).

Definition InvC (s : st) : Prop := InvCP (upd s) (sus s) (nslot s) (rootq s) (vlinks s).

Lemma invC_ext u su ns rq lk lk' : (forall l, lk' l = lk l) ->
  InvCP u su ns rq lk -> InvCP u su ns rq lk'.
Proof.
  intros E (C0 & Cf & Cf2 & Cu & C1 & C2 & C3). repeat split; try assumption.
  - intros x Hin l b. rewrite E. exact (C0 x Hin l b).
  - intros l l' x b b'. rewrite !E. apply Cu.
  - intros l x b. rewrite E. apply C1.
  - intros l x b. rewrite E. apply C2.
  - intros pre post x b0 E1 Hp l b. rewrite E. exact (C3 pre post x b0 E1 Hp l b).
Qed.

Lemma invC_view_set u su ns rq lk l v :
  InvCP u su ns rq (fupd (fun j => lview (lk j)) l (lview v)) ->
  InvCP u su ns rq (fun k => lview (fupd lk l v k)).
Proof. apply invC_ext. intros k. apply lview_fupd. Qed.

Lemma invC_ns_mono u su ns ns' rq lk : ns <= ns' -> InvCP u su ns rq lk -> InvCP u su ns' rq lk.
Proof.
  intros Hle (C0 & Cf & Cf2 & Cu & C1 & C2 & C3). repeat split; try assumption.
  - intros x Hin. specialize (Cf x Hin). lia.
  - intros x b Hin. specialize (Cf2 x b Hin). lia.
Qed.

Lemma sp_map_kill x l q : susp_pending x (map (kill_sub l) q) = susp_pending x q.
Proof.
  unfold susp_pending. induction q as [|c q IH]; [reflexivity|]. cbn [map existsb]. rewrite IH. f_equal.
  destruct c; cbn; try reflexivity. destruct (l0 =? l); reflexivity.
Qed.

(* a connect() given up before the gate got to it: Subscribe l becomes a Subscribe nobody waits
   for; the link goes from pending to idle *)
Lemma invC_kill u su ns rq lk lk' l :
  (forall l' x b, lk' l' = LConn x b <-> lk l' = LConn x b) ->
  InvCP u su ns rq lk -> InvCP u su ns (map (kill_sub l) rq) lk'.
Proof.
  intros Hlk (C0 & Cf & Cf2 & Cu & C1 & C2 & C3). repeat split.
  - intros x Hin l' b E. apply in_map_kill in Hin. destruct Hin as [D|[Hin _]]; [discriminate D|].
    apply Hlk in E. exact (C0 x Hin l' b E).
  - intros x Hin. apply in_map_kill in Hin. destruct Hin as [D|[Hin _]]; [discriminate D|exact (Cf x Hin)].
  - intros x b Hin. apply in_map_kill in Hin. destruct Hin as [D|[Hin _]]; [discriminate D|exact (Cf2 x b Hin)].
  - intros l1 l2 x b b' E1 E2. apply Hlk in E1. apply Hlk in E2. eapply Cu; eassumption.
  - intros l' x b E. apply Hlk in E. eapply C1, E.
  - intros l' x b E Hp. apply Hlk in E. rewrite sp_map_kill in Hp. exact (C2 l' x b E Hp).
  - intros pre post x b0 E Hp l' b El. apply Hlk in El.
    destruct (map_kill_split l rq pre post (CSusp x b0) ltac:(discriminate) E) as (pre0 & post0 & E0 & -> & ->).
    rewrite sp_map_kill in Hp. exact (C3 _ _ _ _ E0 Hp l' b El).
Qed.

Lemma lview_pick lk l xa k : lk l = LAnsw xa -> lview (fupd lk l (LConn xa false) k) = lview (lk k).
Proof.
  intros E. unfold fupd. destruct (N.eqb_spec k l) as [->|_]; [rewrite E|]; reflexivity.
Qed.

(* appending a command that is neither Unsubscribe nor Suspension; links may change at l
   between states that are not LConn *)
Lemma invC_push_other u su ns rq lk lk' c :
  (forall x, c <> CUnsub x) -> (forall x b, c <> CSusp x b) ->
  (forall l x b, lk' l = LConn x b <-> lk l = LConn x b) ->
  InvCP u su ns rq lk -> InvCP u su ns (rq ++ [c]) lk'.
Proof.
  intros Hc1 Hc2 Hlk (C0 & Cf & Cf2 & Cu & C1 & C2 & C3).
  assert (Hsp : forall x, susp_pending x (rq ++ [c]) = susp_pending x rq).
  { intros x. rewrite sp_app. destruct c; cbn; try apply orb_false_r. exfalso. eapply Hc2. reflexivity. }
  repeat split.
  - intros x Hin l b E. apply in_app_or in Hin. destruct Hin as [Hin|[E0|[]]]; [|exact (Hc1 _ E0)].
    apply Hlk in E. exact (C0 x Hin l b E).
  - intros x Hin. apply in_app_or in Hin. destruct Hin as [Hin|[E0|[]]]; [exact (Cf x Hin)|destruct (Hc1 _ E0)].
  - intros x b Hin. apply in_app_or in Hin. destruct Hin as [Hin|[E0|[]]]; [exact (Cf2 x b Hin)|destruct (Hc2 _ _ E0)].
  - intros l l' x b b' E1 E2. apply Hlk in E1. apply Hlk in E2. eapply Cu; eassumption.
  - intros l x b E. apply Hlk in E. eapply C1, E.
  - intros l x b E Hp. apply Hlk in E. rewrite Hsp in Hp. exact (C2 l x b E Hp).
  - intros pre post x b0 E Hp l b El. apply Hlk in El.
    destruct (app_single_split _ _ _ _ _ E) as [(post' & -> & E')|(_ & _ & E0)]; [|destruct (Hc2 _ _ (eq_sym E0))].
    rewrite sp_app in Hp. apply orb_false_iff in Hp. destruct Hp as [Hp _].
    exact (C3 _ _ _ _ E' Hp l b El).
Qed.

Lemma invC_send_susp u su ns rq lk l x b0 b : lk l = LConn x b0 -> (forall y bb, lk y = LConn x bb -> x < ns) ->
  InvCP u su ns rq lk -> InvCP u su ns (rq ++ [CSusp x b]) (fupd lk l (LConn x b)).
Proof.
  intros Hl HL3 (C0 & Cf & Cf2 & Cu & C1 & C2 & C3).
  assert (Hother : forall l' y bb, fupd lk l (LConn x b) l' = LConn y bb -> l' <> l -> lk l' = LConn y bb /\ y <> x).
  { intros l' y bb E Hn. rewrite fupd_neq in E by exact Hn. split; [exact E|].
    intros ->. apply Hn. eapply Cu; eassumption. }
  repeat split.
  - intros y Hin l' bb E. apply in_app_or in Hin. destruct Hin as [Hin|[E0|[]]]; [|discriminate E0].
    destruct (N.eq_dec l' l) as [->|Hn].
    + rewrite fupd_eq in E. inversion E; subst. exact (C0 _ Hin _ _ Hl).
    + rewrite fupd_neq in E by exact Hn. exact (C0 _ Hin _ _ E).
  - intros y Hin. apply in_app_or in Hin. destruct Hin as [Hin|[E0|[]]]; [exact (Cf y Hin)|discriminate E0].
  - intros y bb Hin. apply in_app_or in Hin. destruct Hin as [Hin|[E0|[]]]; [exact (Cf2 y bb Hin)|].
    inversion E0; subst. eapply HL3, Hl.
  - intros l1 l2 y b1 b2 E1 E2.
    destruct (N.eq_dec l1 l) as [->|H1]; destruct (N.eq_dec l2 l) as [->|H2]; try reflexivity.
    + rewrite fupd_eq in E1. inversion E1; subst. destruct (Hother _ _ _ E2 H2) as [_ Hne]. contradiction.
    + rewrite fupd_eq in E2. inversion E2; subst. destruct (Hother _ _ _ E1 H1) as [_ Hne]. contradiction.
    + rewrite fupd_neq in E1, E2 by assumption. eapply Cu; eassumption.
  - intros l' y bb E. destruct (N.eq_dec l' l) as [->|Hn].
    + rewrite fupd_eq in E. inversion E; subst. eapply C1, Hl.
    + rewrite fupd_neq in E by exact Hn. eapply C1, E.
  - intros l' y bb E Hp. rewrite sp_app in Hp. apply orb_false_iff in Hp. destruct Hp as [Hp Hp2].
    destruct (N.eq_dec l' l) as [->|Hn].
    + rewrite fupd_eq in E. inversion E; subst. cbn in Hp2. rewrite N.eqb_refl in Hp2. discriminate.
    + rewrite fupd_neq in E by exact Hn. exact (C2 _ _ _ E Hp).
  - intros pre post y b1 E Hp l' bb El.
    destruct (app_single_split _ _ _ _ _ E) as [(post' & -> & E')|(_ & _ & E0)].
    + rewrite sp_app in Hp. apply orb_false_iff in Hp. destruct Hp as [Hp Hp2].
      destruct (N.eq_dec l' l) as [->|Hn].
      * rewrite fupd_eq in El. inversion El; subst. cbn in Hp2. rewrite N.eqb_refl in Hp2. discriminate.
      * rewrite fupd_neq in El by exact Hn. exact (C3 _ _ _ _ E' Hp _ _ El).
    + inversion E0; subst. destruct (N.eq_dec l' l) as [->|Hn].
      * rewrite fupd_eq in El. inversion El; subst. reflexivity.
      * destruct (Hother _ _ _ El Hn) as [_ Hne]. contradiction.
Qed.

Lemma invC_send_unsub u su ns rq lk l x b : lk l = LConn x b -> x < ns ->
  InvCP u su ns rq lk -> InvCP u su ns (rq ++ [CUnsub x]) (fupd lk l LIdle).
Proof.
  intros Hl Hx (C0 & Cf & Cf2 & Cu & C1 & C2 & C3).
  assert (Hold : forall l' y bb, fupd lk l LIdle l' = LConn y bb -> l' <> l /\ lk l' = LConn y bb).
  { intros l' y bb E. destruct (N.eq_dec l' l) as [->|Hn]; [rewrite fupd_eq in E; discriminate E|].
    rewrite fupd_neq in E by exact Hn. tauto. }
  repeat split.
  - intros y Hin l' bb E. destruct (Hold _ _ _ E) as [Hn E']. apply in_app_or in Hin. destruct Hin as [Hin|[E0|[]]].
    + exact (C0 _ Hin _ _ E').
    + inversion E0; subst. apply Hn. eapply Cu; eassumption.
  - intros y Hin. apply in_app_or in Hin. destruct Hin as [Hin|[E0|[]]]; [exact (Cf y Hin)|inversion E0; subst; exact Hx].
  - intros y bb Hin. apply in_app_or in Hin. destruct Hin as [Hin|[E0|[]]]; [exact (Cf2 y bb Hin)|discriminate E0].
  - intros l1 l2 y b1 b2 E1 E2. destruct (Hold _ _ _ E1) as [_ E1']. destruct (Hold _ _ _ E2) as [_ E2']. eapply Cu; eassumption.
  - intros l' y bb E. destruct (Hold _ _ _ E) as [_ E']. eapply C1, E'.
  - intros l' y bb E Hp. destruct (Hold _ _ _ E) as [_ E']. rewrite sp_app in Hp. cbn in Hp. rewrite orb_false_r in Hp.
    exact (C2 _ _ _ E' Hp).
  - intros pre post y b1 E Hp l' bb El. destruct (Hold _ _ _ El) as [_ El'].
    destruct (app_single_split _ _ _ _ _ E) as [(post' & -> & E')|(_ & _ & E0)]; [|discriminate E0].
    rewrite sp_app in Hp. apply orb_false_iff in Hp. destruct Hp as [Hp _].
    exact (C3 _ _ _ _ E' Hp _ _ El').
Qed.

(* the root pops a command that is neither Subscribe, Unsubscribe nor Suspension *)
Lemma invC_pop_misc u su ns c q lk :
  (forall x, c <> CUnsub x) -> (forall x b, c <> CSusp x b) ->
  InvCP u su ns (c :: q) lk -> InvCP u su ns q lk.
Proof.
  intros Hc1 Hc2 (C0 & Cf & Cf2 & Cu & C1 & C2 & C3). repeat split; try assumption.
  - intros x Hin. apply C0. right. exact Hin.
  - intros x Hin. apply Cf. right. exact Hin.
  - intros x b Hin. apply (Cf2 x b). right. exact Hin.
  - intros l x b E Hp. apply (C2 l x b E). rewrite sp_cons, Hp.
    destruct c; cbn; try reflexivity. destruct (N.eqb_spec x s); [|reflexivity]. subst. exfalso. eapply Hc2. reflexivity.
  - intros pre post x b0 E. apply (C3 (c :: pre) post x b0). rewrite E. reflexivity.
Qed.

Lemma invC_pop_sub u su ns l q lk : InvLP u su ns (CSub l :: q) lk ->
  InvCP u su ns (CSub l :: q) lk ->
  InvCP (m_ins (ns, l) u) su (ns + 1) q (fupd lk l (LConn ns false)).
Proof.
  intros (K1 & K2 & K3 & L2 & L3 & Q1 & Q2 & Q3) (C0 & Cf & Cf2 & Cu & C1 & C2 & C3).
  assert (Hold : forall l' y bb, fupd lk l (LConn ns false) l' = LConn y bb ->
                   (l' = l /\ y = ns /\ bb = false) \/ (l' <> l /\ lk l' = LConn y bb /\ y < ns)).
  { intros l' y bb E. destruct (N.eq_dec l' l) as [->|Hn].
    - rewrite fupd_eq in E. inversion E; subst. left. auto.
    - rewrite fupd_neq in E by exact Hn. right. repeat split; [exact Hn|exact E|eapply L3, E]. }
  repeat split.
  - intros x Hin l' bb E. assert (x < ns) by (apply Cf; right; exact Hin).
    destruct (Hold _ _ _ E) as [(_ & -> & _)|(_ & E' & _)]; [lia|].
    exact (C0 x (or_intror Hin) _ _ E').
  - intros x Hin. assert (x < ns) by (apply Cf; right; exact Hin). lia.
  - intros x b Hin. assert (x < ns) by (apply (Cf2 x b); right; exact Hin). lia.
  - intros l1 l2 y b1 b2 E1 E2.
    destruct (Hold _ _ _ E1) as [(-> & -> & _)|(_ & E1' & Hy1)]; destruct (Hold _ _ _ E2) as [(-> & E3 & _)|(_ & E2' & Hy2)];
      try reflexivity; try lia. eapply Cu; eassumption.
  - intros l' y bb E. apply in_or_app.
    destruct (Hold _ _ _ E) as [(-> & -> & _)|(_ & E' & Hy)].
    + left. apply In_m_ins. right. reflexivity.
    + specialize (C1 _ _ _ E'). apply in_app_or in C1. destruct C1 as [Hu|Hs]; [left|right; exact Hs].
      apply In_m_ins. left. split; [exact Hu|cbn; lia].
  - intros l' y bb E Hp.
    destruct (Hold _ _ _ E) as [(-> & -> & ->)|(_ & E' & Hy)].
    + apply In_m_ins. right. reflexivity.
    + assert (H : In (y, l') (if bb then su else u)) by (apply (C2 _ _ _ E'); rewrite sp_cons; cbn; exact Hp).
      destruct bb; [exact H|]. apply In_m_ins. left. split; [exact H|cbn; lia].
  - intros pre post x b0 E Hp l' bb El.
    assert (x < ns) by (apply (Cf2 x b0); right; rewrite E; apply in_or_app; right; left; reflexivity).
    destruct (Hold _ _ _ El) as [(_ & -> & _)|(_ & El' & _)]; [lia|].
    eapply (C3 (CSub l :: pre) post x b0); [rewrite E; reflexivity|exact Hp|exact El'].
Qed.

Lemma invC_pop_unsub u su ns x q lk :
  InvCP u su ns (CUnsub x :: q) lk -> InvCP (m_del x u) (m_del x su) ns q lk.
Proof.
  intros (C0 & Cf & Cf2 & Cu & C1 & C2 & C3).
  assert (Hne : forall l y b, lk l = LConn y b -> y <> x).
  { intros l y b E ->. exact (C0 x (or_introl eq_refl) l b E). }
  repeat split; try assumption.
  - intros y Hin. apply C0. right. exact Hin.
  - intros y Hin. apply Cf. right. exact Hin.
  - intros y b Hin. apply (Cf2 y b). right. exact Hin.
  - intros l y b E. specialize (C1 _ _ _ E). apply in_app_or in C1. apply in_or_app.
    destruct C1 as [H|H]; [left|right]; apply In_m_del; (split; [exact H|cbn; eapply Hne, E]).
  - intros l y b E Hp. assert (H : In (y, l) (if b then su else u)) by (apply (C2 _ _ _ E); rewrite sp_cons; cbn; exact Hp).
    destruct b; apply In_m_del; (split; [exact H|cbn; eapply Hne, E]).
  - intros pre post y b0 E. apply (C3 (CUnsub x :: pre) post y b0). rewrite E. reflexivity.
Qed.

Lemma invC_pop_susp u su ns x b0 q lk : InvLP u su ns (CSusp x b0 :: q) lk ->
  InvCP u su ns (CSusp x b0 :: q) lk ->
  let r := root_handle (MkSt u su ns q false false 0 (fun _ => MkClone false false false []) (fun _ => PIdle 0) lk
                          (fun _ => MkChan [] true) [] [] [] [] 0 0) (CSusp x b0) in
  InvCP (upd r) (sus r) ns q lk.
Proof.
  intros (K1 & _) (C0 & Cf & Cf2 & Cu & C1 & C2 & C3) r.
  (* where the entry of key x ends up, and that other keys are untouched *)
  assert (Hmove : forall l b, lk l = LConn x b -> In (x, l) (if b0 then sus r else upd r)).
  { intros l b E. specialize (C1 _ _ _ E). subst r. destruct b0; cbn.
    - destruct (m_find x u) as [e|] eqn:Ef; cbn.
      + apply m_find_some in Ef. destruct Ef as [He Hk].
        assert (e = (x, l)) by (apply K1; [apply in_or_app; left; exact He|exact C1|exact Hk]). subst e.
        apply In_m_ins. right. reflexivity.
      + apply in_app_or in C1. destruct C1 as [H|H]; [|exact H].
        exfalso. exact (m_find_none _ _ Ef _ H eq_refl).
    - destruct (m_find x su) as [e|] eqn:Ef; cbn.
      + apply m_find_some in Ef. destruct Ef as [He Hk].
        assert (e = (x, l)) by (apply K1; [apply in_or_app; right; exact He|exact C1|exact Hk]). subst e.
        apply In_m_ins. right. reflexivity.
      + apply in_app_or in C1. destruct C1 as [H|H]; [exact H|].
        exfalso. exact (m_find_none _ _ Ef _ H eq_refl). }
  assert (Hkeep : forall y l, y <> x -> (In (y, l) u -> In (y, l) (upd r)) /\ (In (y, l) su -> In (y, l) (sus r))).
  { intros y l Hy. subst r. destruct b0; cbn.
    - destruct (m_find x u) as [e|] eqn:Ef; cbn; [|tauto]. apply m_find_some in Ef. destruct Ef as [_ Hk]. split; intros H.
      + apply In_m_del. split; [exact H|exact Hy].
      + apply In_m_ins. left. split; [exact H|cbn; congruence].
    - destruct (m_find x su) as [e|] eqn:Ef; cbn; [|tauto]. apply m_find_some in Ef. destruct Ef as [_ Hk]. split; intros H.
      + apply In_m_ins. left. split; [exact H|cbn; congruence].
      + apply In_m_del. split; [exact H|exact Hy]. }
  repeat split; try assumption.
  - intros y Hin. apply C0. right. exact Hin.
  - intros y Hin. apply Cf. right. exact Hin.
  - intros y b Hin. apply (Cf2 y b). right. exact Hin.
  - intros l y b E. apply in_or_app. destruct (N.eq_dec y x) as [->|Hy].
    + specialize (Hmove _ _ E). destruct b0; [right|left]; exact Hmove.
    + specialize (C1 _ _ _ E). apply in_app_or in C1. destruct (Hkeep y l Hy) as [H1 H2]. tauto.
  - intros l y b E Hp. destruct (N.eq_dec y x) as [->|Hy].
    + assert (b = b0) by (apply (C3 [] q x b0 eq_refl Hp l b E)). subst b. exact (Hmove _ _ E).
    + assert (H : In (y, l) (if b then su else u)).
      { apply (C2 _ _ _ E). rewrite sp_cons. cbn. destruct (N.eqb_spec y x); [contradiction|exact Hp]. }
      destruct (Hkeep y l Hy) as [H1 H2]. destruct b; auto.
  - intros pre post y b1 E. apply (C3 (CSusp x b0 :: pre) post y b1). rewrite E. reflexivity.
Qed.

Lemma invC_root_handle s c q : rootq s = c :: q -> InvL s -> InvC s -> InvC (root_handle (set_rootq q s) c).
Proof.
  unfold InvL, InvC, vlinks. intros E HL H. des_st s. cbn in *. subst rq.
  destruct c as [l|x|x b0|c|c| |ld].
  - cbn. apply (invC_view_set _ _ _ _ _ _ (LAnsw ns)). apply invC_pop_sub; assumption.
  - cbn. apply invC_pop_unsub, H.
  - pose proof (invC_pop_susp u su ns x b0 q _ HL H) as H'. cbn zeta in H'.
    destruct b0; cbn in *.
    + destruct (m_find x u); cbn in *; exact H'.
    + destruct (m_find x su); cbn in *; exact H'.
  - cbn. eapply invC_pop_misc; [| |exact H]; discriminate.
  - cbn. eapply invC_pop_misc; [| |exact H]; discriminate.
  - cbn. eapply invC_pop_misc; [| |exact H]; discriminate.
  - cbn.
    assert (Hfresh : forall e, In e u -> fst e <> ns).
    { destruct HL as (_ & K2 & _). intros e He E. specialize (K2 e (in_or_app _ _ _ (or_introl He))). lia. }
    rewrite (m_del_ins_fresh ns ld u Hfresh). apply (invC_ns_mono _ _ ns); [lia|].
    eapply invC_pop_misc; [| |exact H]; discriminate.
Qed.

Lemma invC_step cf s a : cf_follow cf = false -> cf_guard cf = true -> InvL s -> InvC s -> InvC (step cf s a).
Proof.
  intros Hcf Hg HL H. destruct a; cbn [step]; try exact H.
  - destruct (links s l) eqn:El; try exact H. destruct (root_dropped s); [exact H|].
    unfold InvC, vlinks in *. des_st s; cbn in *. eapply invC_push_other; [discriminate|discriminate| |exact H].
    intros l' x b. rewrite lview_fupd. cbn [lview].
    destruct (N.eq_dec l' l) as [->|Hn]; [rewrite fupd_eq, El; split; discriminate|rewrite fupd_neq by exact Hn; tauto].
  - destruct (links s l) as [| |x b0|xa] eqn:El; try exact H.
    assert (H' : InvC (set_rootq (rootq s ++ [CUnsub x]) (set_links (fupd (links s) l LIdle) s))).
    { unfold InvC, InvL, vlinks in *. des_st s; cbn in *. apply (invC_view_set _ _ _ _ _ _ LIdle).
      eapply invC_send_unsub; [rewrite El; reflexivity| |exact H].
      destruct HL as (_ & _ & _ & _ & L3 & _). eapply (L3 l x b0). rewrite El. reflexivity. }
    destruct (is_direct l); exact H'.
  - destruct (links s l) as [| |x b0|xa] eqn:El; try exact H. destruct (Bool.eqb b b0); [exact H|].
    unfold InvC, InvL, vlinks in *. des_st s; cbn in *. apply (invC_view_set _ _ _ _ _ _ (LConn x b)).
    eapply invC_send_susp; [rewrite El; reflexivity| |exact H].
    destruct HL as (_ & _ & _ & _ & L3 & _). intros y bb E. eapply L3, E.
  - destruct (links s l) as [| |x b0|xa]; try exact H. destruct (is_direct l); [exact H|].
    destruct (ch_q (chans s x)) as [|[p n] q]; exact H.
  - unfold InvC in *. des_st s; cbn in *. eapply invC_push_other; [discriminate|discriminate| |exact H]. tauto.
  - destruct (root_term s || root_dropped s); [exact H|].
    destruct (rnote s) as [|nh nt] eqn:En; [|note_shape s; exact H].
    destruct (rootq s) as [|c q] eqn:E; [exact H|]. apply invC_root_handle; assumption.
  - destruct (pub_idle s 0); exact H.
  - unfold InvC in *. des_st s; cbn in *. eapply invC_push_other; [discriminate|discriminate| |exact H]. tauto.
  - destruct (c_alive (clones s c) && negb (c_term (clones s c))); [|exact H].
    destruct (c_q (clones s c)) as [|x q].
    + destruct (root_dropped s); exact H.
    + destruct x as [e|y|]; cbn [clone_handle]; rewrite ?Hcf; exact H.
  - destruct (c_alive (clones s c) && pub_idle s c && negb (c =? 0)); [|exact H].
    unfold InvC in *. des_st s; cbn in *. eapply invC_push_other; [discriminate|discriminate| |exact H]. tauto.
  - destruct (pubs s p) as [n|n snap rest sent]; [destruct (pub_alive s p)|]; exact H.
  - destruct (pubs s p) as [n|n snap [|[y l] rest] sent]; try exact H.
    destruct (negb (ch_rx (chans s y))); [exact H|]. destruct (is_direct l); [exact H|].
    destruct (N.of_nat (length (ch_q (chans s y))) <? cf_cap cf); exact H.
  - destruct (pubs s p) as [n|n snap [|e rest] sent]; exact H.
  - (* APick: the gate's view does not change *)
    destruct (links s l) as [| |x b0|xa] eqn:El; try exact H.
    unfold InvC, vlinks in *. des_st s; cbn in *. eapply invC_ext; [|exact H].
    intros k. apply lview_pick, El.
  - (* AAbandon *)
    destruct (links s l) as [| |x b0|xa] eqn:El; try exact H.
    + unfold InvC, vlinks in *. des_st s; cbn in *. eapply invC_kill; [|exact H].
      intros l' x b. rewrite lview_fupd. cbn [lview].
      destruct (N.eq_dec l' l) as [->|Hn]; [rewrite fupd_eq, El; split; discriminate|rewrite fupd_neq by exact Hn; tauto].
    + rewrite Hg.
      assert (H' : InvC (set_rootq (rootq s ++ [CUnsub xa]) (set_links (fupd (links s) l LIdle) s))).
      { unfold InvC, InvL, vlinks in *. des_st s; cbn in *. apply (invC_view_set _ _ _ _ _ _ LIdle).
        eapply invC_send_unsub; [rewrite El; reflexivity| |exact H].
        destruct HL as (_ & _ & _ & _ & L3 & _). eapply (L3 l xa false). rewrite El. reflexivity. }
      destruct (is_direct l); exact H'.
Qed.

Lemma invC_init : InvC init.
Proof.
  unfold InvC, InvCP. cbn. repeat split; intros; try contradiction; try discriminate;
    match goal with E : [] = ?pre ++ _ :: _ |- _ => destruct pre; discriminate E end.
Qed.

Lemma invLC_run cf tr : cf_follow cf = false -> cf_guard cf = true -> InvL (run cf tr) /\ InvC (run cf tr).
Proof.
  intros Hcf Hg. unfold run. apply (run_from_inv (fun s => InvL s /\ InvC s)).
  - intros s a [HL HC]. split; [apply invL_step|apply invC_step]; assumption.
  - split; [exact invL_init|exact invC_init].
Qed.

(* a link that is connected and not suspended (in its own eyes, with no suspension request of
   its own still travelling) is in `updates`: the next snapshot of ANY publisher contains it *)
Lemma active_link_in_updates cf tr l x : cf_follow cf = false -> cf_guard cf = true ->
  link_active (run cf tr) l x -> In (x, l) (upd (run cf tr)).
Proof.
  intros Hcf Hg [E Hp]. destruct (invLC_run cf tr Hcf Hg) as [_ (_ & _ & _ & _ & _ & C2 & _)].
  apply (C2 l x false); [unfold vlinks; rewrite E; reflexivity|exact Hp].
Qed.

(* ---------------- composite: exactly once while connected (trace level) *)

Lemma run_app cf tr1 tr2 : run cf (tr1 ++ tr2) = run_from cf (run cf tr1) tr2.
Proof. unfold run, run_from. apply fold_left_app. Qed.

Definition Track (p n : N) (e : entry) (s : st) : Prop :=
  (exists snap rest sent, pubs s p = PSending n snap rest sent /\ In e snap) \/
  (exists snap b, In (p, n, snap, b) (completed s) /\ In e snap).

Lemma track_step cf p n e s a : Track p n e s -> Track p n e (step cf s a).
Proof.
  intros H. destruct (pub_action a) eqn:Ha.
  2:{ destruct (step_frame cf s a Ha) as (Ep & _ & Ec). unfold Track. rewrite Ep, Ec. exact H. }
  destruct a as [| | | | | | | | | |q|q|q|xd|la|la]; try discriminate Ha; clear Ha.
  - destruct (step_begin_spec cf s q) as [E|(m & Eq & _ & Ep' & _ & Ec)]; [rewrite E; exact H|].
    unfold Track. rewrite Ep', Ec. destruct H as [(snap & rest & sent & E1 & E2)|H]; [left|right; exact H].
    destruct (N.eq_dec p q) as [->|Hn]; [rewrite Eq in E1; discriminate E1|].
    rewrite fupd_neq by exact Hn. eauto.
  - destruct (step_deliver_spec cf s q) as [E|(m & snap' & y & l & rest' & sent' & Eq & Ec & Hcase)]; [rewrite E; exact H|].
    unfold Track. rewrite Ec. destruct H as [(snap & rest & sent & E1 & E2)|H]; [left|right; exact H].
    destruct (N.eq_dec p q) as [->|Hn].
    + rewrite Eq in E1. inversion E1; subst.
      destruct Hcase as [(Ep' & _)|(Ep' & _)]; rewrite Ep', fupd_eq; eauto.
    + destruct Hcase as [(Ep' & _)|(Ep' & _)]; rewrite Ep', fupd_neq by exact Hn; eauto.
  - destruct (step_end_spec cf s q) as [E|(m & snap' & sent' & Eq & Ep' & _ & Ec)]; [rewrite E; exact H|].
    unfold Track. rewrite Ep', Ec. destruct H as [(snap & rest & sent & E1 & E2)|(snap & b & E1 & E2)].
    + destruct (N.eq_dec p q) as [->|Hn].
      * rewrite Eq in E1. inversion E1; subst. right. eexists; eexists; split; [left; reflexivity|exact E2].
      * left. rewrite fupd_neq by exact Hn. eauto.
    + right. exists snap, b. split; [right; exact E1|exact E2].
Qed.

(* If link l is connected through slot x and unsuspended when publisher p starts update n,
   then - whatever else happens - once that update_data call has returned, n has been handed
   to l, unless l itself dropped its receiver (disconnected) in the meantime. *)
Lemma exactly_once_while_connected cf tr1 tr2 l x p n : cf_follow cf = false -> cf_guard cf = true ->
  link_active (run cf tr1) l x ->
  pubs (run cf tr1) p = PIdle n -> pub_alive (run cf tr1) p = true ->
  let s2 := run cf (tr1 ++ ABegin p :: tr2) in
  (exists m, pubs s2 p = PIdle m) ->
  In (x, l, p, n) (delivered s2) \/ ch_rx (chans s2 x) = false.
Proof.
  intros Hcf Hg Hact Hp Ha s2 [m Hm].
  pose proof (active_link_in_updates cf tr1 l x Hcf Hg Hact) as Hin.
  assert (Ht : Track p n (x, l) s2).
  { subst s2. rewrite run_app.
    change (run_from cf (run cf tr1) (ABegin p :: tr2)) with (run_from cf (step cf (run cf tr1) (ABegin p)) tr2).
    apply run_from_inv; [intros s a; apply track_step|].
    left. exists (upd (run cf tr1)), (upd (run cf tr1)), false. split; [|exact Hin].
    cbn [step]. rewrite Hp, Ha. set (s1 := run cf tr1). des_st s1. cbn. apply fupd_eq. }
  destruct Ht as [(snap & rest & sent & E1 & _)|(snap & b & E1 & E2)]; [rewrite Hm in E1; discriminate E1|].
  exact (finished_update_reached_snapshot cf _ p n snap b (x, l) E1 E2).
Qed.

(* ------------------------------------------------------------- GateMetrics *)

(* what a step does to the counters and to the log of finished updates *)
Lemma step_m_other cf s a : ends_now s a = false ->
  m_upd (step cf s a) = m_upd s /\ m_drop (step cf s a) = m_drop s /\ completed (step cf s a) = completed s.
Proof.
  intros Ha. destruct a; cbn [step].
  - destruct (links s l); [destruct (root_dropped s)|..]; des_st s; cbn; repeat split; reflexivity.
  - destruct (links s l); [| |destruct (is_direct l)|]; des_st s; cbn; repeat split; reflexivity.
  - destruct (links s l) as [| |x b0|xa]; [| |destruct (Bool.eqb b b0)|]; des_st s; cbn; repeat split; reflexivity.
  - destruct (links s l) as [| |x b0|xa]; [| |destruct (is_direct l); [|destruct (ch_q (chans s x)) as [|[p n] q]]|];
      des_st s; cbn; repeat split; reflexivity.
  - des_st s; cbn; repeat split; reflexivity.
  - destruct (root_term s || root_dropped s); [repeat split; reflexivity|].
    destruct (rnote s) as [|nh nt] eqn:En; [|note_shape s; repeat split; reflexivity].
    destruct (rootq s) as [|c q] eqn:E; [repeat split; reflexivity|].
    des_st s. destruct c as [l|x|x [|]|c|c| |ld]; cbn; try (repeat split; reflexivity).
    + destruct (m_find x u); cbn; repeat split; reflexivity.
    + destruct (m_find x su); cbn; repeat split; reflexivity.
  - destruct (pub_idle s 0); des_st s; cbn; repeat split; reflexivity.
  - des_st s; cbn; repeat split; reflexivity.
  - destruct (c_alive (clones s c) && negb (c_term (clones s c))); [|repeat split; reflexivity].
    destruct (c_q (clones s c)) as [|x q].
    + destruct (root_dropped s); des_st s; cbn; repeat split; reflexivity.
    + destruct x as [e|y|]; cbn [clone_handle]; [destruct (cf_follow cf)|destruct (cf_follow cf)|];
        des_st s; cbn; repeat split; reflexivity.
  - destruct (c_alive (clones s c) && pub_idle s c && negb (c =? 0)); des_st s; cbn; repeat split; reflexivity.
  - destruct (pubs s p) as [n|n snap rest sent]; [destruct (pub_alive s p)|]; des_st s; cbn; repeat split; reflexivity.
  - destruct (pubs s p) as [n|n snap [|[y l] rest] sent]; try (repeat split; reflexivity).
    destruct (negb (ch_rx (chans s y))); [des_st s; cbn; repeat split; reflexivity|].
    destruct (is_direct l); [des_st s; cbn; repeat split; reflexivity|].
    destruct (N.of_nat (length (ch_q (chans s y))) <? cf_cap cf); des_st s; cbn; repeat split; reflexivity.
  - cbn [ends_now] in Ha. destruct (pubs s p) as [n|n snap [|e rest] sent]; try (repeat split; reflexivity). discriminate Ha.
  - des_st s; cbn; repeat split; reflexivity.
  - destruct (links s l) as [| |x b0|xa]; des_st s; cbn; repeat split; reflexivity.
  - destruct (links s l) as [| |x b0|xa]; [| | |destruct (cf_guard cf); destruct (is_direct l)]; des_st s; cbn; repeat split; reflexivity.
Qed.

Lemma step_m_end cf s a : ends_now s a = true ->
  exists p n snap sent, a = AEnd p /\ pubs s p = PSending n snap [] sent /\
    m_upd (step cf s a) = m_upd s + 1 /\
    m_drop (step cf s a) = (if sent then m_drop s else m_drop s + 1) /\
    completed (step cf s a) = (p, n, snap, sent) :: completed s.
Proof.
  intros Ha. destruct a; try discriminate Ha. cbn [ends_now] in Ha. cbn [step].
  destruct (pubs s p) as [n|n snap [|e rest] sent] eqn:Ep; try discriminate Ha.
  exists p, n, snap, sent. des_st s. cbn in *. repeat split; try reflexivity. exact Ep.
Qed.

Lemma taken_cons e d p n :
  taken (e :: d) p n = (N.eqb (snd (fst e)) p && N.eqb (snd e) n) || taken d p n.
Proof. reflexivity. Qed.

Lemma taken_true d p n : taken d p n = true <-> exists x l, In (x, l, p, n) d.
Proof.
  unfold taken. rewrite existsb_exists. split.
  - intros ([[[x l] p'] n'] & Hin & E). cbn in E. apply andb_true_iff in E. destruct E as [E1 E2].
    apply N.eqb_eq in E1, E2. subst. eauto.
  - intros (x & l & Hin). exists (x, l, p, n). split; [exact Hin|]. cbn. rewrite !N.eqb_refl. reflexivity.
Qed.

Lemma taken_false d p n : taken d p n = false <-> forall x l, ~ In (x, l, p, n) d.
Proof.
  split.
  - intros H x l Hin. assert (taken d p n = true) by (apply taken_true; eauto). congruence.
  - intros H. destruct (taken d p n) eqn:E; [|reflexivity]. apply taken_true in E. destruct E as (x & l & Hin).
    destruct (H x l Hin).
Qed.

(* the counters count the finished updates; the flag recorded with a finished update (and the
   flag of an update in flight) says whether somebody took it *)
Definition InvM (s : st) : Prop :=
  m_upd s = N.of_nat (length (completed s)) /\
  m_drop s = N.of_nat (length (filter (fun e => negb (snd e)) (completed s))) /\
  (forall p n sn b, In (p, n, sn, b) (completed s) -> b = taken (delivered s) p n) /\
  (forall p n sn r b, pubs s p = PSending n sn r b -> b = taken (delivered s) p n).

Lemma invM_step cf s a : InvD s -> InvM s -> InvM (step cf s a).
Proof.
  intros (_ & D2 & _ & _) (M1 & M2 & M3 & M4).
  destruct (pub_action a) eqn:Ha.
  2:{ destruct (step_frame cf s a Ha) as (Ep & Ed & Ec).
      assert (He : ends_now s a = false) by (destruct a; try reflexivity; discriminate Ha).
      destruct (step_m_other cf s a He) as (Eu & Edr & _).
      unfold InvM. rewrite Ep, Ed, Ec, Eu, Edr. repeat split; assumption. }
  destruct a as [| | | | | | | | | |p|p|p|xd|la|la]; try discriminate Ha; clear Ha.
  - (* begin *)
    destruct (step_m_other cf s (ABegin p) eq_refl) as (Eu & Edr & _).
    destruct (step_begin_spec cf s p) as [E|(n & Ep & _ & Ep' & Ed & Ec)].
    { rewrite E. repeat split; assumption. }
    unfold InvM. rewrite Ep', Ed, Ec, Eu, Edr. repeat split; try assumption.
    intros q m sn r b. destruct (N.eq_dec q p) as [->|Hq]; [|rewrite fupd_neq by exact Hq; apply M4].
    rewrite fupd_eq. intros E. inversion E; subst. symmetry. apply taken_false. intros x l Hin.
    specialize (D2 p). rewrite Ep in D2. destruct D2 as [Hlt _]. specialize (Hlt _ _ _ Hin). lia.
  - (* deliver *)
    destruct (step_m_other cf s (ADeliver p) eq_refl) as (Eu & Edr & _).
    destruct (step_deliver_spec cf s p) as [E|(n & snap & y & l & rest & sent & Ep & Ec & Hcase)].
    { rewrite E. repeat split; assumption. }
    pose proof (D2 p) as Hb. rewrite Ep in Hb. destruct Hb as (_ & _ & _ & _ & Hb5).
    unfold InvM. rewrite Ec, Eu, Edr.
    destruct Hcase as [(Ep' & Ed)|(Ep' & Ed & _)]; rewrite Ep', Ed; repeat split; try assumption.
    + intros q m sn b Hin. rewrite taken_cons. cbn [fst snd].
      destruct (N.eqb_spec p q) as [<-|Hq]; [|cbn; apply (M3 _ _ _ _ Hin)].
      destruct (N.eqb_spec n m) as [<-|Hm]; [|cbn; apply (M3 _ _ _ _ Hin)].
      specialize (Hb5 _ _ _ Hin). lia.
    + intros q m sn r b. destruct (N.eq_dec q p) as [->|Hq].
      * rewrite fupd_eq. intros E. inversion E; subst. rewrite taken_cons. cbn [fst snd]. rewrite !N.eqb_refl. reflexivity.
      * rewrite fupd_neq by exact Hq. intros E. rewrite taken_cons. cbn [fst snd].
        destruct (N.eqb_spec p q) as [->|_]; [contradiction|]. cbn. apply (M4 _ _ _ _ _ E).
    + intros q m sn r b. destruct (N.eq_dec q p) as [->|Hq].
      * rewrite fupd_eq. intros E. inversion E; subst. apply (M4 _ _ _ _ _ Ep).
      * rewrite fupd_neq by exact Hq. apply M4.
  - (* end *)
    destruct (ends_now s (AEnd p)) eqn:He.
    2:{ destruct (step_m_other cf s (AEnd p) He) as (Eu & Edr & Ec).
        destruct (step_end_spec cf s p) as [E|(n & snap & sent & Ep & _)]; [rewrite E; repeat split; assumption|].
        cbn [ends_now] in He. rewrite Ep in He. discriminate He. }
    destruct (step_m_end cf s (AEnd p) He) as (p' & n & snap & sent & Ea & Ep & Eu & Edr & Ec).
    inversion Ea; subst p'. clear Ea.
    destruct (step_end_spec cf s p) as [E|(n' & snap' & sent' & Ep2 & Ep' & Ed & _)].
    { exfalso. rewrite E in Ec. apply (f_equal (@length _)) in Ec. cbn in Ec. lia. }
    unfold InvM. rewrite Eu, Edr, Ec, Ed, Ep'. split; [|split; [|split]].
    + cbn [length]. rewrite M1. lia.
    + cbn [filter snd]. destruct sent; cbn [negb length]; rewrite M2; lia.
    + intros q m sn b [E|Hin]; [|apply (M3 _ _ _ _ Hin)]. inversion E; subst. apply (M4 _ _ _ _ _ Ep).
    + intros q m sn r b. destruct (N.eq_dec q p) as [->|Hq]; [rewrite fupd_eq; discriminate|].
      rewrite fupd_neq by exact Hq. apply M4.
Qed.

Lemma invM_init : InvM init.
Proof. unfold InvM. cbn. repeat split; try (intros; contradiction); intros; discriminate. Qed.

Lemma invM_run cf tr : InvM (run cf tr).
Proof.
  assert (H : InvD (run cf tr) /\ InvM (run cf tr)); [|tauto].
  unfold run. apply (run_from_inv (fun s => InvD s /\ InvM s)).
  - intros s a [HD HM]. split; [apply invD_step, HD|apply invM_step; assumption].
  - split; [exact invD_init|exact invM_init].
Qed.

(* num_updates = number of update_data calls that have returned; num_dropped_updates = number
   of those that no link took (no hand-over of that update to anybody is in the log) *)
Lemma gate_counters_count cf tr :
  m_upd (run cf tr) = n_published (run cf tr) /\ m_drop (run cf tr) = n_dropped (run cf tr).
Proof.
  destruct (invM_run cf tr) as (M1 & M2 & M3 & _). split; [exact M1|]. rewrite M2. unfold n_dropped.
  f_equal. f_equal. apply filter_ext_in. intros [[[p n] sn] b] Hin. unfold cp_dropped. cbn [fst snd].
  rewrite <- (M3 _ _ _ _ Hin). reflexivity.
Qed.

(* an update is counted as dropped exactly when nobody took it *)
Lemma gate_dropped_iff_nobody_took_it cf tr p n sn b :
  In (p, n, sn, b) (completed (run cf tr)) ->
  (b = false <-> forall x l, ~ In (x, l, p, n) (delivered (run cf tr))).
Proof.
  intros Hin. destruct (invM_run cf tr) as (_ & _ & M3 & _). rewrite (M3 _ _ _ _ Hin). apply taken_false.
Qed.

(* the same count read off the schedule *)
Lemma completed_counts_trace cf : forall tr s,
  length (completed (run_from cf s tr)) = (length (completed s) + finished_in cf s tr)%nat.
Proof.
  induction tr as [|a tr IH]; intros s; [cbn; lia|].
  change (run_from cf s (a :: tr)) with (run_from cf (step cf s a) tr). rewrite IH. cbn [finished_in].
  destruct (ends_now s a) eqn:He.
  - destruct (step_m_end cf s a He) as (p & n & snap & sent & _ & _ & _ & _ & Ec). rewrite Ec. cbn [length]. lia.
  - destruct (step_m_other cf s a He) as (_ & _ & Ec). rewrite Ec. lia.
Qed.

Lemma gate_num_updates_counts_trace cf tr :
  m_upd (run cf tr) = N.of_nat (finished_in cf init tr).
Proof.
  destruct (invM_run cf tr) as (M1 & _). rewrite M1. unfold run. rewrite completed_counts_trace. reflexivity.
Qed.

Lemma filter_length_le' {A} (f : A -> bool) l : (length (filter f l) <= length l)%nat.
Proof. induction l as [|a l IH]; cbn; [lia|]. destruct (f a); cbn; lia. Qed.

(* counters never decrease, and dropped <= published *)
Lemma gate_counters_monotone cf s a :
  m_upd s <= m_upd (step cf s a) /\ m_drop s <= m_drop (step cf s a).
Proof.
  destruct (ends_now s a) eqn:He.
  - destruct (step_m_end cf s a He) as (p & n & snap & sent & _ & _ & Eu & Edr & _). rewrite Eu, Edr.
    destruct sent; lia.
  - destruct (step_m_other cf s a He) as (Eu & Edr & _). rewrite Eu, Edr. lia.
Qed.

Lemma gate_dropped_le_published cf tr : m_drop (run cf tr) <= m_upd (run cf tr).
Proof.
  destruct (invM_run cf tr) as (M1 & M2 & _). rewrite M1, M2.
  pose proof (filter_length_le' (fun e : N * N * list entry * bool => negb (snd e)) (completed (run cf tr))). lia.
Qed.

(* ==== the root gate's bounded command channel; Drop for Link (bst / bstep in GateModel.v) ==== *)

From Coq Require Import PeanoNat.

Lemma rootq_note_step s : rootq (note_step s) = rootq s.
Proof. destruct (note_step_shape s) as (cl & rt & rn & ->). reflexivity. Qed.

Lemma rootq_root_handle s c : rootq (root_handle s c) = rootq s.
Proof.
  destruct c as [l|x|x [|]|c|c| |l]; cbn [root_handle]; try reflexivity.
  - destruct (m_find x (upd s)); reflexivity.
  - destruct (m_find x (sus s)); reflexivity.
Qed.

(* the root takes at most one command off the FIFO per step, and none inside notify_clones *)
Lemma rootq_step_root cf s :
  rootq (step cf s ARoot) = rootq s \/
  (rnote s = [] /\ exists c, rootq s = c :: rootq (step cf s ARoot)).
Proof.
  cbn [step]. destruct (root_term s || root_dropped s); [left; reflexivity|].
  destruct (rnote s) as [|n rn] eqn:Hn.
  - destruct (rootq s) as [|c q] eqn:Hq; [left; exact Hq|].
    right. split; [reflexivity|]. exists c. rewrite rootq_root_handle. reflexivity.
  - left. apply rootq_note_step.
Qed.

Lemma rootq_step_root_note cf s : rnote s <> [] -> rootq (step cf s ARoot) = rootq s.
Proof.
  intros Hn. destruct (rootq_step_root cf s) as [H|[H _]]; [exact H|contradiction].
Qed.

(* every other action leaves the length of the FIFO or puts one command at its end *)
Lemma rootq_step_len cf s a : a <> ARoot ->
  length (rootq (step cf s a)) = length (rootq s) \/ length (rootq (step cf s a)) = S (length (rootq s)).
Proof.
  intros Ha. destruct a; try contradiction; cbn [step].
  - destruct (links s l); try (left; reflexivity).
    destruct (root_dropped s); [left; reflexivity|]. right. cbn. rewrite app_length. cbn. lia.
  - destruct (links s l); try (left; reflexivity).
    destruct (is_direct l); right; cbn; rewrite app_length; cbn; lia.
  - destruct (links s l); try (left; reflexivity).
    destruct (eqb b susp); [left; reflexivity|]. right. cbn. rewrite app_length. cbn. lia.
  - destruct (links s l); try (left; reflexivity).
    destruct (is_direct l); [left; reflexivity|].
    destruct (ch_q (chans s s0)) as [|[p n] q]; left; reflexivity.
  - right. cbn. rewrite app_length. cbn. lia.
  - destruct (pub_idle s 0); left; reflexivity.
  - right. cbn. rewrite app_length. cbn. lia.
  - destruct (c_alive (clones s c) && negb (c_term (clones s c))); [|left; reflexivity].
    destruct (c_q (clones s c)) as [|x q].
    + destruct (root_dropped s); left; reflexivity.
    + left. destruct x as [e|y|]; cbn [clone_handle]; try destruct (cf_follow cf); reflexivity.
  - destruct (c_alive (clones s c) && pub_idle s c && negb (c =? 0)); [|left; reflexivity].
    right. cbn. rewrite app_length. cbn. lia.
  - destruct (pubs s p); [|left; reflexivity]. destruct (pub_alive s p); left; reflexivity.
  - destruct (pubs s p) as [|n snap [|[x l] rest] sent]; try (left; reflexivity).
    destruct (negb (ch_rx (chans s x))); [left; reflexivity|].
    destruct (is_direct l); [left; reflexivity|].
    destruct (N.of_nat (length (ch_q (chans s x))) <? cf_cap cf); left; reflexivity.
  - destruct (pubs s p) as [|n snap [|e rest] sent]; left; reflexivity.
  - left; reflexivity.
  - destruct (links s l); left; reflexivity.
  - destruct (links s l); try (left; reflexivity).
    + left. cbn. rewrite map_length. reflexivity.
    + destruct (cf_guard cf); destruct (is_direct l); cbn; rewrite ?app_length; cbn; (left; reflexivity) || (right; lia).
Qed.

Lemma action_eq_root (a : action) : a = ARoot \/ a <> ARoot.
Proof. destruct a; (left; reflexivity) || (right; discriminate). Qed.

Definition binv (b : bst) : Prop :=
  (b_in b <= length (rootq (b_st b)))%nat /\ (b_in b <= qcap)%nat.

Lemma b_after_send_inv b s' :
  binv b ->
  (length (rootq s') = length (rootq (b_st b)) \/ length (rootq s') = S (length (rootq (b_st b)))) ->
  binv (b_after_send b s').
Proof.
  intros [H1 H2] Hl. unfold b_after_send, b_room, binv.
  destruct (Nat.ltb_spec (length (rootq (b_st b))) (length (rootq s'))) as [Hlt|Hge]; cbn [andb].
  - destruct (Nat.eqb_spec (b_in b) (length (rootq (b_st b)))) as [He|Hne]; cbn [andb].
    + destruct (Nat.ltb_spec (b_in b) qcap) as [Hq|Hq]; cbn [b_st b_in]; split; lia.
    + cbn [b_st b_in]. split; lia.
  - cbn [b_st b_in]. split; lia.
Qed.

Lemma bstep_inv cf b a : binv b -> binv (bstep cf b a).
Proof.
  intros Hb. pose proof Hb as [H1 H2].
  destruct a as [a| |l|l]; cbn [bstep].
  - destruct (action_eq_root a) as [->|Ha].
    + cbv zeta. destruct (root_term (b_st b) || root_dropped (b_st b)); [exact Hb|].
      destruct (rnote (b_st b)) as [|n rn] eqn:Hn.
      * destruct (b_in b) as [|k] eqn:Hk; [rewrite <- Hk in *; exact Hb|].
        destruct (rootq_step_root cf (b_st b)) as [He|[_ [c He]]]; unfold binv; cbn [b_st b_in].
        -- rewrite He. split; lia.
        -- rewrite He in H1. cbn [length] in H1. split; lia.
      * unfold binv; cbn [b_st b_in]. rewrite rootq_step_root_note; [split; lia|rewrite Hn; discriminate].
    + assert (Hs : bstep cf b (BAct a) = b_after_send b (step cf (b_st b) a)) by (destruct a; try reflexivity; contradiction).
      cbn [bstep] in Hs. rewrite Hs. apply b_after_send_inv; [exact Hb|]. apply rootq_step_len; exact Ha.
  - destruct (Nat.ltb_spec (b_in b) (length (rootq (b_st b)))) as [Hl|Hl]; cbn [andb]; [|exact Hb].
    destruct (Nat.ltb_spec (b_in b) qcap) as [Hq|Hq]; [|exact Hb].
    unfold binv; cbn [b_st b_in]. split; lia.
  - apply b_after_send_inv; [exact Hb|]. apply rootq_step_len; discriminate.
  - cbv zeta. destruct (b_room b).
    + apply b_after_send_inv; [exact Hb|]. apply rootq_step_len; discriminate.
    + unfold binv; cbn [b_st b_in]. split; [|exact H2]. exact H1.
Qed.

(* the channel never holds more than COMMAND_QUEUE_LEN commands, and what it holds is the head of the FIFO *)
Lemma binv_init : binv binit.
Proof. unfold binv, binit, qcap; cbn. split; lia. Qed.

Lemma brun_from_inv cf tr : forall b, binv b -> binv (brun_from cf b tr).
Proof.
  induction tr as [|a tr IH]; intros b Hb; [exact Hb|].
  unfold brun_from in *. cbn [fold_left]. apply IH. apply bstep_inv. exact Hb.
Qed.

Theorem root_channel_bounded cf tr :
  (b_in (brun cf tr) <= N.to_nat cmd_queue_len)%nat /\
  (b_in (brun cf tr) <= length (rootq (b_st (brun cf tr))))%nat.
Proof. destruct (brun_from_inv cf tr binit binv_init) as [H1 H2]. split; assumption. Qed.

(* ---- refinement: a schedule of the bounded gate in which every sender waits for room is a schedule of the
   gate model with its one FIFO (waiting senders included) ---- *)
Lemma b_after_send_st b s' : b_st (b_after_send b s') = s'.
Proof. unfold b_after_send. destruct (_ && _); reflexivity. Qed.

Lemma bstep_refines cf b a : is_try a = false ->
  b_st (bstep cf b a) = b_st b \/ b_st (bstep cf b a) = run_from cf (b_st b) (b_abs a).
Proof.
  intros Ht. destruct a as [a| |l|l]; try discriminate; cbn [bstep b_abs].
  - destruct (action_eq_root a) as [->|Ha].
    + cbv zeta. destruct (root_term (b_st b) || root_dropped (b_st b)); [left; reflexivity|].
      destruct (rnote (b_st b)); [destruct (b_in b); [left; reflexivity|right; reflexivity]|right; reflexivity].
    + right. assert (Hs : bstep cf b (BAct a) = b_after_send b (step cf (b_st b) a)) by (destruct a; try reflexivity; contradiction).
      cbn [bstep] in Hs. rewrite Hs. apply b_after_send_st.
  - left. destruct (_ && _); reflexivity.
  - right. apply b_after_send_st.
Qed.

Lemma run_from_app cf s t1 t2 : run_from cf s (t1 ++ t2) = run_from cf (run_from cf s t1) t2.
Proof. unfold run_from. apply fold_left_app. Qed.

Lemma brun_from_refines cf tr : waits_only tr = true ->
  forall b, exists tr', b_st (brun_from cf b tr) = run_from cf (b_st b) tr'.
Proof.
  induction tr as [|a tr IH]; intros Hw b.
  - exists []. reflexivity.
  - cbn [waits_only forallb] in Hw. apply andb_prop in Hw as [Ha Hw]. apply negb_true_iff in Ha.
    unfold brun_from in *. cbn [fold_left].
    destruct (IH Hw (bstep cf b a)) as [tr' Htr]. rewrite Htr.
    destruct (bstep_refines cf b a Ha) as [->| ->].
    + exists tr'. reflexivity.
    + exists (b_abs a ++ tr'). rewrite run_from_app. reflexivity.
Qed.

Theorem bounded_gate_refines cf tr : waits_only tr = true ->
  exists tr', b_st (brun cf tr) = run cf tr'.
Proof. intros Hw. destruct (brun_from_refines cf tr Hw binit) as [tr' H]. exists tr'. exact H. Qed.

(* ---- what carries over to the gate with the bounded channel, for ALL its schedules: links are dropped
   (BDropLink) at any fill of the channel, components link again at once ---- *)
Theorem bounded_at_most_once_in_order cf tr l p :
  cf_follow cf = false -> cf_guard cf = true -> waits_only tr = true ->
  strictly_desc (lseqs_of l p (delivered (b_st (brun cf tr)))).
Proof.
  intros Hf Hg Hw. destruct (bounded_gate_refines cf tr Hw) as [tr' ->].
  apply at_most_once_in_order; assumption.
Qed.

(* a slot in the gate's maps is held by its link, or its Unsubscribe is on its way: inside the channel or in
   the hands of a sender that waits for room *)
Theorem dropped_link_slot_given_back cf tr x l :
  cf_follow cf = false -> cf_guard cf = true -> waits_only tr = true ->
  In (x, l) (upd (b_st (brun cf tr)) ++ sus (b_st (brun cf tr))) ->
  holds_slot (links (b_st (brun cf tr)) l) x \/
  In (CUnsub x) (b_channel (brun cf tr) ++ b_waiting (brun cf tr)).
Proof.
  intros Hf Hg Hw. unfold b_channel, b_waiting. rewrite firstn_skipn.
  destruct (bounded_gate_refines cf tr Hw) as [tr' ->]. apply no_orphan_slot; assumption.
Qed.

(* ... so once the root has worked off the FIFO, a link that was dropped has no slot left *)
Theorem dropped_link_has_no_slot_when_drained cf tr x l :
  cf_follow cf = false -> cf_guard cf = true -> waits_only tr = true ->
  links (b_st (brun cf tr)) l = LIdle -> rootq (b_st (brun cf tr)) = [] ->
  ~ In (x, l) (upd (b_st (brun cf tr)) ++ sus (b_st (brun cf tr))).
Proof.
  intros Hf Hg Hw. destruct (bounded_gate_refines cf tr Hw) as [tr' ->]. intros Hl Hq.
  apply idle_link_has_no_slot; try assumption. rewrite Hq. intros [].
Qed.

Theorem bounded_one_slot_per_link cf tr x1 x2 l :
  cf_follow cf = false -> cf_guard cf = true -> waits_only tr = true ->
  In (x1, l) (upd (b_st (brun cf tr)) ++ sus (b_st (brun cf tr))) ->
  In (x2, l) (upd (b_st (brun cf tr)) ++ sus (b_st (brun cf tr))) -> x1 = x2.
Proof.
  intros Hf Hg Hw. destruct (bounded_gate_refines cf tr Hw) as [tr' ->]. apply one_slot_per_link; assumption.
Qed.

(* the drop itself, at any reachable-or-not state that keeps the marker inside the FIFO: the link is idle at
   once (its component may link again), the Unsubscribe of its slot is on the FIFO - with a waiting sender when
   there was no room - and nothing that was there before has been lost or overtaken *)
Theorem drop_link_unsubscribe_in_flight cf b l x sb :
  binv b -> links (b_st b) l = LConn x sb ->
  let b' := bstep cf b (BDropLink l) in
  links (b_st b') l = LIdle /\
  rootq (b_st b') = rootq (b_st b) ++ [CUnsub x] /\
  (b_room b = false -> b_in b' = b_in b /\ b_waiting b' = b_waiting b ++ [CUnsub x]).
Proof.
  intros [Hi _] Hl. cbv zeta. cbn [bstep]. rewrite b_after_send_st.
  assert (Hq : rootq (step cf (b_st b) (ASendUnsub l)) = rootq (b_st b) ++ [CUnsub x]).
  { cbn [step]. rewrite Hl. destruct (is_direct l); reflexivity. }
  split; [|split].
  - cbn [step]. rewrite Hl. destruct (is_direct l); cbn; unfold fupd; rewrite N.eqb_refl; reflexivity.
  - exact Hq.
  - intros Hr. unfold b_after_send. rewrite Hr, andb_false_r. cbn [b_in]. split; [reflexivity|].
    unfold b_waiting. cbn [b_st b_in]. rewrite Hq, skipn_app.
    replace (b_in b - length (rootq (b_st b)))%nat with O by lia. reflexivity.
Qed.

(* ---- the variant that hands the Unsubscribe over with try_send (seeded change C08-c2) ---- *)
Theorem drop_try_send_refuted :
  let cf := MkCfg 2 false true in
  let tr := b_relink_schedule (BDropLinkTry 1) in
  (* at the moment of the drop 16 commands are in the channel *)
  b_in (brun cf (firstn 38 tr)) = 16%nat /\ nth_error tr 38 = Some (BDropLinkTry 1) /\
  (* the slot of the dropped link stays, next to the slot of the new link of the same component *)
  upd (b_st (brun cf tr)) = [(0, 1); (17, 1)] /\ rootq (b_st (brun cf tr)) = [] /\
  (* and update 1 of the root gate is handed to component 1 twice *)
  lseqs_of 1 0 (delivered (b_st (brun cf tr))) = [1; 1; 0] /\
  ~ strictly_desc (lseqs_of 1 0 (delivered (b_st (brun cf tr)))).
Proof.
  cbv zeta. repeat split; try (vm_compute; reflexivity).
  vm_compute. intros [H _]. discriminate H.
Qed.

(* the same schedule on the code as it is: the Unsubscribe waits for room, is handled before the Subscribe of
   the new link, and update 1 arrives once *)
Lemma drop_waits_example :
  let cf := MkCfg 2 false true in
  let tr := b_relink_schedule (BDropLink 1) in
  waits_only tr = true /\
  b_in (brun cf (firstn 39 tr)) = 16%nat /\ b_waiting (brun cf (firstn 39 tr)) = [CUnsub 0] /\
  upd (b_st (brun cf tr)) = [(17, 1)] /\ rootq (b_st (brun cf tr)) = [] /\
  lseqs_of 1 0 (delivered (b_st (brun cf tr))) = [1; 0].
Proof. cbv zeta. repeat split; vm_compute; reflexivity. Qed.
