(* C02 - Losing a session withdraws exactly that session's routes and nothing else. *)
From stdpp Require Import gmap.
From Coq Require Import NArith.
From RV Require Import Ingress.IngressModel Ingress.IngressProofs Rib.RibModel Rib.RibProofs
  Bmp.BmpModel Bmp.BmpProofs Pipe.PipeModel Pipe.PipeProofs.

(* RIB: a session-wide withdrawal of id m turns exactly the records of m
   (in the families it names) to withdrawn, keeping their attributes, and leaves
   every other (family, prefix, id) as it was *)
Theorem C02_withdraw_own_and_only_own : forall r m f k,
  rib_lookup (rib_withdraw_mui r m f) k =
  if down_hits m f k then match rib_lookup r k with Some (_, a) => Some (false, a) | None => None end
  else rib_lookup r k.
Proof. exact withdraw_mui_frame. Qed.
Print Assumptions C02_withdraw_own_and_only_own.

Theorem C02_withdraw_bulk_own_and_only_own : forall ms r k,
  rib_lookup (fold_left (fun r m => rib_withdraw_mui r m None) ms r) k =
  if existsb (fun m => down_hits m None k) ms
  then match rib_lookup r k with Some (_, a) => Some (false, a) | None => None end
  else rib_lookup r k.
Proof. exact withdraw_bulk_frame. Qed.
Print Assumptions C02_withdraw_bulk_own_and_only_own.

(* BMP: Peer Down sends the withdrawal of exactly that peer's id; Termination
   that of exactly the ids of the peers that are up (as a multiset) *)
Theorem C02_peer_down_withdraws_that_peer : forall r rid s p, live s ->
  (sm_step r rid s (MPeerDown p)).2 =
  match sm_peers s !! p with Some pe => OUpdate (UWithdraw (pe_id pe) None) | None => OInvalid end.
Proof. exact step_peer_down_withdraws. Qed.
Print Assumptions C02_peer_down_withdraws_that_peer.

Theorem C02_termination_withdraws_up_peers : forall r rid s, live s ->
  effect_eq (effect_of (sm_step r rid s MTerm).2) (effect_spec (id_table s) MTerm).
Proof. intros r rid s H. exact (step_effect r rid s MTerm H). Qed.
Print Assumptions C02_termination_withdraws_up_peers.

(* Identity: an ingress id answers the queries of ONE (parent, address, AS, RIB
   view) only - so peers that differ in one of these never share an id ... *)
Theorem C02_isolation_partial : forall r q1 q2 x,
  x ∈ reg_find_peers r q1 -> x ∈ reg_find_peers r q2 ->
  i_parent q1 = i_parent q2 /\ i_addr q1 = i_addr q2 /\ i_asn q1 = i_asn q2 /\ i_rib q1 = i_rib q2.
Proof. exact id_answers_one_identity. Qed.
Print Assumptions C02_isolation_partial.

(* ... but that is all the register keys on: BGP id, route distinguisher, peer
   type and the pre/post-policy flag are not part of the question *)
Theorem C02_query_ignores_rest : forall rid p1 p2,
  peer_query rid p1 = peer_query rid p2 <->
  ph_addr p1 = ph_addr p2 /\ ph_asn p1 = ph_asn p2 /\ ph_rib_type p1 = ph_rib_type p2.
Proof. exact same_query_iff. Qed.
Print Assumptions C02_query_ignores_rest.

(* hence the property fails on the faithful model (known finding C02-1): two
   peers differing only in their BGP id share an id, and the Peer Down of one
   withdraws the other's route *)
Theorem C02_shared_id_refuted :
  (exists id, w_ids (run_world c02_witness).1 = [((0%N, pA), id); ((0%N, pB), id)]) /\
  last (run_world c02_witness).2 = Some (WoEntries [(3%N, false, 3%N)]) /\
  last (run_sworld c02_witness).2 = Some (SoEntries [((0%N, pA), true, 3%N)]).
Proof. exact c02_shared_id_witness. Qed.
Print Assumptions C02_shared_id_refuted.
