(* C02 - Losing a session withdraws exactly that session's routes and nothing else. *)
From stdpp Require Import gmap.
From Coq Require Import NArith.
From RV Require Import Ingress.IngressModel Ingress.IngressProofs Rib.RibModel Rib.RibProofs
  Bmp.BmpModel Bmp.BmpProofs Pipe.PipeModel Pipe.PipeProofs.

(* RIB: a session-wide withdrawal of id m turns exactly the records of m
   (in the families it names) to withdrawn, keeping their attributes, and leaves
   every other (family, prefix, id) as it was *)
Theorem C02_withdraw_own_and_only_own : forall r m f k,
  rib_lookup (rib_withdraw_mui r m f) k =
  if down_hits m f k then match rib_lookup r k with Some (_, a) => Some (false, a) | None => None end
  else rib_lookup r k.
Proof. exact withdraw_mui_frame. Qed.
Print Assumptions C02_withdraw_own_and_only_own.

Theorem C02_withdraw_bulk_own_and_only_own : forall ms r k,
  rib_lookup (fold_left (fun r m => rib_withdraw_mui r m None) ms r) k =
  if existsb (fun m => down_hits m None k) ms
  then match rib_lookup r k with Some (_, a) => Some (false, a) | None => None end
  else rib_lookup r k.
Proof. exact withdraw_bulk_frame. Qed.
Print Assumptions C02_withdraw_bulk_own_and_only_own.

(* BMP: Peer Down sends the withdrawal of exactly that peer's id; Termination
   that of exactly the ids of the peers that are up (as a multiset) *)
Theorem C02_peer_down_withdraws_that_peer : forall r rid s p, live s ->
  (sm_step r rid s (MPeerDown p)).2 =
  match sm_peers s !! p with Some pe => OUpdate (UWithdraw (pe_id pe) None) | None => OInvalid end.
Proof. exact step_peer_down_withdraws. Qed.
Print Assumptions C02_peer_down_withdraws_that_peer.

Theorem C02_termination_withdraws_up_peers : forall r rid s, live s ->
  effect_eq (effect_of (sm_step r rid s MTerm).2) (effect_spec (id_table s) MTerm).
Proof. intros r rid s H. exact (step_effect r rid s MTerm H). Qed.
Print Assumptions C02_termination_withdraws_up_peers.

(* Identity: an ingress id answers the queries of ONE (parent, address, AS, RIB
   view) only - so peers that differ in one of these never share an id ... *)
Theorem C02_isolation_partial : forall r q1 q2 x,
  x ∈ reg_find_peers r q1 -> x ∈ reg_find_peers r q2 ->
  i_parent q1 = i_parent q2 /\ i_addr q1 = i_addr q2 /\ i_asn q1 = i_asn q2 /\ i_rib q1 = i_rib q2.
Proof. exact id_answers_one_identity. Qed.
Print Assumptions C02_isolation_partial.

(* ... but that is all the register keys on: BGP id, route distinguisher, peer
   type and the pre/post-policy flag are not part of the question *)
Theorem C02_query_ignores_rest : forall rid p1 p2,
  peer_query rid p1 = peer_query rid p2 <->
  ph_addr p1 = ph_addr p2 /\ ph_asn p1 = ph_asn p2 /\ ph_rib_type p1 = ph_rib_type p2.
Proof. exact same_query_iff. Qed.
Print Assumptions C02_query_ignores_rest.

(* hence the property fails on the faithful model (known finding C02-1): two
   peers differing only in their BGP id share an id, and the Peer Down of one
   withdraws the other's route *)
Theorem C02_shared_id_refuted :
  (exists id, w_ids (run_world c02_witness).1 = [((0%N, pA), id); ((0%N, pB), id)]) /\
  last (run_world c02_witness).2 = Some (WoEntries [(3%N, false, 3%N)]) /\
  last (run_sworld c02_witness).2 = Some (SoEntries [((0%N, pA), true, 3%N)]).
Proof. exact c02_shared_id_witness. Qed.
Print Assumptions C02_shared_id_refuted.

(* ------------------------------------------------------------------ *)
(* Isolation by wire identity (Pipe/PipeCompose.v). A session-ending op is a Peer Down, a
   Termination, a lost BMP connection or a closed BGP session; [named sw o] is the set of
   wire identities it names, given the sessions that are live. *)
From RV Require Import Pipe.PipeCompose.

(* ideal RIB: exactly the entries of the named identities turn to withdrawn (attributes
   kept); every other entry is as it was *)
Theorem C02_isolation_by_wire_identity : forall sw o f p x,
  ends_session o = true ->
  s_rib (sstep sw o).1 !! (f, p, x) =
  if named sw o x then wdn (s_rib sw !! (f, p, x)) else s_rib sw !! (f, p, x).
Proof. exact session_end_exact. Qed.
Print Assumptions C02_isolation_by_wire_identity.

(* the pipeline, after ANY disciplined history in which no two wire identities were given
   one ingress id (that excludes known finding C02-1): what the code's RIB shows under the
   id of wire identity x turns to withdrawn if the op names x and does not change otherwise *)
Theorem C02_pipeline_isolation : forall ops o x i f p,
  disciplined (ops ++ [o]) = true -> (N.of_nat (length (ops ++ [o])) < two32 - 2)%N -> (f < 4)%N ->
  ends_session o = true ->
  NoShare (w_ids (run_world ops).1) -> id_of (w_ids (run_world ops).1) x = Some i ->
  rib_lookup (w_rib (run_world (ops ++ [o])).1) (f, p, i) =
  if named (run_sworld ops).1 o x then wdn (rib_lookup (w_rib (run_world ops).1) (f, p, i))
  else rib_lookup (w_rib (run_world ops).1) (f, p, i).
Proof. exact pipe_session_end_rib. Qed.
Print Assumptions C02_pipeline_isolation.

(* the same on the last-event reading of the updates the pipeline applied *)
Theorem C02_pipeline_isolation_events : forall ops o x i f p,
  disciplined (ops ++ [o]) = true -> (N.of_nat (length (ops ++ [o])) < two32 - 2)%N -> (f < 4)%N ->
  ends_session o = true ->
  NoShare (w_ids (run_world ops).1) -> id_of (w_ids (run_world ops).1) x = Some i ->
  spec_lookup (evs_of (world_updates (ops ++ [o]))) (f, p, i) =
  if named (run_sworld ops).1 o x then wdn (spec_lookup (evs_of (world_updates ops)) (f, p, i))
  else spec_lookup (evs_of (world_updates ops)) (f, p, i).
Proof. exact pipe_session_end_isolated. Qed.
Print Assumptions C02_pipeline_isolation_events.

(* ------------------------------------------------------------------ *)
(* The end of a BGP session on the code's own loop (Bgp/BgpSessionModel.v: the select! loop
   of bgp_tcp_in Processor::process and the block after it; see Props_C07.v). The updates a
   session's processor sent, applied to ANY RIB: *)
From RV Require Import Bgp.BgpSessionModel Bgp.BgpSessionProofs.

(* nothing else - for every script and however the session ends, every entry of every
   OTHER ingress id reads afterwards as it read before *)
Theorem C02_bgp_session_touches_only_own : forall id key live0 evs r0 k,
  k_mui k <> id ->
  rib_lookup (bs_rib_after r0 (bs_out (bs_process id key live0 evs).1)) k = rib_lookup r0 k.
Proof. exact session_touches_only_own. Qed.
Print Assumptions C02_bgp_session_touches_only_own.

(* exactly that session's routes - a registered session, whatever ended it (ConnectionLost,
   tick error, reconfiguration, de-configuration, closed channel): every entry under its
   ingress id is what its updates made of it, turned to withdrawn *)
Theorem C02_bgp_session_end_withdraws_own : forall id key live0 evs r0 k,
  bs_wf evs = true -> bs_reg (bs_loop id key (bs_init live0) evs).1 = true ->
  k_mui k = id -> (k_fam k < 4)%N ->
  rib_lookup (bs_rib_after r0 (bs_out (bs_process id key live0 evs).1)) k =
  match rib_lookup (bs_rib_after r0 (bs_out (bs_loop id key (bs_init live0) evs).1)) k with
  | Some (_, a) => Some (false, a) | None => None end.
Proof. exact session_end_withdraws_own. Qed.
Print Assumptions C02_bgp_session_end_withdraws_own.

Theorem C02_bgp_session_end_none_active : forall id key live0 evs r0 k a,
  bs_wf evs = true -> bs_reg (bs_loop id key (bs_init live0) evs).1 = true ->
  k_mui k = id -> (k_fam k < 4)%N ->
  rib_lookup (bs_rib_after r0 (bs_out (bs_process id key live0 evs).1)) k <> Some (true, a).
Proof. exact session_end_none_active. Qed.
Print Assumptions C02_bgp_session_end_none_active.

From RV Require E2e.E2eModel E2e.E2eProofs Ingress.IngressModel Pipe.PipeModel Rib.RibModel.

(* ---- an ingress unit that a reload takes out of the configuration and one that a reload puts back (E2e/E2eModel.v,
   third part: istate / i_step; tied to the code by the `e2e` engine: ops J j / JL u) ----
   The pipeline has two bmp-tcp-in units, `bmp-in` (router addresses 0..3) and `bmp-in2` (4..7), which every RIB unit
   sources. [IIngress b] = the operator takes [units.bmp-in] out of the file / puts it back, effective with the next
   [IE EReload]: the manager terminates the running unit - every connection of it ends - or starts a NEW unit.
   [is_run] = a bmp-in unit runs, [is_want] = the file has one, [is_gen] = bmp-in units started before the one that
   runs; the session of address k at incarnation g has the key k + 8 g ([i_session]); [i_children st rid] = the
   ingress ids registered under router id rid (ids_for_parent); [i_rib_lookup st key] = what unit `rib` reports for
   one (family, prefix, ingress id). *)

(* every record the RIB holds under an ingress id registered under a router that is connected to the unit which
   the reload takes out is reported withdrawn afterwards, with the attributes it had (the statement seeded C03-b1 breaks:
   read_from_router's 'gate terminated' exit skipped the clean-up) ... *)
Theorem C02_removed_unit_withdraws_its_routes : forall st k rid s id key,
  E2eModel.is_run st = true -> E2eModel.is_want st = false ->
  (k < 4)%N -> E2eModel.i_session st (k + 8 * E2eModel.is_gen st)%N = Some (rid, s) -> In id (E2eModel.i_children st rid) ->
  RibModel.k_mui key = id -> (RibModel.k_fam key < 4)%N ->
  E2eModel.i_rib_lookup (E2eModel.i_step false st (E2eModel.IE E2eModel.EReload)) key =
  E2eModel.withdrawn_of (E2eModel.i_rib_lookup st key).
Proof. exact E2eProofs.removed_unit_withdraws_its_routes_std. Qed.
Print Assumptions C02_removed_unit_withdraws_its_routes.

(* ... and nothing else changes: a record whose ingress id is not registered under one of those routers is reported
   as before, the sessions of the other ingress unit are what they were, the register is untouched *)
Theorem C02_removal_spares_other_ingresses : forall st,
  E2eModel.is_run st = true -> E2eModel.is_want st = false ->
  let st' := E2eModel.i_step false st (E2eModel.IE E2eModel.EReload) in
  (forall key,
     (forall k rid s, (k < 4)%N -> E2eModel.i_session st (k + 8 * E2eModel.is_gen st)%N = Some (rid, s) ->
                      ~ In (RibModel.k_mui key) (E2eModel.i_children st rid)) ->
     E2eModel.i_rib_lookup st' key = E2eModel.i_rib_lookup st key) /\
  (forall k, (4 <= k < 8)%N -> E2eModel.i_session st' k = E2eModel.i_session st k) /\
  (forall rid, E2eModel.i_children st' rid = E2eModel.i_children st rid).
Proof. exact E2eProofs.removal_spares_other_ingresses_std. Qed.
Print Assumptions C02_removal_spares_other_ingresses.

(* exactly the difference: what the removal does to a RIB unit that lives through the reload - `rib`, and a second rib
   unit of unchanged type - is ONE bulk withdrawal of the ids registered under the routers that were connected *)
Theorem C02_removal_is_one_bulk_withdrawal : forall st,
  E2eModel.is_run st = true -> E2eModel.is_want st = false ->
  let st' := E2eModel.i_step false st (E2eModel.IE E2eModel.EReload) in
  let ids := E2eModel.removed_ids (E2eModel.es_w (E2eModel.is_e st))
               (map (E2eModel.src_key (E2eModel.is_gen st)) E2eModel.unit1_addrs) in
  E2eModel.ru_rib (E2eModel.es_rib (E2eModel.is_e st')) =
    RibModel.rib_apply (E2eModel.ru_rib (E2eModel.es_rib (E2eModel.is_e st))) (RibModel.UWithdrawBulk ids) /\
  E2eModel.ru_filter (E2eModel.es_rib (E2eModel.is_e st')) = E2eModel.ru_filter (E2eModel.es_rib (E2eModel.is_e st)) /\
  forall r, E2eModel.es_rib2 (E2eModel.is_e st) = Some r -> E2eModel.es_rib2kind (E2eModel.is_e st) = 1%N ->
            E2eModel.ef_rib2 (E2eModel.es_file (E2eModel.is_e st)) = 1%N ->
    E2eModel.es_rib2 (E2eModel.is_e st') =
    Some (E2eModel.MkRunit (E2eModel.ru_filter r) (E2eModel.ru_born r) (RibModel.rib_apply (E2eModel.ru_rib r) (RibModel.UWithdrawBulk ids))).
Proof. exact E2eProofs.removal_is_one_bulk_withdrawal_std. Qed.
Print Assumptions C02_removal_is_one_bulk_withdrawal.

(* ---- the bgp-tcp-in unit in a running pipeline (E2e/E2eModel.v, last part; engine `e2e`, ops BO BA BZ BP BS BM) ---- *)

(* who is accepted = the peer table of the configuration CURRENT at accept time: after ANY history of traffic, edits and
   reloads (from any state), a connection from an address without a session is given a session exactly when the
   configuration of the LATEST load ([b_loaded]: read off the operations alone) has a peer entry for it, and the session
   runs with my_asn and the entry of that load; the connection is counted either way; nobody else's session moves.
   The statement seeded change C13-c2 (configuration loaded once per listener bind) breaks. *)
Theorem C02_bgp_accepts_by_current_peer_table : forall st0 h k,
  let st := E2eModel.b_run st0 h in
  let c := E2eModel.b_loaded (E2eModel.bs_file st0) (E2eModel.bs_cfg st0) h in
  E2eModel.is_bgp_addr k = true -> E2eModel.b_sess_of st k = None ->
  E2eModel.b_sess_of (E2eModel.b_step st (E2eModel.BOpen k)) k = option_map (fun v => (E2eModel.bc_asn c, v)) (E2eModel.b_peer_of c k) /\
  E2eModel.bs_accepted (E2eModel.b_step st (E2eModel.BOpen k)) = (E2eModel.bs_accepted st + 1)%N /\
  (forall j, j <> k -> E2eModel.b_sess_of (E2eModel.b_step st (E2eModel.BOpen k)) j = E2eModel.b_sess_of st j).
Proof. exact E2eProofs.bgp_accepts_by_current_peer_table_std. Qed.
Print Assumptions C02_bgp_accepts_by_current_peer_table.

(* the end of one BGP session in ANY state of the pipeline: what `rib` reports under every other ingress id is what it
   reported, every record of the session's own id (families 0..3) is reported withdrawn with its attributes, every other
   session keeps its id and its settings, the session is gone *)
Theorem C02_bgp_e2e_session_end_spares_other_peers : forall st k sv id,
  E2eModel.b_sess_of st k = Some sv -> E2eModel.b_session_id st k = Some id ->
  let st' := E2eModel.b_step st (E2eModel.BClose k) in
  (forall key, RibModel.k_mui key <> id -> E2eModel.b_rib_lookup st' key = E2eModel.b_rib_lookup st key) /\
  (forall key, RibModel.k_mui key = id -> (RibModel.k_fam key < 4)%N ->
               E2eModel.b_rib_lookup st' key = E2eModel.withdrawn_of (E2eModel.b_rib_lookup st key)) /\
  (forall j, j <> k -> E2eModel.b_session_id st' j = E2eModel.b_session_id st j /\ E2eModel.b_sess_of st' j = E2eModel.b_sess_of st j) /\
  E2eModel.b_session_id st' k = None /\ E2eModel.b_sess_of st' k = None.
Proof. exact E2eProofs.bgp_session_end_spares_other_peers_std. Qed.
Print Assumptions C02_bgp_e2e_session_end_spares_other_peers.

(* each accepted connection = an ingress id of its own: the register's next id, which no live session has (proviso: no live
   session holds the register's next id - ids are handed out in order, C14). The statement seeded change C02-c2 (one id
   registered before the accept loop) breaks. *)
Theorem C02_bgp_accepted_connection_has_fresh_id : forall st k v,
  E2eModel.is_bgp_addr k = true -> E2eModel.b_sess_of st k = None -> E2eModel.b_peer_of (E2eModel.bs_cfg st) k = Some v ->
  (forall j id, E2eModel.b_session_id st j = Some id -> id <> IngressModel.serial (PipeModel.w_reg (E2eModel.b_world st))) ->
  let st' := E2eModel.b_step st (E2eModel.BOpen k) in
  E2eModel.b_session_id st' k = Some (IngressModel.serial (PipeModel.w_reg (E2eModel.b_world st))) /\
  (forall j id, j <> k -> E2eModel.b_session_id st j = Some id ->
                E2eModel.b_session_id st' j = Some id /\ E2eModel.b_session_id st' j <> E2eModel.b_session_id st' k).
Proof. exact E2eProofs.bgp_accepted_session_has_fresh_id_std. Qed.
Print Assumptions C02_bgp_accepted_connection_has_fresh_id.

(* known finding C02-bgp-reload-end-unheard: two sessions announce prefix 1, the peer entry of address 0 is taken out and the
   configuration reloaded. On the schedule in which the Withdraw of the ended session meets the gate's new, still empty
   subscription table, the route of the deconfigured peer stays active (the property's reading: withdrawn) ... *)
Theorem C02_bgp_reload_end_unheard_refuted :
  let st := E2eModel.b_run (E2eModel.b_init E2eModel.SNone 0) (E2eProofs.b_refute_hist (0%N :: nil)) in
  E2eModel.b_live st = (1%N :: nil) /\
  E2eModel.b_rib_lookup st (0, 1, 2)%N = Some (true, 3%N) /\
  E2eModel.b_spec_lookup st 0 1 (PipeModel.bgp_wid 0 0) = Some (false, 3%N) /\
  E2eModel.b_rib_lookup st (0, 1, 3)%N = Some (true, 4%N).
Proof. exact E2eProofs.bgp_reload_end_unheard_refuted. Qed.
Print Assumptions C02_bgp_reload_end_unheard_refuted.

(* ... and on the schedule in which it is heard (also the non-vacuity example: the other peer's route stays active, the
   deconfigured peer is counted as a disconnect, its next connection is accepted by TCP, counted, and refused) *)
Example C02_bgp_reload_heard_example :
  let st := E2eModel.b_run (E2eModel.b_init E2eModel.SNone 0) (E2eProofs.b_refute_hist nil) in
  E2eModel.b_live st = (1%N :: nil) /\
  E2eModel.b_rib_lookup st (0, 1, 2)%N = Some (false, 3%N) /\
  E2eModel.b_spec_lookup st 0 1 (PipeModel.bgp_wid 0 0) = Some (false, 3%N) /\
  E2eModel.b_rib_lookup st (0, 1, 3)%N = Some (true, 4%N) /\
  E2eModel.bs_disc st = 1%N /\
  E2eModel.b_sess_of (E2eModel.b_step st (E2eModel.BOpen 0)) 0 = None /\ E2eModel.bs_accepted (E2eModel.b_step st (E2eModel.BOpen 0)) = 3%N.
Proof. exact E2eProofs.bgp_reload_heard_example. Qed.

From RV Require E2e.E2eBgpProofs.

(* ---- the bgp-tcp-in unit in a running pipeline, continued (E2e/E2eBgpProofs.v): a load as an equation over ALL sessions, and
   two invariants over ALL histories of b_step from start-up ---- *)

(* A load of the file in ANY state (the new configuration c = the file: any bcfg), on the schedule the property needs
   (every end heard: BReload nil). [ends k]: k is one of the unit's addresses, has a live session, and my_asn of c or the peer
   entry of k in c is not what the session was accepted with (entry removed, or another entry).
   - the sessions the load ends (b_ended) are exactly those;
   - they are gone; EVERY other session is what it was: same settings, same ingress id, still live;
   - the unit holds the file; accepted / lost counters and the register are what they were;
   - `rib` reports every key under the id of an ended session (families 0..3) withdrawn with its attributes - one
     Withdraw(id) per ended session - and EVERY key under no such id as before (frame). *)
Theorem C02_bgp_reload_ends_exactly_changed_sessions : forall st,
  let c := E2eModel.bs_file st in
  let st' := E2eModel.b_step st (E2eModel.BReload nil) in
  let ends k := E2eModel.is_bgp_addr k = true /\
                exists sv, E2eModel.b_sess_of st k = Some sv /\
                           (E2eModel.bc_asn c <> fst sv \/ E2eModel.b_peer_of c k <> Some (snd sv)) in
  (forall k, In k (E2eModel.b_ended c (E2eModel.bs_sess st)) <-> ends k) /\
  (forall k, ends k -> E2eModel.b_sess_of st' k = None /\ E2eModel.b_session_id st' k = None) /\
  (forall k, ~ ends k -> E2eModel.b_sess_of st' k = E2eModel.b_sess_of st k /\
                         E2eModel.b_session_id st' k = E2eModel.b_session_id st k) /\
  (E2eModel.bs_cfg st' = c /\ E2eModel.bs_file st' = c /\ E2eModel.bs_accepted st' = E2eModel.bs_accepted st /\
   E2eModel.bs_lost st' = E2eModel.bs_lost st /\
   PipeModel.w_reg (E2eModel.b_world st') = PipeModel.w_reg (E2eModel.b_world st)) /\
  (forall key, (exists k id, ends k /\ E2eModel.b_session_id st k = Some id /\ RibModel.k_mui key = id /\ (RibModel.k_fam key < 4)%N) ->
               E2eModel.b_rib_lookup st' key = E2eModel.withdrawn_of (E2eModel.b_rib_lookup st key)) /\
  (forall key, (forall k id, ends k -> E2eModel.b_session_id st k = Some id -> RibModel.k_mui key = id -> ~ (RibModel.k_fam key < 4)%N) ->
               E2eModel.b_rib_lookup st' key = E2eModel.b_rib_lookup st key).
Proof. exact E2eBgpProofs.bgp_reload_ends_exactly_changed_sessions. Qed.
Print Assumptions C02_bgp_reload_ends_exactly_changed_sessions.

(* ... and on ANY schedule of the race of known finding C02-bgp-reload-end-unheard ([unh]: the ended sessions whose Withdraw
   meets the gate's new, still empty subscription table): the same sessions end and the same sessions go on untouched; but a
   key under the id of an ended session that was not heard (and under the id of no ended session that was heard) is reported
   as BEFORE the load - its routes are left behind, active if they were active, under an ingress id no session has any more;
   if no ended session is heard the store of `rib` is what it was altogether. The property's reading (es_s: those routes
   withdrawn) is the one of the heard schedule, whatever [unh]. *)
Theorem C02_bgp_reload_unheard_leaves_routes_behind : forall st unh,
  let c := E2eModel.bs_file st in
  let st' := E2eModel.b_step st (E2eModel.BReload unh) in
  let ends k := E2eModel.is_bgp_addr k = true /\
                exists sv, E2eModel.b_sess_of st k = Some sv /\
                           (E2eModel.bc_asn c <> fst sv \/ E2eModel.b_peer_of c k <> Some (snd sv)) in
  (forall k, ends k -> E2eModel.b_sess_of st' k = None /\ E2eModel.b_session_id st' k = None) /\
  (forall k, ~ ends k -> E2eModel.b_sess_of st' k = E2eModel.b_sess_of st k /\
                         E2eModel.b_session_id st' k = E2eModel.b_session_id st k) /\
  (forall k id key, ends k -> In k unh -> E2eModel.b_session_id st k = Some id -> RibModel.k_mui key = id ->
     (forall j, ends j -> ~ In j unh -> E2eModel.b_session_id st j <> Some id) ->
     E2eModel.b_rib_lookup st' key = E2eModel.b_rib_lookup st key) /\
  (forall key, (forall k, ends k -> In k unh) -> E2eModel.b_rib_lookup st' key = E2eModel.b_rib_lookup st key) /\
  E2eModel.es_s (E2eModel.bs_e st') = E2eModel.es_s (E2eModel.bs_e (E2eModel.b_step st (E2eModel.BReload nil))).
Proof. exact E2eBgpProofs.bgp_reload_unheard_leaves_routes_behind. Qed.
Print Assumptions C02_bgp_reload_unheard_leaves_routes_behind.

(* ALL histories of traffic, edits, connections and loads (any schedule) from start-up: the unit holds the configuration of the
   latest load ([b_loaded]: read off the operations alone); every live session is a session of one of the unit's addresses and
   the settings recorded for it (what a load compares the new file with, Processor.unit_cfg) are my_asn and its peer entry of
   THAT configuration; so a load of the configuration in force ends nobody. *)
Theorem C02_bgp_live_sessions_have_current_settings : forall s0 n0 h,
  let st := E2eModel.b_run (E2eModel.b_init s0 n0) h in
  let c := E2eModel.b_loaded E2eModel.bcfg_init E2eModel.bcfg_init h in
  E2eModel.bs_cfg st = c /\
  (forall k sv, E2eModel.b_sess_of st k = Some sv ->
     E2eModel.is_bgp_addr k = true /\ fst sv = E2eModel.bc_asn c /\ E2eModel.b_peer_of c k = Some (snd sv)) /\
  (forall k, ~ In k (E2eModel.b_ended c (E2eModel.bs_sess st))).
Proof. exact E2eBgpProofs.bgp_live_sessions_have_current_settings. Qed.
Print Assumptions C02_bgp_live_sessions_have_current_settings.

(* ALL histories from start-up that are shorter than 2^32 - 2 operations (an operation takes at most one id from the
   register, whose counter is a u32): no two live sessions have one ingress id; every live session's id is below the id the
   register hands out next (the proviso of C02_bgp_accepted_connection_has_fresh_id, now a theorem); and - when BGP sessions are
   opened and closed through the unit, [bop_plain]: no WBgpOpen / WBgpClose handed to the pipeline model directly - an address
   has a live session exactly when it has an ingress id. *)
Theorem C02_bgp_live_sessions_have_ids_of_their_own : forall s0 n0 h,
  (N.of_nat (length h) < IngressModel.two32 - 2)%N ->
  let st := E2eModel.b_run (E2eModel.b_init s0 n0) h in
  (forall j k id, E2eModel.b_session_id st j = Some id -> E2eModel.b_session_id st k = Some id -> j = k) /\
  (forall k id, E2eModel.b_session_id st k = Some id -> (id < IngressModel.serial (PipeModel.w_reg (E2eModel.b_world st)))%N) /\
  (forallb E2eBgpProofs.bop_plain h = true ->
   forall k, E2eModel.b_sess_of st k = None <-> E2eModel.b_session_id st k = None).
Proof. exact E2eBgpProofs.bgp_live_sessions_have_ids_of_their_own. Qed.
Print Assumptions C02_bgp_live_sessions_have_ids_of_their_own.

(* ... hence, after such a history, without a proviso on the state: an accepted connection gets an id no live session has *)
Theorem C02_bgp_accepted_connection_has_fresh_id_all_histories : forall s0 n0 h k v,
  (N.of_nat (length h) < IngressModel.two32 - 2)%N ->
  let st := E2eModel.b_run (E2eModel.b_init s0 n0) h in
  E2eModel.is_bgp_addr k = true -> E2eModel.b_sess_of st k = None -> E2eModel.b_peer_of (E2eModel.bs_cfg st) k = Some v ->
  let st' := E2eModel.b_step st (E2eModel.BOpen k) in
  E2eModel.b_session_id st' k = Some (IngressModel.serial (PipeModel.w_reg (E2eModel.b_world st))) /\
  (forall j id, j <> k -> E2eModel.b_session_id st j = Some id ->
                E2eModel.b_session_id st' j = Some id /\ E2eModel.b_session_id st' j <> E2eModel.b_session_id st' k).
Proof. exact E2eBgpProofs.bgp_accepted_connection_has_fresh_id_all_histories. Qed.
Print Assumptions C02_bgp_accepted_connection_has_fresh_id_all_histories.

(* The bound on the length cannot be dropped (the model has the u32 of the code, C14_wrap_refuted): address 0 opens a session
   (id 2); address 1 connects and leaves 2^32 - 1 times ([b_wrap_hist]); its next connection is accepted with ingress id 2 -
   the id of the session of address 0, which is still live. No engine can run this history; it is a statement about the model. *)
Theorem C02_bgp_session_ids_wrap_refuted :
  let st := E2eModel.b_run (E2eModel.b_init E2eModel.SNone 0) E2eBgpProofs.b_wrap_hist in
  let st' := E2eModel.b_step st (E2eModel.BOpen 1) in
  E2eModel.b_sess_of st' 0%N <> None /\ E2eModel.b_sess_of st' 1%N <> None /\
  E2eModel.b_session_id st' 0%N = Some 2%N /\ E2eModel.b_session_id st' 1%N = Some 2%N.
Proof. exact E2eBgpProofs.bgp_session_ids_wrap_refuted. Qed.
Print Assumptions C02_bgp_session_ids_wrap_refuted.

(* non-vacuity: two sessions; the entry of address 0 is rewritten and the file loaded (its session ends, the other goes on);
   address 0 comes back: accepted with the new entry and a new id; address 3 has no entry: counted and refused *)
Example C02_bgp_invariants_example :
  let st := E2eModel.b_run (E2eModel.b_init E2eModel.SNone 0) E2eBgpProofs.b_inv_example in
  E2eModel.b_live st = (0%N :: 1%N :: nil) /\ E2eModel.b_sess_of st 0%N = Some (0%N, 2%N) /\ E2eModel.b_sess_of st 1%N = Some (0%N, 1%N) /\
  E2eModel.b_session_id st 0%N = Some 4%N /\ E2eModel.b_session_id st 1%N = Some 3%N /\
  E2eModel.b_peer_of (E2eModel.b_loaded E2eModel.bcfg_init E2eModel.bcfg_init E2eBgpProofs.b_inv_example) 0%N = Some 2%N /\
  E2eModel.bs_accepted st = 4%N /\ forallb E2eBgpProofs.bop_plain E2eBgpProofs.b_inv_example = true.
Proof. exact E2eBgpProofs.bgp_invariants_example. Qed.
