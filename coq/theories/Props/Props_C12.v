(* placeholder while the engine is brought up *)
From RV Require Import Http.DispatchText Http.DispatchModel.
Theorem C12_placeholder : True. Proof. exact I. Qed.
Print Assumptions C12_placeholder.
