(* C12 - Every HTTP request gets a well-formed response; bad ones get 4xx, not a crash.
   Statements only; every proof is [exact <lemma>].
   [handle] is the handler after the four proposed repairs ([handle_v repaired]);
   [handle_v original] is the code as found. [lv] stands for the parsers of
   external crates that the model does not re-state (quantified over). *)
From Coq Require Import NArith List Bool Permutation.
From RV Require Import Http.DispatchText Http.DispatchModel Http.DispatchProofs Http.ConcModel Http.ConcProofs Http.WireModel Http.WireProofs Http.RouterListModel Http.RouterListProofs.
Import ListNotations.
Local Open Scope N_scope.

(* Any request the http crate lets through - any method, raw path, query, header
   list - against any configuration (compression flag, link-report size, any list
   of registered / dropped processors in any order) gets a response whose status is
   200, 400, 404, 405 or the code of a registered stub. There is no Panic outcome. *)
Theorem C12_total_and_classified : forall lv c r,
  request_ok r = true ->
  exists code gz, handle lv c r = Resp code gz /\
                  In code (200 :: 400 :: 404 :: 405 :: stub_codes (cf_sources c)).
Proof. exact handle_total_classified. Qed.
Print Assumptions C12_total_and_classified.

(* ... and bytes the http crate refuses cannot panic the handler either. *)
Theorem C12_never_panics : forall lv c r, handle lv c r <> Panic.
Proof. exact handle_never_panics. Qed.
Print Assumptions C12_never_panics.

Theorem C12_method_gate : forall lv c r,
  request_ok r = true -> rq_method r <> 0 -> handle lv c r = Resp 405 false.
Proof. exact method_gate. Qed.
Print Assumptions C12_method_gate.

Theorem C12_only_get_is_served : forall lv c r code gz,
  handle lv c r = Resp code gz -> code <> 405 -> rq_method r = 0.
Proof. exact non_405_is_get. Qed.
Print Assumptions C12_only_get_is_served.

(* A GET whose decoded path is neither /metrics nor /status and does not lie
   below the base path of any live processor is answered 404. *)
Theorem C12_unknown_path_404 : forall lv c r,
  request_ok r = true -> rq_method r = 0 ->
  decode_path (rq_path r) <> k_metrics -> decode_path (rq_path r) <> k_status ->
  (forall s, In s (cf_sources c) -> src_alive s = true ->
             starts_with (proc_base (src_proc s)) (decode_path (rq_path r)) = false) ->
  exists gz, handle lv c r = Resp 404 gz.
Proof. exact unknown_path_404. Qed.
Print Assumptions C12_unknown_path_404.

(* (the decoded path of a plain ASCII path without '%' is the path itself) *)
Theorem C12_plain_path_decodes_to_itself : forall s,
  is_ascii s = true -> forallb (fun b => negb (b =? 37)) s = true -> decode_path s = s.
Proof. exact decode_path_plain. Qed.
Print Assumptions C12_plain_path_decodes_to_itself.

(* Resources::process_request: dead processors and processors that decline are
   skipped, the first live one that answers decides - in either variant of the code. *)
Theorem C12_first_answer_wins : forall vr lv n dead s t r x,
  Forall (fun d => src_alive d = false \/ proc_run vr lv n (src_proc d) r = PNone) dead ->
  src_alive s = true -> proc_run vr lv n (src_proc s) r = x -> x <> PNone ->
  process_all vr lv n (dead ++ s :: t) r = x.
Proof. exact first_answer_wins. Qed.
Print Assumptions C12_first_answer_wins.

(* Resources::register keeps every sub-resource in front of every main resource,
   over all histories of registrations, drops and requests. *)
Theorem C12_sub_resources_first : forall lv ops a b pre mid post,
  cf_sources (fst (run lv cfg_init ops)) = pre ++ a :: mid ++ b :: post ->
  src_sub b = true -> src_sub a = true.
Proof. exact sub_resources_first_init. Qed.
Print Assumptions C12_sub_resources_first.

(* rib: a remainder that is not a prefix (resp. not an ingress id) is a 400 *)
Theorem C12_rib_bad_prefix_400 : forall vr lv base r rest,
  strip_pfx base (decode_path (rq_path r)) = Some rest ->
  List.length (split_on is_slash (rq_path r)) <> 3%nat ->
  parse_prefix rest = None ->
  rib_process vr lv base r = PResp 400.
Proof. exact rib_bad_prefix_400. Qed.
Print Assumptions C12_rib_bad_prefix_400.

Theorem C12_rib_bad_ingress_id_400 : forall vr lv base r rest,
  strip_pfx base (decode_path (rq_path r)) = Some rest ->
  List.length (split_on is_slash (rq_path r)) = 3%nat ->
  parse_uint u32_max rest = None ->
  rib_process vr lv base r = PResp 400.
Proof. exact rib_bad_ingress_id_400. Qed.
Print Assumptions C12_rib_bad_ingress_id_400.

(* rib: a query parameter that none of the seven recognised names matches is never answered 200 *)
Theorem C12_rib_unknown_param_not_200 : forall vr lv rest q p,
  In p (params_of q) -> pm_used p = false ->
  (forall n, In n [k_include; k_details; k_select; k_discard; k_filter_op; k_sort; k_format] -> mp_parse n p = None) ->
  rib_prefix_query vr lv rest q <> PResp 200.
Proof. exact rib_unknown_param_not_200. Qed.
Print Assumptions C12_rib_unknown_param_not_200.

(* gzip: the part of "only when the client accepts it" that the code satisfies:
   compression is configured, the request was a GET, and the first Accept-Encoding
   value is visible ASCII and contains "gzip". *)
Theorem C12_gzip_only_if_named_partial : forall lv c r code,
  handle lv c r = Resp code true ->
  cf_compress c = true /\ rq_method r = 0 /\
  exists v, header_get ae_name (rq_headers r) = Some v /\ hv_to_str_ok v = true /\ contains k_gzip v = true.
Proof. exact gzip_only_if_named. Qed.
Print Assumptions C12_gzip_only_if_named_partial.

(* ... and the full statement is false: `Accept-Encoding: gzip;q=0` gets a gzip body (known finding). *)
Theorem C12_gzip_q0_refuted :
  request_ok w_q0 = true /\ handle lv0 cfg_rib w_q0 = Resp 200 true /\ ae_accepts_gzip (rq_headers w_q0) = false.
Proof. exact gzip_q0_refuted. Qed.
Print Assumptions C12_gzip_q0_refuted.

(* the server keeps answering: after any history, GET /status is a 200; no request of any history panics *)
Theorem C12_keeps_answering : forall lv c ops hs,
  forallb (fun h => forallb hv_byte_ok (snd h)) hs = true ->
  exists gz, handle lv (fst (run lv c ops)) (MkReq 0 k_status None hs) = Resp 200 gz.
Proof. exact status_answers_after_any_history. Qed.
Print Assumptions C12_keeps_answering.

Theorem C12_no_panic_in_any_history : forall lv ops c, ~ In Panic (snd (run lv c ops)).
Proof. exact run_never_panics. Qed.
Print Assumptions C12_no_panic_in_any_history.

(* The code as found does NOT satisfy C12_never_panics: four panic sites, each with a
   request the http crate accepts (reproduced on the implementation, then repaired). *)
Theorem C12_original_accept_encoding_refuted :
  request_ok w_ae = true /\ handle_v original lv0 cfg_rib w_ae = Panic /\ handle lv0 cfg_rib w_ae = Resp 200 false.
Proof. exact original_accept_encoding_panics. Qed.
Print Assumptions C12_original_accept_encoding_refuted.

Theorem C12_original_graph_slice_refuted :
  request_ok w_slice = true /\ handle_v original lv0 cfg_rib w_slice = Panic /\ handle lv0 cfg_rib w_slice = Resp 200 false.
Proof. exact original_graph_slice_panics. Qed.
Print Assumptions C12_original_graph_slice_refuted.

Theorem C12_original_graph_empty_refuted :
  request_ok w_empty = true /\ handle_v original lv0 cfg_init w_empty = Panic /\ handle lv0 cfg_init w_empty = Resp 200 false.
Proof. exact original_graph_empty_panics. Qed.
Print Assumptions C12_original_graph_empty_refuted.

Theorem C12_original_filter_refuted :
  request_ok w_asn = true /\ handle_v original lv0 cfg_rib w_asn = Panic /\ handle lv0 cfg_rib w_asn = Resp 400 false /\
  request_ok w_comm = true /\ handle_v original lv0 cfg_rib w_comm = Panic /\ handle lv0 cfg_rib w_comm = Resp 400 false.
Proof. exact original_filter_panics. Qed.
Print Assumptions C12_original_filter_refuted.

(* non-vacuity: one history that meets 405, 404, 200+gzip, 400, a stub shadowed by a
   sub-resource, the same path after the sub-resource is dropped, the repaired filter, /status *)
Example C12_example :
  snd (run lv0 cfg_init ex_ops) =
    [Resp 405 false; Resp 404 false; Resp 200 true; Resp 400 false; Resp 200 false; Resp 418 false; Resp 400 false; Resp 200 false]
  /\ forallb request_ok (flat_map (fun o => match o with OReq r => [r] | _ => [] end) ex_ops) = true.
Proof. vm_compute. split; reflexivity. Qed.

(* ------------------------------------------------------------------------------------------------
   Concurrency (Http/ConcModel.v). Part 1: Resources::register as threads run it - acquire / load /
   build / store / release steps of any number of threads under any schedule, owners dropping their
   processors at any moment. [LockAll] is the code as it is (mutex around load .. store). *)

(* The live entries of the collection are, at every moment of every interleaving, those of the
   sequential history in the log (registrations in the order of their stores, drops where they
   happened), computed with DispatchModel's register / drop_src. *)
Theorem C12_conc_register_is_sequential : forall init progs sched,
  forallb src_alive init = true ->
  live (rs_dead (rrun LockAll (rinit init progs) sched)) (rs_cur (rrun LockAll (rinit init progs) sched))
  = filter src_alive (seq_run init (rs_log (rrun LockAll (rinit init progs) sched))).
Proof. exact reg_conc_is_sequential. Qed.
Print Assumptions C12_conc_register_is_sequential.

(* ... hence no request can tell it from the sequential engine's [run] over that history: every theorem
   above that quantifies over histories speaks about concurrently registering components too. *)
Theorem C12_conc_requests_as_sequential : forall vr lv c n init progs sched r,
  forallb src_alive init = true ->
  handle_v vr lv (conc_config c n (rrun LockAll (rinit init progs) sched)) r
  = handle_v vr lv (MkCfg c n (cf_sources (fst (run lv (MkCfg c n init) (rs_log (rrun LockAll (rinit init progs) sched)))))) r.
Proof. exact reg_conc_requests_as_run. Qed.
Print Assumptions C12_conc_requests_as_sequential.

(* Every register call that has returned left its endpoint in the collection (same processor, same
   sub-resource flag) for as long as the owner keeps the processor alive - after any interleaving. *)
Theorem C12_conc_all_registered_present : forall init progs sched t th id r,
  forallb src_alive init = true ->
  nth_error (rs_thr (rrun LockAll (rinit init progs) sched)) t = Some th ->
  In (id, r) (rt_ret th) ->
  ~ In id (rs_dead (rrun LockAll (rinit init progs) sched)) ->
  exists e, In e (rs_cur (rrun LockAll (rinit init progs) sched)) /\
            src_id e = id /\ src_proc e = rr_proc r /\ src_sub e = rr_sub r.
Proof. exact reg_conc_all_present. Qed.
Print Assumptions C12_conc_all_registered_present.

(* ... and when all threads are done, the calls that have returned are exactly the calls of the programs. *)
Theorem C12_conc_all_calls_return : forall v init progs sched,
  all_returned (rrun v (rinit init progs) sched) = true ->
  map (fun th => map snd (rt_ret th)) (rs_thr (rrun v (rinit init progs) sched)) = progs.
Proof. exact reg_conc_all_returned. Qed.
Print Assumptions C12_conc_all_calls_return.

(* The order invariant of C12_sub_resources_first holds at every moment of every interleaving (with or
   without the mutex: every vec that is stored was built from a vec that was loaded). *)
Theorem C12_conc_sub_resources_first : forall v init progs sched a b pre mid post,
  subs_first init = true ->
  rs_cur (rrun v (rinit init progs) sched) = pre ++ a :: mid ++ b :: post ->
  src_sub b = true -> src_sub a = true.
Proof. exact reg_conc_subs_first. Qed.
Print Assumptions C12_conc_sub_resources_first.

(* With the mutex only around the store - or without it - two overlapping registrations lose one
   endpoint: both calls returned, nothing was dropped, and the first component's path answers 404. *)
Theorem C12_conc_lock_store_only_refuted :
  let s := rrun LockStore (rinit [] w_progs) w_sched in
  all_returned s = true /\ rs_dead s = [] /\
  map rt_ret (rs_thr s) = [[(0, MkRq (PStub k_a 200) false)]; [(1, MkRq (PStub k_b 200) false)]] /\
  rs_cur s = [MkSrc 1 (PStub k_b 200) false true] /\
  handle lv0 (conc_config false 0 s) w_req_a = Resp 404 false /\
  handle lv0 (conc_config false 0 s) w_req_b = Resp 200 false.
Proof. exact reg_conc_lock_store_only_refuted. Qed.
Print Assumptions C12_conc_lock_store_only_refuted.

Theorem C12_conc_no_lock_refuted :
  let s := rrun LockNone (rinit [] w_progs) w_sched in
  all_returned s = true /\ rs_dead s = [] /\
  map rt_ret (rs_thr s) = [[(0, MkRq (PStub k_a 200) false)]; [(1, MkRq (PStub k_b 200) false)]] /\
  rs_cur s = [MkSrc 1 (PStub k_b 200) false true] /\
  handle lv0 (conc_config false 0 s) w_req_a = Resp 404 false /\
  handle lv0 (conc_config false 0 s) w_req_b = Resp 200 false.
Proof. exact reg_conc_no_lock_refuted. Qed.
Print Assumptions C12_conc_no_lock_refuted.

(* non-vacuity: the same two programs and the same schedule on the code as it is *)
Example C12_conc_register_example :
  let s := rrun LockAll (rinit [] w_progs) w_sched in
  all_returned s = true /\
  rs_cur s = [MkSrc 0 (PStub k_a 200) false true; MkSrc 1 (PStub k_b 200) false true] /\
  handle lv0 (conc_config false 0 s) w_req_a = Resp 200 false /\
  handle lv0 (conc_config false 0 s) w_req_b = Resp 200 false /\
  request_ok w_req_a = true /\ request_ok w_req_b = true.
Proof. exact reg_conc_example. Qed.

(* Part 2: the connection's Mutex<Option<BmpState>> - the connection task (process_msg: take .. put in
   one critical section, any number of await points in between; its own as_ref().unwrap() sites), any
   number of router-info requests and router-list renderings, any schedule. [HoldLock] = the code as it is. *)

(* the invariant the router-info handler relies on: the Option is Some whenever the mutex is free *)
Theorem C12_statelock_some_when_free : forall base names st0 thr sched,
  forallb fresh_thread thr = true -> forallb no_abort thr = true ->
  ls_owner (lrun HoldLock base names (linit st0 thr) sched) = None ->
  ls_val (lrun HoldLock base names (linit st0 thr) sched) <> None.
Proof. exact statelock_some_when_free. Qed.
Print Assumptions C12_statelock_some_when_free.

(* every router-info request that was answered got the answer of the sequential model - never a panic *)
Theorem C12_statelock_info_answers : forall base names st0 thr sched t r x,
  forallb fresh_thread thr = true -> forallb no_abort thr = true ->
  nth_error (ls_thr (lrun HoldLock base names (linit st0 thr) sched)) t = Some (TInfo r (QDone x)) ->
  x = info_process base names r /\ x <> PPanic.
Proof. exact statelock_info_answers. Qed.
Print Assumptions C12_statelock_info_answers.

(* the router list never finds the state gone; the connection task never panics on its own state *)
Theorem C12_statelock_list_and_handler : forall base names st0 thr sched t,
  forallb fresh_thread thr = true -> forallb no_abort thr = true ->
  (forall b, nth_error (ls_thr (lrun HoldLock base names (linit st0 thr) sched)) t = Some (TList (LDone b)) -> b = true) /\
  (forall prog pc pan, nth_error (ls_thr (lrun HoldLock base names (linit st0 thr) sched)) t = Some (THandler prog pc pan) -> pan = false).
Proof. exact statelock_list_and_handler. Qed.
Print Assumptions C12_statelock_list_and_handler.

(* nobody waits for ever: whoever holds the lock is a thread whose next step is enabled *)
Theorem C12_statelock_holder_runs : forall base names st0 thr sched t,
  forallb fresh_thread thr = true -> forallb no_abort thr = true ->
  ls_owner (lrun HoldLock base names (linit st0 thr) sched) = Some t ->
  exists th, nth_error (ls_thr (lrun HoldLock base names (linit st0 thr) sched)) t = Some th /\ holds th = true /\
             nth_error (ls_thr (lstep HoldLock base names (lrun HoldLock base names (linit st0 thr) sched) t)) t <> Some th.
Proof. exact statelock_holder_runs. Qed.
Print Assumptions C12_statelock_holder_runs.

(* take - RELEASE - process - acquire - put: after the take the lock is free and the Option is None; the
   info request that gets the lock panics (no response), the router list skips the router. The same
   schedule on the code as it is: both wait and are served. *)
Theorem C12_statelock_release_refuted :
  let s1 := lrun ReleaseLock k_routers [k_one] (linit 0 w_threads) (firstn 2 w_lsched) in
  let s := lrun ReleaseLock k_routers [k_one] (linit 0 w_threads) w_lsched in
  ls_owner s1 = None /\ ls_val s1 = None /\
  nth_error (ls_thr s) 1 = Some (TInfo w_info_req (QDone PPanic)) /\
  nth_error (ls_thr s) 2 = Some (TList (LDone false)) /\
  let s' := lrun HoldLock k_routers [k_one] (linit 0 w_threads) w_lsched in
  nth_error (ls_thr s') 1 = Some (TInfo w_info_req (QDone (PResp 200))) /\
  nth_error (ls_thr s') 2 = Some (TList (LDone true)) /\
  forallb fresh_thread w_threads = true /\ forallb no_abort w_threads = true.
Proof. exact statelock_release_refuted. Qed.
Print Assumptions C12_statelock_release_refuted.

(* the hypothesis no_abort is needed: the (dead) Aborted arm of process_msg returns without putting the
   state back, after which the connection task's own cleanup panics *)
Theorem C12_statelock_abort_refuted :
  let thr := [THandler [MAbort; MPeek] HIdle false] in
  let s1 := lrun HoldLock k_routers [k_one] (linit 0 thr) [0; 0; 0]%nat in
  let s := lrun HoldLock k_routers [k_one] (linit 0 thr) [0; 0; 0; 0; 0]%nat in
  ls_owner s1 = None /\ ls_val s1 = None /\ nth_error (ls_thr s) 0 = Some (THandler [] HIdle true).
Proof. exact statelock_abort_refuted. Qed.
Print Assumptions C12_statelock_abort_refuted.

(* ================================================================ the wire: bytes on a TCP connection
   Http/WireModel.v re-states what sits between the socket and Server::handle_request: httparse's request parser,
   hyper 0.14's Server::parse (method, request-target via http::Uri, header table, Transfer-Encoding /
   Content-Length / Connection) and, per connection, the sequence of requests ([wire_conn]: all bytes a client
   sends -> what happens, request by request). Engine c12tcp runs it against the real server over loopback TCP. *)

(* Whatever bytes arrive: a request that hyper hands to rotonda's handler is one the dispatch model accepts -
   every theorem above that assumes [request_ok] covers everything that can come in over the wire.
   ([request_ok] had to learn the asterisk-form and authority-form request-targets for this to hold: found with
   the engine, `GET * HTTP/1.1` and `GET status HTTP/1.1` are delivered with the paths "*" and "".) *)
Theorem C12_wire_delivered_is_acceptable : forall l d rest,
  wire_parse l = WOk d rest -> request_ok (dl_req d) = true.
Proof. exact wire_delivered_request_ok. Qed.
Print Assumptions C12_wire_delivered_is_acceptable.

(* ... and the other direction for origin-form targets: under any method token the http crate takes, a path that
   starts with '/' and a query made of the bytes [request_ok] allows (up to hyper's 65534 bytes) IS delivered, as
   exactly that request, keep-alive, whatever follows on the connection. *)
Theorem C12_wire_origin_form_delivered : forall m p q rest,
  m <> [] -> forallb method_char m = true ->
  starts_with [47] p = true -> forallb path_byte_ok p = true -> query_ok q = true ->
  blen (p ++ qpart q) <= max_uri_len ->
  wire_parse (render_origin m p q ++ [13; 10] ++ rest) =
    WOk (MkDel m (MkReq (if beqb m k_get then 0 else 1) p q []) true false) rest.
Proof. exact wire_origin_form_delivered. Qed.
Print Assumptions C12_wire_origin_form_delivered.

(* A byte the http crate does not take in a path is refused by the request-target parser ('?' and '#' end the path). *)
Theorem C12_wire_bad_path_byte_refused : forall pre b post, forallb path_byte_ok pre = true ->
  path_byte_ok b = false -> (b =? 63) = false -> (b =? 35) = false ->
  uri_parse (47 :: pre ++ b :: post) = None.
Proof. exact uri_parse_origin_refuses. Qed.
Print Assumptions C12_wire_bad_path_byte_refused.

(* Every answer on every connection, for all bytes and every configuration: rotonda's handler answers with a status
   of its classification (no Panic, no Rejected), or hyper answers 400 / 414 / 431 itself, or the connection ends /
   is outside the model (a request body was announced, HTTP/2 preface). *)
Theorem C12_wire_total_and_classified : forall lv c l,
  Forall (answer_classified c) (map (answer_of lv c) (wire_conn l)).
Proof. exact wire_conn_classified. Qed.
Print Assumptions C12_wire_total_and_classified.

Theorem C12_wire_never_panics : forall lv c l, ~ In (AResp Panic) (map (answer_of lv c) (wire_conn l)).
Proof. exact wire_never_panics. Qed.
Print Assumptions C12_wire_never_panics.

(* The follow-up of every case: `GET /status HTTP/1.1` on a new connection is delivered and answered 200 under every
   configuration (the model keeps no state between connections: nothing sent earlier can change this). *)
Theorem C12_wire_keeps_answering : forall lv c,
  exists d gz, wire_conn status_request = [EDeliver d; EWait] /\ handle lv c (dl_req d) = Resp 200 gz.
Proof. exact wire_status_answers. Qed.
Print Assumptions C12_wire_keeps_answering.

(* non-vacuity: a pipelined connection - a delivered GET with a query, a request hyper refuses (space in the target):
   the first is answered by the handler, the second by hyper's 400, then the connection is over *)
Example C12_wire_example :
  map (answer_of lv0 cfg_rib) (wire_conn example_conn) = [AResp (Resp 400 false); AHyper 400].
Proof. vm_compute. reflexivity. Qed.

(* ---------------------------------------------------------------- the router list over a population of routers *)
(* Every sort key is answered whatever the router states: for every sort_by / sort_order value (present or not) and every
   list of monitored routers - each still initiating, or past its Initiation with any set of peers up, EoR capable or not,
   dumping or not, any error counters - sort_routers returns what the two parameters alone decide: the page with ALL
   routers, or the 400 for an unknown sort_by (first) / sort_order. It never panics. *)
Theorem C12_router_list_every_sort_key_answered : forall sb so rs,
  sort_routers true sb so rs = expected_result sb so (N.of_nat (List.length rs)) /\
  sort_routers true sb so rs <> RLPanic.
Proof. exact (fun sb so rs => conj (sort_routers_total sb so rs) (sort_routers_never_panics sb so rs)). Qed.
Print Assumptions C12_router_list_every_sort_key_answered.

(* ... hence the processor over ANY population answers exactly what [routers_process] (the model used by every theorem
   above for a registered `PRouters base`) says: status classification, 404, first-answer-wins, histories, concurrency
   and wire theorems hold whatever routers are connected. *)
Theorem C12_router_list_status_independent_of_routers : forall base rs r,
  routers_process_st true base rs r = routers_process base r.
Proof. exact routers_process_st_indep. Qed.
Print Assumptions C12_router_list_status_independent_of_routers.

(* The request space named in the design notes, swept by computation: 15 sort_by values (absent, the 12 keys, "bogus",
   empty) x 5 sort_order values x the 64 populations made of {initiating, no peer up, peers up none EoR capable, all
   dumping, mixed, all peers down again}. *)
Theorem C12_router_list_request_space : rl_space_ok true = true.
Proof. exact rl_space_guarded. Qed.
Print Assumptions C12_router_list_request_space.

(* The numbers a percentage key divides by, over all message histories of a router: dumping <= EoR capable <= up
   (so "no EoR-capable peer" is the one way to a zero divisor that "no peer up" does not cover). *)
Theorem C12_router_list_counts_ordered : forall evs,
  let ps := peers_of (rl_run evs) in n_dumping ps <= n_eor ps /\ n_eor ps <= n_up ps.
Proof. exact rl_counts_ordered. Qed.
Print Assumptions C12_router_list_counts_ordered.

(* The percentage keys WITHOUT the zero guard of calc_u8_pc (`v * 10_000 / total`, seeded change C12-c2): a router past its
   Initiation with no peer up, resp. no EoR-capable peer up, panics the handler - also when the request would have been
   refused for its sort_order; the same requests are answered by the code as it is. *)
Theorem C12_router_list_unguarded_pc_refuted :
  sort_routers false (Some k_peers_up_eor_capable_pc) None [st_no_peers] = RLPanic /\
  sort_routers false (Some k_peers_up_dumping_pc) None [st_none_eor] = RLPanic /\
  sort_routers false (Some k_peers_up_eor_capable_pc) (Some k_bogus) [st_mixed; st_all_down] = RLPanic /\
  sort_routers true (Some k_peers_up_eor_capable_pc) None [st_no_peers] = RLRows 1 /\
  sort_routers true (Some k_peers_up_dumping_pc) None [st_none_eor] = RLRows 1.
Proof. exact unguarded_pc_refuted. Qed.
Print Assumptions C12_router_list_unguarded_pc_refuted.

(* ... and what the unguarded variant does satisfy: populations in which every router past its Initiation has an
   EoR-capable peer up (the hypothesis that excludes the defect class). *)
Theorem C12_router_list_unguarded_pc_partial : forall sb so rs,
  forallb has_eor_peer rs = true ->
  sort_routers false sb so rs = expected_result sb so (N.of_nat (List.length rs)).
Proof. exact sort_routers_unguarded_partial. Qed.
Print Assumptions C12_router_list_unguarded_pc_partial.

(* The ORDER of the rows. For every sort_by value (one of the keys or not), every sort_order and every population of
   routers (any states, any sysName / sysDesc): the rows of the page are a permutation of the population's rows - every
   router once, paired with its own key [row_key] - and the keys are non-decreasing down the page, up the page for
   sort_order=desc ([in_reading_order]). Exact up to the order of rows with equal keys (sort_unstable_by). *)
Theorem C12_router_list_sorted_by_key : forall sb so rs,
  exists keyed rows,
    keyed_from true sb 0 rs = Some keyed /\
    map snd keyed = map N.of_nat (seq 0 (List.length rs)) /\
    page_rows true sb so rs = Some rows /\
    Permutation keyed rows /\
    sortedb (in_reading_order so (map fst rows)) = true.
Proof. exact page_rows_sorted_by_key. Qed.
Print Assumptions C12_router_list_sorted_by_key.

(* The population the engine's corpus uses to tell the keys apart: for every two different judged keys k1, k2, sorting
   it by k2 leaves the k1 column out of order - a key that sorts on the wrong metric cannot pass. *)
Theorem C12_router_list_keys_told_apart : all_keys_disagree rl_discriminating = true.
Proof. exact discriminating_population. Qed.
Print Assumptions C12_router_list_keys_told_apart.

(* non-vacuity: the mixed router has 3 peers up, 2 EoR capable (66%), 1 dumping (50%); the population of all six named
   states is listed under the percentage key in descending order; a bogus key is a 400 *)
Example C12_router_list_example :
  rl_cell st_mixed = Some (3, 2, 66, 1, 50) /\ rl_cell st_all_down = Some (0, 0, 0, 0, 0) /\
  sort_routers true (Some k_peers_up_dumping_pc) (Some k_desc) rl_named_states = RLRows 6 /\
  sort_routers true (Some k_bogus) None rl_named_states = RLErr 0 /\
  forallb has_eor_peer rl_named_states = false /\ forallb has_eor_peer [st_initiating; st_mixed; st_all_dumping] = true.
Proof. vm_compute. repeat split; reflexivity. Qed.
