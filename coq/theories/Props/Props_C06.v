(* C06 - No bytes from a peer or file can panic or wedge a receiver (BMP connection).
   Statements only; every proof is [exact <lemma>].
   Model: Bmp/BmpStreamModel.v. [run_from parse fixed tl rid evs s] is
   router_handler.rs read_from_router over a reader whose behaviour is the
   script [evs] (bytes / failing reads of every io::ErrorKind class) followed by
   end of file or, for [THang], by silence until the unit's gate is terminated.
   [parse] stands for routecore's BMP parser: every theorem holds for EVERY
   parser. [fixed = true] is the code with the short-length repair, [false]
   the code before it. *)
From stdpp Require Import gmap.
From Coq Require Import NArith.
From RV Require Import Ingress.IngressModel Rib.RibModel Bmp.BmpModel Bmp.BmpStreamModel Bmp.BmpStreamProofs.
From RV Require Import Bmp.BmpPageModel Bmp.BmpPageProofs.
Local Open Scope N_scope.

(* No stream of read events makes the connection task panic. *)
Theorem C06_no_panic : forall parse tl rid evs s p r s',
  run_from parse true tl rid evs s <> Panic p r s'.
Proof. exact run_from_no_panic. Qed.
Print Assumptions C06_no_panic.

(* The read loop never stops making progress: every iteration consumes at least
   one read event or ends the session, so the loop is over after at most
   [length evs + 1] iterations (one unit of fuel per iteration is never
   exhausted) - also for the code before the repair. End of file in particular
   ends the session instead of being re-read for ever. *)
Theorem C06_progress : forall parse fixed tl rid evs s,
  run_from parse fixed tl rid evs s <> OutOfFuel.
Proof. exact run_from_progress. Qed.
Print Assumptions C06_progress.

(* Hence every connection ends in the post-loop cleanup. *)
Theorem C06_always_ends_in_cleanup : forall parse tl rid evs s,
  exists e rest s' out, run_from parse true tl rid evs s = Done e rest s' out.
Proof. exact run_from_total. Qed.
Print Assumptions C06_always_ends_in_cleanup.

(* ... and it ends only for a cause on the socket or in the framing: end of
   file, unit shutdown, an error kind that is_fatal calls fatal delivered by the
   reader (the rest of the script starts right after it), or a length field
   smaller than the header. Content the parser or the state machine rejects,
   and non-fatal error kinds, never end the session. *)
Theorem C06_session_ends_only_for_cause : forall parse fixed tl rid evs s e rest s' out,
  run_from parse fixed tl rid evs s = Done e rest s' out -> end_reason_ok tl evs e rest.
Proof. exact run_from_end_reason. Qed.
Print Assumptions C06_session_ends_only_for_cause.

(* A non-fatal error is followed by the next read; bytes of a header it
   interrupted are dropped (the code restarts framing at the next byte). *)
Theorem C06_nonfatal_error_then_next_read : forall parse fixed tl rid bs k evs s,
  (length bs < 5)%nat -> is_fatal k = false ->
  run_from parse fixed tl rid (map EByte bs ++ EErr k :: evs) s = run_from parse fixed tl rid evs s.
Proof. exact partial_header_dropped. Qed.
Print Assumptions C06_nonfatal_error_then_next_read.

(* How and where the session ends does not depend on what the parser or the
   state machine make of the frames. *)
Theorem C06_end_independent_of_content : forall parse1 parse2 tl rid1 rid2 evs s1 s2,
  shape (run_from parse1 true tl rid1 evs s1) = shape (run_from parse2 true tl rid2 evs s2).
Proof. exact run_from_shape_parse_indep. Qed.
Print Assumptions C06_end_independent_of_content.

(* The code before the repair: five bytes whose length field says 4 kill the task ... *)
Theorem C06_short_length_refuted :
  exists s, run_stream (fun _ => None) false TEof 1 short_frame = Panic PSliceShortLen [] s.
Proof. exact short_length_panics. Qed.
Print Assumptions C06_short_length_refuted.

(* ... and that is its only panic: on every stream it either dies at that slice
   or does exactly what the repaired code does. *)
Theorem C06_old_code_partial : forall parse tl rid evs s,
  (exists r s', run_from parse false tl rid evs s = Panic PSliceShortLen r s') \/
  run_from parse false tl rid evs s = run_from parse true tl rid evs s.
Proof. exact run_from_old_partial. Qed.
Print Assumptions C06_old_code_partial.

(* non-vacuity: an Initiation-like and a Peer-Up-like frame, a read interrupted
   inside the next header, a connection reset: the session ends at the reset with
   the rest of the script unread, and the peer that came up is withdrawn. *)
Example C06_example :
  let evs := map EByte [3; 0; 0; 0; 6; 4; 3; 0; 0; 0; 6; 3; 3; 0] ++ [EErr KInterrupted] ++
             map EByte [3; 0; 0; 0; 5] ++ [EErr KConnectionReset; EByte 7] in
  exists s, run_stream parse_w true TEof 1 evs =
    Done (EndErr KConnectionReset) [EByte 7] s [GUpd (UWithdrawBulk [3]); GEos 2].
Proof. vm_compute. eexists. reflexivity. Qed.

(* ---- the HTTP API keeps working: the router's page after any stream ----
   Model: Bmp/BmpPageModel.v. [ring_of d h] is ParseErrorsRingBuffer after the
   pushes of the history [h] (a Vec and the index of the next slot, as in
   metrics.rs); [ring_shown] is what router_info/response.rs lists of get()'s
   answer, None = get() panics (split_at past the end of the Vec). *)

(* For EVERY history of parse errors get() returns, the page lists at most
   MAX_RECENT_PARSE_ERRORS = 10 of them, they are the most recent ones in the
   order of arrival, and all of them while there are no more than 10. *)
Theorem C06_parse_errors_get_total : forall (A : Type) (d : A) (h : list A),
  exists l, ring_shown (ring_of d h) = Some l /\ (length l <= ring_max)%nat /\
            (exists older, h = older ++ l) /\ ((length h <= ring_max)%nat -> l = h).
Proof. exact @ring_page_total. Qed.
Print Assumptions C06_parse_errors_get_total.

(* exactly: the last 10 entries of the history, oldest first *)
Theorem C06_parse_errors_shown_exact : forall (A : Type) (d : A) (h : list A),
  ring_shown (ring_of d h) = Some (last_n ring_max h).
Proof. exact @ring_shown_exact. Qed.
Print Assumptions C06_parse_errors_shown_exact.

(* That needs the discipline push keeps (the index stays inside the Vec): a
   buffer of ten entries whose index ran on to 11 makes get() panic. *)
Theorem C06_parse_errors_get_needs_index_in_range :
  ring_get (MkRing (replicate 10%nat 0) 11%nat) = None.
Proof. exact ring_get_index_past_end. Qed.
Print Assumptions C06_parse_errors_get_needs_index_in_range.

(* An HTTP client that asks for the router's page after the connection handed
   out any k read events of any script, under any parser and from any session
   state, is either too late (the session ended within those events) or gets a
   page listing at most 10 parse errors - the request handler never panics. *)
Theorem C06_router_page_after_any_stream : forall parse rid evs k s0,
  page_at parse rid evs k s0 = None \/
  exists l, page_at parse rid evs k s0 = Some (Some l) /\ (length l <= ring_max)%nat.
Proof. exact page_at_shape. Qed.
Print Assumptions C06_router_page_after_any_stream.

Theorem C06_router_page_never_panics : forall parse rid evs k s0,
  page_at parse rid evs k s0 <> Some None.
Proof. exact page_at_never_panics. Qed.
Print Assumptions C06_router_page_never_panics.

(* non-vacuity: twelve parse errors; the page lists the 3rd to the 12th *)
Example C06_page_example :
  ring_shown (ring_of 0 [1;2;3;4;5;6;7;8;9;10;11;12]) = Some [3;4;5;6;7;8;9;10;11;12].
Proof. vm_compute. reflexivity. Qed.
