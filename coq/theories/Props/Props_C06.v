(* C06 - No bytes from a peer or file can panic or wedge a receiver (BMP connection).
   Statements only; every proof is [exact <lemma>].
   Model: Bmp/BmpStreamModel.v. [run_from parse fixed tl rid evs s] is
   router_handler.rs read_from_router over a reader whose behaviour is the
   script [evs] (bytes / failing reads of every io::ErrorKind class) followed by
   end of file or, for [THang], by silence until the unit's gate is terminated.
   [parse] stands for routecore's BMP parser: every theorem holds for EVERY
   parser. [fixed = true] is the code with the short-length repair, [false]
   the code before it. *)
From stdpp Require Import gmap.
From Coq Require Import NArith.
From RV Require Import Ingress.IngressModel Rib.RibModel Bmp.BmpModel Bmp.BmpStreamModel Bmp.BmpStreamProofs.
From RV Require Import Bmp.BmpPageModel Bmp.BmpPageProofs.
From RV Require Import Bgp.BgpSessionModel Bgp.BgpRxModel Bgp.BgpRxProofs Pipe.PipeRaw Mrt.MrtModel Mrt.MrtProofs.
From RV Require Import Bmp.BmpWireAbs Bmp.BmpWireAbsProofs.
From RV Require Bgp.BgpModel Bmp.BmpWire.
Local Open Scope N_scope.

(* No stream of read events makes the connection task panic. *)
Theorem C06_no_panic : forall parse tl rid evs s p r s',
  run_from parse true tl rid evs s <> Panic p r s'.
Proof. exact run_from_no_panic. Qed.
Print Assumptions C06_no_panic.

(* The read loop never stops making progress: every iteration consumes at least
   one read event or ends the session, so the loop is over after at most
   [length evs + 1] iterations (one unit of fuel per iteration is never
   exhausted) - also for the code before the repair. End of file in particular
   ends the session instead of being re-read for ever. *)
Theorem C06_progress : forall parse fixed tl rid evs s,
  run_from parse fixed tl rid evs s <> OutOfFuel.
Proof. exact run_from_progress. Qed.
Print Assumptions C06_progress.

(* Hence every connection ends in the post-loop cleanup. *)
Theorem C06_always_ends_in_cleanup : forall parse tl rid evs s,
  exists e rest s' out, run_from parse true tl rid evs s = Done e rest s' out.
Proof. exact run_from_total. Qed.
Print Assumptions C06_always_ends_in_cleanup.

(* ... and it ends only for a cause on the socket or in the framing: end of
   file, unit shutdown, an error kind that is_fatal calls fatal delivered by the
   reader (the rest of the script starts right after it), or a length field
   smaller than the header. Content the parser or the state machine rejects,
   and non-fatal error kinds, never end the session. *)
Theorem C06_session_ends_only_for_cause : forall parse fixed tl rid evs s e rest s' out,
  run_from parse fixed tl rid evs s = Done e rest s' out -> end_reason_ok tl evs e rest.
Proof. exact run_from_end_reason. Qed.
Print Assumptions C06_session_ends_only_for_cause.

(* A non-fatal error is followed by the next read; bytes of a header it
   interrupted are dropped (the code restarts framing at the next byte). *)
Theorem C06_nonfatal_error_then_next_read : forall parse fixed tl rid bs k evs s,
  (length bs < 5)%nat -> is_fatal k = false ->
  run_from parse fixed tl rid (map EByte bs ++ EErr k :: evs) s = run_from parse fixed tl rid evs s.
Proof. exact partial_header_dropped. Qed.
Print Assumptions C06_nonfatal_error_then_next_read.

(* How and where the session ends does not depend on what the parser or the
   state machine make of the frames. *)
Theorem C06_end_independent_of_content : forall parse1 parse2 tl rid1 rid2 evs s1 s2,
  shape (run_from parse1 true tl rid1 evs s1) = shape (run_from parse2 true tl rid2 evs s2).
Proof. exact run_from_shape_parse_indep. Qed.
Print Assumptions C06_end_independent_of_content.

(* The code before the repair: five bytes whose length field says 4 kill the task ... *)
Theorem C06_short_length_refuted :
  exists s, run_stream (fun _ => None) false TEof 1 short_frame = Panic PSliceShortLen [] s.
Proof. exact short_length_panics. Qed.
Print Assumptions C06_short_length_refuted.

(* ... and that is its only panic: on every stream it either dies at that slice
   or does exactly what the repaired code does. *)
Theorem C06_old_code_partial : forall parse tl rid evs s,
  (exists r s', run_from parse false tl rid evs s = Panic PSliceShortLen r s') \/
  run_from parse false tl rid evs s = run_from parse true tl rid evs s.
Proof. exact run_from_old_partial. Qed.
Print Assumptions C06_old_code_partial.

(* non-vacuity: an Initiation-like and a Peer-Up-like frame, a read interrupted
   inside the next header, a connection reset: the session ends at the reset with
   the rest of the script unread, and the peer that came up is withdrawn. *)
Example C06_example :
  let evs := map EByte [3; 0; 0; 0; 6; 4; 3; 0; 0; 0; 6; 3; 3; 0] ++ [EErr KInterrupted] ++
             map EByte [3; 0; 0; 0; 5] ++ [EErr KConnectionReset; EByte 7] in
  exists s, run_stream parse_w true TEof 1 evs =
    Done (EndErr KConnectionReset) [EByte 7] s [GUpd (UWithdrawBulk [3]); GEos 2].
Proof. vm_compute. eexists. reflexivity. Qed.

(* ---- the same for REAL octet streams: the parser is no longer an argument ----
   [wire_msg] (Bmp/BmpWireAbs.v) = the decoder of the proved RFC 7854 codec (Bmp/BmpWire.v, aligned with what
   routecore accepts; C05_wire_roundtrip) followed by the state machine's reading of the decoded frame. With it
   put in for [parse] the theorems above speak about the octets a router sends, cut and interrupted anywhere. *)
Theorem C06_wire_no_panic : forall tl rid evs s p r s',
  run_from wire_msg true tl rid evs s <> Panic p r s'.
Proof. exact (run_from_no_panic wire_msg). Qed.
Print Assumptions C06_wire_no_panic.

Theorem C06_wire_progress : forall fixed tl rid evs s,
  run_from wire_msg fixed tl rid evs s <> OutOfFuel.
Proof. exact (run_from_progress wire_msg). Qed.
Print Assumptions C06_wire_progress.

Theorem C06_wire_always_ends_in_cleanup : forall tl rid evs s,
  exists e rest s' out, run_from wire_msg true tl rid evs s = Done e rest s' out.
Proof. exact (run_from_total wire_msg). Qed.
Print Assumptions C06_wire_always_ends_in_cleanup.

Theorem C06_wire_session_ends_only_for_cause : forall fixed tl rid evs s e rest s' out,
  run_from wire_msg fixed tl rid evs s = Done e rest s' out -> end_reason_ok tl evs e rest.
Proof. exact (run_from_end_reason wire_msg). Qed.
Print Assumptions C06_wire_session_ends_only_for_cause.

(* the frame the loop hands to the parser is the encoded message, whatever follows it in the script ... *)
Theorem C06_wire_frame_is_the_encoding : forall m evs,
  bmp_read (map EByte (BmpWire.encode m) ++ evs) = RdFrame (BmpWire.encode m) evs.
Proof. exact bmp_read_encoded. Qed.
Print Assumptions C06_wire_frame_is_the_encoding.

(* ... so a router that sends the encodings of ANY well-formed messages and closes the connection gets every one
   of them to the state machine, in order - nothing is refused, skipped or re-framed -, and the session ends at the
   end of file in the cleanup *)
Theorem C06_wire_encoded_stream_reaches_state_machine : forall fixed rid ms s, List.forallb BmpWire.wf ms = true ->
  run_from wire_msg fixed TEof rid (map EByte (concat (map BmpWire.encode ms))) s =
  Done EndEof [] (msgs_run rid s (map abstract ms)) (cleanup rid (msgs_run rid s (map abstract ms))).
Proof. exact run_from_encoded_stream. Qed.
Print Assumptions C06_wire_encoded_stream_reaches_state_machine.

(* non-vacuity: the nine messages of C05_wire_example as one octet stream cut by a connection reset inside the
   seventh: the session ends at the reset; the peer that came up with the second message went down with the sixth *)
Example C06_wire_example :
  let octets := concat (map BmpWire.encode ex_session) in
  let cut := (length (concat (map BmpWire.encode (take 6 ex_session))) + 20)%nat in
  exists s out, run_stream wire_msg true TEof 1 (map EByte (take cut octets) ++ [EErr KConnectionReset; EByte 7]) =
    Done (EndErr KConnectionReset) [EByte 7] s out /\
    cleanup_ok (conn_init 1).1 out = true /\ length out = 4%nat /\ n_up (sm_peers (s_sm s)) = 0.
Proof. vm_compute. do 2 eexists. repeat split; reflexivity. Qed.

(* ---- the HTTP API keeps working: the router's page after any stream ----
   Model: Bmp/BmpPageModel.v. [ring_of d h] is ParseErrorsRingBuffer after the
   pushes of the history [h] (a Vec and the index of the next slot, as in
   metrics.rs); [ring_shown] is what router_info/response.rs lists of get()'s
   answer, None = get() panics (split_at past the end of the Vec). *)

(* For EVERY history of parse errors get() returns, the page lists at most
   MAX_RECENT_PARSE_ERRORS = 10 of them, they are the most recent ones in the
   order of arrival, and all of them while there are no more than 10. *)
Theorem C06_parse_errors_get_total : forall (A : Type) (d : A) (h : list A),
  exists l, ring_shown (ring_of d h) = Some l /\ (length l <= ring_max)%nat /\
            (exists older, h = older ++ l) /\ ((length h <= ring_max)%nat -> l = h).
Proof. exact @ring_page_total. Qed.
Print Assumptions C06_parse_errors_get_total.

(* exactly: the last 10 entries of the history, oldest first *)
Theorem C06_parse_errors_shown_exact : forall (A : Type) (d : A) (h : list A),
  ring_shown (ring_of d h) = Some (last_n ring_max h).
Proof. exact @ring_shown_exact. Qed.
Print Assumptions C06_parse_errors_shown_exact.

(* That needs the discipline push keeps (the index stays inside the Vec): a
   buffer of ten entries whose index ran on to 11 makes get() panic. *)
Theorem C06_parse_errors_get_needs_index_in_range :
  ring_get (MkRing (replicate 10%nat 0) 11%nat) = None.
Proof. exact ring_get_index_past_end. Qed.
Print Assumptions C06_parse_errors_get_needs_index_in_range.

(* An HTTP client that asks for the router's page after the connection handed
   out any k read events of any script, under any parser and from any session
   state, is either too late (the session ended within those events) or gets a
   page listing at most 10 parse errors - the request handler never panics. *)
Theorem C06_router_page_after_any_stream : forall parse rid evs k s0,
  page_at parse rid evs k s0 = None \/
  exists l, page_at parse rid evs k s0 = Some (Some l) /\ (length l <= ring_max)%nat.
Proof. exact page_at_shape. Qed.
Print Assumptions C06_router_page_after_any_stream.

Theorem C06_router_page_never_panics : forall parse rid evs k s0,
  page_at parse rid evs k s0 <> Some None.
Proof. exact page_at_never_panics. Qed.
Print Assumptions C06_router_page_never_panics.

(* non-vacuity: twelve parse errors; the page lists the 3rd to the 12th *)
Example C06_page_example :
  ring_shown (ring_of 0 [1;2;3;4;5;6;7;8;9;10;11;12]) = Some [3;4;5;6;7;8;9;10;11;12].
Proof. vm_compute. reflexivity. Qed.

(* ================================================================== *)
(* The BGP receiver (Bgp/BgpRxModel.v): the octets of a BGP connection through routecore's
   framing as written, routecore's parser and finite state machine as the function argument
   [handle] (every theorem holds for EVERY such function), the way the stream ends (FIN, RST, a
   silent peer), every order [evs] in which the select! loop can see the ticks and the queued
   messages ([rx_sched]), the arms of the loop and the block after it (BgpSessionModel.v).
   [rx_run fixed ...]: [fixed = true] is the code with the repair of the wedge, [false] the
   code before it. *)

(* No octets make rotonda's own code panic: the only panic site of the loop, the
   `unimplemented!()` of the Message::Attributes arm, needs a session that sends that
   message (routecore 0.5.1 never constructs it). *)
Theorem C06_bgp_no_own_panic : forall (St : Type) (handle : St -> list N -> rx_hres St) fixed s0 id key live0 buf e evs,
  sends_no_attributes handle -> rx_sched (rx_ticks_of handle s0 buf e).1 [] evs ->
  rx_run fixed handle s0 id key live0 buf e evs <> RPanicOwn.
Proof. exact @rx_no_own_panic. Qed.
Print Assumptions C06_bgp_no_own_panic.

(* ... and a session that does send it gets there. *)
Theorem C06_bgp_attributes_refuted :
  rx_run_drained true attr_fsm tt 7 5 {[6]} rx_keepalive EFin = RPanicOwn.
Proof. exact attributes_panic. Qed.
Print Assumptions C06_bgp_attributes_refuted.

(* Progress: in no order of events does the loop run out of events while the session still
   owes it its end (a tick error, a ConnectionLost, a dead task): every frame consumes at least
   18 octets, the end of the stream is an event. Old and repaired code. *)
Theorem C06_bgp_progress : forall (St : Type) (handle : St -> list N -> rx_hres St) fixed s0 id key live0 buf e evs,
  rx_sched (rx_ticks_of handle s0 buf e).1 [] evs ->
  rx_run fixed handle s0 id key live0 buf e evs <> RImpossible.
Proof. exact @rx_progress. Qed.
Print Assumptions C06_bgp_progress.

(* Every run ends in the block after the loop: whatever the octets, once the peer has ended
   the connection (FIN or RST) handle_connection returns - unless routecore itself panics - and
   the state it leaves is the one BgpSessionModel gives for the events the loop saw, so that
   every theorem of C07 / C02 about bs_process applies (C07_bgp_cleanup_shape, _once, ...). *)
Theorem C06_bgp_every_run_ends : forall (St : Type) (handle : St -> list N -> rx_hres St) s0 id key live0 buf e evs,
  sends_no_attributes handle -> never_panics handle -> e <> ESilent ->
  rx_sched (rx_ticks_of handle s0 buf e).1 [] evs ->
  rx_run true handle s0 id key live0 buf e evs = REnded (bs_process id key live0 (rx_plain evs)).1.
Proof. exact @rx_every_run_ends. Qed.
Print Assumptions C06_bgp_every_run_ends.

(* ... spelled out: the gate saw Bulks of the session's own routes and then, iff the session
   was negotiated and not rejected, exactly one Withdraw of its ingress id; the key leaves
   live_sessions under the same condition. *)
Theorem C06_bgp_every_run_ends_in_cleanup : forall (St : Type) (handle : St -> list N -> rx_hres St) s0 id key live0 buf e evs,
  sends_no_attributes handle -> never_panics handle -> e <> ESilent ->
  rx_sched (rx_ticks_of handle s0 buf e).1 [] evs ->
  exists st, rx_run true handle s0 id key live0 buf e evs = REnded st /\
    let s := (bs_loop id key (bs_init live0) (rx_plain evs)).1 in
    own_trace id (bs_out s) /\
    bs_out st = bs_out s ++ (if negb (bs_rej s) && bs_neg s then [UWithdraw id None] else []) /\
    bs_live st = (if negb (bs_rej s) && bs_neg s then bs_live s ∖ {[key]} else bs_live s).
Proof. exact @rx_ends_in_cleanup. Qed.
Print Assumptions C06_bgp_every_run_ends_in_cleanup.

(* A peer that stays connected and silent: the session has ended already or waits for it -
   it is never wedged and never dead. *)
Theorem C06_bgp_silent_peer : forall (St : Type) (handle : St -> list N -> rx_hres St) s0 id key live0 buf evs,
  sends_no_attributes handle -> never_panics handle ->
  rx_sched (rx_ticks_of handle s0 buf ESilent).1 [] evs ->
  rx_run true handle s0 id key live0 buf ESilent evs = REnded (bs_process id key live0 (rx_plain evs)).1 \/
  rx_run true handle s0 id key live0 buf ESilent evs = RWaiting (bs_loop id key (bs_init live0) (rx_plain evs)).1.
Proof. exact @rx_silent_peer. Qed.
Print Assumptions C06_bgp_silent_peer.

(* The order in which the channel is emptied before the next tick - the one the engine makes
   the real loop take - is one of the orders the theorems quantify over. *)
Theorem C06_bgp_drained_is_a_schedule : forall ts, rx_sched ts [] (rx_drained ts).
Proof. exact rx_drained_sched. Qed.
Print Assumptions C06_bgp_drained_is_a_schedule.

(* The code before the repair: an FSM that lets go of the connection without a word (an
   UPDATE in OpenConfirm, with routecore as observed) leaves the loop waiting for ever - the
   peer's key stays in live_sessions, nothing is withdrawn ... *)
Theorem C06_bgp_fsm_drop_wedged_refuted :
  (exists st, rx_run_drained false (rc_ref true rc_any rc_any) RcWait 7 5 {[6]} rx_ex_drop EFin = RWedged st /\
     bool_decide (5 ∈ bs_live st) = true /\ bs_out st = [UBulk []]) /\
  (exists st, rx_run_drained true (rc_ref true rc_any rc_any) RcWait 7 5 {[6]} rx_ex_drop EFin = REnded st /\
     bool_decide (5 ∈ bs_live st) = false /\ bs_out st = [UBulk []; UWithdraw 7 None]).
Proof. exact drop_wedges_old_code. Qed.
Print Assumptions C06_bgp_fsm_drop_wedged_refuted.

(* ... and that was its only difference from the repaired code. *)
Theorem C06_bgp_old_code_partial : forall (St : Type) (handle : St -> list N -> rx_hres St) s0 id key live0 buf e evs,
  match rx_run false handle s0 id key live0 buf e evs with
  | RWedged st => (rx_ticks_of handle s0 buf e).2 = TlDropped /\
                  rx_run true handle s0 id key live0 buf e evs = REnded (bs_cleanup id key st)
  | r => rx_run true handle s0 id key live0 buf e evs = r
  end.
Proof. exact @rx_old_code_partial. Qed.
Print Assumptions C06_bgp_old_code_partial.

(* Outside the hypothesis never_panics (known finding bgp-open-after-open): with routecore as
   observed a second OPEN kills the connection task; the key stays, nothing is withdrawn. *)
Theorem C06_bgp_second_open_refuted :
  exists st, rx_run_drained true (rc_ref true rc_any rc_any) RcWait 7 5 {[6]} rx_ex_open2 EFin = RDead st /\
    bool_decide (5 ∈ bs_live st) = true /\ bs_out st = [UBulk []].
Proof. exact second_open_kills_task. Qed.
Print Assumptions C06_bgp_second_open_refuted.

(* Framing facts. A complete frame in front of anything is cut off as it is ... *)
Theorem C06_bgp_frame_cut : forall hdr hi lo body rest,
  length hdr = 16%nat -> 18 <= be16 hi lo -> N.to_nat (be16 hi lo) = (18 + length body)%nat ->
  rx_frame (hdr ++ hi :: lo :: body ++ rest) = RcFrame (hdr ++ hi :: lo :: body) rest.
Proof. exact rx_frame_app. Qed.
Print Assumptions C06_bgp_frame_cut.

(* ... a frame the parser / FSM refuses is the last thing the session looks at, and the
   session ends through the tick-error exit (then C06_bgp_every_run_ends applies) ... *)
Theorem C06_bgp_refused_frame_ends_session : forall (St : Type) (handle : St -> list N -> rx_hres St) s buf f rest k e,
  rx_frame buf = RcFrame f rest -> handle s f = HErr k ->
  rx_ticks_of handle s buf e = ([TkEv (BTickErr k) []], TlErr).
Proof. exact @rx_refused_frame_ends. Qed.
Print Assumptions C06_bgp_refused_frame_ends_session.

(* ... a header whose length field is below 18 is never a frame, whatever follows: the session
   sits until the stream ends, and that end is an error (a release build of the dependency;
   with overflow checks the subtraction panics). *)
Theorem C06_bgp_short_length_parks : forall (St : Type) (handle : St -> list N -> rx_hres St) s hdr hi lo more,
  length hdr = 16%nat -> be16 hi lo < 18 ->
  rx_ticks_of handle s (hdr ++ hi :: lo :: more) EFin = ([TkEv (BTickErr 0) []], TlErr) /\
  rx_ticks_of handle s (hdr ++ hi :: lo :: more) ERst = ([TkEv (BTickErr 0) []], TlErr) /\
  rx_ticks_of handle s (hdr ++ hi :: lo :: more) ESilent = ([], TlSilent).
Proof. exact @rx_short_length_parks. Qed.
Print Assumptions C06_bgp_short_length_parks.

(* An UPDATE the session hands over on a negotiated session leaves the gate as ONE Bulk of
   exactly the route events of C04's decoder (C04_events_exact), the withdrawals first, every
   payload under the session's ingress id; octets that do not decode yield nothing. *)
Theorem C06_bgp_accepted_update_is_its_events : forall id key s f u,
  bs_neg s = true -> BgpModel.decode BgpModel.Code f = Some u ->
  bs_step id key s (BMsgUpdate (raw_upd f)) =
  (bs_send s (UBulk (map (pay_of_ev id)
     (List.filter is_evw (BgpModel.events u) ++ List.filter (fun e => negb (is_evw e)) (BgpModel.events u)))), true).
Proof. exact rx_accepted_update_events. Qed.
Print Assumptions C06_bgp_accepted_update_is_its_events.

Theorem C06_bgp_undecodable_update_is_noop : forall id key s f,
  BgpModel.decode BgpModel.Code f = None -> bs_neg s = true ->
  bs_step id key s (BMsgUpdate (raw_upd f)) = (s, true).
Proof. exact rx_undecodable_update_noop. Qed.
Print Assumptions C06_bgp_undecodable_update_is_noop.

(* non-vacuity: OPEN, KEEPALIVE, an UPDATE, FIN with routecore as observed: Bulk, Withdraw, the
   key gone, the other session's key still there; a frame of an unknown type in the middle:
   what lies behind it is never looked at. *)
Example C06_bgp_example :
  (exists st, rx_run_drained true (rc_ref true rc_any rc_any) RcWait 7 5 {[6]} rx_ex_session EFin = REnded st /\
     bs_out st = [UBulk []; UWithdraw 7 None] /\ bool_decide (5 ∈ bs_live st) = false /\ bool_decide (6 ∈ bs_live st) = true) /\
  (exists st, rx_run_drained true (rc_ref true rc_any rc_any) RcWait 7 5 {[6]}
                (rx_open_min ++ rx_keepalive ++ rx_hdr 19 9 ++ rx_update_empty) ESilent = REnded st /\
     bs_out st = [UWithdraw 7 None] /\ bool_decide (5 ∈ bs_live st) = false).
Proof. split; [exact example_session|exact example_refused]. Qed.

(* ================================================================== *)
(* The MRT reader (Mrt/MrtModel.v). Whatever the octets of a file, process_file is handed
   nothing (unreadable) or the records up to the point where routecore's parser stops
   ([file_of_hfile]). Such a file is local: the queue is what it was before the file, the file's
   own contribution, then the files behind it exactly as they run on their own from the
   register it left; its contribution is a prefix of what the undamaged file would have
   contributed (nothing for an unreadable file); and the RIB behind the gate is built from
   just these updates, in this order. *)
Theorem C06_mrt_file_is_local : forall parent r fs1 h fs2 rb,
  let '(r1, us1) := queue_run parent r fs1 in
  let '(rh, ush, _) := process_file parent r1 (file_of_hfile h) in
  let '(r2, us2) := queue_run parent rh fs2 in
  queue_run parent r (fs1 ++ file_of_hfile h :: fs2) = (r2, us1 ++ ush ++ us2) /\
  ush `prefix_of` (process_file parent r1 (whole_of_hfile h)).1.2 /\
  (h = HUnreadable -> ush = [] /\ rh = r1) /\
  fold_left rib_apply (queue_run parent r (fs1 ++ file_of_hfile h :: fs2)).2 rb =
    fold_left rib_apply us2 (fold_left rib_apply ush (fold_left rib_apply us1 rb)).
Proof. exact hostile_file_local. Qed.
Print Assumptions C06_mrt_file_is_local.

(* non-vacuity: a dump cut inside its second RIB record between two good update files: the
   first file's route, the two entries of the first RIB record, the last file's route. *)
Example C06_mrt_example :
  (queue_run unit_start.1 unit_start.2 [hq_before; file_of_hfile hq_hostile; hq_after]).2 =
    [UBulk [MkPay (0, 60, 2) true 2];
     UBulk [MkPay (0, 21, 3) true 3]; UBulk [MkPay (0, 21, 4) true 4];
     UBulk [MkPay (0, 1, 5) true 9]].
Proof. exact hostile_example. Qed.
