(* C20 — The MRT queue endpoint only enqueues files inside its configured directory.
   Statements only; every proof is [exact <lemma>]. *)
From Coq Require Import NArith List Bool String Ascii.
From RV Require Import PathConf.PathConfModel PathConf.PathConfProofs.
Import ListNotations.
Local Open Scope N_scope.

(* The lemma the argument rests on: `full_path.ancestors().any(|a| a == update_dir)`
   is exactly "update_dir is a component-wise prefix of full_path". *)
Theorem C20_ancestors_is_prefix : forall (d p : pc_path),
  In d (pc_ancestors p) <-> exists k, p = d ++ k.
Proof. exact pc_ancestors_prefix. Qed.
Print Assumptions C20_ancestors_is_prefix.

(* Whatever the file system, the working directory, the configured directory
   text and the `file` parameter: an accepted request enqueues the resolved
   (realpath) location of <resolved dir>/<file>, and the resolved directory is
   a prefix of it. *)
Theorem C20_confined : forall root cwd d prm full,
  pc_decide root cwd (Some d) prm = PAccept full ->
  exists dir f k, prm = PExact f /\ pc_canon root cwd d = inr dir /\
    pc_canon root cwd (pc_push (pc_render dir) f) = inr full /\ full = dir ++ k.
Proof. exact pc_decide_confined. Qed.
Print Assumptions C20_confined.

(* ... and this prefix means containment in the tree: both resolved paths name
   nodes that are not symbolic links, and the enqueued node is reached from the
   directory's node by following real directory entries only (pc_descend never
   crosses a link and knows no ".."). *)
Theorem C20_confined_physical : forall root cwd d prm full,
  pc_dir_at root [] -> pc_dir_at root cwd ->
  pc_decide root cwd (Some d) prm = PAccept full ->
  exists dir k nd n,
    pc_canon root cwd d = inr dir /\ full = dir ++ k /\
    pc_descend root dir = Some nd /\ pc_is_link nd = false /\
    pc_descend nd k = Some n /\ pc_is_link n = false.
Proof. exact pc_decide_confined_physical. Qed.
Print Assumptions C20_confined_physical.

(* Exact characterisation of acceptance. *)
Theorem C20_accept_iff : forall root cwd upd prm full,
  pc_decide root cwd upd prm = PAccept full <->
  exists d f dir k,
    upd = Some d /\ prm = PExact f /\ pc_is_abs f = false /\
    pc_canon root cwd d = inr dir /\
    pc_canon root cwd (pc_push (pc_render dir) f) = inr full /\
    full = dir ++ k.
Proof. exact pc_decide_accept_iff. Qed.
Print Assumptions C20_accept_iff.

(* Otherwise: no update_path, an unresolvable update_path, a missing or
   family-style parameter, an absolute name, a name that does not resolve
   (missing target, file used as directory, symlink loop, NUL byte), or one
   that resolves outside the directory, is rejected ... *)
Theorem C20_reject_otherwise : forall root cwd upd prm,
  (upd = None \/
   (exists d e, upd = Some d /\ pc_canon root cwd d = inl e) \/
   prm = PNone \/ prm = PFamily \/
   (exists f, prm = PExact f /\ pc_is_abs f = true) \/
   (exists d dir f e, upd = Some d /\ pc_canon root cwd d = inr dir /\ prm = PExact f /\
                      pc_canon root cwd (pc_push (pc_render dir) f) = inl e) \/
   (exists d dir f full, upd = Some d /\ pc_canon root cwd d = inr dir /\ prm = PExact f /\
                      pc_canon root cwd (pc_push (pc_render dir) f) = inr full /\
                      ~ (exists k, full = dir ++ k))) ->
  exists why, pc_decide root cwd upd prm = PReject why.
Proof. exact pc_decide_reject_cases. Qed.
Print Assumptions C20_reject_otherwise.

(* ... and a rejected request is answered 400 with nothing sent to the queue,
   for every request (any query string, any percent-encoding) *)
Theorem C20_reject_is_400_nothing_enqueued : forall root cwd api upd rq st enq why,
  pc_handle root cwd api upd rq = Some (st, enq) ->
  pc_decide root cwd upd (pc_get_file (rq_query rq)) = PReject why ->
  st = 400 /\ enq = [].
Proof. exact pc_handle_reject. Qed.
Print Assumptions C20_reject_is_400_nothing_enqueued.

Theorem C20_only_accepted_is_enqueued : forall root cwd api upd rq st enq p,
  pc_handle root cwd api upd rq = Some (st, enq) -> In p enq ->
  enq = [p] /\ pc_decide root cwd upd (pc_get_file (rq_query rq)) = PAccept p.
Proof. exact pc_handle_enqueued. Qed.
Print Assumptions C20_only_accepted_is_enqueued.

Theorem C20_no_update_path : forall root cwd api rq st enq,
  pc_handle root cwd api None rq = Some (st, enq) -> st = 400 /\ enq = [].
Proof. exact pc_handle_no_dir. Qed.
Print Assumptions C20_no_update_path.

(* The property in one statement, at the HTTP level: for every tree, every
   configuration and every request (method, path, raw query string, whatever
   the unit answers), anything that reaches the queue is below the resolved
   update directory. *)
Theorem C20_http_confined : forall root cwd api upd rq st enq p,
  pc_dir_at root [] -> pc_dir_at root cwd ->
  pc_handle root cwd api upd rq = Some (st, enq) -> In p enq ->
  exists d dir k nd n,
    upd = Some d /\ pc_canon root cwd d = inr dir /\ p = dir ++ k /\
    pc_descend root dir = Some nd /\ pc_is_link nd = false /\
    pc_descend nd k = Some n /\ pc_is_link n = false.
Proof. exact pc_handle_confined. Qed.
Print Assumptions C20_http_confined.

(* realpath only ever answers with physical paths (no symlink left in them) *)
Theorem C20_resolve_physical : forall root cwd s p,
  pc_dir_at root [] -> pc_dir_at root cwd -> pc_canon root cwd s = inr p -> pc_physical root p.
Proof. exact pc_canon_physical. Qed.
Print Assumptions C20_resolve_physical.

(* What is enqueued is canonical: resolving its text again (as the unit's later
   File::open does) gives the same location without crossing any symlink, as
   long as the tree does not change in between. *)
Theorem C20_enqueued_is_canonical : forall root cwd d prm full,
  pc_dir_at root [] -> pc_dir_at root cwd -> pc_nonul_names root ->
  pc_decide root cwd (Some d) prm = PAccept full ->
  pc_canon root cwd (pc_render full) = inr full.
Proof. exact pc_decide_enqueued_canonical. Qed.
Print Assumptions C20_enqueued_is_canonical.

(* ... at the level of the endpoint's observable: for every request, the TEXT of
   every queue entry ([pc_entry_text]) resolves to the very path that was checked
   and is byte for byte its own canonicalisation ([pc_observe] = what the
   correspondence check prints per entry) ... *)
Theorem C20_enqueued_text_is_canonical : forall root cwd api upd rq st enq p,
  pc_dir_at root [] -> pc_dir_at root cwd -> pc_nonul_names root ->
  pc_handle root cwd api upd rq = Some (st, enq) -> In p enq ->
  pc_observe root cwd p = (inr p, true).
Proof. exact pc_handle_enqueued_text_canonical. Qed.
Print Assumptions C20_enqueued_text_is_canonical.

(* ... and a canonical text is the rendering of a physical path: no component of it
   is a symbolic link, "." or "..", so re-pointing a link cannot move what it names *)
Theorem C20_canonical_text_is_physical : forall root cwd s,
  pc_dir_at root [] -> pc_dir_at root cwd ->
  pc_text_canonical root cwd s = true ->
  exists p, s = pc_render p /\ pc_canon root cwd s = inr p /\ pc_physical root p.
Proof. exact pc_text_canonical_physical. Qed.
Print Assumptions C20_canonical_text_is_physical.

(* "percent-encoded": every byte string f is deliverable as the `file` value,
   so the theorems above, which range over all raw query strings, cover every
   name an attacker can choose. *)
Theorem C20_every_name_expressible : forall f, Forall (fun b => b < 256) f ->
  pc_get_file (Some (pc_file_kw ++ 61 :: pc_enc f)) = PExact f.
Proof. exact pc_get_file_enc. Qed.
Print Assumptions C20_every_name_expressible.

(* non-vacuity: a tree with a link that stays inside and one that escapes *)
Definition c20_b (s : string) : list N := map N_of_ascii (list_ascii_of_string s).
Local Open Scope string_scope.
Example C20_example :
  let fs := PDir [(c20_b "srv", PDir [
              (c20_b "upd", PDir [(c20_b "a.mrt", PFile); (c20_b "sub", PDir [(c20_b "b.mrt", PFile)]);
                                  (c20_b "in", PLink (c20_b "sub/../a.mrt")); (c20_b "esc", PLink (c20_b "../out"))]);
              (c20_b "out", PDir [(c20_b "secret", PFile)]);
              (c20_b "ulnk", PLink (c20_b "/srv/upd/"))])] in
  let rq q := MkReq true (c20_b "/mrt/u/queue") (Some (c20_b q)) MOk in
  let run q := pc_handle fs [] (c20_b "/mrt/u/") (Some (c20_b "/srv/ulnk")) (rq q) in
  pc_dir_at fs [] /\
  run "file=in" = Some (200, [[c20_b "srv"; c20_b "upd"; c20_b "a.mrt"]]) /\
  run "file=sub%2F..%2Fsub//b.mrt" = Some (200, [[c20_b "srv"; c20_b "upd"; c20_b "sub"; c20_b "b.mrt"]]) /\
  run "file=esc/secret" = Some (400, []) /\
  run "file=../out/secret" = Some (400, []) /\
  run "file=/srv/upd/a.mrt" = Some (400, []) /\
  run "file=a.mrt/" = Some (400, []).
Proof. vm_compute. repeat split; try reflexivity. eexists; reflexivity. Qed.

(* non-vacuity of the text theorems on the same tree: the entry of `file=in` is
   observed as (resolves to /srv/upd/a.mrt, canonical); the un-resolved spellings
   of the same file - through the link `in`, through the link `ulnk`, with "..",
   with a doubled slash - resolve to the same place but are NOT canonical *)
Example C20_text_example :
  let fs := PDir [(c20_b "srv", PDir [
              (c20_b "upd", PDir [(c20_b "a.mrt", PFile); (c20_b "sub", PDir [(c20_b "b.mrt", PFile)]);
                                  (c20_b "in", PLink (c20_b "sub/../a.mrt")); (c20_b "esc", PLink (c20_b "../out"))]);
              (c20_b "out", PDir [(c20_b "secret", PFile)]);
              (c20_b "ulnk", PLink (c20_b "/srv/upd/"))])] in
  let a := [c20_b "srv"; c20_b "upd"; c20_b "a.mrt"] in
  pc_observe fs [] a = (inr a, true) /\
  pc_entry_text a = c20_b "/srv/upd/a.mrt" /\
  forallb (fun t => match pc_canon fs [] (c20_b t) with inr p => pc_path_eqb p a | inl _ => false end
                    && negb (pc_text_canonical fs [] (c20_b t)))
          ["/srv/upd/in"; "/srv/ulnk/a.mrt"; "/srv/upd/sub/../a.mrt"; "/srv/upd//a.mrt"] = true.
Proof. vm_compute. repeat split; reflexivity. Qed.
