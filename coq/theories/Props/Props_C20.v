(* C20 — The MRT queue endpoint only enqueues files inside its configured directory.
   Statements only; every proof is [exact <lemma>]. *)
From Coq Require Import NArith List Bool String Ascii.
From RV Require Import PathConf.PathConfModel PathConf.PathConfProofs.
Import ListNotations.
Local Open Scope N_scope.

(* The lemma the argument rests on: `full_path.ancestors().any(|a| a == update_dir)`
   is exactly "update_dir is a component-wise prefix of full_path". *)
Theorem C20_ancestors_is_prefix : forall (d p : pc_path),
  In d (pc_ancestors p) <-> exists k, p = d ++ k.
Proof. exact pc_ancestors_prefix. Qed.
Print Assumptions C20_ancestors_is_prefix.

(* Whatever the file system, the working directory, the configured directory
   text and the `file` parameter: an accepted request enqueues the resolved
   (realpath) location of <resolved dir>/<file>, and the resolved directory is
   a prefix of it. *)
Theorem C20_confined : forall root cwd d prm full,
  pc_decide root cwd (Some d) prm = PAccept full ->
  exists dir f k, prm = PExact f /\ pc_canon root cwd d = inr dir /\
    pc_canon root cwd (pc_push (pc_render dir) f) = inr full /\ full = dir ++ k.
Proof. exact pc_decide_confined. Qed.
Print Assumptions C20_confined.

(* ... and this prefix means containment in the tree: both resolved paths name
   nodes that are not symbolic links, and the enqueued node is reached from the
   directory's node by following real directory entries only (pc_descend never
   crosses a link and knows no ".."). *)
Theorem C20_confined_physical : forall root cwd d prm full,
  pc_dir_at root [] -> pc_dir_at root cwd ->
  pc_decide root cwd (Some d) prm = PAccept full ->
  exists dir k nd n,
    pc_canon root cwd d = inr dir /\ full = dir ++ k /\
    pc_descend root dir = Some nd /\ pc_is_link nd = false /\
    pc_descend nd k = Some n /\ pc_is_link n = false.
Proof. exact pc_decide_confined_physical. Qed.
Print Assumptions C20_confined_physical.

(* Exact characterisation of acceptance. *)
Theorem C20_accept_iff : forall root cwd upd prm full,
  pc_decide root cwd upd prm = PAccept full <->
  exists d f dir k,
    upd = Some d /\ prm = PExact f /\ pc_is_abs f = false /\
    pc_canon root cwd d = inr dir /\
    pc_canon root cwd (pc_push (pc_render dir) f) = inr full /\
    full = dir ++ k.
Proof. exact pc_decide_accept_iff. Qed.
Print Assumptions C20_accept_iff.

(* Otherwise: no update_path, an unresolvable update_path, a missing or
   family-style parameter, an absolute name, a name that does not resolve
   (missing target, file used as directory, symlink loop, NUL byte), or one
   that resolves outside the directory, is rejected ... *)
Theorem C20_reject_otherwise : forall root cwd upd prm,
  (upd = None \/
   (exists d e, upd = Some d /\ pc_canon root cwd d = inl e) \/
   prm = PNone \/ prm = PFamily \/
   (exists f, prm = PExact f /\ pc_is_abs f = true) \/
   (exists d dir f e, upd = Some d /\ pc_canon root cwd d = inr dir /\ prm = PExact f /\
                      pc_canon root cwd (pc_push (pc_render dir) f) = inl e) \/
   (exists d dir f full, upd = Some d /\ pc_canon root cwd d = inr dir /\ prm = PExact f /\
                      pc_canon root cwd (pc_push (pc_render dir) f) = inr full /\
                      ~ (exists k, full = dir ++ k))) ->
  exists why, pc_decide root cwd upd prm = PReject why.
Proof. exact pc_decide_reject_cases. Qed.
Print Assumptions C20_reject_otherwise.

(* ... and a rejected request is answered 400 with nothing sent to the queue,
   for every request (any query string, any percent-encoding) *)
Theorem C20_reject_is_400_nothing_enqueued : forall root cwd api upd rq st enq why,
  pc_handle root cwd api upd rq = Some (st, enq) ->
  pc_decide root cwd upd (pc_get_file (rq_query rq)) = PReject why ->
  st = 400 /\ enq = [].
Proof. exact pc_handle_reject. Qed.
Print Assumptions C20_reject_is_400_nothing_enqueued.

Theorem C20_only_accepted_is_enqueued : forall root cwd api upd rq st enq p,
  pc_handle root cwd api upd rq = Some (st, enq) -> In p enq ->
  enq = [p] /\ pc_decide root cwd upd (pc_get_file (rq_query rq)) = PAccept p.
Proof. exact pc_handle_enqueued. Qed.
Print Assumptions C20_only_accepted_is_enqueued.

Theorem C20_no_update_path : forall root cwd api rq st enq,
  pc_handle root cwd api None rq = Some (st, enq) -> st = 400 /\ enq = [].
Proof. exact pc_handle_no_dir. Qed.
Print Assumptions C20_no_update_path.

(* The property in one statement, at the HTTP level: for every tree, every
   configuration and every request (method, path, raw query string, whatever
   the unit answers), anything that reaches the queue is below the resolved
   update directory. *)
Theorem C20_http_confined : forall root cwd api upd rq st enq p,
  pc_dir_at root [] -> pc_dir_at root cwd ->
  pc_handle root cwd api upd rq = Some (st, enq) -> In p enq ->
  exists d dir k nd n,
    upd = Some d /\ pc_canon root cwd d = inr dir /\ p = dir ++ k /\
    pc_descend root dir = Some nd /\ pc_is_link nd = false /\
    pc_descend nd k = Some n /\ pc_is_link n = false.
Proof. exact pc_handle_confined. Qed.
Print Assumptions C20_http_confined.

(* realpath only ever answers with physical paths (no symlink left in them) *)
Theorem C20_resolve_physical : forall root cwd s p,
  pc_dir_at root [] -> pc_dir_at root cwd -> pc_canon root cwd s = inr p -> pc_physical root p.
Proof. exact pc_canon_physical. Qed.
Print Assumptions C20_resolve_physical.

(* What is enqueued is canonical: resolving its text again (as the unit's later
   File::open does) gives the same location without crossing any symlink, as
   long as the tree does not change in between. *)
Theorem C20_enqueued_is_canonical : forall root cwd d prm full,
  pc_dir_at root [] -> pc_dir_at root cwd -> pc_nonul_names root ->
  pc_decide root cwd (Some d) prm = PAccept full ->
  pc_canon root cwd (pc_render full) = inr full.
Proof. exact pc_decide_enqueued_canonical. Qed.
Print Assumptions C20_enqueued_is_canonical.

(* ... at the level of the endpoint's observable: for every request, the TEXT of
   every queue entry ([pc_entry_text]) resolves to the very path that was checked
   and is byte for byte its own canonicalisation ([pc_observe] = what the
   correspondence check prints per entry) ... *)
Theorem C20_enqueued_text_is_canonical : forall root cwd api upd rq st enq p,
  pc_dir_at root [] -> pc_dir_at root cwd -> pc_nonul_names root ->
  pc_handle root cwd api upd rq = Some (st, enq) -> In p enq ->
  pc_observe root cwd p = (inr p, true).
Proof. exact pc_handle_enqueued_text_canonical. Qed.
Print Assumptions C20_enqueued_text_is_canonical.

(* ... and a canonical text is the rendering of a physical path: no component of it
   is a symbolic link, "." or "..", so re-pointing a link cannot move what it names *)
Theorem C20_canonical_text_is_physical : forall root cwd s,
  pc_dir_at root [] -> pc_dir_at root cwd ->
  pc_text_canonical root cwd s = true ->
  exists p, s = pc_render p /\ pc_canon root cwd s = inr p /\ pc_physical root p.
Proof. exact pc_text_canonical_physical. Qed.
Print Assumptions C20_canonical_text_is_physical.

(* "percent-encoded": for every byte string f, `file=` + (every byte as %XY)
   delivers the lossy UTF-8 reading of f to the decision - f itself when f is
   UTF-8, in particular when it is ASCII - so the theorems above, which range
   over all raw query strings, cover every name an attacker can choose; a name
   that is not UTF-8 cannot be chosen (it arrives with U+FFFD in it). *)
Theorem C20_every_name_expressible : forall f, Forall (fun b => b < 256) f ->
  pc_get_file (Some (pc_file_kw ++ 61 :: pc_enc f)) = PExact (pc_utf8_lossy f).
Proof. exact pc_get_file_enc. Qed.
Print Assumptions C20_every_name_expressible.

Theorem C20_ascii_is_utf8 : forall s, Forall (fun b => b < 128) s -> pc_is_utf8 s.
Proof. exact pc_utf8_lossy_ascii. Qed.
Print Assumptions C20_ascii_is_utf8.

(* non-vacuity: a tree with a link that stays inside and one that escapes *)
Definition c20_b (s : string) : list N := map N_of_ascii (list_ascii_of_string s).
Local Open Scope string_scope.
Example C20_example :
  let fs := PDir [(c20_b "srv", PDir [
              (c20_b "upd", PDir [(c20_b "a.mrt", PFile); (c20_b "sub", PDir [(c20_b "b.mrt", PFile)]);
                                  (c20_b "in", PLink (c20_b "sub/../a.mrt")); (c20_b "esc", PLink (c20_b "../out"))]);
              (c20_b "out", PDir [(c20_b "secret", PFile)]);
              (c20_b "ulnk", PLink (c20_b "/srv/upd/"))])] in
  let rq q := MkReq true (c20_b "/mrt/u/queue") (Some (c20_b q)) MOk in
  let run q := pc_handle fs [] (c20_b "/mrt/u/") (Some (c20_b "/srv/ulnk")) (rq q) in
  pc_dir_at fs [] /\
  run "file=in" = Some (200, [[c20_b "srv"; c20_b "upd"; c20_b "a.mrt"]]) /\
  run "file=sub%2F..%2Fsub//b.mrt" = Some (200, [[c20_b "srv"; c20_b "upd"; c20_b "sub"; c20_b "b.mrt"]]) /\
  run "file=esc/secret" = Some (400, []) /\
  run "file=../out/secret" = Some (400, []) /\
  run "file=/srv/upd/a.mrt" = Some (400, []) /\
  run "file=a.mrt/" = Some (400, []).
Proof. vm_compute. repeat split; try reflexivity. eexists; reflexivity. Qed.

(* non-vacuity of the text theorems on the same tree: the entry of `file=in` is
   observed as (resolves to /srv/upd/a.mrt, canonical); the un-resolved spellings
   of the same file - through the link `in`, through the link `ulnk`, with "..",
   with a doubled slash - resolve to the same place but are NOT canonical *)
Example C20_text_example :
  let fs := PDir [(c20_b "srv", PDir [
              (c20_b "upd", PDir [(c20_b "a.mrt", PFile); (c20_b "sub", PDir [(c20_b "b.mrt", PFile)]);
                                  (c20_b "in", PLink (c20_b "sub/../a.mrt")); (c20_b "esc", PLink (c20_b "../out"))]);
              (c20_b "out", PDir [(c20_b "secret", PFile)]);
              (c20_b "ulnk", PLink (c20_b "/srv/upd/"))])] in
  let a := [c20_b "srv"; c20_b "upd"; c20_b "a.mrt"] in
  pc_observe fs [] a = (inr a, true) /\
  pc_entry_text a = c20_b "/srv/upd/a.mrt" /\
  forallb (fun t => match pc_canon fs [] (c20_b t) with inr p => pc_path_eqb p a | inl _ => false end
                    && negb (pc_text_canonical fs [] (c20_b t)))
          ["/srv/upd/in"; "/srv/ulnk/a.mrt"; "/srv/upd/sub/../a.mrt"; "/srv/upd//a.mrt"] = true.
Proof. vm_compute. repeat split; reflexivity. Qed.

(* ================================================================ the tree changes while the unit runs
   A history is any list of events: a change of the tree ([EFs]: create, remove,
   rename, re-point a symbolic link - any of them at, above or below the
   configured directory), a (re)start of the processor with an update_path
   ([ENew]) and requests ([EReq]). [pc_run] gives the answers in order,
   [pc_after] the tree and the configuration a history leads to. The only thing
   the events may not do is rename, remove or replace the working directory of
   the process or one of its ancestors ([pc_ev_spares]). *)
Local Close Scope string_scope.

(* the k-th answer of a history is the answer of process_request in the tree AS IT IS THEN *)
Theorem C20_history_answer_is_current : forall cwd api s pre rq post,
  nth_error (pc_run cwd api s (pre ++ EReq rq :: post)) (pc_requests pre) =
  Some (pc_handle (fst (pc_after s pre)) cwd api (snd (pc_after s pre)) rq).
Proof. exact pc_run_nth. Qed.
Print Assumptions C20_history_answer_is_current.

(* ... so what happened earlier does not matter: histories that lead to the same
   tree and configuration get the same answer *)
Theorem C20_history_only_current_tree_matters : forall cwd api s1 s2 pre1 pre2 rq post1 post2,
  pc_after s1 pre1 = pc_after s2 pre2 ->
  nth_error (pc_run cwd api s1 (pre1 ++ EReq rq :: post1)) (pc_requests pre1) =
  nth_error (pc_run cwd api s2 (pre2 ++ EReq rq :: post2)) (pc_requests pre2).
Proof. exact pc_run_only_current. Qed.
Print Assumptions C20_history_only_current_tree_matters.

(* The property over all histories: whatever was enqueued for a request lies
   under what the configured directory resolves to AT THE TIME OF THAT REQUEST
   (both are nodes of the current tree that are no symbolic links, the second
   reached from the first through real directory entries only). *)
Theorem C20_history_confined : forall cwd api fs0 upd0 pre rq post st enq p,
  pc_dir_at fs0 [] -> pc_dir_at fs0 cwd -> Forall (pc_ev_spares cwd) pre ->
  nth_error (pc_run cwd api (fs0, upd0) (pre ++ EReq rq :: post)) (pc_requests pre) = Some (Some (st, enq)) ->
  In p enq ->
  exists d dir k nd n,
    snd (pc_after (fs0, upd0) pre) = Some d /\
    pc_canon (fst (pc_after (fs0, upd0) pre)) cwd d = inr dir /\ p = dir ++ k /\
    pc_descend (fst (pc_after (fs0, upd0) pre)) dir = Some nd /\ pc_is_link nd = false /\
    pc_descend nd k = Some n /\ pc_is_link n = false.
Proof. exact pc_history_confined. Qed.
Print Assumptions C20_history_confined.

(* a name inside the CURRENT resolution of the configured directory is accepted ... *)
Theorem C20_history_inside_accepted : forall cwd api s pre rq post d f dir k,
  pc_to_queue api rq ->
  snd (pc_after s pre) = Some d ->
  pc_get_file (rq_query rq) = PExact f -> pc_is_abs f = false ->
  pc_canon (fst (pc_after s pre)) cwd d = inr dir ->
  pc_canon (fst (pc_after s pre)) cwd (pc_push (pc_render dir) f) = inr (dir ++ k) ->
  nth_error (pc_run cwd api s (pre ++ EReq rq :: post)) (pc_requests pre) =
  Some (Some (pc_status (rq_mode rq), [dir ++ k])).
Proof. exact pc_history_inside_accepted. Qed.
Print Assumptions C20_history_inside_accepted.

(* ... one that resolves outside it (for instance into what the directory USED to be), or not at all, is refused *)
Theorem C20_history_outside_rejected : forall cwd api s pre rq post d f dir,
  pc_to_queue api rq ->
  snd (pc_after s pre) = Some d ->
  pc_get_file (rq_query rq) = PExact f ->
  pc_canon (fst (pc_after s pre)) cwd d = inr dir ->
  (forall full, pc_canon (fst (pc_after s pre)) cwd (pc_push (pc_render dir) f) = inr full -> ~ exists k, full = dir ++ k) ->
  nth_error (pc_run cwd api s (pre ++ EReq rq :: post)) (pc_requests pre) = Some (Some (400, [])).
Proof. exact pc_history_outside_rejected. Qed.
Print Assumptions C20_history_outside_rejected.

(* the text on the queue is canonical in the tree of the moment, whatever the tree went through *)
Theorem C20_history_text_is_canonical : forall cwd api fs0 upd0 pre rq post st enq p,
  pc_dir_at fs0 [] -> pc_dir_at fs0 cwd -> pc_nonul_names fs0 -> Forall (pc_ev_spares cwd) pre ->
  nth_error (pc_run cwd api (fs0, upd0) (pre ++ EReq rq :: post)) (pc_requests pre) = Some (Some (st, enq)) ->
  In p enq ->
  pc_observe (fst (pc_after (fs0, upd0) pre)) cwd p = (inr p, true).
Proof. exact pc_history_text_canonical. Qed.
Print Assumptions C20_history_text_is_canonical.

(* the invariants behind it: no operation makes the root or a spared directory
   anything but a directory, none brings a NUL byte into a name *)
Theorem C20_tree_ops_keep_root_and_cwd : forall o fs cwd,
  pc_op_spares cwd o -> pc_dir_at fs [] -> pc_dir_at fs cwd ->
  pc_dir_at (pc_apply o fs) [] /\ pc_dir_at (pc_apply o fs) cwd.
Proof. exact pc_apply_dirs. Qed.
Print Assumptions C20_tree_ops_keep_root_and_cwd.

Theorem C20_tree_ops_keep_names_nul_free : forall o fs, pc_nonul_names fs -> pc_nonul_names (pc_apply o fs).
Proof. exact pc_apply_nonul. Qed.
Print Assumptions C20_tree_ops_keep_names_nul_free.

(* what the operations do: the named entry changes as said, every path that is
   neither above nor below it names what it named before *)
Theorem C20_repoint_spec : forall fs p t0 t,
  pc_path_valid p = true -> pc_target_valid t = true -> pc_descend fs p = Some (PLink t0) ->
  pc_descend (pc_apply (ORepoint p t) fs) p = Some (PLink t) /\
  forall q, pc_is_prefix p q = false -> pc_is_prefix q p = false ->
            pc_descend (pc_apply (ORepoint p t) fs) q = pc_descend fs q.
Proof. exact pc_apply_repoint. Qed.
Print Assumptions C20_repoint_spec.

Theorem C20_create_spec : forall fs p k,
  pc_path_valid p = true -> pc_kind_valid k = true -> pc_parent_is_dir fs p = true -> pc_descend fs p = None ->
  pc_descend (pc_apply (OCreate p k) fs) p = Some (pc_node_of_kind k) /\
  forall q, pc_is_prefix p q = false -> pc_is_prefix q p = false ->
            pc_descend (pc_apply (OCreate p k) fs) q = pc_descend fs q.
Proof. exact pc_apply_create. Qed.
Print Assumptions C20_create_spec.

Theorem C20_remove_spec : forall fs p n,
  pc_path_valid p = true -> pc_descend fs p = Some n ->
  pc_descend (pc_apply (ORemove p) fs) p = None /\
  forall q, pc_is_prefix p q = false -> pc_is_prefix q p = false ->
            pc_descend (pc_apply (ORemove p) fs) q = pc_descend fs q.
Proof. exact pc_apply_remove. Qed.
Print Assumptions C20_remove_spec.

Theorem C20_rename_spec : forall fs p q n,
  pc_path_valid p = true -> pc_path_valid q = true -> pc_is_prefix p q = false ->
  pc_parent_is_dir fs q = true -> pc_descend fs q = None -> pc_descend fs p = Some n ->
  pc_descend (pc_apply (ORename p q) fs) q = Some n /\
  pc_descend (pc_apply (ORename p q) fs) p = None /\
  forall r, pc_is_prefix p r = false -> pc_is_prefix r p = false ->
            pc_is_prefix q r = false -> pc_is_prefix r q = false ->
            pc_descend (pc_apply (ORename p q) fs) r = pc_descend fs r.
Proof. exact pc_apply_rename. Qed.
Print Assumptions C20_rename_spec.

(* Resolving the configured directory ONCE, when the processor is built, is not
   enough ([pc_run_once]: the counterfactual processor that keeps the resolution
   and joins / checks against it): there is a history in which it enqueues a
   file that is NOT under what the configured directory resolves to at that
   moment, where the code as it is answers 400. *)
Theorem C20_resolve_once_refuted :
  exists cwd api fs0 upd0 pre rq post st p dir,
    pc_dir_at fs0 [] /\ pc_dir_at fs0 cwd /\ Forall (pc_ev_spares cwd) pre /\
    nth_error (pc_run_once cwd api fs0 (pc_new_once fs0 cwd upd0) (pre ++ EReq rq :: post)) (pc_requests pre)
      = Some (Some (st, [p])) /\
    (exists d, snd (pc_after (fs0, upd0) pre) = Some d /\ pc_canon (fst (pc_after (fs0, upd0) pre)) cwd d = inr dir) /\
    ~ (exists k, p = dir ++ k) /\
    nth_error (pc_run cwd api (fs0, upd0) (pre ++ EReq rq :: post)) (pc_requests pre) = Some (Some (400, [])).
Proof. exact pc_resolve_once_refuted. Qed.
Print Assumptions C20_resolve_once_refuted.

(* the witness in full: /day1/one.mrt, /day2/two.mrt, /current -> day1, update_path = /current;
   requests one.mrt, two.mrt; `current` re-pointed to day2; requests one.mrt, ../day1/one.mrt, two.mrt.
   The code as it is follows the link; the resolve-once processor keeps serving day1 and refuses day2. *)
Example C20_history_example :
  let h := pc_wit_pre ++ EReq pc_wit_one :: pc_wit_post in
  let one := [c20_b "day1"; c20_b "one.mrt"] in
  let two := [c20_b "day2"; c20_b "two.mrt"] in
  Forall (pc_ev_spares []) h /\
  pc_run [] pc_wit_api (pc_wit_fs, pc_wit_upd) h
    = [Some (200, [one]); Some (400, []); Some (400, []); Some (400, []); Some (200, [two])] /\
  pc_run_once [] pc_wit_api pc_wit_fs (pc_new_once pc_wit_fs [] pc_wit_upd) h
    = [Some (200, [one]); Some (400, []); Some (200, [one]); Some (200, [one]); Some (400, [])] /\
  fst (pc_after (pc_wit_fs, pc_wit_upd) h)
    = PDir [(c20_b "day1", PDir [(c20_b "one.mrt", PFile)]); (c20_b "day2", PDir [(c20_b "two.mrt", PFile)]);
            (c20_b "current", PLink (c20_b "day2"))].
Proof. split; [repeat constructor|]. vm_compute. repeat split; reflexivity. Qed.

(* ================================================================ names that are not UTF-8
   Every theorem above is about trees whose names are arbitrary octet strings
   ([pc_name] = list N; what a file system refuses - '/', NUL, "", ".", ".." -
   is [pc_name_valid]); none of them asks for UTF-8. What IS always UTF-8 is the
   requested name ([pc_form_decode] ends with the lossy conversion). So a file
   whose name is not UTF-8 is reached through a link with a name that can be
   asked for, or because update_path resolves to a directory with such a name. *)
Theorem C20_non_utf8_target_is_answered : forall cwd api s pre rq post d f dir k c,
  pc_to_queue api rq ->
  snd (pc_after s pre) = Some d ->
  pc_get_file (rq_query rq) = PExact f -> pc_is_abs f = false ->
  pc_canon (fst (pc_after s pre)) cwd d = inr dir ->
  pc_canon (fst (pc_after s pre)) cwd (pc_push (pc_render dir) f) = inr (dir ++ k) ->
  In c (dir ++ k) -> ~ pc_is_utf8 c ->
  nth_error (pc_run cwd api s (pre ++ EReq rq :: post)) (pc_requests pre) =
    Some (Some (pc_status (rq_mode rq), [dir ++ k])) /\
  (exists a b, pc_entry_text (dir ++ k) = a ++ c_slash :: c ++ b) /\
  pc_shown (dir ++ k) = pc_utf8_lossy (pc_entry_text (dir ++ k)).
Proof. exact pc_non_utf8_target_answered. Qed.
Print Assumptions C20_non_utf8_target_is_answered.

(* non-vacuity: /upd/updates.<E9>.mrt (Latin-1), /upd/latest.mrt -> updates.<E9>.mrt, /d<FF> a directory with
   /d<FF>/x.mrt, /ulnk -> d<FF>. The link is answered 200 and the octets are enqueued; the name itself, asked
   for as %E9, arrives as U+FFFD and is not found; an update_path that resolves to d<FF> serves x.mrt; what is
   shown of the Latin-1 entry has EF BF BD where E9 stands in what is enqueued. *)
Local Open Scope string_scope.
Example C20_non_utf8_example :
  let e9 := (c20_b "updates." ++ [233] ++ c20_b ".mrt")%list in
  let dff := [100; 255] in
  let fs := PDir [(c20_b "upd", PDir [(e9, PFile); (c20_b "latest.mrt", PLink e9)]);
                  (dff, PDir [(c20_b "x.mrt", PFile)]); (c20_b "ulnk", PLink dff)] in
  let rq q := MkReq true (c20_b "/mrt/u/queue") (Some (c20_b q)) MOk in
  let run u q := pc_handle fs [] (c20_b "/mrt/u/") (Some (c20_b u)) (rq q) in
  ~ pc_is_utf8 e9 /\ ~ pc_is_utf8 dff /\
  run "/upd" "file=latest.mrt" = Some (200, [[c20_b "upd"; e9]]) /\
  run "/upd" "file=updates.%E9.mrt" = Some (400, []) /\
  pc_get_file (Some (c20_b "file=updates.%E9.mrt")) = PExact (c20_b "updates." ++ [239; 191; 189] ++ c20_b ".mrt")%list /\
  run "/ulnk" "file=x.mrt" = Some (200, [[dff; c20_b "x.mrt"]]) /\
  pc_observe fs [] [c20_b "upd"; e9] = (inr [c20_b "upd"; e9], true) /\
  pc_entry_text [c20_b "upd"; e9] = (c20_b "/upd/updates." ++ [233] ++ c20_b ".mrt")%list /\
  pc_shown [c20_b "upd"; e9] = (c20_b "/upd/updates." ++ [239; 191; 189] ++ c20_b ".mrt")%list.
Proof. vm_compute. repeat split; try reflexivity; intro H; discriminate H. Qed.
