(* C05 - A BMP session follows the RFC 7854 lifecycle for every order of messages.
   Statements only. Model: Bmp/BmpModel.v (sm_step), proofs: Bmp/BmpProofs.v. *)
From stdpp Require Import gmap.
From Coq Require Import NArith.
From RV Require Import Ingress.IngressModel Rib.RibModel Bmp.BmpModel Bmp.BmpProofs.
Local Open Scope N_scope.

(* phases: initiating < dumping < updating < terminated; the phase after any
   prefix of a message sequence is at most the phase after the whole sequence *)
Theorem C05_phase_monotone : forall ms1 ms2 r rid s,
  phase_idx (sm_phase (sm_run r rid s ms1).1.2) <= phase_idx (sm_phase (sm_run r rid s (ms1 ++ ms2)).1.2).
Proof. exact run_phase_prefix. Qed.
Print Assumptions C05_phase_monotone.

(* the messages reported Invalid are exactly the lifecycle violations (and
   Route Monitoring whose UPDATE does not parse) *)
Theorem C05_invalid_iff_violation : forall r rid s m,
  (sm_step r rid s m).2 = OInvalid <-> violates s m = true.
Proof. exact step_invalid_iff. Qed.
Print Assumptions C05_invalid_iff_violation.

(* ... and they change neither the phase nor the set of peers that are up *)
Theorem C05_invalid_is_noop : forall r rid s m,
  (sm_step r rid s m).2 = OInvalid ->
  sm_phase (sm_step r rid s m).1.2 = sm_phase s /\ sm_peers (sm_step r rid s m).1.2 = sm_peers s.
Proof. exact step_invalid_noop. Qed.
Print Assumptions C05_invalid_is_noop.

(* ... and each is counted *)
Theorem C05_invalid_is_counted : forall ms r rid s,
  let res := sm_run r rid s ms in
  m_unprocessable (sm_metrics res.1.2) = m_unprocessable (sm_metrics s) + sumN (map inval res.2).
Proof. intros ms r rid s. exact (proj1 (run_counters ms r rid s)). Qed.
Print Assumptions C05_invalid_is_counted.

(* route data is only taken from a peer that is up, under that peer's id *)
Theorem C05_routes_only_from_up_peers : forall r rid s m ps,
  (sm_step r rid s m).2 = OUpdate (UBulk ps) ->
  exists p u pe, m = MRoute p (Some u) /\ sm_peers s !! p = Some pe /\ ps = payloads_of (pe_id pe) u /\ live s.
Proof. exact step_routes_from_up_peer. Qed.
Print Assumptions C05_routes_only_from_up_peers.

Theorem C05_payloads_carry_peer_id : forall id u p, p ∈ payloads_of id u -> k_mui (p_key p) = id.
Proof. exact payloads_of_mui. Qed.
Print Assumptions C05_payloads_carry_peer_id.

(* what goes downstream is a function of the message and the up set *)
Theorem C05_output_is_function_of_up_set : forall r rid s m,
  live s -> effect_eq (effect_of (sm_step r rid s m).2) (effect_spec (id_table s) m).
Proof. exact step_effect. Qed.
Print Assumptions C05_output_is_function_of_up_set.

Theorem C05_output_depends_on_up_set : forall r1 r2 rid1 rid2 s1 s2 m,
  live s1 -> live s2 -> id_table s1 = id_table s2 ->
  effect_eq (effect_of (sm_step r1 rid1 s1 m).2) (effect_of (sm_step r2 rid2 s2 m).2).
Proof. exact effect_depends_on_up_set. Qed.
Print Assumptions C05_output_depends_on_up_set.

Example C05_example :
  let p : pph := (0, 0, 0, 0, 1, 65001, 1) in
  let ms := [MInit; MPeerUp p true; MRoute p (Some (URoutes 0 [1; 2] 7 0 []));
             MRoute p (Some (UEor 0)); MPeerDown p; MPeerDown p; MTerm; MInit] in
  (sm_run reg_new 5 sm_init ms).2 =
  [OTransition; OOther; OUpdate (UBulk [MkPay (0, 1, 1) true 7; MkPay (0, 2, 1) true 7]);
   OTransition; OUpdate (UWithdraw 1 None); OInvalid; OTransition; OInvalid].
Proof. vm_compute. reflexivity. Qed.
