(* C05 - A BMP session follows the RFC 7854 lifecycle for every order of messages.
   Statements only. Model: Bmp/BmpModel.v (sm_step), proofs: Bmp/BmpProofs.v. *)
From stdpp Require Import gmap.
From Coq Require Import NArith.
From RV Require Import Ingress.IngressModel Rib.RibModel Bmp.BmpModel Bmp.BmpProofs.
From RV Require Import Pipe.PipeModel Pipe.PipeRaw Bmp.BmpStreamModel Bmp.BmpWireAbs Bmp.BmpWireAbsProofs.
From RV Require Bgp.BgpModel Bmp.BmpWire Bmp.BmpWireProofs.
Local Open Scope N_scope.

(* phases: initiating < dumping < updating < terminated; the phase after any
   prefix of a message sequence is at most the phase after the whole sequence *)
Theorem C05_phase_monotone : forall ms1 ms2 r rid s,
  phase_idx (sm_phase (sm_run r rid s ms1).1.2) <= phase_idx (sm_phase (sm_run r rid s (ms1 ++ ms2)).1.2).
Proof. exact run_phase_prefix. Qed.
Print Assumptions C05_phase_monotone.

(* the messages reported Invalid are exactly the lifecycle violations (and
   Route Monitoring whose UPDATE does not parse) *)
Theorem C05_invalid_iff_violation : forall r rid s m,
  (sm_step r rid s m).2 = OInvalid <-> violates s m = true.
Proof. exact step_invalid_iff. Qed.
Print Assumptions C05_invalid_iff_violation.

(* ... and they change neither the phase nor the set of peers that are up *)
Theorem C05_invalid_is_noop : forall r rid s m,
  (sm_step r rid s m).2 = OInvalid ->
  sm_phase (sm_step r rid s m).1.2 = sm_phase s /\ sm_peers (sm_step r rid s m).1.2 = sm_peers s.
Proof. exact step_invalid_noop. Qed.
Print Assumptions C05_invalid_is_noop.

(* ... and each is counted *)
Theorem C05_invalid_is_counted : forall ms r rid s,
  let res := sm_run r rid s ms in
  m_unprocessable (sm_metrics res.1.2) = m_unprocessable (sm_metrics s) + sumN (map inval res.2).
Proof. intros ms r rid s. exact (proj1 (run_counters ms r rid s)). Qed.
Print Assumptions C05_invalid_is_counted.

(* route data is only taken from a peer that is up, under that peer's id *)
Theorem C05_routes_only_from_up_peers : forall r rid s m ps,
  (sm_step r rid s m).2 = OUpdate (UBulk ps) ->
  exists p u pe, m = MRoute p (Some u) /\ sm_peers s !! p = Some pe /\ ps = payloads_of (pe_id pe) u /\ live s.
Proof. exact step_routes_from_up_peer. Qed.
Print Assumptions C05_routes_only_from_up_peers.

Theorem C05_payloads_carry_peer_id : forall id u p, p ∈ payloads_of id u -> k_mui (p_key p) = id.
Proof. exact payloads_of_mui. Qed.
Print Assumptions C05_payloads_carry_peer_id.

(* what goes downstream is a function of the message and the up set *)
Theorem C05_output_is_function_of_up_set : forall r rid s m,
  live s -> effect_eq (effect_of (sm_step r rid s m).2) (effect_spec (id_table s) m).
Proof. exact step_effect. Qed.
Print Assumptions C05_output_is_function_of_up_set.

Theorem C05_output_depends_on_up_set : forall r1 r2 rid1 rid2 s1 s2 m,
  live s1 -> live s2 -> id_table s1 = id_table s2 ->
  effect_eq (effect_of (sm_step r1 rid1 s1 m).2) (effect_of (sm_step r2 rid2 s2 m).2).
Proof. exact effect_depends_on_up_set. Qed.
Print Assumptions C05_output_depends_on_up_set.

Example C05_example :
  let p : pph := (0, 0, 0, 0, 1, 65001, 1) in
  let ms := [MInit; MPeerUp p true; MRoute p (Some (URoutes 0 [1; 2] 7 0 []));
             MRoute p (Some (UEor 0)); MPeerDown p; MPeerDown p; MTerm; MInit] in
  (sm_run reg_new 5 sm_init ms).2 =
  [OTransition; OOther; OUpdate (UBulk [MkPay (0, 1, 1) true 7; MkPay (0, 2, 1) true 7]);
   OTransition; OUpdate (UWithdraw 1 None); OInvalid; OTransition; OInvalid].
Proof. vm_compute. reflexivity. Qed.

(* ====================================================================== *)
(* BMP on the wire: the messages above as octets (Bmp/BmpWire.v: an RFC 7854 codec aligned with what
   routecore accepts; Bmp/BmpWireAbs.v: what the state machine reads of a decoded message). *)

(* the decoder undoes the encoder on every well-formed message (boolean well-formedness = the decoder's checks) *)
Theorem C05_wire_roundtrip : forall m, BmpWire.wf m = true -> BmpWire.decode (BmpWire.encode m) = Some m.
Proof. exact BmpWireProofs.roundtrip. Qed.
Print Assumptions C05_wire_roundtrip.

(* framing: the stream loop (io.rs bmp_read + the parser) cuts the concatenation of any number of encodings
   back into exactly these messages - each one consumes exactly its length field *)
Theorem C05_wire_framing : forall ms, List.forallb BmpWire.wf ms = true ->
  BmpWire.stream (List.concat (List.map BmpWire.encode ms)) = (List.map BmpWire.SMsg ms, BmpWire.SEnd).
Proof. exact BmpWireProofs.stream_of_encodings. Qed.
Print Assumptions C05_wire_framing.

(* ... and so does the model of bmp_read that C06/C07 are proved about (BmpStreamModel), on any script of read events *)
Theorem C05_wire_bmp_read : forall m evs,
  bmp_read (map EByte (BmpWire.encode m) ++ evs) = RdFrame (BmpWire.encode m) evs.
Proof. exact bmp_read_encoded. Qed.
Print Assumptions C05_wire_bmp_read.

(* the malformed classes - fewer than six octets, a version other than 3, a length field that is not the
   length of the frame, a type above 6, a peer type above 3, a message cut short anywhere, a message with
   octets added - are refused: the state machine is not entered *)
Theorem C05_wire_malformed_is_unparsable :
  (forall b, BgpModel.lenN b < 6 -> wire_msg b = None) /\
  (forall ver r, ver <> 3 -> wire_msg (ver :: r) = None) /\
  (forall ver l3 l2 l1 l0 r, BmpWire.u32 l3 l2 l1 l0 <> BgpModel.lenN (ver :: l3 :: l2 :: l1 :: l0 :: r) ->
      wire_msg (ver :: l3 :: l2 :: l1 :: l0 :: r) = None) /\
  (forall ver l3 l2 l1 l0 ty body, 6 < ty -> wire_msg (ver :: l3 :: l2 :: l1 :: l0 :: ty :: body) = None) /\
  (forall ver l3 l2 l1 l0 ty pt r, ty <> 4 -> ty <> 5 -> 3 < pt -> wire_msg (ver :: l3 :: l2 :: l1 :: l0 :: ty :: pt :: r) = None) /\
  (forall m k, (k < length (BmpWire.encode m))%nat -> wire_msg (take k (BmpWire.encode m)) = None) /\
  (forall m x, x <> [] -> wire_msg (BmpWire.encode m ++ x) = None).
Proof. exact unparsable_classes. Qed.
Print Assumptions C05_wire_malformed_is_unparsable.

Theorem C05_wire_unparsable_never_enters : forall r rid s frame, wire_msg frame = None -> wire_step r rid s frame = None.
Proof. exact wire_step_unparsable. Qed.
Print Assumptions C05_wire_unparsable_never_enters.

(* the stream loop gives the connection up on a length field below 5 and yields nothing from an incomplete message *)
Theorem C05_wire_stream_short_length : forall v l3 l2 l1 l0 r, BmpWire.u32 l3 l2 l1 l0 < 5 ->
  BmpWire.stream (v :: l3 :: l2 :: l1 :: l0 :: r) = ([], BmpWire.SShort).
Proof. exact BmpWireProofs.stream_short_length. Qed.
Print Assumptions C05_wire_stream_short_length.

Theorem C05_wire_stream_cut : forall m k, BmpWire.wf m = true -> (k < length (BmpWire.encode m))%nat ->
  fst (BmpWire.stream (List.firstn k (BmpWire.encode m))) = [].
Proof. exact BmpWireProofs.stream_cut. Qed.
Print Assumptions C05_wire_stream_cut.

(* the peer table's key: two per-peer headers are the same peer for the model exactly when routecore's
   PartialEq says so - peer type, the whole flags octet, distinguisher, the address as address() reads it
   (4 octets with V = 0, 16 with V = 1), AS, BGP id; never the timestamp *)
Theorem C05_wire_peer_identity : forall p q, BmpWire.pph_wf p = true -> BmpWire.pph_wf q = true ->
  (abs_pph p = abs_pph q <-> ident p = ident q).
Proof. exact abs_pph_ident. Qed.
Print Assumptions C05_wire_peer_identity.

(* what the state machine reads of each message type - and nothing else *)
Theorem C05_wire_initiation_reads_nothing : forall ts ts', abstract (BmpWire.WInit ts) = abstract (BmpWire.WInit ts').
Proof. exact abstract_initiation. Qed.
Print Assumptions C05_wire_initiation_reads_nothing.

Theorem C05_wire_termination_reads_nothing : forall ts ts', abstract (BmpWire.WTerm ts) = abstract (BmpWire.WTerm ts').
Proof. exact abstract_termination. Qed.
Print Assumptions C05_wire_termination_reads_nothing.

Theorem C05_wire_statistics_reads_peer : forall p p' st st' tr tr', abs_pph p = abs_pph p' ->
  abstract (BmpWire.WStats p st tr) = abstract (BmpWire.WStats p' st' tr').
Proof. exact abstract_statistics. Qed.
Print Assumptions C05_wire_statistics_reads_peer.

Theorem C05_wire_mirroring_is_statistics : forall p p' d d' st tr, abs_pph p = abs_pph p' ->
  abstract (BmpWire.WMirror p d) = abstract (BmpWire.WMirror p' d') /\
  abstract (BmpWire.WMirror p d) = abstract (BmpWire.WStats p st tr).
Proof. exact abstract_mirroring. Qed.
Print Assumptions C05_wire_mirroring_is_statistics.

Theorem C05_wire_peer_down_reads_peer : forall p p' rs rs' d d', abs_pph p = abs_pph p' ->
  abstract (BmpWire.WPeerDown p rs d) = abstract (BmpWire.WPeerDown p' rs' d').
Proof. exact abstract_peer_down. Qed.
Print Assumptions C05_wire_peer_down_reads_peer.

Theorem C05_wire_peer_up_reads_peer_and_gr : forall p p' la la' lp lp' rp rp' s s' rc rc' i i',
  abs_pph p = abs_pph p' -> BmpWire.has_cap 64 rc = BmpWire.has_cap 64 rc' ->
  abstract (BmpWire.WPeerUp p la lp rp s rc i) = abstract (BmpWire.WPeerUp p' la' lp' rp' s' rc' i').
Proof. exact abstract_peer_up. Qed.
Print Assumptions C05_wire_peer_up_reads_peer_and_gr.

Theorem C05_wire_route_monitoring_reads_peer_and_pdu : forall p p' d d', abs_pph p = abs_pph p' -> route_pdu d = route_pdu d' ->
  abstract (BmpWire.WRoute p d) = abstract (BmpWire.WRoute p' d').
Proof. exact abstract_route_monitoring. Qed.
Print Assumptions C05_wire_route_monitoring_reads_peer_and_pdu.

(* the PDU is delimited by its own length field; an UPDATE from C04's encoder is read as C04's decoder reads it *)
Theorem C05_wire_pdu_delimited : forall u tr, BgpModel.wf u = true ->
  route_upd (BgpModel.encode u ++ tr) = Some (upd_of_update u).
Proof. exact route_upd_encoded. Qed.
Print Assumptions C05_wire_pdu_delimited.

(* C05 over octets: an encoded message is Invalid exactly when it is a lifecycle violation ... *)
Theorem C05_wire_invalid_iff_violation : forall r rid s m, BmpWire.wf m = true ->
  exists res, wire_step r rid s (BmpWire.encode m) = Some res /\ (res.2 = OInvalid <-> violates s (abstract m) = true).
Proof. exact wire_invalid_iff_violation. Qed.
Print Assumptions C05_wire_invalid_iff_violation.

(* ... a session over the octet stream of any sequence of encoded messages is the session over the messages
   (so every theorem above speaks about streams of octets) ... *)
Theorem C05_wire_session_is_message_run : forall r rid s ms, List.forallb BmpWire.wf ms = true ->
  wire_session r rid s (concat (map BmpWire.encode ms)) =
  let '(r', s', os) := sm_run r rid s (map abstract ms) in (r', s', map Some os).
Proof. exact wire_session_encoded. Qed.
Print Assumptions C05_wire_session_is_message_run.

(* ... and over ANY sequence of frames, refused ones included, the phase only moves forward *)
Theorem C05_wire_phase_monotone : forall r rid s f1 f2,
  phase_idx (sm_phase (wire_frames r rid s f1).1.2) <= phase_idx (sm_phase (wire_frames r rid s (f1 ++ f2)).1.2).
Proof. exact wire_frames_phase_monotone. Qed.
Print Assumptions C05_wire_phase_monotone.

(* the pipeline: a Route Monitoring frame around an encoded UPDATE is the wire-level operation of C01 (Pipe/PipeRaw.v) *)
Theorem C05_wire_route_monitoring_is_raw_bmp : forall k p u tr, BgpModel.wf u = true ->
  BmpWire.wf (BmpWire.WRoute p (BgpModel.encode u ++ tr)) = true ->
  wire_bmp k (BmpWire.encode (BmpWire.WRoute p (BgpModel.encode u ++ tr))) = Some (raw_bmp k (abs_pph p) (BgpModel.encode u)) /\
  raw_bmp k (abs_pph p) (BgpModel.encode u) = WMsg k (MRoute (abs_pph p) (Some (upd_of_update u))).
Proof. exact wire_bmp_route_monitoring. Qed.
Print Assumptions C05_wire_route_monitoring_is_raw_bmp.

(* nine messages as octets: Initiation; Peer Up (received OPEN with graceful restart); a route; a second Peer Up for
   the same peer (other timestamp, other OPENs, an information TLV): Invalid; a route for the post-policy view that is
   not up: Invalid; Peer Down reason 2; Peer Down again: Invalid; Termination; Statistics after it: Invalid *)
Example C05_wire_example :
  List.forallb BmpWire.wf ex_session = true /\
  exists u, (wire_session reg_new 5 sm_init (concat (map BmpWire.encode ex_session))).2 =
  [Some OTransition; Some OOther; Some (OUpdate u); Some OInvalid; Some OInvalid;
   Some (OUpdate (UWithdraw 1 None)); Some OInvalid; Some OTransition; Some OInvalid].
Proof. split; [vm_compute; reflexivity|eexists; vm_compute; reflexivity]. Qed.

(* the stream and the pipeline (Pipe/PipeWire.v, composed with the end-to-end refinement in Props_C01.v:
   C01_wire_stream_refines_ideal): what a delivery of octets hands to the pipeline is, message for message, what the
   session over the same octets steps through - a refused frame is no operation, a length field below 5 ends the
   connection - and the session's state is the run over those messages *)
From RV Require Import Pipe.PipeWire Pipe.PipeWireProofs.
Theorem C05_wire_stream_feeds_pipeline : forall k octets,
  (deliver k octets).1 = map (WMsg k) (omap item_msg (BmpWire.stream octets).1) ++ end_ops k (BmpWire.stream octets).2 /\
  forall r rid s, (wire_session r rid s octets).1 = (sm_run r rid s (omap item_msg (BmpWire.stream octets).1)).1.
Proof. exact deliver_session. Qed.
Print Assumptions C05_wire_stream_feeds_pipeline.
