(* C13 — Config (re)load applies exactly the difference and spares what is unchanged.
   Statements only; every proof is [exact <lemma>].

   [reload v m d] is one load of the abstract TOML document [d] into the
   manager [m] as main.rs drives it (ConfigFile::new, Manager::load,
   Manager::prepare, Manager::spawn_internal). The variants: [Legacy] = the
   pinned code, [Fixed] = the code with the three fix: commits (what the
   correspondence check runs against), [Ideal] = Fixed without the panic of
   Coordinator::track for a unit and a target of one name (known finding).
   [is_legacy v = false] covers Fixed and Ideal. *)
From Coq Require Import NArith ZArith List Bool.
From RV Require Import Manager.ReloadModel Manager.ReloadProofs.
From RV Require Manager.ConfDefaultsModel Manager.ConfDefaultsProofs.
From RV Require Rib.RibModel E2e.E2eModel E2e.E2eProofs Bgp.BgpSessionModel Bgp.BgpSessionProofs Ingress.IngressModel Pipe.PipeModel.
Import ListNotations.
Local Open Scope N_scope.

(* A load fails with an error exactly when the document is not valid, and
   validity is a property of the document alone (syntax, unique names, known
   top-level keys, known types, well-formed settings, a `sources` value of the
   shape the type takes, every source resolves to a unit of the file) - it does
   not depend on what happened before, in particular not on earlier failed
   loads. *)
Theorem C13_accepts_exactly_valid : forall v m d,
  is_legacy v = false -> (fst (reload v m d) = RErr <-> doc_ok d = false).
Proof. exact accepts_exactly_valid. Qed.
Print Assumptions C13_accepts_exactly_valid.

(* A load that fails touches neither the running components nor the gates
   waiting to be handed out. *)
Theorem C13_failed_load_is_noop : forall v m d,
  is_legacy v = false -> fst (reload v m d) = RErr ->
  m_units (snd (reload v m d)) = m_units m /\
  m_targets (snd (reload v m d)) = m_targets m /\
  m_pending (snd (reload v m d)) = m_pending m.
Proof. exact failed_load_is_noop. Qed.
Print Assumptions C13_failed_load_is_noop.

(* A load that succeeds leaves running exactly the used units and all targets
   of the (expanded) file, each with the type and settings of the file and
   every link reaching the running unit it names; and the start / reconfigure /
   terminate requests are exactly the difference to what ran before: Spawn for
   what is new or has another type, Reconfigure for same name and type,
   Terminate for what is absent, unused or has another type. Whatever the
   state [m] before. *)
Theorem C13_diff_exact : forall v m d acts m',
  is_legacy v = false -> reload v m d = (ROk acts, m') ->
  reflects (expand d) m' /\
  exact_actions KUnit (m_units m) (m_units m') acts /\
  exact_actions KTarget (m_targets m) (m_targets m') acts.
Proof. exact diff_exact. Qed.
Print Assumptions C13_diff_exact.

(* A component whose name and type are unchanged is told to reconfigure and is
   neither terminated nor started again (so the manager gives it no reason to
   lose its state). *)
Theorem C13_spares_unchanged : forall k before after acts n ty,
  exact_actions k before after acts ->
  running_type before n = Some ty -> In n (names after) ->
  (forall r, In (n, r) after -> r_ty r = ty) ->
  In (AReconf k n) acts /\ ~ In (ASpawn k n) acts /\ ~ In (ATerm k n) acts.
Proof. exact spares_unchanged. Qed.
Print Assumptions C13_spares_unchanged.

(* After ANY history of loads that did not panic, what runs and how it is wired
   is what the last valid document of the history says (nothing, if there was
   none). *)
Theorem C13_last_good_wins : forall v h m,
  is_legacy v = false -> run v h = Some m -> settled (last_good h) m.
Proof. exact last_good_wins. Qed.
Print Assumptions C13_last_good_wins.

(* No document makes the fixed code panic, provided no unit (generated vRIB
   units included) has the name of a target ... *)
Theorem C13_no_panic_partial : forall v m d,
  is_legacy v = false -> names_apart d = true -> fst (reload v m d) <> RPanic.
Proof. exact no_panic_when_names_apart. Qed.
Print Assumptions C13_no_panic_partial.

(* ... and the proviso is needed: a valid two-section file with a unit and a
   target of one name panics in Coordinator::track on a cold start (known
   finding C13-same-name-panic), where the property asks for a successful
   load. *)
Theorem C13_same_name_panic_refuted :
  doc_ok wit_same_name = true /\ fst (reload Fixed mgr_new wit_same_name) = RPanic /\
  (exists acts m, reload Ideal mgr_new wit_same_name = (ROk acts, m)).
Proof. exact same_name_panics. Qed.
Print Assumptions C13_same_name_panic_refuted.

(* Apart from that panic the fixed code is the ideal one, and the ideal one
   never panics, on any history. *)
Theorem C13_fixed_is_ideal_unless_panic : forall m d,
  fst (reload Fixed m d) <> RPanic -> reload Fixed m d = reload Ideal m d.
Proof. exact fixed_is_ideal_unless_panic. Qed.
Print Assumptions C13_fixed_is_ideal_unless_panic.

Theorem C13_ideal_total : forall h, run Ideal h <> None.
Proof. exact ideal_total. Qed.
Print Assumptions C13_ideal_total.

(* The three defects of the pinned code (each reproduced on the real code and
   repaired by a fix: commit). (a) `sources = 3` panics instead of failing. *)
Theorem C13_legacy_bad_sources_refuted :
  d_syntax wit_bad_sources = true /\ fst (reload Legacy mgr_new wit_bad_sources) = RPanic /\
  fst (reload Fixed mgr_new wit_bad_sources) = RErr.
Proof. exact legacy_bad_sources_panics. Qed.
Print Assumptions C13_legacy_bad_sources_refuted.

(* (b) a load that fails inside deserialisation leaves gates in the
   thread-local table: the next, valid, document is rejected. *)
Theorem C13_legacy_stale_gates_refuted :
  exists m, run Legacy [wit_fails_in_deser] = Some m /\
    doc_ok wit_small_valid = true /\ fst (reload Legacy m wit_small_valid) = RErr.
Proof. exact legacy_stale_gates. Qed.
Print Assumptions C13_legacy_stale_gates_refuted.

(* (c) a load rejected for an unresolved link leaves pending gates: a later
   valid document starts a unit that nothing consumes. *)
Theorem C13_legacy_stale_pending_refuted :
  exists m acts m', run Legacy [wit_unresolved] = Some m /\
    doc_ok wit_two_unused = true /\ reload Legacy m wit_two_unused = (ROk acts, m') /\
    In (u 2) (names (m_units m')) /\ used (expand wit_two_unused) (u 2) = false.
Proof. exact legacy_stale_pending. Qed.
Print Assumptions C13_legacy_stale_pending_refuted.

(* Reading of "units that nothing consumes": consumption is judged on the file.
   A unit linked to only by a unit that is itself unused is started. *)
Theorem C13_consumer_need_not_run :
  exists acts m, reload Fixed mgr_new wit_chain_unused = (ROk acts, m) /\
    In (u 1) (names (m_units m)) /\ ~ In (u 2) (names (m_units m)) /\
    all_links (expand wit_chain_unused) = [u 3; u 1].
Proof. exact consumer_need_not_run. Qed.
Print Assumptions C13_consumer_need_not_run.

(* ---- the Roto script of the configuration (E2e/E2eModel.v; tied to the code by the `e2e` engine) ----
   [e_run false (e_init s0) h] = the running pipeline after start-up with the script s0 and the history h of traffic,
   edits of the script / of [units.rib2] and reloads; [scripts_named s0 h] = the script the configuration named at
   each reload of h; a unit records the number of the load that started it (0 = start-up). *)

(* every RIB unit filters with the script named by the configuration that was loaded when the unit was started -
   the start-up configuration for a unit that runs since then, the reloaded one for a unit a reload started *)
Theorem C13_unit_filter_is_script_of_its_load : forall s0 h,
  let st := E2eModel.e_run false (E2eModel.e_init s0) h in
  let named := s0 :: E2eModel.scripts_named s0 h in
  nth_error named (E2eModel.ru_born (E2eModel.es_rib st)) = Some (E2eModel.ru_filter (E2eModel.es_rib st)) /\
  forall r, E2eModel.es_rib2 st = Some r -> nth_error named (E2eModel.ru_born r) = Some (E2eModel.ru_filter r).
Proof. exact E2eProofs.unit_filter_is_script_of_its_load_nth. Qed.
Print Assumptions C13_unit_filter_is_script_of_its_load.

(* a reload that adds the unit (or changes the type of the unit of that name to rib) starts it empty and with the
   script the reloaded configuration names *)
Theorem C13_reload_starts_unit_with_new_script : forall st,
  (E2eModel.es_rib2kind st =? 1) = false -> E2eModel.ef_rib2 (E2eModel.es_file st) = 1 ->
  E2eModel.es_rib2 (E2eModel.e_step false st E2eModel.EReload) =
  Some (E2eModel.MkRunit (E2eModel.ef_script (E2eModel.es_file st)) (length (E2eModel.es_scripts st)) RibModel.rib_empty).
Proof. exact E2eProofs.reload_starts_unit_with_new_script. Qed.
Print Assumptions C13_reload_starts_unit_with_new_script.

(* a reload spares what is unchanged: a running RIB unit of unchanged name and type keeps its store - and the filter
   it fetched when it was started (what the code does with an edited script, see design-notes/E2E.md O6) *)
Theorem C13_reload_spares_running_units : forall lg st,
  E2eModel.es_rib (E2eModel.e_step lg st E2eModel.EReload) = E2eModel.es_rib st /\
  (E2eModel.es_rib2kind st = 1 -> E2eModel.ef_rib2 (E2eModel.es_file st) = 1 ->
   E2eModel.es_rib2 (E2eModel.e_step lg st E2eModel.EReload) = E2eModel.es_rib2 st).
Proof. exact E2eProofs.reload_spares_running_units. Qed.
Print Assumptions C13_reload_spares_running_units.

(* the code as it was (legacy = true): a reload whose configuration names NO script left the compiled script of the
   earlier load in the manager, and a unit started by that reload filtered with it *)
Theorem C13_legacy_script_removed_refuted :
  let h := [E2eModel.EScript E2eModel.SNone; E2eModel.EUnit 1; E2eModel.EReload] in
  let st := E2eModel.e_run true (E2eModel.e_init (E2eModel.SRejectPfx 7)) h in
  option_map E2eModel.ru_filter (E2eModel.es_rib2 st) = Some (E2eModel.SRejectPfx 7) /\
  last (E2eModel.es_scripts st) E2eModel.SNoRibFilter = E2eModel.SNone /\
  option_map E2eModel.ru_filter (E2eModel.es_rib2 (E2eModel.e_run false (E2eModel.e_init (E2eModel.SRejectPfx 7)) h)) = Some E2eModel.SNone.
Proof. exact E2eProofs.legacy_script_removed_refuted_std. Qed.
Print Assumptions C13_legacy_script_removed_refuted.

(* ---- generated vRIBs of a shorthand RIB (`filter_names` with more than one entry; E2e/E2eModel.v, tied to the code by
   the `e2e` engine: ops K n / N i af p) ----
   [e_init_v s0 n0] = start-up with script s0 and n0 generated vRIBs behind the physical RIB; [EVribs n] = the operator
   asks for n of them, effective with the next reload; a vRIB records the load whose gates its two links - vrib_upstream,
   through which it triggers the physical RIB, and sources, over which the result comes back - were made for;
   [es_cur st] = the latest load = the load whose gates the running units hold. *)

(* after ANY history of traffic, edits and reloads the links of every running generated vRIB are those of the last
   load (what a unit of unchanged name and type must do with a Reconfigure: adopt the new links) ... *)
Theorem C13_vribs_linked_to_current : forall lg s0 n0 h,
  let st := E2eModel.e_run lg (E2eModel.e_init_v s0 n0) h in
  forall v, In v (E2eModel.es_vribs st) ->
    E2eModel.vr_up v = E2eModel.es_cur st /\ E2eModel.vr_src v = E2eModel.es_cur st.
Proof. exact E2eProofs.vribs_linked_to_current. Qed.
Print Assumptions C13_vribs_linked_to_current.

(* ... so the query of a running vRIB always reaches the physical RIB of the current configuration and its result
   comes down the chain *)
Theorem C13_vrib_chain_always_linked : forall lg s0 n0 h i,
  let st := E2eModel.e_run lg (E2eModel.e_init_v s0 n0) h in
  (i < length (E2eModel.es_vribs st))%nat ->
  E2eModel.chain_linked (E2eModel.es_cur st) (E2eModel.es_vribs st) i = true.
Proof. exact E2eProofs.vrib_chain_always_linked. Qed.
Print Assumptions C13_vrib_chain_always_linked.

(* The property's reading ([vrib_query_spec]): vRIB i answers with the entries of the physical RIB that pass the
   filters of the chain up to it. Partial: the code ([vrib_query_code]) does so - after every history, any number of
   reloads - for a prefix the physical RIB holds nothing for, and for a path without a vRIB ... *)
Theorem C13_vrib_query_partial : forall lg s0 n0 h i af pfx,
  let st := E2eModel.e_run lg (E2eModel.e_init_v s0 n0) h in
  RibModel.rib_query (E2eModel.ru_rib (E2eModel.es_rib st)) af pfx = [] ->
  E2eModel.vrib_query_code st i af pfx = E2eModel.vrib_query_spec st i af pfx.
Proof. exact E2eProofs.vrib_query_partial. Qed.
Print Assumptions C13_vrib_query_partial.

(* ... whenever it answers at all, it answers what the property asks for (any state) ... *)
Theorem C13_vrib_code_answer_is_spec : forall st i af pfx l,
  E2eModel.vrib_query_code st i af pfx = E2eModel.VAnswer l -> E2eModel.vrib_query_spec st i af pfx = E2eModel.VAnswer l.
Proof. exact E2eProofs.vrib_code_answer_is_spec. Qed.
Print Assumptions C13_vrib_code_answer_is_spec.

(* ... and the proviso is needed (known finding C13-vrib-query-todo): with one route in the physical RIB the property
   asks for it, the request is never answered - reprocess_rib_value is `todo!()` - while the neighbouring prefix is *)
Theorem C13_vrib_query_refuted :
  let st := E2eModel.e_run false (E2eModel.e_init_v E2eModel.SNone 1) E2eProofs.vrib_witness in
  E2eModel.vrib_query_code st 0 0 1 = E2eModel.VNever /\
  (exists e, E2eModel.vrib_query_spec st 0 0 1 = E2eModel.VAnswer [e]) /\
  E2eModel.vrib_query_code st 0 0 2 = E2eModel.VAnswer [] /\ E2eModel.vrib_query_spec st 0 0 2 = E2eModel.VAnswer [].
Proof. exact E2eProofs.vrib_query_refuted. Qed.
Print Assumptions C13_vrib_query_refuted.

(* with no filter in the chain a vRIB says what the physical RIB says *)
Theorem C13_vrib_unfiltered_answers_as_prib : forall st i af pfx,
  (i < length (E2eModel.es_vribs st))%nat ->
  (forall v, In v (E2eModel.es_vribs st) ->
     E2eModel.vr_filter v = E2eModel.SNone \/ E2eModel.vr_filter v = E2eModel.SNoRibFilter) ->
  E2eModel.vrib_query_spec st i af pfx =
  E2eModel.VAnswer (RibModel.rib_query (E2eModel.ru_rib (E2eModel.es_rib st)) af pfx).
Proof. exact E2eProofs.vrib_unfiltered_answers_as_prib. Qed.
Print Assumptions C13_vrib_unfiltered_answers_as_prib.

(* a reload leaves running exactly as many generated vRIBs as the file asks for; one that stays is spared (filter and
   birth kept, links replaced by this load's); one that is new is started with the script the reloaded configuration
   names; nothing but a reload touches them *)
Theorem C13_reload_vrib_count : forall lg st,
  length (E2eModel.es_vribs (E2eModel.e_step lg st E2eModel.EReload)) = N.to_nat (E2eModel.ef_vribs (E2eModel.es_file st)).
Proof. exact E2eProofs.reload_vrib_count. Qed.
Print Assumptions C13_reload_vrib_count.

Theorem C13_reload_spares_vribs : forall lg st i v,
  nth_error (E2eModel.es_vribs st) i = Some v -> (i < N.to_nat (E2eModel.ef_vribs (E2eModel.es_file st)))%nat ->
  nth_error (E2eModel.es_vribs (E2eModel.e_step lg st E2eModel.EReload)) i =
  Some (E2eModel.MkVrib (E2eModel.vr_filter v) (E2eModel.vr_born v)
          (length (E2eModel.es_scripts st)) (length (E2eModel.es_scripts st))).
Proof. exact E2eProofs.reload_spares_vribs_nth. Qed.
Print Assumptions C13_reload_spares_vribs.

Theorem C13_reload_starts_vribs : forall st i,
  (length (E2eModel.es_vribs st) <= i)%nat -> (i < N.to_nat (E2eModel.ef_vribs (E2eModel.es_file st)))%nat ->
  nth_error (E2eModel.es_vribs (E2eModel.e_step false st E2eModel.EReload)) i =
  Some (E2eModel.MkVrib (E2eModel.ef_script (E2eModel.es_file st))
          (length (E2eModel.es_scripts st)) (length (E2eModel.es_scripts st)) (length (E2eModel.es_scripts st))).
Proof. exact E2eProofs.reload_starts_vribs_nth. Qed.
Print Assumptions C13_reload_starts_vribs.

Theorem C13_only_reload_touches_vribs : forall lg st o,
  o <> E2eModel.EReload -> E2eModel.es_vribs (E2eModel.e_step lg st o) = E2eModel.es_vribs st.
Proof. exact E2eProofs.only_reload_touches_vribs. Qed.
Print Assumptions C13_only_reload_touches_vribs.

(* every generated vRIB filters with the script named by the configuration that was loaded when it was started *)
Theorem C13_vrib_filter_is_script_of_its_load : forall s0 n0 h,
  let st := E2eModel.e_run false (E2eModel.e_init_v s0 n0) h in
  let named := s0 :: E2eModel.scripts_named s0 h in
  forall v, In v (E2eModel.es_vribs st) -> nth_error named (E2eModel.vr_born v) = Some (E2eModel.vr_filter v).
Proof. exact E2eProofs.vrib_filter_is_script_of_its_load. Qed.
Print Assumptions C13_vrib_filter_is_script_of_its_load.

(* non-vacuity of the vRIB statements: two vRIBs and a script at start-up, an edited script and a third vRIB by reload *)
Example C13_vrib_example :
  let st := E2eModel.e_run false (E2eModel.e_init_v (E2eModel.SRejectPfx 7) 2)
              [E2eModel.EScript (E2eModel.SRejectPfx 8); E2eModel.EVribs 3; E2eModel.EReload] in
  E2eModel.es_vribs st = [E2eModel.MkVrib (E2eModel.SRejectPfx 7) 0 1 1; E2eModel.MkVrib (E2eModel.SRejectPfx 7) 0 1 1;
                          E2eModel.MkVrib (E2eModel.SRejectPfx 8) 1 1 1] /\ E2eModel.es_cur st = 1%nat /\
  E2eModel.vrib_query_code st 2 0 8 = E2eModel.VAnswer [] /\ E2eModel.vrib_query_code st 3 0 8 = E2eModel.VAbsent.
Proof. exact E2eProofs.vrib_example. Qed.

(* ---- established BGP sessions of a bgp-tcp-in unit that is reconfigured (Bgp/BgpSessionModel.v: the select! loop of
   the per-session Processor::process; tied to the code by the `bgpend` engine, event `r <kind>`) ----
   [bs_spared e]: e is a Reconfiguring that changes neither listen / my_asn / my_bgp_id nor this session's peer entry:
   nothing at all (BRSame) or only other peers' entries (BROthers). *)

(* such a reconfiguration is no event for the session: no Disconnect, nothing sent, the loop goes on *)
Theorem C13_bgp_reconfigure_spares_session : forall id key s e,
  BgpSessionModel.bs_spared e = true -> BgpSessionModel.bs_step id key s e = (s, true).
Proof. exact BgpSessionProofs.reconf_spares_session. Qed.
Print Assumptions C13_bgp_reconfigure_spares_session.

(* ... for every script of events: taking those reconfigurations out changes nothing of what the session does (updates
   sent, live_sessions, commands to the session, the withdrawal at its end) *)
Theorem C13_bgp_spared_reconfigurations_invisible : forall id key live0 evs,
  fst (BgpSessionModel.bs_process id key live0 evs) =
  fst (BgpSessionModel.bs_process id key live0 (filter (fun e => negb (BgpSessionModel.bs_spared e)) evs)).
Proof. exact BgpSessionProofs.spared_reconfs_invisible. Qed.
Print Assumptions C13_bgp_spared_reconfigurations_invisible.

(* ... and only those are spared: any other reconfiguration makes the session disconnect (reconfiguration / de-configured) *)
Theorem C13_bgp_other_reconfigurations_disconnect : forall id key s r,
  BgpSessionModel.bs_spared (BgpSessionModel.BReconf r) = false ->
  exists c go, BgpSessionModel.bs_step id key s (BgpSessionModel.BReconf r) = (BgpSessionModel.bs_command s c, go) /\
               (c = BgpSessionModel.BCReconfiguration \/ c = BgpSessionModel.BCDeconfigured).
Proof. exact BgpSessionProofs.reconf_not_spared_disconnects. Qed.
Print Assumptions C13_bgp_other_reconfigurations_disconnect.

(* non-vacuity: a valid pipeline with a shorthand rib (expanded to two vRIBs),
   an unused unit and three targets loads, runs what the file says, and a
   reload of the same file reconfigures every running component *)
Example C13_example :
  doc_ok wit_pipeline = true /\ names_apart wit_pipeline = true /\
  (exists acts m, reload Fixed mgr_new wit_pipeline = (ROk acts, m) /\
     names (m_units m) = [u 1; u 2; (2, Some 0); (2, Some 1); u 3] /\
     names (m_targets m) = [u 11; u 12; u 13] /\
     (exists acts' m', reload Fixed m wit_pipeline = (ROk acts', m') /\
        acts' = [AReconf KTarget (u 11); AReconf KTarget (u 12); AReconf KTarget (u 13);
                 AReconf KUnit (u 1); AReconf KUnit (u 2); AReconf KUnit (2, Some 0);
                 AReconf KUnit (2, Some 1); AReconf KUnit (u 3)])).
Proof. vm_compute. split; [reflexivity|]. split; [reflexivity|]. do 2 eexists. repeat split. do 2 eexists. split; reflexivity. Qed.

(* ---- an ingress unit that a reload takes out of the configuration and one that a reload puts back (E2e/E2eModel.v,
   third part: istate / i_step; tied to the code by the `e2e` engine: ops J j / JL u) ----
   The pipeline has two bmp-tcp-in units, `bmp-in` (router addresses 0..3) and `bmp-in2` (4..7), which every RIB unit
   sources. [IIngress b] = the operator takes [units.bmp-in] out of the file / puts it back, effective with the next
   [IE EReload]: the manager terminates the running unit - every connection of it ends - or starts a NEW unit.
   [is_run] = a bmp-in unit runs, [is_want] = the file has one, [is_gen] = bmp-in units started before the one that
   runs; the session of address k at incarnation g has the key k + 8 g ([i_session]); [i_children st rid] = the
   ingress ids registered under router id rid (ids_for_parent); [i_rib_lookup st key] = what unit `rib` reports for
   one (family, prefix, ingress id). *)

(* every record the RIB holds under an ingress id registered under a router that is connected to the unit which
   the reload takes out is reported withdrawn afterwards, with the attributes it had (the statement seeded C03-b1 breaks:
   read_from_router's 'gate terminated' exit skipped the clean-up) ... *)
Theorem C13_removed_unit_withdraws_its_routes : forall st k rid s id key,
  E2eModel.is_run st = true -> E2eModel.is_want st = false ->
  (k < 4)%N -> E2eModel.i_session st (k + 8 * E2eModel.is_gen st)%N = Some (rid, s) -> In id (E2eModel.i_children st rid) ->
  RibModel.k_mui key = id -> (RibModel.k_fam key < 4)%N ->
  E2eModel.i_rib_lookup (E2eModel.i_step false st (E2eModel.IE E2eModel.EReload)) key =
  E2eModel.withdrawn_of (E2eModel.i_rib_lookup st key).
Proof. exact E2eProofs.removed_unit_withdraws_its_routes_std. Qed.
Print Assumptions C13_removed_unit_withdraws_its_routes.

(* ... and nothing else changes: a record whose ingress id is not registered under one of those routers is reported
   as before, the sessions of the other ingress unit are what they were, the register is untouched *)
Theorem C13_removal_spares_other_ingresses : forall st,
  E2eModel.is_run st = true -> E2eModel.is_want st = false ->
  let st' := E2eModel.i_step false st (E2eModel.IE E2eModel.EReload) in
  (forall key,
     (forall k rid s, (k < 4)%N -> E2eModel.i_session st (k + 8 * E2eModel.is_gen st)%N = Some (rid, s) ->
                      ~ In (RibModel.k_mui key) (E2eModel.i_children st rid)) ->
     E2eModel.i_rib_lookup st' key = E2eModel.i_rib_lookup st key) /\
  (forall k, (4 <= k < 8)%N -> E2eModel.i_session st' k = E2eModel.i_session st k) /\
  (forall rid, E2eModel.i_children st' rid = E2eModel.i_children st rid).
Proof. exact E2eProofs.removal_spares_other_ingresses_std. Qed.
Print Assumptions C13_removal_spares_other_ingresses.

(* exactly the difference: what the removal does to a RIB unit that lives through the reload - `rib`, and a second rib
   unit of unchanged type - is ONE bulk withdrawal of the ids registered under the routers that were connected *)
Theorem C13_removal_is_one_bulk_withdrawal : forall st,
  E2eModel.is_run st = true -> E2eModel.is_want st = false ->
  let st' := E2eModel.i_step false st (E2eModel.IE E2eModel.EReload) in
  let ids := E2eModel.removed_ids (E2eModel.es_w (E2eModel.is_e st))
               (map (E2eModel.src_key (E2eModel.is_gen st)) E2eModel.unit1_addrs) in
  E2eModel.ru_rib (E2eModel.es_rib (E2eModel.is_e st')) =
    RibModel.rib_apply (E2eModel.ru_rib (E2eModel.es_rib (E2eModel.is_e st))) (RibModel.UWithdrawBulk ids) /\
  E2eModel.ru_filter (E2eModel.es_rib (E2eModel.is_e st')) = E2eModel.ru_filter (E2eModel.es_rib (E2eModel.is_e st)) /\
  forall r, E2eModel.es_rib2 (E2eModel.is_e st) = Some r -> E2eModel.es_rib2kind (E2eModel.is_e st) = 1%N ->
            E2eModel.ef_rib2 (E2eModel.es_file (E2eModel.is_e st)) = 1%N ->
    E2eModel.es_rib2 (E2eModel.is_e st') =
    Some (E2eModel.MkRunit (E2eModel.ru_filter r) (E2eModel.ru_born r) (RibModel.rib_apply (E2eModel.ru_rib r) (RibModel.UWithdrawBulk ids))).
Proof. exact E2eProofs.removal_is_one_bulk_withdrawal_std. Qed.
Print Assumptions C13_removal_is_one_bulk_withdrawal.

(* the unit is gone: no session of any of its routers is left, nothing answers at its router list *)
Theorem C13_removal_ends_its_sessions : forall st,
  E2eModel.is_run st = true -> E2eModel.is_want st = false ->
  let st' := E2eModel.i_step false st (E2eModel.IE E2eModel.EReload) in
  E2eModel.is_run st' = false /\ E2eModel.i_listed st' 0 = None /\
  forall k, (k < 4)%N -> E2eModel.i_session st' (k + 8 * E2eModel.is_gen st)%N = None.
Proof. exact E2eProofs.removal_ends_its_sessions_std. Qed.
Print Assumptions C13_removal_ends_its_sessions.

(* over ALL histories of traffic, edits and reloads (any number of removals and returns): while no bmp-in unit runs no
   router of bmp-in has a session, of whatever incarnation; and a session there is belongs to the unit that runs *)
Theorem C13_no_unit_no_sessions : forall s0 n0 h k g,
  let st := E2eModel.i_run false (E2eModel.i_init s0 n0) h in
  (k < 4)%N ->
  (E2eModel.is_run st = false -> E2eModel.i_session st (k + 8 * g)%N = None) /\
  (E2eModel.i_session st (k + 8 * g)%N <> None -> E2eModel.is_run st = true /\ g = E2eModel.is_gen st).
Proof. exact E2eProofs.no_unit_no_sessions_std. Qed.
Print Assumptions C13_no_unit_no_sessions.

(* the reload that puts the unit back starts a NEW unit: it registers an ingress id of its own (the register's next),
   so its routers are looked up under another parent; nothing else moves - the RIB reports what it reported (the routes
   of the earlier unit's sessions stay withdrawn), the other sessions and the register's entries are what they were *)
Theorem C13_added_unit_is_a_new_parent : forall lg st,
  E2eModel.is_run st = false -> E2eModel.is_want st = true ->
  let st' := E2eModel.i_step lg st (E2eModel.IE E2eModel.EReload) in
  E2eModel.is_run st' = true /\ E2eModel.is_gen st' = (E2eModel.is_gen st + 1)%N /\
  E2eModel.is_uid st' = IngressModel.serial (PipeModel.w_reg (E2eModel.es_w (E2eModel.is_e st))) /\
  (forall key, E2eModel.i_rib_lookup st' key = E2eModel.i_rib_lookup st key) /\
  (forall key, E2eModel.i_session st' key = E2eModel.i_session st key) /\
  (forall rid, E2eModel.i_children st' rid = E2eModel.i_children st rid).
Proof. exact E2eProofs.added_unit_is_a_new_parent_std. Qed.
Print Assumptions C13_added_unit_is_a_new_parent.

(* a router that connects to the unit which a reload has just started is a NEW source: the unit looks it up under its
   own ingress id, which no earlier source has as parent, finds nothing and registers it afresh - it gets the register's
   next id. None of the ids whose routes the removal withdrew is used again, so known finding C03-1 (the sticky
   withdrawn marker of a REUSED id) does not apply to what the returning router announces. (Proviso: no source names
   the register's next id as its parent - ids are handed out in order, C14.) *)
Theorem C13_router_of_added_unit_is_a_new_source : forall lg st k,
  E2eModel.is_run st = false -> E2eModel.is_want st = true -> (k < 4)%N ->
  E2eModel.next_id_unused (PipeModel.w_reg (E2eModel.es_w (E2eModel.is_e st))) ->
  let st1 := E2eModel.i_step lg st (E2eModel.IE E2eModel.EReload) in
  let st2 := E2eModel.i_step lg st1 (E2eModel.IE (E2eModel.EW (PipeModel.WConnect k))) in
  E2eModel.is_uid st1 = IngressModel.serial (PipeModel.w_reg (E2eModel.es_w (E2eModel.is_e st))) /\
  E2eModel.i_rid st2 k = Some (IngressModel.serial (PipeModel.w_reg (E2eModel.es_w (E2eModel.is_e st1)))).
Proof. exact E2eProofs.router_of_added_unit_is_a_new_source. Qed.
Print Assumptions C13_router_of_added_unit_is_a_new_source.

(* the property's reading of the removal: the sessions of the unit's routers are over - every route of every peer of
   such a router is withdrawn, attributes kept, and no other route changes *)
Theorem C13_removal_in_the_property_reading : forall st,
  E2eModel.is_run st = true -> E2eModel.is_want st = false ->
  let st' := E2eModel.i_step false st (E2eModel.IE E2eModel.EReload) in
  forall f p (x : PipeModel.wid),
    E2eModel.i_spec_lookup st' f p x =
    if (existsb (N.eqb (fst x)) (map (fun k => k + 8 * E2eModel.is_gen st)%N [0; 1; 2; 3]%N)) && E2eModel.i_spec_session st (fst x)
    then E2eModel.withdrawn_of (E2eModel.i_spec_lookup st f p x) else E2eModel.i_spec_lookup st f p x.
Proof. exact E2eProofs.removal_in_the_property_reading_std. Qed.
Print Assumptions C13_removal_in_the_property_reading.

(* the code as it was (before fix 29de9ab the RIB unit unsubscribed from the sources of the previous configuration as
   soon as it was reconfigured - usually before the unit that the same reload terminates had sent the withdrawals of its
   sessions): on the same history the route stays ACTIVE, where the repaired code and the property say withdrawn *)
Theorem C13_legacy_removal_leaves_routes_refuted :
  let stl := E2eModel.i_run true (E2eModel.i_init E2eModel.SNone 0) E2eProofs.removal_witness in
  let stf := E2eModel.i_run false (E2eModel.i_init E2eModel.SNone 0) E2eProofs.removal_witness in
  (exists id, RibModel.rib_query (E2eModel.ru_rib (E2eModel.es_rib (E2eModel.is_e stl))) 0 1 = [(id, true, 3%N)]) /\
  (exists id, RibModel.rib_query (E2eModel.ru_rib (E2eModel.es_rib (E2eModel.is_e stf))) 0 1 = [(id, false, 3%N)]) /\
  PipeModel.ideal_query (PipeModel.s_rib (E2eModel.es_s (E2eModel.is_e stl))) 0 1 = [((0%N, (0, 0, 0, 0, 1, 65001, 1)%N), false, 3%N)] /\
  PipeModel.ideal_query (PipeModel.s_rib (E2eModel.es_s (E2eModel.is_e stf))) 0 1 = [((0%N, (0, 0, 0, 0, 1, 65001, 1)%N), false, 3%N)] /\
  E2eModel.is_run stl = false /\ E2eModel.i_session stl 0%N = None.
Proof. exact E2eProofs.legacy_removal_leaves_routes_refuted_std. Qed.
Print Assumptions C13_legacy_removal_leaves_routes_refuted.

(* non-vacuity: a router on each ingress unit, each with a route of prefix 1; bmp-in is taken out and put back, router 0
   returns and announces again: one bmp-in router and one bmp-in2 router are listed, the old route is withdrawn, the
   other unit's route and the new one are active, the returning router is the new source 8 *)
Example C13_ingress_example :
  let st := E2eModel.i_run false (E2eModel.i_init E2eModel.SNone 0) E2eProofs.ingress_example in
  E2eModel.is_run st = true /\ E2eModel.is_gen st = 1%N /\ E2eModel.i_listed st 0 = Some 1%N /\ E2eModel.i_listed st 1 = Some 1%N /\
  map (fun e : N * bool * N => (snd (fst e), snd e)) (RibModel.rib_query (E2eModel.ru_rib (E2eModel.es_rib (E2eModel.is_e st))) 0 1)
    = [(true, 5%N); (false, 3%N); (true, 4%N)] /\
  map fst (PipeModel.w_ids (E2eModel.es_w (E2eModel.is_e st))) =
    [(0%N, (0, 0, 0, 0, 1, 65001, 1)%N); (4%N, (0, 0, 0, 0, 1, 65001, 1)%N); (8%N, (0, 0, 0, 0, 1, 65001, 1)%N)].
Proof. exact E2eProofs.ingress_example_ok. Qed.

(* ---- the settings a component is started / reconfigured with: field-level defaults.
   Vocabulary (ConfDefaultsModel): a schema lists the fields of a component's table that have a
   documented default which is not the default of the field's type ([cd_bmp_schema]: bmp-tcp-in
   http_api_path, router_id_template; [cd_rib_schema]: rib http_api_path; [cd_mqtt_schema]:
   mqtt-out qos, topic_template, connect_retry_secs, publish_max_secs, queue_size); a table maps
   a key to the value the file gives it, if any; [cd_effective] = the settings the deserialiser
   hands to the component (None: the file is refused). *)
Theorem C13_settings_accepts : forall t fs,
  ConfDefaultsModel.cd_effective t fs <> None <->
  forall f, In f fs ->
    match t (ConfDefaultsModel.f_key f) with None => True | Some v => ConfDefaultsModel.cd_fits (ConfDefaultsModel.f_kind f) v = true end.
Proof. exact ConfDefaultsProofs.effective_accepts. Qed.
Print Assumptions C13_settings_accepts.

(* an unset key means its documented default, a set key means its value - whatever the
   table says about the other keys *)
Theorem C13_settings_key_semantics : forall t fs e,
  NoDup (ConfDefaultsModel.cd_keys fs) -> ConfDefaultsModel.cd_effective t fs = Some e ->
  forall f, In f fs ->
    ConfDefaultsModel.cd_lookup (ConfDefaultsModel.f_key f) e =
    Some (match t (ConfDefaultsModel.f_key f) with Some v => v | None => ConfDefaultsModel.f_default f end).
Proof. exact ConfDefaultsProofs.effective_key_semantics. Qed.
Print Assumptions C13_settings_key_semantics.

Theorem C13_settings_keys_independent : forall t t' fs e e' f,
  NoDup (ConfDefaultsModel.cd_keys fs) ->
  ConfDefaultsModel.cd_effective t fs = Some e -> ConfDefaultsModel.cd_effective t' fs = Some e' -> In f fs ->
  t (ConfDefaultsModel.f_key f) = t' (ConfDefaultsModel.f_key f) ->
  ConfDefaultsModel.cd_lookup (ConfDefaultsModel.f_key f) e = ConfDefaultsModel.cd_lookup (ConfDefaultsModel.f_key f) e'.
Proof. exact ConfDefaultsProofs.effective_keys_independent. Qed.
Print Assumptions C13_settings_keys_independent.

(* the three schemas have distinct keys (so the two theorems apply), and a table that sets
   none of the keys gives the documented values *)
Theorem C13_settings_documented :
  NoDup (ConfDefaultsModel.cd_keys ConfDefaultsModel.cd_bmp_schema) /\
  NoDup (ConfDefaultsModel.cd_keys ConfDefaultsModel.cd_rib_schema) /\
  NoDup (ConfDefaultsModel.cd_keys ConfDefaultsModel.cd_mqtt_schema) /\
  ConfDefaultsModel.cd_effective (fun _ => None) ConfDefaultsModel.cd_bmp_schema =
    Some [(0, ConfDefaultsModel.DStr ConfDefaultsModel.s_routers); (1, ConfDefaultsModel.DStr ConfDefaultsModel.s_sys_name)] /\
  ConfDefaultsModel.cd_effective (fun _ => None) ConfDefaultsModel.cd_rib_schema =
    Some [(0, ConfDefaultsModel.DStr ConfDefaultsModel.s_prefixes)] /\
  ConfDefaultsModel.cd_effective (fun _ => None) ConfDefaultsModel.cd_mqtt_schema =
    Some [(0, ConfDefaultsModel.DInt 2); (1, ConfDefaultsModel.DStr ConfDefaultsModel.s_topic); (2, ConfDefaultsModel.DInt 60);
          (3, ConfDefaultsModel.DInt 5); (4, ConfDefaultsModel.DInt 1000)].
Proof. exact ConfDefaultsProofs.schemas_documented. Qed.
Print Assumptions C13_settings_documented.

(* non-vacuity: an mqtt-out table with only qos = 1 and queue_size = 10 keeps the other three
   documented values; queue_size = 65536 and connect_retry_secs = "60" are refused *)
Example C13_settings_example :
  let t := fun k => if k =? 0 then Some (ConfDefaultsModel.DInt 1) else if k =? 4 then Some (ConfDefaultsModel.DInt 10) else None in
  ConfDefaultsModel.cd_effective t ConfDefaultsModel.cd_mqtt_schema =
    Some [(0, ConfDefaultsModel.DInt 1); (1, ConfDefaultsModel.DStr ConfDefaultsModel.s_topic); (2, ConfDefaultsModel.DInt 60);
          (3, ConfDefaultsModel.DInt 5); (4, ConfDefaultsModel.DInt 10)] /\
  ConfDefaultsModel.cd_effective (fun k => if k =? 4 then Some (ConfDefaultsModel.DInt 65536) else None) ConfDefaultsModel.cd_mqtt_schema = None /\
  ConfDefaultsModel.cd_effective (fun k => if k =? 2 then Some (ConfDefaultsModel.DStr [54; 48]) else None) ConfDefaultsModel.cd_mqtt_schema = None.
Proof. exact ConfDefaultsProofs.defaults_example. Qed.

(* ---- the bgp-tcp-in unit in a running pipeline (E2e/E2eModel.v, last part; engine `e2e`, ops BO BA BZ BP BS BM) ---- *)

(* who is accepted = the peer table of the configuration CURRENT at accept time: after ANY history of traffic, edits and
   reloads (from any state), a connection from an address without a session is given a session exactly when the
   configuration of the LATEST load ([b_loaded]: read off the operations alone) has a peer entry for it, and the session
   runs with my_asn and the entry of that load; the connection is counted either way; nobody else's session moves.
   The statement seeded change C13-c2 (configuration loaded once per listener bind) breaks. *)
Theorem C13_bgp_accepts_by_current_peer_table : forall st0 h k,
  let st := E2eModel.b_run st0 h in
  let c := E2eModel.b_loaded (E2eModel.bs_file st0) (E2eModel.bs_cfg st0) h in
  E2eModel.is_bgp_addr k = true -> E2eModel.b_sess_of st k = None ->
  E2eModel.b_sess_of (E2eModel.b_step st (E2eModel.BOpen k)) k = option_map (fun v => (E2eModel.bc_asn c, v)) (E2eModel.b_peer_of c k) /\
  E2eModel.bs_accepted (E2eModel.b_step st (E2eModel.BOpen k)) = (E2eModel.bs_accepted st + 1)%N /\
  (forall j, j <> k -> E2eModel.b_sess_of (E2eModel.b_step st (E2eModel.BOpen k)) j = E2eModel.b_sess_of st j).
Proof. exact E2eProofs.bgp_accepts_by_current_peer_table_std. Qed.
Print Assumptions C13_bgp_accepts_by_current_peer_table.

(* the end of one BGP session in ANY state of the pipeline: what `rib` reports under every other ingress id is what it
   reported, every record of the session's own id (families 0..3) is reported withdrawn with its attributes, every other
   session keeps its id and its settings, the session is gone *)
Theorem C13_bgp_e2e_session_end_spares_other_peers : forall st k sv id,
  E2eModel.b_sess_of st k = Some sv -> E2eModel.b_session_id st k = Some id ->
  let st' := E2eModel.b_step st (E2eModel.BClose k) in
  (forall key, RibModel.k_mui key <> id -> E2eModel.b_rib_lookup st' key = E2eModel.b_rib_lookup st key) /\
  (forall key, RibModel.k_mui key = id -> (RibModel.k_fam key < 4)%N ->
               E2eModel.b_rib_lookup st' key = E2eModel.withdrawn_of (E2eModel.b_rib_lookup st key)) /\
  (forall j, j <> k -> E2eModel.b_session_id st' j = E2eModel.b_session_id st j /\ E2eModel.b_sess_of st' j = E2eModel.b_sess_of st j) /\
  E2eModel.b_session_id st' k = None /\ E2eModel.b_sess_of st' k = None.
Proof. exact E2eProofs.bgp_session_end_spares_other_peers_std. Qed.
Print Assumptions C13_bgp_e2e_session_end_spares_other_peers.

(* each accepted connection = an ingress id of its own: the register's next id, which no live session has (proviso: no live
   session holds the register's next id - ids are handed out in order, C14). The statement seeded change C02-c2 (one id
   registered before the accept loop) breaks. *)
Theorem C13_bgp_accepted_connection_has_fresh_id : forall st k v,
  E2eModel.is_bgp_addr k = true -> E2eModel.b_sess_of st k = None -> E2eModel.b_peer_of (E2eModel.bs_cfg st) k = Some v ->
  (forall j id, E2eModel.b_session_id st j = Some id -> id <> IngressModel.serial (PipeModel.w_reg (E2eModel.b_world st))) ->
  let st' := E2eModel.b_step st (E2eModel.BOpen k) in
  E2eModel.b_session_id st' k = Some (IngressModel.serial (PipeModel.w_reg (E2eModel.b_world st))) /\
  (forall j id, j <> k -> E2eModel.b_session_id st j = Some id ->
                E2eModel.b_session_id st' j = Some id /\ E2eModel.b_session_id st' j <> E2eModel.b_session_id st' k).
Proof. exact E2eProofs.bgp_accepted_session_has_fresh_id_std. Qed.
Print Assumptions C13_bgp_accepted_connection_has_fresh_id.

(* known finding C13-bgp-reload-end-unheard: two sessions announce prefix 1, the peer entry of address 0 is taken out and the
   configuration reloaded. On the schedule in which the Withdraw of the ended session meets the gate's new, still empty
   subscription table, the route of the deconfigured peer stays active (the property's reading: withdrawn) ... *)
Theorem C13_bgp_reload_end_unheard_refuted :
  let st := E2eModel.b_run (E2eModel.b_init E2eModel.SNone 0) (E2eProofs.b_refute_hist (0%N :: nil)) in
  E2eModel.b_live st = (1%N :: nil) /\
  E2eModel.b_rib_lookup st (0, 1, 2)%N = Some (true, 3%N) /\
  E2eModel.b_spec_lookup st 0 1 (PipeModel.bgp_wid 0 0) = Some (false, 3%N) /\
  E2eModel.b_rib_lookup st (0, 1, 3)%N = Some (true, 4%N).
Proof. exact E2eProofs.bgp_reload_end_unheard_refuted. Qed.
Print Assumptions C13_bgp_reload_end_unheard_refuted.

(* ... and on the schedule in which it is heard (also the non-vacuity example: the other peer's route stays active, the
   deconfigured peer is counted as a disconnect, its next connection is accepted by TCP, counted, and refused) *)
Example C13_bgp_reload_heard_example :
  let st := E2eModel.b_run (E2eModel.b_init E2eModel.SNone 0) (E2eProofs.b_refute_hist nil) in
  E2eModel.b_live st = (1%N :: nil) /\
  E2eModel.b_rib_lookup st (0, 1, 2)%N = Some (false, 3%N) /\
  E2eModel.b_spec_lookup st 0 1 (PipeModel.bgp_wid 0 0) = Some (false, 3%N) /\
  E2eModel.b_rib_lookup st (0, 1, 3)%N = Some (true, 4%N) /\
  E2eModel.bs_disc st = 1%N /\
  E2eModel.b_sess_of (E2eModel.b_step st (E2eModel.BOpen 0)) 0 = None /\ E2eModel.bs_accepted (E2eModel.b_step st (E2eModel.BOpen 0)) = 3%N.
Proof. exact E2eProofs.bgp_reload_heard_example. Qed.

From RV Require E2e.E2eBgpProofs.

(* ---- the bgp-tcp-in unit in a running pipeline, continued (E2e/E2eBgpProofs.v): a load as an equation over ALL sessions, and
   two invariants over ALL histories of b_step from start-up ---- *)

(* A load of the file in ANY state (the new configuration c = the file: any bcfg), on the schedule the property needs
   (every end heard: BReload nil). [ends k]: k is one of the unit's addresses, has a live session, and my_asn of c or the peer
   entry of k in c is not what the session was accepted with (entry removed, or another entry).
   - the sessions the load ends (b_ended) are exactly those;
   - they are gone; EVERY other session is what it was: same settings, same ingress id, still live;
   - the unit holds the file; accepted / lost counters and the register are what they were;
   - `rib` reports every key under the id of an ended session (families 0..3) withdrawn with its attributes - one
     Withdraw(id) per ended session - and EVERY key under no such id as before (frame). *)
Theorem C13_bgp_reload_ends_exactly_changed_sessions : forall st,
  let c := E2eModel.bs_file st in
  let st' := E2eModel.b_step st (E2eModel.BReload nil) in
  let ends k := E2eModel.is_bgp_addr k = true /\
                exists sv, E2eModel.b_sess_of st k = Some sv /\
                           (E2eModel.bc_asn c <> fst sv \/ E2eModel.b_peer_of c k <> Some (snd sv)) in
  (forall k, In k (E2eModel.b_ended c (E2eModel.bs_sess st)) <-> ends k) /\
  (forall k, ends k -> E2eModel.b_sess_of st' k = None /\ E2eModel.b_session_id st' k = None) /\
  (forall k, ~ ends k -> E2eModel.b_sess_of st' k = E2eModel.b_sess_of st k /\
                         E2eModel.b_session_id st' k = E2eModel.b_session_id st k) /\
  (E2eModel.bs_cfg st' = c /\ E2eModel.bs_file st' = c /\ E2eModel.bs_accepted st' = E2eModel.bs_accepted st /\
   E2eModel.bs_lost st' = E2eModel.bs_lost st /\
   PipeModel.w_reg (E2eModel.b_world st') = PipeModel.w_reg (E2eModel.b_world st)) /\
  (forall key, (exists k id, ends k /\ E2eModel.b_session_id st k = Some id /\ RibModel.k_mui key = id /\ (RibModel.k_fam key < 4)%N) ->
               E2eModel.b_rib_lookup st' key = E2eModel.withdrawn_of (E2eModel.b_rib_lookup st key)) /\
  (forall key, (forall k id, ends k -> E2eModel.b_session_id st k = Some id -> RibModel.k_mui key = id -> ~ (RibModel.k_fam key < 4)%N) ->
               E2eModel.b_rib_lookup st' key = E2eModel.b_rib_lookup st key).
Proof. exact E2eBgpProofs.bgp_reload_ends_exactly_changed_sessions. Qed.
Print Assumptions C13_bgp_reload_ends_exactly_changed_sessions.

(* ... and on ANY schedule of the race of known finding C13-bgp-reload-end-unheard ([unh]: the ended sessions whose Withdraw
   meets the gate's new, still empty subscription table): the same sessions end and the same sessions go on untouched; but a
   key under the id of an ended session that was not heard (and under the id of no ended session that was heard) is reported
   as BEFORE the load - its routes are left behind, active if they were active, under an ingress id no session has any more;
   if no ended session is heard the store of `rib` is what it was altogether. The property's reading (es_s: those routes
   withdrawn) is the one of the heard schedule, whatever [unh]. *)
Theorem C13_bgp_reload_unheard_leaves_routes_behind : forall st unh,
  let c := E2eModel.bs_file st in
  let st' := E2eModel.b_step st (E2eModel.BReload unh) in
  let ends k := E2eModel.is_bgp_addr k = true /\
                exists sv, E2eModel.b_sess_of st k = Some sv /\
                           (E2eModel.bc_asn c <> fst sv \/ E2eModel.b_peer_of c k <> Some (snd sv)) in
  (forall k, ends k -> E2eModel.b_sess_of st' k = None /\ E2eModel.b_session_id st' k = None) /\
  (forall k, ~ ends k -> E2eModel.b_sess_of st' k = E2eModel.b_sess_of st k /\
                         E2eModel.b_session_id st' k = E2eModel.b_session_id st k) /\
  (forall k id key, ends k -> In k unh -> E2eModel.b_session_id st k = Some id -> RibModel.k_mui key = id ->
     (forall j, ends j -> ~ In j unh -> E2eModel.b_session_id st j <> Some id) ->
     E2eModel.b_rib_lookup st' key = E2eModel.b_rib_lookup st key) /\
  (forall key, (forall k, ends k -> In k unh) -> E2eModel.b_rib_lookup st' key = E2eModel.b_rib_lookup st key) /\
  E2eModel.es_s (E2eModel.bs_e st') = E2eModel.es_s (E2eModel.bs_e (E2eModel.b_step st (E2eModel.BReload nil))).
Proof. exact E2eBgpProofs.bgp_reload_unheard_leaves_routes_behind. Qed.
Print Assumptions C13_bgp_reload_unheard_leaves_routes_behind.

(* ALL histories of traffic, edits, connections and loads (any schedule) from start-up: the unit holds the configuration of the
   latest load ([b_loaded]: read off the operations alone); every live session is a session of one of the unit's addresses and
   the settings recorded for it (what a load compares the new file with, Processor.unit_cfg) are my_asn and its peer entry of
   THAT configuration; so a load of the configuration in force ends nobody. *)
Theorem C13_bgp_live_sessions_have_current_settings : forall s0 n0 h,
  let st := E2eModel.b_run (E2eModel.b_init s0 n0) h in
  let c := E2eModel.b_loaded E2eModel.bcfg_init E2eModel.bcfg_init h in
  E2eModel.bs_cfg st = c /\
  (forall k sv, E2eModel.b_sess_of st k = Some sv ->
     E2eModel.is_bgp_addr k = true /\ fst sv = E2eModel.bc_asn c /\ E2eModel.b_peer_of c k = Some (snd sv)) /\
  (forall k, ~ In k (E2eModel.b_ended c (E2eModel.bs_sess st))).
Proof. exact E2eBgpProofs.bgp_live_sessions_have_current_settings. Qed.
Print Assumptions C13_bgp_live_sessions_have_current_settings.

(* ALL histories from start-up that are shorter than 2^32 - 2 operations (an operation takes at most one id from the
   register, whose counter is a u32): no two live sessions have one ingress id; every live session's id is below the id the
   register hands out next (the proviso of C13_bgp_accepted_connection_has_fresh_id, now a theorem); and - when BGP sessions are
   opened and closed through the unit, [bop_plain]: no WBgpOpen / WBgpClose handed to the pipeline model directly - an address
   has a live session exactly when it has an ingress id. *)
Theorem C13_bgp_live_sessions_have_ids_of_their_own : forall s0 n0 h,
  (N.of_nat (length h) < IngressModel.two32 - 2)%N ->
  let st := E2eModel.b_run (E2eModel.b_init s0 n0) h in
  (forall j k id, E2eModel.b_session_id st j = Some id -> E2eModel.b_session_id st k = Some id -> j = k) /\
  (forall k id, E2eModel.b_session_id st k = Some id -> (id < IngressModel.serial (PipeModel.w_reg (E2eModel.b_world st)))%N) /\
  (forallb E2eBgpProofs.bop_plain h = true ->
   forall k, E2eModel.b_sess_of st k = None <-> E2eModel.b_session_id st k = None).
Proof. exact E2eBgpProofs.bgp_live_sessions_have_ids_of_their_own. Qed.
Print Assumptions C13_bgp_live_sessions_have_ids_of_their_own.

(* ... hence, after such a history, without a proviso on the state: an accepted connection gets an id no live session has *)
Theorem C13_bgp_accepted_connection_has_fresh_id_all_histories : forall s0 n0 h k v,
  (N.of_nat (length h) < IngressModel.two32 - 2)%N ->
  let st := E2eModel.b_run (E2eModel.b_init s0 n0) h in
  E2eModel.is_bgp_addr k = true -> E2eModel.b_sess_of st k = None -> E2eModel.b_peer_of (E2eModel.bs_cfg st) k = Some v ->
  let st' := E2eModel.b_step st (E2eModel.BOpen k) in
  E2eModel.b_session_id st' k = Some (IngressModel.serial (PipeModel.w_reg (E2eModel.b_world st))) /\
  (forall j id, j <> k -> E2eModel.b_session_id st j = Some id ->
                E2eModel.b_session_id st' j = Some id /\ E2eModel.b_session_id st' j <> E2eModel.b_session_id st' k).
Proof. exact E2eBgpProofs.bgp_accepted_connection_has_fresh_id_all_histories. Qed.
Print Assumptions C13_bgp_accepted_connection_has_fresh_id_all_histories.

(* The bound on the length cannot be dropped (the model has the u32 of the code, C14_wrap_refuted): address 0 opens a session
   (id 2); address 1 connects and leaves 2^32 - 1 times ([b_wrap_hist]); its next connection is accepted with ingress id 2 -
   the id of the session of address 0, which is still live. No engine can run this history; it is a statement about the model. *)
Theorem C13_bgp_session_ids_wrap_refuted :
  let st := E2eModel.b_run (E2eModel.b_init E2eModel.SNone 0) E2eBgpProofs.b_wrap_hist in
  let st' := E2eModel.b_step st (E2eModel.BOpen 1) in
  E2eModel.b_sess_of st' 0%N <> None /\ E2eModel.b_sess_of st' 1%N <> None /\
  E2eModel.b_session_id st' 0%N = Some 2%N /\ E2eModel.b_session_id st' 1%N = Some 2%N.
Proof. exact E2eBgpProofs.bgp_session_ids_wrap_refuted. Qed.
Print Assumptions C13_bgp_session_ids_wrap_refuted.

(* non-vacuity: two sessions; the entry of address 0 is rewritten and the file loaded (its session ends, the other goes on);
   address 0 comes back: accepted with the new entry and a new id; address 3 has no entry: counted and refused *)
Example C13_bgp_invariants_example :
  let st := E2eModel.b_run (E2eModel.b_init E2eModel.SNone 0) E2eBgpProofs.b_inv_example in
  E2eModel.b_live st = (0%N :: 1%N :: nil) /\ E2eModel.b_sess_of st 0%N = Some (0%N, 2%N) /\ E2eModel.b_sess_of st 1%N = Some (0%N, 1%N) /\
  E2eModel.b_session_id st 0%N = Some 4%N /\ E2eModel.b_session_id st 1%N = Some 3%N /\
  E2eModel.b_peer_of (E2eModel.b_loaded E2eModel.bcfg_init E2eModel.bcfg_init E2eBgpProofs.b_inv_example) 0%N = Some 2%N /\
  E2eModel.bs_accepted st = 4%N /\ forallb E2eBgpProofs.bop_plain E2eBgpProofs.b_inv_example = true.
Proof. exact E2eBgpProofs.bgp_invariants_example. Qed.
