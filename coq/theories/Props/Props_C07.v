(* C07 - Every way a session can end triggers one complete cleanup (BMP connection).
   Statements only; every proof is [exact <lemma>]. Model: Bmp/BmpStreamModel.v
   (see Props_C06.v for the reading of [run_from]). *)
From stdpp Require Import gmap.
From Coq Require Import NArith.
From RV Require Import Ingress.IngressModel Rib.RibModel Bmp.BmpModel Bmp.BmpStreamModel Bmp.BmpStreamProofs.
From RV Require Import Bmp.BmpWireAbs Bmp.BmpWireAbsProofs.
Local Open Scope N_scope.

(* For every script of read events (every cut point, every error kind at every
   position, end of file or unit shutdown), every parser, every register the
   connection starts with: the updates that left the gate are
       pre ++ [WithdrawBulk (every child of the router's ingress id); EndOfStream router]
   where pre contains no EndOfStream and speaks only about ingress ids that are in
   that WithdrawBulk - and so are the ids of the peers that are still up. *)
Theorem C07_cleanup_once : forall parse tl rid evs s0, SInv rid s0 ->
  exists e rest s,
    run_from parse true tl rid evs s0 =
      Done e rest s (s_out s ++ [GUpd (UWithdrawBulk (reg_ids_for_parent (s_reg s) rid)); GEos rid]) /\
    (forall g, g ∈ s_out s -> is_eos g = false) /\
    (forall g i, g ∈ s_out s -> i ∈ ids_of g -> i ∈ reg_ids_for_parent (s_reg s) rid) /\
    (forall p pe, sm_peers (s_sm s) !! p = Some pe -> pe_id pe ∈ reg_ids_for_parent (s_reg s) rid).
Proof. exact cleanup_once. Qed.
Print Assumptions C07_cleanup_once.

(* the same for REAL octet streams: [wire_msg] (Bmp/BmpWireAbs.v) = the decoder of the proved RFC 7854 codec
   followed by the state machine's reading of the frame, put in for the parser (see the C06_wire theorems of Props_C06.v) *)
Theorem C07_wire_cleanup_once : forall tl rid evs s0, SInv rid s0 ->
  exists e rest s,
    run_from wire_msg true tl rid evs s0 =
      Done e rest s (s_out s ++ [GUpd (UWithdrawBulk (reg_ids_for_parent (s_reg s) rid)); GEos rid]) /\
    (forall g, g ∈ s_out s -> is_eos g = false) /\
    (forall g i, g ∈ s_out s -> i ∈ ids_of g -> i ∈ reg_ids_for_parent (s_reg s) rid) /\
    (forall p pe, sm_peers (s_sm s) !! p = Some pe -> pe_id pe ∈ reg_ids_for_parent (s_reg s) rid).
Proof. exact (cleanup_once wire_msg). Qed.
Print Assumptions C07_wire_cleanup_once.

(* the hypothesis is met by a fresh connection on ANY register, and by the
   connection the accept loop sets up *)
Theorem C07_fresh_connection_ok : forall rid r, SInv rid (MkSess r sm_init []).
Proof. exact SInv_init. Qed.
Print Assumptions C07_fresh_connection_ok.

Theorem C07_accepted_connection_ok : forall addr, SInv (conn_init addr).1 (conn_init addr).2.
Proof. exact conn_init_inv. Qed.
Print Assumptions C07_accepted_connection_ok.

(* the same, as the executable judgement the oracle applies to every observed trace *)
Theorem C07_cleanup_once_judged : forall parse tl rid evs s0, SInv rid s0 ->
  exists e rest s out, run_from parse true tl rid evs s0 = Done e rest s out /\ cleanup_ok rid out = true.
Proof. exact cleanup_once_bool. Qed.
Print Assumptions C07_cleanup_once_judged.

(* The code before the repair: a Peer Up, then a header whose length field is 0 -
   the task dies with the peer up, nothing was sent downstream, and the peer's
   id is a child of the router that no WithdrawBulk will ever name. *)
Theorem C07_short_length_refuted :
  exists s pe, run_stream parse_w false TEof 1 c07_witness = Panic PSliceShortLen [] s /\
    s_out s = [] /\ sm_peers (s_sm s) !! pW = Some pe /\ pe_id pe ∈ reg_ids_for_parent (s_reg s) 2.
Proof. exact short_length_skips_cleanup. Qed.
Print Assumptions C07_short_length_refuted.

(* ... and whenever its task survives, its cleanup is complete. *)
Theorem C07_old_code_partial : forall parse tl rid evs s0 e rest s out, SInv rid s0 ->
  run_from parse false tl rid evs s0 = Done e rest s out -> cleanup_ok rid out = true.
Proof. exact cleanup_once_old_partial. Qed.
Print Assumptions C07_old_code_partial.

(* non-vacuity: Initiation, Peer Up, then the stream is cut inside the next
   header: the peer (id 3, child of router 2) is withdrawn, one EndOfStream. *)
Example C07_example :
  let evs := map EByte [3; 0; 0; 0; 6; 4; 3; 0; 0; 0; 6; 3; 3; 0; 0] in
  exists s, run_stream parse_w true TEof 1 evs = Done EndEof [] s [GUpd (UWithdrawBulk [3]); GEos 2] /\
    cleanup_ok 2 [GUpd (UWithdrawBulk [3]); GEos 2] = true /\ size (sm_peers (s_sm s)) = 1%nat.
Proof. vm_compute. eexists. repeat split; reflexivity. Qed.

(* ------------------------------------------------------------------ *)
(* Back-pressure from downstream. gate.update_data(u).await hands u to the receiving
   unit and suspends the connection's task until that unit has taken it; the code
   puts no limit on that. [waits] = for each update the session hands over, how long
   the receiving end sits on it; [received waits out] = what it has got in the end;
   [finished_at] = the sender's clock when the last one was taken.
   Delivery under back-pressure is delayed, never dropped, never repeated: *)
Theorem C07_backpressure_delays_never_drops : forall waits out, received waits out = out.
Proof. exact received_same. Qed.
Print Assumptions C07_backpressure_delays_never_drops.

(* ... each update in its place, and none before the receiving end was ready for it *)
Theorem C07_held_update_taken_late : forall out waits t i tg g,
  deliver waits t out !! i = Some (tg, g) -> out !! i = Some g /\ t + default 0 (waits !! i) <= tg.
Proof. exact deliver_lookup. Qed.
Print Assumptions C07_held_update_taken_late.

(* For every script, every end, every starting session AND every schedule of waits
   (any update, any length of time - in particular the updates of the cleanup, for
   longer than any time limit one might think of): the receiving end ends up with the
   trace of the run without any wait, that trace is one complete cleanup, and the task
   has not returned before the longest wait was over. *)
Theorem C07_cleanup_under_backpressure : forall parse tl rid evs s0, SInv rid s0 ->
  exists e rest s out, run_from parse true tl rid evs s0 = Done e rest s out /\
    forall waits,
      received waits out = received [] out /\ received [] out = out /\
      cleanup_ok rid (received waits out) = true /\
      (forall i, (i < length out)%nat -> default 0 (waits !! i) <= finished_at waits out).
Proof. exact cleanup_under_backpressure. Qed.
Print Assumptions C07_cleanup_under_backpressure.

(* The statements are not blind to a time limit. Initiation, Peer Up, the stream cut
   inside the next header; the receiving end holds, from the end of the reads on, the
   first update it is handed - the WithdrawBulk of the cleanup - for an hour
   ([hold_index]: which update that is, as the oracle computes it for an `H` op).
   The code: both updates arrive, after the hour. A sender that gives up on an update
   after 5 s ([received_limited], not the code) would leave the peer's routes in place. *)
Theorem C07_time_limit_would_lose_cleanup :
  let evs := map EByte [3; 0; 0; 0; 6; 4; 3; 0; 0; 0; 6; 3; 3; 0; 0] in
  let h := MkHold 15 0 3600000 in
  let idx := hold_index parse_w 2 evs h (conn_init 1).2 in
  exists s out, run_stream parse_w true TEof 1 evs = Done EndEof [] s out /\
    idx = Some 0%nat /\
    received (waits_of idx (h_for h)) out = [GUpd (UWithdrawBulk [3]); GEos 2] /\
    finished_at (waits_of idx (h_for h)) out = 3600000 /\
    received_limited 5000 (waits_of idx (h_for h)) out = [GEos 2] /\
    cleanup_ok 2 (received_limited 5000 (waits_of idx (h_for h)) out) = false.
Proof. exact time_limit_would_lose_cleanup. Qed.
Print Assumptions C07_time_limit_would_lose_cleanup.

(* ------------------------------------------------------------------ *)
(* The BGP session (bgp_tcp_in/router_handler.rs Processor::process). Model:
   Bgp/BgpSessionModel.v - a script is the sequence of events the select! loop sees
   (tick Ok / negotiated / Err of any kind; SessionNegotiated, UPDATE, NOTIFICATION,
   ConnectionLost, channel closed; Terminate, the four kinds of Reconfiguring);
   [bs_loop] = the state in which the loop is left and the events it did not get to,
   [bs_process] = that followed by the block after the loop. [bs_wf]: the session sends
   SessionNegotiated at most once and UPDATEs only after it. *)
From RV Require Import Bgp.BgpSessionModel Bgp.BgpSessionProofs.

(* every script, every live_sessions, whatever ends the loop: what left the gate is Bulks
   of the session's own routes and then, decided by the two tests of the block after the
   loop alone, one Withdraw of the session's ingress id *)
Theorem C07_bgp_cleanup_shape : forall id key live0 evs,
  let s := (bs_loop id key (bs_init live0) evs).1 in
  let f := (bs_process id key live0 evs).1 in
  own_trace id (bs_out s) /\
  bs_out f = bs_out s ++ (if negb (bs_rej s) && bs_neg s then [UWithdraw id None] else []).
Proof. exact cleanup_shape. Qed.
Print Assumptions C07_bgp_cleanup_shape.

(* a session whose SessionNegotiated was accepted: the trace ends with exactly one
   Withdraw of its id - ConnectionLost, tick error, reconfiguration, de-configuration,
   closed channel alike -, its key is gone, live_sessions is what it was before it *)
Theorem C07_bgp_cleanup_once : forall id key live0 evs,
  bs_wf evs = true ->
  let s := (bs_loop id key (bs_init live0) evs).1 in
  let f := (bs_process id key live0 evs).1 in
  bs_reg s = true ->
  own_trace id (bs_out s) /\ bs_out f = bs_out s ++ [UWithdraw id None] /\
  key ∉ bs_live f /\ bs_live f = live0.
Proof. exact cleanup_once. Qed.
Print Assumptions C07_bgp_cleanup_once.

(* a connection rejected early sends nothing and leaves live_sessions alone - the entry
   of the earlier session of that peer included *)
Theorem C07_bgp_rejected_leaves_alone : forall id key live0 evs,
  bs_wf evs = true ->
  let s := (bs_loop id key (bs_init live0) evs).1 in
  let f := (bs_process id key live0 evs).1 in
  bs_rej s = true -> bs_out f = [] /\ bs_live f = live0 /\ key ∈ bs_live f.
Proof. exact rejected_leaves_alone. Qed.
Print Assumptions C07_bgp_rejected_leaves_alone.

(* live_sessions at the end, all scripts: as before the session, except ... *)
Theorem C07_bgp_live_at_end : forall id key live0 evs,
  bs_wf evs = true ->
  let s := (bs_loop id key (bs_init live0) evs).1 in
  let f := (bs_process id key live0 evs).1 in
  bs_live f = if bs_window s then live0 ∖ {[key]} else live0.
Proof. exact live_at_end. Qed.
Print Assumptions C07_bgp_live_at_end.

Theorem C07_bgp_live_untouched_partial : forall id key live0 evs,
  bs_wf evs = true ->
  bs_window (bs_loop id key (bs_init live0) evs).1 = false ->
  bs_live (bs_process id key live0 evs).1 = live0.
Proof. exact live_untouched_partial. Qed.
Print Assumptions C07_bgp_live_untouched_partial.

(* ... in the window between the FSM's negotiation and the handling of SessionNegotiated:
   a second connection of a peer that negotiates and then fails takes the FIRST session's
   entry out of live_sessions (known finding C07-bgp-window) *)
Theorem C07_bgp_window_refuted :
  bs_wf bs_window_witness = true /\
  bs_reg (bs_process 7 5 {[5; 6]} bs_window_witness).1 = false /\
  bs_live (bs_process 7 5 {[5; 6]} bs_window_witness).1 = {[6]} /\
  bs_out (bs_process 7 5 {[5; 6]} bs_window_witness).1 = [UWithdraw 7 None].
Proof. exact window_removes_other_entry. Qed.
Print Assumptions C07_bgp_window_refuted.

(* the property's reading (the key leaves iff this session put it there) and the model
   of the code agree on every script outside that class *)
Theorem C07_bgp_spec_agrees : forall id key live0 evs,
  bs_known_window id key live0 evs = false ->
  bs_live (bs_process_spec id key live0 evs).1 = bs_live (bs_process id key live0 evs).1 /\
  bs_out (bs_process_spec id key live0 evs).1 = bs_out (bs_process id key live0 evs).1 /\
  bs_cmds (bs_process_spec id key live0 evs).1 = bs_cmds (bs_process id key live0 evs).1 /\
  (bs_process_spec id key live0 evs).2 = (bs_process id key live0 evs).2.
Proof. exact spec_agrees. Qed.
Print Assumptions C07_bgp_spec_agrees.

(* non-vacuity, exit by exit: a registered session that announced two routes, ended by
   ConnectionLost(None|Some), closed channel, end of script, the three tick errors, main
   config changed, peer removed, Terminate then ConnectionLost, peer config changed then
   tick error - always [Bulk; Withdraw 7] *)
Theorem C07_bgp_every_exit :
  Forall (fun ex =>
    let evs := [BNegotiate; BMsgNegotiated; BMsgUpdate (Some (URoutes 0 [1; 2] 3 0 []))] ++ ex in
    bs_wf evs = true /\
    bs_reg (bs_loop 7 5 (bs_init {[6]}) evs).1 = true /\
    bs_out (bs_process 7 5 {[6]} evs).1 =
      [UBulk [MkPay (0, 1, 7) true 3; MkPay (0, 2, 7) true 3]; UWithdraw 7 None]) bs_exits.
Proof. exact every_exit_cleans_up. Qed.
Print Assumptions C07_bgp_every_exit.
