(* C07 - Every way a session can end triggers one complete cleanup (BMP connection).
   Statements only; every proof is [exact <lemma>]. Model: Bmp/BmpStreamModel.v
   (see Props_C06.v for the reading of [run_from]). *)
From stdpp Require Import gmap.
From Coq Require Import NArith.
From RV Require Import Ingress.IngressModel Rib.RibModel Bmp.BmpModel Bmp.BmpStreamModel Bmp.BmpStreamProofs.
Local Open Scope N_scope.

(* For every script of read events (every cut point, every error kind at every
   position, end of file or unit shutdown), every parser, every register the
   connection starts with: the updates that left the gate are
       pre ++ [WithdrawBulk (every child of the router's ingress id); EndOfStream router]
   where pre contains no EndOfStream and speaks only about ingress ids that are in
   that WithdrawBulk - and so are the ids of the peers that are still up. *)
Theorem C07_cleanup_once : forall parse tl rid evs s0, SInv rid s0 ->
  exists e rest s,
    run_from parse true tl rid evs s0 =
      Done e rest s (s_out s ++ [GUpd (UWithdrawBulk (reg_ids_for_parent (s_reg s) rid)); GEos rid]) /\
    (forall g, g ∈ s_out s -> is_eos g = false) /\
    (forall g i, g ∈ s_out s -> i ∈ ids_of g -> i ∈ reg_ids_for_parent (s_reg s) rid) /\
    (forall p pe, sm_peers (s_sm s) !! p = Some pe -> pe_id pe ∈ reg_ids_for_parent (s_reg s) rid).
Proof. exact cleanup_once. Qed.
Print Assumptions C07_cleanup_once.

(* the hypothesis is met by a fresh connection on ANY register, and by the
   connection the accept loop sets up *)
Theorem C07_fresh_connection_ok : forall rid r, SInv rid (MkSess r sm_init []).
Proof. exact SInv_init. Qed.
Print Assumptions C07_fresh_connection_ok.

Theorem C07_accepted_connection_ok : forall addr, SInv (conn_init addr).1 (conn_init addr).2.
Proof. exact conn_init_inv. Qed.
Print Assumptions C07_accepted_connection_ok.

(* the same, as the executable judgement the oracle applies to every observed trace *)
Theorem C07_cleanup_once_judged : forall parse tl rid evs s0, SInv rid s0 ->
  exists e rest s out, run_from parse true tl rid evs s0 = Done e rest s out /\ cleanup_ok rid out = true.
Proof. exact cleanup_once_bool. Qed.
Print Assumptions C07_cleanup_once_judged.

(* The code before the repair: a Peer Up, then a header whose length field is 0 -
   the task dies with the peer up, nothing was sent downstream, and the peer's
   id is a child of the router that no WithdrawBulk will ever name. *)
Theorem C07_short_length_refuted :
  exists s pe, run_stream parse_w false TEof 1 c07_witness = Panic PSliceShortLen [] s /\
    s_out s = [] /\ sm_peers (s_sm s) !! pW = Some pe /\ pe_id pe ∈ reg_ids_for_parent (s_reg s) 2.
Proof. exact short_length_skips_cleanup. Qed.
Print Assumptions C07_short_length_refuted.

(* ... and whenever its task survives, its cleanup is complete. *)
Theorem C07_old_code_partial : forall parse tl rid evs s0 e rest s out, SInv rid s0 ->
  run_from parse false tl rid evs s0 = Done e rest s out -> cleanup_ok rid out = true.
Proof. exact cleanup_once_old_partial. Qed.
Print Assumptions C07_old_code_partial.

(* non-vacuity: Initiation, Peer Up, then the stream is cut inside the next
   header: the peer (id 3, child of router 2) is withdrawn, one EndOfStream. *)
Example C07_example :
  let evs := map EByte [3; 0; 0; 0; 6; 4; 3; 0; 0; 0; 6; 3; 3; 0; 0] in
  exists s, run_stream parse_w true TEof 1 evs = Done EndEof [] s [GUpd (UWithdrawBulk [3]); GEos 2] /\
    cleanup_ok 2 [GUpd (UWithdrawBulk [3]); GEos 2] = true /\ size (sm_peers (s_sm s)) = 1%nat.
Proof. vm_compute. eexists. repeat split; reflexivity. Qed.
