(* C04 - Each NLRI of an UPDATE becomes exactly one route with that UPDATE's attributes.
   Statements only; every proof is [exact <lemma>].
   [decode]/[encode]/[events] are the independent RFC 4271 / RFC 4760 codec of
   Bgp/BgpModel.v; [wf] is the boolean predicate made of exactly the decoder's
   checks (prefix length <= 32/128, trailing bits zero, one MP_REACH / MP_UNREACH
   at most, every length field fits). All theorems hold for both decoder modes
   (the RFCs' and the one mirroring the implementation's two deviations). *)
From Coq Require Import List NArith Bool Permutation.
From RV Require Import Bgp.BgpModel Bgp.BgpProofs.
Import ListNotations.
Local Open Scope N_scope.

(* encode then decode is the identity on every well-formed UPDATE: no prefix,
   attribute, flag, length form or family is lost or invented by the codec *)
Theorem C04_roundtrip : forall m u, wf u = true -> decode m (encode u) = Some u.
Proof. exact roundtrip. Qed.
Print Assumptions C04_roundtrip.

(* conversely the decoder invents nothing: whatever it accepts is byte for byte the
   encoding of the UPDATE it returns (implementation's mode; in the RFCs' mode the
   trailing bits are masked, so the bytes may differ there and only there) ... *)
Theorem C04_decode_sound : forall b u, decode Code b = Some u -> encode u = b.
Proof. exact decode_sound. Qed.
Print Assumptions C04_decode_sound.

(* ... and the language it accepts is exactly the encodings of well-formed UPDATEs
   (the encoder is the grammar; [mp_unique] - at most one attribute of type 14 and one of type 15 -
   is the one check of [wf] that this mode leaves out: it looks at the first of each only) *)
Theorem C04_decode_sound_complete : forall b u,
  (decode Code b = Some u /\ mp_unique (u_attrs u) = true) <-> (wf u = true /\ b = encode u).
Proof. exact decode_iff. Qed.
Print Assumptions C04_decode_sound_complete.

(* the events derived from the bytes of a well-formed UPDATE are exactly: one
   announcement per reachable prefix of a supported family (MP_REACH first, then
   the conventional NLRI field, in PDU order), each carrying the UPDATE's whole
   attribute list; then one withdrawal per unreachable prefix *)
Theorem C04_events_exact : forall m u, wf u = true ->
  events_of_bytes m (encode u) =
    Some (map (fun fp => EvA (fst fp) (snd fp) (u_attrs u)) (reach_of u)
          ++ map (fun fp => EvW (fst fp) (snd fp)) (unreach_of u)).
Proof. exact events_exact. Qed.
Print Assumptions C04_events_exact.

Theorem C04_events_count : forall m u, wf u = true ->
  exists evs, events_of_bytes m (encode u) = Some evs /\
    length evs = (length (reach_of u) + length (unreach_of u))%nat.
Proof. exact events_count. Qed.
Print Assumptions C04_events_count.

(* nothing invented: every announcement is a reachable prefix of the UPDATE and
   carries precisely the UPDATE's attributes; every withdrawal is an unreachable prefix *)
Theorem C04_no_invention : forall m u evs f p a, wf u = true ->
  events_of_bytes m (encode u) = Some evs -> In (EvA f p a) evs ->
  a = u_attrs u /\ In (f, p) (reach_of u).
Proof. exact events_attrs. Qed.
Print Assumptions C04_no_invention.

Theorem C04_no_invention_withdrawals : forall m u evs f p, wf u = true ->
  events_of_bytes m (encode u) = Some evs -> In (EvW f p) evs -> In (f, p) (unreach_of u).
Proof. exact events_withdrawn. Qed.
Print Assumptions C04_no_invention_withdrawals.

(* nothing dropped *)
Theorem C04_nothing_dropped : forall m u, wf u = true ->
  exists evs, events_of_bytes m (encode u) = Some evs /\
    (forall f p, In (f, p) (reach_of u) -> In (EvA f p (u_attrs u)) evs) /\
    (forall f p, In (f, p) (unreach_of u) -> In (EvW f p) evs).
Proof. exact events_complete. Qed.
Print Assumptions C04_nothing_dropped.

(* the End-of-RIB marker (empty UPDATE, or a lone MP_UNREACH_NLRI without prefixes) yields no route *)
Theorem C04_eor_no_routes : forall m u, wf u = true -> is_eor u = true ->
  events_of_bytes m (encode u) = Some [].
Proof. exact eor_no_routes. Qed.
Print Assumptions C04_eor_no_routes.

(* MP attributes of unsupported AFI/SAFIs yield nothing: only the conventional fields remain *)
Theorem C04_unsupported_nothing : forall m u, wf u = true -> forallb mp_other (u_attrs u) = true ->
  events_of_bytes m (encode u) =
    Some (map (fun fp => EvA (fst fp) (snd fp) (u_attrs u)) (map (pair F4U) (u_nlri u))
          ++ map (fun fp => EvW (fst fp) (snd fp)) (map (pair F4U) (u_wd u))).
Proof. exact unsupported_nothing. Qed.
Print Assumptions C04_unsupported_nothing.

(* on the canonical language the implementation's mode and the RFCs' mode coincide ... *)
Theorem C04_modes_agree : forall m1 m2 u, wf u = true ->
  events_of_bytes m1 (encode u) = events_of_bytes m2 (encode u).
Proof. exact modes_agree. Qed.
Print Assumptions C04_modes_agree.

(* ... and outside it they do not: a prefix with a non-zero trailing bit (legal,
   RFC 4271 4.3 "the value of trailing bits is irrelevant") is a route for the RFC
   decoder and an error for the implementation's mode. Reproduced on the real
   code by the correspondence engine (known finding C04-trailing-bits). *)
Theorem C04_trailing_bits_refuted :
  events_of_bytes Rfc pdu_trailing = Some [EvA F4U (MkPfx 9 [10; 128]) []]
  /\ events_of_bytes Code pdu_trailing = None.
Proof. exact trailing_bits_diverge. Qed.
Print Assumptions C04_trailing_bits_refuted.

(* a PDU with two MP_UNREACH_NLRI is malformed (RFC 7606 3.g); the
   implementation's mode accepts it and uses the first one *)
Theorem C04_duplicate_mp_refuted :
  events_of_bytes Rfc pdu_dup_mp = None
  /\ events_of_bytes Code pdu_dup_mp = Some [EvW F6U (MkPfx 8 [32])].
Proof. exact dup_mp_diverge. Qed.
Print Assumptions C04_duplicate_mp_refuted.

(* ... and never even parses a later one (here the third MP_UNREACH_NLRI has no AFI/SAFI at all) *)
Theorem C04_duplicate_mp_unparsed_refuted :
  events_of_bytes Rfc pdu_dup_mp_bad = None
  /\ events_of_bytes Code pdu_dup_mp_bad = Some [EvW F6U (MkPfx 8 [32])].
Proof. exact dup_mp_bad_diverge. Qed.
Print Assumptions C04_duplicate_mp_unparsed_refuted.

(* BMP dump phase: the End-of-RIB test the implementation uses (routecore is_eor: the first
   MP_UNREACH_NLRI yields no prefix) also fires on UPDATEs that carry routes; such an UPDATE
   ended the dump phase without being exploded. Reproduced on the real code by engine c04bmp
   and repaired (fix: commit in the rotonda tree, known_findings C04-bmp-false-eor). *)
Theorem C04_eor_shortcut_refuted :
  wf upd_eorlike = true /\ lax_eor upd_eorlike = true /\ is_eor upd_eorlike = false
  /\ events upd_eorlike = [EvA F4U (MkPfx 8 [10]) (u_attrs upd_eorlike)].
Proof. exact lax_eor_drops. Qed.
Print Assumptions C04_eor_shortcut_refuted.

(* with the guard of the repair (no withdrawn routes, no NLRI, no MP_REACH_NLRI) the shortcut
   can only skip UPDATEs that yield no route at all *)
Theorem C04_eor_shortcut_guarded : forall u,
  carries_routes u = false -> lax_eor u = true -> events u = [].
Proof. exact guarded_eor_drops_nothing. Qed.
Print Assumptions C04_eor_shortcut_guarded.

(* non-vacuity: a well-formed UPDATE with a conventional withdrawal, ORIGIN with
   extended length, MP_REACH for IPv6 multicast, MP_UNREACH of an unsupported
   family, and a conventional /0 and /25 *)
Example C04_example :
  let u := MkUpd [MkPfx 8 [10]]
                 [AGen 80 1 [0];
                  AReach 128 [32;1;0;0;0;0;0;0;0;0;0;0;0;0;0;1] 0 (MpPfx F6M [MkPfx 33 [32;1;13;184;128]; MkPfx 0 []]);
                  AUnreach 128 (MpOther 25 65 [1;2;3])]
                 [MkPfx 0 []; MkPfx 25 [192;0;2;128]] in
  wf u = true /\ length (encode u) = 76%nat /\
  events_of_bytes Code (encode u) =
    Some [EvA F6M (MkPfx 33 [32;1;13;184;128]) (u_attrs u); EvA F6M (MkPfx 0 []) (u_attrs u);
          EvA F4U (MkPfx 0 []) (u_attrs u); EvA F4U (MkPfx 25 [192;0;2;128]) (u_attrs u);
          EvW F4U (MkPfx 8 [10])].
Proof. vm_compute. repeat split; reflexivity. Qed.

(* ------------------------------------------------------------------ *)
(* The rendered form of a route's attributes ("HTTP GET <rib>/<prefix>", mqtt-out, file-out:
   serde's JSON of the attribute map, src/payload.rs). [json_shape] is the abstract shape of
   that array: the elements that are attributes (by type code, in order) and the ONE list
   of communities. Every route announced by an UPDATE carries the UPDATE's attribute list
   (C04_events_exact), so [json_shape (u_attrs u)] is what is rendered for each of them. *)

(* whatever the order of the attributes in the PDU: the community list has the same members,
   each as often, and so has the list of the other elements (RFC 4271 section 5: a receiver
   must cope with any order) *)
Theorem C04_json_order_irrelevant : forall l l', Permutation l l' ->
  Permutation (json_comms l) (json_comms l') /\ Permutation (json_kinds l) (json_kinds l').
Proof. exact json_order_irrelevant. Qed.
Print Assumptions C04_json_order_irrelevant.

(* every community of the UPDATE is in the list exactly as often as the UPDATE's community
   attributes carry it - none lost, none repeated, none invented *)
Theorem C04_json_communities_exactly_once : forall l c,
  count_occ comm_eq_dec (json_comms l) c = list_sum (map (occ_in_attr c) l).
Proof. exact json_comms_count. Qed.
Print Assumptions C04_json_communities_exactly_once.

(* octet for octet: the listed members of one attribute type, put together in list order,
   are the values of the UPDATE's (valid) attributes of that type in PDU order; and every
   member has the size of its type (4 / 8 / 20 / 12 octets) *)
Theorem C04_json_communities_bytes : forall ty l,
  concat (map snd (filter (fun c : comm => fst c =? ty) (json_comms l))) =
  concat (map a_value (filter (is_comm_attr ty) l)).
Proof. exact json_comms_bytes. Qed.
Print Assumptions C04_json_communities_bytes.

Theorem C04_json_member_size : forall l c, In c (json_comms l) ->
  exists k, comm_size (fst c) = Some k /\ length (snd c) = k.
Proof. exact json_comms_member_size. Qed.
Print Assumptions C04_json_member_size.

(* every other attribute is one element, in PDU order; MP_REACH_NLRI / MP_UNREACH_NLRI never are *)
Theorem C04_json_other_attributes_once : forall l,
  json_kinds l = map a_type (filter is_plain_attr l) /\ ~ In 14 (json_kinds l) /\ ~ In 15 (json_kinds l).
Proof. exact json_kinds_spec. Qed.
Print Assumptions C04_json_other_attributes_once.

(* each attribute of the UPDATE is accounted for in exactly one of the three ways *)
Theorem C04_json_accounting : forall l,
  (length (json_kinds l) + count_if (fun a => match attr_comms a with Some _ => true | None => false end) l
   + count_if is_mp l = length l)%nat.
Proof. exact json_accounting'. Qed.
Print Assumptions C04_json_accounting.

(* through the bytes: what is rendered for the routes decoded from the encoding of a
   well-formed UPDATE is the shape of that UPDATE's attributes *)
Theorem C04_json_of_bytes : forall m u, wf u = true ->
  match decode m (encode u) with Some u' => json_of_update u' | None => None end = json_of_update u.
Proof. exact json_of_bytes. Qed.
Print Assumptions C04_json_of_bytes.

(* non-vacuity: LARGE_COMMUNITY and EXTENDED COMMUNITIES before COMMUNITIES, an MP_UNREACH_NLRI
   in between, a COMMUNITIES attribute of 3 octets (shown as an element of its own) *)
Example C04_json_example :
  json_shape attrs_json_example =
  MkShape [1; 8] [(32, [0;0;253;232; 0;0;0;1; 0;0;0;2]); (16, [0;2;253;232;0;0;0;100]); (8, [253;232;0;1]); (8, [253;232;0;2])].
Proof. exact json_example_ok. Qed.
