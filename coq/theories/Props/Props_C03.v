(* C03 - Routes announced after a session comes back are active again.
   The unchanged code does NOT satisfy this where an ingress id is reused after
   a session-wide withdrawal (BMP peers and routers are looked up and reuse
   their id): nothing clears rotonda-store's withdrawn marker. Known finding
   C03-1 (known_findings/C03.json). What is proved: the exact extent of the
   failure, and everything that does hold. *)
From stdpp Require Import gmap.
From Coq Require Import NArith.
From RV Require Import Rib.RibModel Rib.RibProofs Pipe.PipeProofs.

(* the property fails on the faithful model: announce, session down, announce again *)
Theorem C03_flap_refuted :
  rib_lookup (rib_run c03_witness) (0, 1, 7)%N = Some (false, 4%N) /\
  spec_lookup (evs_of c03_witness) (0, 1, 7)%N = Some (true, 4%N).
Proof. exact c03_flap_witness. Qed.
Print Assumptions C03_flap_refuted.

(* every failing (history, query) is of the recorded class, and fails in exactly this way *)
Theorem C03_failure_class_exact : forall us k,
  rib_lookup (rib_run us) k <> spec_lookup (evs_of us) k -> known_c03 (evs_of us) k = true.
Proof.
  intros us k H. destruct (known_c03 (evs_of us) k) eqn:E; [reflexivity|].
  exfalso. apply H. exact (rib_lookup_spec_exact us k E).
Qed.
Print Assumptions C03_failure_class_exact.

Theorem C03_known_class_behaviour : forall us k,
  known_c03 (evs_of us) k = true ->
  exists a, spec_lookup (evs_of us) k = Some (true, a) /\ rib_lookup (rib_run us) k = Some (false, a).
Proof. exact rib_lookup_known. Qed.
Print Assumptions C03_known_class_behaviour.

(* what does hold: routes from before the outage that were not re-announced stay
   withdrawn, with their last attributes *)
Theorem C03_not_reannounced_stays_withdrawn : forall us k a,
  spec_lookup (evs_of us) k = Some (false, a) -> rib_lookup (rib_run us) k = Some (false, a).
Proof. exact not_reannounced_stays_withdrawn. Qed.
Print Assumptions C03_not_reannounced_stays_withdrawn.

(* ... and a source whose id never saw a session-wide withdrawal (a BGP session:
   fresh id per connection) is reported exactly as the property demands *)
Theorem C03_fresh_id_is_exact : forall us k,
  downed (evs_of us) k = false -> rib_lookup (rib_run us) k = spec_lookup (evs_of us) k.
Proof.
  intros us k H. apply rib_lookup_spec_exact. unfold known_c03. rewrite H. reflexivity.
Qed.
Print Assumptions C03_fresh_id_is_exact.
