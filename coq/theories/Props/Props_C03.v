(* C03 - Routes announced after a session comes back are active again.
   The unchanged code does NOT satisfy this where an ingress id is reused after
   a session-wide withdrawal (BMP peers and routers are looked up and reuse
   their id): nothing clears rotonda-store's withdrawn marker. Known finding
   C03-1 (known_findings/C03.json). What is proved: the exact extent of the
   failure, and everything that does hold. *)
From stdpp Require Import gmap.
From Coq Require Import NArith.
From RV Require Import Rib.RibModel Rib.RibProofs Pipe.PipeProofs.

(* the property fails on the faithful model: announce, session down, announce again *)
Theorem C03_flap_refuted :
  rib_lookup (rib_run c03_witness) (0, 1, 7)%N = Some (false, 4%N) /\
  spec_lookup (evs_of c03_witness) (0, 1, 7)%N = Some (true, 4%N).
Proof. exact c03_flap_witness. Qed.
Print Assumptions C03_flap_refuted.

(* every failing (history, query) is of the recorded class, and fails in exactly this way *)
Theorem C03_failure_class_exact : forall us k,
  rib_lookup (rib_run us) k <> spec_lookup (evs_of us) k -> known_c03 (evs_of us) k = true.
Proof.
  intros us k H. destruct (known_c03 (evs_of us) k) eqn:E; [reflexivity|].
  exfalso. apply H. exact (rib_lookup_spec_exact us k E).
Qed.
Print Assumptions C03_failure_class_exact.

Theorem C03_known_class_behaviour : forall us k,
  known_c03 (evs_of us) k = true ->
  exists a, spec_lookup (evs_of us) k = Some (true, a) /\ rib_lookup (rib_run us) k = Some (false, a).
Proof. exact rib_lookup_known. Qed.
Print Assumptions C03_known_class_behaviour.

(* what does hold: routes from before the outage that were not re-announced stay
   withdrawn, with their last attributes *)
Theorem C03_not_reannounced_stays_withdrawn : forall us k a,
  spec_lookup (evs_of us) k = Some (false, a) -> rib_lookup (rib_run us) k = Some (false, a).
Proof. exact not_reannounced_stays_withdrawn. Qed.
Print Assumptions C03_not_reannounced_stays_withdrawn.

(* ... and a source whose id never saw a session-wide withdrawal (a BGP session:
   fresh id per connection) is reported exactly as the property demands *)
Theorem C03_fresh_id_is_exact : forall us k,
  downed (evs_of us) k = false -> rib_lookup (rib_run us) k = spec_lookup (evs_of us) k.
Proof.
  intros us k H. apply rib_lookup_spec_exact. unfold known_c03. rewrite H. reflexivity.
Qed.
Print Assumptions C03_fresh_id_is_exact.

From RV Require E2e.E2eModel E2e.E2eProofs Ingress.IngressModel Pipe.PipeModel Rib.RibModel.

(* ---- an ingress unit that a reload takes out of the configuration and one that a reload puts back (E2e/E2eModel.v,
   third part: istate / i_step; tied to the code by the `e2e` engine: ops J j / JL u) ----
   The pipeline has two bmp-tcp-in units, `bmp-in` (router addresses 0..3) and `bmp-in2` (4..7), which every RIB unit
   sources. [IIngress b] = the operator takes [units.bmp-in] out of the file / puts it back, effective with the next
   [IE EReload]: the manager terminates the running unit - every connection of it ends - or starts a NEW unit.
   [is_run] = a bmp-in unit runs, [is_want] = the file has one, [is_gen] = bmp-in units started before the one that
   runs; the session of address k at incarnation g has the key k + 8 g ([i_session]); [i_children st rid] = the
   ingress ids registered under router id rid (ids_for_parent); [i_rib_lookup st key] = what unit `rib` reports for
   one (family, prefix, ingress id). *)

(* every record the RIB holds under an ingress id registered under a router that is connected to the unit which
   the reload takes out is reported withdrawn afterwards, with the attributes it had (the statement seeded C03-b1 breaks:
   read_from_router's 'gate terminated' exit skipped the clean-up) ... *)
Theorem C03_removed_unit_withdraws_its_routes : forall st k rid s id key,
  E2eModel.is_run st = true -> E2eModel.is_want st = false ->
  (k < 4)%N -> E2eModel.i_session st (k + 8 * E2eModel.is_gen st)%N = Some (rid, s) -> In id (E2eModel.i_children st rid) ->
  RibModel.k_mui key = id -> (RibModel.k_fam key < 4)%N ->
  E2eModel.i_rib_lookup (E2eModel.i_step false st (E2eModel.IE E2eModel.EReload)) key =
  E2eModel.withdrawn_of (E2eModel.i_rib_lookup st key).
Proof. exact E2eProofs.removed_unit_withdraws_its_routes_std. Qed.
Print Assumptions C03_removed_unit_withdraws_its_routes.

(* ... and nothing else changes: a record whose ingress id is not registered under one of those routers is reported
   as before, the sessions of the other ingress unit are what they were, the register is untouched *)
Theorem C03_removal_spares_other_ingresses : forall st,
  E2eModel.is_run st = true -> E2eModel.is_want st = false ->
  let st' := E2eModel.i_step false st (E2eModel.IE E2eModel.EReload) in
  (forall key,
     (forall k rid s, (k < 4)%N -> E2eModel.i_session st (k + 8 * E2eModel.is_gen st)%N = Some (rid, s) ->
                      ~ In (RibModel.k_mui key) (E2eModel.i_children st rid)) ->
     E2eModel.i_rib_lookup st' key = E2eModel.i_rib_lookup st key) /\
  (forall k, (4 <= k < 8)%N -> E2eModel.i_session st' k = E2eModel.i_session st k) /\
  (forall rid, E2eModel.i_children st' rid = E2eModel.i_children st rid).
Proof. exact E2eProofs.removal_spares_other_ingresses_std. Qed.
Print Assumptions C03_removal_spares_other_ingresses.

(* exactly the difference: what the removal does to a RIB unit that lives through the reload - `rib`, and a second rib
   unit of unchanged type - is ONE bulk withdrawal of the ids registered under the routers that were connected *)
Theorem C03_removal_is_one_bulk_withdrawal : forall st,
  E2eModel.is_run st = true -> E2eModel.is_want st = false ->
  let st' := E2eModel.i_step false st (E2eModel.IE E2eModel.EReload) in
  let ids := E2eModel.removed_ids (E2eModel.es_w (E2eModel.is_e st))
               (map (E2eModel.src_key (E2eModel.is_gen st)) E2eModel.unit1_addrs) in
  E2eModel.ru_rib (E2eModel.es_rib (E2eModel.is_e st')) =
    RibModel.rib_apply (E2eModel.ru_rib (E2eModel.es_rib (E2eModel.is_e st))) (RibModel.UWithdrawBulk ids) /\
  E2eModel.ru_filter (E2eModel.es_rib (E2eModel.is_e st')) = E2eModel.ru_filter (E2eModel.es_rib (E2eModel.is_e st)) /\
  forall r, E2eModel.es_rib2 (E2eModel.is_e st) = Some r -> E2eModel.es_rib2kind (E2eModel.is_e st) = 1%N ->
            E2eModel.ef_rib2 (E2eModel.es_file (E2eModel.is_e st)) = 1%N ->
    E2eModel.es_rib2 (E2eModel.is_e st') =
    Some (E2eModel.MkRunit (E2eModel.ru_filter r) (E2eModel.ru_born r) (RibModel.rib_apply (E2eModel.ru_rib r) (RibModel.UWithdrawBulk ids))).
Proof. exact E2eProofs.removal_is_one_bulk_withdrawal_std. Qed.
Print Assumptions C03_removal_is_one_bulk_withdrawal.

(* the reload that puts the unit back starts a NEW unit: it registers an ingress id of its own (the register's next),
   so its routers are looked up under another parent; nothing else moves - the RIB reports what it reported (the routes
   of the earlier unit's sessions stay withdrawn), the other sessions and the register's entries are what they were *)
Theorem C03_returning_unit_is_a_new_parent : forall lg st,
  E2eModel.is_run st = false -> E2eModel.is_want st = true ->
  let st' := E2eModel.i_step lg st (E2eModel.IE E2eModel.EReload) in
  E2eModel.is_run st' = true /\ E2eModel.is_gen st' = (E2eModel.is_gen st + 1)%N /\
  E2eModel.is_uid st' = IngressModel.serial (PipeModel.w_reg (E2eModel.es_w (E2eModel.is_e st))) /\
  (forall key, E2eModel.i_rib_lookup st' key = E2eModel.i_rib_lookup st key) /\
  (forall key, E2eModel.i_session st' key = E2eModel.i_session st key) /\
  (forall rid, E2eModel.i_children st' rid = E2eModel.i_children st rid).
Proof. exact E2eProofs.added_unit_is_a_new_parent_std. Qed.
Print Assumptions C03_returning_unit_is_a_new_parent.

(* the code as it was (before fix 29de9ab the RIB unit unsubscribed from the sources of the previous configuration as
   soon as it was reconfigured - usually before the unit that the same reload terminates had sent the withdrawals of its
   sessions): on the same history the route stays ACTIVE, where the repaired code and the property say withdrawn *)
Theorem C03_legacy_removal_leaves_routes_refuted :
  let stl := E2eModel.i_run true (E2eModel.i_init E2eModel.SNone 0) E2eProofs.removal_witness in
  let stf := E2eModel.i_run false (E2eModel.i_init E2eModel.SNone 0) E2eProofs.removal_witness in
  (exists id, RibModel.rib_query (E2eModel.ru_rib (E2eModel.es_rib (E2eModel.is_e stl))) 0 1 = [(id, true, 3%N)]) /\
  (exists id, RibModel.rib_query (E2eModel.ru_rib (E2eModel.es_rib (E2eModel.is_e stf))) 0 1 = [(id, false, 3%N)]) /\
  PipeModel.ideal_query (PipeModel.s_rib (E2eModel.es_s (E2eModel.is_e stl))) 0 1 = [((0%N, (0, 0, 0, 0, 1, 65001, 1)%N), false, 3%N)] /\
  PipeModel.ideal_query (PipeModel.s_rib (E2eModel.es_s (E2eModel.is_e stf))) 0 1 = [((0%N, (0, 0, 0, 0, 1, 65001, 1)%N), false, 3%N)] /\
  E2eModel.is_run stl = false /\ E2eModel.i_session stl 0%N = None.
Proof. exact E2eProofs.legacy_removal_leaves_routes_refuted_std. Qed.
Print Assumptions C03_legacy_removal_leaves_routes_refuted.

(* the property's reading of the removal: the sessions of the unit's routers are over - every route of every peer of
   such a router is withdrawn, attributes kept, and no other route changes *)
Theorem C03_removal_in_the_property_reading : forall st,
  E2eModel.is_run st = true -> E2eModel.is_want st = false ->
  let st' := E2eModel.i_step false st (E2eModel.IE E2eModel.EReload) in
  forall f p (x : PipeModel.wid),
    E2eModel.i_spec_lookup st' f p x =
    if (existsb (N.eqb (fst x)) (map (fun k => k + 8 * E2eModel.is_gen st)%N [0; 1; 2; 3]%N)) && E2eModel.i_spec_session st (fst x)
    then E2eModel.withdrawn_of (E2eModel.i_spec_lookup st f p x) else E2eModel.i_spec_lookup st f p x.
Proof. exact E2eProofs.removal_in_the_property_reading_std. Qed.
Print Assumptions C03_removal_in_the_property_reading.

(* a router that connects to the unit which a reload has just started is a NEW source: the unit looks it up under its
   own ingress id, which no earlier source has as parent, finds nothing and registers it afresh - it gets the register's
   next id. None of the ids whose routes the removal withdrew is used again, so known finding C03-1 (the sticky
   withdrawn marker of a REUSED id) does not apply to what the returning router announces. (Proviso: no source names
   the register's next id as its parent - ids are handed out in order, C14.) *)
Theorem C03_router_of_added_unit_is_a_new_source : forall lg st k,
  E2eModel.is_run st = false -> E2eModel.is_want st = true -> (k < 4)%N ->
  E2eModel.next_id_unused (PipeModel.w_reg (E2eModel.es_w (E2eModel.is_e st))) ->
  let st1 := E2eModel.i_step lg st (E2eModel.IE E2eModel.EReload) in
  let st2 := E2eModel.i_step lg st1 (E2eModel.IE (E2eModel.EW (PipeModel.WConnect k))) in
  E2eModel.is_uid st1 = IngressModel.serial (PipeModel.w_reg (E2eModel.es_w (E2eModel.is_e st))) /\
  E2eModel.i_rid st2 k = Some (IngressModel.serial (PipeModel.w_reg (E2eModel.es_w (E2eModel.is_e st1)))).
Proof. exact E2eProofs.router_of_added_unit_is_a_new_source. Qed.
Print Assumptions C03_router_of_added_unit_is_a_new_source.
