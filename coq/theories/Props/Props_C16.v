(* C16 — MRT import reproduces the file: every entry and update, in order, per peer.
   Statements only; every proof is [exact <lemma>]. The model is MrtModel.v
   (process_file / MrtInRunner::run of src/units/mrt_file_in/unit.rs, after the
   two repairs made for this property), composed with IngressModel and RibModel. *)
From stdpp Require Import gmap.
From Coq Require Import NArith.
From RV Require Import Ingress.IngressModel Ingress.IngressProofs Rib.RibModel Bmp.BmpModel Pipe.PipeRaw Mrt.MrtModel Mrt.MrtProofs Mrt.MrtRaw Mrt.MrtRawProofs.
From RV Require Bgp.BgpModel.
Local Open Scope N_scope.

(* A dump file (peer index table, then non-empty IPv4/IPv6 unicast RIB records
   indexing into it), whatever the register held before: every entry becomes one
   Single, in file order, carrying the ingress id registered for ITS index entry;
   these ids are fresh, pairwise distinct, stand for (unit, address, AS) of the
   entry, and nothing registered before is touched. Any number of peers/records. *)
Theorem C16_dump_attribution : forall parent r name ps rest,
  dump_ok (RPit ps :: rest) = true ->
  serial r + N.of_nat (length ps) < two32 ->
  let ids := nseq (serial r) (length ps) in
  let r1 := (reg_peers r parent name ps).1 in
  process_file parent r (FGood name (RPit ps :: rest)) = (r1, flat_map (dump_singles ids) rest, SOk) /\
  NoDup ids /\
  (forall i p, ps !! i = Some p ->
     exists id inf, ids !! i = Some id /\ serial r <= id /\ infos r1 !! id = Some inf /\ names parent inf p) /\
  (forall k, k < serial r -> infos r1 !! k = infos r !! k).
Proof. exact dump_attribution. Qed.
Print Assumptions C16_dump_attribution.

(* ... and the RIB behind the gate then holds exactly the dump's entries: for
   every (family, prefix, id) the attributes listed last for it, active, and
   nothing for any other key (spec_lookup = last-event reading, RibModel). *)
Theorem C16_dump_import_exact : forall name ps rest k,
  dump_ok (RPit ps :: rest) = true -> N.of_nat (length ps) < two32 - 2 ->
  rib_lookup (import [FGood name (RPit ps :: rest)]) k =
  spec_lookup (evs_of (flat_map (dump_singles (nseq 2 (length ps))) rest)) k.
Proof. exact dump_import_exact. Qed.
Print Assumptions C16_dump_import_exact.

(* BGP4MP records are applied in file order: processing a file's records is
   processing a first part and then the rest from the register it left. *)
Theorem C16_updates_in_file_order : forall parent recs1 r recs2,
  msgs_walk parent r (recs1 ++ recs2) =
  let '(r1, us1) := msgs_walk parent r recs1 in
  let '(r2, us2) := msgs_walk parent r1 recs2 in
  (r2, us1 ++ us2).
Proof. exact msgs_walk_app. Qed.
Print Assumptions C16_updates_in_file_order.

(* A BGP4MP UPDATE of peer p leaves as ONE Bulk (withdrawals first, then
   announcements: payloads_of) whose every route carries the id that from then
   on is the only answer for (unit, address of p, AS of p). *)
Theorem C16_update_attributed : forall parent r p u,
  Below r -> PeerUnique r ->
  exists id r', msg_step parent r (RMsg p (BUpdate u)) = (r', [UBulk (payloads_of id u)]) /\
    answers r' (mrt_query parent p) id /\
    (forall x, x ∈ payloads_of id u -> k_mui (p_key x) = id).
Proof. exact msg_update_attributed. Qed.
Print Assumptions C16_update_attributed.

(* Over ANY queue of update files (any records, AS2/AS4/_ET variants, state
   changes, skipped records): peer lookups stay unambiguous - so the HashMap
   order inside find_existing_peer is immaterial - and a peer keeps its id. *)
Theorem C16_update_queue_peer_stable : forall parent fs r,
  forallb update_file fs = true ->
  Below r -> PeerUnique r ->
  serial r + N.of_nat (length (flat_map (file_ops parent) fs)) < two32 ->
  let r' := (queue_run parent r fs).1 in
  Below r' /\ PeerUnique r' /\
  forall p id, answers r (mrt_query parent p) id -> answers r' (mrt_query parent p) id.
Proof. exact update_queue_stable. Qed.
Print Assumptions C16_update_queue_peer_stable.

(* ... and with dump files in the queue as well, as long as every peer-index
   entry names a peer that has no id at that moment (one dump per peer, dumps
   before that peer's updates): ANY such queue - including unreadable files and
   files the parser stops in - keeps lookups unambiguous and ids stable.
   _partial: without the freshness hypothesis C16_one_id_per_peer_refuted applies. *)
Theorem C16_fresh_queue_peer_stable_partial : forall parent fs r,
  queue_fresh parent r fs ->
  Below r -> PeerUnique r ->
  serial r + N.of_nat (length (flat_map (all_ops parent) fs)) < two32 ->
  let r' := (queue_run parent r fs).1 in
  Below r' /\ PeerUnique r' /\
  forall p id, answers r (mrt_query parent p) id -> answers r' (mrt_query parent p) id.
Proof. exact fresh_queue_stable. Qed.
Print Assumptions C16_fresh_queue_peer_stable_partial.

Theorem C16_unit_start_ok :
  Below unit_start.2 /\ PeerUnique unit_start.2 /\ serial unit_start.2 = 2 /\ unit_start.1 = 1.
Proof. exact unit_start_ok. Qed.
Print Assumptions C16_unit_start_ok.

(* Queued files are processed one after another in queue order. *)
Theorem C16_queue_in_order : forall parent fs1 r fs2,
  queue_run parent r (fs1 ++ fs2) =
  let '(r1, us1) := queue_run parent r fs1 in
  let '(r2, us2) := queue_run parent r1 fs2 in
  (r2, us1 ++ us2).
Proof. exact queue_run_app. Qed.
Print Assumptions C16_queue_in_order.

(* An unreadable file affects only itself: the queue behaves as if it had not
   been queued ... *)
Theorem C16_bad_file_local : forall parent r fs1 fs2,
  queue_run parent r (fs1 ++ FBad :: fs2) = queue_run parent r (fs1 ++ fs2).
Proof. exact bad_file_local. Qed.
Print Assumptions C16_bad_file_local.

(* ... and whatever happens inside a file (error, parser stop), the files
   behind it are processed exactly as they would be on their own from the
   register it left; what it emitted before stopping stays in front. *)
Theorem C16_file_then_rest : forall parent r f fs,
  queue_run parent r (f :: fs) =
  (let '(r1, us, _) := process_file parent r f in
   ((queue_run parent r1 fs).1, us ++ (queue_run parent r1 fs).2)).
Proof. exact file_then_rest. Qed.
Print Assumptions C16_file_then_rest.

(* A peer's Established->Idle state change withdraws that peer's routes: the
   id found for (unit, address, AS) gets a session-wide withdrawal, which marks
   exactly the records of that id (all families) and nothing else. *)
Theorem C16_state_change_withdraws : forall parent r p id rb k,
  reg_find_peers r (mrt_query parent p) = [id] ->
  msg_step parent r (RState p 6 1) = (r, [UWithdraw id None]) /\
  rib_lookup (rib_apply rb (UWithdraw id None)) k =
    if down_hits id None k then match rib_lookup rb k with Some (_, a) => Some (false, a) | None => None end
    else rib_lookup rb k.
Proof. exact state_change_withdraws_rib. Qed.
Print Assumptions C16_state_change_withdraws.

Theorem C16_other_state_changes_do_nothing : forall parent r p old new,
  (old =? 6) && (new =? 1) = false -> msg_step parent r (RState p old new) = (r, []).
Proof. exact state_change_other. Qed.
Print Assumptions C16_other_state_changes_do_nothing.

(* The defect that was repaired (unit.rs:173-177 before the fix): a lookup whose
   query names no parent finds nothing in ANY register, so the state change
   never withdrew anything. *)
Theorem C16_lookup_without_parent_finds_nothing : forall r q,
  i_parent q = None -> reg_find_peers r q = [].
Proof. exact lookup_without_parent. Qed.
Print Assumptions C16_lookup_without_parent_finds_nothing.

(* For every queue: what the RIB shows per (family, prefix, ingress id) is the
   last-event reading of the update stream in queue and file order; the only
   departure is the sticky session-wide marker (known finding C03-1). *)
Theorem C16_rib_reads_history : forall fs k,
  rib_lookup (import fs) k =
  match spec_lookup (evs_of (import_updates fs)) k with
  | Some (s, a) => Some (s && negb (downed (evs_of (import_updates fs)) k), a)
  | None => None
  end.
Proof. exact import_reads_history. Qed.
Print Assumptions C16_rib_reads_history.

(* Refuted, known finding C16-1: a peer named by the tables of two dump files
   gets two ingress ids; the property's reading has one entry for the peer
   (the later dump's), the RIB has two; later lookups have two candidates. *)
Theorem C16_one_id_per_peer_refuted :
  length (reg_find_peers (queue_run unit_start.1 unit_start.2 two_dumps).1 (mrt_query unit_start.1 pA)) = 2%nat /\
  i_entries (i_import two_dumps) 0 5 = [(pA, true, 4)] /\
  length (rib_entries (import two_dumps) 0 5) = 2%nat.
Proof. exact redump_witness. Qed.
Print Assumptions C16_one_id_per_peer_refuted.

(* Refuted, known finding C16-2: a file holding RIB records AND BGP4MP records
   stops at the first BGP4MP record (routecore's RibEntryIterator panics): the
   dump entries before it are imported, its updates are not. *)
Theorem C16_mixed_file_refuted :
  (process_file unit_start.1 unit_start.2 mixed_file).2 = SStop /\
  (process_file unit_start.1 unit_start.2 mixed_file).1.2 = [single 0 5 2 3] /\
  i_import [mixed_file] !! (0, 6, pA) = Some (true, 7) /\
  rib_entries (import [mixed_file]) 0 6 = [].
Proof. exact mixed_file_witness. Qed.
Print Assumptions C16_mixed_file_refuted.

(* All or nothing, on the octets of the BGP message inside a BGP4MP record (read by C04's independent decoder,
   BgpModel.decode in the code's mode): an UPDATE that cannot be taken apart contributes NO event - nothing leaves
   the gate, nothing is looked up or registered; one that can leaves as ONE Bulk that holds every route event of
   the UPDATE exactly as often as the UPDATE has it (withdrawals first), all under the one id that from then on
   answers for the peer. Never the half that still parses. *)
Theorem C16_update_all_or_nothing : forall parent r p bytes,
  Below r -> PeerUnique r ->
  match BgpModel.decode BgpModel.Code bytes with
  | None => msg_step parent r (raw_rec p bytes) = (r, [])
  | Some u =>
      exists id r', msg_step parent r (raw_rec p bytes) = (r', [UBulk (bulk_of_events id (BgpModel.events u))]) /\
        bulk_of_events id (BgpModel.events u) ≡ₚ map (pay_of_ev id) (BgpModel.events u) /\
        answers r' (mrt_query parent p) id /\
        (forall x, x ∈ bulk_of_events id (BgpModel.events u) -> k_mui (p_key x) = id)
  end.
Proof. exact raw_all_or_nothing. Qed.
Print Assumptions C16_update_all_or_nothing.

(* ... and it is local: in an update file the record of such an UPDATE is as if it were not there - the records
   behind it are processed from the same register, whatever stands in front of it stays. *)
Theorem C16_bad_update_local : forall parent r name rc recs1 p recs2,
  update_file (FGood name (rc :: recs1 ++ recs2)) = true ->
  process_file parent r (FGood name (rc :: recs1 ++ RMsg p BBad :: recs2)) =
  process_file parent r (FGood name (rc :: recs1 ++ recs2)).
Proof. exact bad_update_file. Qed.
Print Assumptions C16_bad_update_local.

(* For any queue around the file: update stream, RIB behind the gate and the property's reading are those of the
   queue without the record ("an UPDATE that fails to parse changes nothing at all", C01). *)
Theorem C16_bad_update_changes_nothing : forall bytes fs1 name rc recs1 p recs2 fs2,
  BgpModel.decode BgpModel.Code bytes = None ->
  update_file (FGood name (rc :: recs1 ++ recs2)) = true ->
  queue_run unit_start.1 unit_start.2 (fs1 ++ FGood name (rc :: recs1 ++ raw_rec p bytes :: recs2) :: fs2) =
    queue_run unit_start.1 unit_start.2 (fs1 ++ FGood name (rc :: recs1 ++ recs2) :: fs2) /\
  import (fs1 ++ FGood name (rc :: recs1 ++ raw_rec p bytes :: recs2) :: fs2) =
    import (fs1 ++ FGood name (rc :: recs1 ++ recs2) :: fs2) /\
  i_import (fs1 ++ FGood name (rc :: recs1 ++ raw_rec p bytes :: recs2) :: fs2) =
    i_import (fs1 ++ FGood name (rc :: recs1 ++ recs2) :: fs2).
Proof. exact raw_undecodable_changes_nothing. Qed.
Print Assumptions C16_bad_update_changes_nothing.

(* The defect that was repaired (process_file: `process_message(..).await?`): with the error of explode_* handed
   on, the messages part ended at the first UPDATE that cannot be taken apart - what stood in front of it was
   applied, everything behind it was lost (witness: the announcement behind such an UPDATE; the property's
   reading and the repaired walk have it). *)
Theorem C16_old_walk_lost_rest_of_file :
  (forall parent recs1 r p recs2, forallb (fun rc => negb (rec_bad rc)) recs1 = true ->
     msgs_walk_old parent r (recs1 ++ RMsg p BBad :: recs2) = (msgs_walk parent r recs1, SStop)) /\
  (msgs_walk_old unit_start.1 unit_start.2 bad_then_good).1.2 = [] /\
  (msgs_walk unit_start.1 unit_start.2 bad_then_good).2 = [UBulk [MkPay (0, 6, 2) true 7]] /\
  i_import [FGood 0 bad_then_good] !! (0, 6, pA) = Some (true, 7).
Proof. exact old_walk_lost_rest. Qed.
Print Assumptions C16_old_walk_lost_rest_of_file.

(* The queue holds NAMES (the configured `filename` list, the paths the HTTP endpoint resolved), and EVERY entry is
   imported when its turn comes, whatever went through the queue before: for any tree and any list of entries - a path
   that stands in it twice, two paths holding the same octets included, no NoDup anywhere - the unit's register and the
   RIB behind the gate after the queue are the fold of the per-entry effect (open what the path holds, process_file,
   apply what left the gate) over ALL entries in order, and the property's reading is the fold of i_file over them. *)
Theorem C16_queue_entries_all_applied : forall fsys ps,
  ((queue_run unit_start.1 unit_start.2 (queue_files fsys ps)).1, import (queue_files fsys ps)) =
    fold_left (entry_step unit_start.1 fsys) ps (unit_start.2, rib_empty) /\
  i_import (queue_files fsys ps) = fold_left (fun rb p => i_file rb (resolve fsys p)) ps ∅.
Proof. exact queue_entries_all_applied. Qed.
Print Assumptions C16_queue_entries_all_applied.

(* A file that comes again is imported again: behind ANY queue fs it is processed once more from the register the queue
   has left, and every UPDATE of an update file leaves the gate again as its Bulk (from any register). Witness (the
   seeded change): A = announce 10.5/16, B = withdraw it; A, B, A - the same entry again, or the same octets under
   another name - ends with the route ACTIVE in the RIB and in the property's reading (also with an Established->Idle
   in between, for the reading); A, B - what a loop that skips "imported before" leaves - has it withdrawn. *)
Theorem C16_repeat_is_reapplied :
  (forall parent r f fs,
     queue_run parent r (f :: fs ++ [f]) =
     let '(r1, us1, _) := process_file parent r f in
     let '(r2, us2) := queue_run parent r1 fs in
     let '(r3, us3, _) := process_file parent r2 f in
     (r3, us1 ++ us2 ++ us3)) /\
  (forall parent r name recs p u,
     update_file (FGood name recs) = true -> In (RMsg p (BUpdate u)) recs ->
     exists id, In (UBulk (payloads_of id u)) (process_file parent r (FGood name recs)).1.2) /\
  rib_lookup (import [file_ann; file_wd; file_ann]) (0, 5, 2) = Some (true, 3) /\
  rib_lookup (import [file_ann; file_wd; file_ann_copy]) (0, 5, 2) = Some (true, 3) /\
  rib_lookup (import [file_ann; file_wd]) (0, 5, 2) = Some (false, 3) /\
  i_import [file_ann; file_wd; file_ann] !! (0, 5, pA) = Some (true, 3) /\
  i_import [file_ann; file_down; file_ann_copy] !! (0, 5, pA) = Some (true, 3) /\
  i_import [file_ann; file_wd] !! (0, 5, pA) = Some (false, 3).
Proof. exact repeat_is_reapplied. Qed.
Print Assumptions C16_repeat_is_reapplied.

(* The file that is imported is the one the entry names - the whole path, not its last component: two trees that hold
   the same under the queued paths give the same files, RIB and reading, whatever they hold elsewhere (a file of the
   same name in another directory above all); writing a path changes what THAT path holds and no other. Witness:
   `updates` and `rrc01/updates` hold different files; queueing rrc01/updates imports its announcement, not the other. *)
Theorem C16_entry_imports_named_file :
  (forall fsys fsys' ps, (forall p, In p ps -> resolve fsys p = resolve fsys' p) ->
     queue_files fsys ps = queue_files fsys' ps /\
     import (queue_files fsys ps) = import (queue_files fsys' ps) /\
     i_import (queue_files fsys ps) = i_import (queue_files fsys' ps)) /\
  (forall fsys p f q, resolve (store_write fsys p f) q = if bool_decide (p = q) then f else resolve fsys q) /\
  resolve tree_same_names [1; 7] = file_ann /\
  rib_lookup (import (queue_files tree_same_names [[1; 7]])) (0, 5, 2) = Some (true, 3) /\
  rib_lookup (import (queue_files tree_same_names [[7]])) (0, 5, 2) = None.
Proof. exact entry_imports_named_file. Qed.
Print Assumptions C16_entry_imports_named_file.

(* non-vacuity for the octet level: two UPDATEs that are malformed in exactly one half (a 200-bit NLRI behind a good
   one inside MP_UNREACH_NLRI next to a conventional announcement; the same inside MP_REACH_NLRI next to a
   conventional withdrawal) do not decode; between two good UPDATEs (withdraw 10.9.9.0/24, announce 10.9.8.0/24)
   they leave no trace in the update stream, the RIB or the property's reading *)
Example C16_half_malformed_example :
  BgpModel.decode BgpModel.Code raw_half_unreach = None /\
  BgpModel.decode BgpModel.Code raw_half_reach = None /\
  (exists a, raw_upd raw_good = Some (UGen None true 0 [(0, pfx_10_9_8)] a [(0, pfx_10_9_9)]) /\
     import_updates [half_file] =
       [UBulk [MkPay (0, pfx_10_9_9, 2) false 0; MkPay (0, pfx_10_9_8, 2) true a];
        UBulk [MkPay (0, pfx_10_9_9, 2) false 0; MkPay (0, pfx_10_9_8, 2) true a]] /\
     rib_entries (import [half_file]) 0 pfx_10_9_8 = [(2, true, a)] /\
     i_entries (i_import [half_file]) 0 pfx_10_9_8 = [(pA, true, a)]) /\
  rib_entries (import [half_file]) 0 pfx_10_9_9 = [] /\
  i_entries (i_import [half_file]) 0 pfx_10_9_9 = [].
Proof. exact half_example. Qed.

(* non-vacuity: a dump of two peers (v4 and v6 entries), then an update file
   with an AS-path change, a withdrawal and a state change; ids, updates, RIB *)
Example C16_example :
  let p1 : mpeer := (1, 65001) in let p2 : mpeer := (101, 65003) in
  let dump := FGood 0 [RPit [p1; p2]; RRib 0 5 [(0, 3); (1, 4)]; RRib 1 7 [(1, 9)]] in
  let upd := FGood 1 [RMsg p1 (BUpdate (URoutes 0 [5; 6] 8 0 [])); RState p2 6 1; RMsg p1 (BUpdate (URoutes 0 [] 0 0 [6]))] in
  dump_ok [RPit [p1; p2]; RRib 0 5 [(0, 3); (1, 4)]; RRib 1 7 [(1, 9)]] = true /\
  update_file upd = true /\
  queue_fresh unit_start.1 unit_start.2 [dump; FBad; upd] /\
  import_updates [dump; FBad; upd] =
    [single 0 5 2 3; single 0 5 3 4; single 1 7 3 9;
     UBulk [MkPay (0, 5, 2) true 8; MkPay (0, 6, 2) true 8]; UWithdraw 3 None; UBulk [MkPay (0, 6, 2) false 0]] /\
  rib_lookup (import [dump; FBad; upd]) (0, 5, 2) = Some (true, 8) /\
  rib_lookup (import [dump; FBad; upd]) (0, 5, 3) = Some (false, 4) /\
  rib_lookup (import [dump; FBad; upd]) (1, 7, 3) = Some (false, 9) /\
  rib_lookup (import [dump; FBad; upd]) (0, 6, 2) = Some (false, 8).
Proof. vm_compute. repeat split; reflexivity. Qed.

(* ------------------------------------------------------------------------------------------------------------ *)
(* WHOLE QUEUES refine the per-peer ideal RIB (DESIGN 12.2: was 'proved for one dump file, else differential').
   Class predicates (Mrt/MrtQueueSpec.v, read off the files): names_once = no peer-index entry names a peer that was
   named before (excludes known finding C16-1, class KD); file_ok = a file with a table in front is one routecore's
   RibEntryIterator gets through (excludes C16-2, class KP); k3_class = known finding C16-3 = C03-1. Proofs:
   Mrt/MrtQueueRefine.v. *)
From RV Require Import Mrt.MrtQueueSpec Mrt.MrtQueueRefine.

(* For EVERY file store and EVERY queue of entries - dump files, update files, unreadable entries, in any order, an
   entry that stands in the queue twice - outside the classes C16-1 and C16-2 (and while the 32-bit id counter does not
   wrap): after the queue
   (1) every peer (address, AS) the files name holds at most one ingress id;
   (2) for a peer x that holds id i, the RIB behind the gate answers for (family, prefix, i) what the property's ideal RIB
       (i_import = the fold of i_file over the entries) holds for (family, prefix, x) - same presence, same attributes,
       same status - except that an entry whose (family, id) a session-wide withdrawal ever hit reads withdrawn (the
       sticky marker, class K3; the shape of C01_pipeline_rib_answer);
   (3) a peer without an id has no entry in the ideal RIB; (4) an id no peer holds has no route in the RIB. *)
Theorem C16_queue_refines_ideal : forall fsys ps,
  let fs := queue_files fsys ps in
  let r' := (queue_run unit_start.1 unit_start.2 fs).1 in
  names_once [] fs = true ->
  forallb file_ok fs = true ->
  2 + N.of_nat (length (flat_map (all_ops unit_start.1) fs)) < two32 ->
  (forall x, (length (reg_find_peers r' (mrt_query unit_start.1 x)) <= 1)%nat) /\
  (forall x i f p, f < 4 -> reg_find_peers r' (mrt_query unit_start.1 x) = [i] ->
     rib_lookup (import fs) (f, p, i) =
     match i_import fs !! (f, p, x) with
     | Some (s, a) => Some (s && negb (downed (evs_of (import_updates fs)) (f, p, i)), a)
     | None => None
     end) /\
  (forall x f p, reg_find_peers r' (mrt_query unit_start.1 x) = [] -> i_import fs !! (f, p, x) = None) /\
  (forall i f p, (forall x, i ∉ reg_find_peers r' (mrt_query unit_start.1 x)) ->
     rib_lookup (import fs) (f, p, i) = None).
Proof. exact queue_refines_ideal_syntactic. Qed.
Print Assumptions C16_queue_refines_ideal.

(* Off class K3 the answer IS the ideal one; inside it the difference is exactly the recorded one: active in the ideal
   RIB, withdrawn with the same attributes in the RIB. *)
Theorem C16_queue_exact_off_k3 : forall fsys ps x i f p,
  let fs := queue_files fsys ps in
  names_once [] fs = true ->
  forallb file_ok fs = true ->
  2 + N.of_nat (length (flat_map (all_ops unit_start.1) fs)) < two32 ->
  f < 4 ->
  reg_find_peers (queue_run unit_start.1 unit_start.2 fs).1 (mrt_query unit_start.1 x) = [i] ->
  if k3_class fs x i f p
  then exists a, i_import fs !! (f, p, x) = Some (true, a) /\ rib_lookup (import fs) (f, p, i) = Some (false, a)
  else rib_lookup (import fs) (f, p, i) = i_import fs !! (f, p, x).
Proof. exact queue_exact_off_k3. Qed.
Print Assumptions C16_queue_exact_off_k3.

(* The same for the LISTS a query returns (Rib::match_prefix / the ideal RIB's listing): entry for entry, up to K3, and
   the multicast fall-back is taken for the same queries on both sides. *)
Theorem C16_queue_queries_refine_ideal : forall fsys ps,
  let fs := queue_files fsys ps in
  let r' := (queue_run unit_start.1 unit_start.2 fs).1 in
  let h := evs_of (import_updates fs) in
  names_once [] fs = true ->
  forallb file_ok fs = true ->
  2 + N.of_nat (length (flat_map (all_ops unit_start.1) fs)) < two32 ->
  (forall f p i s a, f < 4 -> (i, s, a) ∈ rib_entries (import fs) f p ->
     exists x s0, reg_find_peers r' (mrt_query unit_start.1 x) = [i] /\
       (x, s0, a) ∈ i_entries (i_import fs) f p /\ s = s0 && negb (downed h (f, p, i))) /\
  (forall f p x s0 a, f < 4 -> (x, s0, a) ∈ i_entries (i_import fs) f p ->
     exists i, reg_find_peers r' (mrt_query unit_start.1 x) = [i] /\
       (i, s0 && negb (downed h (f, p, i)), a) ∈ rib_entries (import fs) f p) /\
  (forall af p, af < 2 -> exists f, f < 4 /\
     rib_query (import fs) af p = rib_entries (import fs) f p /\
     i_query (i_import fs) af p = i_entries (i_import fs) f p).
Proof. exact queue_queries_refine_ideal. Qed.
Print Assumptions C16_queue_queries_refine_ideal.

(* The class C16-1 read off the files is the class as the register sees it: names_once says exactly that every
   peer-index entry names a peer that has no id at that moment (queue_fresh, the hypothesis of
   C16_fresh_queue_peer_stable_partial) - it excludes that class and nothing else. *)
Theorem C16_names_once_is_fresh : forall fs,
  2 + N.of_nat (length (flat_map (all_ops unit_start.1) fs)) < two32 ->
  (queue_fresh unit_start.1 unit_start.2 fs <-> names_once [] fs = true).
Proof. exact names_once_is_fresh. Qed.
Print Assumptions C16_names_once_is_fresh.

(* ... and each class hypothesis is needed: the recorded witness of C16-1 (C16_one_id_per_peer_refuted) meets file_ok
   and not names_once, the one of C16-2 (C16_mixed_file_refuted) meets names_once and not file_ok. *)
Theorem C16_queue_class_witnesses :
  names_once [] two_dumps = false /\ forallb file_ok two_dumps = true /\
  names_once [] [mixed_file] = true /\ file_ok mixed_file = false.
Proof. exact class_witnesses. Qed.
Print Assumptions C16_queue_class_witnesses.

(* Corollary: UPDATE FILES ONLY (any number, any order, repeats, unreadable entries) - no class hypothesis is left. *)
Theorem C16_queue_refines_ideal_updates_only : forall fsys ps,
  let fs := queue_files fsys ps in
  let r' := (queue_run unit_start.1 unit_start.2 fs).1 in
  forallb update_file fs = true ->
  2 + N.of_nat (length (flat_map (all_ops unit_start.1) fs)) < two32 ->
  (forall x, (length (reg_find_peers r' (mrt_query unit_start.1 x)) <= 1)%nat) /\
  (forall x i f p, f < 4 -> reg_find_peers r' (mrt_query unit_start.1 x) = [i] ->
     rib_lookup (import fs) (f, p, i) =
     match i_import fs !! (f, p, x) with
     | Some (s, a) => Some (s && negb (downed (evs_of (import_updates fs)) (f, p, i)), a)
     | None => None
     end) /\
  (forall x f p, reg_find_peers r' (mrt_query unit_start.1 x) = [] -> i_import fs !! (f, p, x) = None) /\
  (forall i f p, (forall x, i ∉ reg_find_peers r' (mrt_query unit_start.1 x)) ->
     rib_lookup (import fs) (f, p, i) = None).
Proof. exact updates_only_refine_ideal. Qed.
Print Assumptions C16_queue_refines_ideal_updates_only.

(* Corollary: ONE DUMP (a table that names no peer twice, then records the iterator gets through), THEN UPDATE FILES. *)
Theorem C16_queue_refines_ideal_dump_then_updates : forall fsys d ps name pit rest,
  let fs := queue_files fsys (d :: ps) in
  let r' := (queue_run unit_start.1 unit_start.2 fs).1 in
  resolve fsys d = FGood name (RPit pit :: rest) ->
  fresh_peers [] pit = true -> dump_ok (RPit pit :: rest) = true ->
  forallb update_file (queue_files fsys ps) = true ->
  2 + N.of_nat (length (flat_map (all_ops unit_start.1) fs)) < two32 ->
  (forall x, (length (reg_find_peers r' (mrt_query unit_start.1 x)) <= 1)%nat) /\
  (forall x i f p, f < 4 -> reg_find_peers r' (mrt_query unit_start.1 x) = [i] ->
     rib_lookup (import fs) (f, p, i) =
     match i_import fs !! (f, p, x) with
     | Some (s, a) => Some (s && negb (downed (evs_of (import_updates fs)) (f, p, i)), a)
     | None => None
     end) /\
  (forall x f p, reg_find_peers r' (mrt_query unit_start.1 x) = [] -> i_import fs !! (f, p, x) = None) /\
  (forall i f p, (forall x, i ∉ reg_find_peers r' (mrt_query unit_start.1 x)) ->
     rib_lookup (import fs) (f, p, i) = None).
Proof. exact dump_then_updates_refine_ideal. Qed.
Print Assumptions C16_queue_refines_ideal_dump_then_updates.

(* non-vacuity: a dump of two peers (v4 and v6 entries), an update file (a replacement, an Established->Idle of the other
   peer, a withdrawal, a peer the dump does not know, an announcement of the peer that went down), an unreadable entry,
   and the update file AGAIN: the hypotheses hold; ids; RIB and ideal RIB agree, except the one K3 entry *)
Example C16_queue_refines_example :
  names_once [] (queue_files ex_store ex_queue) = true /\
  forallb file_ok (queue_files ex_store ex_queue) = true /\
  2 + N.of_nat (length (flat_map (all_ops unit_start.1) (queue_files ex_store ex_queue))) < two32 /\
  (let r' := (queue_run unit_start.1 unit_start.2 (queue_files ex_store ex_queue)).1 in
   reg_find_peers r' (mrt_query unit_start.1 ex_p1) = [2] /\
   reg_find_peers r' (mrt_query unit_start.1 ex_p2) = [3] /\
   reg_find_peers r' (mrt_query unit_start.1 ex_p3) = [4]) /\
  (let rb := import (queue_files ex_store ex_queue) in
   let ib := i_import (queue_files ex_store ex_queue) in
   rib_lookup rb (0, 5, 2) = Some (true, 8) /\ ib !! (0, 5, ex_p1) = Some (true, 8) /\
   rib_lookup rb (0, 6, 2) = Some (false, 8) /\ ib !! (0, 6, ex_p1) = Some (false, 8) /\
   rib_lookup rb (0, 5, 4) = Some (true, 2) /\ ib !! (0, 5, ex_p3) = Some (true, 2) /\
   rib_lookup rb (0, 5, 3) = Some (false, 4) /\ ib !! (0, 5, ex_p2) = Some (false, 4) /\
   rib_lookup rb (1, 8, 3) = Some (false, 6) /\ ib !! (1, 8, ex_p2) = Some (true, 6) /\
   k3_class (queue_files ex_store ex_queue) ex_p2 3 1 8 = true /\
   k3_class (queue_files ex_store ex_queue) ex_p1 2 0 5 = false).
Proof. exact refine_example. Qed.
