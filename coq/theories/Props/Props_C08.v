(* C08 — A connected link receives every gate update exactly once and in order.
   Statements only; every proof is [exact <lemma>].

   [run cf tr] executes the schedule [tr] (ANY list of atomic actions of links,
   root gate, clones and publishers: GateModel.action) from the initial state;
   actions that are not enabled are no-ops, so "forall tr" is "for all
   interleavings". [cf_follow cf = false] is the gate after the repair
   (`fix:` commit in rotonda), [true] the code at the pinned commit.
   [cf_guard cf = true] is Link::connect after the repair (an answer of the gate
   that is never picked up - the connect() future was dropped - is handed back
   with Unsubscribe), [false] the code before it. *)
From Coq Require Import List NArith Bool.
From RV Require Import Gate.GateModel Gate.GateProofs.
Import ListNotations.
Local Open Scope N_scope.

(* For every link l and publisher p (root gate or clone), on every schedule, the
   sequence numbers handed to l (queued to its channel / passed to its direct
   target) by p are strictly increasing: nothing twice, nothing out of order -
   whatever other links, clones and publishers do concurrently, INCLUDING links
   that give up on connect() half-way ([AAbandon]: before the gate got to their
   Subscribe, or after it answered and before the answer was picked up) and
   connect again, with the gate lagging behind by any number of commands. *)
Theorem C08_at_most_once_in_order : forall cf tr l p,
  cf_follow cf = false -> cf_guard cf = true ->
  strictly_desc (lseqs_of l p (delivered (run cf tr))).
Proof. exact at_most_once_in_order. Qed.
Print Assumptions C08_at_most_once_in_order.

(* The pinned code does not have this property: a clone that replays
   FollowSubscribe late resurrects a slot the root already removed. *)
Theorem C08_follow_replay_refuted :
  exists cf tr l p, cf_follow cf = true /\ ~ strictly_desc (lseqs_of l p (delivered (run cf tr))).
Proof. exact follow_replay_refuted. Qed.
Print Assumptions C08_follow_replay_refuted.

(* Link::connect as it was: the connect() future is dropped after the gate answered and before
   the answer was picked up; the slot named in the lost answer stays in the gate. The component
   connects again and gets every update twice. Reproduced on the real code by `b 1;c 1;u 0`. *)
Theorem C08_lost_answer_refuted :
  exists cf tr l p, cf_follow cf = false /\ cf_guard cf = false /\
    ~ strictly_desc (lseqs_of l p (delivered (run cf tr))).
Proof. exact lost_answer_refuted. Qed.
Print Assumptions C08_lost_answer_refuted.

(* No orphan slot. On every schedule - connects abandoned early or late, a lagging gate - every
   slot in `updates` or `suspended` belongs to a link that holds it (its connect() returned that
   slot, or the answer naming it waits in the oneshot), or the Unsubscribe for it is already
   queued at the gate. In particular the slot the gate inserts for a Subscribe whose requester is
   gone does not survive the handling of that command. *)
Theorem C08_no_orphan_slot : forall cf tr x l,
  cf_follow cf = false -> cf_guard cf = true ->
  In (x, l) (upd (run cf tr) ++ sus (run cf tr)) ->
  holds_slot (links (run cf tr) l) x \/ In (CUnsub x) (rootq (run cf tr)).
Proof. exact no_orphan_slot. Qed.
Print Assumptions C08_no_orphan_slot.

(* ... never two slots for one link (one queue, one direct-update target) ... *)
Theorem C08_one_slot_per_link : forall cf tr x1 x2 l,
  cf_follow cf = false -> cf_guard cf = true ->
  In (x1, l) (upd (run cf tr) ++ sus (run cf tr)) -> In (x2, l) (upd (run cf tr) ++ sus (run cf tr)) -> x1 = x2.
Proof. exact one_slot_per_link. Qed.
Print Assumptions C08_one_slot_per_link.

(* ... and a link that gave up and has nothing of its own on its way to the gate has no slot. *)
Theorem C08_idle_link_has_no_slot : forall cf tr x l,
  cf_follow cf = false -> cf_guard cf = true ->
  links (run cf tr) l = LIdle -> ~ In (CUnsub x) (rootq (run cf tr)) ->
  ~ In (x, l) (upd (run cf tr) ++ sus (run cf tr)).
Proof. exact idle_link_has_no_slot. Qed.
Print Assumptions C08_idle_link_has_no_slot.

(* What Gate::subscribe does for a requester that is gone - insert the slot, fail to answer,
   remove the slot - leaves both maps and every link as they were, whenever it happens. *)
Theorem C08_dead_subscribe_is_noop : forall cf tr l q,
  cf_follow cf = false -> cf_guard cf = true ->
  let s := run cf tr in
  rootq s = CSubDead l :: q -> rnote s = [] -> root_term s || root_dropped s = false ->
  upd (step cf s ARoot) = upd s /\ sus (step cf s ARoot) = sus s /\ links (step cf s ARoot) = links s /\
  rootq (step cf s ARoot) = q /\ rnote (step cf s ARoot) = [].
Proof. exact dead_subscribe_is_noop. Qed.
Print Assumptions C08_dead_subscribe_is_noop.

(* ... what does hold for the pinned code too (and for the repaired code): per gate SLOT. *)
Theorem C08_at_most_once_in_order_per_slot_partial : forall cf tr x p,
  strictly_desc (seqs_of x p (delivered (run cf tr))).
Proof. exact at_most_once_in_order_per_slot. Qed.
Print Assumptions C08_at_most_once_in_order_per_slot_partial.

(* Every finished update_data call reached every slot of the snapshot it took,
   unless the link behind the slot dropped its receiver (disconnected) meanwhile:
   back-pressure, not loss. *)
Theorem C08_finished_update_reached_snapshot : forall cf tr p n snap b e,
  In (p, n, snap, b) (completed (run cf tr)) -> In e snap ->
  In (fst e, snd e, p, n) (delivered (run cf tr)) \/ ch_rx (chans (run cf tr) (fst e)) = false.
Proof. exact finished_update_reached_snapshot. Qed.
Print Assumptions C08_finished_update_reached_snapshot.

(* A link that is connected through slot x and not suspended - in its OWN eyes, with no
   suspension request of its own still on its way to the gate - is in `updates`, so the next
   snapshot of any publisher contains it; no matter what other links and clones are doing. *)
Theorem C08_active_link_in_updates : forall cf tr l x,
  cf_follow cf = false -> cf_guard cf = true -> link_active (run cf tr) l x -> In (x, l) (upd (run cf tr)).
Proof. exact active_link_in_updates. Qed.
Print Assumptions C08_active_link_in_updates.

(* Exactly once while connected, at the level of schedules: if l is connected and unsuspended
   when publisher p starts its n-th update_data, then on EVERY continuation of the schedule,
   once that call has returned, n has been handed to l - unless l itself dropped its receiver
   (disconnected) meanwhile. With C08_at_most_once_in_order: exactly once, in order. *)
Theorem C08_exactly_once_while_connected : forall cf tr1 tr2 l x p n,
  cf_follow cf = false -> cf_guard cf = true ->
  link_active (run cf tr1) l x ->
  pubs (run cf tr1) p = PIdle n -> pub_alive (run cf tr1) p = true ->
  let s2 := run cf (tr1 ++ ABegin p :: tr2) in
  (exists m, pubs s2 p = PIdle m) ->
  In (x, l, p, n) (delivered s2) \/ ch_rx (chans s2 x) = false.
Proof. exact exactly_once_while_connected. Qed.
Print Assumptions C08_exactly_once_while_connected.

(* Termination reaches every publisher, late if need be. On every schedule: a live clone that
   was attached when the root took Terminate off its queue - even if the root is still INSIDE
   notify_clones(Terminate), waiting for room in some clone's full command queue (capacity
   COMMAND_QUEUE_LEN = 16: back-pressure, not loss) - or ANY live clone once the root gate has
   been dropped, gets Err(Terminated) from process(): [term_settle] = the clone the root waits
   for takes a command off its queue and the root goes on (once per send still to do), then
   clone c drains its command queue. *)
Theorem C08_terminate_reaches_clones : forall cf tr c,
  let s := run cf tr in
  c_alive (clones s c) = true ->
  (term_started s = true /\ c_att (clones s c) = true) \/ root_dropped s = true ->
  c_term (clones (term_settle cf s c) c) = true.
Proof. exact terminate_reaches_clones. Qed.
Print Assumptions C08_terminate_reaches_clones.

(* Terminate is never lost, on every schedule: once the root has taken it off its queue, a live
   attached clone has seen it, or has it in its command queue, or the root still has the send to
   that clone on its list (it is waiting, inside notify_clones); after the root's process() has
   returned Err(Terminated) only the first two remain. *)
Theorem C08_terminate_never_lost : forall cf tr c,
  let s := run cf tr in
  c_alive (clones s c) = true -> c_att (clones s c) = true -> term_started s = true ->
  c_term (clones s c) = true \/ In FTerm (c_q (clones s c)) \/
  (root_term s = false /\ In (NSend c FTerm) (rnote s)).
Proof. exact terminate_never_lost. Qed.
Print Assumptions C08_terminate_never_lost.

(* Why the schedule of C08_terminate_reaches_clones lets the clone the root waits for run: the
   sends of notify_clones are sequential (head-of-line blocking). A schedule exists after which
   the root has taken Terminate off its queue, clone 2 is live, attached and has drained its
   command queue, and - whatever the root and clone 2 do from there - clone 2 does not get
   Terminated, because clone 1 (16 commands pending, not running process()) is ahead of it.
   Reproduced on the real code by corpus case `k;k;c 0;c 1;d 0;d 1;...;D 2;T;u 1;D 2;F 1;u 2;D 1`. *)
Theorem C08_terminate_head_of_line :
  exists cf tr, let s := run cf tr in
    term_started s = true /\ c_alive (clones s 2) = true /\ c_att (clones s 2) = true /\ c_q (clones s 2) = [] /\
    length (c_q (clones s 1)) = 16%nat /\
    forall tr2, (forall a, In a tr2 -> a = ARoot \/ a = ACloneStep 2) ->
      c_term (clones (run_from cf s tr2) 2) = false.
Proof. exact terminate_head_of_line. Qed.
Print Assumptions C08_terminate_head_of_line.

(* A clone's command queue never holds more than COMMAND_QUEUE_LEN commands ... *)
Theorem C08_clone_queue_bounded : forall cf tr c,
  N.of_nat (length (c_q (clones (run cf tr) c))) <= cmd_queue_len.
Proof. exact clone_queue_bounded. Qed.
Print Assumptions C08_clone_queue_bounded.

(* ... and the root's process() waits inside notify_clones only for a LIVE clone whose queue is
   FULL (a dropped clone is skipped, a clone with room gets the command at once). *)
Theorem C08_root_waits_only_for_full_queue : forall cf tr c x rest,
  let s := run cf tr in
  root_term s = false -> root_dropped s = false -> rnote s = NSend c x :: rest ->
  step cf s ARoot = s ->
  c_alive (clones s c) = true /\ N.of_nat (length (c_q (clones s c))) = cmd_queue_len.
Proof. exact root_waits_only_for_full_queue. Qed.
Print Assumptions C08_root_waits_only_for_full_queue.

(* GateMetrics (shared by the root gate and its clones), on every schedule: num_updates is the
   number of update_data calls that have returned, num_dropped_updates the number of those that
   nobody took - no hand-over of that update to any link (queued to a live receiver /
   direct_update called on a live target) is in the log. *)
Theorem C08_gate_counters_count : forall cf tr,
  m_upd (run cf tr) = n_published (run cf tr) /\ m_drop (run cf tr) = n_dropped (run cf tr).
Proof. exact gate_counters_count. Qed.
Print Assumptions C08_gate_counters_count.

Theorem C08_gate_dropped_iff_nobody_took_it : forall cf tr p n sn b,
  In (p, n, sn, b) (completed (run cf tr)) ->
  (b = false <-> forall x l, ~ In (x, l, p, n) (delivered (run cf tr))).
Proof. exact gate_dropped_iff_nobody_took_it. Qed.
Print Assumptions C08_gate_dropped_iff_nobody_took_it.

(* the same count read off the schedule: the [AEnd p] steps that are enabled *)
Theorem C08_gate_num_updates_counts_trace : forall cf tr,
  m_upd (run cf tr) = N.of_nat (finished_in cf init tr).
Proof. exact gate_num_updates_counts_trace. Qed.
Print Assumptions C08_gate_num_updates_counts_trace.

Theorem C08_gate_counters_monotone : forall cf s a,
  m_upd s <= m_upd (step cf s a) /\ m_drop s <= m_drop (step cf s a).
Proof. exact gate_counters_monotone. Qed.
Print Assumptions C08_gate_counters_monotone.

Theorem C08_gate_dropped_le_published : forall cf tr, m_drop (run cf tr) <= m_upd (run cf tr).
Proof. exact gate_dropped_le_published. Qed.
Print Assumptions C08_gate_dropped_le_published.

(* non-vacuity: two publishers, a queue link and a direct link, an update in flight
   (blocked on the full queue) while the direct link re-subscribes; the direct link's target
   is dropped and the next update, which nobody takes, is counted as dropped *)
Example C08_example :
  let cf := MkCfg 1 false true in
  let tr := [AClone; ARoot; ASendSub 0; ARoot; ARoot; APick 0; ASendSub 1; ARoot; ARoot; APick 1;
             ABegin 0; ADeliver 0; ADeliver 0; AEnd 0;
             ABegin 1; ADeliver 1;            (* blocked: queue of link 0 is full *)
             ASendUnsub 1; ARoot; ARoot; ASendSub 1; ARoot; ARoot; APick 1;
             ARecv 0; ADeliver 1; ADeliver 1; AEnd 1;
             ARecv 0; ABegin 0; ADeliver 0; ADeliver 0; AEnd 0] in
  lseqs_of 1 0 (delivered (run cf tr)) = [1; 0] /\ lseqs_of 1 1 (delivered (run cf tr)) = [0] /\
  lseqs_of 0 0 (delivered (run cf tr)) = [1; 0] /\ length (completed (run cf tr)) = 3%nat /\
  upd (run cf tr) = [(0, 0); (2, 1)] /\
  link_active (run cf tr) 1 2 /\ pubs (run cf tr) 0 = PIdle 2 /\ pub_alive (run cf tr) 1 = true /\
  (m_upd (run cf tr), m_drop (run cf tr)) = (3, 0) /\
  (let s := run cf (tr ++ [ASendUnsub 0; ARoot; ARoot; ARxDrop 2; ABegin 0; ADeliver 0; AEnd 0]) in
   (m_upd s, m_drop s) = (4, 1)) /\
  (let s := run cf (tr ++ [ASendTerm; ARoot; ARoot; ARoot]) in
   root_term s = true /\ c_alive (clones s 1) = true /\ c_att (clones s 1) = true /\ c_term (clones s 1) = false).
Proof. vm_compute. repeat split; reflexivity. Qed.

(* non-vacuity of Terminate under back-pressure: clone 1 does not run process() while a link
   connects and disconnects 8 times (16 Follow* commands: its queue is full), clone 2 is
   attached after it. Terminate: the root waits inside notify_clones for clone 1; nobody has
   seen Terminated, clone 2 - behind clone 1 on the root's list - cannot get it by draining its
   own queue; once clone 1 takes a command the sends go through and both clones get it. *)
Example C08_example_full_queue :
  let cf := MkCfg 2 false true in
  let churn := [ASendSub 1; ARoot; ARoot; ARoot; APick 1; ASendUnsub 1; ARoot; ARoot; ARoot] in
  let tr := [AClone; ARoot; AClone; ARoot] ++ churn ++ churn ++ churn ++ churn ++ churn ++ churn ++ churn ++ churn
            ++ [ACloneStep 2; ACloneStep 2; ACloneStep 2; ACloneStep 2; ASendTerm; ARoot; ARoot; ARoot] in
  let s := run cf tr in
  length (c_q (clones s 1)) = 16%nat /\ length (c_q (clones s 2)) = 12%nat /\
  term_started s = true /\ root_term s = false /\
  rnote s = [NSend 1 FTerm; NSend 2 FTerm; NFinTerm] /\ step cf s ARoot = s /\
  c_term (clones (clone_drain cf 20 s 2) 2) = false /\
  c_term (clones (term_settle cf s 1) 1) = true /\ c_term (clones (term_settle cf s 2) 2) = true /\
  root_term (term_settle cf s 2) = true.
Proof. vm_compute. repeat split; reflexivity. Qed.

(* non-vacuity of the abandoned connects: direct link 1 gives up before the gate got to its
   Subscribe and tries again at once (the gate lags: both commands are queued, the first one with
   nobody waiting for its answer); the gate catches up and answers the second try; the link gives
   up again, without picking the answer up, and connects a third time. Three slots were handed
   out, one is left, link 1 holds it, and the update reaches link 1 once. With Link::connect as it
   was the same schedule leaves two slots for one target, which gets the update twice. *)
Example C08_example_abandoned :
  let tr := [ASendSub 1; AAbandon 1; ASendSub 1] in
  let tr2 := tr ++ [ARoot; ARoot; AAbandon 1; ASendSub 1; ARoot; ARoot; APick 1; ABegin 0; ADeliver 0; ADeliver 0; AEnd 0] in
  let s := run (MkCfg 2 false true) tr2 in
  rootq (run (MkCfg 2 false true) tr) = [CSubDead 1; CSub 1] /\
  upd s = [(2, 1)] /\ nslot s = 3 /\ links s 1 = LConn 2 false /\ rootq s = [] /\
  lseqs_of 1 0 (delivered s) = [0] /\
  upd (run (MkCfg 2 false false) tr2) = [(1, 1); (2, 1)] /\
  lseqs_of 1 0 (delivered (run (MkCfg 2 false false) tr2)) = [0; 0].
Proof. vm_compute. repeat split; reflexivity. Qed.

(* ---- the root gate's bounded command channel (16 places) and `impl Drop for Link` (GateModel.v bst / bstep):
   every sender of a command waits for room; the FIFO of the gate model is the channel followed by the waiting
   senders, first-come first-served ---- *)

(* all schedules: the channel never holds more than COMMAND_QUEUE_LEN commands, and they are the head of the FIFO *)
Theorem C08_root_channel_bounded : forall cf tr,
  (b_in (brun cf tr) <= N.to_nat cmd_queue_len)%nat /\
  (b_in (brun cf tr) <= length (rootq (b_st (brun cf tr))))%nat.
Proof. exact root_channel_bounded. Qed.
Print Assumptions C08_root_channel_bounded.

(* every schedule of the bounded gate in which senders wait (the code as it is) is a schedule of the gate model *)
Theorem C08_bounded_gate_refines : forall cf tr, waits_only tr = true ->
  exists tr', b_st (brun cf tr) = run cf tr'.
Proof. exact bounded_gate_refines. Qed.
Print Assumptions C08_bounded_gate_refines.

(* dropping a connected link, whatever the fill of the channel at that moment: the link is idle at once, the
   Unsubscribe of its slot is at the end of the FIFO - in the hands of a waiting sender if there was no room -
   and everything that was on the FIFO is still there, in order *)
Theorem C08_drop_link_unsubscribe_in_flight : forall cf b l x sb,
  (b_in b <= length (rootq (b_st b)))%nat /\ (b_in b <= qcap)%nat -> links (b_st b) l = LConn x sb ->
  let b' := bstep cf b (BDropLink l) in
  links (b_st b') l = LIdle /\
  rootq (b_st b') = rootq (b_st b) ++ [CUnsub x] /\
  (b_room b = false -> b_in b' = b_in b /\ b_waiting b' = b_waiting b ++ [CUnsub x]).
Proof. exact drop_link_unsubscribe_in_flight. Qed.
Print Assumptions C08_drop_link_unsubscribe_in_flight.

(* all schedules (links dropped at any fill of the channel): a dropped link's slot is always given back - as
   long as the slot is in the gate's maps its link holds it or its Unsubscribe is in the channel / with a
   waiting sender; once the root has worked off the FIFO the idle link has no slot *)
Theorem C08_dropped_link_slot_given_back : forall cf tr x l,
  cf_follow cf = false -> cf_guard cf = true -> waits_only tr = true ->
  In (x, l) (upd (b_st (brun cf tr)) ++ sus (b_st (brun cf tr))) ->
  holds_slot (links (b_st (brun cf tr)) l) x \/
  In (CUnsub x) (b_channel (brun cf tr) ++ b_waiting (brun cf tr)).
Proof. exact dropped_link_slot_given_back. Qed.
Print Assumptions C08_dropped_link_slot_given_back.

Theorem C08_dropped_link_has_no_slot_when_drained : forall cf tr x l,
  cf_follow cf = false -> cf_guard cf = true -> waits_only tr = true ->
  links (b_st (brun cf tr)) l = LIdle -> rootq (b_st (brun cf tr)) = [] ->
  ~ In (x, l) (upd (b_st (brun cf tr)) ++ sus (b_st (brun cf tr))).
Proof. exact dropped_link_has_no_slot_when_drained. Qed.
Print Assumptions C08_dropped_link_has_no_slot_when_drained.

(* all schedules: a component that drops its link and links again - at once, while its Unsubscribe still waits -
   never has two slots, and gets every update at most once and in order *)
Theorem C08_relinked_target_one_slot : forall cf tr x1 x2 l,
  cf_follow cf = false -> cf_guard cf = true -> waits_only tr = true ->
  In (x1, l) (upd (b_st (brun cf tr)) ++ sus (b_st (brun cf tr))) ->
  In (x2, l) (upd (b_st (brun cf tr)) ++ sus (b_st (brun cf tr))) -> x1 = x2.
Proof. exact bounded_one_slot_per_link. Qed.
Print Assumptions C08_relinked_target_one_slot.

Theorem C08_at_most_once_in_order_bounded : forall cf tr l p,
  cf_follow cf = false -> cf_guard cf = true -> waits_only tr = true ->
  strictly_desc (lseqs_of l p (delivered (b_st (brun cf tr)))).
Proof. exact bounded_at_most_once_in_order. Qed.
Print Assumptions C08_at_most_once_in_order_bounded.

(* the variant in which Drop for Link uses try_send (seeded change C08-c2): 16 commands in the channel, the
   link is dropped, its component links again, the gate works off its commands, one update: the old slot is
   still there and the update is handed over twice *)
Theorem C08_drop_try_send_refuted :
  let cf := MkCfg 2 false true in
  let tr := b_relink_schedule (BDropLinkTry 1) in
  b_in (brun cf (firstn 38 tr)) = 16%nat /\ nth_error tr 38 = Some (BDropLinkTry 1) /\
  upd (b_st (brun cf tr)) = [(0, 1); (17, 1)] /\ rootq (b_st (brun cf tr)) = [] /\
  lseqs_of 1 0 (delivered (b_st (brun cf tr))) = [1; 1; 0] /\
  ~ strictly_desc (lseqs_of 1 0 (delivered (b_st (brun cf tr)))).
Proof. exact drop_try_send_refuted. Qed.
Print Assumptions C08_drop_try_send_refuted.

(* the same schedule with the Unsubscribe waiting for room: handled before the new Subscribe, one slot, once *)
Example C08_example_drop_waits :
  let cf := MkCfg 2 false true in
  let tr := b_relink_schedule (BDropLink 1) in
  waits_only tr = true /\
  b_in (brun cf (firstn 39 tr)) = 16%nat /\ b_waiting (brun cf (firstn 39 tr)) = [CUnsub 0] /\
  upd (b_st (brun cf tr)) = [(17, 1)] /\ rootq (b_st (brun cf tr)) = [] /\
  lseqs_of 1 0 (delivered (b_st (brun cf tr))) = [1; 0].
Proof. exact drop_waits_example. Qed.
