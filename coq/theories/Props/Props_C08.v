(* C08 — A connected link receives every gate update exactly once and in order.
   Statements only; every proof is [exact <lemma>].

   [run cf tr] executes the schedule [tr] (ANY list of atomic actions of links,
   root gate, clones and publishers: GateModel.action) from the initial state;
   actions that are not enabled are no-ops, so "forall tr" is "for all
   interleavings". [cf_follow cf = false] is the gate after the repair
   (`fix:` commit in rotonda), [true] the code at the pinned commit. *)
From Coq Require Import List NArith Bool.
From RV Require Import Gate.GateModel Gate.GateProofs.
Import ListNotations.
Local Open Scope N_scope.

(* For every link l and publisher p (root gate or clone), on every schedule, the
   sequence numbers handed to l (queued to its channel / passed to its direct
   target) by p are strictly increasing: nothing twice, nothing out of order -
   whatever other links, clones and publishers do concurrently. *)
Theorem C08_at_most_once_in_order : forall cf tr l p,
  cf_follow cf = false ->
  strictly_desc (lseqs_of l p (delivered (run cf tr))).
Proof. exact at_most_once_in_order. Qed.
Print Assumptions C08_at_most_once_in_order.

(* The pinned code does not have this property: a clone that replays
   FollowSubscribe late resurrects a slot the root already removed. *)
Theorem C08_follow_replay_refuted :
  exists cf tr l p, cf_follow cf = true /\ ~ strictly_desc (lseqs_of l p (delivered (run cf tr))).
Proof. exact follow_replay_refuted. Qed.
Print Assumptions C08_follow_replay_refuted.

(* ... what does hold for it (and for the repaired code): per gate SLOT. *)
Theorem C08_at_most_once_in_order_per_slot_partial : forall cf tr x p,
  strictly_desc (seqs_of x p (delivered (run cf tr))).
Proof. exact at_most_once_in_order_per_slot. Qed.
Print Assumptions C08_at_most_once_in_order_per_slot_partial.

(* Every finished update_data call reached every slot of the snapshot it took,
   unless the link behind the slot dropped its receiver (disconnected) meanwhile:
   back-pressure, not loss. *)
Theorem C08_finished_update_reached_snapshot : forall cf tr p n snap b e,
  In (p, n, snap, b) (completed (run cf tr)) -> In e snap ->
  In (fst e, snd e, p, n) (delivered (run cf tr)) \/ ch_rx (chans (run cf tr) (fst e)) = false.
Proof. exact finished_update_reached_snapshot. Qed.
Print Assumptions C08_finished_update_reached_snapshot.

(* non-vacuity: two publishers, a queue link and a direct link, an update in flight
   (blocked on the full queue) while the direct link re-subscribes *)
Example C08_example :
  let cf := MkCfg 1 false in
  let tr := [AClone; ARoot; ASendSub 0; ARoot; ASendSub 1; ARoot;
             ABegin 0; ADeliver 0; ADeliver 0; AEnd 0;
             ABegin 1; ADeliver 1;            (* blocked: queue of link 0 is full *)
             ASendUnsub 1; ARoot; ASendSub 1; ARoot;
             ARecv 0; ADeliver 1; ADeliver 1; AEnd 1;
             ARecv 0; ABegin 0; ADeliver 0; ADeliver 0; AEnd 0] in
  lseqs_of 1 0 (delivered (run cf tr)) = [1; 0] /\ lseqs_of 1 1 (delivered (run cf tr)) = [0] /\
  lseqs_of 0 0 (delivered (run cf tr)) = [1; 0] /\ length (completed (run cf tr)) = 3%nat /\
  upd (run cf tr) = [(0, 0); (2, 1)].
Proof. vm_compute. repeat split; reflexivity. Qed.
