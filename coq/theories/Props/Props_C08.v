(* C08 — A connected link receives every gate update exactly once and in order.
   Statements only; every proof is [exact <lemma>].

   [run cf tr] executes the schedule [tr] (ANY list of atomic actions of links,
   root gate, clones and publishers: GateModel.action) from the initial state;
   actions that are not enabled are no-ops, so "forall tr" is "for all
   interleavings". [cf_follow cf = false] is the gate after the repair
   (`fix:` commit in rotonda), [true] the code at the pinned commit. *)
From Coq Require Import List NArith Bool.
From RV Require Import Gate.GateModel Gate.GateProofs.
Import ListNotations.
Local Open Scope N_scope.

(* For every link l and publisher p (root gate or clone), on every schedule, the
   sequence numbers handed to l (queued to its channel / passed to its direct
   target) by p are strictly increasing: nothing twice, nothing out of order -
   whatever other links, clones and publishers do concurrently. *)
Theorem C08_at_most_once_in_order : forall cf tr l p,
  cf_follow cf = false ->
  strictly_desc (lseqs_of l p (delivered (run cf tr))).
Proof. exact at_most_once_in_order. Qed.
Print Assumptions C08_at_most_once_in_order.

(* The pinned code does not have this property: a clone that replays
   FollowSubscribe late resurrects a slot the root already removed. *)
Theorem C08_follow_replay_refuted :
  exists cf tr l p, cf_follow cf = true /\ ~ strictly_desc (lseqs_of l p (delivered (run cf tr))).
Proof. exact follow_replay_refuted. Qed.
Print Assumptions C08_follow_replay_refuted.

(* ... what does hold for it (and for the repaired code): per gate SLOT. *)
Theorem C08_at_most_once_in_order_per_slot_partial : forall cf tr x p,
  strictly_desc (seqs_of x p (delivered (run cf tr))).
Proof. exact at_most_once_in_order_per_slot. Qed.
Print Assumptions C08_at_most_once_in_order_per_slot_partial.

(* Every finished update_data call reached every slot of the snapshot it took,
   unless the link behind the slot dropped its receiver (disconnected) meanwhile:
   back-pressure, not loss. *)
Theorem C08_finished_update_reached_snapshot : forall cf tr p n snap b e,
  In (p, n, snap, b) (completed (run cf tr)) -> In e snap ->
  In (fst e, snd e, p, n) (delivered (run cf tr)) \/ ch_rx (chans (run cf tr) (fst e)) = false.
Proof. exact finished_update_reached_snapshot. Qed.
Print Assumptions C08_finished_update_reached_snapshot.

(* A link that is connected through slot x and not suspended - in its OWN eyes, with no
   suspension request of its own still on its way to the gate - is in `updates`, so the next
   snapshot of any publisher contains it; no matter what other links and clones are doing. *)
Theorem C08_active_link_in_updates : forall cf tr l x,
  cf_follow cf = false -> link_active (run cf tr) l x -> In (x, l) (upd (run cf tr)).
Proof. exact active_link_in_updates. Qed.
Print Assumptions C08_active_link_in_updates.

(* Exactly once while connected, at the level of schedules: if l is connected and unsuspended
   when publisher p starts its n-th update_data, then on EVERY continuation of the schedule,
   once that call has returned, n has been handed to l - unless l itself dropped its receiver
   (disconnected) meanwhile. With C08_at_most_once_in_order: exactly once, in order. *)
Theorem C08_exactly_once_while_connected : forall cf tr1 tr2 l x p n,
  cf_follow cf = false ->
  link_active (run cf tr1) l x ->
  pubs (run cf tr1) p = PIdle n -> pub_alive (run cf tr1) p = true ->
  let s2 := run cf (tr1 ++ ABegin p :: tr2) in
  (exists m, pubs s2 p = PIdle m) ->
  In (x, l, p, n) (delivered s2) \/ ch_rx (chans s2 x) = false.
Proof. exact exactly_once_while_connected. Qed.
Print Assumptions C08_exactly_once_while_connected.

(* Termination reaches every publisher: on every schedule, a live clone that was attached
   when the root handled Terminate - or ANY live clone once the root gate has been dropped -
   gets Err(Terminated) from process() by the time it has drained its command queue. *)
Theorem C08_terminate_reaches_clones : forall cf tr c,
  let s := run cf tr in
  c_alive (clones s c) = true ->
  (root_term s = true /\ c_att (clones s c) = true) \/ root_dropped s = true ->
  c_term (clones (clone_drain cf (S (length (c_q (clones s c)))) s c) c) = true.
Proof. exact terminate_reaches_clones. Qed.
Print Assumptions C08_terminate_reaches_clones.

(* non-vacuity: two publishers, a queue link and a direct link, an update in flight
   (blocked on the full queue) while the direct link re-subscribes *)
Example C08_example :
  let cf := MkCfg 1 false in
  let tr := [AClone; ARoot; ASendSub 0; ARoot; ASendSub 1; ARoot;
             ABegin 0; ADeliver 0; ADeliver 0; AEnd 0;
             ABegin 1; ADeliver 1;            (* blocked: queue of link 0 is full *)
             ASendUnsub 1; ARoot; ASendSub 1; ARoot;
             ARecv 0; ADeliver 1; ADeliver 1; AEnd 1;
             ARecv 0; ABegin 0; ADeliver 0; ADeliver 0; AEnd 0] in
  lseqs_of 1 0 (delivered (run cf tr)) = [1; 0] /\ lseqs_of 1 1 (delivered (run cf tr)) = [0] /\
  lseqs_of 0 0 (delivered (run cf tr)) = [1; 0] /\ length (completed (run cf tr)) = 3%nat /\
  upd (run cf tr) = [(0, 0); (2, 1)] /\
  link_active (run cf tr) 1 2 /\ pubs (run cf tr) 0 = PIdle 2 /\ pub_alive (run cf tr) 1 = true /\
  (let s := run cf (tr ++ [ASendTerm; ARoot]) in
   root_term s = true /\ c_alive (clones s 1) = true /\ c_att (clones s 1) = true /\ c_term (clones s 1) = false).
Proof. vm_compute. repeat split; reflexivity. Qed.
