(* C18 — The shared copy-on-write map behaves like a sequential map under
   concurrency. Statements only; every proof is [exact <lemma>].

   [run cv init progs sched]: the FrimMap starts with contents [init];
   thread t executes the calls [progs !! t] in order; [sched] is ANY list of
   thread numbers, each entry lets that thread take one step (a load, a store,
   or one compare-and-swap attempt of ArcSwap::rcu). No bound on the number of
   threads, on the programs, on the key space or on the schedule.
   The calls are ALL public operations of FrimMap: insert, remove, retain,
   replace, get, contains_key, len, is_empty, guard().iter() and
   entry(k).or_insert_with(f) (FEntry k v, v = what f returns).
   [VFixed] is the code that exists (remove() with its result variable reset
   inside the rcu closure); [VAsWas] is remove() as it was before the repair;
   [VAppend] is a variant that fills a vacant entry by appending to the copied
   vector without filtering the key out (refuted below). *)
From stdpp Require Import gmap.
From Coq Require Import NArith.
From RV Require Import Frim.FrimModel Frim.FrimProofs.

(* Linearizability. For every interleaving, the calls ordered by the access at
   which they took effect (ELin) form a legal history of a sequential finite
   map (gmap) — every call returned what the sequential map returns at that
   point, and the map's final contents are the contents of the shared vector —
   the keys of the vector stay distinct (at most one entry per key, whatever the
   schedule), and in every thread's part of the log each call's ELin lies
   between its ECall and its ERet, which carries the same result (calls in
   program order; [thread_log_ok], [call_ok]).
   entry(k).or_insert_with(|| v) is the one call that is NOT a single atomic
   step, and the theorem says exactly what it is instead ([call_ok]): either
   one lookup that found v0, which is returned (occupied), or a lookup that
   found nothing and LATER an insert(k, v) of its own value, which is returned
   (vacant) - both between its call and its return, other calls may take effect
   in between. So: the default function may run in several tasks for one key,
   each of them gets its own value back, the map holds the key once, with the
   value of the insert that took effect last (C18_entry_cas_effect,
   C18_entry_race). *)
Theorem C18_linearizable : forall (init : fvec) (progs : list (list fop)) (sched : list nat),
  NoDup init.*1 -> Forall (Forall op_wf) progs ->
  let s := run VFixed init progs sched in
  fm_legal (lin_hist (g_log s)) (fv_abs init) (fv_abs (g_cur s)) /\
  NoDup (g_cur s).*1 /\
  forall t prog, progs !! t = Some prog -> thread_log_ok t prog (thread_log t (g_log s)).
Proof. exact linearizable_all. Qed.
Print Assumptions C18_linearizable.

(* The same at the level of the code's own vector functions, without any
   hypothesis: the linearisation replays exactly on the vector. *)
Theorem C18_linearizable_vec : forall init progs sched,
  fv_legal (lin_hist (g_log (run VFixed init progs sched))) init (g_cur (run VFixed init progs sched)).
Proof. exact linearizable_vec. Qed.
Print Assumptions C18_linearizable_vec.

(* An iteration sees one consistent snapshot: what guard().iter() yields is,
   as a map, exactly the state of the sequential map after the calls that took
   effect before guard() did — whatever other threads do while it iterates. *)
Theorem C18_iteration_snapshot : forall init progs sched l1 t r l2,
  NoDup init.*1 -> Forall (Forall op_wf) progs ->
  g_log (run VFixed init progs sched) = l1 ++ ELin t FIter r :: l2 ->
  exists snap, r = RList snap /\ NoDup snap.*1 /\
    fm_legal (lin_hist l1) (fv_abs init) (fv_abs snap).
Proof. exact iteration_snapshot. Qed.
Print Assumptions C18_iteration_snapshot.

(* An entry that is removed is handed to exactly one remover: in any stretch
   of the linearisation, the removes of key k that returned a value exceed the
   calls that (re)introduce k by at most one. *)
Theorem C18_remove_unique_owner : forall init progs sched k h1 h2 h3,
  NoDup init.*1 -> Forall (Forall op_wf) progs ->
  lin_hist (g_log (run VFixed init progs sched)) = h1 ++ h2 ++ h3 ->
  (count_if (takes_key k) h2 <= 1 + count_if (adds_key k) h2)%nat.
Proof. exact remove_unique_owner. Qed.
Print Assumptions C18_remove_unique_owner.

(* remove() as originally written (result variable outside the closure) is NOT
   linearizable: on a 7-step schedule of three threads both removers of the one
   entry get Some(7), and no reordering of the calls is a legal map history. *)
Theorem C18_double_remove_refuted :
  let s := run VAsWas [] bad_progs bad_sched in
  thread_rets 1 (g_log s) = [ROpt (Some 7%N)] /\
  thread_rets 2 (g_log s) = [ROpt (Some 7%N)] /\
  forallb (thread_done s) [0; 1; 2]%nat = true /\
  forall h e, h ≡ₚ lin_hist (g_log s) -> ~ fm_legal h ∅ e.
Proof. exact double_remove_refuted. Qed.
Print Assumptions C18_double_remove_refuted.

(* One thread alone: any sequence of calls behaves like the sequential map. *)
Theorem C18_sequential : forall (ops : list fop) (l : fvec),
  NoDup l.*1 -> Forall op_wf ops ->
  fm_legal (zip ops (snd (fv_run ops l))) (fv_abs l) (fv_abs (fst (fv_run ops l))) /\
  NoDup (fst (fv_run ops l)).*1.
Proof. exact sequential_refines. Qed.
Print Assumptions C18_sequential.

(* The correspondence runs use [full_run] (the case's schedule, then every
   thread to completion); that is a [run] of a longer schedule, so the theorems
   above cover it. *)
Theorem C18_full_run_is_run : forall cv init progs sched,
  exists sched', full_run cv init progs sched = run cv init progs sched'.
Proof. exact full_run_is_run. Qed.
Print Assumptions C18_full_run_is_run.

(* Progress without interference: from ANY state, a thread that is scheduled
   three times in a row completes its current call (the retry after its own
   failed compare-and-swap works on the current vector; an entry call on a
   vacant key is a lookup, insert's load, insert's compare-and-swap). *)
Theorem C18_solo_progress : forall cv s t o rest p,
  g_thr s !! t = Some (MkThread (o :: rest) p) ->
  g_thr (step cv s t) !! t = Some (MkThread rest PIdle) \/
  g_thr (step cv (step cv s t) t) !! t = Some (MkThread rest PIdle) \/
  g_thr (step cv (step cv (step cv s t) t) t) !! t = Some (MkThread rest PIdle).
Proof. exact solo_progress. Qed.
Print Assumptions C18_solo_progress.

(* entry(k).or_insert_with(|| v), the insert of a vacant entry call at its
   compare-and-swap, compared with an atomic "get, else insert" at that point:
   identical if the key is still absent; if another task has filled the key in
   since the lookup, the insert replaces that value by its own - the later
   writer wins - where the atomic call would have kept and returned it. The
   CONTENT is a map with one entry for the key in both cases. *)
Theorem C18_entry_cas_effect : forall k v (m : gmap N N),
  (m !! k = None ->
     fm_next (FIns k v) m = fm_next (FEntry k v) m /\ fm_ret_ok (FEntry k v) m (RVal v)) /\
  (forall v1, m !! k = Some v1 ->
     fm_next (FIns k v) m = <[k := v]> m /\ fm_next (FEntry k v) m = m /\
     fm_ret_ok (FEntry k v) m (RVal v1)).
Proof. exact entry_cas_effect. Qed.
Print Assumptions C18_entry_cas_effect.

(* One thread alone: entry(k).or_insert_with(|| v) is its parts back to back. *)
Theorem C18_entry_parts_sequential : forall k v (l : fvec),
  fv_apply (FEntry k v) l =
  match fv_find k l with
  | Some v0 => (l, RVal v0)
  | None => (fst (fv_apply (FIns k v) (fst (fv_apply (FGet k) l))), RVal v)
  end.
Proof. exact entry_parts_sequential. Qed.
Print Assumptions C18_entry_parts_sequential.

(* The race itself on the code that exists: two tasks ask for the entry of the
   same absent key before either writes (schedule 0 1 0 0 1 1). Both find it
   vacant, both get their own value back (7, 8), the vector holds the key once
   with the value of the later insert (8); a third task then sees len() = 1,
   remove(1) = Some 8, get(1) = None. *)
Theorem C18_entry_race :
  let s := run VFixed [] race_progs race_sched_all in
  g_cur (run VFixed [] race_progs race_sched) = [(1, 8)]%N /\
  thread_rets 0 (g_log s) = [RVal 7%N] /\
  thread_rets 1 (g_log s) = [RVal 8%N] /\
  thread_rets 2 (g_log s) = [RNum 1%N; ROpt (Some 8%N); ROpt None] /\
  forallb (thread_done s) [0; 1; 2]%nat = true /\
  g_cur s = [].
Proof. exact entry_race_fixed. Qed.
Print Assumptions C18_entry_race.

(* Filling a vacant entry by appending to the copied vector WITHOUT filtering
   the key out ("entry() has just seen that the key is absent") is NOT
   linearizable: on the same schedule the vector holds key 1 twice, the third
   task sees len() = 2, remove(1) = Some 7 and then get(1) = Some 8, and the
   calls in the order in which they took effect are a history of no sequential
   map. *)
Theorem C18_entry_append_refuted :
  let s := run VAppend [] race_progs race_sched_all in
  g_cur (run VAppend [] race_progs race_sched) = [(1, 7); (1, 8)]%N /\
  ~ NoDup (g_cur (run VAppend [] race_progs race_sched)).*1 /\
  thread_rets 2 (g_log s) = [RNum 2%N; ROpt (Some 7%N); ROpt (Some 8%N)] /\
  forallb (thread_done s) [0; 1; 2]%nat = true /\
  forall e, ~ fm_legal (lin_hist (g_log s)) ∅ e.
Proof. exact entry_append_refuted. Qed.
Print Assumptions C18_entry_append_refuted.

(* non-vacuity: the racing schedule on the repaired code; the hypotheses hold
   and the second remover gets None *)
Example C18_example :
  let progs := [[FIns 1 7; FRepl [(2, 5); (3, 6)]; FEntry 2 9; FEntry 4 9; FEmpty];
                [FRem 1; FIter]; [FRem 1; FRetain (fun k _ => N.leb k 2)]]%N in
  let s := full_run VFixed [] progs bad_sched in
  NoDup ([] : fvec).*1 /\ Forall (Forall op_wf) progs /\
  thread_rets 0 (g_log s) = [RUnit; RUnit; RVal 5; RVal 9; RBool false]%N /\
  thread_rets 1 (g_log s) = [ROpt None; RList [(2, 5); (3, 6); (4, 9)]]%N /\
  thread_rets 2 (g_log s) = [ROpt (Some 7); RUnit]%N /\
  g_cur s = [(2, 5)]%N.
Proof.
  split; [constructor|]. split.
  - repeat constructor; cbn; rewrite ?elem_of_cons, ?elem_of_nil; intuition discriminate.
  - vm_compute. repeat split; reflexivity.
Qed.
