(* C18 — The shared copy-on-write map behaves like a sequential map under
   concurrency. Statements only; every proof is [exact <lemma>].

   [run fixed init progs sched]: the FrimMap starts with contents [init];
   thread t executes the calls [progs !! t] in order; [sched] is ANY list of
   thread numbers, each entry lets that thread take one step (a load, a store,
   or one compare-and-swap attempt of ArcSwap::rcu). No bound on the number of
   threads, on the programs, on the key space or on the schedule.
   [fixed = true] is remove() with its result variable reset inside the rcu
   closure (the repaired code); [fixed = false] is the code as it was. *)
From stdpp Require Import gmap.
From Coq Require Import NArith.
From RV Require Import Frim.FrimModel Frim.FrimProofs.

(* Linearizability. For every interleaving, the calls ordered by the access at
   which they took effect (ELin) form a legal history of a sequential finite
   map (gmap) — every call returned what the sequential map returns at that
   point, and the map's final contents are the contents of the shared vector —
   the keys of the vector stay distinct, and in every thread's part of the log
   each call's ELin lies between its ECall and its ERet, which carries the same
   result (calls in program order). *)
Theorem C18_linearizable : forall (init : fvec) (progs : list (list fop)) (sched : list nat),
  NoDup init.*1 -> Forall (Forall op_wf) progs ->
  let s := run true init progs sched in
  fm_legal (lin_hist (g_log s)) (fv_abs init) (fv_abs (g_cur s)) /\
  NoDup (g_cur s).*1 /\
  forall t prog, progs !! t = Some prog -> thread_log_ok t prog (thread_log t (g_log s)).
Proof. exact linearizable_all. Qed.
Print Assumptions C18_linearizable.

(* The same at the level of the code's own vector functions, without any
   hypothesis: the linearisation replays exactly on the vector. *)
Theorem C18_linearizable_vec : forall init progs sched,
  fv_legal (lin_hist (g_log (run true init progs sched))) init (g_cur (run true init progs sched)).
Proof. exact linearizable_vec. Qed.
Print Assumptions C18_linearizable_vec.

(* An iteration sees one consistent snapshot: what guard().iter() yields is,
   as a map, exactly the state of the sequential map after the calls that took
   effect before guard() did — whatever other threads do while it iterates. *)
Theorem C18_iteration_snapshot : forall init progs sched l1 t r l2,
  NoDup init.*1 -> Forall (Forall op_wf) progs ->
  g_log (run true init progs sched) = l1 ++ ELin t FIter r :: l2 ->
  exists snap, r = RList snap /\ NoDup snap.*1 /\
    fm_legal (lin_hist l1) (fv_abs init) (fv_abs snap).
Proof. exact iteration_snapshot. Qed.
Print Assumptions C18_iteration_snapshot.

(* An entry that is removed is handed to exactly one remover: in any stretch
   of the linearisation, the removes of key k that returned a value exceed the
   calls that (re)introduce k by at most one. *)
Theorem C18_remove_unique_owner : forall init progs sched k h1 h2 h3,
  NoDup init.*1 -> Forall (Forall op_wf) progs ->
  lin_hist (g_log (run true init progs sched)) = h1 ++ h2 ++ h3 ->
  (count_if (takes_key k) h2 <= 1 + count_if (adds_key k) h2)%nat.
Proof. exact remove_unique_owner. Qed.
Print Assumptions C18_remove_unique_owner.

(* remove() as originally written (result variable outside the closure) is NOT
   linearizable: on a 7-step schedule of three threads both removers of the one
   entry get Some(7), and no reordering of the calls is a legal map history. *)
Theorem C18_double_remove_refuted :
  let s := run false [] bad_progs bad_sched in
  thread_rets 1 (g_log s) = [ROpt (Some 7%N)] /\
  thread_rets 2 (g_log s) = [ROpt (Some 7%N)] /\
  forallb (thread_done s) [0; 1; 2]%nat = true /\
  forall h e, h ≡ₚ lin_hist (g_log s) -> ~ fm_legal h ∅ e.
Proof. exact double_remove_refuted. Qed.
Print Assumptions C18_double_remove_refuted.

(* One thread alone: any sequence of calls behaves like the sequential map. *)
Theorem C18_sequential : forall (ops : list fop) (l : fvec),
  NoDup l.*1 -> Forall op_wf ops ->
  fm_legal (zip ops (snd (fv_run ops l))) (fv_abs l) (fv_abs (fst (fv_run ops l))) /\
  NoDup (fst (fv_run ops l)).*1.
Proof. exact sequential_refines. Qed.
Print Assumptions C18_sequential.

(* The correspondence runs use [full_run] (the case's schedule, then every
   thread to completion); that is a [run] of a longer schedule, so the theorems
   above cover it. *)
Theorem C18_full_run_is_run : forall fixed init progs sched,
  exists sched', full_run fixed init progs sched = run fixed init progs sched'.
Proof. exact full_run_is_run. Qed.
Print Assumptions C18_full_run_is_run.

(* Progress without interference: from ANY state, a thread that is scheduled
   twice in a row completes its current call (the retry after its own failed
   compare-and-swap works on the current vector). *)
Theorem C18_solo_progress : forall fixed s t o rest p,
  g_thr s !! t = Some (MkThread (o :: rest) p) ->
  g_thr (step fixed s t) !! t = Some (MkThread rest PIdle) \/
  g_thr (step fixed (step fixed s t) t) !! t = Some (MkThread rest PIdle).
Proof. exact solo_progress. Qed.
Print Assumptions C18_solo_progress.

(* non-vacuity: the racing schedule on the repaired code; the hypotheses hold
   and the second remover gets None *)
Example C18_example :
  let progs := [[FIns 1 7; FRepl [(2, 5); (3, 6)]]; [FRem 1; FIter]; [FRem 1; FRetain (fun k _ => N.leb k 2)]]%N in
  let s := full_run true [] progs bad_sched in
  NoDup ([] : fvec).*1 /\ Forall (Forall op_wf) progs /\
  thread_rets 1 (g_log s) = [ROpt None; RList [(2, 5); (3, 6)]]%N /\
  thread_rets 2 (g_log s) = [ROpt (Some 7); RUnit]%N /\
  g_cur s = [(2, 5)]%N.
Proof.
  split; [constructor|]. split.
  - repeat constructor; cbn; rewrite ?elem_of_cons, ?elem_of_nil; intuition discriminate.
  - vm_compute. repeat split; reflexivity.
Qed.
