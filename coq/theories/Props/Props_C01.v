(* C01 - RIB content equals the replay of every peer's announce/withdraw stream.
   RIB level: Rib/RibModel.v (rib_apply = RibUnitRunner::process_update + Rib::insert /
   withdraw_for_ingress / match_prefix); ingest: Bmp/BmpModel.v payloads_of. *)
From stdpp Require Import gmap.
From Coq Require Import NArith.
From RV Require Import Ingress.IngressModel Rib.RibModel Rib.RibProofs Bmp.BmpModel Bmp.BmpProofs Pipe.PipeModel Pipe.PipeProofs.

(* For EVERY history of updates reaching the RIB and every (family, prefix,
   source): what a query shows is the last event of that source for that prefix
   - active with the last announced attributes, or withdrawn still showing them -
   except that a session-wide withdrawal is sticky (that exception is exactly
   known finding C03-1, see Props_C03). *)
Theorem C01_rib_is_replay : forall us k,
  rib_lookup (rib_run us) k =
  match spec_lookup (evs_of us) k with
  | Some (s, a) => Some (s && negb (downed (evs_of us) k), a)
  | None => None
  end.
Proof. exact rib_lookup_spec. Qed.
Print Assumptions C01_rib_is_replay.

Theorem C01_rib_is_replay_partial : forall us k,
  known_c03 (evs_of us) k = false -> rib_lookup (rib_run us) k = spec_lookup (evs_of us) k.
Proof. exact rib_lookup_spec_exact. Qed.
Print Assumptions C01_rib_is_replay_partial.

(* the per-prefix listing has exactly one entry per source that has a record *)
Theorem C01_entries_exact : forall r fam pfx m s a,
  (m, s, a) ∈ rib_entries r fam pfx <-> rib_lookup r (fam, pfx, m) = Some (s, a).
Proof. exact elem_of_rib_entries. Qed.
Print Assumptions C01_entries_exact.

Theorem C01_one_entry_per_peer : forall r fam pfx,
  NoDup ((fun x : N * bool * N => x.1.1) <$> rib_entries r fam pfx).
Proof. exact rib_entries_nodup. Qed.
Print Assumptions C01_one_entry_per_peer.

(* a prefix listed both as withdrawn and as announced in one UPDATE ends up announced *)
Theorem C01_overlap_ends_announced : forall us id f ann a wf wd p,
  p ∈ ann ->
  spec_lookup (evs_of (us ++ [UBulk (payloads_of id (URoutes f ann a wf wd))])) (f, p, id) = Some (true, a).
Proof. exact overlap_ends_announced. Qed.
Print Assumptions C01_overlap_ends_announced.

(* an UPDATE that fails to parse changes nothing at all *)
Theorem C01_parse_failure_is_noop : forall r rid s p rb,
  apply_outcome rb (sm_step r rid s (MRoute p None)).2 = rb /\
  sm_phase (sm_step r rid s (MRoute p None)).1.2 = sm_phase s /\
  sm_peers (sm_step r rid s (MRoute p None)).1.2 = sm_peers s.
Proof. exact unparsable_route_noop. Qed.
Print Assumptions C01_parse_failure_is_noop.

(* one route changes no other (family, prefix, source) *)
Theorem C01_frame : forall r p k, k <> p_key p -> rib_lookup (rib_insert_payload r p) k = rib_lookup r k.
Proof. exact insert_payload_frame. Qed.
Print Assumptions C01_frame.

Example C01_example :
  let us := [UBulk (payloads_of 7 (URoutes 0 [1; 2] 3 0 []));
             UBulk (payloads_of 8 (URoutes 0 [1] 4 0 []));
             UBulk (payloads_of 7 (URoutes 0 [2] 5 0 [1; 2]))]%N in
  known_c03 (evs_of us) (0, 1, 7)%N = false /\
  rib_query (rib_run us) 0 1 = [(7, false, 3); (8, true, 4)]%N /\
  rib_query (rib_run us) 0 2 = [(7, true, 5)]%N.
Proof. vm_compute. repeat split; reflexivity. Qed.

(* ------------------------------------------------------------------ *)
(* End to end (Pipe/PipeCompose.v): the pipeline (BMP sessions, BGP sessions, ingress
   register, RIB = PipeModel.world) against the property's own reading (an ideal RIB
   keyed by wire identity = PipeModel.sworld), for EVERY history of operations.
   Premises: [disciplined] - BMP router keys stay below the range the wire-identity
   encoding reserves for BGP sessions; [fams_ok] - announcements name one of the four
   families the RIB has; the history is shorter than the u32 id counter; [NoShare] - no
   two wire identities were given one ingress id (excludes class K2 = known finding C02-1). *)
From RV Require Import Pipe.PipeCompose.

(* the pipeline's RIB is the run of the updates its steps report *)
Theorem C01_pipeline_updates : forall ops, w_rib (run_world ops).1 = rib_run (world_updates ops).
Proof. exact world_rib_is_run. Qed.
Print Assumptions C01_pipeline_updates.

(* the ideal RIB's entry of a wire identity = the last-event reading, at the id it was
   given, of the updates the pipeline applied *)
Theorem C01_pipeline_refines_ideal : forall ops x i f p,
  disciplined ops = true -> fams_ok ops = true -> (N.of_nat (length ops) < two32 - 2)%N ->
  NoShare (w_ids (run_world ops).1) ->
  id_of (w_ids (run_world ops).1) x = Some i ->
  s_rib (run_sworld ops).1 !! (f, p, x) = spec_lookup (evs_of (world_updates ops)) (f, p, i).
Proof. exact pipe_refines_ideal_all. Qed.
Print Assumptions C01_pipeline_refines_ideal.

(* sharper: only the identity asked about must be the sole owner of its id; any history
   (families unrestricted), keys of the four families *)
Theorem C01_pipeline_refines_ideal_sole : forall ops x i f p,
  disciplined ops = true -> (N.of_nat (length ops) < two32 - 2)%N -> (f < 4)%N ->
  id_of (w_ids (run_world ops).1) x = Some i -> sole (w_ids (run_world ops).1) x i ->
  s_rib (run_sworld ops).1 !! (f, p, x) = spec_lookup (evs_of (world_updates ops)) (f, p, i).
Proof. exact pipe_refines_ideal_sole. Qed.
Print Assumptions C01_pipeline_refines_ideal_sole.

(* companion: a wire identity that never got an id has no entry in the ideal RIB,
   and an id nobody was given has no route in the pipeline's RIB *)
Theorem C01_pipeline_no_id_no_entry : forall ops x f p,
  disciplined ops = true -> (N.of_nat (length ops) < two32 - 2)%N ->
  id_of (w_ids (run_world ops).1) x = None -> s_rib (run_sworld ops).1 !! (f, p, x) = None.
Proof. exact pipe_no_id_no_entry. Qed.
Print Assumptions C01_pipeline_no_id_no_entry.

Theorem C01_pipeline_no_owner_no_route : forall ops f p i,
  disciplined ops = true -> (N.of_nat (length ops) < two32 - 2)%N ->
  (forall x, id_of (w_ids (run_world ops).1) x <> Some i) ->
  rib_lookup (w_rib (run_world ops).1) (f, p, i) = None.
Proof. exact pipe_no_owner_no_route. Qed.
Print Assumptions C01_pipeline_no_owner_no_route.

(* the code's RIB shows for every wire identity exactly the property's answer, except that
   an entry whose (family, id) a session-wide withdrawal ever hit stays withdrawn
   (class K3 = known finding C03-1) *)
Theorem C01_pipeline_rib_answer : forall ops x i f p,
  disciplined ops = true -> fams_ok ops = true -> (N.of_nat (length ops) < two32 - 2)%N ->
  NoShare (w_ids (run_world ops).1) ->
  id_of (w_ids (run_world ops).1) x = Some i ->
  rib_lookup (w_rib (run_world ops).1) (f, p, i) =
  match s_rib (run_sworld ops).1 !! (f, p, x) with
  | Some (s, a) => Some (s && negb (downed (evs_of (world_updates ops)) (f, p, i)), a)
  | None => None
  end.
Proof. exact pipe_rib_answer_all. Qed.
Print Assumptions C01_pipeline_rib_answer.

(* a history with a BMP peer that flaps, a router that reconnects and a BGP session that
   reconnects meets every premise; the one place where the two RIBs differ is K3 *)
Example C01_pipeline_example :
  disciplined compose_example = true /\ fams_ok compose_example = true /\
  (N.of_nat (length compose_example) < two32 - 2)%N /\
  NoShare (w_ids (run_world compose_example).1) /\
  w_ids (run_world compose_example).1 = [((0, pA), 3); (bgp_wid 0 0, 4); (bgp_wid 0 1, 5)]%N /\
  s_rib (run_sworld compose_example).1 !! (0, 1, (0, pA))%N = Some (true, 6%N) /\
  rib_lookup (w_rib (run_world compose_example).1) (0, 1, 3)%N = Some (false, 6%N) /\
  s_rib (run_sworld compose_example).1 !! (0, 2, bgp_wid 0 1)%N = Some (true, 5%N) /\
  rib_lookup (w_rib (run_world compose_example).1) (0, 2, 5)%N = Some (true, 5%N).
Proof. exact compose_example_ok. Qed.
