(* C01 - RIB content equals the replay of every peer's announce/withdraw stream.
   RIB level: Rib/RibModel.v (rib_apply = RibUnitRunner::process_update + Rib::insert /
   withdraw_for_ingress / match_prefix); ingest: Bmp/BmpModel.v payloads_of. *)
From stdpp Require Import gmap.
From Coq Require Import NArith.
From RV Require Import Ingress.IngressModel Rib.RibModel Rib.RibProofs Bmp.BmpModel Bmp.BmpProofs Pipe.PipeModel Pipe.PipeProofs.

(* For EVERY history of updates reaching the RIB and every (family, prefix,
   source): what a query shows is the last event of that source for that prefix
   - active with the last announced attributes, or withdrawn still showing them -
   except that a session-wide withdrawal is sticky (that exception is exactly
   known finding C03-1, see Props_C03). *)
Theorem C01_rib_is_replay : forall us k,
  rib_lookup (rib_run us) k =
  match spec_lookup (evs_of us) k with
  | Some (s, a) => Some (s && negb (downed (evs_of us) k), a)
  | None => None
  end.
Proof. exact rib_lookup_spec. Qed.
Print Assumptions C01_rib_is_replay.

Theorem C01_rib_is_replay_partial : forall us k,
  known_c03 (evs_of us) k = false -> rib_lookup (rib_run us) k = spec_lookup (evs_of us) k.
Proof. exact rib_lookup_spec_exact. Qed.
Print Assumptions C01_rib_is_replay_partial.

(* the per-prefix listing has exactly one entry per source that has a record *)
Theorem C01_entries_exact : forall r fam pfx m s a,
  (m, s, a) ∈ rib_entries r fam pfx <-> rib_lookup r (fam, pfx, m) = Some (s, a).
Proof. exact elem_of_rib_entries. Qed.
Print Assumptions C01_entries_exact.

Theorem C01_one_entry_per_peer : forall r fam pfx,
  NoDup ((fun x : N * bool * N => x.1.1) <$> rib_entries r fam pfx).
Proof. exact rib_entries_nodup. Qed.
Print Assumptions C01_one_entry_per_peer.

(* a prefix listed both as withdrawn and as announced in one UPDATE ends up announced *)
Theorem C01_overlap_ends_announced : forall us id f ann a wf wd p,
  p ∈ ann ->
  spec_lookup (evs_of (us ++ [UBulk (payloads_of id (URoutes f ann a wf wd))])) (f, p, id) = Some (true, a).
Proof. exact overlap_ends_announced. Qed.
Print Assumptions C01_overlap_ends_announced.

(* an UPDATE that fails to parse changes nothing at all *)
Theorem C01_parse_failure_is_noop : forall r rid s p rb,
  apply_outcome rb (sm_step r rid s (MRoute p None)).2 = rb /\
  sm_phase (sm_step r rid s (MRoute p None)).1.2 = sm_phase s /\
  sm_peers (sm_step r rid s (MRoute p None)).1.2 = sm_peers s.
Proof. exact unparsable_route_noop. Qed.
Print Assumptions C01_parse_failure_is_noop.

(* one route changes no other (family, prefix, source) *)
Theorem C01_frame : forall r p k, k <> p_key p -> rib_lookup (rib_insert_payload r p) k = rib_lookup r k.
Proof. exact insert_payload_frame. Qed.
Print Assumptions C01_frame.

Example C01_example :
  let us := [UBulk (payloads_of 7 (URoutes 0 [1; 2] 3 0 []));
             UBulk (payloads_of 8 (URoutes 0 [1] 4 0 []));
             UBulk (payloads_of 7 (URoutes 0 [2] 5 0 [1; 2]))]%N in
  known_c03 (evs_of us) (0, 1, 7)%N = false /\
  rib_query (rib_run us) 0 1 = [(7, false, 3); (8, true, 4)]%N /\
  rib_query (rib_run us) 0 2 = [(7, true, 5)]%N.
Proof. vm_compute. repeat split; reflexivity. Qed.
