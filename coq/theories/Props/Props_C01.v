(* C01 - RIB content equals the replay of every peer's announce/withdraw stream.
   RIB level: Rib/RibModel.v (rib_apply = RibUnitRunner::process_update + Rib::insert /
   withdraw_for_ingress / match_prefix); ingest: Bmp/BmpModel.v payloads_of. *)
From stdpp Require Import gmap.
From Coq Require Import NArith.
From RV Require Import Ingress.IngressModel Rib.RibModel Rib.RibProofs Bmp.BmpModel Bmp.BmpProofs Pipe.PipeModel Pipe.PipeProofs.

(* For EVERY history of updates reaching the RIB and every (family, prefix,
   source): what a query shows is the last event of that source for that prefix
   - active with the last announced attributes, or withdrawn still showing them -
   except that a session-wide withdrawal is sticky (that exception is exactly
   known finding C03-1, see Props_C03). *)
Theorem C01_rib_is_replay : forall us k,
  rib_lookup (rib_run us) k =
  match spec_lookup (evs_of us) k with
  | Some (s, a) => Some (s && negb (downed (evs_of us) k), a)
  | None => None
  end.
Proof. exact rib_lookup_spec. Qed.
Print Assumptions C01_rib_is_replay.

Theorem C01_rib_is_replay_partial : forall us k,
  known_c03 (evs_of us) k = false -> rib_lookup (rib_run us) k = spec_lookup (evs_of us) k.
Proof. exact rib_lookup_spec_exact. Qed.
Print Assumptions C01_rib_is_replay_partial.

(* the per-prefix listing has exactly one entry per source that has a record *)
Theorem C01_entries_exact : forall r fam pfx m s a,
  (m, s, a) ∈ rib_entries r fam pfx <-> rib_lookup r (fam, pfx, m) = Some (s, a).
Proof. exact elem_of_rib_entries. Qed.
Print Assumptions C01_entries_exact.

Theorem C01_one_entry_per_peer : forall r fam pfx,
  NoDup ((fun x : N * bool * N => x.1.1) <$> rib_entries r fam pfx).
Proof. exact rib_entries_nodup. Qed.
Print Assumptions C01_one_entry_per_peer.

(* a prefix listed both as withdrawn and as announced in one UPDATE ends up announced *)
Theorem C01_overlap_ends_announced : forall us id f ann a wf wd p,
  p ∈ ann ->
  spec_lookup (evs_of (us ++ [UBulk (payloads_of id (URoutes f ann a wf wd))])) (f, p, id) = Some (true, a).
Proof. exact overlap_ends_announced. Qed.
Print Assumptions C01_overlap_ends_announced.

(* an UPDATE that fails to parse changes nothing at all *)
Theorem C01_parse_failure_is_noop : forall r rid s p rb,
  apply_outcome rb (sm_step r rid s (MRoute p None)).2 = rb /\
  sm_phase (sm_step r rid s (MRoute p None)).1.2 = sm_phase s /\
  sm_peers (sm_step r rid s (MRoute p None)).1.2 = sm_peers s.
Proof. exact unparsable_route_noop. Qed.
Print Assumptions C01_parse_failure_is_noop.

(* one route changes no other (family, prefix, source) *)
Theorem C01_frame : forall r p k, k <> p_key p -> rib_lookup (rib_insert_payload r p) k = rib_lookup r k.
Proof. exact insert_payload_frame. Qed.
Print Assumptions C01_frame.

Example C01_example :
  let us := [UBulk (payloads_of 7 (URoutes 0 [1; 2] 3 0 []));
             UBulk (payloads_of 8 (URoutes 0 [1] 4 0 []));
             UBulk (payloads_of 7 (URoutes 0 [2] 5 0 [1; 2]))]%N in
  known_c03 (evs_of us) (0, 1, 7)%N = false /\
  rib_query (rib_run us) 0 1 = [(7, false, 3); (8, true, 4)]%N /\
  rib_query (rib_run us) 0 2 = [(7, true, 5)]%N.
Proof. vm_compute. repeat split; reflexivity. Qed.

(* ------------------------------------------------------------------ *)
(* End to end (Pipe/PipeCompose.v): the pipeline (BMP sessions, BGP sessions, ingress
   register, RIB = PipeModel.world) against the property's own reading (an ideal RIB
   keyed by wire identity = PipeModel.sworld), for EVERY history of operations.
   Premises: [disciplined] - BMP router keys stay below the range the wire-identity
   encoding reserves for BGP sessions; [fams_ok] - announcements name one of the four
   families the RIB has; the history is shorter than the u32 id counter; [NoShare] - no
   two wire identities were given one ingress id (excludes class K2 = known finding C02-1). *)
From RV Require Import Pipe.PipeCompose.

(* the pipeline's RIB is the run of the updates its steps report *)
Theorem C01_pipeline_updates : forall ops, w_rib (run_world ops).1 = rib_run (world_updates ops).
Proof. exact world_rib_is_run. Qed.
Print Assumptions C01_pipeline_updates.

(* the ideal RIB's entry of a wire identity = the last-event reading, at the id it was
   given, of the updates the pipeline applied *)
Theorem C01_pipeline_refines_ideal : forall ops x i f p,
  disciplined ops = true -> fams_ok ops = true -> (N.of_nat (length ops) < two32 - 2)%N ->
  NoShare (w_ids (run_world ops).1) ->
  id_of (w_ids (run_world ops).1) x = Some i ->
  s_rib (run_sworld ops).1 !! (f, p, x) = spec_lookup (evs_of (world_updates ops)) (f, p, i).
Proof. exact pipe_refines_ideal_all. Qed.
Print Assumptions C01_pipeline_refines_ideal.

(* sharper: only the identity asked about must be the sole owner of its id; any history
   (families unrestricted), keys of the four families *)
Theorem C01_pipeline_refines_ideal_sole : forall ops x i f p,
  disciplined ops = true -> (N.of_nat (length ops) < two32 - 2)%N -> (f < 4)%N ->
  id_of (w_ids (run_world ops).1) x = Some i -> sole (w_ids (run_world ops).1) x i ->
  s_rib (run_sworld ops).1 !! (f, p, x) = spec_lookup (evs_of (world_updates ops)) (f, p, i).
Proof. exact pipe_refines_ideal_sole. Qed.
Print Assumptions C01_pipeline_refines_ideal_sole.

(* companion: a wire identity that never got an id has no entry in the ideal RIB,
   and an id nobody was given has no route in the pipeline's RIB *)
Theorem C01_pipeline_no_id_no_entry : forall ops x f p,
  disciplined ops = true -> (N.of_nat (length ops) < two32 - 2)%N ->
  id_of (w_ids (run_world ops).1) x = None -> s_rib (run_sworld ops).1 !! (f, p, x) = None.
Proof. exact pipe_no_id_no_entry. Qed.
Print Assumptions C01_pipeline_no_id_no_entry.

Theorem C01_pipeline_no_owner_no_route : forall ops f p i,
  disciplined ops = true -> (N.of_nat (length ops) < two32 - 2)%N ->
  (forall x, id_of (w_ids (run_world ops).1) x <> Some i) ->
  rib_lookup (w_rib (run_world ops).1) (f, p, i) = None.
Proof. exact pipe_no_owner_no_route. Qed.
Print Assumptions C01_pipeline_no_owner_no_route.

(* the code's RIB shows for every wire identity exactly the property's answer, except that
   an entry whose (family, id) a session-wide withdrawal ever hit stays withdrawn
   (class K3 = known finding C03-1) *)
Theorem C01_pipeline_rib_answer : forall ops x i f p,
  disciplined ops = true -> fams_ok ops = true -> (N.of_nat (length ops) < two32 - 2)%N ->
  NoShare (w_ids (run_world ops).1) ->
  id_of (w_ids (run_world ops).1) x = Some i ->
  rib_lookup (w_rib (run_world ops).1) (f, p, i) =
  match s_rib (run_sworld ops).1 !! (f, p, x) with
  | Some (s, a) => Some (s && negb (downed (evs_of (world_updates ops)) (f, p, i)), a)
  | None => None
  end.
Proof. exact pipe_rib_answer_all. Qed.
Print Assumptions C01_pipeline_rib_answer.

(* a history with a BMP peer that flaps, a router that reconnects and a BGP session that
   reconnects meets every premise; the one place where the two RIBs differ is K3 *)
Example C01_pipeline_example :
  disciplined compose_example = true /\ fams_ok compose_example = true /\
  (N.of_nat (length compose_example) < two32 - 2)%N /\
  NoShare (w_ids (run_world compose_example).1) /\
  w_ids (run_world compose_example).1 = [((0, pA), 3); (bgp_wid 0 0, 4); (bgp_wid 0 1, 5)]%N /\
  s_rib (run_sworld compose_example).1 !! (0, 1, (0, pA))%N = Some (true, 6%N) /\
  rib_lookup (w_rib (run_world compose_example).1) (0, 1, 3)%N = Some (false, 6%N) /\
  s_rib (run_sworld compose_example).1 !! (0, 2, bgp_wid 0 1)%N = Some (true, 5%N) /\
  rib_lookup (w_rib (run_world compose_example).1) (0, 2, 5)%N = Some (true, 5%N).
Proof. exact compose_example_ok. Qed.

(* ------------------------------------------------------------------ *)
(* On the wire (Pipe/PipeRaw.v): the octets of an UPDATE handed to a BMP peer or a BGP
   session are read by C04's independent decoder (the implementation's mode) and become an
   ordinary operation of the pipeline ([raw_bmp] / [raw_bgp]), so every theorem above covers
   histories of real UPDATEs of all four families, well-formed or not. *)
From RV Require Import Pipe.PipeRaw Pipe.PipeRawProofs.
From RV Require Bgp.BgpModel.

(* the numbering of wire prefixes that stands for RibModel's opaque prefix ids is injective
   over everything well-formed UPDATEs can name (and so is the family numbering) *)
Theorem C01_wire_prefix_injective : forall u u' r r',
  BgpModel.wf u = true -> BgpModel.wf u' = true ->
  r ∈ ann_routes u ++ wd_routes u -> r' ∈ ann_routes u' ++ wd_routes u' -> route_code r = route_code r' -> r = r'.
Proof. exact raw_route_code_inj. Qed.
Print Assumptions C01_wire_prefix_injective.

Theorem C01_wire_attrs_injective : forall u u', BgpModel.wf u = true -> BgpModel.wf u' = true ->
  attrs_code (BgpModel.u_attrs u) = attrs_code (BgpModel.u_attrs u') -> BgpModel.u_attrs u = BgpModel.u_attrs u'.
Proof. exact attrs_code_inj. Qed.
Print Assumptions C01_wire_attrs_injective.

(* what reaches the RIB for a decoded UPDATE is exactly its route events (C04_events_exact: one
   per NLRI), the withdrawals first (RFC 4271 4.3) *)
Theorem C01_wire_update_is_its_events : forall id u,
  payloads_of id (upd_of_update u) =
  map (pay_of_ev id) (List.filter is_evw (BgpModel.events u) ++ List.filter (fun e => negb (is_evw e)) (BgpModel.events u)).
Proof. exact raw_payloads. Qed.
Print Assumptions C01_wire_update_is_its_events.

(* all or nothing: octets that do not decode change no RIB, neither the pipeline's nor the ideal one *)
Theorem C01_wire_unparsable_is_noop : forall bytes, BgpModel.decode BgpModel.Code bytes = None ->
  (forall w k p, w_rib (wstep w (raw_bmp k p bytes)).1 = w_rib w /\ w_ids (wstep w (raw_bmp k p bytes)).1 = w_ids w) /\
  (forall w b, (wstep w (raw_bgp b bytes)).1 = w) /\
  (forall sw k p, (sstep sw (raw_bmp k p bytes)).1 = sw) /\
  (forall sw b, (sstep sw (raw_bgp b bytes)).1 = sw).
Proof. exact raw_unparsable_noop. Qed.
Print Assumptions C01_wire_unparsable_is_noop.

(* the premise [fams_ok] of the pipeline theorems holds for every operation that comes from the wire *)
Theorem C01_wire_families_ok : forall k p b bytes,
  op_fams_ok (raw_bmp k p bytes) = true /\ op_fams_ok (raw_bgp b bytes) = true.
Proof. exact raw_ops_fams_ok. Qed.
Print Assumptions C01_wire_families_ok.

(* End-of-RIB as the state machine decides it on a decoded UPDATE: routecore's test (C04's [lax_eor]),
   in the dump phase only on an UPDATE that carries nothing (the repaired guard) *)
Theorem C01_wire_eor_dump_phase : forall u,
  eor_in PDump (upd_of_update u) = if BgpModel.carries_routes u then None else lax_eor_fam u.
Proof. exact raw_eor_dump. Qed.
Print Assumptions C01_wire_eor_dump_phase.

Theorem C01_wire_eor_is_lax_eor : forall u, is_Some (lax_eor_fam u) <-> BgpModel.lax_eor u = true.
Proof. exact lax_eor_fam_some. Qed.
Print Assumptions C01_wire_eor_is_lax_eor.

(* a history on the wire: 10.9.0.0/16 announced for IPv4 MULTICAST, an UPDATE whose MP_UNREACH_NLRI
   holds that prefix followed by one of 200 bits (does not decode: nothing happens), then the
   withdrawal: the entry is shown active, then withdrawn, by the pipeline and by the ideal RIB *)
Example C01_wire_example :
  BgpModel.decode BgpModel.Code raw_bad_tail = None /\
  (exists a, raw_upd raw_mc_withdraw = Some (UGen None false 0 [] a [(2, pfx_10_9)])%N) /\
  nth_error (run_world raw_example).2 5%nat = Some (WoEntries [(3%N, true, attrs_code raw_mc_attrs)]) /\
  (exists a, last (run_world raw_example).2 = Some (WoEntries [(3%N, false, a)]) /\
             last (run_sworld raw_example).2 = Some (SoEntries [((0%N, pA), false, a)])).
Proof. exact raw_example_ok. Qed.

(* ------------------------------------------------------------------ *)
(* The third ingest path, MRT update files (Mrt/MrtModel.v process_file / process_message, Mrt/MrtRaw.v: the octets
   of the BGP message inside a BGP4MP record read by C04's decoder). "An UPDATE that fails to parse changes nothing
   at all": there is no half-applied UPDATE - either no update leaves the unit and its register is untouched, or ONE
   Bulk holds every route event of the UPDATE - and around the record of an UPDATE that does not decode the import is
   that of the file without it: same update stream, same RIB, same ideal RIB, for any queue of files. *)
From RV Require Ingress.IngressProofs Mrt.MrtModel Mrt.MrtRaw Mrt.MrtRawProofs.

Theorem C01_mrt_update_all_or_nothing : forall parent r p bytes,
  IngressProofs.Below r -> IngressProofs.PeerUnique r ->
  match BgpModel.decode BgpModel.Code bytes with
  | None => MrtModel.msg_step parent r (MrtRaw.raw_rec p bytes) = (r, [])
  | Some u =>
      exists id r', MrtModel.msg_step parent r (MrtRaw.raw_rec p bytes) = (r', [UBulk (MrtRaw.bulk_of_events id (BgpModel.events u))]) /\
        MrtRaw.bulk_of_events id (BgpModel.events u) ≡ₚ map (pay_of_ev id) (BgpModel.events u) /\
        IngressProofs.answers r' (MrtModel.mrt_query parent p) id /\
        (forall x, x ∈ MrtRaw.bulk_of_events id (BgpModel.events u) -> k_mui (p_key x) = id)
  end.
Proof. exact MrtRawProofs.raw_all_or_nothing. Qed.
Print Assumptions C01_mrt_update_all_or_nothing.

Theorem C01_mrt_unparsable_changes_nothing : forall bytes fs1 name rc recs1 p recs2 fs2,
  BgpModel.decode BgpModel.Code bytes = None ->
  MrtModel.update_file (MrtModel.FGood name (rc :: recs1 ++ recs2)) = true ->
  MrtModel.queue_run MrtModel.unit_start.1 MrtModel.unit_start.2
      (fs1 ++ MrtModel.FGood name (rc :: recs1 ++ MrtRaw.raw_rec p bytes :: recs2) :: fs2) =
    MrtModel.queue_run MrtModel.unit_start.1 MrtModel.unit_start.2 (fs1 ++ MrtModel.FGood name (rc :: recs1 ++ recs2) :: fs2) /\
  MrtModel.import (fs1 ++ MrtModel.FGood name (rc :: recs1 ++ MrtRaw.raw_rec p bytes :: recs2) :: fs2) =
    MrtModel.import (fs1 ++ MrtModel.FGood name (rc :: recs1 ++ recs2) :: fs2) /\
  MrtModel.i_import (fs1 ++ MrtModel.FGood name (rc :: recs1 ++ MrtRaw.raw_rec p bytes :: recs2) :: fs2) =
    MrtModel.i_import (fs1 ++ MrtModel.FGood name (rc :: recs1 ++ recs2) :: fs2).
Proof. exact MrtRawProofs.raw_undecodable_changes_nothing. Qed.
Print Assumptions C01_mrt_unparsable_changes_nothing.

(* ------------------------------------------------------------------ *)
(* BMP traffic as OCTETS (Pipe/PipeWire.v): the composition of the wire layer of C05 (Bmp/BmpWire.v: framing
   [stream], the RFC 7854 codec; Bmp/BmpWireAbs.v: [abstract]) with the end-to-end refinement above. A history
   is a list of [xop]: an operation of the world as it is, or [XOctets k bs] - router k's connection delivers
   the octets bs, ANY octets, cut anywhere (what is left of an incomplete message stays pending for the next
   delivery of that connection). [wire_ops] is the message history the octets decode to: a frame that decodes
   is [WMsg k (abstract m)], a frame that does not is what the model calls unparsable (no operation), a length
   field below 5 ends the connection ([WDisconnect k]).
   A WIRE IDENTITY at the octet level is (router key, the per-peer header fields routecore compares) =
   (k, BmpWireAbs.ident p); in the model it is (k, abs_pph p). *)
From RV Require Import Bmp.BmpWireAbs Pipe.PipeWire Pipe.PipeWireProofs.
From RV Require Bmp.BmpWire.

(* what comes out of octets meets the premises of the pipeline theorems by construction: they are asked of
   the operations that are not octets only *)
Theorem C01_wire_stream_premises : forall h,
  (xdisciplined h = true -> disciplined (wire_ops h) = true) /\ (xfams_ok h = true -> fams_ok (wire_ops h) = true).
Proof. exact wire_ops_premises. Qed.
Print Assumptions C01_wire_stream_premises.

(* for EVERY history whose BMP traffic is given as octet streams: the RIB of the model of the code answers
   every (family, prefix, wire identity) as C01_pipeline_rib_answer says for the decoded message history -
   the ideal RIB's entry, except for class K3; class K2 is excluded by [NoShare] *)
Theorem C01_wire_stream_refines_ideal : forall h x i f p,
  xdisciplined h = true -> xfams_ok h = true -> (N.of_nat (length (wire_ops h)) < two32 - 2)%N ->
  NoShare (w_ids (run_world (wire_ops h)).1) ->
  id_of (w_ids (run_world (wire_ops h)).1) x = Some i ->
  rib_lookup (w_rib (run_world (wire_ops h)).1) (f, p, i) =
  match s_rib (run_sworld (wire_ops h)).1 !! (f, p, x) with
  | Some (s, a) => Some (s && negb (downed (evs_of (world_updates (wire_ops h))) (f, p, i)), a)
  | None => None
  end.
Proof. exact wire_stream_rib_answer. Qed.
Print Assumptions C01_wire_stream_refines_ideal.

(* ... and the ideal RIB's entry of a wire identity is the last-event reading of the updates the pipeline applied *)
Theorem C01_wire_stream_ideal_is_replay : forall h x i f p,
  xdisciplined h = true -> xfams_ok h = true -> (N.of_nat (length (wire_ops h)) < two32 - 2)%N ->
  NoShare (w_ids (run_world (wire_ops h)).1) ->
  id_of (w_ids (run_world (wire_ops h)).1) x = Some i ->
  s_rib (run_sworld (wire_ops h)).1 !! (f, p, x) = spec_lookup (evs_of (world_updates (wire_ops h))) (f, p, i).
Proof. exact wire_stream_ideal_is_replay. Qed.
Print Assumptions C01_wire_stream_ideal_is_replay.

(* round trip: streams that ARE encodings (the proved encoder on well-formed wire messages) decode to the
   messages that were encoded ... *)
Theorem C01_wire_stream_decodes_to_messages : forall h, mwf h = true -> wire_ops (enc_hist h) = abs_hist h.
Proof. exact wire_ops_encoded. Qed.
Print Assumptions C01_wire_stream_decodes_to_messages.

(* ... so the code's RIB, fed with the OCTETS, answers as the ideal RIB of the messages that were encoded *)
Theorem C01_wire_stream_roundtrip : forall h x i f p,
  mwf h = true -> mdisciplined h = true -> mfams_ok h = true -> (N.of_nat (length (abs_hist h)) < two32 - 2)%N ->
  NoShare (w_ids (run_world (abs_hist h)).1) ->
  id_of (w_ids (run_world (abs_hist h)).1) x = Some i ->
  rib_lookup (w_rib (run_world (wire_ops (enc_hist h))).1) (f, p, i) =
  match s_rib (run_sworld (abs_hist h)).1 !! (f, p, x) with
  | Some (s, a) => Some (s && negb (downed (evs_of (world_updates (abs_hist h))) (f, p, i)), a)
  | None => None
  end.
Proof. exact wire_stream_roundtrip. Qed.
Print Assumptions C01_wire_stream_roundtrip.

(* where the octets of a connection are cut into deliveries does not matter (TCP segmentation): two consecutive
   deliveries are the delivery of their concatenation, unless the first already ended the connection - and
   after a length field below 5 nothing that follows is read *)
Theorem C01_wire_stream_segmentation : forall pd k a b h, (BmpWire.stream (pd k ++ a)).2 <> BmpWire.SShort ->
  wire_run pd (XOctets k a :: XOctets k b :: h) = wire_run pd (XOctets k (a ++ b) :: h).
Proof. exact deliveries_join. Qed.
Print Assumptions C01_wire_stream_segmentation.

Theorem C01_wire_stream_short_length_ends : forall k a b, (BmpWire.stream a).2 = BmpWire.SShort ->
  deliver k (a ++ b) = deliver k a.
Proof. exact deliver_short. Qed.
Print Assumptions C01_wire_stream_short_length_ends.

(* a frame of the stream is C05's pipeline operation [wire_bmp]: refused frames are no operation *)
Theorem C01_wire_stream_frame_is_wire_bmp : forall k fr,
  item_ops k (match BmpWire.decode fr with Some m => BmpWire.SMsg m | None => BmpWire.SBad fr end) =
  match wire_bmp k fr with Some o => [o] | None => [] end.
Proof. exact item_ops_wire_bmp. Qed.
Print Assumptions C01_wire_stream_frame_is_wire_bmp.

(* the wire identity at the octet level: two per-peer headers on two connections name the same identity of the
   model exactly when the router is the same and routecore's PartialEq holds (C05_wire_peer_identity); every
   per-peer header the decoder yields is well-formed, so this covers all traffic that reaches the state machine *)
Theorem C01_wire_identity : forall k k' p q, BmpWire.pph_wf p = true -> BmpWire.pph_wf q = true ->
  (((k, abs_pph p) : wid) = (k', abs_pph q) <-> k = k' /\ ident p = ident q).
Proof. exact wire_identity. Qed.
Print Assumptions C01_wire_identity.

Theorem C01_wire_decoded_header_wf : forall b m p,
  BmpWire.decode b = Some m -> msg_pph m = Some p -> BmpWire.pph_wf p = true.
Proof. exact decode_pph_wf. Qed.
Print Assumptions C01_wire_decoded_header_wf.

(* a connection on the wire: the first ten octets of Initiation / Peer Up / Route Monitoring (10.9.0.0/16) - the
   delivery ends inside the Initiation message -, then the rest followed by a frame of type 9 (refused); a query;
   five octets whose length field says 4 (the connection is given up); a query. The Peer Up and the Route
   Monitoring header differ in their timestamps only: one wire identity *)
Example C01_wire_stream_example :
  xdisciplined wire_ex_hist = true /\ xfams_ok wire_ex_hist = true /\
  (exists u, wire_ops wire_ex_hist =
     [WConnect 0; WMsg 0 MInit; WMsg 0 (MPeerUp (abs_pph (ex_pph 0 1)) true); WMsg 0 (MRoute (abs_pph (ex_pph 0 2)) (Some u));
      WQuery 0 pfx_10_9; WDisconnect 0; WQuery 0 pfx_10_9]%N) /\
  abs_pph (ex_pph 0 1) = abs_pph (ex_pph 0 2) /\
  NoShare (w_ids (run_world (wire_ops wire_ex_hist)).1) /\
  id_of (w_ids (run_world (wire_ops wire_ex_hist)).1) (0%N, abs_pph (ex_pph 0 1)) = Some 3%N /\
  (exists a, nth_error (run_world (wire_ops wire_ex_hist)).2 4%nat = Some (WoEntries [(3%N, true, a)]) /\
             last (run_world (wire_ops wire_ex_hist)).2 = Some (WoEntries [(3%N, false, a)]) /\
             last (run_sworld (wire_ops wire_ex_hist)).2 = Some (SoEntries [((0%N, abs_pph (ex_pph 0 1)), false, a)])).
Proof. exact wire_example_ok. Qed.
