(* C11 — RIB HTTP answers match what is stored, incl. more/less specifics and filters.
   Statements only; every proof is [exact <lemma>].

   Vocabulary (RibQueryModel): a RIB content is any [rib] (RibModel); a prefix is
   a bit list, stored under the number [rq_code bits]; [rq_stored r fam e] says
   entry e = (prefix, ingress id, status, attributes) is what the store of family
   fam shows for that (prefix, id); [rq_answer_of] is the code's answer over the
   store as it is, [rq_answer_spec] what the property demands; [rq_handle] the
   whole request (prefix validity, parameter parsing, limit, format). *)
From stdpp Require Import gmap.
From Coq Require Import NArith ZArith List.
From RV Require Import Rib.RibModel PathConf.PathConfModel RibQuery.RibQueryModel RibQuery.RibQueryProofs RibQuery.RibConfModel RibQuery.RibConfProofs.
Import ListNotations.
Local Open Scope N_scope.

(* ---- prefixes: the encoding into RibModel's prefix numbers is injective, covering is "initial segment" *)
Theorem C11_prefix_code_inj : forall a b, rq_code a = rq_code b -> a = b.
Proof. exact rq_code_inj. Qed.
Print Assumptions C11_prefix_code_inj.

Theorem C11_covers_is_initial_segment : forall p q,
  (rq_covers p q = true <-> exists k, q = p ++ k) /\
  (rq_strictly_covers p q = true <-> exists k, k <> [] /\ q = p ++ k).
Proof. exact rq_covers_specs. Qed.
Print Assumptions C11_covers_is_initial_segment.

(* ---- the filter: the documented truth table of select/discard x any/all, and the three matchers *)
Theorem C11_filter_semantics : forall f at_ info,
  rq_pass f at_ info = true <->
  (f_selects f = [] \/ rq_quant (f_op f) (fun k => rq_matches at_ info k = true) (f_selects f)) /\
  (f_discards f = [] \/ ~ rq_quant (f_op f) (fun k => rq_matches at_ info k = true) (f_discards f)).
Proof. exact rq_pass_spec. Qed.
Print Assumptions C11_filter_semantics.

Theorem C11_match_as_path : forall actual wanted,
  rq_match_as_path actual wanted = true <-> actual = map HAsn wanted.
Proof. exact rq_match_as_path_spec. Qed.
Print Assumptions C11_match_as_path.

(* ... of the WHOLE path: the hops come from all segments of the AS_PATH ([rq_hops]); the filter
   matches iff every segment is an AS_SEQUENCE and the sequences, joined, are the wanted list -
   however the path is cut into segments *)
Theorem C11_match_as_path_segments : forall segs wanted,
  rq_match_as_path (rq_hops segs) wanted = true <-> exists ls, segs = map SegSeq ls /\ concat ls = wanted.
Proof. exact rq_match_as_path_segments. Qed.
Print Assumptions C11_match_as_path_segments.

(* The community filter. The communities of a route are the members of ALL its
   community-carrying attributes ([pa_cattrs]: COMMUNITIES, EXTENDED COMMUNITIES,
   LARGE_COMMUNITY, IPv6 extended, in the order they stand in the route's attribute map):
   [rq_route_comms] is their concatenation in attribute order. *)
(* the filter's truth value is membership in that concatenation ... *)
Theorem C11_match_community : forall cattrs c,
  rq_match_community cattrs c = true <-> In c (rq_route_comms cattrs).
Proof. exact rq_match_community_spec. Qed.
Print Assumptions C11_match_community.

(* ... i.e. in the union over the attributes of the community's kind: SOME attribute of that
   kind has it as a member, whichever it is and wherever it stands *)
Theorem C11_match_community_union : forall cattrs c,
  rq_match_community cattrs c = true <-> exists vs, In (fst c, vs) cattrs /\ In (snd c) vs.
Proof. exact rq_match_community_union. Qed.
Print Assumptions C11_match_community_union.

(* no attribute ends the search: the answer for a list of attributes is the disjunction of
   the answers for its parts; a member of an attribute is found whatever precedes or follows it *)
Theorem C11_match_community_no_early_stop : forall l1 l2 c pre k vs post v,
  rq_match_community (l1 ++ l2) c = rq_match_community l1 c || rq_match_community l2 c /\
  (In v vs -> rq_match_community (pre ++ (k, vs) :: post) (k, v) = true).
Proof. exact rq_match_community_no_early_stop. Qed.
Print Assumptions C11_match_community_no_early_stop.

(* independent of the attribute order, and of everything but the set of communities *)
Theorem C11_match_community_order_irrelevant : forall l l' c,
  (Permutation l l' -> rq_match_community l c = rq_match_community l' c) /\
  ((forall x, In x (rq_route_comms l) <-> In x (rq_route_comms l')) -> rq_match_community l c = rq_match_community l' c).
Proof. exact rq_match_community_order_irrelevant. Qed.
Print Assumptions C11_match_community_order_irrelevant.

(* at the level of the request: select[community]=c keeps exactly the routes carrying c in
   any community attribute, discard[community]=c exactly the others (any / all alike) *)
Theorem C11_community_select_discard : forall op c at_ info,
  (rq_pass (MkFilters op [FCommunity c] []) at_ info = true <-> In c (rq_route_comms (pa_cattrs at_))) /\
  (rq_pass (MkFilters op [] [FCommunity c]) at_ info = true <-> ~ In c (rq_route_comms (pa_cattrs at_))).
Proof. exact community_select_discard. Qed.
Print Assumptions C11_community_select_discard.

(* the text of the filter: a well-known community under its name (any case, '_' optional),
   as AS:tag and as 0x.. is one and the same; large, rt:/ro: and 0x.. extended forms *)
Theorem C11_community_spellings :
  rq_parse_community [78;79;95;69;88;80;79;82;84] (* "NO_EXPORT" *) = Some (CStd, 4294967041) /\
  rq_parse_community [110;111;101;120;112;111;114;116] (* "noexport" *) = Some (CStd, 4294967041) /\
  rq_parse_community [54;53;53;51;53;58;54;53;50;56;49] (* "65535:65281" *) = Some (CStd, 4294967041) /\
  rq_parse_community [48;120;70;70;70;70;70;70;48;49] (* "0xFFFFFF01" *) = Some (CStd, 4294967041) /\
  rq_parse_community [66;76;65;67;75;72;79;76;69] (* "BLACKHOLE" *) = Some (CStd, 4294902426) /\
  rq_parse_community [54;53;53;51;53;58;54;54;54] (* "65535:666" *) = Some (CStd, 4294902426) /\
  rq_parse_community [54;53;48;48;48;58;49;58;50] (* "65000:1:2" *) = Some (CLarge, (65000 * 4294967296 + 1) * 4294967296 + 2) /\
  rq_parse_community [114;116;58;54;53;48;48;48;58;49;48;48] (* "rt:65000:100" *) = Some (CExt, rq_ext_as2 2 65000 100) /\
  rq_parse_community [114;111;58;52;50;48;48;48;48;48;48;48;49;58;55] (* "ro:4200000001:7" *) = Some (CExt, rq_ext_as4 3 4200000001 7) /\
  rq_parse_community [48;120;48;48;48;50;70;68;69;56;48;48;48;48;48;48;54;52] (* "0x0002FDE800000064" *) = Some (CExt, rq_ext_as2 2 65000 100).
Proof. exact community_spellings. Qed.
Print Assumptions C11_community_spellings.

(* non-vacuity: COMMUNITIES [NO_EXPORT; 65000:100] + LARGE_COMMUNITY [65000:1:2] + EXTENDED
   COMMUNITIES [rt:65000:100] on one route; the text of a member of EACH attribute selects
   it, in this and in the reversed attribute order; what it does not carry does not *)
Example C11_community_example :
  let sel (cattrs : list rq_cattr) (txt : list N) :=
    match rq_parse_community txt with
    | Some c => Some (rq_pass (MkFilters OpAny [FCommunity c] []) (MkAttrs [] cattrs) None)
    | None => None
    end in
  let texts := [[110;111;95;101;120;112;111;114;116] (* "no_export" *); [54;53;48;48;48;58;49;48;48] (* "65000:100" *);
                [54;53;48;48;48;58;49;58;50] (* "65000:1:2" *); [114;116;58;54;53;48;48;48;58;49;48;48] (* "rt:65000:100" *)] in
  map (sel w_cattrs) texts = [Some true; Some true; Some true; Some true] /\
  map (sel (rev w_cattrs)) texts = [Some true; Some true; Some true; Some true] /\
  sel w_cattrs [54;53;48;48;48;58;49;58;51] (* "65000:1:3" *) = Some false /\
  sel w_cattrs [114;111;58;54;53;48;48;48;58;49;48;48] (* "ro:65000:100" *) = Some false /\
  sel w_cattrs [48;120;70;68;69;56;48;48;54;52] (* "0xFDE80064" = 65000:100 *) = Some true /\
  sel [(CExt, [4259840100])] [54;53;48;48;48;58;49;48;48] (* "65000:100" *) = Some false.
Proof. exact community_example. Qed.

Theorem C11_match_peer_as : forall info a,
  rq_match_peer_as info a = true <-> info = Some (Some a).
Proof. exact rq_match_peer_as_spec. Qed.
Print Assumptions C11_match_peer_as.

(* ---- what the property demands, spelled out (the meaning of the spec answer) *)
Theorem C11_spec_data : forall r tbl reg v6 q qu e,
  e ∈ a_data (rq_answer_spec r tbl reg v6 q qu) <->
  rq_stored_any r v6 e /\ rq_bits (e_pfx e) = q /\ rq_keep (q_filters qu) tbl reg e = true.
Proof. exact spec_data_exact. Qed.
Print Assumptions C11_spec_data.

Theorem C11_spec_less : forall r tbl reg v6 q qu e,
  i_less (q_inc qu) = true ->
  exists l, a_less (rq_answer_spec r tbl reg v6 q qu) = Some l /\
    (e ∈ l <-> rq_stored_any r v6 e /\ rq_strictly_covers (rq_bits (e_pfx e)) q = true /\
               rq_keep (q_filters qu) tbl reg e = true).
Proof. exact spec_less_exact. Qed.
Print Assumptions C11_spec_less.

Theorem C11_spec_more : forall r tbl reg v6 q qu e,
  i_more (q_inc qu) = true ->
  exists l, a_more (rq_answer_spec r tbl reg v6 q qu) = Some l /\
    (e ∈ l <-> rq_stored_any r v6 e /\ rq_strictly_covers q (rq_bits (e_pfx e)) = true /\
               rq_keep (q_filters qu) tbl reg e = true).
Proof. exact spec_more_exact. Qed.
Print Assumptions C11_spec_more.

Theorem C11_spec_sections_follow_include : forall r tbl reg v6 q qu,
  (a_less (rq_answer_spec r tbl reg v6 q qu) = None <-> i_less (q_inc qu) = false) /\
  (a_more (rq_answer_spec r tbl reg v6 q qu) = None <-> i_more (q_inc qu) = false).
Proof. exact spec_sections_follow_include. Qed.
Print Assumptions C11_spec_sections_follow_include.

(* ---- the code's answer, for ALL RIB contents, tables, registers and queries *)
(* data: exactly the unicast entries of the queried prefix that pass the filter;
   multicast entries only when there is no unicast entry and nothing is included *)
Theorem C11_answer_exact_data : forall r tbl reg v6 q qu e,
  e ∈ a_data (rq_answer_of r tbl reg v6 q qu) <->
  rq_bits (e_pfx e) = q /\ rq_keep (q_filters qu) tbl reg e = true /\
  (rq_stored r (rq_fam v6 false) e \/
   (rq_store_data r (rq_fam v6 false) q = [] /\ i_less (q_inc qu) = false /\ i_more (q_inc qu) = false /\
    rq_stored r (rq_fam v6 true) e)).
Proof. exact model_data_exact. Qed.
Print Assumptions C11_answer_exact_data.

Theorem C11_answer_exact_less : forall r tbl reg v6 q qu e,
  i_less (q_inc qu) = true ->
  exists l, a_less (rq_answer_of r tbl reg v6 q qu) = Some l /\
    (e ∈ l <-> rq_stored r (rq_fam v6 false) e /\ rq_strictly_covers (rq_bits (e_pfx e)) q = true /\
               rq_keep (q_filters qu) tbl reg e = true).
Proof. exact model_less_exact. Qed.
Print Assumptions C11_answer_exact_less.

(* moreSpecifics is exact where the store's child-node iterator selects the right prefixes ... *)
Theorem C11_answer_exact_more_partial : forall r tbl reg v6 q qu e,
  rq_store_more_ok r v6 q ->
  i_more (q_inc qu) = true ->
  exists l, a_more (rq_answer_of r tbl reg v6 q qu) = Some l /\
    (e ∈ l <-> rq_stored r (rq_fam v6 false) e /\ rq_strictly_covers q (rq_bits (e_pfx e)) = true /\
               rq_keep (q_filters qu) tbl reg e = true).
Proof. exact model_more_exact_partial. Qed.
Print Assumptions C11_answer_exact_more_partial.

(* ... which is the case when nothing below the query's tree node is longer than the node reaches *)
Theorem C11_store_more_ok_in_node : forall (r : rib) (v6 : bool) (q : rq_pfx) (start stride : N),
  (rq_len q < (if v6 then 128 else 32 : N))%N ->
  rq_node_for (rq_strides v6) 0 (rq_len q) = Some (start, stride) ->
  (forall p, p ∈ rq_tree r (rq_fam v6 false) ->
     rq_covers (firstn (N.to_nat start) q) p = true -> rq_len p <= start + stride) ->
  rq_store_more_ok r v6 q.
Proof. exact store_more_ok_in_node. Qed.
Print Assumptions C11_store_more_ok_in_node.

(* code = property: without multicast routes of the family and with an exact
   store answer, the whole JSON answer is the demanded one (no phantom, no omission,
   in every section, sections present exactly as included) *)
Theorem C11_no_phantom_no_omission_partial : forall r tbl reg v6 q qu,
  rq_no_family r (rq_fam v6 true) ->
  (i_more (q_inc qu) = true -> rq_store_more_ok r v6 q) ->
  rq_answer_of r tbl reg v6 q qu = rq_answer_spec r tbl reg v6 q qu.
Proof. exact answer_exact_partial. Qed.
Print Assumptions C11_no_phantom_no_omission_partial.

(* the same for the whole request: status, refusal, dump and answer *)
Theorem C11_request_exact_partial : forall lim r tbl reg rq,
  rq_no_family r (rq_fam (rq_v6 rq) true) ->
  (forall q, rq_prefix_of rq = Some q -> rq_store_more_ok r (rq_v6 rq) q) ->
  rq_handle lim r tbl reg rq = rq_handle_spec lim r tbl reg rq.
Proof. exact handle_exact_partial. Qed.
Print Assumptions C11_request_exact_partial.

(* unconditionally: nothing in data / lessSpecifics that is not stored with that
   relation to the query; nothing in moreSpecifics that is not stored and passing *)
Theorem C11_no_phantom : forall r tbl reg v6 q qu e,
  (e ∈ a_data (rq_answer_of r tbl reg v6 q qu) ->
     rq_stored_any r v6 e /\ rq_bits (e_pfx e) = q /\ rq_keep (q_filters qu) tbl reg e = true) /\
  (forall l, a_less (rq_answer_of r tbl reg v6 q qu) = Some l -> e ∈ l ->
     rq_stored_any r v6 e /\ rq_strictly_covers (rq_bits (e_pfx e)) q = true /\ rq_keep (q_filters qu) tbl reg e = true) /\
  (forall l, a_more (rq_answer_of r tbl reg v6 q qu) = Some l -> e ∈ l ->
     rq_stored_any r v6 e /\ rq_keep (q_filters qu) tbl reg e = true).
Proof. exact no_phantom. Qed.
Print Assumptions C11_no_phantom.

(* ---- the limit and the parameters, over all raw query strings *)
Theorem C11_limit_refuses : forall lim r tbl reg rq q inc,
  rq_prefix_of rq = Some q ->
  rq_parse_include (rq_params (rq_raw rq)) = Some inc -> i_more inc = true ->
  rq_len q < rq_limit lim (rq_v6 rq) ->
  rq_handle lim r tbl reg rq = RBad /\ rq_handle_spec lim r tbl reg rq = RBad.
Proof. exact limit_refuses. Qed.
Print Assumptions C11_limit_refuses.

Theorem C11_limit_only_shorter : forall lim v6 qlen raw,
  rq_limit lim v6 <= qlen ->
  rq_parse_query lim v6 qlen raw = rq_parse_query (MkLim 0 0) v6 qlen raw.
Proof. exact limit_only_shorter. Qed.
Print Assumptions C11_limit_only_shorter.

(* include=<v1>,<v2>,...: accepted iff every value is lessSpecifics or
   moreSpecifics; a section is requested iff its name occurs (first `include` parameter) *)
Theorem C11_include_param : forall ps inc,
  rq_parse_include ps = Some inc <->
  match rq_get ps kw_include with
  | None => inc = MkInc false false
  | Some p =>
    (forall v, In v (pc_split 44 (p_val p)) -> v = kw_less_specifics \/ v = kw_more_specifics) /\
    (i_less inc = true <-> In kw_less_specifics (pc_split 44 (p_val p))) /\
    (i_more inc = true <-> In kw_more_specifics (pc_split 44 (p_val p)))
  end.
Proof. exact include_param_spec. Qed.
Print Assumptions C11_include_param.

Theorem C11_unknown_param_refused : forall lim v6 qlen raw p,
  In p (rq_params raw) ->
  pc_bytes_eqb (p_key p) kw_select = false -> pc_bytes_eqb (p_key p) kw_discard = false ->
  existsb (pc_bytes_eqb (p_key p)) kw_single = false ->
  rq_parse_query lim v6 qlen raw = None.
Proof. exact unknown_param_refused. Qed.
Print Assumptions C11_unknown_param_refused.

(* ---- the limit in force is the CURRENT one. The limits are part of the unit's state
   ([rq_state]: limits + RIB content; [OLimits] = the (re)configuration storing into the
   cell PrefixesApi shares with the runner, [OUpdate], [ORequest]); [rq_run_with answer]
   lists the responses of a history. In ANY history, the request that follows
   [OLimits l] (with no other OLimits in between) is answered as a unit configured with
   [l] answers on the RIB content of that moment, whatever the limits were before - in
   particular when the API object was created; without any OLimits before it, by the
   initial limits. Holds for the code's answer, the exact-store answer and the property's. *)
Theorem C11_limit_is_current : forall answer tbl reg s rq post,
  (forall pre l mid,
     forallb (fun o => negb (rq_is_limits o)) mid = true ->
     nth_error (rq_run_with answer tbl reg s (pre ++ OLimits l :: mid ++ ORequest rq :: post))
               (rq_count_requests (pre ++ mid)) =
     Some (rq_handle_with answer l (rq_rib_after (st_rib s) (pre ++ mid)) tbl reg rq)) /\
  (forall pre,
     forallb (fun o => negb (rq_is_limits o)) pre = true ->
     nth_error (rq_run_with answer tbl reg s (pre ++ ORequest rq :: post)) (rq_count_requests pre) =
     Some (rq_handle_with answer (st_lim s) (rq_rib_after (st_rib s) pre) tbl reg rq)).
Proof. exact limit_is_current. Qed.
Print Assumptions C11_limit_is_current.

(* what a client sees: after a reconfiguration to [l], a moreSpecifics request for a
   prefix shorter than l's limit is refused, one at or beyond it is not judged by length *)
Theorem C11_reconfigured_limit_decides : forall tbl reg s pre l mid rq post q inc,
  forallb (fun o => negb (rq_is_limits o)) mid = true ->
  rq_prefix_of rq = Some q ->
  rq_parse_include (rq_params (rq_raw rq)) = Some inc -> i_more inc = true ->
  let resp := nth_error (rq_run tbl reg s (pre ++ OLimits l :: mid ++ ORequest rq :: post)) (rq_count_requests (pre ++ mid)) in
  (rq_len q < rq_limit l (rq_v6 rq) -> resp = Some RBad) /\
  (rq_limit l (rq_v6 rq) <= rq_len q ->
   resp = Some (rq_handle (MkLim 0 0) (rq_rib_after (st_rib s) (pre ++ mid)) tbl reg rq)).
Proof. exact reconfigured_limit_decides. Qed.
Print Assumptions C11_reconfigured_limit_decides.

(* non-vacuity of the two: created with /8 as limit, 10.0.0.0/8 and a /9 stored; the
   moreSpecifics request for 10.0.0.0/8 is answered, refused after a reconfiguration
   to /16 (and an unrelated update), answered again after one to /4 *)
Example C11_limit_history_example :
  let r := w_rib [(0, w_v4 167772160 8); (0, w_v4 167772160 9)] in
  let rq := MkRequest false (w_bits 167772160 32) 8 (Some w_raw_more) in
  let mid := [OUpdate (UWithdraw 9 None)] in
  forallb (fun o => negb (rq_is_limits o)) mid = true /\
  exists a,
    rq_run w_attrs w_reg (MkSt (MkLim 8 19) r)
           ([ORequest rq] ++ OLimits (MkLim 16 19) :: mid ++ ORequest rq :: [OLimits (MkLim 4 19); ORequest rq])
    = [RJson a; RBad; RJson a] /\
    a_more a = Some [MkEntry (rq_code (w_v4 167772160 9)) 1 true 7].
Proof. exact limit_history_example. Qed.

(* ---- where the code departs from the property (each reproduced on the real code) *)
(* 10.1.0.0/16 is stored; the more specifics of 10.0.0.0/8 come back empty *)
Theorem C11_more_specifics_omits_refuted :
  let r := w_rib [(0, w_v4 167837696 16)] in
  let q := w_v4 167772160 8 in
  a_more (rq_answer_of r w_attrs w_reg false q (w_query false true)) = Some [] /\
  a_more (rq_answer_spec r w_attrs w_reg false q (w_query false true)) = Some [MkEntry (rq_code (w_v4 167837696 16)) 1 true 7].
Proof. exact more_specifics_omits_refuted. Qed.
Print Assumptions C11_more_specifics_omits_refuted.

(* 10.64.1.0/24 is reported as a more specific of 10.0.0.0/10 *)
Theorem C11_more_specifics_phantom_refuted :
  let r := w_rib [(0, w_v4 171966720 24)] in
  let q := w_v4 167772160 10 in
  a_more (rq_answer_of r w_attrs w_reg false q (w_query false true)) = Some [MkEntry (rq_code (w_v4 171966720 24)) 1 true 7] /\
  rq_strictly_covers q (w_v4 171966720 24) = false /\
  a_more (rq_answer_spec r w_attrs w_reg false q (w_query false true)) = Some [].
Proof. exact more_specifics_phantom_refuted. Qed.
Print Assumptions C11_more_specifics_phantom_refuted.

(* a multicast route is shown alone, hidden behind a unicast route of the same
   prefix, and hidden as soon as less or more specifics are included *)
Theorem C11_multicast_hidden_refuted :
  let q := w_v4 167772160 8 in
  let m := MkEntry (rq_code q) 1 true 7 in
  let r1 := w_rib [(2, q)] in
  let r2 := w_rib [(2, q); (0, q)] in
  a_data (rq_answer_of r1 w_attrs w_reg false q (w_query false false)) = [m] /\
  a_data (rq_answer_of r1 w_attrs w_reg false q (w_query true false)) = [] /\
  a_data (rq_answer_spec r1 w_attrs w_reg false q (w_query true false)) = [m] /\
  a_data (rq_answer_of r2 w_attrs w_reg false q (w_query false false)) = [m] /\
  a_data (rq_answer_spec r2 w_attrs w_reg false q (w_query false false)) = [m; m].
Proof. exact multicast_hidden_refuted. Qed.
Print Assumptions C11_multicast_hidden_refuted.

(* non-vacuity: a /7, two /8s and a /9, no multicast; the raw query
   "include=lessSpecifics,moreSpecifics&select[peer_as]=AS65001&filter_op=all"
   on 10.0.0.0/8 meets both hypotheses, is answered with one entry per section,
   equals the demanded answer, and is refused when the limit is /9 *)
Example C11_example :
  let r := w_rib [(0, w_v4 167772160 8); (0, w_v4 167772160 9); (0, w_v4 167772160 7); (0, w_v4 176160768 8)] in
  let q := w_v4 167772160 8 in
  let rq := MkRequest false (w_bits 167772160 32) 8 (Some w_raw) in
  rq_no_family r (rq_fam false true) /\ rq_store_more_ok r false q /\ rq_prefix_of rq = Some q /\
  exists a, rq_handle (MkLim 8 19) r w_attrs w_reg rq = RJson a /\
    a_data a = [MkEntry (rq_code q) 1 true 7] /\
    a_less a = Some [MkEntry (rq_code (w_v4 167772160 7)) 1 true 7] /\
    a_more a = Some [MkEntry (rq_code (w_v4 167772160 9)) 1 true 7] /\
    rq_handle_spec (MkLim 8 19) r w_attrs w_reg rq = RJson a /\
    rq_handle (MkLim 9 19) r w_attrs w_reg rq = RBad.
Proof. exact example_ok. Qed.

(* ---- the configuration surface: what the TOML file says is what the unit enforces.
   Vocabulary (RibConfModel): [rc_more] = the `[query_limits.more_specifics]` table of a rib
   unit as a file states it (per key: unset / an integer / a value of another type; other keys
   or not), [rc_ql] = the `query_limits` key (absent / a table without more_specifics / with),
   [rc_unit] adds `http_api_path`; [rc_limits] = the limits the deserialiser hands to the unit
   (None: the file is refused); [rc_step] / [rc_run] = the unit over a history of loads
   (start-up, reloads), updates and requests; None = nothing runs yet. *)

(* which tables are accepted: each key on its own is unset or a u8 *)
Theorem C11_config_accepts : forall m,
  rc_more_limits m <> None <-> rc_val_ok (ms_v4 m) /\ rc_val_ok (ms_v6 m).
Proof. exact more_limits_accepts. Qed.
Print Assumptions C11_config_accepts.

(* an unset key means its documented default (/8, /19), a set key means its value -
   whichever other keys are set, and to whatever *)
Theorem C11_config_key_semantics : forall m l,
  rc_more_limits m = Some l ->
  forall v6,
    match rc_stated v6 m with
    | None => rq_limit l v6 = rc_default_limit v6
    | Some (VInt z) => Z.of_N (rq_limit l v6) = z
    | Some VOther => False
    end.
Proof. exact config_key_semantics. Qed.
Print Assumptions C11_config_key_semantics.

Theorem C11_config_keys_independent : forall m m' l l' v6,
  rc_more_limits m = Some l -> rc_more_limits m' = Some l' ->
  rc_stated v6 m = rc_stated v6 m' -> rq_limit l v6 = rq_limit l' v6.
Proof. exact config_keys_independent. Qed.
Print Assumptions C11_config_keys_independent.

(* all presence patterns of the `query_limits` key at once: absent = both defaults; a table
   without more_specifics is refused; with one, every key by itself *)
Theorem C11_config_limits_spec : forall q l,
  rc_limits q = Some l <->
  match q with
  | QlAbsent => l = MkLim 8 19
  | QlEmpty => False
  | QlMore m =>
    rc_val_ok (ms_v4 m) /\ rc_val_ok (ms_v6 m) /\
    lim_v4 l = match ms_v4 m with Some (VInt z) => Z.to_N z | _ => 8 end /\
    lim_v6 l = match ms_v6 m with Some (VInt z) => Z.to_N z | _ => 19 end
  end.
Proof. exact config_limits_spec. Qed.
Print Assumptions C11_config_limits_spec.

(* http_api_path: trailing '/'s of the configured text do not matter, the unit answers at
   the text with exactly one '/' at its end *)
Theorem C11_config_path_normalised : forall p,
  rc_norm_path (rc_norm_path p) = rc_norm_path p /\
  rc_norm_path (p ++ [47]) = rc_norm_path p /\
  exists q, rc_norm_path p = q ++ [47] /\ (forall q', q <> q' ++ [47]).
Proof. exact norm_path_spec. Qed.
Print Assumptions C11_config_path_normalised.

(* loads: a refused file changes nothing; an accepted one puts its limits in force, keeps
   the RIB content and the path the unit answers at (the file's path only at the start) *)
Theorem C11_config_refused_load_is_noop : forall answer tbl reg s u,
  rc_limits (u_ql u) = None -> rc_step_with answer tbl reg s (KLoad u) = (s, None).
Proof. exact refused_load_is_noop. Qed.
Print Assumptions C11_config_refused_load_is_noop.

Theorem C11_config_accepted_load : forall answer tbl reg s u l,
  rc_limits (u_ql u) = Some l ->
  exists k', rc_step_with answer tbl reg s (KLoad u) = (Some k', None) /\
    st_lim (k_st k') = l /\
    match s with
    | None => k_path k' = rc_path_of u /\ st_rib (k_st k') = rib_empty
    | Some k => k_path k' = k_path k /\ st_rib (k_st k') = st_rib (k_st k)
    end.
Proof. exact accepted_load_sets_limits. Qed.
Print Assumptions C11_config_accepted_load.

(* refinement, over ALL histories: the unit that a configuration started is the unit of
   C11_limit_is_current on the lowered history - an accepted file is its OLimits (start-up
   AND every reload), a refused file and a request below another path are invisible to it.
   So every theorem above about [rq_run] holds for the configured unit. *)
Theorem C11_config_run_refines : forall answer tbl reg h k,
  rc_hits (rc_run_with answer tbl reg (Some k) h) =
  rq_run_with answer tbl reg (k_st k) (rc_lower (k_path k) h).
Proof. exact run_refines. Qed.
Print Assumptions C11_config_run_refines.

Theorem C11_config_start_refines : forall answer tbl reg u l h,
  rc_limits (u_ql u) = Some l ->
  rc_hits (rc_run_with answer tbl reg None (KLoad u :: h)) =
  rq_run_with answer tbl reg (MkSt l rib_empty) (rc_lower (rc_path_of u) h).
Proof. exact start_refines. Qed.
Print Assumptions C11_config_start_refines.

(* what a client sees right after a load (start-up: s = None; reload: s = a running unit):
   a moreSpecifics request for a family whose key the file leaves unset is refused iff the
   prefix is shorter than the documented default, for a key set to z iff shorter than /z *)
Theorem C11_config_decides : forall tbl reg s u m rq q inc,
  u_ql u = QlMore m -> rc_more_limits m <> None ->
  rq_prefix_of rq = Some q ->
  rq_parse_include (rq_params (rq_raw rq)) = Some inc -> i_more inc = true ->
  let base := match s with None => rc_path_of u | Some k => k_path k end in
  let bound := match rc_stated (rq_v6 rq) m with Some (VInt z) => z | _ => Z.of_N (rc_default_limit (rq_v6 rq)) end in
  let resp := rc_run tbl reg s [KLoad u; KRequest base rq] in
  ((Z.of_N (rq_len q) < bound)%Z -> resp = [KResp RBad]) /\
  ((bound <= Z.of_N (rq_len q))%Z -> exists r, resp = [KResp r] /\
     r = rq_handle (MkLim 0 0) (match s with None => rib_empty | Some k => st_rib (k_st k) end) tbl reg rq).
Proof. exact config_decides. Qed.
Print Assumptions C11_config_decides.

(* non-vacuity: only the IPv6 key (32) at start-up - IPv4 limit /8: moreSpecifics of /0 and /7
   refused, of /8 answered, IPv6 /31 refused, /32 answered; reload with only the IPv4 key (16)
   and another http_api_path - IPv6 back to /19, IPv4 /8 refused now; two reloads the
   deserialiser refuses change nothing; the unit still answers at its first path only *)
Example C11_config_history_example :
  let only6 := MkUnit (QlMore (MkMore None (Some (VInt 32)) false)) None in
  let only4 := MkUnit (QlMore (MkMore (Some (VInt 16)) None true)) (Some [47; 120; 47]) in
  let empty := MkUnit QlEmpty None in
  let big := MkUnit (QlMore (MkMore (Some (VInt 256)) None false)) None in
  let p := rc_default_path in
  let a := RJson (MkAns [] None (Some [])) in
  rc_run w_attrs w_reg None
    [KRequest p (w_conf_rq false 0); KLoad empty; KLoad only6;
     KRequest p (w_conf_rq false 0); KRequest p (w_conf_rq false 7); KRequest p (w_conf_rq false 8);
     KRequest p (w_conf_rq true 31); KRequest p (w_conf_rq true 32);
     KLoad only4;
     KRequest p (w_conf_rq true 16); KRequest p (w_conf_rq true 19); KRequest p (w_conf_rq false 8); KRequest p (w_conf_rq false 16);
     KLoad empty; KLoad big;
     KRequest p (w_conf_rq false 15); KRequest p (w_conf_rq false 16); KRequest [47; 120; 47] (w_conf_rq false 16)]
  = [KDown; KResp RBad; KResp RBad; KResp a; KResp RBad; KResp a;
     KResp RBad; KResp a; KResp RBad; KResp a;
     KResp RBad; KResp a; KNoUnit].
Proof. exact config_history_example. Qed.
