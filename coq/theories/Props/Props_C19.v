(* C19 - Text supplied by routers is always escaped in HTML and metrics output.
   Statements only; every proof is [exact <lemma>]. Strings are lists of
   Unicode scalar values: every result of String::from_utf8_lossy on any byte
   string is one, so "for all s" covers invalid UTF-8, <, >, &, quotes,
   newlines alike. *)
From Coq Require Import NArith List Bool String.
From RV Require Import Http.EscapeModel Http.EscapeProofs Http.PagesProofs Http.ResponseModel Http.ResponseProofs.
Import ListNotations.
Local Open Scope N_scope.

(* encode_safe leaves no <, >, double or single quote in its output, and every & it writes
   starts one of its six entities. *)
Theorem C19_encode_safe_neutral : forall s,
  forallb (fun x => negb (is_meta x)) (encode_safe s) = true /\ amp_ok (encode_safe s) = true.
Proof. exact encode_safe_neutral. Qed.
Print Assumptions C19_encode_safe_neutral.

(* ... and nothing is lost: decoding the references gives the router's string back. *)
Theorem C19_escaping_lossless : forall s, unescape (encode_safe s) = s.
Proof. exact unescape_encode_safe. Qed.
Print Assumptions C19_escaping_lossless.

(* A template whose every field is escaped for the context it stands in
   (text, double- or single-quoted attribute value) has the same tag skeleton
   - tags and attribute names, in order - whatever the field values are. *)
Theorem C19_page_structure_preserved : forall t1 t2,
  same_shape t1 t2 = true -> tpl_ok t1 = true -> page_skeleton t1 = page_skeleton t2.
Proof. exact page_structure_preserved. Qed.
Print Assumptions C19_page_structure_preserved.

(* The router list page (GET /routers/): any number of routers, any TLV
   strings, any configured path. *)
Theorem C19_list_page_fields_escaped : forall path rs, tpl_ok (list_page path rs) = true.
Proof. exact list_page_ok. Qed.
Print Assumptions C19_list_page_fields_escaped.

Theorem C19_list_page_structure : forall p1 p2 rs1 rs2,
  Forall2 row_alike rs1 rs2 -> page_skeleton (list_page p1 rs1) = page_skeleton (list_page p2 rs2).
Proof. exact list_page_structure. Qed.
Print Assumptions C19_list_page_structure.

(* The truncation of the list page (repaired code: 60 characters of the RAW
   string, then escaping) is a prefix and cannot fail. *)
Theorem C19_list_truncation_safe : forall s,
  (exists rest, s = truncate_tlv s ++ rest) /\ (List.length (truncate_tlv s) <= 60)%nat.
Proof. exact (fun s => conj (truncate_tlv_prefix s) (truncate_tlv_len s)). Qed.
Print Assumptions C19_list_truncation_safe.

(* The router info page (GET /routers/<id>[/flags/<peer>|/prefixes/<peer>]):
   sysName, sysDesc, the free-form strings, the parse-error texts and the base
   path derived from the request, any number of errors and peers. *)
Theorem C19_info_page_fields_escaped : forall base focus r, tpl_ok (info_page base focus r) = true.
Proof. exact info_page_ok. Qed.
Print Assumptions C19_info_page_fields_escaped.

Theorem C19_info_page_structure : forall b1 b2 focus r1 r2,
  info_alike r1 r2 -> page_skeleton (info_page b1 focus r1) = page_skeleton (info_page b2 focus r2).
Proof. exact info_page_structure. Qed.
Print Assumptions C19_info_page_structure.

(* ... and through the request processor, for all request paths that reach the page *)
Theorem C19_info_request_structure : forall api tpl req1 req2 r1 r2 t1 t2,
  info_alike r1 r2 ->
  info_request api tpl req1 r1 = Some t1 -> info_request api tpl req2 r2 = Some t2 ->
  snd (match info_route api tpl req1 r1 with Some x => x | None => ([], None) end) =
  snd (match info_route api tpl req2 r2 with Some x => x | None => ([], None) end) ->
  page_skeleton t1 = page_skeleton t2.
Proof. exact info_request_structure. Qed.
Print Assumptions C19_info_request_structure.

(* The code as found (e224a89) - kept as the formal statement of the defects
   repaired by the fix: commits. *)
Theorem C19_router_info_legacy_refuted :
  page_skeleton (info_page_legacy (lit "/routers/1") None (mk_named (lit "<script>alert(1)</script>")))
  <> page_skeleton (info_page_legacy (lit "/routers/1") None (mk_named (lit "r1"))).
Proof. exact info_page_legacy_refuted. Qed.
Print Assumptions C19_router_info_legacy_refuted.

Theorem C19_request_path_legacy_refuted :
  page_skeleton (info_page_gen KSafe KRaw (lit "/routers/""><img src=x>") None (mk_peered (lit "x")))
  <> page_skeleton (info_page_gen KSafe KRaw (lit "/routers/x") None (mk_peered (lit "x"))).
Proof. exact info_page_legacy_base_refuted. Qed.
Print Assumptions C19_request_path_legacy_refuted.

Theorem C19_list_truncation_legacy_refuted :
  (exists s, legacy_trunc s = None) /\ (exists s e, legacy_trunc s = Some e /\ amp_ok e = false).
Proof. exact (conj legacy_trunc_panics legacy_trunc_cuts_entity). Qed.
Print Assumptions C19_list_truncation_legacy_refuted.

(* Metrics: the router label is a function of the configured template and the
   ingress id only; it is free of quote, backslash and newline if the template
   is; such label sets are read back exactly by a consumer of the exposition
   format. The writer itself does not escape (last theorem): the premise is
   what keeps /metrics well-formed, and routing router text into a label
   breaks the first proof. *)
Theorem C19_metrics_labels_safe : forall tpl n1 n2 id,
  format_source_id tpl n1 id = format_source_id tpl n2 id /\
  (prom_value_ok tpl = true -> prom_value_ok (format_source_id tpl n1 id) = true).
Proof. exact (fun tpl n1 n2 id => conj (router_label_ignores_router_text tpl n1 n2 id) (router_label_safe tpl n1 id)). Qed.
Print Assumptions C19_metrics_labels_safe.

Theorem C19_metrics_label_roundtrip : forall nv ls,
  forallb label_ok (nv :: ls) = true -> prom_parse (prom_labels (nv :: ls)) = Some (nv :: ls).
Proof. exact prom_labels_roundtrip. Qed.
Print Assumptions C19_metrics_label_roundtrip.

Theorem C19_metrics_writer_unescaped_refuted :
  prom_parse (prom_labels [(lit "router", lit "a"",x=""b")]) <> Some [(lit "router", lit "a"",x=""b")].
Proof. exact prom_writer_unescaped_refuted. Qed.
Print Assumptions C19_metrics_writer_unescaped_refuted.

(* ---------------------------------------------------------------- every RESPONSE of the two endpoints *)
(* A response is (status, content type, body fragments tagged by origin). [resp_safe]: the content type is text/plain,
   or every field of the body is escaped for the context it stands in. Every answer of the router list - the page and
   the 400 for a rejected sort_by / sort_order value, for every decoded path and every list of decoded query pairs - and
   every answer of the router info endpoint is safe. *)
Theorem C19_list_responses_safe : forall api rs path params r,
  list_response api rs path params = Some r -> resp_safe r = true.
Proof. exact list_response_safe. Qed.
Print Assumptions C19_list_responses_safe.

Theorem C19_info_responses_safe : forall api tpl req rt r,
  info_response api tpl req rt = Some r -> resp_safe r = true.
Proof. exact info_response_safe. Qed.
Print Assumptions C19_info_responses_safe.

(* Reflected request text is either escaped or served as text/plain: in a safe response every fragment that comes from
   the request (path segment or query value) is escaped unless the response is text/plain ... *)
Theorem C19_reflected_request_text_escaped_or_plain : forall r, resp_safe r = true ->
  forall k v, In (FromRequest, Fld k v) (rs_body r) -> rs_ctype r = CtPlain \/ k <> KRaw.
Proof. exact reflected_escaped_or_plain. Qed.
Print Assumptions C19_reflected_request_text_escaped_or_plain.

(* ... and a safe response that a client may take for markup has the same tag skeleton whatever the field values are. *)
Theorem C19_safe_markup_structure : forall r t2, resp_safe r = true -> sniffable (rs_ctype r) = true ->
  same_shape (untag (rs_body r)) t2 = true -> page_skeleton (untag (rs_body r)) = page_skeleton t2.
Proof. exact safe_markup_structure. Qed.
Print Assumptions C19_safe_markup_structure.

(* What the list endpoint answers: the page (200, text/html), or 400 text/plain whose one request-derived fragment is the
   rejected value, raw. *)
Theorem C19_list_response_classified : forall api rs path params r,
  list_response api rs path params = Some r ->
  (rs_status r = 200 /\ rs_ctype r = CtHtml) \/
  (rs_status r = 400 /\ rs_ctype r = CtPlain /\ exists v, reflected r = [(KRaw, v)]).
Proof. exact list_response_status. Qed.
Print Assumptions C19_list_response_classified.

(* The same 400 body served as text/html (one helper for all three responses, seeded change C19-c2): not safe, the
   rejected value `<img src=x onerror=alert(1)>` changes the structure of the document; escaped, it would not. *)
Theorem C19_error_answer_as_html_refuted :
  match list_response_all_html (lit "/routers/") [] (lit "/routers/") [(lit "sort_by", hostile)],
        list_response_all_html (lit "/routers/") [] (lit "/routers/") [(lit "sort_by", lit "x")] with
  | Some r1, Some r2 =>
      resp_safe r1 = false /\ reflected r1 = [(KRaw, hostile)] /\
      same_shape (untag (rs_body r1)) (untag (rs_body r2)) = true /\
      page_skeleton (untag (rs_body r1)) <> page_skeleton (untag (rs_body r2)) /\
      page_skeleton (untag (escape_reflected (rs_body r1))) = page_skeleton (untag (rs_body r2))
  | _, _ => False
  end.
Proof. exact all_html_refuted. Qed.
Print Assumptions C19_error_answer_as_html_refuted.

(* non-vacuity of the response theorems: the code as it is answers the hostile sort_order with a 400 text/plain that
   does contain the value verbatim *)
Example C19_response_example :
  match list_response (lit "/routers/") [] (lit "/routers/") [(lit "sort_order", hostile)] with
  | Some r => rs_status r = 400 /\ rs_ctype r = CtPlain /\ resp_safe r = true /\ reflected r = [(KRaw, hostile)] /\
              contains hostile (body_text r) = true
  | None => False
  end.
Proof. exact plain_is_safe_example. Qed.

(* non-vacuity: two routers, one with hostile strings, one benign: the
   hypotheses hold and the hostile page really contains the escaped text *)
Example C19_example :
  let evil := MkRouter 7 (Some (10, 0, 0, 1))
                (Some ([lit "<script>""'&/"], [lit "</td><td>"], [lit "x"])) [(false, lit "<b>")] [(10, 0, 0, 9, 65001)] in
  let good := MkRouter 8 (Some (10, 0, 0, 2)) (Some ([lit "r1"], [lit "d"], [])) [(false, lit "e")] [(10, 0, 0, 9, 65001)] in
  Forall2 row_alike [evil; good] [good; good] /\ info_alike evil good /\
  tpl_ok (list_page (lit "/routers/") [evil; good]) = true /\
  same_shape (info_page (lit "/routers/<script>""'&/") None evil) (info_page (lit "/routers/8") None good) = true /\
  contains (lit "&lt;script&gt;&quot;&#x27;&amp;&#x2F;") (render (list_page (lit "/routers/") [evil; good])) = true /\
  List.length (page_skeleton (info_page (lit "/routers/7") None evil)) = 40%nat.
Proof. vm_compute. repeat split; try reflexivity; repeat constructor. Qed.
