(* C14 — Ingress ids are unique per live source and stable across reconnects.
   Statements only; every proof is [exact <lemma>]. *)
From stdpp Require Import gmap.
From Coq Require Import NArith.
From RV Require Import Ingress.IngressModel Ingress.IngressProofs.
From RV Require Import Ingress.IngressConcModel Ingress.IngressConcProofs.
From RV Require Import Ingress.IngressSitesModel Ingress.IngressSitesProofs.
Local Open Scope N_scope.

(* Every id handed out by a registration (direct, or through find-or-register)
   along ANY history of calls is distinct from every other one, as long as the
   history is shorter than the u32 counter. Calls are atomic in the code
   (fetch_add / RwLock), so histories cover all interleavings. *)
Theorem C14_fresh : forall ops : list op,
  N.of_nat (length ops) < two32 - 1 -> NoDup (fresh_ids ops).
Proof. exact fresh_ids_nodup. Qed.
Print Assumptions C14_fresh.

(* ... and the bound is sharp: the counter wraps after 2^32 registrations. *)
Theorem C14_wrap_refuted : forall r, serial r < two32 ->
  fst (reg_register (reg_n (N.to_nat two32) r)) = fst (reg_register r).
Proof. exact register_wraps. Qed.
Print Assumptions C14_wrap_refuted.

(* A peer looked up by (parent, address, AS, RIB view) gets the id it had
   before, whatever disciplined calls happened in between, and it is the only
   candidate (so the hash-order "first match" of the code is determined). *)
Theorem C14_lookup_stable : forall ops1 q ops2,
  forallb disc (ops1 ++ OForPeer q :: ops2) = true ->
  N.of_nat (length (ops1 ++ OForPeer q :: ops2)) < two32 - 1 ->
  let r1 := fst (run ops1) in
  let id := fst (find_or_register peer_match r1 q) in
  let r2 := fst (run_from (snd (find_or_register peer_match r1 q)) ops2) in
  find_or_register peer_match r2 q = (id, r2) /\ reg_find_peers r2 q = [id].
Proof. exact lookup_stable_peer. Qed.
Print Assumptions C14_lookup_stable.

(* The same at the router level (bmp_tcp_in accept loop): a router looked up by
   (parent = the unit's id, remote address) gets the id it had before, and it is
   the only candidate. router_match compares (parent, address) only, so the
   discipline [disc_r units] must keep peer entries from answering router
   queries: [units] is any set of unit ids; router queries are complete and name
   a unit id as parent, peer queries name a parent that is NOT a unit id (in the
   callers: a router's id). *)
Theorem C14_lookup_stable_router : forall units ops1 q ops2,
  forallb (disc_r units) (ops1 ++ OForRouter q :: ops2) = true ->
  N.of_nat (length (ops1 ++ OForRouter q :: ops2)) < two32 - 1 ->
  let r1 := fst (run ops1) in
  let id := fst (find_or_register router_match r1 q) in
  let r2 := fst (run_from (snd (find_or_register router_match r1 q)) ops2) in
  find_or_register router_match r2 q = (id, r2) /\ reg_find_routers r2 q = [id].
Proof. exact lookup_stable_router. Qed.
Print Assumptions C14_lookup_stable_router.

(* ... with the unit ids read off the history itself ([units_of] = the parents its
   router queries name): [disc_hist] is a closed boolean condition on the history *)
Theorem C14_lookup_stable_router_hist : forall ops1 q ops2,
  disc_hist (ops1 ++ OForRouter q :: ops2) = true ->
  N.of_nat (length (ops1 ++ OForRouter q :: ops2)) < two32 - 1 ->
  let r1 := fst (run ops1) in
  let id := fst (find_or_register router_match r1 q) in
  let r2 := fst (run_from (snd (find_or_register router_match r1 q)) ops2) in
  find_or_register router_match r2 q = (id, r2) /\ reg_find_routers r2 q = [id].
Proof. exact lookup_stable_router_hist. Qed.
Print Assumptions C14_lookup_stable_router_hist.

(* ... and the separation of parents is needed: one peer registered under the
   router query's own (parent, address) and the router query has two candidates *)
Theorem C14_router_lookup_needs_discipline :
  let qr := MkInfo None (Some 1) (Some 9) None None None None None in
  let qp := MkInfo None (Some 1) (Some 9) (Some 65000) (Some 0) None None None in
  let ops := [ORegister; OForRouter qr; OForPeer qp] in
  forallb disc ops = true /\ disc_hist ops = false /\
  length (reg_find_routers (fst (run ops)) qr) = 2%nat.
Proof. exact router_lookup_needs_discipline. Qed.
Print Assumptions C14_router_lookup_needs_discipline.

Theorem C14_children_exact : forall r p id,
  id ∈ reg_ids_for_parent r p <-> exists i, infos r !! id = Some i /\ i_parent i = Some p.
Proof. exact elem_of_ids_for_parent. Qed.
Print Assumptions C14_children_exact.

Theorem C14_children_nodup : forall r p, NoDup (reg_ids_for_parent r p).
Proof. exact NoDup_ids_for_parent. Qed.
Print Assumptions C14_children_nodup.

Theorem C14_update_keeps_unsupplied : forall r id new old,
  infos r !! id = Some old ->
  exists res, infos (reg_update_info r id new) !! id = Some res /\
    field_updated (i_unit old) (i_unit new) (i_unit res) /\
    field_updated (i_parent old) (i_parent new) (i_parent res) /\
    field_updated (i_addr old) (i_addr new) (i_addr res) /\
    field_updated (i_asn old) (i_asn new) (i_asn res) /\
    field_updated (i_rib old) (i_rib new) (i_rib res) /\
    field_updated (i_file old) (i_file new) (i_file res) /\
    field_updated (i_name old) (i_name new) (i_name res) /\
    field_updated (i_desc old) (i_desc new) (i_desc res).
Proof. exact update_info_fields. Qed.
Print Assumptions C14_update_keeps_unsupplied.

Theorem C14_update_spares_others : forall r id new k,
  k <> id -> infos (reg_update_info r id new) !! k = infos r !! k.
Proof. exact update_info_others. Qed.
Print Assumptions C14_update_spares_others.

(* non-vacuity: a disciplined history with two sessions of one peer *)
Example C14_example :
  let q := MkInfo None (Some 7) (Some 1) (Some 65000) (Some 0) None None None in
  let ops1 := [ORegister; OForRouter (MkInfo None (Some 1) (Some 9) None None None None None)] in
  let ops2 := [OForPeer (MkInfo None (Some 7) (Some 2) (Some 65001) (Some 0) None None None);
               OUpdate 2 (MkInfo None None None None None None (Some 5) None)] in
  forallb disc (ops1 ++ OForPeer q :: ops2) = true /\
  fst (find_or_register peer_match (fst (run ops1)) q) = 3 /\
  fresh_ids (ops1 ++ OForPeer q :: ops2 ++ [OForPeer q]) = [1; 2; 3; 4].
Proof. vm_compute. repeat split; reflexivity. Qed.

(* non-vacuity of the router-level theorem: unit id 1, a router (1, addr 9) -> id 2,
   peers of that router (parent 2, one of them with the router's own address 9),
   a second router, descriptive updates; the history satisfies [disc_hist] (and
   [disc_r] for units = {1}); the router is found again under id 2, alone *)
Example C14_router_example :
  let q := MkInfo None (Some 1) (Some 9) None None None None None in
  let ops1 := [ORegister] in
  let ops2 := [OForPeer (MkInfo None (Some 2) (Some 9) (Some 65000) (Some 0) None None None);
               OForPeer (MkInfo None (Some 2) (Some 3) (Some 65001) None None None None);
               OForRouter (MkInfo None (Some 1) (Some 8) None None None None None);
               OUpdate 2 (MkInfo None None None None None None (Some 5) None)] in
  disc_hist (ops1 ++ OForRouter q :: ops2) = true /\
  forallb (disc_r (N.eqb 1)) (ops1 ++ OForRouter q :: ops2) = true /\
  fst (find_or_register router_match (fst (run ops1)) q) = 2 /\
  reg_find_routers (fst (run (ops1 ++ OForRouter q :: ops2))) q = [2] /\
  fresh_ids (ops1 ++ OForRouter q :: ops2 ++ [OForRouter q]) = [1; 2; 3; 4; 5].
Proof. vm_compute. repeat split; reflexivity. Qed.

(* ================= update_info under concurrency (IngressConcModel.v) =================
   Threads run programs of update_info calls on any ids against one shared map;
   a schedule names the thread that takes the next step. [Atomic] = the code
   (the whole body under the write lock: one step per call). *)

(* EVERY schedule is a sequential history: the map after the schedule is the
   map after the calls that took effect, applied one after another in trace
   order, and the trace interleaves the threads' programs - per thread exactly
   the calls it has got through, in program order. So the final info of every
   id is the field-wise merge of all calls in an order consistent with every
   thread's own order. *)
Theorem C14_update_is_atomic : forall sched st,
  let st' := fst (crun Atomic st sched) in
  let tr := snd (crun Atomic st sched) in
  c_infos st' = seq_apply (c_infos st) (map snd tr) /\
  forall t th, c_threads st !! t = Some th ->
    exists th', c_threads st' !! t = Some th' /\ t_todo th = calls_of t tr ++ t_todo th'.
Proof. exact atomic_linearizable. Qed.
Print Assumptions C14_update_is_atomic.

(* "A metadata update keeps every field it does not supply", under every
   interleaving: if no other thread supplies field f of id, then at every point
   of every schedule that field holds what thread t's own completed calls made
   it (the last value one of them supplied, else the initial value) - at the
   end, and whenever t looks after a call of its own has returned. *)
Theorem C14_update_own_field : forall sched st t f id,
  (forall t' th c, t' <> t -> c_threads st !! t' = Some th -> c ∈ t_todo th ->
                   c_id c = id -> fld_get f (c_new c) = None) ->
  let st' := fst (crun Atomic st sched) in
  let tr := snd (crun Atomic st sched) in
  fld_of (c_infos st' !! id) f = last_supplied f id (calls_of t tr) (fld_of (c_infos st !! id) f).
Proof. exact atomic_own_field. Qed.
Print Assumptions C14_update_own_field.

Theorem C14_update_reads_own_write : forall sched st t f id done c v,
  (forall t' th c, t' <> t -> c_threads st !! t' = Some th -> c ∈ t_todo th ->
                   c_id c = id -> fld_get f (c_new c) = None) ->
  calls_of t (snd (crun Atomic st sched)) = done ++ [c] ->
  c_id c = id -> fld_get f (c_new c) = Some v ->
  fld_of (c_infos (fst (crun Atomic st sched)) !! id) f = Some v.
Proof. exact atomic_reads_own_write. Qed.
Print Assumptions C14_update_reads_own_write.

(* no schedule of update_info calls, whatever they supply, unsets a field:
   parent / address / AS / RIB view of an entry never disappear *)
Theorem C14_update_keeps_set_fields : forall sched st f id,
  is_some (fld_of (c_infos st !! id) f) = true ->
  is_some (fld_of (c_infos (fst (crun Atomic st sched)) !! id) f) = true.
Proof. exact atomic_keeps_set_fields. Qed.
Print Assumptions C14_update_keeps_set_fields.

(* while threads update descriptive fields of any ids in any interleaving, every
   lookup keeps exactly its candidates *)
Theorem C14_lookups_stable_under_updates : forall sched st,
  (forall t th c, c_threads st !! t = Some th -> c ∈ t_todo th -> meta_only (c_new c) = true) ->
  let m' := c_infos (fst (crun Atomic st sched)) in
  forall s q x,
    (x ∈ reg_find_peers (MkReg s m') q <-> x ∈ reg_find_peers (MkReg s (c_infos st)) q) /\
    (x ∈ reg_find_routers (MkReg s m') q <-> x ∈ reg_find_routers (MkReg s (c_infos st)) q) /\
    (forall p, x ∈ reg_ids_for_parent (MkReg s m') p <-> x ∈ reg_ids_for_parent (MkReg s (c_infos st)) p).
Proof. exact atomic_lookups_stable. Qed.
Print Assumptions C14_lookups_stable_under_updates.

(* The counterfactual [Split] (merge into a copy fetched under the read lock,
   write lock only for the swap) is refuted: two calls with disjoint fields on
   one id, schedule read-read-write-write; both calls have returned and the
   description thread 1 wrote is gone, though both sequential orders (and the
   same schedule of the atomic variant) keep it. *)
Theorem C14_update_split_refuted :
  let i0 := MkInfo None (Some 1) (Some 9) None None None None None in
  let name5 := MkInfo None None None None None None (Some 5) None in
  let desc7 := MkInfo None None None None None None None (Some 7) in
  let progs := [[MkCall 2 name5]; [MkCall 2 desc7]] in
  let st0 := cinit {[ 2 := i0 ]} progs in
  let st' := fst (crun Split st0 [0; 1; 1; 0]%nat) in
  let tr := snd (crun Split st0 [0; 1; 1; 0]%nat) in
  all_done st' = true /\
  tr = [(1%nat, MkCall 2 desc7); (0%nat, MkCall 2 name5)] /\
  fld_of (c_infos st' !! 2) FDesc = None /\
  last_supplied FDesc 2 (calls_of 1 tr) None = Some 7 /\
  fld_of (seq_apply (c_infos st0) [MkCall 2 name5; MkCall 2 desc7] !! 2) FDesc = Some 7 /\
  fld_of (seq_apply (c_infos st0) [MkCall 2 desc7; MkCall 2 name5] !! 2) FDesc = Some 7 /\
  fld_of (c_infos (fst (crun Atomic st0 [0; 1; 1; 0]%nat)) !! 2) FDesc = Some 7.
Proof. exact split_loses_update. Qed.
Print Assumptions C14_update_split_refuted.

(* ... and it can lose a source's identity: the registration's update_info racing
   with a descriptive one leaves an entry without parent, address and AS - the
   unit has no child, the peer is not found (a returning peer gets a second id) *)
Theorem C14_update_split_loses_identity :
  let regi := MkInfo None (Some 1) (Some 9) (Some 65000) None None None None in
  let name5 := MkInfo None None None None None None (Some 5) None in
  let progs := [[MkCall 2 name5]; [MkCall 2 regi]] in
  let st0 := cinit ∅ progs in
  let st' := fst (crun Split st0 [0; 1; 1; 0]%nat) in
  let st_a := fst (crun Atomic st0 [0; 1; 1; 0]%nat) in
  all_done st' = true /\
  reg_ids_for_parent (MkReg 3 (c_infos st')) 1 = [] /\
  reg_find_peers (MkReg 3 (c_infos st')) regi = [] /\
  reg_ids_for_parent (MkReg 3 (c_infos st_a)) 1 = [2] /\
  reg_find_peers (MkReg 3 (c_infos st_a)) regi = [2].
Proof. exact split_loses_identity. Qed.
Print Assumptions C14_update_split_loses_identity.

(* ================= the units' registration and lookup sites (IngressSitesModel.v) =================
   [code_sites]: bmp router, bmp peer, bgp session, mrt dump peer, mrt update
   peer, mrt state change - which fields each stores, which it asks with. *)

(* the check on the masks is exact: agreeing masks make the query match the stored
   entry for every source the unit knows enough about; disagreeing masks fail
   on a fully described source *)
Theorem C14_site_check_sound : forall k q st src,
  compat k q st = true -> src_ok k src = true -> matcher k (proj q src) (proj st src) = true.
Proof. exact compat_sound. Qed.
Print Assumptions C14_site_check_sound.

Theorem C14_site_check_complete : forall k q st,
  compat k q st = false ->
  let src := MkInfo (Some 1) (Some 1) (Some 1) (Some 1) (Some 1) (Some 1) (Some 1) (Some 1) in
  src_ok k src = true /\ matcher k (proj q src) (proj st src) = false.
Proof. exact compat_complete. Qed.
Print Assumptions C14_site_check_complete.

(* the sites of the code agree: within every class, what each registering site
   stores is what each looking site asks for *)
Theorem C14_code_sites_consistent : sites_consistent code_sites = true.
Proof. exact code_sites_consistent. Qed.
Print Assumptions C14_code_sites_consistent.

(* A source filed by site s1 (fresh id) is found again, after ANY history of sites
   handling any sources and descriptive updates, by every site s2 whose query
   agrees with what s1 stored: the id is among s2's candidates, s2 files no
   second id and leaves the register alone. *)
Theorem C14_site_refound : forall ops1 s1 src ops2 s2 k,
  forallb sdisc (ops1 ++ SSite s1 src :: ops2) = true ->
  N.of_nat (length (ops1 ++ SSite s1 src :: ops2)) < two32 - 1 ->
  s_lookup s2 = Some k -> compat k (s_query s2) (s_store s1) = true -> src_ok k src = true ->
  let r1 := fst (srun ops1) in
  site_fresh r1 s1 src = true ->
  let r2 := fst (srun_from (fst (site_step r1 s1 src)) ops2) in
  snd (site_step r1 s1 src) = Some (serial r1) /\
  serial r1 ∈ site_candidates r2 s2 src /\
  site_fresh r2 s2 src = false /\ fst (site_step r2 s2 src) = r2 /\
  exists id', snd (site_step r2 s2 src) = Some id' /\ id' ∈ site_candidates r2 s2 src.
Proof. exact site_registered_refound. Qed.
Print Assumptions C14_site_refound.

(* ... and an id a site's lookup found stays a candidate of that lookup *)
Theorem C14_site_found_refound : forall ops1 s1 src ops2 id,
  forallb sdisc (ops1 ++ SSite s1 src :: ops2) = true ->
  N.of_nat (length (ops1 ++ SSite s1 src :: ops2)) < two32 - 1 ->
  let r1 := fst (srun ops1) in
  id ∈ site_candidates r1 s1 src ->
  let r2 := fst (srun_from (fst (site_step r1 s1 src)) ops2) in
  fst (site_step r1 s1 src) = r1 /\
  id ∈ site_candidates r2 s1 src /\ site_fresh r2 s1 src = false /\ fst (site_step r2 s1 src) = r2.
Proof. exact site_found_refound. Qed.
Print Assumptions C14_site_found_refound.

(* for the code: whichever site of a unit files a source, every looking site of the
   same class finds it, after any history *)
Theorem C14_code_sites_refound : forall ops1 s1 src ops2 s2 k,
  s1 ∈ code_sites -> s2 ∈ code_sites -> s_class s2 = s_class s1 ->
  s_registers s1 = true -> s_lookup s2 = Some k -> src_ok k src = true ->
  forallb sdisc (ops1 ++ SSite s1 src :: ops2) = true ->
  N.of_nat (length (ops1 ++ SSite s1 src :: ops2)) < two32 - 1 ->
  let r1 := fst (srun ops1) in
  site_fresh r1 s1 src = true ->
  let r2 := fst (srun_from (fst (site_step r1 s1 src)) ops2) in
  serial r1 ∈ site_candidates r2 s2 src /\ site_fresh r2 s2 src = false /\ fst (site_step r2 s2 src) = r2.
Proof. exact code_sites_refound. Qed.
Print Assumptions C14_code_sites_refound.

(* peer level, under the discipline [sok_run] (sites well formed; a site that files
   ids without looking - the table dump, known finding C16-1 - is only handed
   peers that have no id): the id is the ONLY candidate and the one s2 uses *)
Theorem C14_site_refound_unique : forall ops1 s1 src ops2 s2,
  sok_run reg_new (ops1 ++ SSite s1 src :: ops2) = true ->
  N.of_nat (length (ops1 ++ SSite s1 src :: ops2)) < two32 - 1 ->
  s_lookup s2 = Some MPeer -> compat MPeer (s_query s2) (s_store s1) = true -> src_ok MPeer src = true ->
  let r1 := fst (srun ops1) in
  site_fresh r1 s1 src = true ->
  let r2 := fst (srun_from (fst (site_step r1 s1 src)) ops2) in
  site_candidates r2 s2 src = [serial r1] /\ site_step r2 s2 src = (r2, Some (serial r1)).
Proof. exact site_refound_unique. Qed.
Print Assumptions C14_site_refound_unique.

(* the counterfactual dump site that also stores a RIB view (seeded C14-b2) fails the
   check, and for cause: dump, then an update and a state change of the same
   peer - second id 3 (two children of the unit); with the code's dump site: id 2 throughout *)
Theorem C14_dump_rib_refuted :
  let src := MkInfo None (Some 1) (Some 10) (Some 65010) (Some 0) (Some 3) None None in
  let r0 := MkReg 2 ∅ in
  pair_ok site_mrt_update site_mrt_dump_rib = false /\
  sites_consistent (site_mrt_dump_rib :: code_sites) = false /\
  snd (srun_from r0 [SSite site_mrt_dump_rib src; SSite site_mrt_update src; SSite site_mrt_state src])
    = [Some 2; Some 3; Some 3] /\
  length (reg_ids_for_parent (fst (srun_from r0 [SSite site_mrt_dump_rib src; SSite site_mrt_update src])) 1) = 2%nat /\
  snd (srun_from r0 [SSite site_mrt_dump src; SSite site_mrt_update src; SSite site_mrt_state src])
    = [Some 2; Some 2; Some 2] /\
  reg_ids_for_parent (fst (srun_from r0 [SSite site_mrt_dump src; SSite site_mrt_update src])) 1 = [2].
Proof. exact dump_rib_refuted. Qed.
Print Assumptions C14_dump_rib_refuted.

(* non-vacuity of the site theorems: MRT unit 1 imports dumps of two peers, a BMP
   peer and BGP sessions with the same address and AS come and go, a description
   is updated; [sok_run] holds; update file and state change use the dump's id 2 *)
Example C14_sites_example :
  let p1 := MkInfo None (Some 1) (Some 10) (Some 65010) None (Some 3) None None in
  let p2 := MkInfo None (Some 1) (Some 11) (Some 65010) None (Some 3) None None in
  let bp := MkInfo None (Some 5) (Some 10) (Some 65010) (Some 0) None None None in
  let bg := MkInfo None None (Some 10) (Some 65010) None None (Some 9) None in
  let ops1 := [SSite site_bgp_session bg] in
  let ops2 := [SSite site_mrt_dump p2; SSite site_bmp_peer bp; SSite site_bgp_session bg;
               SMeta 2 (MkInfo None None None None None None (Some 4) None);
               SSite site_mrt_update p2] in
  let ops := ops1 ++ SSite site_mrt_dump p1 :: ops2 in
  sok_run reg_new ops = true /\
  site_fresh (fst (srun ops1)) site_mrt_dump p1 = true /\
  serial (fst (srun ops1)) = 2 /\
  snd (srun (ops ++ [SSite site_mrt_update p1; SSite site_mrt_state p1])) =
    [Some 1; Some 2; Some 3; Some 4; Some 5; None; Some 3; Some 2; Some 2].
Proof. exact sites_example. Qed.

(* ---- a router that connects again BEFORE the task of its previous connection has cleaned up (E2e/E2eModel.v, fifth part;
   engine `e2e`, ops C2 / X2 / RL) ---- *)
From RV Require E2e.E2eModel E2e.E2eProofs Pipe.PipeModel.

(* The accept loop in ANY state of the pipeline: when the register holds an id for (unit, address), the connection it accepts
   from that address gets THAT id - whatever sessions are live, in particular while a session of that id is still in
   router_states -, the register is left as it is, nobody else's session moves. *)
Theorem C14_accept_reuses_registered_id : forall w k rid rest,
  reg_find_routers (PipeModel.w_reg w) (PipeModel.router_query (PipeModel.w_unit w) k) = rid :: rest ->
  let w' := fst (PipeModel.wstep w (PipeModel.WConnect k)) in
  PipeModel.w_routers w' !! k = Some (rid, BmpModel.sm_init) /\ PipeModel.w_reg w' = PipeModel.w_reg w /\
  (forall j, j <> k -> PipeModel.w_routers w' !! j = PipeModel.w_routers w !! j).
Proof. exact E2eProofs.reconnect_keeps_id_world. Qed.
Print Assumptions C14_accept_reuses_registered_id.

(* ... hence a router that opens a second connection while its first one is open (any state in which the register answers the
   router's (unit, address) with exactly its id - C14_lookup_stable_router_hist: every disciplined history): same id, the old
   connection parked under it, register unchanged, still ONE id for (unit, address), the unit's children unchanged. *)
Theorem C14_reconnect_before_cleanup_keeps_id : forall st k rid s,
  E2eModel.d_live st k = Some (rid, s) -> E2eModel.d_old st k = None ->
  reg_find_routers (PipeModel.w_reg (E2eModel.es_w (E2eModel.ds_e st)))
                   (PipeModel.router_query (PipeModel.w_unit (E2eModel.es_w (E2eModel.ds_e st))) k) = [rid] ->
  let st' := E2eModel.d_step st (E2eModel.DSecond k) in
  E2eModel.d_rid st' k = Some rid /\ E2eModel.d_old st' k = Some rid /\
  PipeModel.w_reg (E2eModel.es_w (E2eModel.ds_e st')) = PipeModel.w_reg (E2eModel.es_w (E2eModel.ds_e st)) /\
  reg_find_routers (PipeModel.w_reg (E2eModel.es_w (E2eModel.ds_e st')))
                   (PipeModel.router_query (PipeModel.w_unit (E2eModel.es_w (E2eModel.ds_e st'))) k) = [rid] /\
  reg_ids_for_parent (PipeModel.w_reg (E2eModel.es_w (E2eModel.ds_e st'))) (PipeModel.w_unit (E2eModel.es_w (E2eModel.ds_e st')))
  = reg_ids_for_parent (PipeModel.w_reg (E2eModel.es_w (E2eModel.ds_e st))) (PipeModel.w_unit (E2eModel.es_w (E2eModel.ds_e st))).
Proof. exact E2eProofs.reconnect_before_cleanup_keeps_id. Qed.
Print Assumptions C14_reconnect_before_cleanup_keeps_id.

(* seeded change C14-c2 as a model (reuse the id only when router_states no longer holds it): a router connects, connects again:
   a second id, two register entries for one (unit, address), an extra child of the unit - where the code's loop gives id and
   register back unchanged *)
Theorem C14_reuse_only_when_not_live_refuted :
  let w1 := fst (PipeModel.wstep PipeModel.world_init (PipeModel.WConnect 0)) in
  let '(id2, r2) := E2eModel.accept_guarded w1 0 in
  option_map fst (PipeModel.w_routers w1 !! 0%N) = Some 2%N /\ id2 = 3%N /\
  length (reg_find_routers r2 (PipeModel.router_query (PipeModel.w_unit w1) 0)) = 2%nat /\
  length (reg_ids_for_parent r2 (PipeModel.w_unit w1)) = 2%nat /\
  option_map fst (PipeModel.w_routers (fst (PipeModel.wstep w1 (PipeModel.WConnect 0))) !! 0%N) = Some 2%N /\
  PipeModel.w_reg (fst (PipeModel.wstep w1 (PipeModel.WConnect 0))) = PipeModel.w_reg w1.
Proof. exact E2eProofs.reuse_only_when_not_live_refuted. Qed.
Print Assumptions C14_reuse_only_when_not_live_refuted.

(* known finding C14-old-task-removes-new-session: the old connection ends after the new session is up - the route the NEW
   session announced (prefix 2) reads withdrawn where the property's reading has it active (the old session's route, prefix 1,
   is withdrawn in both), and the connected router is not listed *)
Theorem C14_old_task_removes_new_session_refuted :
  let st := E2eModel.d_run (E2eModel.d_init E2eModel.SNone 0) (E2eProofs.d_example ++ [E2eModel.DOldEnds 0]) in
  let x := (0%N, (0, 0, 0, 0, 1, 65001, 1)%N) in
  E2eModel.d_rid st 0 = Some 2%N /\
  map (fun e : N * bool * N => (snd (fst e), snd e)) (RibModel.rib_query (E2eModel.ru_rib (E2eModel.es_rib (E2eModel.ds_e st))) 0 2) = [(false, 4%N)] /\
  PipeModel.s_rib (E2eModel.es_s (E2eModel.ds_e st)) !! (0%N, 2%N, x) = Some (true, 4%N) /\
  PipeModel.s_rib (E2eModel.es_s (E2eModel.ds_e st)) !! (0%N, 1%N, x) = Some (false, 3%N) /\
  E2eModel.d_listed_code st = 0%N /\ E2eModel.d_listed_spec st = 1%N.
Proof. exact E2eProofs.old_task_removes_new_session_refuted. Qed.
Print Assumptions C14_old_task_removes_new_session_refuted.

Example C14_second_connection_example :
  let st := E2eModel.d_run (E2eModel.d_init E2eModel.SNone 0) E2eProofs.d_example in
  E2eModel.d_rid st 0 = Some 2%N /\ E2eModel.d_old st 0 = Some 2%N /\ E2eModel.d_listed_code st = 1%N /\
  length (reg_find_routers (PipeModel.w_reg (E2eModel.es_w (E2eModel.ds_e st))) (PipeModel.router_query 1 0)) = 1%nat /\
  map (fun e : N * bool * N => (snd (fst e), snd e)) (RibModel.rib_query (E2eModel.ru_rib (E2eModel.es_rib (E2eModel.ds_e st))) 0 1) = [(true, 3%N)] /\
  map (fun e : N * bool * N => (snd (fst e), snd e)) (RibModel.rib_query (E2eModel.ru_rib (E2eModel.es_rib (E2eModel.ds_e st))) 0 2) = [(true, 4%N)].
Proof. exact E2eProofs.second_connection_example. Qed.

(* ---- one id per router and per peer over ALL histories of the e2e world with second connections (E2e/E2eIdsProofs.v) ----
   [d_accepts st0 h]: every connection the accept loop took along h - first connections, second connections before the
   clean-up (DSecond), re-connections - as (router address, id handed: the id of the session table after the accept).
   [d_peerups st0 h]: every Peer Up along h as (router id of the session, per-peer header, id the session's peer table holds
   for that header after the message). Histories: every list of d-world operations - connect, second connection, old connection
   ends, every BMP message, disconnect, BGP sessions (which draw ids from the same counter), script / unit edits, reloads.
   Only hypothesis: the history is shorter than the u32 counter (no wrap: C14_wrap_refuted). *)
From RV Require E2e.E2eIdsProofs.

Theorem C14_one_id_per_router_over_histories : forall s0 n0 (h : list E2eModel.dop),
  N.of_nat (length h) < two32 - 2 ->
  let st0 := E2eModel.d_init s0 n0 in
  let st := E2eModel.d_run st0 h in
  let r := PipeModel.w_reg (E2eModel.es_w (E2eModel.ds_e st)) in
  let u := PipeModel.w_unit (E2eModel.es_w (E2eModel.ds_e st)) in
  let acc := E2eIdsProofs.d_accepts st0 h in
  let ups := E2eIdsProofs.d_peerups st0 h in
  u = 1 /\
  (* routers: EXACTLY ONE register entry per (unit, address) that ever connected, and every connection accepted from that
     address was handed its id; the unit lists it as a child *)
  (forall k id, (k, id) ∈ acc ->
     reg_find_routers r (PipeModel.router_query u k) = [id] /\ id ∈ reg_ids_for_parent r u) /\
  (* ... one id per address, one address per id *)
  (forall k id k' id', (k, id) ∈ acc -> (k', id') ∈ acc -> (k = k' <-> id = id')) /\
  (* ... ids_for_parent(unit) lists each ONCE, and lists nothing but the routers that connected *)
  NoDup (reg_ids_for_parent r u) /\
  (forall id, id ∈ reg_ids_for_parent r u <-> exists k, (k, id) ∈ acc) /\
  (* ... the live sessions and the parked old connections are among them *)
  (forall k rid s, E2eModel.d_live st k = Some (rid, s) -> (k, rid) ∈ acc) /\
  (forall k rid, E2eModel.d_old st k = Some rid -> (k, rid) ∈ acc) /\
  (* peers: EXACTLY ONE entry per (router id, address, AS, RIB view) - the register's identity of a peer - that a Peer Up
     named, the id every such Peer Up got (in any session of that router: before / after a second connection, a reconnect) *)
  (forall rid p id, (rid, p, id) ∈ ups ->
     (exists k, (k, rid) ∈ acc) /\
     reg_find_peers r (BmpModel.peer_query rid p) = [id] /\ id ∈ reg_ids_for_parent r rid) /\
  (* ... two Peer Ups under one router got the same id EXACTLY when their headers agree in address, AS and RIB view: one peer
     never has two ids; headers differing only in BGP id / policy flag / distinguisher SHARE one (known finding C02-1) *)
  (forall rid p id p' id', (rid, p, id) ∈ ups -> (rid, p', id') ∈ ups ->
     (id = id' <-> BmpModel.peer_query rid p = BmpModel.peer_query rid p')) /\
  (* ... ids_for_parent(router) lists each once and nothing but the peers that came up *)
  (forall rid, NoDup (reg_ids_for_parent r rid)) /\
  (forall rid id, (exists k, (k, rid) ∈ acc) -> (id ∈ reg_ids_for_parent r rid <-> exists p, (rid, p, id) ∈ ups)) /\
  (* ... and what the peer table of a live session holds is that entry's id *)
  (forall k rid s p pe, E2eModel.d_live st k = Some (rid, s) -> BmpModel.sm_peers s !! p = Some pe ->
     reg_find_peers r (BmpModel.peer_query rid p) = [BmpModel.pe_id pe]).
Proof. exact E2eIdsProofs.one_id_per_router_over_histories. Qed.
Print Assumptions C14_one_id_per_router_over_histories.

(* ... so the hypothesis of C14_reconnect_before_cleanup_keeps_id is met after EVERY history: a router that is connected and
   has no parked connection opens a second one - same id, old connection parked under it, register and the unit's children
   unchanged, still one entry *)
Theorem C14_reconnect_before_cleanup_keeps_id_over_histories : forall s0 n0 (h : list E2eModel.dop) k rid s,
  N.of_nat (length h) < two32 - 2 ->
  let st := E2eModel.d_run (E2eModel.d_init s0 n0) h in
  E2eModel.d_live st k = Some (rid, s) -> E2eModel.d_old st k = None ->
  let st' := E2eModel.d_step st (E2eModel.DSecond k) in
  E2eModel.d_rid st' k = Some rid /\ E2eModel.d_old st' k = Some rid /\
  PipeModel.w_reg (E2eModel.es_w (E2eModel.ds_e st')) = PipeModel.w_reg (E2eModel.es_w (E2eModel.ds_e st)) /\
  reg_find_routers (PipeModel.w_reg (E2eModel.es_w (E2eModel.ds_e st')))
                   (PipeModel.router_query (PipeModel.w_unit (E2eModel.es_w (E2eModel.ds_e st'))) k) = [rid] /\
  reg_ids_for_parent (PipeModel.w_reg (E2eModel.es_w (E2eModel.ds_e st'))) (PipeModel.w_unit (E2eModel.es_w (E2eModel.ds_e st')))
  = reg_ids_for_parent (PipeModel.w_reg (E2eModel.es_w (E2eModel.ds_e st))) (PipeModel.w_unit (E2eModel.es_w (E2eModel.ds_e st))).
Proof. exact E2eIdsProofs.reconnect_before_cleanup_keeps_id_over_histories. Qed.
Print Assumptions C14_reconnect_before_cleanup_keeps_id_over_histories.

(* the records are complete: the accept loop's every connection is in [d_accepts] with the id find-or-register gave it -
   in particular a second connection of a connected router -, and every Peer Up a session in its dump / update phase
   receives is in [d_peerups] *)
Theorem C14_accept_recorded : forall w k,
  E2eIdsProofs.w_accept_of w (PipeModel.WConnect k) =
  [(k, fst (find_or_register router_match (PipeModel.w_reg w) (PipeModel.router_query (PipeModel.w_unit w) k)))].
Proof. exact E2eIdsProofs.accept_recorded. Qed.
Print Assumptions C14_accept_recorded.

Theorem C14_second_connection_recorded : forall st k,
  E2eModel.d_live st k <> None -> E2eModel.d_old st k = None ->
  exists id, E2eIdsProofs.d_accept_of st (E2eModel.DSecond k) = [(k, id)] /\
             E2eModel.d_rid (E2eModel.d_step st (E2eModel.DSecond k)) k = Some id.
Proof. exact E2eIdsProofs.second_connection_recorded. Qed.
Print Assumptions C14_second_connection_recorded.

Theorem C14_peer_up_recorded : forall w k rid s p e,
  PipeModel.w_routers w !! k = Some (rid, s) ->
  (BmpModel.sm_phase s = BmpModel.PDump \/ BmpModel.sm_phase s = BmpModel.PUpd) ->
  exists id, E2eIdsProofs.w_peerup_of w (PipeModel.WMsg k (BmpModel.MPeerUp p e)) = [(rid, p, id)].
Proof. exact E2eIdsProofs.peer_up_recorded. Qed.
Print Assumptions C14_peer_up_recorded.

(* non-vacuity: router 0 connects, Peer Up x2; router 5 and a BGP session take ids; router 0 connects a SECOND time, its peers
   come up again - one under another BGP id / policy flag / distinguisher (shares id 3: C02-1) -; the old connection ends; a
   reload; disconnect; reconnect; a peer again: router 0 is handed id 2 three times, its peers keep 3 and 4 *)
Example C14_one_id_per_router_example :
  let st0 := E2eModel.d_init E2eModel.SNone 0 in
  let st := E2eModel.d_run st0 E2eIdsProofs.ids_example in
  N.of_nat (length E2eIdsProofs.ids_example) < two32 - 2 /\
  E2eIdsProofs.d_accepts st0 E2eIdsProofs.ids_example = [(0, 2); (5, 5); (0, 2); (0, 2)] /\
  E2eIdsProofs.d_peerups st0 E2eIdsProofs.ids_example =
    [(2, E2eIdsProofs.ids_pA, 3); (2, E2eIdsProofs.ids_pB, 4); (2, E2eIdsProofs.ids_pA, 3);
     (2, E2eIdsProofs.ids_pA', 3); (2, E2eIdsProofs.ids_pB, 4)] /\
  reg_ids_for_parent (E2eIdsProofs.d_reg st) 1 = [5; 2] /\ reg_ids_for_parent (E2eIdsProofs.d_reg st) 2 = [3; 4] /\
  serial (E2eIdsProofs.d_reg st) = 7 /\ E2eModel.d_rid st 0 = Some 2.
Proof. exact E2eIdsProofs.ids_example_facts. Qed.
