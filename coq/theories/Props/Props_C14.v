(* C14 — Ingress ids are unique per live source and stable across reconnects.
   Statements only; every proof is [exact <lemma>]. *)
From stdpp Require Import gmap.
From Coq Require Import NArith.
From RV Require Import Ingress.IngressModel Ingress.IngressProofs.
Local Open Scope N_scope.

(* Every id handed out by a registration (direct, or through find-or-register)
   along ANY history of calls is distinct from every other one, as long as the
   history is shorter than the u32 counter. Calls are atomic in the code
   (fetch_add / RwLock), so histories cover all interleavings. *)
Theorem C14_fresh : forall ops : list op,
  N.of_nat (length ops) < two32 - 1 -> NoDup (fresh_ids ops).
Proof. exact fresh_ids_nodup. Qed.
Print Assumptions C14_fresh.

(* ... and the bound is sharp: the counter wraps after 2^32 registrations. *)
Theorem C14_wrap_refuted : forall r, serial r < two32 ->
  fst (reg_register (reg_n (N.to_nat two32) r)) = fst (reg_register r).
Proof. exact register_wraps. Qed.
Print Assumptions C14_wrap_refuted.

(* A peer looked up by (parent, address, AS, RIB view) gets the id it had
   before, whatever disciplined calls happened in between, and it is the only
   candidate (so the hash-order "first match" of the code is determined). *)
Theorem C14_lookup_stable : forall ops1 q ops2,
  forallb disc (ops1 ++ OForPeer q :: ops2) = true ->
  N.of_nat (length (ops1 ++ OForPeer q :: ops2)) < two32 - 1 ->
  let r1 := fst (run ops1) in
  let id := fst (find_or_register peer_match r1 q) in
  let r2 := fst (run_from (snd (find_or_register peer_match r1 q)) ops2) in
  find_or_register peer_match r2 q = (id, r2) /\ reg_find_peers r2 q = [id].
Proof. exact lookup_stable_peer. Qed.
Print Assumptions C14_lookup_stable.

(* The same at the router level (bmp_tcp_in accept loop): a router looked up by
   (parent = the unit's id, remote address) gets the id it had before, and it is
   the only candidate. router_match compares (parent, address) only, so the
   discipline [disc_r units] must keep peer entries from answering router
   queries: [units] is any set of unit ids; router queries are complete and name
   a unit id as parent, peer queries name a parent that is NOT a unit id (in the
   callers: a router's id). *)
Theorem C14_lookup_stable_router : forall units ops1 q ops2,
  forallb (disc_r units) (ops1 ++ OForRouter q :: ops2) = true ->
  N.of_nat (length (ops1 ++ OForRouter q :: ops2)) < two32 - 1 ->
  let r1 := fst (run ops1) in
  let id := fst (find_or_register router_match r1 q) in
  let r2 := fst (run_from (snd (find_or_register router_match r1 q)) ops2) in
  find_or_register router_match r2 q = (id, r2) /\ reg_find_routers r2 q = [id].
Proof. exact lookup_stable_router. Qed.
Print Assumptions C14_lookup_stable_router.

(* ... with the unit ids read off the history itself ([units_of] = the parents its
   router queries name): [disc_hist] is a closed boolean condition on the history *)
Theorem C14_lookup_stable_router_hist : forall ops1 q ops2,
  disc_hist (ops1 ++ OForRouter q :: ops2) = true ->
  N.of_nat (length (ops1 ++ OForRouter q :: ops2)) < two32 - 1 ->
  let r1 := fst (run ops1) in
  let id := fst (find_or_register router_match r1 q) in
  let r2 := fst (run_from (snd (find_or_register router_match r1 q)) ops2) in
  find_or_register router_match r2 q = (id, r2) /\ reg_find_routers r2 q = [id].
Proof. exact lookup_stable_router_hist. Qed.
Print Assumptions C14_lookup_stable_router_hist.

(* ... and the separation of parents is needed: one peer registered under the
   router query's own (parent, address) and the router query has two candidates *)
Theorem C14_router_lookup_needs_discipline :
  let qr := MkInfo None (Some 1) (Some 9) None None None None None in
  let qp := MkInfo None (Some 1) (Some 9) (Some 65000) (Some 0) None None None in
  let ops := [ORegister; OForRouter qr; OForPeer qp] in
  forallb disc ops = true /\ disc_hist ops = false /\
  length (reg_find_routers (fst (run ops)) qr) = 2%nat.
Proof. exact router_lookup_needs_discipline. Qed.
Print Assumptions C14_router_lookup_needs_discipline.

Theorem C14_children_exact : forall r p id,
  id ∈ reg_ids_for_parent r p <-> exists i, infos r !! id = Some i /\ i_parent i = Some p.
Proof. exact elem_of_ids_for_parent. Qed.
Print Assumptions C14_children_exact.

Theorem C14_children_nodup : forall r p, NoDup (reg_ids_for_parent r p).
Proof. exact NoDup_ids_for_parent. Qed.
Print Assumptions C14_children_nodup.

Theorem C14_update_keeps_unsupplied : forall r id new old,
  infos r !! id = Some old ->
  exists res, infos (reg_update_info r id new) !! id = Some res /\
    field_updated (i_unit old) (i_unit new) (i_unit res) /\
    field_updated (i_parent old) (i_parent new) (i_parent res) /\
    field_updated (i_addr old) (i_addr new) (i_addr res) /\
    field_updated (i_asn old) (i_asn new) (i_asn res) /\
    field_updated (i_rib old) (i_rib new) (i_rib res) /\
    field_updated (i_file old) (i_file new) (i_file res) /\
    field_updated (i_name old) (i_name new) (i_name res) /\
    field_updated (i_desc old) (i_desc new) (i_desc res).
Proof. exact update_info_fields. Qed.
Print Assumptions C14_update_keeps_unsupplied.

Theorem C14_update_spares_others : forall r id new k,
  k <> id -> infos (reg_update_info r id new) !! k = infos r !! k.
Proof. exact update_info_others. Qed.
Print Assumptions C14_update_spares_others.

(* non-vacuity: a disciplined history with two sessions of one peer *)
Example C14_example :
  let q := MkInfo None (Some 7) (Some 1) (Some 65000) (Some 0) None None None in
  let ops1 := [ORegister; OForRouter (MkInfo None (Some 1) (Some 9) None None None None None)] in
  let ops2 := [OForPeer (MkInfo None (Some 7) (Some 2) (Some 65001) (Some 0) None None None);
               OUpdate 2 (MkInfo None None None None None None (Some 5) None)] in
  forallb disc (ops1 ++ OForPeer q :: ops2) = true /\
  fst (find_or_register peer_match (fst (run ops1)) q) = 3 /\
  fresh_ids (ops1 ++ OForPeer q :: ops2 ++ [OForPeer q]) = [1; 2; 3; 4].
Proof. vm_compute. repeat split; reflexivity. Qed.

(* non-vacuity of the router-level theorem: unit id 1, a router (1, addr 9) -> id 2,
   peers of that router (parent 2, one of them with the router's own address 9),
   a second router, descriptive updates; the history satisfies [disc_hist] (and
   [disc_r] for units = {1}); the router is found again under id 2, alone *)
Example C14_router_example :
  let q := MkInfo None (Some 1) (Some 9) None None None None None in
  let ops1 := [ORegister] in
  let ops2 := [OForPeer (MkInfo None (Some 2) (Some 9) (Some 65000) (Some 0) None None None);
               OForPeer (MkInfo None (Some 2) (Some 3) (Some 65001) None None None None);
               OForRouter (MkInfo None (Some 1) (Some 8) None None None None None);
               OUpdate 2 (MkInfo None None None None None None (Some 5) None)] in
  disc_hist (ops1 ++ OForRouter q :: ops2) = true /\
  forallb (disc_r (N.eqb 1)) (ops1 ++ OForRouter q :: ops2) = true /\
  fst (find_or_register router_match (fst (run ops1)) q) = 2 /\
  reg_find_routers (fst (run (ops1 ++ OForRouter q :: ops2))) q = [2] /\
  fresh_ids (ops1 ++ OForRouter q :: ops2 ++ [OForRouter q]) = [1; 2; 3; 4; 5].
Proof. vm_compute. repeat split; reflexivity. Qed.
