(* C17 — Output-stream messages reach their target once, in order, in a valid format.
   Statements only; every proof is [exact <lemma>].
   PARTIAL: what serde_json / csv print for a record is not modelled (a rendered
   record is the opaque symbol [SRec fmt record]); every line is parsed back by
   the correspondence harness instead. "No message can stop the target" is a
   statement about panics and is exercised by the harness; the model-level part
   is C17_file_later_messages_unaffected. *)
From Coq Require Import List NArith Bool.
From RV Require Import Targets.TargetsModel Targets.TargetsProofs.
Import ListNotations.
Local Open Scope N_scope.

(* file-out: for every history of updates, the file content is the output of
   every emitted message, once, in emission order, nothing else *)
Theorem C17_file_once_in_order : forall f us,
  file_out f us = flat_map (fun m => write_record f (m_rec m)) (messages us).
Proof. exact file_once_in_order. Qed.
Print Assumptions C17_file_once_in_order.

(* route updates, withdrawals, query results, status changes never produce output,
   wherever they are interleaved *)
Theorem C17_routes_produce_nothing : forall f us,
  (forall u, In u us -> is_output u = false) -> file_out f us = [].
Proof. exact routes_produce_nothing. Qed.
Print Assumptions C17_routes_produce_nothing.

Theorem C17_route_traffic_is_invisible : forall f us1 u us2,
  is_output u = false -> file_out f (us1 ++ u :: us2) = file_out f (us1 ++ us2).
Proof. exact file_out_insert. Qed.
Print Assumptions C17_route_traffic_is_invisible.

(* no message changes what is written for later ones *)
Theorem C17_file_later_messages_unaffected : forall f us1 us2,
  file_out f (us1 ++ us2) = file_out f us1 ++ file_out f us2.
Proof. exact file_out_app. Qed.
Print Assumptions C17_file_later_messages_unaffected.

(* the lines of the file are the lines of each message, message after message,
   and the file ends with a newline — for ALL histories *)
Theorem C17_file_lines_per_message : forall f us,
  lines_of (file_out f us) =
  (flat_map (fun r => fst (lines_of (write_record f r))) (records us), []).
Proof. exact file_lines_per_message. Qed.
Print Assumptions C17_file_lines_per_message.

(* exact number of lines for ALL histories: a record the csv serializer rejects
   gives none, custom text gives one more than it has newlines, the rest one *)
Theorem C17_file_line_count : forall f us,
  length (fst (lines_of (file_out f us))) = sum_nat (map (line_count f) (records us)) /\
  snd (lines_of (file_out f us)) = [].
Proof. exact file_line_count. Qed.
Print Assumptions C17_file_line_count.

(* one line per message that parses back to the emitted record: holds for the
   histories whose custom texts have no newline and whose routes the csv
   serializer accepts ... *)
Theorem C17_one_line_each_partial : forall f us,
  forallb (clean f) (records us) = true ->
  file_lines f us = map (expected_line f) (records us) /\
  snd (lines_of (file_out f us)) = [].
Proof. exact one_line_each_partial. Qed.
Print Assumptions C17_one_line_each_partial.

(* ... and exactly for those: any other record does not get one line *)
Theorem C17_unclean_record_not_one_line : forall f r,
  clean f r = false -> line_count f r <> 1%nat.
Proof. exact unclean_record_line. Qed.
Print Assumptions C17_unclean_record_not_one_line.

(* without the hypothesis the statement is false (known findings C17-newline, C17-csv-route) *)
Theorem C17_one_line_each_refuted :
  exists f us, file_lines f us <> map (expected_line f) (records us).
Proof. exact one_line_each_refuted_newline. Qed.
Print Assumptions C17_one_line_each_refuted.

Theorem C17_one_line_each_csv_refuted :
  exists us, file_lines FCsv us <> map (expected_line FCsv) (records us).
Proof. exact one_line_each_refuted_csv. Qed.
Print Assumptions C17_one_line_each_csv_refuted.

(* mqtt-out: for every interleaving of arriving updates, publish-loop steps,
   ingress registrations and client hand-overs in which the publish loop only
   runs while it has a client, once the queue is drained the client has been
   handed exactly the addressed messages, once, in emission order *)
Theorem C17_mqtt_once_in_order_partial : forall c h,
  publishes_connected false h = true ->
  ms_published (mqtt_drain (mqtt_run c h)) = mqtt_spec c [] h.
Proof. exact mqtt_once_in_order. Qed.
Print Assumptions C17_mqtt_once_in_order_partial.

(* ... and at every moment before that, a prefix of them *)
Theorem C17_mqtt_published_is_prefix_partial : forall c h,
  publishes_connected false h = true ->
  exists rest, mqtt_spec c [] h = ms_published (mqtt_run c h) ++ rest.
Proof. exact mqtt_published_prefix. Qed.
Print Assumptions C17_mqtt_published_is_prefix_partial.

(* without the hypothesis it is false: what the loop takes off the queue while
   there is no client is discarded (known finding C17-mqtt-no-client) *)
Theorem C17_mqtt_once_in_order_refuted :
  exists c h, ms_published (mqtt_drain (mqtt_run c h)) <> mqtt_spec c [] h.
Proof. exact mqtt_publish_without_client_refuted. Qed.
Print Assumptions C17_mqtt_once_in_order_refuted.

(* whatever the client does, for EVERY history: what the client is handed is the
   demanded sequence with some messages left out - never a duplicate, never out of
   order, never a message nobody addressed to the target *)
Theorem C17_mqtt_never_duplicates_reorders_invents : forall c h,
  sub (ms_published (mqtt_drain (mqtt_run c h))) (mqtt_spec c [] h).
Proof. exact mqtt_published_sub_spec. Qed.
Print Assumptions C17_mqtt_never_duplicates_reorders_invents.

(* selection: exactly the messages whose name is the component's name *)
Theorem C17_mqtt_selects_exactly : forall c r ms,
  select c r ms = map (mk_pub c r) (filter (addressed c) ms).
Proof. exact select_filter. Qed.
Print Assumptions C17_mqtt_selects_exactly.

Theorem C17_mqtt_addressed_means_same_name : forall c m,
  addressed c m = true <-> m_name m = mc_name c.
Proof. exact addressed_iff. Qed.
Print Assumptions C17_mqtt_addressed_means_same_name.

Theorem C17_mqtt_ignores_route_traffic : forall c r u,
  is_output u = false -> mqtt_enqueue c r u = [].
Proof. exact mqtt_ignores_non_output. Qed.
Print Assumptions C17_mqtt_ignores_route_traffic.

(* topic: the first "{id}" of the template (and, by the same equation, every
   later one) is replaced by the message's topic, which is not rescanned *)
Theorem C17_mqtt_topic_template : forall pre post topic,
  ~ In LBRACE pre ->
  topic_of (pre ++ id_pat ++ post) topic = pre ++ topic ++ topic_of post topic.
Proof. exact topic_template. Qed.
Print Assumptions C17_mqtt_topic_template.

Theorem C17_mqtt_topic_without_placeholder : forall tpl topic,
  ~ In LBRACE tpl -> topic_of tpl topic = tpl.
Proof. exact topic_no_placeholder. Qed.
Print Assumptions C17_mqtt_topic_without_placeholder.

(* non-vacuity: a clean history with every record kind, interleaved with route
   traffic; and an mqtt history where one of two messages is addressed *)
Example C17_example :
  let e := MkEntry 5 (Some 65000) None (Some 3) 1 0 None None None None in
  let us := [USingle (MkRoute 1 true);
             UOutput [MkOsm [109] [112] (RRoute (Some (MkRoute 2 true))) None;
                      MkOsm [109] [99] (RCustom 7 9) (Some 1)];
             UWithdraw 3 None;
             UOutput [MkOsm [109] [100] (RPeerdown 4 65001) None;
                      MkOsm [109] [108] (REntry (e (Some [104; 105]))) None;
                      MkOsm [109] [108] (REntry (e None)) None]] in
  forallb (clean FCsv) (records us) = true /\
  length (file_lines FCsv us) = 5%nat /\
  nth 3 (file_lines FJsonMin us) LGarbage = LText [104; 105] /\
  let c := MkCfg [109] [114; 47; 123; 105; 100; 125] 2 in
  map p_topic (mqtt_observe c [MClient true; MRegister 1 77;
       MUpdate (UOutput [MkOsm [120] [97] (RCustom 1 1) None; MkOsm [109] [98] (RCustom 2 2) (Some 1)]);
       MPublish; MUpdate (USingle (MkRoute 1 true))]) = [[114; 47; 98]].
Proof. vm_compute. repeat split; reflexivity. Qed.
